import NutilsVerif.Model.C06
import Mathlib.Tactic.Linarith
import Mathlib.Tactic.SplitIfs
/-!
# C06 — helper lemmas for the range transfer functions (Mathlib tactics: `nlinarith`, `split_ifs`)
-/
namespace NutilsVerif.C06
open PyNum

theorem valid_cases {r : Rng} (h : Valid r) :
    (∃ a b, r = (int a, int b) ∧ a ≤ b) ∨ (∃ b, r = (ninf, int b)) ∨ (∃ a, r = (int a, pinf)) ∨ r = (ninf, pinf) := by
  obtain ⟨l, u⟩ := r
  unfold Valid post at h
  cases l <;> cases u <;> simp [PyNum.isInt, PyNum.eq, PyNum.le, PyNum.lt] at h ⊢
  omega

@[simp] theorem mem_int_int (v a b : Int) : Mem v (int a, int b) ↔ a ≤ v ∧ v ≤ b := by
  simp [Mem, PyNum.le, PyNum.lt, PyNum.eq]; omega
@[simp] theorem mem_ninf_int (v b : Int) : Mem v (ninf, int b) ↔ v ≤ b := by
  simp [Mem, PyNum.le, PyNum.lt, PyNum.eq]; omega
@[simp] theorem mem_int_pinf (v a : Int) : Mem v (int a, pinf) ↔ a ≤ v := by
  simp [Mem, PyNum.le, PyNum.lt, PyNum.eq]; omega
@[simp] theorem mem_ninf_pinf (v : Int) : Mem v (ninf, pinf) ↔ True := by
  simp [Mem, PyNum.le, PyNum.lt, PyNum.eq]

@[simp] theorem valid_int_int (a b : Int) : Valid (int a, int b) ↔ a ≤ b := by
  simp [Valid, post, PyNum.isInt, PyNum.le, PyNum.lt, PyNum.eq]; omega
@[simp] theorem valid_ninf_int (b : Int) : Valid (ninf, int b) ↔ True := by
  simp [Valid, post, PyNum.isInt, PyNum.le, PyNum.lt, PyNum.eq]
@[simp] theorem valid_int_pinf (a : Int) : Valid (int a, pinf) ↔ True := by
  simp [Valid, post, PyNum.isInt, PyNum.le, PyNum.lt, PyNum.eq]
@[simp] theorem valid_ninf_pinf : Valid (ninf, pinf) ↔ True := by
  simp [Valid, post, PyNum.isInt, PyNum.le, PyNum.lt, PyNum.eq]


/-! ## order facts on `PyNum` (every comparison with `nan` is false, so `le` needs no side conditions) -/

/-- not `nan` -/
def NN (b : PyNum) : Prop := b ≠ nan

@[simp] theorem nn_int (z : Int) : NN (int z) := by simp [NN]
@[simp] theorem nn_ninf : NN ninf := by simp [NN]
@[simp] theorem nn_pinf : NN pinf := by simp [NN]
@[simp] theorem not_nn_nan : ¬ NN nan := by simp [NN]

@[simp] theorem le_int_int (p q : Int) : PyNum.le (int p) (int q) = true ↔ p ≤ q := by
  simp [PyNum.le, PyNum.lt, PyNum.eq]; omega
@[simp] theorem lt_int_int (p q : Int) : PyNum.lt (int p) (int q) = true ↔ p < q := by
  simp [PyNum.lt]
@[simp] theorem eq_int_int (p q : Int) : PyNum.eq (int p) (int q) = true ↔ p = q := by
  simp [PyNum.eq]
@[simp] theorem le_ninf_left {b : PyNum} (h : NN b) : PyNum.le ninf b = true := by
  cases b <;> simp_all [PyNum.le, PyNum.lt, PyNum.eq]
@[simp] theorem le_pinf_right {b : PyNum} (h : NN b) : PyNum.le b pinf = true := by
  cases b <;> simp_all [PyNum.le, PyNum.lt, PyNum.eq]
@[simp] theorem le_int_ninf (p : Int) : PyNum.le (int p) ninf = false := by simp [PyNum.le, PyNum.lt, PyNum.eq]
@[simp] theorem le_pinf_int (p : Int) : PyNum.le pinf (int p) = false := by simp [PyNum.le, PyNum.lt, PyNum.eq]
@[simp] theorem le_pinf_ninf : PyNum.le pinf ninf = false := by simp [PyNum.le, PyNum.lt, PyNum.eq]
@[simp] theorem le_nan_left (b : PyNum) : PyNum.le nan b = false := by cases b <;> simp [PyNum.le, PyNum.lt, PyNum.eq]
@[simp] theorem le_nan_right (b : PyNum) : PyNum.le b nan = false := by cases b <;> simp [PyNum.le, PyNum.lt, PyNum.eq]

theorem le_nn_left {a b : PyNum} (h : PyNum.le a b = true) : NN a := by
  intro h'; subst h'; simp at h
theorem le_nn_right {a b : PyNum} (h : PyNum.le a b = true) : NN b := by
  intro h'; subst h'; simp at h

theorem le_refl' {a : PyNum} (h : NN a) : PyNum.le a a = true := by
  cases a <;> simp_all [PyNum.le, PyNum.lt, PyNum.eq]

theorem le_trans' {a b c : PyNum} (h1 : PyNum.le a b = true) (h2 : PyNum.le b c = true) : PyNum.le a c = true := by
  cases a <;> cases b <;> cases c <;> simp_all [PyNum.le, PyNum.lt, PyNum.eq] <;> omega

/-- for non-`nan` numbers the order is total: `¬ b < a → a ≤ b` -/
theorem le_of_not_lt {a b : PyNum} (ha : NN a) (hb : NN b) (h : PyNum.lt b a = false) : PyNum.le a b = true := by
  cases a <;> cases b <;> simp_all [PyNum.le, PyNum.lt, PyNum.eq] <;> omega

theorem le_of_lt {a b : PyNum} (h : PyNum.lt a b = true) : PyNum.le a b = true := by
  simp [PyNum.le, h]

theorem lt_nn_left {a b : PyNum} (h : PyNum.lt a b = true) : NN a := le_nn_left (le_of_lt h)
theorem lt_nn_right {a b : PyNum} (h : PyNum.lt a b = true) : NN b := le_nn_right (le_of_lt h)

/-! ## builtin `min` / `max` -/

theorem min2_nn {a b : PyNum} (ha : NN a) (hb : NN b) : NN (min2 a b) := by
  unfold min2; split <;> assumption
theorem max2_nn {a b : PyNum} (ha : NN a) (hb : NN b) : NN (max2 a b) := by
  unfold max2; split <;> assumption

theorem min2_le_left {a b c : PyNum} (h : PyNum.le a c = true) : PyNum.le (min2 a b) c = true := by
  unfold min2; split
  · rename_i hlt; exact le_trans' (le_of_lt hlt) h
  · exact h
theorem min2_le_right {a b c : PyNum} (ha : NN a) (h : PyNum.le b c = true) : PyNum.le (min2 a b) c = true := by
  unfold min2; split
  · exact h
  · rename_i hlt; exact le_trans' (le_of_not_lt ha (le_nn_left h) (by simpa using hlt)) h
theorem max2_ge_left {a b c : PyNum} (h : PyNum.le c a = true) : PyNum.le c (max2 a b) = true := by
  unfold max2; split
  · rename_i hlt; exact le_trans' h (le_of_lt hlt)
  · exact h
theorem max2_ge_right {a b c : PyNum} (ha : NN a) (h : PyNum.le c b = true) : PyNum.le c (max2 a b) = true := by
  unfold max2; split
  · exact h
  · rename_i hlt; exact le_trans' h (le_of_not_lt (le_nn_right h) ha (by simpa using hlt))

/-- a lower bound of both is a lower bound of `min(a, b)` -/
theorem le_min2 {a b c : PyNum} (h1 : PyNum.le c a = true) (h2 : PyNum.le c b = true) : PyNum.le c (min2 a b) = true := by
  unfold min2; split <;> assumption
theorem max2_le {a b c : PyNum} (h1 : PyNum.le a c = true) (h2 : PyNum.le b c = true) : PyNum.le (max2 a b) c = true := by
  unfold max2; split <;> assumption

theorem minL4 (e1 e2 e3 e4 : PyNum) : minL [e1, e2, e3, e4] = min2 (min2 (min2 e1 e2) e3) e4 := rfl
theorem maxL4 (e1 e2 e3 e4 : PyNum) : maxL [e1, e2, e3, e4] = max2 (max2 (max2 e1 e2) e3) e4 := rfl

theorem minL4_le {e1 e2 e3 e4 c : PyNum} (h1 : NN e1) (h2 : NN e2) (h3 : NN e3)
    (h : PyNum.le e1 c = true ∨ PyNum.le e2 c = true ∨ PyNum.le e3 c = true ∨ PyNum.le e4 c = true) :
    PyNum.le (minL [e1, e2, e3, e4]) c = true := by
  rw [minL4]
  rcases h with h | h | h | h
  · exact min2_le_left (min2_le_left (min2_le_left h))
  · exact min2_le_left (min2_le_left (min2_le_right h1 h))
  · exact min2_le_left (min2_le_right (min2_nn h1 h2) h)
  · exact min2_le_right (min2_nn (min2_nn h1 h2) h3) h

theorem maxL4_ge {e1 e2 e3 e4 c : PyNum} (h1 : NN e1) (h2 : NN e2) (h3 : NN e3)
    (h : PyNum.le c e1 = true ∨ PyNum.le c e2 = true ∨ PyNum.le c e3 = true ∨ PyNum.le c e4 = true) :
    PyNum.le c (maxL [e1, e2, e3, e4]) = true := by
  rw [maxL4]
  rcases h with h | h | h | h
  · exact max2_ge_left (max2_ge_left (max2_ge_left h))
  · exact max2_ge_left (max2_ge_left (max2_ge_right h1 h))
  · exact max2_ge_left (max2_ge_right (max2_nn h1 h2) h)
  · exact max2_ge_right (max2_nn (max2_nn h1 h2) h3) h

/-- a range with non-`nan` endpoints that contains an integer passes the validation of `_intbounds` -/
theorem valid_of_mem {l u : PyNum} {v : Int} (h : Mem v (l, u)) : Valid (l, u) := by
  obtain ⟨h1, h2⟩ := h
  have h3 := le_trans' h1 h2
  cases l <;> cases u <;> simp_all [Valid, post, PyNum.isInt, PyNum.eq]

theorem valid_nn {r : Rng} (h : Valid r) : NN r.1 ∧ NN r.2 := by
  rcases valid_cases h with ⟨a, b, rfl, _⟩ | ⟨b, rfl⟩ | ⟨a, rfl⟩ | rfl <;> simp

theorem valid_le {r : Rng} (h : Valid r) : PyNum.le r.1 r.2 = true := by
  rcases valid_cases h with ⟨a, b, rfl, hab⟩ | ⟨b, rfl⟩ | ⟨a, rfl⟩ | rfl
  · simp [hab]
  all_goals simp

/-- a valid range is inhabited -/
theorem valid_inhabited {r : Rng} (h : Valid r) : ∃ v, Mem v r := by
  rcases valid_cases h with ⟨a, b, rfl, hab⟩ | ⟨b, rfl⟩ | ⟨a, rfl⟩ | rfl
  · exact ⟨a, by simp [hab]⟩
  · exact ⟨b, by simp⟩
  · exact ⟨a, by simp⟩
  · exact ⟨0, by simp⟩

/-- ranges are convex -/
theorem mem_convex {r : Rng} {a b v : Int} (ha : Mem a r) (hb : Mem b r) (h1 : a ≤ v) (h2 : v ≤ b) : Mem v r :=
  ⟨le_trans' ha.1 (by simpa using h1), le_trans' (by simpa using h2) hb.2⟩

/-! ## the guarded product `b1 and b2 and b1 * b2` -/

@[simp] theorem andMul_int_int (a c : Int) : andMul (int a) (int c) = int (a * c) := by
  unfold andMul
  by_cases ha : a = 0 <;> by_cases hc : c = 0 <;> simp [PyNum.truthy, PyNum.mul, ha, hc]

theorem andMul_nn {a b : PyNum} (ha : NN a) (hb : NN b) : NN (andMul a b) := by
  unfold andMul
  cases a <;> cases b <;> simp_all [PyNum.truthy, PyNum.mul] <;> (try split_ifs) <;> simp_all <;> omega

theorem andMul_comm {a b : PyNum} (ha : NN a) (hb : NN b) : andMul a b = andMul b a := by
  unfold andMul
  cases a <;> cases b <;> simp_all [PyNum.truthy, PyNum.mul, Int.mul_comm] <;> (try split_ifs) <;> simp_all


theorem andMul_int_pinf (a : Int) : andMul (int a) pinf = if a = 0 then int 0 else if 0 < a then pinf else ninf := by
  rcases lt_trichotomy a 0 with h | h | h
  · have h1 : ¬ a = 0 := by omega
    have h2 : ¬ 0 < a := by omega
    simp [andMul, PyNum.truthy, PyNum.mul, h, h1, h2]
  · simp [andMul, PyNum.truthy, h]
  · have h1 : ¬ a = 0 := by omega
    simp [andMul, PyNum.truthy, PyNum.mul, h, h1]
theorem andMul_int_ninf (a : Int) : andMul (int a) ninf = if a = 0 then int 0 else if 0 < a then ninf else pinf := by
  rcases lt_trichotomy a 0 with h | h | h
  · have h1 : ¬ a = 0 := by omega
    have h2 : ¬ 0 < a := by omega
    simp [andMul, PyNum.truthy, PyNum.mul, h, h1, h2]
  · simp [andMul, PyNum.truthy, h]
  · have h1 : ¬ a = 0 := by omega
    simp [andMul, PyNum.truthy, PyNum.mul, h, h1]
theorem andMul_pinf_int (a : Int) : andMul pinf (int a) = if a = 0 then int 0 else if 0 < a then pinf else ninf := by
  rw [andMul_comm (by simp) (by simp), andMul_int_pinf]
theorem andMul_ninf_int (a : Int) : andMul ninf (int a) = if a = 0 then int 0 else if 0 < a then ninf else pinf := by
  rw [andMul_comm (by simp) (by simp), andMul_int_ninf]
@[simp] theorem andMul_pinf_pinf : andMul pinf pinf = pinf := rfl
@[simp] theorem andMul_ninf_ninf : andMul ninf ninf = pinf := rfl
@[simp] theorem andMul_pinf_ninf : andMul pinf ninf = ninf := rfl
@[simp] theorem andMul_ninf_pinf : andMul ninf pinf = ninf := rfl

macro "pyarith" : tactic =>
  `(tactic| first | omega | nlinarith | (left; omega) | (right; omega) | (left; nlinarith) | (right; nlinarith))

theorem mul_mono_lower_int (a c x k : Int) (h : a ≤ x ∧ x ≤ c) : a * k ≤ x * k ∨ c * k ≤ x * k := by
  rcases le_or_gt 0 k with hk | hk
  · left; nlinarith
  · right; nlinarith
theorem mul_mono_upper_int (a c x k : Int) (h : a ≤ x ∧ x ≤ c) : x * k ≤ a * k ∨ x * k ≤ c * k := by
  rcases le_or_gt 0 k with hk | hk
  · right; nlinarith
  · left; nlinarith

/-- multiplication by a fixed non-`nan` factor is monotone or antitone: one endpoint product is below … -/
theorem andMul_mono_lower {r : Rng} (hr : Valid r) {x : Int} (hx : Mem x r) {b : PyNum} (hb : NN b) :
    PyNum.le (andMul r.1 b) (andMul (int x) b) = true ∨ PyNum.le (andMul r.2 b) (andMul (int x) b) = true := by
  rcases valid_cases hr with ⟨a, c, rfl, hac⟩ | ⟨c, rfl⟩ | ⟨a, rfl⟩ | rfl <;> cases b <;>
    simp only [andMul_int_int, andMul_int_pinf, andMul_int_ninf, andMul_pinf_int, andMul_ninf_int, andMul_pinf_pinf,
      andMul_ninf_ninf, andMul_pinf_ninf, andMul_ninf_pinf, mem_int_int, mem_ninf_int, mem_int_pinf, mem_ninf_pinf, not_nn_nan] at hx hb ⊢ <;>
    (try split_ifs) <;> (try simp_all) <;> (try pyarith) <;> (try exact mul_mono_lower_int _ _ _ _ hx)

/-- … and one endpoint product is above -/
theorem andMul_mono_upper {r : Rng} (hr : Valid r) {x : Int} (hx : Mem x r) {b : PyNum} (hb : NN b) :
    PyNum.le (andMul (int x) b) (andMul r.1 b) = true ∨ PyNum.le (andMul (int x) b) (andMul r.2 b) = true := by
  rcases valid_cases hr with ⟨a, c, rfl, hac⟩ | ⟨c, rfl⟩ | ⟨a, rfl⟩ | rfl <;> cases b <;>
    simp only [andMul_int_int, andMul_int_pinf, andMul_int_ninf, andMul_pinf_int, andMul_ninf_int, andMul_pinf_pinf,
      andMul_ninf_ninf, andMul_pinf_ninf, andMul_ninf_pinf, mem_int_int, mem_ninf_int, mem_int_pinf, mem_ninf_pinf, not_nn_nan] at hx hb ⊢ <;>
    (try split_ifs) <;> (try simp_all) <;> (try pyarith) <;> (try exact mul_mono_upper_int _ _ _ _ hx)

end NutilsVerif.C06
