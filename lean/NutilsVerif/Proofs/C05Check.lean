import NutilsVerif.Proofs.C05Index
import NutilsVerif.Proofs.C05Scatter
/-!
# C05: the certified checkers accept exactly the data that denote the dense array  (no Mathlib)
-/
namespace NutilsVerif.C05
open NutilsVerif

section
variable {α : Type} [Inhabited α]

/-- **The property for COO data**: `(values, indices, shape)` denote the dense tensor -/
structure CooDenotes (add : α → α → α) (zero : α) (shape : List Nat) (indices : List (List Nat)) (values : List α)
    (dense : Tensor α) : Prop where
  /-- one index tuple per value -/
  length : indices.length = values.length
  /-- the dense array has the announced shape -/
  shape_eq : dense.shape = shape
  /-- every index tuple lies inside the announced shape -/
  inRange : ∀ t ∈ indices, inBox shape t = true
  /-- index tuples are (pairwise) strictly lexicographically increasing -/
  sorted : indices.Pairwise (fun a b => lexLt a b = true)
  /-- hence unique -/
  nodup : indices.Nodup
  /-- scattering the listed values into zeros reproduces the dense array: every entry of the box is the sum of
  all values listed at its position (additive meaning, `numeric.accumulate`) -/
  denotes : ∀ idx, inBox shape idx = true → dense.get idx = scatterSum add zero indices values idx

/-- **The property for CSR data** `(values, rowptr, colidx, ncols)` of an `nrows × ncols` array -/
structure CsrDenotes (add : α → α → α) (zero : α) (nrows ncols : Nat) (rowptr colidx : List Nat) (values : List α)
    (dense : Tensor α) : Prop where
  rowptr_length : rowptr.length = nrows + 1
  rowptr_first : rowptr.head? = some 0
  /-- row pointers are monotone -/
  rowptr_mono : rowptr.Pairwise (· ≤ ·)
  rowptr_last : rowptr.getLast? = some values.length
  colidx_length : colidx.length = values.length
  colidx_range : ∀ c ∈ colidx, c < ncols
  /-- column indices strictly increase within each row -/
  row_sorted : ∀ i, i < nrows → (rowSlice colidx rowptr i).Pairwise (· < ·)
  shape_eq : dense.shape = [nrows, ncols]
  /-- every dense entry is the sum of the values listed in its row at its column -/
  denotes : ∀ i j, i < nrows → j < ncols →
    dense.get [i, j] = scatterSum add zero (rowSlice colidx rowptr i) (rowSlice values rowptr i) j

variable [BEq α] [LawfulBEq α]

theorem checkCOO_iff_clauses (zero : α) (shape : List Nat) (indices : List (List Nat)) (values : List α) (dense : Tensor α) :
    checkCOO zero shape indices values dense = true ↔
      (indices.length = values.length ∧ dense.shape = shape ∧ (∀ t ∈ indices, inBox shape t = true) ∧
       strictLexSorted indices = true ∧
       ∀ idx ∈ Tensor.indices shape, dense.get idx = lookup zero indices values idx) := by
  simp [checkCOO, cooClauses]

/-- soundness of the COO checker -/
theorem checkCOO_sound' (add : α → α → α) (zero : α) (hz : ∀ a, add zero a = a) (shape : List Nat)
    (indices : List (List Nat)) (values : List α) (dense : Tensor α)
    (h : checkCOO zero shape indices values dense = true) : CooDenotes add zero shape indices values dense := by
  obtain ⟨hlen, hshape, hrange, hsorted, hscatter⟩ := (checkCOO_iff_clauses zero shape indices values dense).1 h
  have hnodup := strictLex_nodup' hsorted
  refine ⟨hlen, hshape, hrange, strictLexSorted_pairwise hsorted, hnodup, fun idx hidx => ?_⟩
  rw [hscatter idx (mem_indices_of_inBox hidx), scatterSum_eq_lookup add zero hz indices values idx hlen hnodup]

/-- completeness of the COO checker: it rejects nothing that satisfies the property -/
theorem checkCOO_complete' (add : α → α → α) (zero : α) (hz : ∀ a, add zero a = a) (shape : List Nat)
    (indices : List (List Nat)) (values : List α) (dense : Tensor α)
    (h : CooDenotes add zero shape indices values dense) : checkCOO zero shape indices values dense = true := by
  refine (checkCOO_iff_clauses zero shape indices values dense).2
    ⟨h.length, h.shape_eq, h.inRange, pairwise_strictLexSorted h.sorted, fun idx hidx => ?_⟩
  rw [h.denotes idx (inBox_of_mem_indices hidx), scatterSum_eq_lookup add zero hz indices values idx h.length h.nodup]

theorem firstFailed_none_iff (cl : List (String × Bool)) : firstFailed cl = none ↔ cl.all (·.2) = true := by
  simp [firstFailed, List.find?_eq_none]

theorem rowSlice_length_eq {β γ : Type} (l : List β) (m : List γ) (rp : List Nat) (i : Nat) (h : l.length = m.length) :
    (rowSlice l rp i).length = (rowSlice m rp i).length := by
  simp [rowSlice, h]

theorem checkCSR_iff_clauses (zero : α) (nrows ncols : Nat) (rowptr colidx : List Nat) (values : List α) (dense : Tensor α) :
    checkCSR zero nrows ncols rowptr colidx values dense = true ↔
      (rowptr.length = nrows + 1 ∧ rowptr.head? = some 0 ∧ monotone rowptr = true ∧
       rowptr.getLast? = some values.length ∧ colidx.length = values.length ∧ (∀ c ∈ colidx, c < ncols) ∧
       (∀ i, i < nrows → strictInc (rowSlice colidx rowptr i) = true) ∧ dense.shape = [nrows, ncols] ∧
       ∀ i, i < nrows → ∀ j, j < ncols →
         dense.get [i, j] = lookup zero (rowSlice colidx rowptr i) (rowSlice values rowptr i) j) := by
  simp [checkCSR, csrClauses]

/-- soundness of the CSR checker -/
theorem checkCSR_sound' (add : α → α → α) (zero : α) (hz : ∀ a, add zero a = a) (nrows ncols : Nat)
    (rowptr colidx : List Nat) (values : List α) (dense : Tensor α)
    (h : checkCSR zero nrows ncols rowptr colidx values dense = true) :
    CsrDenotes add zero nrows ncols rowptr colidx values dense := by
  obtain ⟨h1, h2, h3, h4, h5, h6, h7, h8, h9⟩ := (checkCSR_iff_clauses zero nrows ncols rowptr colidx values dense).1 h
  refine ⟨h1, h2, monotone_pairwise h3, h4, h5, h6, fun i hi => strictInc_pairwise (h7 i hi), h8, fun i j hi hj => ?_⟩
  rw [h9 i hi j hj, scatterSum_eq_lookup add zero hz _ _ j (rowSlice_length_eq colidx values rowptr i h5)
    (strictInc_nodup (h7 i hi))]

/-- completeness of the CSR checker -/
theorem checkCSR_complete' (add : α → α → α) (zero : α) (hz : ∀ a, add zero a = a) (nrows ncols : Nat)
    (rowptr colidx : List Nat) (values : List α) (dense : Tensor α)
    (h : CsrDenotes add zero nrows ncols rowptr colidx values dense) :
    checkCSR zero nrows ncols rowptr colidx values dense = true := by
  refine (checkCSR_iff_clauses zero nrows ncols rowptr colidx values dense).2
    ⟨h.rowptr_length, h.rowptr_first, pairwise_monotone h.rowptr_mono, h.rowptr_last, h.colidx_length, h.colidx_range,
     fun i hi => pairwise_strictInc (h.row_sorted i hi), h.shape_eq, fun i hi j hj => ?_⟩
  rw [h.denotes i j hi hj, scatterSum_eq_lookup add zero hz _ _ j (rowSlice_length_eq colidx values rowptr i h.colidx_length)
    ((h.row_sorted i hi).imp fun hab => Nat.ne_of_lt hab)]

end

end NutilsVerif.C05
