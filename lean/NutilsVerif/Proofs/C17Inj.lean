import NutilsVerif.Proofs.C17Lemmas
/-!
# C17 — `nutils_hash` is injective up to `Equiv` (core induction)
-/
namespace NutilsVerif.C17

variable {H : Bytes → Bytes}

/-- the statement proved for every value by structural induction -/
def InjAt (H : Bytes → Bytes) (reg : Registry) (v : Value) : Prop :=
  ∀ (w : Value) (r : Role), wf r v = true → wf r w = true → respects reg v = true → respects reg w = true →
    CollisionFree H (fed H v) (fed H w) → emit H v = emit H w → Equiv v w

theorem respects_regOK (reg : Registry) (v : Value) (h : respects reg v = true) : regOK reg v = true := by
  cases v <;> simp only [respects, Bool.and_eq_true] at h <;> first | exact h | exact h.1 | exact h.1.1 | simp [regOK, kind]

theorem emit_obj (v : Value) (h : wf .obj v = true) : emit H v = H (pre H v) := by
  cases v <;> simp [wf] at h <;> simp [emit, emit1, pre, shape]

theorem pre_mem_fed (v : Value) (h : wf .obj v = true) : pre H v ∈ fed H v := by
  cases v <;> simp [wf] at h <;> simp [fed]

theorem shape_obj (v : Value) (h : wf .obj v = true) : shape v = .tagged ∨ ∃ p, v = .opaque p ∧ (0:UInt8) ∉ p := by
  cases v <;> simp [wf] at h <;> simp [shape]
  simpa [noNul] using h

/-- one hashing step of two objects: equal digests give equal tags, equal bodies and equal hashing branches -/
theorem obj_step (reg : Registry) (v w : Value) (hv : wf .obj v = true) (hw : wf .obj w = true)
    (rv : respects reg v = true) (rw' : respects reg w = true)
    (cf : CollisionFree H (fed H v) (fed H w)) (he : emit H v = emit H w) :
    (∃ p, v = .opaque p ∧ w = .opaque p) ∨
    (shape v = .tagged ∧ shape w = .tagged ∧ kind v = kind w ∧ tagB v = tagB w ∧ body H v = body H w) := by
  rw [emit_obj v hv, emit_obj w hw] at he
  have hp := cf _ (pre_mem_fed v hv) _ (pre_mem_fed w hw) he
  rcases shape_obj v hv with sv | ⟨p, rfl, hp0⟩ <;> rcases shape_obj w hw with sw | ⟨q, rfl, hq0⟩
  · right
    simp only [pre, sv, sw] at hp
    have := split_nul (tag_nonul v hv sv) (tag_nonul w hw sw) hp
    refine ⟨sv, sw, ?_, this.1, this.2⟩
    have r1 := respects_regOK reg v rv
    have r2 := respects_regOK reg w rw'
    unfold regOK at r1 r2
    cases hkv : kind v with
    | none => cases v <;> simp [kind] at hkv <;> simp [shape] at sv
    | some kv =>
      cases hkw : kind w with
      | none => cases w <;> simp [kind] at hkw <;> simp [shape] at sw
      | some kw =>
        simp only [hkv, hkw, beq_iff_eq] at r1 r2
        rw [this.1, r2] at r1
        exact r1.symm
  · exfalso
    have e1 : pre H v = tagB v ++ 0 :: body H v := by simp only [pre, sv]
    have e2 : pre H (.opaque q) = q := by simp [pre, shape, body]
    rw [e1, e2] at hp
    exact hq0 (hp ▸ by simp)
  · exfalso
    have e1 : pre H w = tagB w ++ 0 :: body H w := by simp only [pre, sw]
    have e2 : pre H (.opaque p) = p := by simp [pre, shape, body]
    rw [e1, e2] at hp
    exact hp0 (hp ▸ by simp)
  · left
    simp only [pre, shape, body] at hp
    exact ⟨p, rfl, by rw [hp]⟩

/-! ### children -/

theorem pointwise (reg : Registry) (r : Role) : ∀ (xs ys : List Value), (∀ x ∈ xs, InjAt H reg x) →
    (∀ x ∈ xs, wf r x = true) → (∀ y ∈ ys, wf r y = true) →
    (∀ x ∈ xs, respects reg x = true) → (∀ y ∈ ys, respects reg y = true) →
    CollisionFree H (fedL H xs) (fedL H ys) → xs.map (emit H) = ys.map (emit H) → EquivL xs ys
  | [], [], _, _, _, _, _, _, _ => .nil
  | [], _ :: _, _, _, _, _, _, _, h => by simp at h
  | _ :: _, [], _, _, _, _, _, _, h => by simp at h
  | x :: xs, y :: ys, ih, wx, wy, rx, ry, cf, h => by
    simp only [List.map_cons, List.cons.injEq] at h
    refine .cons ?_ ?_
    · refine ih x List.mem_cons_self y r (wx x List.mem_cons_self) (wy y List.mem_cons_self)
        (rx x List.mem_cons_self) (ry y List.mem_cons_self) (cf.mono ?_ ?_) h.1
      · intro a ha; exact mem_fedL.mpr ⟨x, List.mem_cons_self, ha⟩
      · intro a ha; exact mem_fedL.mpr ⟨y, List.mem_cons_self, ha⟩
    · refine pointwise reg r xs ys (fun a ha => ih a (List.mem_cons_of_mem _ ha))
        (fun a ha => wx a (List.mem_cons_of_mem _ ha)) (fun a ha => wy a (List.mem_cons_of_mem _ ha))
        (fun a ha => rx a (List.mem_cons_of_mem _ ha)) (fun a ha => ry a (List.mem_cons_of_mem _ ha)) (cf.mono ?_ ?_) h.2
      · intro a ha
        obtain ⟨z, hz, hza⟩ := mem_fedL.mp ha
        exact mem_fedL.mpr ⟨z, List.mem_cons_of_mem _ hz, hza⟩
      · intro a ha
        obtain ⟨z, hz, hza⟩ := mem_fedL.mp ha
        exact mem_fedL.mpr ⟨z, List.mem_cons_of_mem _ hz, hza⟩

theorem roleLen_pos (r : Role) : 0 < roleLen r := by cases r <;> simp [roleLen]

/-- ordered children: `h.update(nutils_hash(item))` for each item -/
theorem seq_children (hlen : ∀ b, (H b).length = 20) (reg : Registry) (xs ys : List Value) (ih : ∀ x ∈ xs, InjAt H reg x)
    (wx : wfL .obj xs = true) (wy : wfL .obj ys = true) (rx : respectsL reg xs = true) (ry : respectsL reg ys = true)
    (cf : CollisionFree H (fedL H xs) (fedL H ys)) (h : (emitL H xs).flatten = (emitL H ys).flatten) : EquivL xs ys := by
  rw [wfL_iff] at wx wy
  rw [respectsL_iff] at rx ry
  rw [emitL_eq_map, emitL_eq_map] at h
  refine pointwise reg .obj xs ys ih wx wy rx ry cf (flatten_inj_len (L := 20) (by omega) ?_ ?_ h)
  · intro b hb
    obtain ⟨x, hx, rfl⟩ := List.mem_map.mp hb
    exact emit_obj_len hlen x (wx x hx)
  · intro b hb
    obtain ⟨x, hx, rfl⟩ := List.mem_map.mp hb
    exact emit_obj_len hlen x (wy x hx)

/-- unordered children: `for item in sorted(...): h.update(item)` -/
theorem sorted_children (hlen : ∀ b, (H b).length = 20) (reg : Registry) (r : Role) (xs ys : List Value)
    (ih : ∀ x ∈ xs, InjAt H reg x)
    (wx : wfL r xs = true) (wy : wfL r ys = true) (rx : respectsL reg xs = true) (ry : respectsL reg ys = true)
    (cf : CollisionFree H (fedL H xs) (fedL H ys))
    (h : (sortB (emitL H xs)).flatten = (sortB (emitL H ys)).flatten) : ∃ ys', ys.Perm ys' ∧ EquivL xs ys' := by
  rw [wfL_iff] at wx wy
  rw [respectsL_iff] at rx ry
  rw [emitL_eq_map, emitL_eq_map] at h
  have hs : sortB (xs.map (emit H)) = sortB (ys.map (emit H)) := by
    refine flatten_inj_len (roleLen_pos r) ?_ ?_ h
    · intro b hb
      have hb' := (List.mergeSort_perm _ _).subset hb
      obtain ⟨x, hx, rfl⟩ := List.mem_map.mp hb'
      exact emit_len hlen x r (wx x hx)
    · intro b hb
      have hb' := (List.mergeSort_perm _ _).subset hb
      obtain ⟨x, hx, rfl⟩ := List.mem_map.mp hb'
      exact emit_len hlen x r (wy x hx)
  have hp : (xs.map (emit H)).Perm (ys.map (emit H)) := by
    have h1 := List.mergeSort_perm (xs.map (emit H)) bytesLe
    have h2 := List.mergeSort_perm (ys.map (emit H)) bytesLe
    unfold sortB at hs
    exact h1.symm.trans (hs ▸ h2)
  obtain ⟨ys', hperm, hmap⟩ := perm_map_lift (emit H) (emit H) xs ys hp
  refine ⟨ys', hperm, pointwise reg r xs ys' ih wx (fun y hy => wy y (hperm.symm.subset hy)) rx
    (fun y hy => ry y (hperm.symm.subset hy)) (cf.mono (fun _ ha => ha) ?_) hmap⟩
  intro a ha
  obtain ⟨z, hz, hza⟩ := mem_fedL.mp ha
  exact mem_fedL.mpr ⟨z, hperm.symm.subset hz, hza⟩

end NutilsVerif.C17
