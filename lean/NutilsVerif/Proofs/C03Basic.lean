import NutilsVerif.Model.C03
/-! C03 — basic lemmas: state updates, generic invariant preservation, origin soundness, frame of argument buffers -/
namespace NutilsVerif.C03
variable {D : Type}

@[simp] theorem setEnv_env (st : St D) (v : Var) (r : Ref) (x : Var) :
    (setEnv st v r).env x = if x = v then some r else st.env x := rfl
@[simp] theorem setEnv_heap (st : St D) (v : Var) (r : Ref) : (setEnv st v r).heap = st.heap := rfl
@[simp] theorem setEnv_err (st : St D) (v : Var) (r : Ref) : (setEnv st v r).err = st.err := rfl
@[simp] theorem setEnv_first (st : St D) (v : Var) (r : Ref) : (setEnv st v r).first = st.first := rfl
@[simp] theorem setHeap_env (st : St D) (l : Loc) (d : D) : (setHeap st l d).env = st.env := rfl
@[simp] theorem setHeap_heap (st : St D) (l : Loc) (d : D) (x : Loc) :
    (setHeap st l d).heap x = if x = l then d else st.heap x := rfl
@[simp] theorem setHeap_err (st : St D) (l : Loc) (d : D) : (setHeap st l d).err = st.err := rfl
@[simp] theorem setHeap_first (st : St D) (l : Loc) (d : D) : (setHeap st l d).first = st.first := rfl
@[simp] theorem fail_env (st : St D) (e : Err) : (fail st e).env = st.env := rfl
@[simp] theorem fail_heap (st : St D) (e : Err) : (fail st e).heap = st.heap := rfl
@[simp] theorem fail_err (st : St D) (e : Err) : (fail st e).err = some e := rfl
@[simp] theorem fail_first (st : St D) (e : Err) : (fail st e).first = st.first := rfl
@[simp] theorem alloc_env (st : St D) (v : Var) (d : D) (x : Var) :
    (alloc st v d).env x = if x = v then some ⟨.var v, [], true⟩ else st.env x := rfl
@[simp] theorem alloc_heap (st : St D) (v : Var) (d : D) (x : Loc) :
    (alloc st v d).heap x = if x = .var v then d else st.heap x := rfl
@[simp] theorem alloc_err (st : St D) (v : Var) (d : D) : (alloc st v d).err = st.err := rfl
@[simp] theorem alloc_first (st : St D) (v : Var) (d : D) : (alloc st v d).first = st.first := rfl

/-- an exception freezes the state -/
theorem execB_err (I : Interp D) (args : Args D) (b : Basic) (st : St D) (e : Err) (h : st.err = some e) :
    execB I args b st = st := by
  unfold execB; rw [h]

theorem bindIdx_err (I : Interp D) (i : Var) (j : Nat) (st : St D) (e : Err) (h : st.err = some e) :
    bindIdx I i j st = st := by
  unfold bindIdx; rw [h]

theorem bindIdx_ok (I : Interp D) (i : Var) (j : Nat) (st : St D) (h : st.err = none) :
    bindIdx I i j st = alloc st i (I.idx j) := by
  unfold bindIdx; rw [h]

theorem iterate_err (f : Nat → St D → St D) (hf : ∀ j st e, st.err = some e → f j st = st)
    (n : Nat) (st : St D) (e : Err) (h : st.err = some e) : iterate f n st = st := by
  induction n with
  | zero => rfl
  | succ n ih => simp [iterate, ih, hf n st e h]

theorem exec_err (I : Interp D) (args : Args D) (m : Mode) (s : Stmt) :
    ∀ (st : St D) (e : Err), st.err = some e → exec I args m s st = st := by
  induction s with
  | nop => intro st e _; rfl
  | op t b =>
    intro st e h; simp only [exec]; split
    · exact execB_err I args b st e h
    · rfl
  | seq s t ihs iht => intro st e h; simp only [exec]; rw [ihs st e h, iht st e h]
  | loop cnt i body ih =>
    intro st e h; simp only [exec]; split
    · rw [h]
    · rfl

/-- generic preservation: an invariant kept by every basic statement that runs, by index binding and by `fail`
is kept by `exec`; `Q` is a syntactic side condition closed under sub-statements -/
theorem exec_preserves (I : Interp D) (args : Args D) (m : Mode) (P : St D → Prop) (Q : Stmt → Prop)
    (hop : ∀ t b st, Q (.op t b) → runs m t = true → P st → P (execB I args b st))
    (hidx : ∀ cnt i body j st, Q (.loop cnt i body) → loopRuns m body = true → P st → P (bindIdx I i j st))
    (hfail : ∀ st e, P st → P (fail st e))
    (hseq : ∀ s t, Q (.seq s t) → Q s ∧ Q t) (hloop : ∀ c i b, Q (.loop c i b) → Q b) :
    ∀ (s : Stmt) (st : St D), Q s → P st → P (exec I args m s st) := by
  intro s
  induction s with
  | nop => intro st _ h; exact h
  | op t b =>
    intro st hq h; simp only [exec]
    split
    · next hr => exact hop t b st hq hr h
    · exact h
  | seq s t ihs iht =>
    intro st hq h; simp only [exec]
    exact iht _ (hseq s t hq).2 (ihs _ (hseq s t hq).1 h)
  | loop cnt i body ih =>
    intro st hq h; simp only [exec]
    split
    · next hr =>
      split
      · exact h
      · split
        · exact hfail _ _ h
        · next d _ =>
          generalize I.cnt d = n
          induction n with
          | zero => exact h
          | succ n ihn => exact ih _ (hloop cnt i body hq) (hidx cnt i body n _ hq hr ihn)
    · exact h

end NutilsVerif.C03

namespace NutilsVerif.C03
variable {D : Type}

/-! ## syntactic "every statement satisfies" -/

def allOps (p : Tag → Basic → Bool) (q : Var → Var → Stmt → Bool) : Stmt → Bool
  | .nop => true
  | .op t b => p t b
  | .seq s t => allOps p q s && allOps p q t
  | .loop c i b => q c i b && allOps p q b

def noArgW (c : Ctx) : Basic → Bool
  | .write dst _ _ => (c.O dst).all fun l => !isArg l
  | _ => true

/-- the part of `chk` that matters for origins and argument buffers -/
def wfO (c : Ctx) : Stmt → Bool :=
  allOps (fun _ b => originOK c b && noArgW c b) (fun _ i _ => (c.O i).contains (.var i))

theorem cloc_not_arg (c : Ctx) (l : Loc) (h : c.cloc l = true) : isArg l = false := by
  cases l <;> simp_all [Ctx.cloc, isArg]

theorem chkOp_wf (c : Ctx) (Dv : List Var) (Wl : List Loc) (Wv : List Var) (t : Tag) (b : Basic)
    (h : chkOp c Dv Wl Wv t b = true) : (originOK c b && noArgW c b) = true := by
  unfold chkOp at h
  simp only [Bool.and_eq_true] at h
  obtain ⟨ho, h⟩ := h
  simp only [Bool.and_eq_true, ho, true_and]
  cases b <;> try rfl
  rename_i dst op srcs
  simp only [noArgW, List.all_eq_true]
  intro l hl
  cases t with
  | skip =>
    simp only [Bool.and_eq_true, List.all_eq_true] at h
    have := (h.2 l hl).1
    simp [cloc_not_arg c l this]
  | shared => simp at h
  | rerun =>
    simp only [Bool.and_eq_true, List.all_eq_true] at h
    exact (h.2 l hl).2

theorem chk_wfO (c : Ctx) : ∀ (s : Stmt) (Dv : List Var) (Wl : List Loc) (Wv : List Var),
    chk c s Dv Wl Wv = true → wfO c s = true := by
  intro s
  induction s with
  | nop => intros; rfl
  | op t b => intro Dv Wl Wv h; exact chkOp_wf c Dv Wl Wv t b h
  | seq s t ihs iht =>
    intro Dv Wl Wv h
    simp only [chk, Bool.and_eq_true] at h
    simp only [wfO, allOps, Bool.and_eq_true]
    exact ⟨ihs _ _ _ h.1, iht _ _ _ h.2⟩
  | loop cnt i body ih =>
    intro Dv Wl Wv h
    simp only [chk, Bool.and_eq_true] at h
    simp only [wfO, allOps, Bool.and_eq_true]
    exact ⟨h.1.2, ih _ _ _ h.2⟩

/-! ## origin soundness and the frame of argument buffers -/

/-- every bound variable refers to a buffer listed in `O` -/
def OriginInv (O : Var → List Loc) (st : St D) : Prop := ∀ v r, st.env v = some r → r.loc ∈ O v

theorem contains_mem {α} [BEq α] [LawfulBEq α] {l : List α} {a : α} (h : l.contains a = true) : a ∈ l := by
  simpa using h

theorem execB_origin (I : Interp D) (args : Args D) (c : Ctx) (b : Basic) (st : St D)
    (hb : originOK c b = true) (h : OriginInv c.O st) : OriginInv c.O (execB I args b st) := by
  unfold execB
  split
  · exact h
  · cases b with
    | fresh dst op srcs =>
      simp only
      split
      · intro v r hv
        simp only [alloc_env] at hv
        split at hv
        · next e => cases hv; subst e; exact contains_mem hb
        · exact h v r hv
      · exact h
    | getarg dst a cop =>
      simp only [originOK, Bool.and_eq_true] at hb
      simp only
      split
      · exact h
      · split
        · intro v r hv
          simp only [alloc_env] at hv
          split at hv
          · next e => cases hv; subst e; exact contains_mem hb.2
          · exact h v r hv
        · intro v r hv
          simp only [setEnv_env] at hv
          split at hv
          · next e => cases hv; subst e; exact contains_mem hb.1
          · exact h v r hv
    | view dst vop may src =>
      simp only [originOK, Bool.and_eq_true, List.all_eq_true] at hb
      simp only
      split
      · exact h
      · next r0 hr0 =>
        split
        · next hc =>
          intro v r hv
          simp only [alloc_env] at hv
          split at hv
          · next e =>
            cases hv; subst e
            simp only [Bool.and_eq_true] at hc
            have := hb.2; simp only [hc.1, Bool.not_true, Bool.false_or] at this
            exact contains_mem this
          · exact h v r hv
        · intro v r hv
          simp only [setEnv_env] at hv
          split at hv
          · next e => cases hv; subst e; exact contains_mem (hb.1 _ (h src r0 hr0))
          · exact h v r hv
    | write dst op srcs =>
      simp only
      split
      · split <;> exact h
      · exact h
    | setro v =>
      simp only
      split
      · next r0 hr0 =>
        intro x r hx
        simp only [setEnv_env] at hx
        split at hx
        · next e => cases hx; subst e; exact h _ r0 hr0
        · exact h x r hx
      · exact h
    | guard op srcs =>
      simp only
      split
      · split <;> exact h
      · exact h
    | clear => exact h

theorem bindIdx_origin (I : Interp D) (c : Ctx) (i : Var) (j : Nat) (st : St D)
    (hi : (c.O i).contains (.var i) = true) (h : OriginInv c.O st) : OriginInv c.O (bindIdx I i j st) := by
  unfold bindIdx
  split
  · exact h
  · intro v r hv
    simp only [alloc_env] at hv
    split at hv
    · next e => cases hv; subst e; exact contains_mem hi
    · exact h v r hv

/-- a basic statement whose write targets are not argument buffers leaves every argument buffer alone -/
theorem execB_argframe (I : Interp D) (args : Args D) (c : Ctx) (b : Basic) (st : St D) (a : Nat)
    (hb : noArgW c b = true) (h : OriginInv c.O st) : (execB I args b st).heap (.arg a) = st.heap (.arg a) := by
  unfold execB
  split
  · rfl
  · cases b with
    | fresh dst op srcs => simp only; split <;> simp
    | getarg dst a' cop =>
      simp only; split
      · rfl
      · split <;> simp
    | view dst vop may src =>
      simp only; split
      · rfl
      · split <;> simp
    | write dst op srcs =>
      simp only
      split
      · next r ds hr _ =>
        split
        · simp only [setHeap_heap]
          split
          · next e =>
            simp only [noArgW, List.all_eq_true] at hb
            have := hb _ (h dst r hr)
            rw [← e] at this; simp [isArg] at this
          · rfl
        · rfl
      · rfl
    | setro v => simp only; split <;> rfl
    | guard op srcs =>
      simp only; split
      · split <;> rfl
      · rfl
    | clear => rfl

theorem wfO_seq (c : Ctx) (s t : Stmt) (h : wfO c (.seq s t) = true) : wfO c s = true ∧ wfO c t = true := by
  simpa [wfO, allOps] using h

theorem wfO_loop (c : Ctx) (cnt i : Var) (b : Stmt) (h : wfO c (.loop cnt i b) = true) :
    (c.O i).contains (.var i) = true ∧ wfO c b = true := by
  simpa [wfO, allOps] using h

theorem exec_origin (I : Interp D) (args : Args D) (m : Mode) (c : Ctx) (s : Stmt) (st : St D)
    (hs : wfO c s = true) (h : OriginInv c.O st) : OriginInv c.O (exec I args m s st) := by
  refine exec_preserves I args m (OriginInv c.O) (fun s => wfO c s = true) ?_ ?_ ?_ ?_ ?_ s st hs h
  · intro t b st hq _ hP
    have : (originOK c b && noArgW c b) = true := hq
    simp only [Bool.and_eq_true] at this
    exact execB_origin I args c b st this.1 hP
  · intro cnt i body j st hq _ hP
    exact bindIdx_origin I c i j st (wfO_loop c cnt i body hq).1 hP
  · intro st e hP; exact hP
  · intro s t hq; exact wfO_seq c s t hq
  · intro cnt i b hq; exact (wfO_loop c cnt i b hq).2

/-- **frame of the caller's arrays**: a well-formed statement never changes an argument buffer, in any mode -/
theorem exec_argframe (I : Interp D) (args : Args D) (m : Mode) (c : Ctx) (s : Stmt) (st : St D) (a : Nat)
    (hs : wfO c s = true) (h : OriginInv c.O st) : (exec I args m s st).heap (.arg a) = st.heap (.arg a) := by
  have := exec_preserves I args m (fun st' => OriginInv c.O st' ∧ st'.heap (.arg a) = st.heap (.arg a))
    (fun s => wfO c s = true) ?_ ?_ ?_ ?_ ?_ s st hs ⟨h, rfl⟩
  · exact this.2
  · intro t b st' hq _ hP
    have hq' : (originOK c b && noArgW c b) = true := hq
    simp only [Bool.and_eq_true] at hq'
    exact ⟨execB_origin I args c b st' hq'.1 hP.1, by rw [execB_argframe I args c b st' a hq'.2 hP.1]; exact hP.2⟩
  · intro cnt i body j st' hq _ hP
    refine ⟨bindIdx_origin I c i j st' (wfO_loop c cnt i body hq).1 hP.1, ?_⟩
    unfold bindIdx; split
    · exact hP.2
    · simp [hP.2]
  · intro st' e hP; exact hP
  · intro s t hq; exact wfO_seq c s t hq
  · intro cnt i b hq; exact (wfO_loop c cnt i b hq).2

end NutilsVerif.C03
