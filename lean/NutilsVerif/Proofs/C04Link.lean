import NutilsVerif.Proofs.C04Poly
/-!
# C04 — from `pderivWith` to the executable `pderiv`

`pderiv (fuel+1) x p` is `pderivWith` applied to a memo table of `datom` over the atoms of `p`; on atoms of `p`
the table agrees with `datom`, and `pderivWith` only looks at atoms of `p`.
-/
namespace NutilsVerif.C04
open NutilsVerif

theorem lookup_map_self {β : Type} (f : String → β) (l : List String) (a : String) :
    (l.map fun b => (b, f b)).lookup a = if a ∈ l then some (f a) else none := by
  induction l with
  | nil => simp
  | cons b t ih =>
    simp only [List.map_cons, List.lookup_cons, List.mem_cons]
    by_cases h : a = b
    · subst h; simp
    · have : (a == b) = false := by simpa using h
      simp [this, h, ih]

/-- the keys of the atoms of a monomial of `p` are in `atomsOf p` -/
theorem mem_atomsOf {p : Poly} {m : Mono} {c : Rat} (hm : (m, c) ∈ p.terms) {a : String} (ha : a ∈ m.map (·.1)) :
    a ∈ atomsOf p := by
  unfold atomsOf
  rw [List.mem_eraseDups, List.mem_flatMap]
  exact ⟨(m, c), hm, ha⟩

/-- `monoDeriv` only consults `d` on the atoms of the monomial -/
theorem monoDeriv_congr (d d' : String → Option Poly) (m : Mono) (h : ∀ a ∈ m.map (·.1), d a = d' a) :
    monoDeriv d m = monoDeriv d' m := by
  induction m with
  | nil => rfl
  | cons an s ih =>
    obtain ⟨a, n⟩ := an
    have h1 : d a = d' a := h a (by simp)
    have h2 : monoDeriv d s = monoDeriv d' s := ih (fun b hb => h b (by simp [hb]))
    simp only [monoDeriv, h1, h2]

theorem termsDeriv_congr (d d' : String → Option Poly) (l : List (Mono × Rat))
    (h : ∀ mc ∈ l, ∀ a ∈ mc.1.map (·.1), d a = d' a) : termsDeriv d l = termsDeriv d' l := by
  induction l with
  | nil => rfl
  | cons mc t ih =>
    obtain ⟨m, c⟩ := mc
    have h1 : monoDeriv d m = monoDeriv d' m := monoDeriv_congr d d' m (h (m, c) (by simp))
    have h2 : termsDeriv d t = termsDeriv d' t := ih (fun mc hmc => h mc (by simp [hmc]))
    simp only [termsDeriv, h1, h2]

/-- `pderivWith` only consults `d` on `atomsOf p` -/
theorem pderivWith_congr (d d' : String → Option Poly) (p : Poly) (h : ∀ a ∈ atomsOf p, d a = d' a) :
    pderivWith d p = pderivWith d' p :=
  termsDeriv_congr d d' p.terms fun mc hmc a ha => h a (mem_atomsOf (p := p) (m := mc.1) (c := mc.2) hmc ha)

/-- the memo table of `pderiv` is `datom` on the atoms of `p` -/
theorem pderiv_succ (fuel : Nat) (x : String) (p : Poly) :
    pderiv (fuel + 1) x p = pderivWith (datom (pderiv fuel x) x) p := by
  show pderivWith _ p = _
  apply pderivWith_congr
  intro a ha
  simp [lookup_map_self, ha]

/-- **Chain rule for the executable formal derivative.**  If along a curve of interpretations every atom of `p`
moves with the derivative that `datom` assigns to it, the value of `p` moves with the value of `pderiv … p`. -/
theorem pderiv_hasDerivAt (ρ : ℝ → String → ℝ) (fuel : Nat) (x : String) (p dp : Poly) (t0 : ℝ)
    (h : pderiv (fuel + 1) x p = some dp)
    (hd : ∀ a da, datom (pderiv fuel x) x a = some da → HasDerivAt (fun t => ρ t a) (Poly.eval (ρ t0) da) t0) :
    HasDerivAt (fun t => Poly.eval (ρ t) p) (Poly.eval (ρ t0) dp) t0 := by
  rw [pderiv_succ] at h
  exact pderivWith_hasDerivAt ρ _ p dp t0 h hd

/-- on polynomials in independent variables (no function atoms) the executable `pderiv` is the formal partial
derivative `pderivVar` -/
theorem pderiv_eq_pderivVar (fuel : Nat) (x : String) (p : Poly) (h : ∀ a ∈ atomsOf p, isVarAtom a = true) :
    pderiv (fuel + 1) x p = pderivVar x p := by
  rw [pderiv_succ]
  apply pderivWith_congr
  intro a ha
  simp [datom, h a ha]

end NutilsVerif.C04
