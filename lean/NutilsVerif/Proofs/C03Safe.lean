import NutilsVerif.Proofs.C03Call
/-! C03 — soundness of the "safe to hand out" analysis; what reruns can hand out -/
namespace NutilsVerif.C03
variable {D : Type}

/-- read-only, or not living in a cached buffer -/
def SafeRef (c : Ctx) (r : Ref) : Prop := r.w = false ∨ c.cloc r.loc = false

def SafeEnvOn (c : Ctx) (F : List Var) (env : Var → Option Ref) : Prop := ∀ v ∈ F, ∀ r, env v = some r → SafeRef c r

/-- as long as no exception is pending, the variables in `F` are safe to hand out -/
def SafeOn (c : Ctx) (F : List Var) (st : St D) : Prop := st.err = none → SafeEnvOn c F st.env

theorem SafeEnvOn.upd {c : Ctx} {F F' : List Var} {env : Var → Option Ref} (h : SafeEnvOn c F env) (dst : Var) (r' : Ref)
    (h1 : dst ∈ F' → SafeRef c r') (h2 : ∀ x ∈ F', x ≠ dst → x ∈ F) :
    SafeEnvOn c F' (fun x => if x = dst then some r' else env x) := by
  intro v hv r hr
  simp only at hr
  split at hr
  · next e => cases hr; exact h1 (e ▸ hv)
  · next e => exact h v (h2 v hv e) r hr

theorem mem_filter_ne {F : List Var} {d x : Var} (h : x ∈ F.filter (· != d)) : x ∈ F ∧ x ≠ d := by
  simpa using h

theorem SafeEnvOn.alloc_step {c : Ctx} {F : List Var} {env : Var → Option Ref} (h : SafeEnvOn c F env) (dst : Var) :
    SafeEnvOn c (if c.cloc (.var dst) then F.filter (· != dst) else dst :: F)
      (fun x => if x = dst then some ⟨.var dst, [], true⟩ else env x) := by
  split
  · exact h.upd dst _ (fun hd => absurd rfl (mem_filter_ne hd).2) (fun x hx _ => (mem_filter_ne hx).1)
  · next hcl =>
    exact h.upd dst _ (fun _ => Or.inr (by simpa using hcl)) (fun x hx hne => by
      simp only [List.mem_cons] at hx; exact hx.resolve_left hne)

theorem execB_safe (I : Interp D) (args : Args D) (c : Ctx) (m : Mode) (t : Tag) (b : Basic) (F : List Var) (st : St D)
    (h : SafeOn c F st) : SafeOn c (safeAfter c m (.op t b) F) (exec I args m (.op t b) st) := by
  simp only [safeAfter, exec]
  by_cases hr : runs m t = true
  · simp only [hr, if_true]
    cases herr : st.err with
    | some e =>
      intro hn; rw [execB_err I args b st e herr, herr] at hn; cases hn
    | none =>
      have h0 := h herr
      unfold execB; rw [herr]
      cases b with
      | fresh dst op srcs =>
        simp only
        cases hv : vals I st srcs with
        | none => intro hn; cases hn
        | some ds => intro _; exact h0.alloc_step dst
      | getarg dst a cop =>
        simp only
        cases ha : args a with
        | none => intro hn; cases hn
        | some g =>
          simp only
          by_cases hc : g.copy = true
          · simp only [hc, if_true]; intro _; exact h0.alloc_step dst
          · simp only [hc, Bool.false_eq_true, if_false]
            intro _
            simp only [setEnv]
            split
            · exact h0.upd dst _ (fun _ => Or.inr rfl) (fun x hx _ => (mem_filter_ne hx).1)
            · exact h0.upd dst _ (fun _ => Or.inr rfl) (fun x hx hne => by
                simp only [List.mem_cons] at hx; exact hx.resolve_left hne)
      | view dst vop may src =>
        simp only
        cases he : st.env src with
        | none => intro hn; cases hn
        | some r0 =>
          simp only
          by_cases hcp : (may && I.copies vop r0.path) = true
          · simp only [hcp, if_true]
            intro _
            simp only [alloc]
            by_cases hF : (F.contains src && (!may || !c.cloc (.var dst))) = true
            · simp only [hF, if_true]
              simp only [Bool.and_eq_true, Bool.or_eq_true, Bool.not_eq_true'] at hF hcp
              refine h0.upd dst _ (fun _ => Or.inr ?_) (fun x hx hne => by
                simp only [List.mem_cons] at hx; exact hx.resolve_left hne)
              rcases hF.2 with hm | hm
              · rw [hcp.1] at hm; cases hm
              · exact hm
            · simp only [hF, Bool.false_eq_true, if_false]
              exact h0.upd dst _ (fun hd => absurd rfl (mem_filter_ne hd).2) (fun x hx _ => (mem_filter_ne hx).1)
          · simp only [hcp, Bool.false_eq_true, if_false]
            intro _
            simp only [setEnv]
            by_cases hF : (F.contains src && (!may || !c.cloc (.var dst))) = true
            · simp only [hF, if_true]
              simp only [Bool.and_eq_true, List.contains_eq_mem, decide_eq_true_eq] at hF
              exact h0.upd dst _ (fun _ => h0 src hF.1 r0 he) (fun x hx hne => by
                simp only [List.mem_cons] at hx; exact hx.resolve_left hne)
            · simp only [hF, Bool.false_eq_true, if_false]
              exact h0.upd dst _ (fun hd => absurd rfl (mem_filter_ne hd).2) (fun x hx _ => (mem_filter_ne hx).1)
      | write dst op srcs =>
        simp only
        cases he : st.env dst with
        | none => intro hn; cases hn
        | some r =>
          cases hv : vals I st srcs with
          | none => intro hn; cases hn
          | some ds =>
            simp only
            by_cases hw : r.w = true
            · simp only [hw, if_true]; intro _; exact h0
            · simp only [hw, Bool.false_eq_true, if_false]; intro hn; cases hn
      | setro v =>
        simp only
        cases he : st.env v with
        | none => intro hn; cases hn
        | some r =>
          intro _
          simp only [setEnv]
          exact h0.upd v _ (fun _ => Or.inl rfl) (fun x hx hne => by
            simp only [List.mem_cons] at hx; exact hx.resolve_left hne)
      | guard op srcs =>
        simp only
        cases hv : vals I st srcs with
        | none => intro hn; cases hn
        | some ds =>
          simp only
          by_cases hk : I.ok op ds = true
          · simp only [hk, if_true]; intro _; exact h0
          · simp only [hk, Bool.false_eq_true, if_false]; intro hn; cases hn
      | clear => intro _; exact h0
  · simp only [hr, Bool.false_eq_true, if_false]; exact h


def allDefs (s : Stmt) : List Var := defsOf .skip s ++ defsOf .shared s ++ defsOf .rerun s

theorem allDefs_op (t : Tag) (b : Basic) (x : Var) (h : x ∈ b.defs) : x ∈ allDefs (.op t b) := by
  cases t <;> simp [allDefs, defsOf, h]

theorem allDefs_seq (s t : Stmt) (x : Var) : x ∈ allDefs (.seq s t) ↔ x ∈ allDefs s ∨ x ∈ allDefs t := by
  simp only [allDefs, defsOf, List.mem_append]
  constructor
  · rintro (((h | h) | (h | h)) | (h | h)) <;> simp [h]
  · rintro (((h | h) | h) | ((h | h) | h)) <;> simp [h]

theorem allDefs_loop_body (cnt i : Var) (b : Stmt) (x : Var) (h : x ∈ allDefs b) : x ∈ allDefs (.loop cnt i b) := by
  simp only [allDefs, defsOf, List.mem_append] at h ⊢
  rcases h with (h | h) | h <;> simp [h]

theorem allDefs_loop_idx (cnt i : Var) (b : Stmt) : i ∈ allDefs (.loop cnt i b) := by
  simp only [allDefs, defsOf, List.mem_append]
  cases loopTag b <;> simp

/-- the analysis never forgets a variable that the statement does not rebind -/
theorem safeAfter_keeps (c : Ctx) (m : Mode) : ∀ (s : Stmt) (F : List Var) (v : Var), v ∈ F → v ∉ allDefs s →
    v ∈ safeAfter c m s F := by
  intro s
  induction s with
  | nop => intro F v h _; exact h
  | op t b =>
    intro F v h hn
    have hnd : ∀ d ∈ b.defs, v ≠ d := fun d hd e => hn (allDefs_op t b v (e ▸ hd))
    simp only [safeAfter]
    split
    · cases b with
      | setro x => simp [h]
      | fresh dst op srcs =>
        have := hnd dst (by simp [Basic.defs])
        simp only; split <;> simp [h, this]
      | getarg dst a cop =>
        have := hnd dst (by simp [Basic.defs])
        simp only; split <;> simp [h, this]
      | view dst vop may src =>
        have := hnd dst (by simp [Basic.defs])
        simp only; split <;> simp [h, this]
      | write dst op srcs => exact h
      | guard op srcs => exact h
      | clear => exact h
    · exact h
  | seq s t ihs iht =>
    intro F v h hn
    simp only [safeAfter]
    have h1 : v ∉ allDefs s := fun h' => hn ((allDefs_seq s t v).mpr (Or.inl h'))
    have h2 : v ∉ allDefs t := fun h' => hn ((allDefs_seq s t v).mpr (Or.inr h'))
    exact iht _ v (ihs F v h h1) h2
  | loop cnt i b ih =>
    intro F v h hn
    simp only [safeAfter, List.mem_filter, Bool.and_eq_true, bne_iff_ne, ne_eq, Bool.not_eq_true', List.contains_eq_mem,
      decide_eq_false_iff_not]
    have hi : v ≠ i := fun e => hn (e ▸ allDefs_loop_idx cnt i b)
    have hb : v ∉ allDefs b := fun hb => hn (allDefs_loop_body cnt i b v hb)
    simp only [allDefs, List.mem_append, not_or] at hb
    exact ⟨h, ⟨⟨⟨hi, hb.1.1⟩, hb.1.2⟩, hb.2⟩⟩

theorem SafeOn.sub {c : Ctx} {F G : List Var} {st : St D} (h : SafeOn c F st) (hs : ∀ v ∈ G, v ∈ F) : SafeOn c G st :=
  fun he v hv r hr => h he v (hs v hv) r hr

/-- **soundness of the analysis** -/
theorem exec_safe (I : Interp D) (args : Args D) (c : Ctx) (m : Mode) : ∀ (s : Stmt) (F : List Var) (st : St D),
    SafeOn c F st → SafeOn c (safeAfter c m s F) (exec I args m s st) := by
  intro s
  induction s with
  | nop => intro F st h; exact h
  | op t b => intro F st h; exact execB_safe I args c m t b F st h
  | seq s t ihs iht => intro F st h; exact iht _ _ (ihs F st h)
  | loop cnt i b ih =>
    intro F st h
    have hsub : ∀ v ∈ safeAfter c m (.loop cnt i b) F, v ∈ F := by
      intro v hv; simp only [safeAfter, List.mem_filter] at hv; exact hv.1
    have hF' := h.sub hsub
    simp only [exec]
    split
    · split
      · exact hF'
      · split
        · intro hn; cases hn
        · next d _ =>
          generalize I.cnt d = n
          induction n with
          | zero => exact hF'
          | succ n ihn =>
            simp only [iterate]
            -- binding the index does not touch the variables of F'
            have hb : SafeOn c (safeAfter c m (.loop cnt i b) F) (bindIdx I i n (iterate (fun j s => exec I args m b (bindIdx I i j s)) n st)) := by
              unfold bindIdx
              split
              · exact ihn
              · next he =>
                intro _ v hv r hr
                simp only [alloc_env] at hr
                split at hr
                · next e =>
                  exfalso
                  simp only [safeAfter, List.mem_filter, Bool.and_eq_true, bne_iff_ne, ne_eq] at hv
                  exact hv.2.1.1.1 e
                · exact ihn he v hv r hr
            have := ih _ _ hb
            refine this.sub ?_
            intro v hv
            apply safeAfter_keeps c m b _ v hv
            simp only [safeAfter, List.mem_filter, Bool.and_eq_true, bne_iff_ne, ne_eq, Bool.not_eq_true', List.contains_eq_mem,
              decide_eq_false_iff_not] at hv
            simp only [allDefs, List.mem_append, not_or]
            exact ⟨⟨hv.2.1.1.2, hv.2.1.2⟩, hv.2.2⟩
    · exact hF'


/-! ## on a rerun every array object in scope is safe to hand out -/

def SafeAll (c : Ctx) (st : St D) : Prop := ∀ v r, st.env v = some r → SafeRef c r

theorem SafeAll.upd {c : Ctx} {st : St D} (h : SafeAll c st) (dst : Var) (r' : Ref) (h1 : SafeRef c r')
    (env' : Var → Option Ref) (he : env' = fun x => if x = dst then some r' else st.env x) :
    ∀ v r, env' v = some r → SafeRef c r := by
  intro v r hr
  rw [he] at hr; simp only at hr
  split at hr
  · cases hr; exact h1
  · exact h v r hr

theorem execB_safeAll (I : Interp D) (args : Args D) (c : Ctx) (b : Basic) (st : St D)
    (hd : ∀ d ∈ b.defs, c.cloc (.var d) = false) (h : SafeAll c st) : SafeAll c (execB I args b st) := by
  unfold execB
  split
  · exact h
  · cases b with
    | fresh dst op srcs =>
      simp only
      split
      · exact h.upd dst _ (Or.inr (hd dst (by simp [Basic.defs]))) _ rfl
      · exact h
    | getarg dst a cop =>
      simp only
      split
      · exact h
      · split
        · exact h.upd dst _ (Or.inr (hd dst (by simp [Basic.defs]))) _ rfl
        · exact h.upd dst _ (Or.inr rfl) _ rfl
    | view dst vop may src =>
      simp only
      split
      · exact h
      · next r0 hr0 =>
        split
        · exact h.upd dst _ (Or.inr (hd dst (by simp [Basic.defs]))) _ rfl
        · refine h.upd dst ⟨r0.loc, vop :: r0.path, r0.w⟩ ?_ _ rfl
          exact h src r0 hr0
    | write dst op srcs =>
      simp only
      split
      · split <;> exact h
      · exact h
    | setro v =>
      simp only
      split
      · exact h.upd v _ (Or.inl rfl) _ rfl
      · exact h
    | guard op srcs =>
      simp only
      split
      · split <;> exact h
      · exact h
    | clear => exact h

theorem exec_rerun_safeAll (I : Interp D) (args : Args D) (c : Ctx) (k : Classes c) (s : Stmt) (st : St D)
    (hs : wfK c s = true) (h : SafeAll c st) : SafeAll c (exec I args .rerun s st) := by
  refine exec_preserves I args .rerun (SafeAll c) (fun s => wfK c s = true) ?_ ?_ ?_ ?_ ?_ s st hs h
  · intro t b st' hq hr hP
    have hq' : wfKop c t b = true := hq
    apply execB_safeAll I args c b st' _ hP
    intro d hd
    cases t with
    | skip => simp [runs] at hr
    | shared =>
      simp only [wfKop, Bool.and_eq_true, List.all_eq_true, List.contains_eq_mem, decide_eq_true_eq] at hq'
      exact k.ncloc_of_sh (hq'.2.1 d hd)
    | rerun =>
      simp only [wfKop, Bool.and_eq_true, List.all_eq_true, List.contains_eq_mem, decide_eq_true_eq] at hq'
      exact (nloc_ncloc (k.nloc_of_ns (hq'.2 d hd))).1
  · intro cnt i body j st' hq hr hP
    have hl := (wfK_loop c cnt i body hq).1
    simp only [wfKloop, Bool.and_eq_true] at hl
    unfold bindIdx; split
    · exact hP
    · refine hP.upd i _ (Or.inr ?_) _ rfl
      cases ht : loopTag body with
      | skip =>
        have := (loopTag_skip ht).2
        simp [loopRuns, this] at hr
      | shared => rw [ht] at hl; exact k.ncloc_of_sh (by simpa using hl.2)
      | rerun => rw [ht] at hl; exact (nloc_ncloc (k.nloc_of_ns (by simpa using hl.2))).1
  · intro st' e hP; exact hP
  · intro s t hq; exact wfK_seq c s t hq
  · intro cnt i b hq; exact (wfK_loop c cnt i b hq).2

/-- the array objects handed out are among the bindings of the returned variables -/
theorem results_refs (I : Interp D) (st : St D) : ∀ (vs : List Var) (ds : List D) (rs : List Ref),
    results I st vs = some (ds, rs) → ∀ r ∈ rs, ∃ v ∈ vs, st.env v = some r
  | [], ds, rs, h, r, hr => by simp [results] at h; rw [h.2] at hr; cases hr
  | v :: vs, ds, rs, h, r, hr => by
    simp only [results] at h
    cases hv : st.env v with
    | none => simp [hv] at h
    | some r0 =>
      cases hrs : results I st vs with
      | none => simp [hv, hrs] at h
      | some x =>
        obtain ⟨ds', rs'⟩ := x
        simp only [hv, hrs, Option.some.injEq, Prod.mk.injEq] at h
        rw [← h.2] at hr
        simp only [List.mem_cons] at hr
        rcases hr with hr | hr
        · exact ⟨v, by simp, hr ▸ hv⟩
        · obtain ⟨w, hw, he⟩ := results_refs I st vs ds' rs' hrs r hr
          exact ⟨w, by simp [hw], he⟩

theorem outcome_refs (I : Interp D) (p : Prog) (st : St D) (r : Ref) (h : r ∈ (outcome I p st).refs) :
    st.err = none ∧ ∃ v ∈ p.ret, st.env v = some r := by
  unfold outcome at h
  cases he : st.err with
  | some e => simp [he] at h
  | none =>
    simp only [he] at h
    cases hr : results I st p.ret with
    | none => simp [hr] at h
    | some x =>
      obtain ⟨ds, rs⟩ := x
      simp only [hr] at h
      exact ⟨rfl, results_refs I st p.ret ds rs hr r h⟩

end NutilsVerif.C03
