import NutilsVerif.Model.C19Sem
import NutilsVerif.Proofs.C19Trace
/-!
# C19 — the `_trace` loop sums exactly over the repeated indices (tensor level)
-/
namespace NutilsVerif.C19

theorem map_update_of_not_mem (σ : Char → Nat) (c : Char) (k : Nat) (l : List Char) (h : c ∉ l) :
    l.map (update σ c k) = l.map σ := by
  apply List.map_congr_left
  intro d hd
  have : d ≠ c := fun e => h (e ▸ hd)
  simp [update, this]

theorem insertIdx_append_length (a b : List Nat) (k : Nat) : (a ++ b).insertIdx a.length k = a ++ k :: b := by
  induction a with
  | nil => simp
  | cons x a ih => simp [List.insertIdx_succ_cons, ih]

theorem insert2_map (A B C : List Char) (c : Char) (σ : Char → Nat) (k : Nat)
    (hA : c ∉ A) (hB : c ∉ B) (hC : c ∉ C) :
    insert2 ((A ++ B ++ C).map σ) A.length (A.length + 1 + B.length) k = (A ++ c :: B ++ c :: C).map (update σ c k) := by
  have e1 : ((A ++ B ++ C).map σ).insertIdx A.length k = (A.map σ ++ k :: B.map σ) ++ C.map σ := by
    have := insertIdx_append_length (A.map σ) (B.map σ ++ C.map σ) k
    simp only [List.length_map] at this
    simp only [List.map_append, List.append_assoc]
    rw [this]; simp
  have e2 : ((A.map σ ++ k :: B.map σ) ++ C.map σ).insertIdx (A.length + 1 + B.length) k = (A.map σ ++ k :: B.map σ) ++ k :: C.map σ := by
    have := insertIdx_append_length (A.map σ ++ k :: B.map σ) (C.map σ) k
    simp only [List.length_append, List.length_map, List.length_cons] at this
    rw [show A.length + 1 + B.length = A.length + (B.length + 1) by omega]
    exact this
  simp only [insert2, e1, e2]
  simp only [List.map_append, List.map_cons, update, if_true,
    map_update_of_not_mem σ c k A hA, map_update_of_not_mem σ c k B hB, map_update_of_not_mem σ c k C hC]

/-- splitting a duplicate-free list at the position of one of its elements -/
theorem split_at_idxOf (l : List Char) (c : Char) (hn : l.Nodup) (hc : c ∈ l) :
    ∃ A B, l = A ++ c :: B ∧ A.length = l.idxOf c ∧ c ∉ A ∧ c ∉ B ∧ l.eraseIdx (l.idxOf c) = A ++ B := by
  induction l with
  | nil => simp at hc
  | cons x xs ih =>
    by_cases hx : x = c
    · subst hx
      rw [List.nodup_cons] at hn
      exact ⟨[], xs, by simp, by simp, by simp, hn.1, by simp⟩
    · have hc' : c ∈ xs := by rcases List.mem_cons.mp hc with h | h; exact absurd h.symm hx; exact h
      rw [List.nodup_cons] at hn
      obtain ⟨A, B, h1, h2, h3, h4, h5⟩ := ih hn.2 hc'
      have hxc : (x == c) = false := by simpa using hx
      refine ⟨x :: A, B, by simp [h1], by simp [List.idxOf_cons, hxc, h2], ?_, h4, ?_⟩
      · simp only [List.mem_cons, not_or]; exact ⟨fun e => hx e.symm, h3⟩
      · simp [List.idxOf_cons, hxc, h5]

theorem sumOver_congr {α : Type} (A : Alg α) (ps : List (Char × Nat)) (σ : Char → Nat) (f g : (Char → Nat) → α)
    (h : ∀ σ', f σ' = g σ') : sumOver A ps σ f = sumOver A ps σ g := by
  have : f = g := funext h
  rw [this]

theorem eraseIdx_append_length (a b : List Nat) : (a ++ b).eraseIdx a.length = a ++ b.tail := by
  induction a with
  | nil => cases b <;> simp
  | cons x a ih => simp [ih]

/-- **the loop of `_trace` at the tensor level**: whatever operation tree comes in, the tree that goes out
denotes — entry by entry, for every assignment of the free indices — the explicit sum of the incoming tensor over
all assignments of the indices that occur twice -/
theorem traceGo_sem {α : Type} (E : Env α) (s : Sub) (rI : List Char) :
    ∀ (ops : Ops) (kI : List Char) (kS : List Nat) (sm : List Char) (rS : List Nat) (r : Res),
    kI.Nodup → (∀ c ∈ kI, c ∉ sm) → kS.length = kI.length → rS.length = rI.length →
    (evalOps E ops).shape = kS ++ rS →
    traceGo s ops kI kS sm rI rS = .ok r →
    ∀ σ, (evalOps E r.ops).at r.indices σ =
      sumOver E.alg (tracePairs kI kS rI rS) σ (fun σ' => (evalOps E ops).at (kI ++ rI) σ') := by
  induction rI with
  | nil =>
    intro ops kI kS sm rS r _ _ _ _ _ h σ
    simp only [traceGo, Except.ok.injEq] at h
    subst h
    simp [tracePairs, sumOver]
  | cons c rI ih =>
    intro ops kI kS sm rS r hk hks hkl hrl hsh h σ
    have hspec := traceGo_spec s (c :: rI) ops kI kS sm rS r hk hks h
    simp only [traceGo] at h
    have hrt : rS.tail.length = rI.length := by simp at hrl ⊢; omega
    split at h
    · simp [fail] at h
    · rename_i hcs
      have hcsm : c ∉ sm := by simpa using hcs
      split at h
      · rename_i hlt
        have hmem : c ∈ kI := List.idxOf_lt_length_iff.mp hlt
        split at h
        · simp [fail] at h
        · obtain ⟨A, B, hAB, hAlen, hcA, hcB, herase⟩ := split_at_idxOf kI c hk hmem
          have hk' : (kI.eraseIdx (kI.idxOf c)).Nodup := by rw [eraseIdx_idxOf]; exact hk.erase c
          have hks' : ∀ d ∈ kI.eraseIdx (kI.idxOf c), d ∉ c :: sm := by
            intro d hd
            rw [herase] at hd
            have hdk : d ∈ kI := by rw [hAB]; simp only [List.mem_append, List.mem_cons] at hd ⊢; rcases hd with hd | hd; exact Or.inl hd; exact Or.inr (Or.inr hd)
            have hdc : d ≠ c := by
              intro e; subst e
              rcases List.mem_append.mp hd with hd | hd
              · exact hcA hd
              · exact hcB hd
            simp [hdc, hks d hdk]
          have hspec' := traceGo_spec s rI _ _ _ _ _ r hk' hks' h
          have hcr : c ∉ rI := fun hc => hspec'.2.2.1 c hc (by simp)
          have hkl' : (kS.eraseIdx (kI.idxOf c)).length = (kI.eraseIdx (kI.idxOf c)).length := by
            rw [List.length_eraseIdx, List.length_eraseIdx, hkl]
          have hsh' : (evalOps E (.trace ops (kI.idxOf c) kI.length)).shape = kS.eraseIdx (kI.idxOf c) ++ rS.tail := by
            simp only [evalOps, hsh]
            rw [← hkl, eraseIdx_append_length, List.eraseIdx_append_of_lt_length (by omega)]
          have := ih _ _ _ _ _ r hk' hks' hkl' hrt hsh' h σ
          rw [this]
          simp only [tracePairs, hlt, if_true, sumOver]
          apply sumOver_congr
          intro σ'
          simp only [Tensor.at, evalOps, hsh]
          have hget : (kS ++ rS).getD (kI.idxOf c) 0 = kS.getD (kI.idxOf c) 0 := by
            simp only [List.getD_eq_getElem?_getD]
            rw [List.getElem?_append_left (by omega)]
          rw [hget]
          congr 1; funext k
          congr 1
          have := insert2_map A B rI c σ' k hcA hcB hcr
          rw [herase, ← hAlen]
          have hj : kI.length = A.length + 1 + B.length := by rw [hAB]; simp; omega
          rw [hj, hAB]
          simpa [List.append_assoc] using this
      · rename_i hlt
        have hnm : c ∉ kI := fun hm => hlt (List.idxOf_lt_length_iff.mpr hm)
        have hk' : (kI ++ [c]).Nodup := by
          rw [List.nodup_append]; refine ⟨hk, by simp, ?_⟩
          intro a ha b hb; simp at hb; subst hb; intro e; subst e; exact hnm ha
        have hks' : ∀ d ∈ kI ++ [c], d ∉ sm := by
          intro d hd; rcases List.mem_append.mp hd with hd | hd
          · exact hks d hd
          · simp at hd; subst hd; exact hcsm
        have hsh' : (evalOps E ops).shape = (kS ++ [rS.headD 0]) ++ rS.tail := by
          rw [hsh]
          cases rS with
          | nil => simp at hrl
          | cons x xs => simp
        have := ih _ _ _ _ _ r hk' hks' (by simp [hkl]) hrt hsh' h σ
        rw [this]
        simp only [tracePairs, hlt, if_false, List.append_assoc, List.singleton_append]

/-- the summed set grows by exactly the letters of `tracePairs` -/
theorem traceGo_summed (s : Sub) (rI : List Char) : ∀ (ops : Ops) (kI : List Char) (kS : List Nat) (sm : List Char) (rS : List Nat) (r : Res),
    traceGo s ops kI kS sm rI rS = .ok r →
    r.summed = ((tracePairs kI kS rI rS).map (·.1)).reverse ++ sm ∧ ∀ c ∈ (tracePairs kI kS rI rS).map (·.1), c ∉ sm := by
  induction rI with
  | nil => intro ops kI kS sm rS r h; simp only [traceGo, Except.ok.injEq] at h; subst h; simp [tracePairs]
  | cons c rI ih =>
    intro ops kI kS sm rS r h
    simp only [traceGo] at h
    split at h
    · simp [fail] at h
    · rename_i hcs
      have hcsm : c ∉ sm := by simpa using hcs
      split at h
      · rename_i hlt
        split at h
        · simp [fail] at h
        · obtain ⟨h1, h2⟩ := ih _ _ _ _ _ r h
          simp only [tracePairs, hlt, if_true, List.map_cons, List.reverse_cons, List.append_assoc, List.singleton_append]
          refine ⟨h1, ?_⟩
          intro d hd
          rcases List.mem_cons.mp hd with e | hd
          · subst e; exact hcsm
          · intro hs; exact h2 d hd (List.mem_cons_of_mem _ hs)
      · rename_i hlt
        have := ih _ _ _ _ _ r h
        simpa only [tracePairs, hlt, if_false] using this

/-- the summed pairs are exactly the indices that occur twice -/
theorem tracePairs_mem (s : Sub) (ops : Ops) (kI : List Char) (kS : List Nat) (sm rI : List Char) (rS : List Nat) (r : Res)
    (hk : kI.Nodup) (hks : ∀ c ∈ kI, c ∉ sm) (h : traceGo s ops kI kS sm rI rS = .ok r) (c : Char) :
    c ∈ (tracePairs kI kS rI rS).map (·.1) ↔ (kI ++ rI).count c = 2 := by
  obtain ⟨h1, h2, h3, _⟩ := traceGo_spec s rI ops kI kS sm rS r hk hks h
  obtain ⟨g1, g2⟩ := traceGo_summed s rI ops kI kS sm rS r h
  constructor
  · intro hc
    have : c ∈ r.summed := by rw [g1]; simp [hc]
    rcases (h2 c).mp this with hs | hs
    · exact absurd hs (g2 c hc)
    · exact hs
  · intro hc
    have : c ∈ r.summed := (h2 c).mpr (Or.inr hc)
    rw [g1] at this
    rcases List.mem_append.mp this with hm | hm
    · simpa using hm
    · exfalso
      have hpos : c ∈ kI ++ rI := List.count_pos_iff.mp (by omega)
      rcases List.mem_append.mp hpos with hm' | hm'
      · exact hks c hm' hm
      · exact h3 c hm' hm

theorem mulGet_at {α : Type} (A : Alg α) (σ : Char → Nat) : ∀ (tl : List (Tensor α × List Char)),
    (∀ p ∈ tl, p.1.shape.length = p.2.length) →
    mulGet A (tl.map (·.1)) ((tl.map (·.2)).flatten.map σ) = prodAt A tl σ := by
  intro tl
  induction tl with
  | nil => intro _; rfl
  | cons p ps ih =>
    intro h
    cases ps with
    | nil => simp [mulGet, prodAt, Tensor.at]
    | cons q qs =>
      have hp := h p List.mem_cons_self
      have ih' := ih (fun x hx => h x (List.mem_cons_of_mem _ hx))
      simp only [List.map_cons, List.flatten_cons, List.map_append] at ih' ⊢
      simp only [mulGet, prodAt, Tensor.at]
      rw [hp]
      have e1 : List.take p.2.length (p.2.map σ ++ (q.2.map σ ++ (List.map (·.2) qs).flatten.map σ)) = p.2.map σ :=
        List.take_left' (by simp)
      have e2 : List.drop p.2.length (p.2.map σ ++ (q.2.map σ ++ (List.map (·.2) qs).flatten.map σ)) = q.2.map σ ++ (List.map (·.2) qs).flatten.map σ :=
        List.drop_left' (by simp)
      rw [e1, e2]
      congr 1

end NutilsVerif.C19
