import NutilsVerif.Model.C07
/-!
# C07 — lemmas: normdim, element kinds, slices  (no Mathlib)
-/
namespace NutilsVerif.C07

/-! ## normdim -/

theorem normdim_none_iff (ndim : Nat) (n : Int) :
    normdim ndim n = none ↔ (n < -(ndim : Int) ∨ (ndim : Int) ≤ n) := by
  unfold normdim
  by_cases h : n < 0 <;> simp [h] <;> omega

theorem normdim_some (ndim : Nat) (n : Int) (k : Nat) (h : normdim ndim n = some k) :
    k < ndim ∧ (k : Int) = n % (ndim : Int) := by
  unfold normdim at h
  by_cases hn : n < 0
  · simp [hn] at h
    refine ⟨by omega, ?_⟩
    have : (n + ndim) % (ndim : Int) = n % ndim := Int.add_emod_right ..
    rw [← this, Int.emod_eq_of_lt (by omega) (by omega)]; omega
  · simp [hn] at h
    refine ⟨by omega, ?_⟩
    rw [Int.emod_eq_of_lt (by omega) (by omega)]; omega

/-! ## element kinds -/

theorem promote_eq_np (a b : DType) : promote a b = npPromote a b := by
  cases a <;> cases b <;> rfl

theorem npPromote_comm (a b : DType) : npPromote a b = npPromote b a := by
  cases a <;> cases b <;> rfl

theorem npPromote_assoc (a b c : DType) : npPromote (npPromote a b) c = npPromote a (npPromote b c) := by
  cases a <;> cases b <;> cases c <;> rfl

theorem npPromote_idem (a : DType) : npPromote a a = a := by cases a <;> rfl

theorem npPromote_bool (a : DType) : npPromote .bool a = a := by cases a <;> rfl

theorem npPromote_rank (a b : DType) : (npPromote a b).rank = max a.rank b.rank := by
  cases a <;> cases b <;> rfl

theorem typecast_eq_np (m : DType) (ds : List DType) : typecast m ds = ds.foldl npPromote m := by
  unfold typecast
  induction ds generalizing m with
  | nil => rfl
  | cons d t ih => simp only [List.foldl_cons, promote_eq_np]; exact ih _

theorem foldl_npPromote_rank (m : DType) (ds : List DType) :
    (ds.foldl npPromote m).rank = ds.foldl (fun r d => max r d.rank) m.rank := by
  induction ds generalizing m with
  | nil => rfl
  | cons d t ih => simp only [List.foldl_cons]; rw [ih, npPromote_rank]

theorem foldl_max_ge (r : Nat) (ds : List DType) :
    r ≤ ds.foldl (fun r d => max r d.rank) r ∧ ∀ d ∈ ds, d.rank ≤ ds.foldl (fun r d => max r d.rank) r := by
  induction ds generalizing r with
  | nil => simp
  | cons d t ih =>
    simp only [List.foldl_cons, List.mem_cons, forall_eq_or_imp]
    have h := ih (max r d.rank)
    refine ⟨by omega, by omega, h.2⟩

theorem foldl_max_mem (r : Nat) (ds : List DType) :
    ds.foldl (fun r d => max r d.rank) r = r ∨ ∃ d ∈ ds, ds.foldl (fun r d => max r d.rank) r = d.rank := by
  induction ds generalizing r with
  | nil => simp
  | cons d t ih =>
    simp only [List.foldl_cons, List.mem_cons, exists_eq_or_imp]
    rcases ih (max r d.rank) with h | ⟨x, hx, h⟩
    · rw [h]
      by_cases hr : d.rank ≤ r
      · left; omega
      · right; left; omega
    · right; right; exact ⟨x, hx, h⟩

theorem rank_inj {a b : DType} (h : a.rank = b.rank) : a = b := by
  cases a <;> cases b <;> simp_all [DType.rank]

/-! ## slices -/

theorem sliceIndices_bounds (s : PySlice) (n : Nat) (a b c : Int) (h : sliceIndices s n = some (a, b, c)) :
    c ≠ 0 ∧ (c > 0 → 0 ≤ a ∧ a ≤ n ∧ 0 ≤ b ∧ b ≤ n) ∧ (c < 0 → -1 ≤ a ∧ a ≤ (n : Int) - 1 ∧ -1 ≤ b ∧ b ≤ (n : Int) - 1) := by
  unfold sliceIndices at h
  simp only at h
  split at h
  · simp at h
  · rename_i hc
    simp only [Option.some.injEq, Prod.mk.injEq] at h
    obtain ⟨ha, hb, hc'⟩ := h
    subst hc'
    refine ⟨hc, ?_, ?_⟩
    · intro hpos
      have hneg : ¬ (s.step.getD 1 < 0) := by omega
      simp only [hneg, if_false] at ha hb
      constructor
      · subst ha; cases s.start <;> simp <;> (try split) <;> (try split) <;> omega
      constructor
      · subst ha; cases s.start <;> simp <;> (try split) <;> (try split) <;> omega
      constructor
      · subst hb; cases s.stop <;> simp <;> (try split) <;> (try split) <;> omega
      · subst hb; cases s.stop <;> simp <;> (try split) <;> (try split) <;> omega
    · intro hneg
      simp only [hneg, if_true] at ha hb
      constructor
      · subst ha; cases s.start <;> simp <;> (try split) <;> (try split) <;> omega
      constructor
      · subst ha; cases s.start <;> simp <;> (try split) <;> (try split) <;> omega
      constructor
      · subst hb; cases s.stop <;> simp <;> (try split) <;> (try split) <;> omega
      · subst hb; cases s.stop <;> simp <;> (try split) <;> (try split) <;> omega

theorem sliceIndices_step (s : PySlice) (n : Nat) (a b c : Int) (h : sliceIndices s n = some (a, b, c)) :
    c = s.step.getD 1 := by
  unfold sliceIndices at h
  simp only at h
  split at h
  · simp at h
  · simp only [Option.some.injEq, Prod.mk.injEq] at h; exact h.2.2.symm

theorem mem_pyRange_pos (a b c i : Int) (hc : c > 0) (h : i ∈ pyRange a b c) : a ≤ i ∧ i < b := by
  unfold pyRange at h
  simp only [List.mem_map, List.mem_range] at h
  obtain ⟨k, hk, rfl⟩ := h
  unfold rangeLen at hk
  simp only [hc, if_true] at hk
  split at hk
  · rename_i hab
    have h1 : (k : Int) ≤ (b - a - 1) / c := by omega
    have h2 : (k : Int) * c ≤ b - a - 1 := (Int.le_ediv_iff_mul_le hc).mp h1
    have h3 : 0 ≤ (k : Int) * c := Int.mul_nonneg (by omega) (by omega)
    omega
  · omega

theorem mem_pyRange_neg (a b c i : Int) (hc : c < 0) (h : i ∈ pyRange a b c) : b < i ∧ i ≤ a := by
  unfold pyRange at h
  simp only [List.mem_map, List.mem_range] at h
  obtain ⟨k, hk, rfl⟩ := h
  unfold rangeLen at hk
  have hc' : ¬ c > 0 := by omega
  simp only [hc', if_false, hc, if_true] at hk
  split at hk
  · rename_i hab
    have hpos : 0 < -c := by omega
    have h1 : (k : Int) ≤ (a - b - 1) / (-c) := by omega
    have h2 : (k : Int) * (-c) ≤ a - b - 1 := (Int.le_ediv_iff_mul_le hpos).mp h1
    have h3 : 0 ≤ (k : Int) * (-c) := Int.mul_nonneg (by omega) (by omega)
    have h4 : (k : Int) * (-c) = -((k : Int) * c) := by rw [Int.mul_neg]
    omega
  · omega

/-- every index produced by a slice lies inside the axis -/
theorem npSliceRange_inrange (s : PySlice) (n : Nat) (r : List Int) (h : npSliceRange s n = some r) :
    ∀ i ∈ r, 0 ≤ i ∧ i < n := by
  unfold npSliceRange at h
  cases hs : sliceIndices s n with
  | none => simp [hs] at h
  | some t =>
    obtain ⟨a, b, c⟩ := t
    simp only [hs, Option.map_some, Option.some.injEq] at h
    subst h
    have hb := sliceIndices_bounds s n a b c hs
    intro i hi
    rcases Int.lt_or_gt_of_ne hb.1 with hc | hc
    · have := mem_pyRange_neg a b c i hc hi
      have := hb.2.2 hc
      omega
    · have := mem_pyRange_pos a b c i hc hi
      have := hb.2.1 hc
      omega

theorem rangeLen_unit (a b : Int) : rangeLen a b 1 = (b - a).toNat := by
  unfold rangeLen
  simp only [show (1 : Int) > 0 by omega, if_true, Int.ediv_one]
  split <;> omega

theorem map_range_congr {α : Type} (n : Nat) (f g : Nat → α) (h : ∀ k, k < n → f k = g k) :
    (List.range n).map f = (List.range n).map g := by
  apply List.map_congr_left
  intro k hk
  exact h k (List.mem_range.mp hk)

/-- `_takeslice` (fixed tree): the index vector equals `range(*slice(start,stop,step).indices(n))`, for all inputs -/
theorem takeslice_indices (s : PySlice) (n : Nat) :
    (takeslice s n).map (·.indices n) = npSliceRange s n := by
  unfold takeslice npSliceRange
  by_cases hu : s.step = none ∨ s.step = some 1
  · simp only [hu, if_true]
    cases hs : sliceIndices s n with
    | none => simp
    | some t =>
      obtain ⟨a, b, c⟩ := t
      have hc : c = 1 := by
        have := sliceIndices_step s n a b c hs
        rcases hu with h | h <;> simp [h] at this <;> exact this
      subst hc
      have hb := (sliceIndices_bounds s n a b 1 hs).2.1 (by omega)
      have hmax : (if a > b then a else b) - a = ((b - a).toNat : Int) := by split <;> omega
      dsimp only
      by_cases h0 : a = 0 ∧ (if a > b then a else b) = (n : Int)
      · have hlen : (b - a).toNat = n := by omega
        rw [if_pos h0]
        simp only [Option.map_some, SlicePlan.indices, pyRange, rangeLen_unit, hlen]
        congr 1
        apply map_range_congr
        intro k _; omega
      · rw [if_neg h0]
        simp only [Option.map_some, SlicePlan.indices, pyRange, rangeLen_unit, hmax, Int.toNat_natCast]
        congr 1
        apply map_range_congr
        intro k _; omega
  · simp only [hu, if_false]
    cases hs : sliceIndices s n with
    | none => simp
    | some t => obtain ⟨a, b, c⟩ := t; simp [SlicePlan.indices]

end NutilsVerif.C07
