import NutilsVerif.Proofs.C16Range
/-!
# C16 — `_fork` / `_wait` outcome logic (helper lemmas)
-/
namespace NutilsVerif.C16

theorem waitOK_true_iff (c : ChildStatus) : waitOK c = some true ↔ c = .exited 0 := by
  cases c with
  | exited k => cases k <;> simp [waitOK]
  | _ => simp [waitOK]

theorem waitOK_none_iff (c : ChildStatus) : (waitOK c).isNone = true ↔ c = .running := by
  cases c with
  | exited k => cases k <;> simp [waitOK]
  | _ => simp [waitOK]

theorem forkResult_returns_iff (p : BodyOutcome) (cs : List ChildStatus) :
    forkResult p cs = .returns ↔ p = .ok ∧ ∀ c, c ∈ cs → c = .exited 0 := by
  cases p with
  | raised => simp [forkResult]
  | running => simp [forkResult]
  | ok =>
    simp only [forkResult, true_and]
    split
    · rename_i h
      simp only [reduceCtorEq, false_iff]
      intro hall
      obtain ⟨c, hc, hn⟩ := List.any_eq_true.1 h
      rw [hall c hc] at hn
      simp [waitOK] at hn
    · split
      · rename_i h
        simp only [true_iff]
        intro c hc
        have h0 : List.countP (fun c => waitOK c != some true) cs = 0 := by simpa using h
        have := (List.countP_eq_zero.1 h0) c hc
        exact (waitOK_true_iff c).1 (by simpa using this)
      · rename_i h
        simp only [reduceCtorEq, false_iff]
        intro hall
        apply h
        have : List.countP (fun c => waitOK c != some true) cs = 0 := by
          apply List.countP_eq_zero.2
          intro c hc
          rw [hall c hc]; simp [waitOK]
        simp [this]

variable {α : Type}

theorem parentOutcome_ok_iff (s : State α) : parentOutcome s = .ok ↔ s.pc 0 = .done ∧ s.dead 0 = false := by
  unfold parentOutcome
  cases hd : s.dead 0 <;> simp
  split <;> simp_all

theorem childStatus_exited0_iff (s : State α) (w : Nat) : childStatus s w = .exited 0 ↔ s.pc w = .done ∧ s.dead w = false := by
  unfold childStatus
  cases hd : s.dead w <;> simp
  split <;> simp_all

theorem outcome_returns_iff {N : Nat} (hN : 0 < N) (s : State α) : outcome N s = .returns ↔ AllDone N s := by
  unfold outcome AllDone
  rw [forkResult_returns_iff, parentOutcome_ok_iff]
  constructor
  · rintro ⟨h0, hc⟩ w hw
    cases w with
    | zero => exact h0
    | succ k =>
      exact (childStatus_exited0_iff s (k+1)).1 (hc _ (List.mem_map.2 ⟨k, List.mem_range.2 (by omega), rfl⟩))
  · intro h
    refine ⟨h 0 hN, ?_⟩
    intro c hc
    obtain ⟨k, hk, rfl⟩ := List.mem_map.1 hc
    exact (childStatus_exited0_iff s (k+1)).2 (h (k+1) (by have := List.mem_range.1 hk; omega))

variable [Add α]

theorem dead_stepW {n : Nat} {code : Nat → List (Instr α)} (s : State α) (w : Nat) : (stepW n code s w).dead = s.dead := by
  unfold stepW
  split <;> (try split) <;> rfl

theorem dead_applyEv {N n : Nat} {code : Nat → List (Instr α)} {s : State α} {w : Nat} (h : s.dead w = true) (e : Ev) :
    (applyEv N n code s e).dead w = true := by
  cases e with
  | step w' => simp only [applyEv]; split <;> simp [dead_stepW, h]
  | kill w' => simp only [applyEv]; split <;> simp [upd, h]
  | raise w' => simp only [applyEv]; split <;> simp [h]

theorem failed_applyEv {N n : Nat} {code : Nat → List (Instr α)} {s : State α} {w : Nat} (h : s.pc w = .failed) (e : Ev) :
    (applyEv N n code s e).pc w = .failed := by
  cases e with
  | step w' => simp only [applyEv]; split; exact failed_stepW w' w h; exact h
  | kill w' => simp only [applyEv]; split <;> simp [h]
  | raise w' =>
    simp only [applyEv]; split
    · by_cases hw : w = w' <;> simp [upd, hw, h]
    · exact h

theorem dead_run {N n : Nat} {code : Nat → List (Instr α)} (σ : List Ev) {s : State α} {w : Nat} (h : s.dead w = true) :
    (run N n code σ s).dead w = true := by
  induction σ generalizing s with
  | nil => exact h
  | cons e σ ih => exact ih (dead_applyEv h e)

theorem failed_run {N n : Nat} {code : Nat → List (Instr α)} (σ : List Ev) {s : State α} {w : Nat} (h : s.pc w = .failed) :
    (run N n code σ s).pc w = .failed := by
  induction σ generalizing s with
  | nil => exact h
  | cons e σ ih => exact ih (failed_applyEv h e)

end NutilsVerif.C16
