import NutilsVerif.Model.C19
/-!
# C19 — index bookkeeping of `_trace`, `_merge_summed_indices_same_term`, `_verify_indices_summed`
-/
namespace NutilsVerif.C19

theorem eraseIdx_idxOf (l : List Char) (c : Char) : l.eraseIdx (l.idxOf c) = l.erase c := by
  induction l with
  | nil => simp
  | cons a t ih =>
    by_cases h : a = c
    · subst h; simp
    · have h' : (a == c) = false := by simpa using h
      simp [List.idxOf_cons, h', ih]

theorem nodup_count_le (l : List Char) (h : l.Nodup) (c : Char) : l.count c ≤ 1 := by
  rw [h.count]; split <;> omega

theorem filter_erase_of_false (l : List Char) (c : Char) (p : Char → Bool) (hp : p c = false) :
    (l.erase c).filter p = l.filter p := by
  induction l with
  | nil => simp
  | cons a t ih =>
    by_cases h : a = c
    · subst h; simp [hp]
    · have h' : (a == c) = false := by simpa using h
      simp [h', List.filter_cons, ih]

/-- the loop of `_trace` on the index string, for every input: on success the result indices are the
indices occurring exactly once (in order), the summed set gains exactly the indices occurring twice, no
index occurred more than twice and none was summed before -/
theorem traceGo_spec (s : Sub) (rI : List Char) : ∀ (ops : Ops) (kI : List Char) (kS : List Nat) (sm : List Char) (rS : List Nat) (r : Res),
    kI.Nodup → (∀ c ∈ kI, c ∉ sm) → traceGo s ops kI kS sm rI rS = .ok r →
    r.indices = (kI ++ rI).filter (fun c => (kI ++ rI).count c == 1)
    ∧ (∀ c, c ∈ r.summed ↔ c ∈ sm ∨ (kI ++ rI).count c = 2)
    ∧ (∀ c ∈ rI, c ∉ sm) ∧ (∀ c, (kI ++ rI).count c ≤ 2) := by
  induction rI with
  | nil =>
    intro ops kI kS sm rS r hk hks h
    simp only [traceGo, Except.ok.injEq] at h
    subst h
    have hc : ∀ c, kI.count c ≤ 1 := nodup_count_le kI hk
    refine ⟨?_, ?_, ?_, ?_⟩
    · simp only [List.append_nil]
      symm; rw [List.filter_eq_self]
      intro a ha
      have := List.count_pos_iff.mpr ha
      have := hc a
      simp; omega
    · intro c; simp only [List.append_nil]
      have := hc c
      constructor
      · intro h; exact Or.inl h
      · rintro (h | h); exact h; omega
    · simp
    · intro c; have := hc c; simp; omega
  | cons c rI ih =>
    intro ops kI kS sm rS r hk hks h
    simp only [traceGo] at h
    split at h
    · simp [fail] at h
    · rename_i hcs
      have hcsm : c ∉ sm := by simpa using hcs
      split at h
      · rename_i hlt
        have hmem : c ∈ kI := List.idxOf_lt_length_iff.mp hlt
        split at h
        · simp [fail] at h
        · rw [eraseIdx_idxOf] at h
          have hk' : (kI.erase c).Nodup := hk.erase c
          have hks' : ∀ d ∈ kI.erase c, d ∉ c :: sm := by
            intro d hd
            have hdk : d ∈ kI := List.mem_of_mem_erase hd
            have hdc : d ≠ c := by
              intro e; subst e
              exact (List.Nodup.mem_erase_iff hk).mp hd |>.1 rfl
            simp [hdc, hks d hdk]
          obtain ⟨h1, h2, h3, h4⟩ := ih _ _ _ _ _ _ hk' hks' h
          have hcr : c ∉ rI := fun hc => h3 c hc (by simp)
          have hck : kI.count c = 1 := by rw [hk.count]; simp [hmem]
          have hcount : ∀ d, (kI ++ c :: rI).count d = (kI.erase c ++ rI).count d + (if d = c then 2 else 0) := by
            intro d
            by_cases hd : d = c
            · subst hd
              simp [List.count_append, hck, List.count_eq_zero.mpr hcr, List.count_erase_self]
            · have hd' : ¬ c = d := fun e => hd e.symm
              simp [List.count_append, hd, hd', List.count_erase_of_ne hd]
          have hzero : (kI.erase c ++ rI).count c = 0 := by
            rw [List.count_eq_zero]; intro hm
            rcases List.mem_append.mp hm with hm | hm
            · exact (List.Nodup.mem_erase_iff hk).mp hm |>.1 rfl
            · exact hcr hm
          refine ⟨?_, ?_, ?_, ?_⟩
          · rw [h1]
            have hp : (fun d => (kI ++ c :: rI).count d == 1) c = false := by
              have := hcount c; simp at this; simp [this]
            have hp' : (List.count c (kI ++ c :: rI) == 1) = false := hp
            rw [List.filter_append, List.filter_append, List.filter_cons, hp']
            simp only [Bool.false_eq_true, if_false]
            rw [← filter_erase_of_false kI c _ hp]
            congr 1
            · apply List.filter_congr
              intro d hd
              have hdc : d ≠ c := by
                intro e; subst e
                exact (List.Nodup.mem_erase_iff hk).mp hd |>.1 rfl
              have := hcount d; simp only [hdc, if_false, Nat.add_zero] at this
              show (List.count d (kI.erase c ++ rI) == 1) = (List.count d (kI ++ c :: rI) == 1)
              rw [this]
            · apply List.filter_congr
              intro d hd
              have hdc : d ≠ c := by intro e; subst e; exact hcr hd
              have := hcount d; simp only [hdc, if_false, Nat.add_zero] at this
              show (List.count d (kI.erase c ++ rI) == 1) = (List.count d (kI ++ c :: rI) == 1)
              rw [this]
          · intro d
            rw [h2 d, hcount d]
            by_cases hd : d = c
            · subst hd; simp [hzero]
            · simp [hd]
          · intro d hd
            rcases List.mem_cons.mp hd with e | hd
            · subst e; exact hcsm
            · intro hs; exact h3 d hd (List.mem_cons_of_mem _ hs)
          · intro d
            rw [hcount d]
            by_cases hd : d = c
            · subst hd; simp [hzero]
            · simp only [hd, if_false, Nat.add_zero]; exact h4 d
      · rename_i hlt
        have hnm : c ∉ kI := fun hm => hlt (List.idxOf_lt_length_iff.mpr hm)
        have hk' : (kI ++ [c]).Nodup := by
          rw [List.nodup_append]; refine ⟨hk, by simp, ?_⟩
          intro a ha b hb; simp at hb; subst hb; intro e; subst e; exact hnm ha
        have hks' : ∀ d ∈ kI ++ [c], d ∉ sm := by
          intro d hd; rcases List.mem_append.mp hd with hd | hd
          · exact hks d hd
          · simp at hd; subst hd; exact hcsm
        obtain ⟨h1, h2, h3, h4⟩ := ih _ _ _ _ _ _ hk' hks' h
        simp only [List.append_assoc, List.singleton_append] at h1 h2 h4
        refine ⟨h1, h2, ?_, h4⟩
        intro d hd
        rcases List.mem_cons.mp hd with e | hd
        · subst e; exact hcsm
        · exact h3 d hd

/-- shapes stay aligned with the indices -/
theorem traceGo_shape (s : Sub) (rI : List Char) : ∀ (ops : Ops) (kI : List Char) (kS : List Nat) (sm : List Char) (rS : List Nat) (r : Res),
    kS.length = kI.length → rS.length = rI.length → traceGo s ops kI kS sm rI rS = .ok r →
    r.shape.length = r.indices.length := by
  induction rI with
  | nil =>
    intro ops kI kS sm rS r hk hr h
    simp only [traceGo, Except.ok.injEq] at h
    subst h; simp at hr; simp [hk, hr]
  | cons c rI ih =>
    intro ops kI kS sm rS r hk hr h
    simp only [traceGo] at h
    have hrt : rS.tail.length = rI.length := by simp at hr ⊢; omega
    split at h
    · simp [fail] at h
    · split at h
      · rename_i hlt
        split at h
        · simp [fail] at h
        · refine ih _ _ _ _ _ _ ?_ hrt h
          rw [List.length_eraseIdx, List.length_eraseIdx]; simp [hk, hlt]
      · exact ih _ _ _ _ _ _ (by simp [hk]) hrt h

theorem filter_count_one_nodup (l : List Char) : (l.filter (fun c => l.count c == 1)).Nodup := by
  rw [List.nodup_iff_count]
  intro a
  by_cases h : l.count a = 1
  · rw [List.count_filter (by simp [h])]; omega
  · have : a ∉ l.filter (fun c => l.count c == 1) := by
      intro hm; rw [List.mem_filter] at hm; simp at hm; exact h hm.2
    rw [List.count_eq_zero.mpr this]; omega

end NutilsVerif.C19
