import NutilsVerif.Model.C07
/-!
# C07 — broadcasting lemmas  (no Mathlib)

`npBroadcastRev` (right-aligned pairwise rule on reversed shapes) is characterised pointwise through `getD · 1`
(`npBroadcastRev_iff`); from that: commutativity, associativity, idempotence, and the agreement of the column/set
algorithm of `function.broadcast_shapes` with the fold of the pairwise rule.
-/
namespace NutilsVerif.C07

/-! ## the axis rule -/

theorem bcAxis_comm (a b : Nat) : bcAxis a b = bcAxis b a := by
  unfold bcAxis
  by_cases h1 : a = b
  · subst h1; rfl
  · have h2 : ¬ b = a := fun h => h1 h.symm
    simp only [h1, h2, if_false]
    by_cases ha : a = 1 <;> by_cases hb : b = 1 <;> simp [ha, hb] <;> omega

theorem bcAxis_self (a : Nat) : bcAxis a a = some a := by simp [bcAxis]

theorem bcAxis_one_right (a : Nat) : bcAxis a 1 = some a := by
  unfold bcAxis
  by_cases h : a = 1 <;> simp [h]

theorem bcAxis_one_left (a : Nat) : bcAxis 1 a = some a := by
  rw [bcAxis_comm]; exact bcAxis_one_right a

theorem bcAxis_eq_some (a b c : Nat) : bcAxis a b = some c ↔ (a = b ∧ c = a) ∨ (a ≠ b ∧ a = 1 ∧ c = b) ∨ (a ≠ b ∧ b = 1 ∧ c = a) := by
  unfold bcAxis
  by_cases h1 : a = b
  · rw [if_pos h1]; simp only [Option.some.injEq]; omega
  · rw [if_neg h1]
    by_cases ha : a = 1
    · rw [if_pos ha]; simp only [Option.some.injEq]; omega
    · rw [if_neg ha]
      by_cases hb : b = 1
      · rw [if_pos hb]; simp only [Option.some.injEq]; omega
      · rw [if_neg hb]; simp only [reduceCtorEq, false_iff]; omega

theorem bcAxis_assoc (a b c : Nat) :
    (bcAxis a b).bind (fun x => bcAxis x c) = (bcAxis b c).bind (fun y => bcAxis a y) := by
  apply Option.ext
  intro r
  simp only [Option.bind_eq_some_iff, bcAxis_eq_some]
  constructor
  · rintro ⟨x, hx, hr⟩
    rcases hx with ⟨h1, h2⟩ | ⟨h1, h2, h3⟩ | ⟨h1, h2, h3⟩ <;> rcases hr with ⟨h4, h5⟩ | ⟨h4, h5, h6⟩ | ⟨h4, h5, h6⟩ <;> subst_vars
    all_goals first
      | exact ⟨_, Or.inl ⟨rfl, rfl⟩, by omega⟩
      | exact ⟨_, Or.inr (Or.inl ⟨by omega, rfl, rfl⟩), by omega⟩
      | exact ⟨_, Or.inr (Or.inr ⟨by omega, rfl, rfl⟩), by omega⟩
      | (refine ⟨1, ?_, ?_⟩ <;> omega)
      | (exfalso; omega)
  · rintro ⟨y, hy, hr⟩
    rcases hy with ⟨h1, h2⟩ | ⟨h1, h2, h3⟩ | ⟨h1, h2, h3⟩ <;> rcases hr with ⟨h4, h5⟩ | ⟨h4, h5, h6⟩ | ⟨h4, h5, h6⟩ <;> subst_vars
    all_goals first
      | exact ⟨_, Or.inl ⟨rfl, rfl⟩, by omega⟩
      | exact ⟨_, Or.inr (Or.inl ⟨by omega, rfl, rfl⟩), by omega⟩
      | exact ⟨_, Or.inr (Or.inr ⟨by omega, rfl, rfl⟩), by omega⟩
      | (refine ⟨1, ?_, ?_⟩ <;> omega)
      | (exfalso; omega)

/-! ## lists from pointwise data -/

theorem ext_getD1 {l₁ l₂ : List Nat} (hl : l₁.length = l₂.length) (h : ∀ j, l₁.getD j 1 = l₂.getD j 1) : l₁ = l₂ := by
  apply List.ext_getElem hl
  intro i h1 h2
  have := h i
  simpa [List.getD_eq_getElem?_getD, List.getElem?_eq_getElem h1, List.getElem?_eq_getElem h2] using this

theorem getD_ofFn (f : Nat → Nat) (N j : Nat) :
    ((List.range N).map f).getD j 1 = if j < N then f j else 1 := by
  by_cases h : j < N
  · simp [List.getD_eq_getElem?_getD, h]
  · simp [List.getD_eq_getElem?_getD, h]

theorem getD_ge {l : List Nat} {j : Nat} (h : l.length ≤ j) : l.getD j 1 = 1 := by
  simp [List.getD_eq_getElem?_getD, List.getElem?_eq_none h]

/-! ## the pairwise rule, pointwise -/

theorem npBroadcastRev_iff (ra rb rc : List Nat) :
    npBroadcastRev ra rb = some rc ↔
      rc.length = max ra.length rb.length ∧ ∀ j, bcAxis (ra.getD j 1) (rb.getD j 1) = some (rc.getD j 1) := by
  induction ra generalizing rb rc with
  | nil =>
    simp only [npBroadcastRev, Option.some.injEq, List.length_nil, Nat.zero_max]
    constructor
    · rintro rfl; exact ⟨rfl, fun j => by simp [bcAxis_one_left]⟩
    · rintro ⟨hl, h⟩
      apply ext_getD1 hl.symm
      intro j; have := h j; simp only [List.getD_nil, bcAxis_one_left, Option.some.injEq] at this; exact this
  | cons a as ih =>
    cases rb with
    | nil =>
      simp only [npBroadcastRev, Option.some.injEq, List.length_nil, Nat.max_zero]
      constructor
      · rintro rfl; exact ⟨rfl, fun j => by simp [bcAxis_one_right]⟩
      · rintro ⟨hl, h⟩
        apply ext_getD1 hl.symm
        intro j; have := h j; simp only [List.getD_nil, bcAxis_one_right, Option.some.injEq] at this; exact this
    | cons b bs =>
      simp only [npBroadcastRev]
      constructor
      · intro h
        cases hc : bcAxis a b with
        | none => simp [hc] at h
        | some c =>
          cases hr : npBroadcastRev as bs with
          | none => simp [hc, hr] at h
          | some r =>
            simp only [hc, hr, Option.some.injEq] at h
            subst h
            obtain ⟨hl, hp⟩ := (ih bs r).mp hr
            refine ⟨by rw [List.length_cons, hl, List.length_cons, List.length_cons]; omega, ?_⟩
            intro j
            cases j with
            | zero => simpa using hc
            | succ j => simpa using hp j
      · rintro ⟨hl, hp⟩
        cases rc with
        | nil => simp at hl
        | cons c r =>
          have h0 := hp 0
          simp only [List.getD_cons_zero] at h0
          have hr : npBroadcastRev as bs = some r := by
            apply (ih bs r).mpr
            refine ⟨by simp only [List.length_cons] at hl; omega, ?_⟩
            intro j; simpa using hp (j + 1)
          simp [h0, hr]

theorem npBroadcastRev_comm (ra rb : List Nat) : npBroadcastRev ra rb = npBroadcastRev rb ra := by
  apply Option.ext; intro rc
  rw [npBroadcastRev_iff, npBroadcastRev_iff, Nat.max_comm]
  constructor <;> rintro ⟨h1, h2⟩ <;> exact ⟨h1, fun j => by rw [bcAxis_comm]; exact h2 j⟩

theorem npBroadcastRev_self (ra : List Nat) : npBroadcastRev ra ra = some ra := by
  rw [npBroadcastRev_iff]; exact ⟨by simp, fun j => bcAxis_self _⟩

theorem exists_list (N : Nat) (f : Nat → Nat) (hf : ∀ j, N ≤ j → f j = 1) :
    ∃ l : List Nat, l.length = N ∧ ∀ j, l.getD j 1 = f j := by
  refine ⟨(List.range N).map f, by simp, ?_⟩
  intro j
  rw [getD_ofFn]
  by_cases h : j < N
  · rw [if_pos h]
  · rw [if_neg h, hf j (by omega)]

theorem npBroadcastRev_assoc (ra rb rc : List Nat) :
    (npBroadcastRev ra rb).bind (fun x => npBroadcastRev x rc) = (npBroadcastRev rb rc).bind (fun y => npBroadcastRev ra y) := by
  apply Option.ext; intro r
  simp only [Option.bind_eq_some_iff, npBroadcastRev_iff]
  constructor
  · rintro ⟨x, ⟨hxl, hx⟩, hrl, hr⟩
    have key : ∀ j, ∃ y, bcAxis (rb.getD j 1) (rc.getD j 1) = some y ∧ bcAxis (ra.getD j 1) y = some (r.getD j 1) := by
      intro j
      have ha := bcAxis_assoc (ra.getD j 1) (rb.getD j 1) (rc.getD j 1)
      rw [hx j, Option.bind_some, hr j] at ha
      exact Option.bind_eq_some_iff.mp ha.symm
    obtain ⟨y, hyl, hy⟩ := exists_list (max rb.length rc.length) (fun j => (bcAxis (rb.getD j 1) (rc.getD j 1)).getD 1) (by
      intro j hj
      rw [getD_ge (l := rb) (by omega), getD_ge (l := rc) (by omega), bcAxis_self]; rfl)
    have hyj : ∀ j, bcAxis (rb.getD j 1) (rc.getD j 1) = some (y.getD j 1) := by
      intro j; obtain ⟨y', h1, _⟩ := key j; rw [hy j, h1]; rfl
    refine ⟨y, ⟨hyl, hyj⟩, by omega, ?_⟩
    intro j
    obtain ⟨y', h1, h2⟩ := key j
    have : y.getD j 1 = y' := by rw [hy j, h1]; rfl
    rw [this]; exact h2
  · rintro ⟨y, ⟨hyl, hy⟩, hrl, hr⟩
    have key : ∀ j, ∃ x, bcAxis (ra.getD j 1) (rb.getD j 1) = some x ∧ bcAxis x (rc.getD j 1) = some (r.getD j 1) := by
      intro j
      have ha := bcAxis_assoc (ra.getD j 1) (rb.getD j 1) (rc.getD j 1)
      rw [hy j, Option.bind_some, hr j] at ha
      exact Option.bind_eq_some_iff.mp ha
    obtain ⟨x, hxl, hx⟩ := exists_list (max ra.length rb.length) (fun j => (bcAxis (ra.getD j 1) (rb.getD j 1)).getD 1) (by
      intro j hj
      rw [getD_ge (l := ra) (by omega), getD_ge (l := rb) (by omega), bcAxis_self]; rfl)
    have hxj : ∀ j, bcAxis (ra.getD j 1) (rb.getD j 1) = some (x.getD j 1) := by
      intro j; obtain ⟨x', h1, _⟩ := key j; rw [hx j, h1]; rfl
    refine ⟨x, ⟨hxl, hxj⟩, by omega, ?_⟩
    intro j
    obtain ⟨x', h1, h2⟩ := key j
    have : x.getD j 1 = x' := by rw [hx j, h1]; rfl
    rw [this]; exact h2

/-! ## `npBroadcast2` -/

theorem npBroadcast2_comm (a b : List Nat) : npBroadcast2 a b = npBroadcast2 b a := by
  unfold npBroadcast2; rw [npBroadcastRev_comm]

theorem npBroadcast2_idem (a : List Nat) : npBroadcast2 a a = some a := by
  unfold npBroadcast2; rw [npBroadcastRev_self]; simp

theorem npBroadcast2_assoc (a b c : List Nat) :
    (npBroadcast2 a b).bind (fun x => npBroadcast2 x c) = (npBroadcast2 b c).bind (fun y => npBroadcast2 a y) := by
  unfold npBroadcast2
  have h := npBroadcastRev_assoc a.reverse b.reverse c.reverse
  cases h1 : npBroadcastRev a.reverse b.reverse with
  | none =>
    cases h2 : npBroadcastRev b.reverse c.reverse with
    | none => rfl
    | some y =>
      rw [h1, h2] at h
      simp only [Option.bind_none, Option.bind_some] at h
      simp only [Option.map_none, Option.map_some, Option.bind_none, Option.bind_some, List.reverse_reverse, ← h]
  | some x =>
    cases h2 : npBroadcastRev b.reverse c.reverse with
    | none =>
      rw [h1, h2] at h
      simp only [Option.bind_none, Option.bind_some] at h
      simp only [Option.map_none, Option.map_some, Option.bind_none, Option.bind_some, List.reverse_reverse, h]
    | some y =>
      rw [h1, h2] at h
      simp only [Option.bind_some] at h
      simp only [Option.map_some, Option.bind_some, List.reverse_reverse, h]

theorem npBroadcastRev_nil_right (ra : List Nat) : npBroadcastRev ra [] = some ra := by
  cases ra <;> rfl

theorem npBroadcast2_nil_right (a : List Nat) : npBroadcast2 a [] = some a := by
  unfold npBroadcast2
  rw [List.reverse_nil, npBroadcastRev_nil_right]; simp

/-! ## columns: the set algorithm of the code versus the fold of the axis rule -/

theorem mem_distinct (x : Nat) (l : List Nat) : x ∈ distinct l ↔ x ∈ l := by
  induction l with
  | nil => simp [distinct]
  | cons a t ih =>
    unfold distinct
    by_cases h : a ∈ t
    · rw [if_pos h, ih, List.mem_cons]
      constructor
      · exact Or.inr
      · rintro (rfl | h') <;> assumption
    · rw [if_neg h, List.mem_cons, List.mem_cons, ih]

theorem nodup_distinct (l : List Nat) : (distinct l).Nodup := by
  induction l with
  | nil => simp [distinct]
  | cons a t ih =>
    unfold distinct
    by_cases h : a ∈ t
    · rw [if_pos h]; exact ih
    · rw [if_neg h, List.nodup_cons]; exact ⟨by rw [mem_distinct]; exact h, ih⟩

theorem nodup_all_eq {l : List Nat} {n : Nat} (hn : l.Nodup) (h : ∀ x ∈ l, x = n) : l = [] ∨ l = [n] := by
  match l, hn, h with
  | [], _, _ => exact Or.inl rfl
  | [a], _, h => right; rw [h a (by simp)]
  | a :: b :: t, hn, h =>
    exfalso
    have ha := h a (by simp); have hb := h b (by simp)
    rw [List.nodup_cons] at hn
    apply hn.1; rw [ha, ← hb]; simp

theorem bcColumn_iff (col : List Nat) (n : Nat) :
    bcColumn col = some n ↔ n ∈ col ∧ ∀ x ∈ col, x = n ∨ x = 1 := by
  unfold bcColumn
  simp only
  have hnd := nodup_distinct col
  by_cases hlen : (distinct col).length > 1
  · rw [if_pos hlen]
    have hfn : ((distinct col).filter (· ≠ 1)).Nodup := hnd.sublist List.filter_sublist
    constructor
    · intro h
      have hs : (distinct col).filter (· ≠ 1) = [n] := by
        cases hf : (distinct col).filter (· ≠ 1) with
        | nil => rw [hf] at h; simp at h
        | cons a t =>
          cases t with
          | nil => rw [hf] at h; simp only [Option.some.injEq] at h; rw [h]
          | cons b t' => rw [hf] at h; simp at h
      have hmem : ∀ x, x ∈ (distinct col).filter (· ≠ 1) ↔ x = n := by intro x; rw [hs]; simp
      refine ⟨?_, ?_⟩
      · have := (hmem n).mpr rfl
        rw [List.mem_filter, mem_distinct] at this; exact this.1
      · intro x hx
        by_cases h1 : x = 1
        · exact Or.inr h1
        · left; apply (hmem x).mp; rw [List.mem_filter, mem_distinct]; exact ⟨hx, by simpa using h1⟩
    · rintro ⟨hn, hall⟩
      have hn1 : n ≠ 1 := by
        intro h1
        have : distinct col = [] ∨ distinct col = [1] := nodup_all_eq hnd (by
          intro x hx; rw [mem_distinct] at hx; rcases hall x hx with h | h <;> omega)
        rcases this with h | h <;> rw [h] at hlen <;> simp at hlen
      have hall' : ∀ x ∈ (distinct col).filter (· ≠ 1), x = n := by
        intro x hx
        rw [List.mem_filter, mem_distinct] at hx
        rcases hall x hx.1 with h | h
        · exact h
        · exfalso; simp [h] at hx
      have hin : n ∈ (distinct col).filter (· ≠ 1) := by
        rw [List.mem_filter, mem_distinct]; exact ⟨hn, by simpa using hn1⟩
      rcases nodup_all_eq hfn hall' with h | h
      · rw [h] at hin; simp at hin
      · rw [h]
  · rw [if_neg hlen]
    constructor
    · intro h
      have hs : distinct col = [n] := by
        cases hf : distinct col with
        | nil => rw [hf] at h; simp at h
        | cons a t =>
          cases t with
          | nil => rw [hf] at h; simp only [Option.some.injEq] at h; rw [h]
          | cons b t' => rw [hf] at hlen; simp at hlen
      have hmem : ∀ x, x ∈ col ↔ x = n := by intro x; rw [← mem_distinct, hs]; simp
      exact ⟨(hmem n).mpr rfl, fun x hx => Or.inl ((hmem x).mp hx)⟩
    · rintro ⟨hn, _⟩
      have hin : n ∈ distinct col := (mem_distinct n col).mpr hn
      cases hf : distinct col with
      | nil => rw [hf] at hin; simp at hin
      | cons a t =>
        cases t with
        | nil => rw [hf] at hin; simp at hin; rw [hin]
        | cons b t' => rw [hf] at hlen; simp at hlen

/-- specification of one axis of an n-ary broadcast: fold of the pairwise rule, starting from "absent" = 1 -/
def colSpec : List Nat → Option Nat
  | [] => some 1
  | x :: xs => (colSpec xs).bind (bcAxis x)

theorem colSpec_iff (col : List Nat) (n : Nat) :
    colSpec col = some n ↔ (n ∈ col ∨ n = 1) ∧ ∀ x ∈ col, x = n ∨ x = 1 := by
  induction col generalizing n with
  | nil => simp [colSpec]; omega
  | cons x xs ih =>
    simp only [colSpec, Option.bind_eq_some_iff, bcAxis_eq_some, ih, List.mem_cons, forall_eq_or_imp]
    constructor
    · rintro ⟨m, ⟨hm, hall⟩, hx⟩
      rcases hx with ⟨h1, h2⟩ | ⟨h1, h2, h3⟩ | ⟨h1, h2, h3⟩
      · subst h1 h2; exact ⟨Or.inl (Or.inl rfl), Or.inl rfl, hall⟩
      · subst h3; refine ⟨?_, Or.inr h2, hall⟩
        rcases hm with h | h
        · exact Or.inl (Or.inr h)
        · exact Or.inr h
      · subst h3; refine ⟨Or.inl (Or.inl rfl), Or.inl rfl, ?_⟩
        intro y hy; rcases hall y hy with h | h <;> right <;> omega
    · rintro ⟨hn, hx, hall⟩
      by_cases hmem : n ∈ xs
      · refine ⟨n, ⟨Or.inl hmem, hall⟩, ?_⟩
        rcases hx with h | h
        · left; exact ⟨h, h.symm⟩
        · by_cases hn1 : n = 1
          · left; omega
          · right; left; exact ⟨by omega, h, rfl⟩
      · have hones : ∀ y ∈ xs, y = 1 := by
          intro y hy; rcases hall y hy with h | h
          · exfalso; exact hmem (h ▸ hy)
          · exact h
        refine ⟨1, ⟨Or.inr rfl, fun y hy => Or.inl (hones y hy)⟩, ?_⟩
        have hxn : x = n := by
          rcases hn with (h | h) | h
          · exact h.symm
          · exact absurd h hmem
          · rcases hx with h' | h' <;> omega
        by_cases hx1 : x = 1
        · left; omega
        · right; right; exact ⟨hx1, rfl, hxn.symm⟩

theorem bcColumn_eq_colSpec (col : List Nat) (h : col ≠ []) : bcColumn col = colSpec col := by
  apply Option.ext; intro n
  rw [bcColumn_iff, colSpec_iff]
  constructor
  · rintro ⟨h1, h2⟩; exact ⟨Or.inl h1, h2⟩
  · rintro ⟨h1 | h1, h2⟩
    · exact ⟨h1, h2⟩
    · subst h1
      cases col with
      | nil => exact absurd rfl h
      | cons a t => refine ⟨?_, h2⟩; rcases h2 a (by simp) with h' | h' <;> simp [h']

theorem colSpec_ones (col : List Nat) (h : ∀ x ∈ col, x = 1) : colSpec col = some 1 := by
  rw [colSpec_iff]; exact ⟨Or.inr rfl, fun x hx => Or.inr (h x hx)⟩

/-! ## rows versus columns -/

def maxLen (R : List (List Nat)) : Nat := (R.map List.length).foldl max 0

theorem foldl_max_init (l : List Nat) (a : Nat) : l.foldl max a = max a (l.foldl max 0) := by
  induction l generalizing a with
  | nil => simp
  | cons x t ih => simp only [List.foldl_cons]; rw [ih (max a x), ih (max 0 x)]; omega

theorem maxLen_nil : maxLen [] = 0 := rfl

theorem maxLen_cons (r : List Nat) (rs : List (List Nat)) : maxLen (r :: rs) = max r.length (maxLen rs) := by
  unfold maxLen
  simp only [List.map_cons, List.foldl_cons]
  rw [foldl_max_init]; omega

theorem length_le_maxLen {R : List (List Nat)} {r : List Nat} (h : r ∈ R) : r.length ≤ maxLen R := by
  induction R with
  | nil => simp at h
  | cons a t ih =>
    rw [maxLen_cons]
    rcases List.mem_cons.mp h with rfl | h'
    · omega
    · have := ih h'; omega

/-- the n-ary specification on reversed shapes -/
def specRev : List (List Nat) → Option (List Nat)
  | [] => some []
  | r :: rs => (specRev rs).bind (npBroadcastRev r)

theorem npBroadcast_eq_specRev (shapes : List (List Nat)) :
    npBroadcast shapes = (specRev (shapes.map List.reverse)).map List.reverse := by
  induction shapes with
  | nil => rfl
  | cons s ss ih =>
    simp only [npBroadcast, List.map_cons, specRev, ih]
    cases specRev (ss.map List.reverse) with
    | none => rfl
    | some y => simp [npBroadcast2]

def colsRev (R : List (List Nat)) (j : Nat) : List Nat := R.map (fun r => r.getD j 1)

theorem colsRev_ones {R : List (List Nat)} {j : Nat} (h : maxLen R ≤ j) : ∀ x ∈ colsRev R j, x = 1 := by
  intro x hx
  simp only [colsRev, List.mem_map] at hx
  obtain ⟨r, hr, rfl⟩ := hx
  exact getD_ge (by have := length_le_maxLen hr; omega)

theorem specRev_iff (R : List (List Nat)) (rc : List Nat) :
    specRev R = some rc ↔ rc.length = maxLen R ∧ ∀ j, colSpec (colsRev R j) = some (rc.getD j 1) := by
  induction R generalizing rc with
  | nil =>
    simp only [specRev, Option.some.injEq, maxLen_nil, colsRev, List.map_nil, colSpec]
    constructor
    · rintro rfl; exact ⟨rfl, fun j => rfl⟩
    · rintro ⟨h, _⟩; exact (List.eq_nil_of_length_eq_zero h).symm
  | cons r rs ih =>
    simp only [specRev, Option.bind_eq_some_iff, npBroadcastRev_iff, maxLen_cons]
    constructor
    · rintro ⟨rc', h', hl, hp⟩
      obtain ⟨hl', hp'⟩ := (ih rc').mp h'
      refine ⟨by omega, fun j => ?_⟩
      simp only [colsRev, List.map_cons, colSpec]
      have := hp' j
      simp only [colsRev] at this
      rw [this, Option.bind_some]; exact hp j
    · rintro ⟨hl, hp⟩
      have key : ∀ j, ∃ m, colSpec (colsRev rs j) = some m ∧ bcAxis (r.getD j 1) m = some (rc.getD j 1) := by
        intro j
        have := hp j
        simp only [colsRev, List.map_cons, colSpec] at this
        exact Option.bind_eq_some_iff.mp this
      obtain ⟨rc', hl', hrc'⟩ := exists_list (maxLen rs) (fun j => (colSpec (colsRev rs j)).getD 1) (by
        intro j hj; rw [colSpec_ones _ (colsRev_ones hj)]; rfl)
      have hcol : ∀ j, colSpec (colsRev rs j) = some (rc'.getD j 1) := by
        intro j; obtain ⟨m, h1, _⟩ := key j; rw [hrc' j, h1]; rfl
      refine ⟨rc', (ih rc').mpr ⟨hl', hcol⟩, by omega, fun j => ?_⟩
      obtain ⟨m, h1, h2⟩ := key j
      have : rc'.getD j 1 = m := by rw [hrc' j, h1]; rfl
      rw [this]; exact h2

/-! ## the code: left-padding, columns, set logic -/

theorem sequence_eq_some {α : Type} (l : List (Option α)) (r : List α) : sequence l = some r ↔ l = r.map some := by
  induction l generalizing r with
  | nil => cases r <;> simp [sequence]
  | cons a t ih =>
    cases a with
    | none => cases r <;> simp [sequence]
    | some a =>
      cases r with
      | nil => simp [sequence]
      | cons b r' =>
        simp only [sequence, Option.map_eq_some_iff, ih, List.map_cons, List.cons.injEq, Option.some.injEq]
        constructor
        · rintro ⟨x, hx, h1, h2⟩; subst h2; exact ⟨h1, hx⟩
        · rintro ⟨h1, hx⟩; exact ⟨r', hx, h1, rfl⟩

theorem map_range_eq_map_some (N : Nat) (g : Nat → Option Nat) (r : List Nat) :
    (List.range N).map g = r.map some ↔ r.length = N ∧ ∀ i, i < N → g i = some (r.getD i 1) := by
  constructor
  · intro h
    have hl : r.length = N := by have := congrArg List.length h; simpa using this.symm
    refine ⟨hl, fun i hi => ?_⟩
    have := congrArg (fun l => l[i]?) h
    simp only [List.getElem?_map, List.getElem?_range hi, Option.map_some] at this
    rw [List.getElem?_eq_getElem (by omega), Option.map_some, Option.some.injEq] at this
    rw [this, List.getD_eq_getElem?_getD, List.getElem?_eq_getElem (by omega)]; rfl
  · rintro ⟨hl, hp⟩
    apply List.ext_getElem (by simp [hl])
    intro i h1 h2
    simp only [List.length_map, List.length_range] at h1
    simp only [List.getElem_map, List.getElem_range]
    rw [hp i h1, List.getD_eq_getElem?_getD, List.getElem?_eq_getElem (by omega)]; rfl

theorem getD_pad (s : List Nat) (N i : Nat) (hs : s.length ≤ N) (hi : i < N) :
    (List.replicate (N - s.length) 1 ++ s).getD i 1 = s.reverse.getD (N - 1 - i) 1 := by
  rw [List.getD_eq_getElem?_getD, List.getD_eq_getElem?_getD, List.getElem?_append]
  by_cases h : i < N - s.length
  · simp only [List.length_replicate, h, if_true]
    rw [List.getElem?_replicate, if_pos h]
    rw [List.getElem?_eq_none (by simp; omega)]
    rfl
  · simp only [List.length_replicate, h, if_false]
    rw [List.getElem?_reverse (by omega)]
    congr 2; omega

theorem getD_reverse_flip (r : List Nat) (i : Nat) (hi : i < r.length) :
    r.getD i 1 = r.reverse.getD (r.length - 1 - i) 1 := by
  have := getD_pad r r.length i (Nat.le_refl _) hi
  simpa using this

/-- **`function.broadcast_shapes` computes NumPy's broadcast shape and rejects exactly when NumPy rejects.** -/
theorem broadcastShapes_eq_npBroadcast (shapes : List (List Nat)) (hne : shapes ≠ []) :
    broadcastShapes shapes = npBroadcast shapes := by
  apply Option.ext; intro r
  have hN : (shapes.map List.length).foldl max 0 = maxLen (shapes.map List.reverse) := by
    unfold maxLen; rw [List.map_map]; congr 1; apply List.map_congr_left; intro s _; simp
  rw [npBroadcast_eq_specRev]
  have hR : (Option.map List.reverse (specRev (shapes.map List.reverse)) = some r) ↔ specRev (shapes.map List.reverse) = some r.reverse := by
    constructor
    · intro h; obtain ⟨x, hx, rfl⟩ := Option.map_eq_some_iff.mp h; simpa using hx
    · intro h; rw [h]; simp
  rw [hR, specRev_iff]
  unfold broadcastShapes
  have he : shapes.isEmpty = false := by cases shapes <;> simp_all
  simp only [he, Bool.false_eq_true, if_false, sequence_eq_some, map_range_eq_map_some, hN, List.map_map, List.length_reverse]
  generalize hNd : maxLen (shapes.map List.reverse) = N
  have hlen : ∀ s ∈ shapes, s.length ≤ N := by
    intro s hs
    have := length_le_maxLen (R := shapes.map List.reverse) (r := s.reverse) (List.mem_map_of_mem hs)
    rw [hNd] at this; simpa using this
  -- the column seen by the code at position `i` is the reversed column `N-1-i`
  have hcol : ∀ i, i < N → (shapes.map ((fun s => s.getD i 1) ∘ fun s => List.replicate (N - s.length) 1 ++ s)) = colsRev (shapes.map List.reverse) (N - 1 - i) := by
    intro i hi
    simp only [colsRev, List.map_map]
    apply List.map_congr_left
    intro s hs
    simp only [Function.comp]
    exact getD_pad s N i (hlen s hs) hi
  have hcne : ∀ j, colsRev (shapes.map List.reverse) j ≠ [] := by
    intro j; cases shapes with
    | nil => exact absurd rfl hne
    | cons a t => simp [colsRev]
  constructor
  · rintro ⟨hl, hp⟩
    refine ⟨hl, fun j => ?_⟩
    by_cases hj : j < N
    · have := hp (N - 1 - j) (by omega)
      rw [hcol _ (by omega), bcColumn_eq_colSpec _ (hcne _)] at this
      have e : N - 1 - (N - 1 - j) = j := by omega
      rw [e] at this
      rw [this, getD_reverse_flip r (N - 1 - j) (by omega)]
      congr 2; omega
    · rw [colSpec_ones _ (colsRev_ones (by omega)), getD_ge (by simp; omega)]
  · rintro ⟨hl, hp⟩
    refine ⟨hl, fun i hi => ?_⟩
    rw [hcol i hi, bcColumn_eq_colSpec _ (hcne _), hp (N - 1 - i), getD_reverse_flip r i (by omega)]
    congr 2; omega

end NutilsVerif.C07
