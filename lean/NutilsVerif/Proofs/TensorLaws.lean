import NutilsVerif.Proofs.Tensor
/-!
# Helper lemmas for the algebraic laws of `Core/Tensor.lean`  (no Mathlib)

* box lemmas: `inBox` of appended shapes, characterisation through `getD`;
* one `get_<op>` lemma per operation: the entry of the result at a multi-index of its box, written in
  "snoc form" (`pre ++ [k]`, `pre ++ [i, j]`, `pre ++ suf`) under the hypothesis `t.shape = s ++ …`
  (`s` is arbitrary: any number of leading axes of any lengths);
* `equiv_append` / `equiv_snoc` / `equiv_snoc2`: extensionality in the same form;
* fold lemmas over an abstract commutative monoid `(add, zero)` given by explicit hypotheses
  (`IsCommMonoid`), so that the laws hold for every carrier (ℤ, ℚ, polynomials, …).
-/
namespace NutilsVerif
open Tensor

/-! ### boxes -/

theorem inBox_length : ∀ {s idx : List Nat}, inBox s idx = true → idx.length = s.length
  | [], [], _ => rfl
  | [], _ :: _, h => by simp [inBox] at h
  | _ :: _, [], h => by simp [inBox] at h
  | _ :: s, _ :: idx, h => by
    simp only [inBox, Bool.and_eq_true] at h
    simp [inBox_length h.2]

theorem inBox_nil_iff {idx : List Nat} : inBox [] idx = true ↔ idx = [] := by
  cases idx <;> simp [inBox]

theorem inBox_cons {n i : Nat} {s idx : List Nat} :
    inBox (n :: s) (i :: idx) = true ↔ i < n ∧ inBox s idx = true := by
  simp [inBox]

theorem inBox_single {n : Nat} {idx : List Nat} : inBox [n] idx = true ↔ ∃ k, idx = [k] ∧ k < n := by
  match idx with
  | [] => simp [inBox]
  | [k] => simp [inBox]
  | _ :: _ :: _ => simp [inBox]

theorem inBox_pair {a b : Nat} {idx : List Nat} :
    inBox [a, b] idx = true ↔ ∃ i j, idx = [i, j] ∧ i < a ∧ j < b := by
  match idx with
  | [] => simp [inBox]
  | [_] => simp [inBox]
  | [i, j] =>
    simp only [inBox, Bool.and_true, Bool.and_eq_true, decide_eq_true_eq]
    exact ⟨fun ⟨h1, h2⟩ => ⟨i, j, rfl, h1, h2⟩, fun ⟨_, _, e, h1, h2⟩ => by cases e; exact ⟨h1, h2⟩⟩
  | _ :: _ :: _ :: _ => simp [inBox]

theorem inBox_append : ∀ {s s' i i' : List Nat}, i.length = s.length →
    (inBox (s ++ s') (i ++ i') = true ↔ inBox s i = true ∧ inBox s' i' = true)
  | [], _, [], _, _ => by simp [inBox]
  | [], _, _ :: _, _, h => by simp at h
  | _ :: _, _, [], _, h => by simp at h
  | n :: s, s', k :: i, i', h => by
    have h' : i.length = s.length := by simpa using h
    simp only [List.cons_append, inBox_cons, inBox_append (s' := s') (i' := i') h']
    exact ⟨fun ⟨a, b, c⟩ => ⟨⟨a, b⟩, c⟩, fun ⟨⟨a, b⟩, c⟩ => ⟨a, b, c⟩⟩

/-- a multi-index of the box of `s ++ s'` splits into a multi-index of `s` and one of `s'` -/
theorem inBox_split {s s' idx : List Nat} (h : inBox (s ++ s') idx = true) :
    ∃ pre suf, idx = pre ++ suf ∧ inBox s pre = true ∧ inBox s' suf = true := by
  have hl := inBox_length h
  refine ⟨idx.take s.length, idx.drop s.length, (List.take_append_drop _ _).symm, ?_⟩
  have hlen : (idx.take s.length).length = s.length := by
    rw [List.length_take]; simp only [List.length_append] at hl; omega
  rw [← List.take_append_drop s.length idx] at h
  exact (inBox_append hlen).1 h

theorem inBox_snoc {s : List Nat} {n k : Nat} {pre : List Nat} (hp : inBox s pre = true) (hk : k < n) :
    inBox (s ++ [n]) (pre ++ [k]) = true :=
  (inBox_append (inBox_length hp)).2 ⟨hp, inBox_single.2 ⟨k, rfl, hk⟩⟩

theorem inBox_snoc2 {s : List Nat} {a b i j : Nat} {pre : List Nat} (hp : inBox s pre = true)
    (hi : i < a) (hj : j < b) : inBox (s ++ [a, b]) (pre ++ [i, j]) = true :=
  (inBox_append (inBox_length hp)).2 ⟨hp, inBox_pair.2 ⟨i, j, rfl, hi, hj⟩⟩

theorem inBox_app {s s' pre suf : List Nat} (hp : inBox s pre = true) (hs : inBox s' suf = true) :
    inBox (s ++ s') (pre ++ suf) = true :=
  (inBox_append (inBox_length hp)).2 ⟨hp, hs⟩

/-- characterisation of the box through positions -/
theorem inBox_iff_getD : ∀ {s idx : List Nat},
    inBox s idx = true ↔ idx.length = s.length ∧ ∀ k, k < s.length → idx.getD k 0 < s.getD k 0
  | [], idx => by
    rw [inBox_nil_iff]
    constructor
    · rintro rfl; simp
    · intro h; exact List.eq_nil_of_length_eq_zero h.1
  | _ :: _, [] => by simp [inBox]
  | n :: s, i :: idx => by
    rw [inBox_cons, inBox_iff_getD (s := s) (idx := idx)]
    constructor
    · rintro ⟨hi, hl, h⟩
      refine ⟨by simp [hl], fun k hk => ?_⟩
      cases k with
      | zero => simpa using hi
      | succ k => simpa using h k (by simpa using hk)
    · rintro ⟨hl, h⟩
      refine ⟨by simpa using h 0 (by simp), by simpa using hl, fun k hk => ?_⟩
      simpa using h (k+1) (by simpa using hk)

theorem shape_snoc_of_ne_nil {s : List Nat} (h : s ≠ []) : s = s.dropLast ++ [s.getLastD 0] := by
  rw [List.getLastD_eq_getLast?, List.getLast?_eq_some_getLast h]
  exact (List.dropLast_concat_getLast h).symm

/-! ### extensionality in snoc form -/

namespace Tensor
variable {α : Type} [Inhabited α]

theorem equiv_append {A B : Tensor α} {s s' : List Nat} (hA : A.shape = s ++ s') (hB : B.shape = s ++ s')
    (h : ∀ pre suf, inBox s pre = true → inBox s' suf = true → A.get (pre ++ suf) = B.get (pre ++ suf)) :
    A ≃ₜ B := by
  refine ⟨hA.trans hB.symm, fun idx hi => ?_⟩
  rw [hA] at hi
  obtain ⟨pre, suf, rfl, hp, hs⟩ := inBox_split hi
  exact h pre suf hp hs

theorem equiv_snoc {A B : Tensor α} {s : List Nat} {n : Nat} (hA : A.shape = s ++ [n]) (hB : B.shape = s ++ [n])
    (h : ∀ pre k, inBox s pre = true → k < n → A.get (pre ++ [k]) = B.get (pre ++ [k])) : A ≃ₜ B :=
  equiv_append hA hB fun pre suf hp hs => by
    obtain ⟨k, rfl, hk⟩ := inBox_single.1 hs
    exact h pre k hp hk

theorem equiv_snoc2 {A B : Tensor α} {s : List Nat} {a b : Nat} (hA : A.shape = s ++ [a, b])
    (hB : B.shape = s ++ [a, b])
    (h : ∀ pre i j, inBox s pre = true → i < a → j < b → A.get (pre ++ [i, j]) = B.get (pre ++ [i, j])) :
    A ≃ₜ B :=
  equiv_append hA hB fun pre suf hp hs => by
    obtain ⟨i, j, rfl, hi, hj⟩ := inBox_pair.1 hs
    exact h pre i j hp hi hj

theorem equiv_of_get {A B : Tensor α} {s : List Nat} (hA : A.shape = s) (hB : B.shape = s)
    (h : ∀ idx, inBox s idx = true → A.get idx = B.get idx) : A ≃ₜ B :=
  ⟨hA.trans hB.symm, fun idx hi => h idx (hA ▸ hi)⟩

theorem ofFn_equiv_ofFn (shape : List Nat) (f g : List Nat → α)
    (h : ∀ idx, inBox shape idx = true → f idx = g idx) : ofFn shape f ≃ₜ ofFn shape g :=
  equiv_of_get (s := shape) rfl rfl fun idx hi => by rw [get_ofFn _ _ _ hi, get_ofFn _ _ _ hi, h idx hi]

/-! ### the entry of each operation at a multi-index of its box -/

theorem get_zipWith {β γ : Type} [Inhabited β] [Inhabited γ] (f : α → β → γ) (a : Tensor α) (b : Tensor β)
    {idx : List Nat} (h : inBox a.shape idx = true) : (zipWith f a b).get idx = f (a.get idx) (b.get idx) :=
  get_ofFn _ _ idx h

theorem get_full (s : List Nat) (a : α) {idx : List Nat} (h : inBox s idx = true) : (full s a).get idx = a :=
  get_ofFn _ _ idx h

theorem get_insertAxis (t : Tensor α) (n : Nat) {pre : List Nat} {k : Nat} (hp : inBox t.shape pre = true)
    (hk : k < n) : (insertAxis t n).get (pre ++ [k]) = t.get pre := by
  unfold insertAxis
  rw [get_ofFn _ _ _ (inBox_snoc hp hk), List.dropLast_concat]

theorem shape_takeDiag {t : Tensor α} {s : List Nat} {n m : Nat} (hs : t.shape = s ++ [n, m]) :
    (takeDiag t).shape = s ++ [n] := by
  show t.shape.dropLast = _
  rw [hs, show s ++ [n, m] = (s ++ [n]) ++ [m] by simp, List.dropLast_concat]

theorem get_takeDiag {t : Tensor α} {s : List Nat} {n m : Nat} (hs : t.shape = s ++ [n, m]) {pre : List Nat}
    {k : Nat} (hp : inBox s pre = true) (hk : k < n) : (takeDiag t).get (pre ++ [k]) = t.get (pre ++ [k, k]) := by
  have hsh := shape_takeDiag hs
  unfold takeDiag at hsh ⊢
  simp only [shape_ofFn] at hsh
  rw [hsh, get_ofFn _ _ _ (inBox_snoc hp hk), List.getLastD_concat, List.append_assoc]
  rfl

theorem shape_diagonalize (z : α) {t : Tensor α} {s : List Nat} {n : Nat} (hs : t.shape = s ++ [n]) :
    (diagonalize z t).shape = s ++ [n, n] := by
  show t.shape ++ [t.shape.getLastD 0] = _
  rw [hs, List.getLastD_concat]; simp

theorem get_diagonalize (z : α) {t : Tensor α} {s : List Nat} {n : Nat} (hs : t.shape = s ++ [n])
    {pre : List Nat} {i j : Nat} (hp : inBox s pre = true) (hi : i < n) (hj : j < n) :
    (diagonalize z t).get (pre ++ [i, j]) = if i = j then t.get (pre ++ [i]) else z := by
  have hsh := shape_diagonalize z hs
  unfold diagonalize at hsh ⊢
  simp only [shape_ofFn] at hsh
  rw [hsh, get_ofFn _ _ _ (inBox_snoc2 hp hi hj)]
  have e : pre ++ [i, j] = (pre ++ [i]) ++ [j] := by simp
  simp only [e, List.getLastD_concat, List.dropLast_concat, beq_iff_eq]

theorem shape_reduceLast (op : α → α → α) (u : α) {t : Tensor α} {s : List Nat} {n : Nat}
    (hs : t.shape = s ++ [n]) : (reduceLast op u t).shape = s := by
  show t.shape.dropLast = _
  rw [hs, List.dropLast_concat]

theorem get_reduceLast (op : α → α → α) (u : α) {t : Tensor α} {s : List Nat} {n : Nat}
    (hs : t.shape = s ++ [n]) {pre : List Nat} (hp : inBox s pre = true) :
    (reduceLast op u t).get pre = (List.range n).foldl (fun acc k => op acc (t.get (pre ++ [k]))) u := by
  have hsh := shape_reduceLast op u hs
  unfold reduceLast at hsh ⊢
  simp only [shape_ofFn] at hsh
  simp only [hsh]
  rw [get_ofFn _ _ _ hp, hs, List.getLastD_concat]

theorem shape_take {t : Tensor α} {s : List Nat} {n : Nat} (hs : t.shape = s ++ [n]) (ind : Tensor Nat) :
    (take t ind).shape = s ++ ind.shape := by
  show t.shape.dropLast ++ ind.shape = _
  rw [hs, List.dropLast_concat]

theorem get_take {t : Tensor α} {s : List Nat} {n : Nat} (hs : t.shape = s ++ [n]) (ind : Tensor Nat)
    {pre suf : List Nat} (hp : inBox s pre = true) (hj : inBox ind.shape suf = true) :
    (take t ind).get (pre ++ suf) = t.get (pre ++ [ind.get suf]) := by
  have hsh := shape_take hs ind
  unfold take at hsh ⊢
  simp only [shape_ofFn] at hsh
  simp only [hsh]
  rw [get_ofFn _ _ _ (inBox_app hp hj)]
  have hl : pre.length = t.shape.length - 1 := by rw [hs, inBox_length hp]; simp
  rw [List.take_left' hl, List.drop_left' hl]

theorem shape_inflate (add : α → α → α) (z : α) {t : Tensor α} {s : List Nat} (dm : Tensor Nat) (len : Nat)
    (hs : t.shape = s ++ dm.shape) : (inflate add z t dm len).shape = s ++ [len] := by
  show t.shape.take (t.shape.length - dm.shape.length) ++ [len] = _
  rw [hs, List.take_left' (by simp)]

theorem get_inflate (add : α → α → α) (z : α) {t : Tensor α} {s : List Nat} (dm : Tensor Nat) (len : Nat)
    (hs : t.shape = s ++ dm.shape) {pre : List Nat} {k : Nat} (hp : inBox s pre = true) (hk : k < len) :
    (inflate add z t dm len).get (pre ++ [k]) =
      (indices dm.shape).foldl (fun acc d => if dm.get d == k then add acc (t.get (pre ++ d)) else acc) z := by
  have hsh := shape_inflate add z dm len hs
  unfold inflate at hsh ⊢
  simp only [shape_ofFn] at hsh
  simp only [hsh]
  rw [get_ofFn _ _ _ (inBox_snoc hp hk)]
  have hl : pre.length = t.shape.length - dm.shape.length := by rw [hs, inBox_length hp]; simp
  rw [List.take_left' hl, List.getLastD_concat]

theorem shape_ravel {t : Tensor α} {s : List Nat} {a b : Nat} (hs : t.shape = s ++ [a, b]) :
    (ravel t).shape = s ++ [a * b] := by
  have h1 : t.shape.length - 2 = s.length := by rw [hs]; simp
  have h2 : t.shape.length - 1 = s.length + 1 := by rw [hs]; simp
  show t.shape.take (t.shape.length - 2) ++ [t.shape.getD (t.shape.length - 2) 0 * t.shape.getD (t.shape.length - 1) 0] = _
  rw [h1, h2, hs, List.take_left' rfl]
  simp [List.getD_eq_getElem?_getD]

theorem get_ravel {t : Tensor α} {s : List Nat} {a b : Nat} (hs : t.shape = s ++ [a, b]) {pre : List Nat}
    {k : Nat} (hp : inBox s pre = true) (hk : k < a * b) :
    (ravel t).get (pre ++ [k]) = t.get (pre ++ [k / b, k % b]) := by
  have hsh := shape_ravel hs
  have hb : t.shape.getD (t.shape.length - 1) 0 = b := by
    rw [hs]; simp [List.getD_eq_getElem?_getD]
  unfold ravel at hsh ⊢
  simp only [shape_ofFn] at hsh
  simp only [hsh]
  rw [get_ofFn _ _ _ (inBox_snoc hp hk), List.getLastD_concat, List.dropLast_concat, hb]

theorem shape_unravel {t : Tensor α} {s : List Nat} {m : Nat} (hs : t.shape = s ++ [m]) (a b : Nat) :
    (unravel t a b).shape = s ++ [a, b] := by
  show t.shape.dropLast ++ [a, b] = _
  rw [hs, List.dropLast_concat]

theorem get_unravel {t : Tensor α} {s : List Nat} {m : Nat} (hs : t.shape = s ++ [m]) (a b : Nat)
    {pre : List Nat} {i j : Nat} (hp : inBox s pre = true) (hi : i < a) (hj : j < b) :
    (unravel t a b).get (pre ++ [i, j]) = t.get (pre ++ [i * b + j]) := by
  have hsh := shape_unravel hs a b
  unfold unravel at hsh ⊢
  simp only [shape_ofFn] at hsh
  simp only [hsh]
  rw [get_ofFn _ _ _ (inBox_snoc2 hp hi hj)]
  have h1 : (pre ++ [i, j]).length - 2 = pre.length := by simp
  have h2 : (pre ++ [i, j]).length - 1 = pre.length + 1 := by simp
  rw [h1, h2, List.take_left' rfl]
  simp [List.getD_eq_getElem?_getD]

theorem shape_sliceLast {t : Tensor α} {s : List Nat} {m : Nat} (hs : t.shape = s ++ [m]) (off len : Nat) :
    (sliceLast t off len).shape = s ++ [len] := by
  show t.shape.dropLast ++ [len] = _
  rw [hs, List.dropLast_concat]

theorem get_sliceLast {t : Tensor α} {s : List Nat} {m : Nat} (hs : t.shape = s ++ [m]) (off len : Nat)
    {pre : List Nat} {k : Nat} (hp : inBox s pre = true) (hk : k < len) :
    (sliceLast t off len).get (pre ++ [k]) = t.get (pre ++ [k + off]) := by
  have hsh := shape_sliceLast hs off len
  unfold sliceLast at hsh ⊢
  simp only [shape_ofFn] at hsh
  simp only [hsh]
  rw [get_ofFn _ _ _ (inBox_snoc hp hk), List.getLastD_concat, List.dropLast_concat]

end Tensor

/-! ### folds over an abstract commutative monoid -/

/-- `(add, zero)` is a commutative monoid on the carrier (hypotheses of the summation laws; satisfied by
`(+, 0)` and `(*, 1)` of every commutative (semi)ring, e.g. ℤ, ℚ, polynomials) -/
structure IsCommMonoid {α : Type} (add : α → α → α) (zero : α) : Prop where
  assoc : ∀ a b c, add (add a b) c = add a (add b c)
  comm : ∀ a b, add a b = add b a
  zero_add : ∀ a, add zero a = a

theorem IsCommMonoid.add_zero {α : Type} {add : α → α → α} {z : α} (h : IsCommMonoid add z) (a : α) :
    add a z = a := by rw [h.comm, h.zero_add]

theorem IsCommMonoid.swap4 {α : Type} {add : α → α → α} {z : α} (h : IsCommMonoid add z) (a b c d : α) :
    add (add a b) (add c d) = add (add a c) (add b d) := by
  rw [h.assoc, h.assoc, ← h.assoc b c d, h.comm b c, h.assoc c b d]

theorem foldl_congr_mem {β γ : Type} {f g : β → γ → β} : ∀ (l : List γ) (a : β),
    (∀ acc x, x ∈ l → f acc x = g acc x) → l.foldl f a = l.foldl g a
  | [], _, _ => rfl
  | x :: l, a, h => by
    simp only [List.foldl_cons]
    rw [h a x (List.mem_cons_self ..)]
    exact foldl_congr_mem l _ fun acc y hy => h acc y (List.mem_cons_of_mem _ hy)

/-- `fsum add z l f` = `Σ_{x ∈ l} f x`, as the left fold the tensor operations use -/
def fsum {α ι : Type} (add : α → α → α) (z : α) (l : List ι) (f : ι → α) : α :=
  l.foldl (fun acc x => add acc (f x)) z

/-- `n`-fold repetition `((u ∘ x) ∘ x) ∘ … ∘ x`: `n • x` for `(+, 0)`, `x ^ n` for `(*, 1)` -/
def nfold {α : Type} (op : α → α → α) (u : α) (x : α) (n : Nat) : α :=
  (List.range n).foldl (fun acc _ => op acc x) u

theorem nfold_zero {α : Type} (op : α → α → α) (u x : α) : nfold op u x 0 = u := rfl

theorem nfold_succ {α : Type} (op : α → α → α) (u x : α) (n : Nat) :
    nfold op u x (n+1) = op (nfold op u x n) x := by
  simp [nfold, List.range_succ, List.foldl_append]

theorem nfold_add_int (x : Int) (n : Nat) : nfold (· + ·) 0 x n = n * x := by
  induction n with
  | zero => simp [nfold_zero]
  | succ n ih => rw [nfold_succ, ih]; simp [Int.add_mul]

theorem nfold_mul_int (x : Int) (n : Nat) : nfold (· * ·) 1 x n = x ^ n := by
  induction n with
  | zero => simp [nfold_zero]
  | succ n ih => rw [nfold_succ, ih, Int.pow_succ]

section folds
variable {α : Type}

theorem foldl_const_unit {ι : Type} (op : α → α → α) (u z : α) (hz : op u z = u) :
    ∀ l : List ι, l.foldl (fun acc _ => op acc z) u = u
  | [] => rfl
  | _ :: l => by simp only [List.foldl_cons, hz]; exact foldl_const_unit op u z hz l

/-- a fold that meets one non-neutral entry returns that entry -/
theorem foldl_single (op : α → α → α) (u z x : α) (hz : ∀ a, op a z = a) (hu : op u x = x) :
    ∀ (n i : Nat), i < n → (List.range n).foldl (fun acc k => op acc (if i = k then x else z)) u = x
  | 0, _, h => by omega
  | n+1, i, h => by
    rw [List.range_succ, List.foldl_append]
    simp only [List.foldl_cons, List.foldl_nil]
    by_cases hi : i = n
    · subst hi
      have : (List.range i).foldl (fun acc k => op acc (if i = k then x else z)) u = u := by
        rw [foldl_congr_mem (g := fun acc _ => op acc z) _ _ (fun acc k hk => by
          have : i ≠ k := by have := List.mem_range.1 hk; omega
          simp [this])]
        exact foldl_const_unit op u z (hz u) _
      simp [this, hu]
    · rw [foldl_single op u z x hz hu n i (by omega)]
      simp [hi, hz]

variable {add : α → α → α} {z : α}

theorem fsum_nil {ι : Type} (f : ι → α) : fsum add z [] f = z := rfl

theorem foldl_add_init {ι : Type} (h : IsCommMonoid add z) (f : ι → α) : ∀ (l : List ι) (a : α),
    l.foldl (fun acc x => add acc (f x)) a = add a (fsum add z l f)
  | [], a => by simp [fsum, h.add_zero]
  | x :: l, a => by
    simp only [fsum, List.foldl_cons]
    rw [foldl_add_init h f l (add a (f x)), foldl_add_init h f l (add z (f x)), h.zero_add, h.assoc]

theorem fsum_cons {ι : Type} (h : IsCommMonoid add z) (f : ι → α) (x : ι) (l : List ι) :
    fsum add z (x :: l) f = add (f x) (fsum add z l f) := by
  show List.foldl _ (add z (f x)) l = _
  rw [foldl_add_init h, h.zero_add]

theorem fsum_append {ι : Type} (h : IsCommMonoid add z) (f : ι → α) (l l' : List ι) :
    fsum add z (l ++ l') f = add (fsum add z l f) (fsum add z l' f) := by
  show List.foldl _ z (l ++ l') = _
  rw [List.foldl_append, foldl_add_init h]
  rfl

theorem fsum_map {ι κ : Type} (g : κ → ι) (f : ι → α) (l : List κ) :
    fsum add z (l.map g) f = fsum add z l (fun x => f (g x)) := by
  simp [fsum, List.foldl_map]

theorem fsum_congr {ι : Type} {f g : ι → α} (l : List ι) (h : ∀ x ∈ l, f x = g x) :
    fsum add z l f = fsum add z l g :=
  foldl_congr_mem l z fun acc x hx => by rw [h x hx]

theorem fsum_zero {ι : Type} (h : IsCommMonoid add z) (l : List ι) : fsum add z l (fun _ => z) = z :=
  foldl_const_unit add z z (h.zero_add z) l

theorem fsum_add_distrib {ι : Type} (h : IsCommMonoid add z) (f g : ι → α) : ∀ l : List ι,
    fsum add z l (fun x => add (f x) (g x)) = add (fsum add z l f) (fsum add z l g)
  | [] => by simp [fsum, h.zero_add]
  | x :: l => by
    rw [fsum_cons h, fsum_cons h, fsum_cons h, fsum_add_distrib h f g l, h.swap4]

/-- interchange of two finite sums -/
theorem fsum_swap {ι κ : Type} (h : IsCommMonoid add z) (f : ι → κ → α) (l₂ : List κ) : ∀ l₁ : List ι,
    fsum add z l₁ (fun i => fsum add z l₂ (fun j => f i j)) =
      fsum add z l₂ (fun j => fsum add z l₁ (fun i => f i j))
  | [] => by simp only [fsum_nil]; exact (fsum_zero h l₂).symm
  | i :: l₁ => by
    rw [fsum_cons h, fsum_swap h f l₂ l₁, ← fsum_add_distrib h]
    exact fsum_congr _ fun j _ => (fsum_cons h (fun i => f i j) i l₁).symm

/-- the conditional accumulation step of `inflate` is a sum of masked entries -/
theorem foldl_cond_eq_fsum {ι : Type} (h : IsCommMonoid add z) (c : ι → Bool) (f : ι → α) (l : List ι) :
    l.foldl (fun acc d => if c d then add acc (f d) else acc) z = fsum add z l (fun d => if c d then f d else z) :=
  foldl_congr_mem l z fun acc d _ => by
    by_cases hc : c d <;> simp [hc, h.add_zero]

theorem fsum_single (h : IsCommMonoid add z) (x : α) {n i : Nat} (hi : i < n) :
    fsum add z (List.range n) (fun k => if i = k then x else z) = x :=
  foldl_single add z z x h.add_zero (h.zero_add x) n i hi

/-- row-major double sum: `Σ_{k < a*b} f (k / b) (k % b) = Σ_{i<a} Σ_{j<b} f i j` -/
theorem fsum_range_mul (h : IsCommMonoid add z) (f : Nat → Nat → α) (b : Nat) : ∀ a : Nat,
    fsum add z (List.range (a * b)) (fun k => f (k / b) (k % b)) =
      fsum add z (List.range a) (fun i => fsum add z (List.range b) (fun j => f i j))
  | 0 => by simp [fsum]
  | a+1 => by
    rw [Nat.succ_mul, List.range_add, fsum_append h, fsum_range_mul h f b a, List.range_succ, fsum_append h,
      fsum_map]
    congr 1
    rw [fsum_cons h, fsum_nil, h.add_zero]
    refine fsum_congr _ fun j hj => ?_
    have hj := List.mem_range.1 hj
    have hb : 0 < b := by omega
    rw [Nat.mul_comm a b, Nat.mul_add_div hb, Nat.div_eq_of_lt hj, Nat.mul_add_mod, Nat.mod_eq_of_lt hj]
    simp

end folds

/-! ### indices, map, appendAxes -/

theorem shapeSize_pos_of_lt {s : List Nat} {k : Nat} (h : k < shapeSize s) : 0 < shapeSize s := by omega

theorem inBox_unflat : ∀ (s : List Nat) (k : Nat), k < shapeSize s → inBox s (unflatIdx s k) = true
  | [], _, _ => rfl
  | n :: s, k, h => by
    rw [shapeSize_cons] at h
    have hpos : 0 < shapeSize s := by
      cases hs : shapeSize s with
      | zero => rw [hs] at h; simp at h
      | succ m => omega
    simp only [unflatIdx, inBox_cons]
    exact ⟨(Nat.div_lt_iff_lt_mul hpos).2 h, inBox_unflat s _ (Nat.mod_lt _ hpos)⟩

theorem mem_indices {s d : List Nat} (h : d ∈ indices s) : inBox s d = true := by
  simp only [indices, List.mem_map, List.mem_range] at h
  obtain ⟨k, hk, rfl⟩ := h
  exact inBox_unflat s k hk

theorem indices_single (m : Nat) : indices [m] = (List.range m).map fun k => [k] := by
  simp [indices, shapeSize, unflatIdx]

theorem indices_nil : indices [] = [[]] := by
  simp [indices, shapeSize, unflatIdx]

namespace Tensor
variable {α : Type} [Inhabited α]

/-- `map` acts entrywise on a well-formed tensor (`data.size = ∏ shape`) -/
theorem get_map {β : Type} [Inhabited β] (f : α → β) (t : Tensor α) (hw : t.wf = true) {idx : List Nat}
    (h : inBox t.shape idx = true) : (map f t).get idx = f (t.get idx) := by
  have hlt := flatIdx_lt _ _ h
  have hsz : t.data.size = shapeSize t.shape := by simpa [wf] using hw
  simp only [get, map]
  rw [Array.getD_eq_getD_getElem?, Array.getD_eq_getD_getElem?]
  simp [hsz, hlt]

/-- `appendaxes(f, shape)`: append axes of the given lengths (values independent of the new indices);
`appendAxes t [n₁, …, nₖ]` is `InsertAxis(…InsertAxis(t, n₁)…, nₖ)` (`appendAxes_cons`, `appendAxes_nil`). -/
def appendAxes (t : Tensor α) (sh : List Nat) : Tensor α :=
  ofFn (t.shape ++ sh) fun idx => t.get (idx.take t.shape.length)

theorem get_appendAxes (t : Tensor α) (sh : List Nat) {pre suf : List Nat} (hp : inBox t.shape pre = true)
    (hs : inBox sh suf = true) : (appendAxes t sh).get (pre ++ suf) = t.get pre := by
  unfold appendAxes
  rw [get_ofFn _ _ _ (inBox_app hp hs), List.take_left' (inBox_length hp)]

theorem appendAxes_nil (t : Tensor α) : appendAxes t [] ≃ₜ t := by
  refine ⟨by simp [appendAxes], fun idx h => ?_⟩
  have h' : inBox t.shape idx = true := by simpa [appendAxes] using h
  have := get_appendAxes t [] h' (suf := []) rfl
  simpa using this

theorem appendAxes_cons (t : Tensor α) (n : Nat) (sh : List Nat) :
    appendAxes t (n :: sh) ≃ₜ appendAxes (insertAxis t n) sh := by
  refine equiv_append (s := t.shape) (s' := n :: sh) rfl
    (by show (t.shape ++ [n]) ++ sh = _; simp) fun pre suf hp hs => ?_
  match suf, hs with
  | k :: suf, hs =>
    have hs' := inBox_cons.1 hs
    rw [get_appendAxes t _ hp hs, show pre ++ k :: suf = (pre ++ [k]) ++ suf by simp,
      get_appendAxes (insertAxis t n) sh (inBox_snoc hp hs'.1) hs'.2, get_insertAxis t n hp hs'.1]

/-! ### concatLast -/

theorem concatLast_go_append (idx : List Nat) (p : Tensor α) (qs : List (Tensor α)) (k : Nat)
    (hk : k < p.shape.getLastD 0) : ∀ (ps : List (Tensor α)),
    concatLast.go idx (ps ++ p :: qs) ((ps.map fun q => q.shape.getLastD 0).sum + k)
      = p.get (idx.dropLast ++ [k])
  | [] => by
    simp only [List.nil_append, List.map_nil, List.sum_nil, Nat.zero_add, concatLast.go]
    rw [if_pos hk]
  | q :: ps => by
    have ih := concatLast_go_append idx p qs k hk ps
    simp only [List.cons_append, List.map_cons, List.sum_cons, concatLast.go]
    rw [if_neg (by omega)]
    rw [show q.shape.getLastD 0 + (ps.map fun q => q.shape.getLastD 0).sum + k - q.shape.getLastD 0
      = (ps.map fun q => q.shape.getLastD 0).sum + k by omega]
    exact ih

theorem foldl_add_eq_sum (l : List Nat) : l.foldl (· + ·) 0 = l.sum := (List.sum_eq_foldl).symm

theorem shape_concatLast (parts : List (Tensor α)) (pre : List Nat) :
    (concatLast parts pre).shape = pre ++ [(parts.map fun q => q.shape.getLastD 0).sum] := by
  show pre ++ [List.foldl _ 0 _] = _
  rw [foldl_add_eq_sum]

theorem get_concatLast (ps : List (Tensor α)) (p : Tensor α) (qs : List (Tensor α)) (pre : List Nat)
    {i : List Nat} {k : Nat} (hi : inBox pre i = true) (hk : k < p.shape.getLastD 0) :
    (concatLast (ps ++ p :: qs) pre).get (i ++ [(ps.map fun q => q.shape.getLastD 0).sum + k])
      = p.get (i ++ [k]) := by
  have hsh := shape_concatLast (ps ++ p :: qs) pre
  unfold concatLast at hsh ⊢
  simp only [shape_ofFn] at hsh
  simp only [hsh]
  rw [get_ofFn _ _ _ (inBox_snoc hi (by simp only [List.map_append, List.map_cons, List.sum_append, List.sum_cons]; omega)), List.getLastD_concat,
    concatLast_go_append _ p qs k hk ps, List.dropLast_concat]

/-! ### transpose -/

/-- `p` is a permutation of `0 … n-1` -/
def IsPerm (p : List Nat) (n : Nat) : Prop := p.Perm (List.range n)

instance (p : List Nat) (n : Nat) : Decidable (IsPerm p n) := by unfold IsPerm; infer_instance

theorem IsPerm.length {p : List Nat} {n : Nat} (h : IsPerm p n) : p.length = n := by
  simpa using List.Perm.length_eq h

theorem IsPerm.mem_iff {p : List Nat} {n : Nat} (h : IsPerm p n) {a : Nat} : a ∈ p ↔ a < n := by
  rw [List.Perm.mem_iff h, List.mem_range]

theorem IsPerm.nodup {p : List Nat} {n : Nat} (h : IsPerm p n) : p.Nodup :=
  (List.Perm.nodup_iff h).2 List.nodup_range

theorem getD_eq_getElem {l : List Nat} {i : Nat} (h : i < l.length) : l.getD i 0 = l[i] := by
  simp [List.getD_eq_getElem?_getD, h]

theorem IsPerm.getD_lt {p : List Nat} {n : Nat} (h : IsPerm p n) {i : Nat} (hi : i < n) : p.getD i 0 < n := by
  have hl : i < p.length := by rw [h.length]; exact hi
  rw [getD_eq_getElem hl]
  exact h.mem_iff.1 (List.getElem_mem hl)

theorem IsPerm.idxOf_lt {p : List Nat} {n : Nat} (h : IsPerm p n) {a : Nat} (ha : a < n) : p.idxOf a < n := by
  have := List.idxOf_lt_length_iff.2 (h.mem_iff.2 ha)
  rwa [h.length] at this

theorem IsPerm.getD_idxOf {p : List Nat} {n : Nat} (h : IsPerm p n) {a : Nat} (ha : a < n) :
    p.getD (p.idxOf a) 0 = a := by
  have hl : p.idxOf a < p.length := List.idxOf_lt_length_iff.2 (h.mem_iff.2 ha)
  rw [getD_eq_getElem hl, List.getElem_idxOf]

theorem IsPerm.idxOf_getD {p : List Nat} {n : Nat} (h : IsPerm p n) {i : Nat} (hi : i < n) :
    p.idxOf (p.getD i 0) = i := by
  have hl : i < p.length := by rw [h.length]; exact hi
  rw [getD_eq_getElem hl, h.nodup.idxOf_getElem]

/-- the evaluator's admission test for `Transpose` (`length = ndim` and every axis occurs) is `IsPerm` -/
theorem isPerm_of_check {p : List Nat} {n : Nat} (hl : p.length = n)
    (hall : (List.range n).all p.contains = true) : IsPerm p n := by
  have hsub : ∀ a, a ∈ List.range n → a ∈ p := fun a ha => by
    have := List.all_eq_true.1 hall a ha
    simpa using this
  suffices ∀ (l₁ l₂ : List Nat), l₁.Nodup → (∀ a, a ∈ l₁ → a ∈ l₂) → l₂.length ≤ l₁.length → l₂.Perm l₁ from
    this _ _ List.nodup_range hsub (by simp [hl])
  intro l₁
  induction l₁ with
  | nil => intro l₂ _ _ h; have : l₂ = [] := List.eq_nil_of_length_eq_zero (by simpa using h); subst this; exact .nil
  | cons a t ih =>
    intro l₂ hnd hsub hlen
    rw [List.nodup_cons] at hnd
    have ha : a ∈ l₂ := hsub a (List.mem_cons_self ..)
    have htsub : ∀ x, x ∈ t → x ∈ l₂.erase a := fun x hx => by
      have hxa : x ≠ a := fun h => hnd.1 (h ▸ hx)
      exact (List.mem_erase_of_ne hxa).2 (hsub x (List.mem_cons_of_mem _ hx))
    have hlen' : (l₂.erase a).length ≤ t.length := by
      rw [List.length_erase]; simp only [ha, if_true]; simp at hlen; omega
    exact (List.perm_cons_erase ha).trans ((ih _ hnd.2 htsub hlen').cons a)

/-- source multi-index read by `transpose t p` at result multi-index `idx` (`n = t.ndim`) -/
def transposeSrc (p : List Nat) (n : Nat) (idx : List Nat) : List Nat :=
  (List.range n).map fun a => idx.getD (p.idxOf a) 0

theorem getD_transposeSrc (p : List Nat) {n : Nat} (idx : List Nat) {k : Nat} (hk : k < n) :
    (transposeSrc p n idx).getD k 0 = idx.getD (p.idxOf k) 0 := by
  simp [transposeSrc, List.getD_eq_getElem?_getD, hk]

theorem shape_transpose (t : Tensor α) (p : List Nat) :
    (transpose t p).shape = p.map fun a => t.shape.getD a 0 := rfl

theorem get_transpose (t : Tensor α) (p : List Nat) {idx : List Nat}
    (h : inBox (p.map fun a => t.shape.getD a 0) idx = true) :
    (transpose t p).get idx = t.get (transposeSrc p t.shape.length idx) :=
  get_ofFn _ _ idx h

theorem getD_map_of_lt (f : Nat → Nat) {p : List Nat} {i : Nat} (hi : i < p.length) :
    (p.map f).getD i 0 = f (p.getD i 0) := by
  simp [List.getD_eq_getElem?_getD, hi]

/-- the source multi-index of a transposition lies in the box of the source shape -/
theorem inBox_transposeSrc {sh p : List Nat} (hp : IsPerm p sh.length) {idx : List Nat}
    (h : inBox (p.map fun a => sh.getD a 0) idx = true) : inBox sh (transposeSrc p sh.length idx) = true := by
  rw [inBox_iff_getD] at h ⊢
  refine ⟨by simp [transposeSrc], fun k hk => ?_⟩
  rw [getD_transposeSrc p idx hk]
  have hi := hp.idxOf_lt hk
  have := h.2 (p.idxOf k) (by simpa [hp.length] using hi)
  rwa [getD_map_of_lt _ (by rw [hp.length]; exact hi), hp.getD_idxOf hk] at this

theorem idxOf_map_perm {p : List Nat} {n : Nat} (hp : IsPerm p n) {b : Nat} (hb : b < n) : ∀ (q : List Nat),
    (∀ x ∈ q, x < n) → (q.map fun i => p.getD i 0).idxOf b = q.idxOf (p.idxOf b)
  | [], _ => by simp
  | x :: q, h => by
    have hx : x < n := h x (List.mem_cons_self ..)
    have ih := idxOf_map_perm hp hb q fun y hy => h y (List.mem_cons_of_mem _ hy)
    simp only [List.map_cons, List.idxOf_cons, ih]
    have : (p.getD x 0 == b) = (x == p.idxOf b) := by
      rw [Bool.eq_iff_iff]
      simp only [beq_iff_eq]
      constructor
      · intro e; rw [← e, hp.idxOf_getD hx]
      · intro e; rw [e, hp.getD_idxOf hb]
    rw [this]

theorem transposeSrc_range {n : Nat} {idx : List Nat} (h : idx.length = n) :
    transposeSrc (List.range n) n idx = idx := by
  apply List.ext_getElem
  · simp [transposeSrc, h]
  · intro i h1 h2
    have hi : i < n := by simpa [transposeSrc] using h1
    have : (List.range n).idxOf i = i := by
      have := (List.nodup_range (n := n)).idxOf_getElem i (by simpa using hi)
      simpa using this
    simp [transposeSrc, this, List.getD_eq_getElem?_getD, h2]

theorem map_getD_range (sh : List Nat) : ((List.range sh.length).map fun a => sh.getD a 0) = sh := by
  apply List.ext_getElem
  · simp
  · intro i h1 h2
    simp [List.getD_eq_getElem?_getD, h2]

end Tensor

/-! ### further fold lemmas -/

theorem foldl_cond_zero {α ι : Type} (add : α → α → α) (z : α) (hz : add z z = z) (c : ι → Bool) (f : ι → α) :
    ∀ l : List ι, (∀ d ∈ l, f d = z) → l.foldl (fun acc d => if c d then add acc (f d) else acc) z = z
  | [], _ => rfl
  | d :: l, h => by
    simp only [List.foldl_cons]
    have : (if c d = true then add z (f d) else z) = z := by
      rw [h d (List.mem_cons_self ..), hz]; simp
    rw [this]
    exact foldl_cond_zero add z hz c f l fun e he => h e (List.mem_cons_of_mem _ he)

theorem foldl_mul_right {α ι : Type} (add mul : α → α → α)
    (hd : ∀ x y w, mul (add x y) w = add (mul x w) (mul y w)) (g : ι → α) (w : α) : ∀ (l : List ι) (init : α),
    l.foldl (fun acc k => add acc (mul (g k) w)) (mul init w) = mul (l.foldl (fun acc k => add acc (g k)) init) w
  | [], _ => rfl
  | k :: l, init => by
    simp only [List.foldl_cons]
    rw [← hd]
    exact foldl_mul_right add mul hd g w l _

theorem foldl_cond_mul_right {α ι : Type} (add mul : α → α → α)
    (hd : ∀ x y w, mul (add x y) w = add (mul x w) (mul y w)) (c : ι → Bool) (g : ι → α) (w : α) :
    ∀ (l : List ι) (init : α),
    l.foldl (fun acc k => if c k then add acc (mul (g k) w) else acc) (mul init w)
      = mul (l.foldl (fun acc k => if c k then add acc (g k) else acc) init) w
  | [], _ => rfl
  | k :: l, init => by
    simp only [List.foldl_cons]
    by_cases hc : c k = true
    · simp only [hc, if_true]
      rw [← hd]
      exact foldl_cond_mul_right add mul hd c g w l _
    · simp only [hc]
      exact foldl_cond_mul_right add mul hd c g w l _

theorem shapeSize_snoc : ∀ (s : List Nat) (m : Nat), shapeSize (s ++ [m]) = shapeSize s * m
  | [], m => by simp [shapeSize]
  | n :: s, m => by
    simp only [List.cons_append, shapeSize_cons, shapeSize_snoc s m, Nat.mul_assoc]

theorem unflatIdx_snoc : ∀ (s : List Nat) (m k : Nat), k < shapeSize s * m →
    unflatIdx (s ++ [m]) k = unflatIdx s (k / m) ++ [k % m]
  | [], m, k, hk => by
    have hk' : k < m := by simpa [shapeSize] using hk
    simp [unflatIdx, shapeSize, Nat.mod_eq_of_lt hk']
  | n :: s, m, k, hk => by
    rw [shapeSize_cons, Nat.mul_assoc] at hk
    have hpos : 0 < shapeSize s * m := by
      cases hs : shapeSize s * m with
      | zero => rw [hs] at hk; simp at hk
      | succ _ => omega
    simp only [List.cons_append, unflatIdx, shapeSize_snoc]
    rw [unflatIdx_snoc s m _ (Nat.mod_lt _ hpos), Nat.div_div_eq_div_mul, Nat.mul_comm m]
    have e1 : k % (shapeSize s * m) / m = k / m % shapeSize s := by
      rw [Nat.mul_comm, Nat.mod_mul_right_div_self]
    have e2 : k % (shapeSize s * m) % m = k % m := Nat.mod_mul_left_mod k (shapeSize s) m
    rw [e1, e2]

/-- a sum over the multi-indices of `sh ++ [m]` is a sum over `sh` of sums over the last position -/
theorem fsum_indices_snoc {α : Type} {add : α → α → α} {z : α} (h : IsCommMonoid add z) (sh : List Nat)
    (m : Nat) (g : List Nat → α) :
    fsum add z (indices (sh ++ [m])) g =
      fsum add z (indices sh) fun d => fsum add z (List.range m) fun k => g (d ++ [k]) := by
  unfold indices
  rw [fsum_map, fsum_map, shapeSize_snoc]
  rw [fsum_congr (g := fun k => g (unflatIdx sh (k / m) ++ [k % m])) _ (fun k hk => by rw [unflatIdx_snoc _ _ _ (List.mem_range.1 hk)])]
  exact fsum_range_mul h (fun i j => g (unflatIdx sh i ++ [j])) m (shapeSize sh)

namespace Tensor
variable {α : Type} [Inhabited α]

/-- `Sum` applied `m` times (reduces the last `m` axes) -/
def reduceLastN (op : α → α → α) (u : α) : Nat → Tensor α → Tensor α
  | 0, t => t
  | m+1, t => reduceLastN op u m (reduceLast op u t)

/-- reducing the trailing axes `sh` one by one is the sum over all multi-indices of `sh` -/
theorem reduceLastN_eq_fsum {add : α → α → α} {z : α} (h : IsCommMonoid add z) (s : List Nat) :
    ∀ (m : Nat) (sh : List Nat) (t : Tensor α), sh.length = m → t.shape = s ++ sh →
      reduceLastN add z m t ≃ₜ ofFn s fun pre => fsum add z (indices sh) fun d => t.get (pre ++ d)
  | 0, sh, t, hl, hs => by
    have : sh = [] := List.eq_nil_of_length_eq_zero hl
    subst this
    refine equiv_of_get (s := s) (by simpa [reduceLastN] using hs) rfl fun pre hp => ?_
    rw [get_ofFn _ _ _ hp, indices_nil, fsum_cons h, fsum_nil, h.add_zero]
    simp [reduceLastN]
  | m+1, sh, t, hl, hs => by
    have hne : sh ≠ [] := by intro e; subst e; simp at hl
    obtain ⟨sh', n, rfl⟩ : ∃ sh' n, sh = sh' ++ [n] := ⟨_, _, shape_snoc_of_ne_nil hne⟩
    have hl' : sh'.length = m := by simpa using hl
    have hs' : t.shape = (s ++ sh') ++ [n] := by rw [hs]; simp
    have ih := reduceLastN_eq_fsum h s m sh' (reduceLast add z t) hl' (shape_reduceLast add z hs')
    refine ih.trans (ofFn_equiv_ofFn _ _ _ fun pre hp => ?_)
    rw [fsum_indices_snoc h]
    refine fsum_congr _ fun d hd => ?_
    rw [get_reduceLast add z hs' (inBox_app hp (mem_indices hd))]
    simp only [List.append_assoc]
    rfl

end Tensor

end NutilsVerif
