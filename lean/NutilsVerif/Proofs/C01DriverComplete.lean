import NutilsVerif.Proofs.C01DriverRefine
/-!
# C01 (driver) — forward simulation: whenever the recursive specification has a result, the machine finds it

`eval_steps`: if `simp f n t = some r`, then from any state with `term t` on top of `fstack`, a valid memo, and an
`ostack` none of whose members can be evaluated with fuel `n` (they all *wait* for `t`), the machine performs
finitely many non-halting iterations and arrives at the same state with `t` popped and `r` pushed on `rstack`
(and a larger, still valid, memo).  In particular neither the loop detector fires nor does the machine get stuck.
-/
namespace NutilsVerif.C01Driver

theorem iter_step {f : Term → Term} {s s1 s2 : State} {k : Nat} (h : step f s = .next s1) (h' : iter f k s1 = some s2) :
    iter f (k+1) s = some s2 := by
  simp only [iter, h]; exact h'

theorem iter_trans {f : Term → Term} : ∀ {a : Nat} {b : Nat} {s s1 s2 : State}, iter f a s = some s1 → iter f b s1 = some s2 →
    iter f (a+b) s = some s2
  | 0, b, s, s1, s2, h, h' => by simp only [iter] at h; cases h; simpa using h'
  | a+1, b, s, s1, s2, h, h' => by
    simp only [iter] at h
    split at h
    · rename_i s' hs
      have := iter_trans (a := a) h h'
      rw [show a + 1 + b = (a + b) + 1 by omega]
      exact iter_step hs this
    · cases h

theorem runFrom_of_iter {f : Term → Term} : ∀ {k : Nat} {s s' : State} (n : Nat), iter f k s = some s' →
    runFrom f (k + n) s = runFrom f n s'
  | 0, s, s', n, h => by simp only [iter] at h; cases h; simp
  | k+1, s, s', n, h => by
    simp only [iter] at h
    split at h
    · rename_i s1 hs
      rw [show k + 1 + n = (k + n) + 1 by omega]
      simp only [runFrom, hs]
      exact runFrom_of_iter n h
    · cases h

/-- statement of the forward simulation for fuel `n` -/
def EvalSteps (f : Term → Term) (n : Nat) : Prop :=
  ∀ t r, simp f n t = some r → ∀ fs rs os memo calls, MemoValid f memo → (∀ o, o ∈ os → simp f n o = none) →
    ∃ k memo' calls', iter f k ⟨.term t :: fs, rs, os, memo, calls⟩ = some ⟨fs, r :: rs, os, memo', calls'⟩ ∧
      MemoValid f memo'

theorem evalList_steps {f : Term → Term} {n : Nat} (H : EvalSteps f n) :
    ∀ {todo res}, Forall₂ (fun a b => simp f n a = some b) todo res →
    ∀ fs rs os memo calls, MemoValid f memo → (∀ o, o ∈ os → simp f n o = none) →
    ∃ k memo' calls', iter f k ⟨todo.map .term ++ fs, rs, os, memo, calls⟩ = some ⟨fs, res.reverse ++ rs, os, memo', calls'⟩ ∧
      MemoValid f memo' := by
  intro todo res h
  induction h with
  | nil => intro fs rs os memo calls hm _; exact ⟨0, memo, calls, rfl, hm⟩
  | cons h1 _ ih =>
    intro fs rs os memo calls hm hos
    obtain ⟨k1, memo1, calls1, e1, hm1⟩ := H _ _ h1 (_ ++ fs) rs os memo calls hm hos
    obtain ⟨k2, memo2, calls2, e2, hm2⟩ := ih fs (_ :: rs) os memo1 calls1 hm1 hos
    refine ⟨k1 + k2, memo2, calls2, ?_, hm2⟩
    have := iter_trans e1 e2
    simpa using this

theorem eval_steps (f : Term → Term) : ∀ n, EvalSteps f n := by
  intro n
  induction n using Nat.strongRecOn with
  | ind n ih =>
    intro t r hs fs rs os memo calls hm hos
    by_cases hmin : ∃ m, m < n ∧ ∃ r', simp f m t = some r'
    · obtain ⟨m, hmn, r', hr'⟩ := hmin
      have : r' = r := simp_unique f hr' hs
      subst this
      exact ih m hmn t r' hr' fs rs os memo calls hm (fun o ho => simp_none_of_le f (hos o ho) (Nat.le_of_lt hmn))
    · cases n with
      | zero => simp [simp] at hs
      | succ n =>
        have hnone : simp f n t = none := by
          cases h : simp f n t with
          | none => rfl
          | some r' => exact absurd ⟨n, Nat.lt_succ_self n, r', h⟩ hmin
        have hnot : t ∉ os := by
          intro hin; rw [hos t hin] at hs; cases hs
        cases hl : lookup t memo with
        | some v =>
          have hv : v.getD t = r := res_unique (hm _ _ (lookup_mem hl)) ⟨_, hs⟩
          refine ⟨1, memo, calls, ?_, hm⟩
          simp only [iter, step, hl, hv]
        | none =>
          cases t with
          | node l args =>
            obtain ⟨args', h1, h2⟩ := simp_some_iff.1 hs
            have hos' : ∀ o, o ∈ Term.node l args :: os → simp f n o = none := by
              intro o ho
              rcases List.mem_cons.1 ho with rfl | ho
              · exact hnone
              · exact simp_none_of_le f (hos o ho) (Nat.le_succ n)
            have hfa := optMap_some h1
            have hlen := forall₂_length hfa
            -- first iteration: open the frame
            have e0 : step f ⟨.term (.node l args) :: fs, rs, os, memo, calls⟩ =
                .next ⟨args.reverse.map .term ++ .recreate l args.length :: .store :: fs, rs, .node l args :: os, memo, calls⟩ := by
              simp only [step, hl, if_neg hnot, Term.args, Term.label]
            -- children
            obtain ⟨k1, memo1, calls1, e1, hm1⟩ := evalList_steps (ih n (Nat.lt_succ_self n)) (forall₂_reverse hfa)
              (.recreate l args.length :: .store :: fs) rs (.node l args :: os) memo calls hm hos'
            rw [List.reverse_reverse] at e1
            -- recreate
            have hnl : ¬ (args' ++ rs).length < args.length := by simp [hlen]
            have htake : (args' ++ rs).take args.length = args' := by simp [hlen]
            have hdrop : (args' ++ rs).drop args.length = rs := by simp [hlen]
            have hres : Res f (.node l args) r := ⟨_, hs⟩
            have hmemo : ∀ memo2, MemoValid f memo2 →
                MemoValid f ((Term.node l args, if r = Term.node l args then none else some r) :: memo2) := by
              intro memo2 hm2 t v hv
              rcases List.mem_cons.1 hv with hv | hv
              · cases hv
                by_cases hro : r = .node l args
                · simp only [if_pos hro, Option.getD_none]; rw [hro] at hres; exact hres
                · simp only [if_neg hro, Option.getD_some]; exact hres
              · exact hm2 t v hv
            rcases h2 with ⟨hfu, rfl⟩ | ⟨hfu, h2⟩
            · have e2 : step f ⟨.recreate l args.length :: .store :: fs, args' ++ rs, .node l args :: os, memo1, calls1⟩ =
                  .next ⟨.store :: fs, .node l args' :: rs, .node l args :: os, memo1, calls1 + 1⟩ := by
                simp only [step, if_neg hnl, htake, hdrop, if_pos hfu]
              have e3 : step f ⟨.store :: fs, .node l args' :: rs, .node l args :: os, memo1, calls1 + 1⟩ =
                  .next ⟨fs, .node l args' :: rs, os, (.node l args, if Term.node l args' = .node l args then none else some (.node l args')) :: memo1, calls1 + 1⟩ := by
                simp only [step]
              refine ⟨(k1 + (0 + 1 + 1)) + 1, _, _, iter_step e0 (iter_trans e1 (iter_step e2 (iter_step e3 rfl))), hmemo memo1 hm1⟩
            · have e2 : step f ⟨.recreate l args.length :: .store :: fs, args' ++ rs, .node l args :: os, memo1, calls1⟩ =
                  .next ⟨.term (f (.node l args')) :: .store :: fs, rs, .node l args :: os, memo1, calls1 + 1⟩ := by
                simp only [step, if_neg hnl, htake, hdrop, if_neg hfu]
              obtain ⟨k3, memo3, calls3, e3, hm3⟩ := ih n (Nat.lt_succ_self n) _ _ h2 (.store :: fs) rs (.node l args :: os) memo1 (calls1 + 1) hm1 hos'
              have e4 : step f ⟨.store :: fs, r :: rs, .node l args :: os, memo3, calls3⟩ =
                  .next ⟨fs, r :: rs, os, (.node l args, if r = .node l args then none else some r) :: memo3, calls3⟩ := by
                simp only [step]
              refine ⟨(k1 + ((k3 + (0 + 1)) + 1)) + 1, _, _, iter_step e0 (iter_trans e1 (iter_step e2 (iter_trans e3 (iter_step e4 rfl)))), hmemo memo3 hm3⟩

/-- completeness of the machine w.r.t. the specification -/
theorem run_complete (f : Term → Term) {t r : Term} {memo : Memo} (hm : MemoValid f memo) (h : Res f t r) :
    ∃ fuel, (runFrom f fuel (init memo t)).1 = .done r := by
  obtain ⟨n, hn⟩ := h
  obtain ⟨k, memo', calls', e, _⟩ := eval_steps f n t r hn [] [] [] memo 0 hm (fun o ho => by cases ho)
  refine ⟨k + 1, ?_⟩
  have : runFrom f (k + 1) (init memo t) = runFrom f 1 _ := runFrom_of_iter 1 e
  rw [this]
  simp [runFrom, step]

end NutilsVerif.C01Driver
