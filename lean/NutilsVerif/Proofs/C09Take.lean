import NutilsVerif.Proofs.C09Integral
/-!
# C09 — `Sample.take_elements` (with the overrides of `_Add`, `_TakeElements`, `_Empty`) and `Sample.__add__`
-/
namespace NutilsVerif.C09

variable {α : Type} [CommSemiring α]

/-- the contribution of element `i` to the integral -/
def elemIntegral (w : LeafPt → α) (s : SampleExpr) (f : Pt → α) (i : Nat) : α := dot (wts w s i) ((pts s i).map f)

theorem loopIntegral_eq_sum (w : LeafPt → α) (s : SampleExpr) (f : Pt → α) :
    loopIntegral w s f = ((List.range (nelems s)).map (elemIntegral w s f)).sum := rfl

theorem map_range_getElem {β : Type} (l : List Nat) (g : Nat → β) :
    (List.range l.length).map (fun i => match l[i]? with | some j => g j | none => g 0) = l.map g := by
  apply List.ext_getElem
  · simp
  · intro i h1 h2
    simp at h1
    simp [List.getElem?_eq_getElem h1]

theorem loopIntegral_take (w : LeafPt → α) (p : SampleExpr) (ind : List Nat) (f : Pt → α) :
    loopIntegral w (.take p ind) f = (ind.map (elemIntegral w p f)).sum := by
  rw [loopIntegral_eq_sum, nelems_take, ← map_range_getElem ind (elemIntegral w p f)]
  congr 1
  apply List.map_congr_left
  intro i hi
  have hi := List.mem_range.1 hi
  simp only [elemIntegral, wts, pts, List.getElem?_eq_getElem hi]

theorem loopIntegral_zero_of_npoints (w : LeafPt → α) (s : SampleExpr) (hs : Valid s) (f : Pt → α) (h0 : npoints s = 0) :
    loopIntegral w s f = 0 := by
  have hp := part_of_valid hs
  rw [loopIntegral_eq_sum]
  apply List.sum_eq_zero
  intro x hx
  obtain ⟨i, _, rfl⟩ := List.mem_map.1 hx
  have hnil : getindex s i = [] := by
    cases h : getindex s i with
    | nil => rfl
    | cons a t =>
      have : a < npoints s := hp.lt_npoints (i := i) (by show a ∈ getindex s i; rw [h]; simp)
      omega
  have : wts w s i = [] := List.length_eq_zero_iff.1 (by rw [wts_length, hnil]; rfl)
  simp [elemIntegral, this, dot_nil_left]

theorem valid_mkAdd (a b : SampleExpr) (ha : Valid a) (hb : Valid b) : Valid (mkAdd a b) := by
  unfold mkAdd
  split
  · exact ha
  · split
    · exact hb
    · exact ⟨ha, hb⟩

theorem integral_mkAdd (w : LeafPt → α) (a b : SampleExpr) (ha : Valid a) (hb : Valid b) (f : Pt → α) :
    integralCode w (mkAdd a b) f = integralCode w a f + integralCode w b f := by
  unfold mkAdd
  split
  · rename_i h
    have : integralCode w b f = 0 := by
      rw [integralCode_eq_loop]; exact loopIntegral_zero_of_npoints w b hb f (by simpa using h)
    rw [this, add_zero]
  · split
    · rename_i h
      have : integralCode w a f = 0 := by
        rw [integralCode_eq_loop]; exact loopIntegral_zero_of_npoints w a ha f (by simpa using h)
      rw [this, zero_add]
    · rfl

theorem sum_filter_split {β : Type} (l : List β) (p : β → Bool) (g : β → α) :
    (l.map g).sum = ((l.filter p).map g).sum + ((l.filter fun x => !p x).map g).sum := by
  induction l with
  | nil => simp
  | cons a t ih =>
    simp only [List.map_cons, List.sum_cons, List.filter_cons]
    cases p a <;> simp [ih] <;> ring

theorem take_generic (w : LeafPt → α) (ind : List Nat) (f : Pt → α) (t : SampleExpr) (ht : Valid t) (hi : ∀ i ∈ ind, i < nelems t) :
    Valid (if ind.isEmpty then SampleExpr.empty else .take t ind) ∧
    integralCode w (if ind.isEmpty then SampleExpr.empty else .take t ind) f = (ind.map (elemIntegral w t f)).sum := by
  cases ind with
  | nil => simp [Valid, integralCode]
  | cons a r =>
    simp only [List.isEmpty_cons, Bool.false_eq_true, if_false]
    exact ⟨⟨ht, hi⟩, by rw [integralCode_eq_loop, loopIntegral_take]⟩

theorem takeElements_spec (w : LeafPt → α) (s : SampleExpr) (hs : Valid s) (ind : List Nat) (hind : ∀ i ∈ ind, i < nelems s)
    (f : Pt → α) :
    Valid (takeElements s ind) ∧ integralCode w (takeElements s ind) f = (ind.map (elemIntegral w s f)).sum := by
  induction s generalizing ind f with
  | default t c => exact take_generic w ind f _ hs hind
  | custom p ix _ => exact take_generic w ind f _ hs hind
  | mul a b _ _ => exact take_generic w ind f _ hs hind
  | zip a b _ _ => exact take_generic w ind f _ hs hind
  | empty =>
    have : ind = [] := by
      cases ind with
      | nil => rfl
      | cons a r => have := hind a (by simp); simp [nelems_empty] at this
    subst this
    simp [takeElements, Valid, integralCode]
  | take p pind ih =>
    simp only [Valid] at hs
    simp only [takeElements]
    have hlt : ∀ i ∈ ind, i < pind.length := by intro i hi; have := hind i hi; rwa [nelems_take] at this
    have hind' : ∀ j ∈ ind.map (fun i => pind.getD i 0), j < nelems p := by
      intro j hj
      obtain ⟨i, hi, rfl⟩ := List.mem_map.1 hj
      have := hlt i hi
      apply hs.2
      simp [List.getD_eq_getElem?_getD, List.getElem?_eq_getElem this]
    obtain ⟨hv, hint⟩ := ih hs.1 _ hind' f
    refine ⟨hv, ?_⟩
    rw [hint, List.map_map]
    congr 1
    apply List.map_congr_left
    intro i hi
    have := hlt i hi
    simp only [Function.comp, elemIntegral, wts, pts, List.getD_eq_getElem?_getD, List.getElem?_eq_getElem this, Option.getD_some]
  | add a b iha ihb =>
    simp only [Valid] at hs
    simp only [takeElements]
    have h1 : ∀ i ∈ ind.filter (fun i => decide (i < nelems a)), i < nelems a := by
      intro i hi; simpa using (List.mem_filter.1 hi).2
    have h2 : ∀ j ∈ (ind.filter (fun i => !decide (i < nelems a))).map (· - nelems a), j < nelems b := by
      intro j hj
      obtain ⟨i, hi, rfl⟩ := List.mem_map.1 hj
      obtain ⟨hm, hn⟩ := List.mem_filter.1 hi
      have := hind i hm
      rw [nelems_add] at this
      simp at hn
      omega
    obtain ⟨va, ia⟩ := iha hs.1 _ h1 f
    obtain ⟨vb, ib⟩ := ihb hs.2 _ h2 f
    refine ⟨valid_mkAdd _ _ va vb, ?_⟩
    rw [integral_mkAdd w _ _ va vb, ia, ib, sum_filter_split ind (fun i => decide (i < nelems a)) (elemIntegral w (.add a b) f)]
    congr 1
    · congr 1
      apply List.map_congr_left
      intro i hi
      have : i < nelems a := h1 i hi
      simp only [elemIntegral, wts, pts, if_pos this]
    · rw [List.map_map]
      congr 1
      apply List.map_congr_left
      intro i hi
      have hn := (List.mem_filter.1 hi).2
      simp at hn
      simp only [Function.comp, elemIntegral, wts, pts]
      rw [if_neg (by omega), if_neg (by omega)]

end NutilsVerif.C09
