import NutilsVerif.Model.C16
/-!
# C16 — the static check `lockOK` implies the dynamic discipline `disc` on every path (helper lemmas)
-/
namespace NutilsVerif.C16
variable {α : Type}

theorem path_disc {b : List BStmt} {c : List (Instr α)} (hp : Path b c) :
    ∀ (h : List Nat) (r : List (Instr α)), okL h b = true → disc h (c ++ r) = disc h r := by
  induction hp with
  | nil => intro h r _; rfl
  | plain _ ih =>
    intro h r hok
    simp only [okL, okS, Bool.true_and] at hok
    simp only [List.cons_append, disc]
    exact ih h r hok
  | accum a v _ ih =>
    intro h r hok
    simp only [okL, okS, Bool.and_eq_true] at hok
    simp only [List.cons_append, disc, hok.1, Bool.true_and]
    exact ih h r hok.2
  | slot k v _ ih =>
    intro h r hok
    simp only [okL, okS, Bool.true_and] at hok
    simp only [List.cons_append, disc]
    exact ih h r hok
  | bad x i _ _ =>
    intro h r hok
    simp [okL, okS] at hok
  | @withLock rs c b cb l _ _ ihb ihr =>
    intro h r hok
    simp only [okL, okS, Bool.and_eq_true] at hok
    obtain ⟨⟨hl, hb⟩, hr⟩ := hok
    have : (Instr.acq l :: (cb ++ Instr.rel l :: c)) ++ r = Instr.acq l :: (cb ++ (Instr.rel l :: (c ++ r))) := by simp
    rw [this]
    simp only [disc, hl, Bool.true_and]
    rw [ihb (l :: h) _ hb]
    simp only [disc, List.head?_cons, List.tail_cons, beq_self_eq_true, Bool.true_and]
    exact ihr h r hr
  | skip _ ih =>
    intro h r hok
    simp only [okL, okS, Bool.and_eq_true] at hok
    exact ih h r hok.2
  | @iter rs c b cb _ _ ihb ihr =>
    intro h r hok
    have hok' := hok
    simp only [okL, okS, Bool.and_eq_true] at hok'
    rw [List.append_assoc, ihb h _ hok'.1]
    exact ihr h r hok

end NutilsVerif.C16
