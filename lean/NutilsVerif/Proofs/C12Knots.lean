import Mathlib.Algebra.Order.Field.Rat
import NutilsVerif.Model.C12
import NutilsVerif.Proofs.C12Struct
import NutilsVerif.Proofs.C12Generic
/-!
# C12 — the knot span of element `e` of a non-periodic spline dimension is `start e + p`
-/
namespace NutilsVerif.C12

theorem getD_replicate_append (m : Nat) (a : Rat) (rest : List Rat) (r : Nat) (d : Rat) :
    (List.replicate m a ++ rest).getD r d = if r < m then a else rest.getD (r - m) d := by
  rw [List.getD_eq_getElem?_getD, List.getD_eq_getElem?_getD]
  by_cases h : r < m
  · rw [List.getElem?_append_left (by simpa using h)]
    simp [h]
  · rw [List.getElem?_append_right (by simpa using Nat.le_of_not_lt h)]
    simp [h]

/-- the `r`-th copy of knot `e` sits at index `mults[0]+…+mults[e-1]+r` -/
theorem knotVector_getD (ms : List Nat) (ks : List Rat) (e r : Nat) (d : Rat) (hlen : ms.length = ks.length)
    (he : e < ms.length) (hr : r < ms.getD e 0) :
    (knotVector ms ks).getD ((ms.take e).sum + r) d = ks.getD e 0 := by
  induction ms generalizing ks e with
  | nil => simp at he
  | cons m0 t ih =>
    cases ks with
    | nil => simp at hlen
    | cons k0 ks' =>
      have hlen' : t.length = ks'.length := by simpa using hlen
      have hunf : knotVector (m0 :: t) (k0 :: ks') = List.replicate m0 k0 ++ knotVector t ks' := by
        simp [knotVector]
      rw [hunf, getD_replicate_append]
      cases e with
      | zero =>
        have hr' : r < m0 := by simpa using hr
        simp [hr']
      | succ e =>
        have hr' : r < t.getD e 0 := by simpa using hr
        have he' : e < t.length := by simpa using he
        have hsum : (List.take (e + 1) (m0 :: t)).sum + r = m0 + ((t.take e).sum + r) := by
          simp only [List.take_succ_cons, List.sum_cons]; omega
        rw [hsum, if_neg (by omega), show m0 + ((t.take e).sum + r) - m0 = (t.take e).sum + r by omega]
        simpa using ih ks' e hlen' he' hr'

theorem mem_knotVector {ms : List Nat} {ks : List Rat} {x : Rat} (h : x ∈ knotVector ms ks) : x ∈ ks := by
  induction ms generalizing ks with
  | nil => simp [knotVector] at h
  | cons m0 t ih =>
    cases ks with
    | nil => simp [knotVector] at h
    | cons k0 ks' =>
      unfold knotVector at h
      simp only [List.zipWith_cons_cons, List.flatten_cons, List.mem_append, List.mem_replicate] at h
      rcases h with h | h
      · rw [h.2]; exact List.mem_cons_self
      · exact List.mem_cons_of_mem _ (ih h)

theorem knotVector_sorted (ms : List Nat) (ks : List Rat) (hs : ks.Pairwise (· ≤ ·)) :
    (knotVector ms ks).Pairwise (· ≤ ·) := by
  induction ms generalizing ks with
  | nil => simp [knotVector]
  | cons m0 t ih =>
    cases ks with
    | nil => simp [knotVector]
    | cons k0 ks' =>
      rw [List.pairwise_cons] at hs
      unfold knotVector
      simp only [List.zipWith_cons_cons, List.flatten_cons]
      rw [List.pairwise_append]
      refine ⟨?_, ih ks' hs.2, ?_⟩
      · rw [List.pairwise_replicate]; right; exact le_refl _
      · intro a ha b hb
        rw [List.mem_replicate] at ha
        rw [ha.2]
        exact hs.1 b (mem_knotVector hb)

/-- a sorted finite knot vector, extended by repeating its last knot, is a monotone knot sequence -/
theorem knotSeq_mono (l : List Rat) (hs : l.Pairwise (· ≤ ·)) (i j : Nat) (hij : i ≤ j) : knotSeq l i ≤ knotSeq l j := by
  unfold knotSeq
  have hlast' : ∀ (l : List Rat), l.Pairwise (· ≤ ·) → ∀ x ∈ l, x ≤ l.getLast?.getD 0 := by
    intro l
    induction l with
    | nil => intro _ x hx; cases hx
    | cons a t ih =>
      intro hs x hx
      rw [List.pairwise_cons] at hs
      cases t with
      | nil =>
        have : x = a := by simpa using hx
        subst this; simp
      | cons b t' =>
        rw [List.getLast?_cons_cons]
        rcases List.mem_cons.mp hx with h | h
        · have h1 := hs.1 b (by simp)
          have h2 := ih hs.2 b (by simp)
          rw [h]; exact le_trans h1 h2
        · exact ih hs.2 x h
  have hlast := hlast' l hs
  rw [List.getD_eq_getElem?_getD, List.getD_eq_getElem?_getD]
  by_cases hj : j < l.length
  · have hi : i < l.length := Nat.lt_of_le_of_lt hij hj
    rw [List.getElem?_eq_getElem hi, List.getElem?_eq_getElem hj]
    simp only [Option.getD_some]
    rcases Nat.eq_or_lt_of_le hij with h | h
    · subst h; exact le_refl _
    · exact (List.pairwise_iff_getElem.mp hs) i j hi hj h
  · have hjn : l[j]? = none := List.getElem?_eq_none (Nat.le_of_not_lt hj)
    rw [hjn]
    simp only [Option.getD_none]
    by_cases hi : i < l.length
    · rw [List.getElem?_eq_getElem hi]
      simp only [Option.getD_some]
      exact hlast _ (List.getElem_mem hi)
    · have hin : l[i]? = none := List.getElem?_eq_none (Nat.le_of_not_lt hi)
      rw [hin]
      simp


theorem openMults_facts (p n : Nat) (a : Nat) (t : List Nat) (hn : 0 < n) (ht : t.length = n) (hm : ∀ x ∈ a :: t, 1 ≤ x) :
    (openMults p n (a :: t)).length = n + 1 ∧ (∀ x ∈ openMults p n (a :: t), 1 ≤ x) ∧
    ∀ e, e < n → psum (openMults p n (a :: t)) (e+1) = p + 1 + (t.take e).sum := by
  unfold openMults
  refine ⟨by simp [ht], ?_, ?_⟩
  · intro x hx
    rcases List.mem_or_eq_of_mem_set hx with h | h
    · rcases List.mem_or_eq_of_mem_set h with h | h
      · exact hm x h
      · omega
    · omega
  · intro e he
    unfold psum
    rw [List.take_set_of_le (by omega)]
    simp only [List.set_cons_zero, List.take_succ_cons, List.sum_cons]

/-- **knot span of an element**: in the open knot vector of a non-periodic spline dimension, element `e`
is the span `[T (start e + p), T (start e + p + 1)) = [k e, k (e+1))` -/
theorem span_of_element {p n : Nat} {m : List Nat} {d : SDim} (hd : splineDim p n m false = .ok d)
    (hm : ∀ x ∈ m, 1 ≤ x) (k : List Rat) (hk : k.length = n + 1) (e : Nat) (he : e < n) :
    knotSeq (knotVector (openMults p n m) k) (d.start.getD e 0 + p) = k.getD e 0 ∧
    knotSeq (knotVector (openMults p n m) k) (d.start.getD e 0 + p + 1) = k.getD (e+1) 0 := by
  have hstart := (splineDim_formula hd).1 e he
  -- shape of m
  have hshape : n ≠ 0 ∧ m.length = n + 1 := by
    unfold splineDim at hd
    split at hd
    · cases hd
    · rename_i h
      constructor
      · intro e0; exact h (Or.inl e0)
      · by_cases e1 : m.length = n + 1
        · exact e1
        · exact absurd (Or.inr e1) h
  cases m with
  | nil => simp at hshape
  | cons a t =>
    have ht : t.length = n := by simpa using hshape.2
    obtain ⟨hlen, hpos, hps⟩ := openMults_facts p n a t (by omega) ht hm
    have hst : d.start.getD e 0 = (t.take e).sum := by
      rw [hstart]; simp
    set mm := openMults p n (a :: t) with hmm
    have hme : 1 ≤ mm.getD e 0 := hpos _ (getD_mem (by rw [hlen]; omega))
    have hme1 : 1 ≤ mm.getD (e+1) 0 := hpos _ (getD_mem (by rw [hlen]; omega))
    have hsum := psum_succ mm e
    have hS := hps e he
    unfold knotSeq
    constructor
    · have := knotVector_getD mm k e (mm.getD e 0 - 1) ((knotVector mm k).getLast?.getD 0) (by rw [hlen, hk]) (by rw [hlen]; omega) (by omega)
      rw [← this]
      congr 1
      show d.start.getD e 0 + p = psum mm e + (mm.getD e 0 - 1)
      omega
    · have := knotVector_getD mm k (e+1) 0 ((knotVector mm k).getLast?.getD 0) (by rw [hlen, hk]) (by rw [hlen]; omega) (by omega)
      rw [← this]
      congr 1
      show d.start.getD e 0 + p + 1 = psum mm (e+1) + 0
      omega

end NutilsVerif.C12
