import NutilsVerif.Proofs.C05Check
import NutilsVerif.Proofs.C05Compress
/-!
# C05: the COO → CSR step of `evaluable.as_csr` — row pointers `CompressIndices(rowidx, nrows)` of sound 2-d COO
data satisfy the CSR clauses  (no Mathlib)
-/
namespace NutilsVerif.C05
open NutilsVerif

/-! ### slices of a vector sorted by key are the groups of equal keys -/

section slices
variable {β : Type}

/-- number of entries with key below `i` -/
def cntKey (ps : List (Nat × β)) (i : Nat) : Nat := (ps.filter fun p => decide (p.1 < i)).length

theorem filter_key_nil_of_ge {ps : List (Nat × β)} {i : Nat} (q : Nat → Bool) (hq : ∀ k, i < k → q k = false)
    (h : ∀ p ∈ ps, i < p.1) : ps.filter (fun p => q p.1) = [] := by
  rw [List.filter_eq_nil_iff]; intro p hp; simp [hq p.1 (h p hp)]

/-- in a list sorted by key, positions `[#keys < i, #keys < i+1)` hold exactly the entries with key `i` -/
theorem slice_eq_filter : ∀ (ps : List (Nat × β)) (i : Nat), ps.Pairwise (fun a b => a.1 ≤ b.1) →
    (ps.drop (cntKey ps i)).take (cntKey ps (i+1) - cntKey ps i) = ps.filter (fun p => p.1 == i)
  | [], _, _ => by simp [cntKey]
  | p :: t, i, h => by
    have h' := List.pairwise_cons.1 h
    have ih := slice_eq_filter t i h'.2
    rcases Nat.lt_trichotomy p.1 i with hlt | heq | hgt
    · have c1 : cntKey (p :: t) i = cntKey t i + 1 := by simp [cntKey, hlt]
      have c2 : cntKey (p :: t) (i+1) = cntKey t (i+1) + 1 := by
        simp [cntKey, Nat.lt_succ_of_lt hlt]
      have hne : (p.1 == i) = false := by simp; omega
      rw [c1, c2, List.drop_succ_cons, List.filter_cons, hne]
      simpa using ih
    · have hall : ∀ q ∈ t, i ≤ q.1 := fun q hq => heq ▸ h'.1 q hq
      have c0 : cntKey t i = 0 := by
        simp only [cntKey, List.length_eq_zero_iff, List.filter_eq_nil_iff]
        intro q hq; have := hall q hq; simp; omega
      have c1 : cntKey (p :: t) i = 0 := by
        simp [cntKey, heq]; simpa [cntKey] using c0
      have c2 : cntKey (p :: t) (i+1) = cntKey t (i+1) + 1 := by
        simp [cntKey, heq]
      have hpe : (p.1 == i) = true := by simp [heq]
      rw [c1, c2, List.drop_zero, Nat.sub_zero, List.take_succ_cons, List.filter_cons, hpe]
      rw [c0] at ih
      simp only [List.drop_zero, Nat.sub_zero] at ih
      simp [ih]
    · have hall : ∀ q ∈ t, i < q.1 := fun q hq => Nat.lt_of_lt_of_le hgt (h'.1 q hq)
      have z1 : ∀ j, j ≤ i + 1 → cntKey (p :: t) j = 0 := by
        intro j hj
        simp only [cntKey, List.length_eq_zero_iff, List.filter_eq_nil_iff]
        intro q hq
        rcases List.mem_cons.1 hq with rfl | hq
        · simp; omega
        · have := hall q hq; simp; omega
      rw [z1 i (by omega), z1 (i+1) (by omega)]
      simp only [List.drop_zero, Nat.sub_zero, List.take_zero]
      symm
      rw [List.filter_eq_nil_iff]
      intro q hq
      rcases List.mem_cons.1 hq with rfl | hq
      · simp; omega
      · have := hall q hq; simp; omega

end slices

/-! ### 2-d COO data as a list of (row, col) pairs -/

def toT (p : Nat × Nat) : List Nat := [p.1, p.2]
def ofT (t : List Nat) : Nat × Nat := (t.getD 0 0, t.getD 1 0)

theorem toT_ofT {nr nc : Nat} {t : List Nat} (h : inBox [nr, nc] t = true) : toT (ofT t) = t := by
  obtain ⟨i, j, rfl, _, _⟩ := inBox_pair.1 h
  rfl

section
variable {α : Type}

/-- the entries at `(i, j)` are the entries at column `j` among the entries of row `i`, in the same order -/
theorem foldl_filter_pair (add : α → α → α) (i j : Nat) : ∀ (ps : List (Nat × Nat)) (values : List α) (acc : α),
    (((ps.map toT).zip values).filter (·.1 == [i, j])).foldl (fun acc p => add acc p.2) acc =
    (((((ps.map (·.1)).zip ((ps.map (·.2)).zip values)).filter (·.1 == i)).map (·.2)).filter (·.1 == j)).foldl
      (fun acc p => add acc p.2) acc
  | [], _, _ => by simp
  | _ :: _, [], _ => by simp
  | p :: ps, v :: vs, acc => by
    simp only [List.map_cons, List.zip_cons_cons, List.filter_cons]
    by_cases h1 : p.1 = i <;> by_cases h2 : p.2 = j
    · simp [toT, h1, h2, foldl_filter_pair add i j ps vs]
    · simp [toT, h1, h2, foldl_filter_pair add i j ps vs]
    · simp [toT, h1, h2, foldl_filter_pair add i j ps vs]
    · simp [toT, h1, h2, foldl_filter_pair add i j ps vs]

end

theorem rowSlice_zip {β γ : Type} (l : List β) (m : List γ) (rp : List Nat) (i : Nat) :
    (rowSlice l rp i).zip (rowSlice m rp i) = rowSlice (l.zip m) rp i := by
  simp only [rowSlice, List.zip_eq_zipWith, List.take_zipWith, List.drop_zipWith]

/-- the row pointers `as_csr` computes: number of stored entries in the rows before `i` -/
def rowptrOf (rows : List Nat) (nrows : Nat) : List Nat :=
  (List.range (nrows + 1)).map fun i => (rows.filter fun r => decide (r < i)).length

theorem rowptrOf_getD (rows : List Nat) (nrows i : Nat) (hi : i ≤ nrows) :
    (rowptrOf rows nrows).getD i 0 = (rows.filter fun r => decide (r < i)).length := by
  simp [rowptrOf, List.getD_eq_getElem?_getD, Nat.lt_succ_of_le hi]

theorem rowSlice_rowptrOf_ps {β : Type} (ps : List (Nat × β)) (nrows i : Nat) (hi : i < nrows)
    (hsorted : ps.Pairwise (fun a b => a.1 ≤ b.1)) :
    rowSlice (ps.map (·.2)) (rowptrOf (ps.map (·.1)) nrows) i = (ps.filter (·.1 == i)).map (·.2) := by
  have hcnt : ∀ k, ((ps.map (·.1)).filter fun r => decide (r < k)).length = cntKey ps k := by
    intro k
    simp [cntKey, List.filter_map, Function.comp_def]
  rw [rowSlice, rowptrOf_getD _ nrows i (by omega), rowptrOf_getD _ nrows (i+1) (by omega), hcnt, hcnt]
  rw [← List.map_drop, ← List.map_take, slice_eq_filter _ i hsorted]

theorem rowSlice_rowptrOf {β : Type} (rows : List Nat) (l : List β) (nrows i : Nat) (hi : i < nrows)
    (hlen : rows.length = l.length) (hsorted : rows.Pairwise (· ≤ ·)) :
    rowSlice l (rowptrOf rows nrows) i = ((rows.zip l).filter (·.1 == i)).map (·.2) := by
  have hl : (rows.zip l).map (·.2) = l := List.map_snd_zip (Nat.le_of_eq hlen.symm)
  have hr : (rows.zip l).map (·.1) = rows := List.map_fst_zip (Nat.le_of_eq hlen)
  have hps : (rows.zip l).Pairwise (fun a b => a.1 ≤ b.1) := by
    have : ((rows.zip l).map (·.1)).Pairwise (· ≤ ·) := by rw [hr]; exact hsorted
    exact List.pairwise_map.1 this
  have := rowSlice_rowptrOf_ps (rows.zip l) nrows i hi hps
  rwa [hl, hr] at this

theorem monotoneInt_of_pairwise : ∀ {l : List Int}, l.Pairwise (· ≤ ·) → monotoneInt l = true
  | [], _ => rfl
  | [_], _ => rfl
  | a :: b :: t, h => by
    have h' := List.pairwise_cons.1 h
    simp only [monotoneInt, Bool.and_eq_true, decide_eq_true_eq]
    exact ⟨h'.1 b (List.mem_cons_self ..), monotoneInt_of_pairwise h'.2⟩

theorem length_filter_cast (rows : List Nat) (i : Nat) :
    ((rows.map Int.ofNat).filter (· < (i : Int))).length = (rows.filter fun r => decide (r < i)).length := by
  rw [List.filter_map, List.length_map]
  congr 1
  apply List.filter_congr
  intro r _
  simp [Function.comp]

/-- `evaluable.as_csr` on sound 2-d COO data never fails and computes the row pointers `rowptrOf` -/
theorem asCsr_eq (indices : List (List Nat)) (nrows : Nat)
    (hrows : (indices.map fun t => t.getD 0 0).Pairwise (· ≤ ·)) (hlt : ∀ t ∈ indices, t.getD 0 0 < nrows) :
    asCsr indices nrows = .ok (rowptrOf (indices.map fun t => t.getD 0 0) nrows, indices.map fun t => t.getD 1 0) := by
  have hcast : (indices.map fun t => ((t.getD 0 0 : Nat) : Int)) = (indices.map fun t => t.getD 0 0).map Int.ofNat := by
    rw [List.map_map]; rfl
  have hpre : monotoneInt (indices.map fun t => ((t.getD 0 0 : Nat) : Int)) = true ∧
      inRangeInt (indices.map fun t => ((t.getD 0 0 : Nat) : Int)) nrows = true := by
    constructor
    · apply monotoneInt_of_pairwise
      rw [hcast]
      exact List.pairwise_map.2 (hrows.imp fun h => Int.ofNat_le.2 h)
    · simp only [inRangeInt, List.all_eq_true, List.mem_map, Bool.and_eq_true, decide_eq_true_eq]
      rintro x ⟨t, ht, rfl⟩
      have := hlt t ht
      omega
  have hspec := compress_indices_spec' (indices.map fun t => ((t.getD 0 0 : Nat) : Int)) nrows
  unfold asCsr
  split at hspec
  · rename_i c hc
    rw [hc]
    simp only [Except.ok.injEq, Prod.mk.injEq, and_true]
    rw [hspec.2, searchsortedAll, List.map_map, rowptrOf]
    apply List.map_congr_left
    intro i _
    simp only [Function.comp]
    rw [hcast, length_filter_cast]
    simp
  · exact absurd hpre hspec

section
variable {α : Type} [Inhabited α] [BEq α] [LawfulBEq α]

/-- **COO → CSR** (`evaluable.as_csr`): if the 2-d COO data pass the COO checker then `as_csr` succeeds and the
data `(values, CompressIndices(rowidx, nrows), colidx, ncols)` pass the CSR checker -/
theorem csr_of_coo' (add : α → α → α) (zero : α) (hz : ∀ a, add zero a = a) (nrows ncols : Nat)
    (indices : List (List Nat)) (values : List α) (dense : Tensor α)
    (h : checkCOO zero [nrows, ncols] indices values dense = true) :
    ∃ rowptr colidx, asCsr indices nrows = .ok (rowptr, colidx) ∧
      checkCSR zero nrows ncols rowptr colidx values dense = true := by
  have hc := checkCOO_sound' add zero hz _ _ _ _ h
  -- the tuples are pairs
  have hpair : ∀ t ∈ indices, toT (ofT t) = t := fun t ht => toT_ofT (hc.inRange t ht)
  have hidx : (indices.map ofT).map toT = indices := by
    rw [List.map_map]
    conv => rhs; rw [← List.map_id indices]
    exact List.map_congr_left fun t ht => hpair t ht
  have hrowsEq : (indices.map fun t => t.getD 0 0) = (indices.map ofT).map (·.1) := by rw [List.map_map]; rfl
  have hcolsEq : (indices.map fun t => t.getD 1 0) = (indices.map ofT).map (·.2) := by rw [List.map_map]; rfl
  generalize hps : indices.map ofT = ps at hidx hrowsEq hcolsEq
  have hlex : ps.Pairwise (fun a b => lexLt (toT a) (toT b) = true) := by
    have := hc.sorted; rw [← hidx] at this; exact List.pairwise_map.1 this
  have hpsSorted : ps.Pairwise (fun a b => a.1 ≤ b.1) :=
    hlex.imp fun {a b} hab => by
      simp only [toT, lexLt, Bool.or_eq_true, decide_eq_true_eq, Bool.and_eq_true, beq_iff_eq] at hab
      omega
  have hbound : ∀ p ∈ ps, p.1 < nrows ∧ p.2 < ncols := by
    intro p hp
    have hm : toT p ∈ indices := by rw [← hidx]; exact List.mem_map_of_mem hp
    obtain ⟨i, j, hij, hi, hj⟩ := inBox_pair.1 (hc.inRange _ hm)
    simp only [toT, List.cons.injEq, and_true] at hij
    omega
  have hlenps : ps.length = values.length := by rw [← hc.length, ← hps]; simp
  have hrows : (indices.map fun t => t.getD 0 0).Pairwise (· ≤ ·) := by
    rw [hrowsEq]; exact List.pairwise_map.2 hpsSorted
  have hlt : ∀ t ∈ indices, t.getD 0 0 < nrows := by
    intro t ht
    have : t.getD 0 0 ∈ (indices.map fun t => t.getD 0 0) := List.mem_map_of_mem ht
    rw [hrowsEq] at this
    obtain ⟨p, hp, hpe⟩ := List.mem_map.1 this
    rw [← hpe]; exact (hbound p hp).1
  refine ⟨_, _, asCsr_eq indices nrows hrows hlt, ?_⟩
  rw [hrowsEq, hcolsEq]
  apply checkCSR_complete' add zero hz
  refine ⟨by simp [rowptrOf], ?_, ?_, ?_, by simpa using hlenps, ?_, ?_, hc.shape_eq, ?_⟩
  · simp [rowptrOf, List.head?_range]
  · rw [rowptrOf, List.pairwise_map]
    refine List.pairwise_lt_range.imp fun {a b} hab => ?_
    rw [← List.countP_eq_length_filter, ← List.countP_eq_length_filter]
    exact List.countP_mono_left fun x _ hx => by simp at hx ⊢; omega
  · rw [rowptrOf, List.getLast?_map, List.getLast?_range]
    simp only [Nat.add_one_ne_zero, if_false, Nat.add_sub_cancel, Option.map_some, Option.some.injEq]
    rw [← hlenps]
    have : ((ps.map (·.1)).filter fun r => decide (r < nrows)) = ps.map (·.1) := by
      rw [List.filter_eq_self]
      intro r hr
      obtain ⟨p, hp, rfl⟩ := List.mem_map.1 hr
      simpa using (hbound p hp).1
    rw [this]; simp
  · intro c hcm
    obtain ⟨p, hp, rfl⟩ := List.mem_map.1 hcm
    exact (hbound p hp).2
  · intro i hi
    rw [rowSlice_rowptrOf_ps ps nrows i hi hpsSorted]
    rw [List.pairwise_map]
    exact (hlex.filter (fun p => p.1 == i)).imp_of_mem fun {a b} ha hb hab => by
      have ha' : a.1 = i := by simpa using (List.mem_filter.1 ha).2
      have hb' : b.1 = i := by simpa using (List.mem_filter.1 hb).2
      simp [toT, lexLt] at hab
      omega
  · intro i j hi hj
    have hbox : inBox [nrows, ncols] [i, j] = true := inBox_pair.2 ⟨i, j, rfl, hi, hj⟩
    rw [hc.denotes [i, j] hbox]
    unfold scatterSum
    rw [rowSlice_zip, rowSlice_rowptrOf (ps.map (·.1)) ((ps.map (·.2)).zip values) nrows i hi (by simp [hlenps])
      (List.pairwise_map.2 hpsSorted)]
    conv => lhs; rw [← hidx]
    exact foldl_filter_pair add i j ps values zero

end

end NutilsVerif.C05
