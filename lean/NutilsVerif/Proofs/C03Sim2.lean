import NutilsVerif.Proofs.C03Sim
/-! C03 — the simulation lemma for statements -/
namespace NutilsVerif.C03
variable {D : Type}

theorem refSimF_symm {a b : Option Ref} (h : refSimF a b) : refSimF b a := by
  unfold refSimF at *; cases a <;> cases b <;> simp_all

theorem refSimF_trans {a b c : Option Ref} (h1 : refSimF a b) (h2 : refSimF b c) : refSimF a c := by
  unfold refSimF at *; cases a <;> cases b <;> cases c <;> simp_all

/-- if the constant part is final after `s` (outside `Wl`, `Wv`), it is final before `s` outside what `s` still writes -/
theorem Fut_back (I : Interp D) (args : Args D) (c : Ctx) (k : Classes c) (Kfin : St D) (s : Stmt) (Wl : List Loc) (Wv : List Var)
    (sK : St D) (hs : wfK c s = true) (ho : OriginInv c.O sK) (hK : sK.err = none)
    (hF : Fut c Kfin Wl Wv (exec I args .cache s sK)) : Fut c Kfin (skW c s ++ Wl) (defsOf .skip s ++ Wv) sK := by
  obtain ⟨f1, f2⟩ := cache_frame I args c k s sK hs ho
  refine ⟨hK, ?_, ?_⟩
  · intro l hl hn
    simp only [List.mem_append, not_or] at hn
    rw [← f1 l hl hn.1]; exact hF.heap l hl hn.2
  · intro v hv hn
    simp only [List.mem_append, not_or] at hn
    exact refSimF_trans (refSimF_symm (f2 v hv hn.1)) (hF.env v hv hn.2)

theorem Fut_weaken (c : Ctx) (Kfin : St D) {Wl Wl' : List Loc} {Wv Wv' : List Var} (sK : St D)
    (h1 : ∀ l, l ∈ Wl → l ∈ Wl') (h2 : ∀ v, v ∈ Wv → v ∈ Wv') (hF : Fut c Kfin Wl Wv sK) : Fut c Kfin Wl' Wv' sK :=
  ⟨hF.err, fun l hl hn => hF.heap l hl (fun h => hn (h1 l h)), fun v hv hn => hF.env v hv (fun h => hn (h2 v h))⟩

theorem R_frozen (c : Ctx) (Kfin : St D) {sA sB sK sK' : St D} (hR : R c Kfin sA sB sK) (e : Err) (he : sA.err = some e) :
    R c Kfin sA sB sK' :=
  ⟨hR.1, hR.2.1, fun h => by rw [he] at h; cases h⟩


/-- buffers a `rerun`-tagged statement touches are neither cached nor shared -/
theorem effB_nloc (I : Interp D) (args : Args D) (c : Ctx) (k : Classes c) {st : St D} (b : Basic) (oA : OriginInv c.O st)
    (hdefs : ∀ x ∈ b.defs, x ∈ c.ns)
    (hwr : ∀ dst op srcs, b = .write dst op srcs → ∀ l ∈ c.O dst, c.nloc l = true)
    (l : Loc) (d : D) (h : (effB I args b st).heapUpd = some (l, d)) : c.nloc l = true := by
  rcases effB_heapUpd I args b st l d h with ⟨x, hx, rfl⟩ | ⟨dst, op, srcs, r, hb, hr, rfl⟩
  · exact k.nloc_of_ns (hdefs x hx)
  · exact hwr dst op srcs hb _ (oA dst r hr)

/-- the buffer a new rerun binding points to is, if cached, one the rerun could already reach -/
theorem effB_new_heap (I : Interp D) (args : Args D) (c : Ctx) (k : Classes c) {Kfin sA : St D} (b : Basic)
    (hP : Pers c Kfin sA) (hdefs : ∀ x ∈ b.defs, x ∈ c.ns ∨ x ∈ c.sh) (hnoset : ∀ v, b ≠ .setro v)
    (x : Var) (r : Ref) (h : (effB I args b sA).envUpd = some (x, r)) (hcl : c.cloc r.loc = true) :
    sA.heap r.loc = Kfin.heap r.loc := by
  rcases effB_envUpd_loc I args b sA x r h with hl | ⟨a, hl⟩ | ⟨u, _, a, ha, hl⟩
  · exfalso
    rcases effB_envUpd I args b sA x r h with hd | hd
    · rw [hl] at hcl
      rcases hdefs x hd with h' | h'
      · rw [(nloc_ncloc (k.nloc_of_ns h')).1] at hcl; cases hcl
      · rw [k.ncloc_of_sh h'] at hcl; cases hcl
    · exact hnoset x hd
  · rw [hl] at hcl; simp [Ctx.cloc] at hcl
  · rw [← hl] at hcl ⊢; exact hP.heap u a ha hcl

theorem mem_of_all_contains {l m : List Var} (h : l.all (fun d => m.contains d) = true) : ∀ x ∈ l, x ∈ m := by
  simpa using h

theorem sim_op (I : Interp D) (args : Args D) (c : Ctx) (hc : classesOK c = true) (Kfin : St D)
    (t : Tag) (b : Basic) (Dv : List Var) (Wl : List Loc) (Wv : List Var) (sA sB sK : St D)
    (hchk : chkOp c Dv Wl Wv t b = true) (hR : R c Kfin sA sB sK) (hK : sK.err = none)
    (hF : Fut c Kfin Wl Wv (exec I args .cache (.op t b) sK)) :
    R c Kfin (exec I args .rerun (.op t b) sA) (exec I args .first (.op t b) sB) (exec I args .cache (.op t b) sK) := by
  have k := classes_of c hc
  obtain ⟨herr, hP, hLive⟩ := hR
  cases hA : sA.err with
  | some e =>
    have hB : sB.err = some e := herr ▸ hA
    rw [exec_err I args .rerun _ sA e hA, exec_err I args .first _ sB e hB]
    exact ⟨herr, hP, fun h => by rw [hA] at h; cases h⟩
  | none =>
    have hB : sB.err = none := herr ▸ hA
    have hL := hLive hA
    have hwfK := chkOp_wfK c Dv Wl Wv t b hchk
    have hor := wfK_wfO_op c t b hwfK
    unfold chkOp at hchk
    simp only [Bool.and_eq_true] at hchk
    have hchk2 := hchk.2
    cases t with
    | rerun =>
      simp only [exec, runs, bne_self_eq_false, Bool.false_eq_true, if_false, if_true, reduceCtorEq, bne_iff_ne, ne_eq,
        not_false_eq_true, decide_true] at hF ⊢
      simp only [Bool.and_eq_true] at hchk2
      obtain ⟨⟨hreads, hdefs⟩, hform⟩ := hchk2
      have hreads' : ∀ u ∈ b.reads, readRerun c Dv Wl Wv u = true := by simpa using hreads
      have hdefs' := mem_of_all_contains hdefs
      have hrd := fun u hu => readAB c hc hP hL hF (hreads' u hu)
      have hwr : ∀ dst op srcs, b = .write dst op srcs → ∀ l ∈ c.O dst, c.nloc l = true := by
        intro dst op srcs hb l hl
        subst hb
        simp only [List.all_eq_true, Bool.and_eq_true, Bool.not_eq_true'] at hform
        have := hform l hl
        simp [Ctx.nloc, this.1.1, this.1.2]
      have hnoset : ∀ v, b ≠ .setro v := by
        intro v hb; subst hb; simp at hform
      have hsim : EffSim b sA sB (effB I args b sA) (effB I args b sB) := by
        apply effB_sim I args b sA sB (fun u hu => (hrd u hu).1)
        · intro dst op srcs hb a c' ha hc'
          have := (hrd dst (by subst hb; simp [Basic.reads])).2
          unfold refSimAB at this
          rw [ha, hc'] at this
          exact this.2.2 (hwr dst op srcs hb _ (hL.oA dst a ha))
        · intro dst a cop _
          exact hL.hAB (.arg a) rfl
      obtain ⟨hupd, hloc⟩ := effB_AB I args c k b hL.oA hsim (fun u hu => (hrd u hu).2)
        (fun x hx => Or.inl (hdefs' x hx)) hnoset hwr
      have hAB := AB_eff c k (effB I args b sA) (effB I args b sB) hP hL.hAB hL.eAB hsim.err hsim.heap hupd hloc
        (effB_new_heap I args c k b hP (fun x hx => Or.inl (hdefs' x hx)) hnoset) hA hB
      rw [execB_eq I args b sA hA, execB_eq I args b sB hB]
      refine ⟨hAB.1, hAB.2.1, fun hok => ?_⟩
      have hAB' := hAB.2.2 hok
      have oA' := execB_origin I args c b sA hor hL.oA
      have oB' := execB_origin I args c b sB hor hL.oB
      rw [execB_eq I args b sA hA] at oA'
      rw [execB_eq I args b sB hB] at oB'
      refine ⟨hAB'.1, hAB'.2, ?_, ?_, oA', oB', hL.oK⟩
      · intro v hv
        rw [applyEff_env_frame]
        · exact hL.eBK v hv
        · intro x r hu e; subst e
          rcases effB_envUpd I args b sB v r hu with hd | hd
          · have := hdefs' v hd
            rcases hv with hv | hv | hv
            · exact k.sk_ns v hv this
            · exact k.sh_ns v hv this
            · exact k.c_ns v hv this
          · exact hnoset v hd
      · intro l hl
        rw [applyEff_heap_frame]
        · exact hL.hBK l hl
        · intro l' d hu e; subst e
          have := nloc_ncloc (effB_nloc I args c k b hL.oB hdefs' hwr l d hu)
          rcases hl with hl | hl
          · rw [this.1] at hl; cases hl
          · rw [this.2] at hl; cases hl
    | skip =>
      simp only [exec, runs, bne_self_eq_false, Bool.false_eq_true, if_false, if_true, reduceCtorEq, bne_iff_ne, ne_eq,
        not_false_eq_true, decide_true] at hF ⊢
      simp only [Bool.and_eq_true] at hchk2
      obtain ⟨⟨hreads, hdefs⟩, hform⟩ := hchk2
      have hreads' : ∀ u ∈ b.reads, readCache c Dv u = true := by simpa using hreads
      have hdefs' := mem_of_all_contains hdefs
      have hrd := fun u hu => readBK c hL (hreads' u hu)
      have hsim : EffSim b sB sK (effB I args b sB) (effB I args b sK) := by
        apply effB_sim I args b sB sK (fun u hu => (hrd u hu).1)
        · intro dst op srcs hb a c' ha hc'
          have := (hrd dst (by subst hb; simp [Basic.reads])).2
          rw [ha, hc'] at this; cases this; rfl
        · intro dst a cop hb; subst hb; simp at hform
      have hBK := stepBK I args b (fun v => v ∈ c.sk ∨ v ∈ c.sh ∨ v ∈ c.consts) (fun l => c.cloc l = true ∨ c.shloc l = true)
        hL.eBK hL.hBK hsim (fun u hu => (hrd u hu).2) hB hK
      have hBerr : (execB I args b sB).err = none := by rw [hBK.1]; exact hF.err
      refine ⟨by rw [hA, hBerr], hP, fun _ => ?_⟩
      have oB' := execB_origin I args c b sB hor hL.oB
      have oK' := execB_origin I args c b sK hor hL.oK
      refine ⟨?_, ?_, hBK.2.1, hBK.2.2, hL.oA, oB', oK'⟩
      · intro l hl
        rw [execB_eq I args b sB hB, applyEff_heap_frame]
        · exact hL.hAB l hl
        · intro l' d hu e; subst e
          rcases effB_heapUpd I args b sB l d hu with ⟨x, hx, rfl⟩ | ⟨dst, op, srcs, r, hb, hr, rfl⟩
          · have := hdefs' x hx
            simp [Ctx.cloc, this] at hl
          · subst hb
            simp only [List.all_eq_true, Bool.and_eq_true] at hform
            have := (hform _ (hL.oB dst r hr)).1
            rw [hl] at this; cases this
      · intro v hv
        rw [execB_eq I args b sB hB, applyEff_env_frame]
        · exact hL.eAB v hv
        · intro x r hu e; subst e
          rcases effB_envUpd I args b sB v r hu with hd | hd
          · have := hdefs' v hd
            rcases hv with hv | hv
            · exact k.sk_ns v this hv
            · exact k.sk_sh v this hv
          · subst hd
            simp only [Bool.or_eq_true, List.contains_eq_mem, decide_eq_true_eq] at hform
            rcases hform with h | h <;> rcases hv with hv | hv
            · exact k.sk_ns v h hv
            · exact k.sk_sh v h hv
            · exact k.c_ns v h hv
            · exact k.c_sh v h hv
    | shared =>
      simp only [exec, runs, bne_self_eq_false, Bool.false_eq_true, if_false, if_true, reduceCtorEq, bne_iff_ne, ne_eq,
        not_false_eq_true, decide_true] at hF ⊢
      simp only [Bool.and_eq_true] at hchk2
      obtain ⟨⟨⟨hreadsC, hreadsR⟩, hdefs⟩, hform⟩ := hchk2
      have hreadsC' : ∀ u ∈ b.reads, readCache c Dv u = true := by simpa using hreadsC
      have hreadsR' : ∀ u ∈ b.reads, readRerun c Dv Wl Wv u = true := by simpa using hreadsR
      have hdefs' := mem_of_all_contains hdefs
      -- the constant part is already final (w.r.t. Wl, Wv) before this statement: a shared statement touches nothing cached
      have hF0 : Fut c Kfin Wl Wv sK := by
        have := Fut_back I args c k Kfin (.op .shared b) Wl Wv sK hwfK hL.oK hK
          (by simpa only [exec, runs, bne_iff_ne, ne_eq, reduceCtorEq, not_false_eq_true, decide_true, if_true] using hF)
        simpa [skW, defsOf] using this
      have hrdA := fun u hu => readAB c hc hP hL hF0 (hreadsR' u hu)
      have hrdK := fun u hu => readBK c hL (hreadsC' u hu)
      have hnow : ∀ dst op srcs, b ≠ .write dst op srcs := by
        intro dst op srcs hb; subst hb; simp at hform
      have hnoset : ∀ v, b ≠ .setro v := by
        intro v hb; subst hb; simp at hform
      have hnoarg : ∀ dst a cop, b ≠ .getarg dst a cop := by
        intro dst a cop hb; subst hb; simp at hform
      have hsimAB : EffSim b sA sB (effB I args b sA) (effB I args b sB) :=
        effB_sim I args b sA sB (fun u hu => (hrdA u hu).1) (fun dst op srcs hb => absurd hb (hnow dst op srcs))
          (fun dst a cop hb => absurd hb (hnoarg dst a cop))
      have hsimBK : EffSim b sB sK (effB I args b sB) (effB I args b sK) :=
        effB_sim I args b sB sK (fun u hu => (hrdK u hu).1) (fun dst op srcs hb => absurd hb (hnow dst op srcs))
          (fun dst a cop hb => absurd hb (hnoarg dst a cop))
      obtain ⟨hupd, hloc⟩ := effB_AB I args c k b hL.oA hsimAB (fun u hu => (hrdA u hu).2)
        (fun x hx => Or.inr (hdefs' x hx)) hnoset (fun dst op srcs hb => absurd hb (hnow dst op srcs))
      have hAB := AB_eff c k (effB I args b sA) (effB I args b sB) hP hL.hAB hL.eAB hsimAB.err hsimAB.heap hupd hloc
        (effB_new_heap I args c k b hP (fun x hx => Or.inr (hdefs' x hx)) hnoset) hA hB
      have hBK := stepBK I args b (fun v => v ∈ c.sk ∨ v ∈ c.sh ∨ v ∈ c.consts) (fun l => c.cloc l = true ∨ c.shloc l = true)
        hL.eBK hL.hBK hsimBK (fun u hu => (hrdK u hu).2) hB hK
      rw [← execB_eq I args b sA hA, ← execB_eq I args b sB hB] at hAB
      refine ⟨hAB.1, hAB.2.1, fun hok => ?_⟩
      have hAB' := hAB.2.2 hok
      exact ⟨hAB'.1, hAB'.2, hBK.2.1, hBK.2.2, execB_origin I args c b sA hor hL.oA, execB_origin I args c b sB hor hL.oB,
        execB_origin I args c b sK hor hL.oK⟩

end NutilsVerif.C03
