import NutilsVerif.Model.C09
import Mathlib.Data.List.Nodup
/-!
# C09 — the index lists of every sample expression partition `0..npoints`  (helper lemmas)
-/
namespace NutilsVerif.C09

/-- the `getindex` lists of a sample form a partition of `0..npoints` -/
structure Part (s : Sem) : Prop where
  nodup : ∀ i, (s.getindex i).Nodup
  disj : ∀ i j x, x ∈ s.getindex i → x ∈ s.getindex j → i = j
  cover : ∀ x, x < s.npoints ↔ ∃ i, i < s.nelems ∧ x ∈ s.getindex i
  oob : ∀ i, s.nelems ≤ i → s.getindex i = []

theorem Part.lt_nelems {s : Sem} (h : Part s) {i x : Nat} (hx : x ∈ s.getindex i) : i < s.nelems := by
  apply Nat.lt_of_not_le
  intro hle
  rw [h.oob i hle] at hx
  cases hx

theorem Part.lt_npoints {s : Sem} (h : Part s) {i x : Nat} (hx : x ∈ s.getindex i) : x < s.npoints :=
  (h.cover x).2 ⟨i, h.lt_nelems hx, hx⟩

/-! ## prefix sums and segments -/

def pre (l : List Nat) (i : Nat) : Nat := (l.take i).sum

theorem pre_zero (l : List Nat) : pre l 0 = 0 := by simp [pre]

theorem pre_succ (l : List Nat) (i : Nat) (h : i < l.length) : pre l (i+1) = pre l i + l.getD i 0 := by
  induction l generalizing i with
  | nil => simp at h
  | cons a t ih =>
    cases i with
    | zero => simp [pre]
    | succ i =>
      have := ih i (by simpa using h)
      simp only [pre, List.take_succ_cons, List.sum_cons, List.getD_cons_succ] at this ⊢
      omega

theorem pre_length (l : List Nat) : pre l l.length = l.sum := by simp [pre]

theorem pre_mono (l : List Nat) {i j : Nat} (hij : i ≤ j) (hj : j ≤ l.length) : pre l i ≤ pre l j := by
  induction j with
  | zero => simp_all
  | succ j ih =>
    rcases Nat.lt_or_ge i (j+1) with h | h
    · have := ih (by omega) (by omega)
      rw [pre_succ l j (by omega)]; omega
    · have : i = j+1 := by omega
      subst this; exact Nat.le_refl _

theorem cumsumFrom_getD (s : Nat) (l : List Nat) (i : Nat) (h : i ≤ l.length) :
    (cumsumFrom s l).getD i 0 = s + pre l i := by
  induction l generalizing s i with
  | nil => simp at h; subst h; simp [cumsumFrom, pre]
  | cons a t ih =>
    cases i with
    | zero => simp [cumsumFrom, pre]
    | succ i =>
      have := ih (s + a) i (by simpa using h)
      simp only [cumsumFrom, List.getD_cons_succ, pre, List.take_succ_cons, List.sum_cons] at this ⊢
      omega

theorem cumsumFrom_getLast (s : Nat) (l : List Nat) : (cumsumFrom s l).getLast?.getD 0 = s + l.sum := by
  induction l generalizing s with
  | nil => simp [cumsumFrom]
  | cons a t ih =>
    have := ih (s + a)
    have hne : cumsumFrom (s + a) t ≠ [] := by cases t <;> simp [cumsumFrom]
    simp only [cumsumFrom, List.sum_cons]
    rw [List.getLast?_cons_of_ne_nil hne]; omega

theorem mem_segment (l : List Nat) (i : Nat) (h : i < l.length) (x : Nat) :
    x ∈ segment (cumsum0 l) i ↔ pre l i ≤ x ∧ x < pre l (i+1) := by
  unfold segment arange cumsum0
  rw [cumsumFrom_getD 0 l i (by omega), cumsumFrom_getD 0 l (i+1) (by omega)]
  have := pre_mono l (Nat.le_succ i) (by omega)
  rw [List.mem_range'_1]
  omega

theorem length_segment (l : List Nat) (i : Nat) (h : i < l.length) :
    (segment (cumsum0 l) i).length = l.getD i 0 := by
  unfold segment arange cumsum0
  rw [cumsumFrom_getD 0 l i (by omega), cumsumFrom_getD 0 l (i+1) (by omega), pre_succ l i h]
  simp

/-- the family of consecutive segments with the given lengths -/
def segSem (l : List Nat) : Sem :=
  { nelems := l.length, npoints := l.sum, getindex := fun i => if i < l.length then segment (cumsum0 l) i else [] }

theorem exists_segment (l : List Nat) (x n : Nat) (hn : n ≤ l.length) (hx : x < pre l n) :
    ∃ i, i < n ∧ pre l i ≤ x ∧ x < pre l (i+1) := by
  induction n with
  | zero => simp [pre_zero] at hx
  | succ n ih =>
    rcases Nat.lt_or_ge x (pre l n) with h | h
    · obtain ⟨i, hi, h1, h2⟩ := ih (by omega) h
      exact ⟨i, by omega, h1, h2⟩
    · exact ⟨n, by omega, h, hx⟩

theorem part_segSem (l : List Nat) : Part (segSem l) where
  nodup i := by
    simp only [segSem]; split
    · exact List.nodup_range'
    · exact List.nodup_nil
  disj i j x hi hj := by
    simp only [segSem] at hi hj
    by_cases h1 : i < l.length
    case neg => rw [if_neg h1] at hi; cases hi
    by_cases h2 : j < l.length
    case neg => rw [if_neg h2] at hj; cases hj
    rw [if_pos h1] at hi; rw [if_pos h2] at hj
    rw [mem_segment l i h1] at hi
    rw [mem_segment l j h2] at hj
    rcases Nat.lt_trichotomy i j with h | h | h
    · have := pre_mono l (show i+1 ≤ j by omega) (by omega); omega
    · exact h
    · have := pre_mono l (show j+1 ≤ i by omega) (by omega); omega
  cover x := by
    simp only [segSem]
    constructor
    · intro hx
      rw [← pre_length l] at hx
      obtain ⟨i, hi, h1, h2⟩ := exists_segment l x l.length (Nat.le_refl _) hx
      refine ⟨i, hi, ?_⟩
      rw [if_pos hi, mem_segment l i hi]; exact ⟨h1, h2⟩
    · rintro ⟨i, hi, hx⟩
      rw [if_pos hi, mem_segment l i hi] at hx
      have := pre_mono l (show i+1 ≤ l.length by omega) (Nat.le_refl _)
      rw [pre_length] at this; omega
  oob i hi := by simp only [segSem]; rw [if_neg]; exact Nat.not_lt.2 hi

/-! ## the constructors preserve partitions -/

theorem part_custom (sp : Sem) (ix : List Nat) (hp : Part sp) (hix : ix.Perm (List.range sp.npoints)) :
    Part { nelems := sp.nelems, npoints := sp.npoints, getindex := fun i => (sp.getindex i).map fun j => ix.getD j 0 } := by
  have hlen : ix.length = sp.npoints := by simpa using hix.length_eq
  have hnd : ix.Nodup := hix.nodup_iff.2 List.nodup_range
  have hmem : ∀ x, x ∈ ix ↔ x < sp.npoints := fun x => by rw [hix.mem_iff, List.mem_range]
  have hget : ∀ j (h : j < ix.length), ix.getD j 0 = ix[j] := fun j h => by simp [h]
  have hinj : ∀ j1 j2, j1 < sp.npoints → j2 < sp.npoints → ix.getD j1 0 = ix.getD j2 0 → j1 = j2 := by
    intro j1 j2 h1 h2 h
    rw [hget j1 (by omega), hget j2 (by omega)] at h
    exact hnd.getElem_inj_iff.1 h
  refine ⟨?_, ?_, ?_, ?_⟩
  · intro i
    refine List.Nodup.map_on ?_ (hp.nodup i)
    intro x hx y hy h
    exact hinj x y (hp.lt_npoints hx) (hp.lt_npoints hy) h
  · intro i j x hi hj
    simp only [List.mem_map] at hi hj
    obtain ⟨a, ha, rfl⟩ := hi
    obtain ⟨b, hb, hab⟩ := hj
    have := hinj b a (hp.lt_npoints hb) (hp.lt_npoints ha) hab
    subst this
    exact hp.disj i j b ha hb
  · intro x
    simp only [List.mem_map]
    constructor
    · intro hx
      obtain ⟨j, hj, hjx⟩ := List.getElem_of_mem ((hmem x).2 hx)
      obtain ⟨i, hi, hmi⟩ := (hp.cover j).1 (by omega)
      exact ⟨i, hi, j, hmi, by rw [hget j hj, hjx]⟩
    · rintro ⟨i, _, j, hj, rfl⟩
      have := hp.lt_npoints hj
      rw [hget j (by omega)]
      exact (hmem _).1 (List.getElem_mem _)
  · intro i hi
    simp [hp.oob i hi]

theorem part_add (sa sb : Sem) (ha : Part sa) (hb : Part sb) :
    Part { nelems := sa.nelems + sb.nelems, npoints := sa.npoints + sb.npoints,
           getindex := fun i => if i < sa.nelems then sa.getindex i else (sb.getindex (i - sa.nelems)).map (· + sa.npoints) } := by
  refine ⟨?_, ?_, ?_, ?_⟩
  · intro i
    dsimp only
    split
    · exact ha.nodup i
    · exact List.Nodup.map (fun a b h => by simpa using h) (hb.nodup _)
  · intro i j x hi hj
    dsimp only at hi hj
    by_cases h1 : i < sa.nelems <;> by_cases h2 : j < sa.nelems
    · rw [if_pos h1] at hi; rw [if_pos h2] at hj; exact ha.disj i j x hi hj
    · rw [if_pos h1] at hi; rw [if_neg h2] at hj
      have := ha.lt_npoints hi
      simp only [List.mem_map] at hj
      obtain ⟨y, _, rfl⟩ := hj
      omega
    · rw [if_neg h1] at hi; rw [if_pos h2] at hj
      have := ha.lt_npoints hj
      simp only [List.mem_map] at hi
      obtain ⟨y, _, rfl⟩ := hi
      omega
    · rw [if_neg h1] at hi; rw [if_neg h2] at hj
      simp only [List.mem_map] at hi hj
      obtain ⟨y, hy, rfl⟩ := hi
      obtain ⟨z, hz, hzy⟩ := hj
      have : z = y := by omega
      subst this
      have := hb.disj _ _ z hy hz
      omega
  · intro x
    dsimp only
    constructor
    · intro hx
      by_cases h : x < sa.npoints
      · obtain ⟨i, hi, hm⟩ := (ha.cover x).1 h
        exact ⟨i, by omega, by rw [if_pos hi]; exact hm⟩
      · obtain ⟨i, hi, hm⟩ := (hb.cover (x - sa.npoints)).1 (by omega)
        refine ⟨i + sa.nelems, by omega, ?_⟩
        rw [if_neg (by omega)]
        simp only [List.mem_map]
        exact ⟨x - sa.npoints, by simpa using hm, by omega⟩
    · rintro ⟨i, hi, hm⟩
      split at hm
      · have := ha.lt_npoints hm; omega
      · simp only [List.mem_map] at hm
        obtain ⟨y, hy, rfl⟩ := hm
        have := hb.lt_npoints hy; omega
  · intro i hi
    dsimp only at hi ⊢
    rw [if_neg (by omega), hb.oob _ (by omega)]
    rfl

theorem mem_mul_getindex (sa sb : Sem) (e x : Nat) :
    x ∈ ((sa.getindex (e / sb.nelems)).flatMap fun p => (sb.getindex (e % sb.nelems)).map fun q => p * sb.npoints + q) ↔
      ∃ p, p ∈ sa.getindex (e / sb.nelems) ∧ ∃ q, q ∈ sb.getindex (e % sb.nelems) ∧ p * sb.npoints + q = x := by
  simp only [List.mem_flatMap, List.mem_map]

theorem divmod_unique {n p q p' q' : Nat} (hq : q < n) (hq' : q' < n) (h : p * n + q = p' * n + q') : p = p' ∧ q = q' := by
  have h1 : (p * n + q) / n = p := by
    rw [Nat.mul_comm, Nat.mul_add_div (by omega), Nat.div_eq_of_lt hq]; rfl
  have h2 : (p' * n + q') / n = p' := by
    rw [Nat.mul_comm, Nat.mul_add_div (by omega), Nat.div_eq_of_lt hq']; rfl
  have hp : p = p' := by rw [← h1, ← h2, h]
  subst hp
  exact ⟨rfl, by omega⟩

theorem part_mul (sa sb : Sem) (ha : Part sa) (hb : Part sb) :
    Part { nelems := sa.nelems * sb.nelems, npoints := sa.npoints * sb.npoints,
           getindex := fun e => (sa.getindex (e / sb.nelems)).flatMap fun p => (sb.getindex (e % sb.nelems)).map fun q => p * sb.npoints + q } := by
  refine ⟨?_, ?_, ?_, ?_⟩
  · intro e
    dsimp only
    rw [List.nodup_flatMap]
    constructor
    · intro p _
      refine List.Nodup.map (fun a b h => by simpa using h) (hb.nodup _)
    · refine List.Pairwise.imp_of_mem ?_ (ha.nodup (e / sb.nelems))
      intro p p' _ _ hne
      simp only [Function.onFun, List.disjoint_left, List.mem_map]
      rintro x ⟨q, hq, rfl⟩ ⟨q', hq', h⟩
      exact hne (divmod_unique (hb.lt_npoints hq') (hb.lt_npoints hq) h).1.symm
  · intro e e' x he he'
    dsimp only at he he'
    rw [mem_mul_getindex] at he he'
    obtain ⟨p, hp, q, hq, rfl⟩ := he
    obtain ⟨p', hp', q', hq', h⟩ := he'
    obtain ⟨h1, h2⟩ := divmod_unique (hb.lt_npoints hq') (hb.lt_npoints hq) h
    subst h1 h2
    have h3 := ha.disj _ _ _ hp hp'
    have h4 := hb.disj _ _ _ hq hq'
    rw [← Nat.div_add_mod e sb.nelems, ← Nat.div_add_mod e' sb.nelems, h3, h4]
  · intro x
    dsimp only
    constructor
    · intro hx
      have hnb : 0 < sb.npoints := by
        rcases Nat.eq_zero_or_pos sb.npoints with h | h
        · rw [h] at hx; simp at hx
        · exact h
      have hq : x % sb.npoints < sb.npoints := Nat.mod_lt _ hnb
      have hp : x / sb.npoints < sa.npoints := by
        rw [Nat.div_lt_iff_lt_mul hnb]; exact hx
      obtain ⟨i, hi, hmi⟩ := (ha.cover _).1 hp
      obtain ⟨j, hj, hmj⟩ := (hb.cover _).1 hq
      refine ⟨i * sb.nelems + j, ?_, ?_⟩
      · calc i * sb.nelems + j < i * sb.nelems + sb.nelems := by omega
          _ = (i + 1) * sb.nelems := by rw [Nat.add_mul, Nat.one_mul]
          _ ≤ sa.nelems * sb.nelems := Nat.mul_le_mul_right _ hi
      · rw [mem_mul_getindex]
        have h1 : (i * sb.nelems + j) / sb.nelems = i := by
          rw [Nat.mul_comm, Nat.mul_add_div (by omega), Nat.div_eq_of_lt hj]; rfl
        have h2 : (i * sb.nelems + j) % sb.nelems = j := by
          rw [Nat.mul_comm, Nat.mul_add_mod, Nat.mod_eq_of_lt hj]
        rw [h1, h2]
        exact ⟨_, hmi, _, hmj, by rw [Nat.mul_comm]; exact Nat.div_add_mod x sb.npoints⟩
    · rintro ⟨e, _, hm⟩
      rw [mem_mul_getindex] at hm
      obtain ⟨p, hp, q, hq, rfl⟩ := hm
      have h1 := ha.lt_npoints hp
      have h2 := hb.lt_npoints hq
      calc p * sb.npoints + q < p * sb.npoints + sb.npoints := by omega
        _ = (p + 1) * sb.npoints := by rw [Nat.add_mul, Nat.one_mul]
        _ ≤ sa.npoints * sb.npoints := Nat.mul_le_mul_right _ h1
  · intro e he
    dsimp only at he ⊢
    rcases Nat.eq_zero_or_pos sb.nelems with h | h
    · rw [hb.oob (e % sb.nelems) (by omega)]; simp
    · rw [ha.oob _ ((Nat.le_div_iff_mul_le h).2 he)]; rfl

theorem le_foldl_max (l : List Nat) (init : Nat) : init ≤ l.foldl max init ∧ ∀ k ∈ l, k ≤ l.foldl max init := by
  induction l generalizing init with
  | nil => simp
  | cons a t ih =>
    obtain ⟨h1, h2⟩ := ih (max init a)
    simp only [List.foldl_cons, List.mem_cons]
    refine ⟨by omega, ?_⟩
    rintro k (rfl | hk)
    · omega
    · exact h2 k hk

theorem zipUniq_nodup (sa sb : Sem) : (zipUniq sa sb).Nodup :=
  List.Nodup.filter _ List.nodup_range

theorem mem_zipUniq (sa sb : Sem) (x : Nat) (hx : x < sa.npoints) : zipKey sa sb x ∈ zipUniq sa sb := by
  have hk : zipKey sa sb x ∈ (List.range sa.npoints).map (zipKey sa sb) :=
    List.mem_map.2 ⟨x, List.mem_range.2 hx, rfl⟩
  have := (le_foldl_max ((List.range sa.npoints).map (zipKey sa sb)) 0).2 _ hk
  simp only [zipUniq, List.mem_filter, List.mem_range, List.contains_iff_mem]
  exact ⟨by omega, hk⟩

/-- the index lists of a zipped sample partition `0..npoints` whatever the zipped samples are -/
theorem part_zip (sa sb : Sem) :
    Part { nelems := (zipUniq sa sb).length, npoints := sa.npoints,
           getindex := fun i => match (zipUniq sa sb)[i]? with
             | some k => (List.range sa.npoints).filter fun p => zipKey sa sb p == k
             | none => [] } := by
  refine ⟨?_, ?_, ?_, ?_⟩
  · intro i
    dsimp only
    split
    · exact List.Nodup.filter _ List.nodup_range
    · exact List.nodup_nil
  · intro i j x hi hj
    dsimp only at hi hj
    split at hi
    case h_2 => cases hi
    split at hj
    case h_2 => cases hj
    rename_i _ k hk _ k' hk'
    simp only [List.mem_filter, beq_iff_eq] at hi hj
    have : k = k' := by rw [← hi.2, ← hj.2]
    subst this
    obtain ⟨h1, e1⟩ := List.getElem?_eq_some_iff.1 hk
    obtain ⟨h2, e2⟩ := List.getElem?_eq_some_iff.1 hk'
    exact (zipUniq_nodup sa sb).getElem_inj_iff.1 (e1.trans e2.symm)
  · intro x
    dsimp only
    constructor
    · intro hx
      obtain ⟨i, hi, hik⟩ := List.getElem_of_mem (mem_zipUniq sa sb x hx)
      refine ⟨i, hi, ?_⟩
      rw [List.getElem?_eq_getElem hi]
      simp only [List.mem_filter, List.mem_range, beq_iff_eq]
      exact ⟨hx, hik.symm⟩
    · rintro ⟨i, _, hm⟩
      split at hm
      · simp only [List.mem_filter, List.mem_range] at hm; exact hm.1
      · cases hm
  · intro i hi
    dsimp only at hi ⊢
    rw [List.getElem?_eq_none hi]

theorem sem_default (t : Nat) (c : List Nat) : sem (.default t c) = segSem c := rfl

theorem sem_take (p : SampleExpr) (ind : List Nat) :
    sem (.take p ind) = segSem (ind.map fun i => ((sem p).getindex i).length) := by
  simp only [sem, segSem, cumsum0, cumsumFrom_getLast, List.length_map, Nat.zero_add]

/-- **Partition invariant**: for every valid sample expression, of any nesting. -/
theorem part_sem (s : SampleExpr) (h : Valid s) : Part (sem s) := by
  induction s with
  | default t c => rw [sem_default]; exact part_segSem c
  | custom p ix ih =>
    simp only [Valid, npoints] at h
    exact part_custom (sem p) ix (ih h.1) h.2
  | add a b iha ihb =>
    simp only [Valid] at h
    exact part_add (sem a) (sem b) (iha h.1) (ihb h.2)
  | mul a b iha ihb =>
    simp only [Valid] at h
    exact part_mul (sem a) (sem b) (iha h.1) (ihb h.2)
  | take p ind _ => rw [sem_take]; exact part_segSem _
  | zip a b _ _ => exact part_zip (sem a) (sem b)
  | empty =>
    refine ⟨fun _ => List.nodup_nil, ?_, ?_, fun _ _ => rfl⟩
    · intro i j x hx; simp [sem] at hx
    · intro x; simp [sem]

end NutilsVerif.C09
