import NutilsVerif.Proofs.C16Range
/-!
# C16 — plain stores into slots that belong to one iteration need no lock (helper lemmas)
-/
namespace NutilsVerif.C16
variable {α : Type} [Add α]

def PC.iter : PC α → Option Nat
  | .wrote i => some i
  | .body i _ _ => some i
  | .mid i _ _ _ _ _ => some i
  | _ => none

def PC.rest (code : Nat → List (Instr α)) : PC α → List (Instr α)
  | .wrote i => code i
  | .body _ _ r => r
  | .mid _ _ _ _ _ r => r
  | _ => []

structure SInv (N n : Nat) (code : Nat → List (Instr α)) (sl : Nat → Option α) (s : State α) : Prop where
  iter_lt : ∀ w i, (s.pc w).iter = some i → i < s.idx
  suffix : ∀ w i, (s.pc w).iter = some i → ∃ pre, code i = pre ++ (s.pc w).rest code
  written : (∃ w, w < N ∧ s.pc w = .failed) ∨ ∀ i k v, i < n → Instr.put k v ∈ code i →
    s.slots k = some v ∨ s.idx ≤ i ∨ ∃ w, w < N ∧ (s.pc w).iter = some i ∧ Instr.put k v ∈ (s.pc w).rest code
  only : ∀ k, s.slots k = sl k ∨ ∃ i v, i < n ∧ Instr.put k v ∈ code i ∧ s.slots k = some v

omit [Add α] in
theorem SInv.init (N n : Nat) (code : Nat → List (Instr α)) (sh : Nat → α) (sl) : SInv N n code sl (init sh sl) := by
  constructor <;> simp [C16.init, PC.iter]

omit [Add α] in
theorem written_of {N n : Nat} {code : Nat → List (Instr α)} {s s' : State α} {w : Nat} {pc' : PC α} (hw : w < N)
    (hpc : s'.pc = upd s.pc w pc')
    (k1 : ∀ i k v, i < n → Instr.put k v ∈ code i → s.slots k = some v → s'.slots k = some v)
    (k2 : ∀ i, s.idx ≤ i → s'.idx ≤ i ∨ (pc'.iter = some i ∧ pc'.rest code = code i))
    (k4 : ∀ i k v, i < n → Instr.put k v ∈ code i → (s.pc w).iter = some i → Instr.put k v ∈ (s.pc w).rest code →
      s'.slots k = some v ∨ (pc'.iter = some i ∧ Instr.put k v ∈ pc'.rest code))
    (h : ∀ i k v, i < n → Instr.put k v ∈ code i →
      s.slots k = some v ∨ s.idx ≤ i ∨ ∃ w, w < N ∧ (s.pc w).iter = some i ∧ Instr.put k v ∈ (s.pc w).rest code) :
    ∀ i k v, i < n → Instr.put k v ∈ code i →
      s'.slots k = some v ∨ s'.idx ≤ i ∨ ∃ w, w < N ∧ (s'.pc w).iter = some i ∧ Instr.put k v ∈ (s'.pc w).rest code := by
  intro i k v hi hp
  rcases h i k v hi hp with hA | hB | ⟨w0, hw0, hit, hin⟩
  · exact .inl (k1 i k v hi hp hA)
  · rcases k2 i hB with hB' | ⟨h1, h2⟩
    · exact .inr (.inl hB')
    · exact .inr (.inr ⟨w, hw, by rw [hpc, upd_same]; exact h1, by rw [hpc, upd_same, h2]; exact hp⟩)
  · by_cases hww : w0 = w
    · subst hww
      rcases k4 i k v hi hp hit hin with hA' | ⟨h1, h2⟩
      · exact .inl hA'
      · exact .inr (.inr ⟨w0, hw0, by rw [hpc, upd_same]; exact h1, by rw [hpc, upd_same]; exact h2⟩)
    · exact .inr (.inr ⟨w0, hw0, by rw [hpc, upd_other _ _ _ _ hww]; exact hit, by rw [hpc, upd_other _ _ _ _ hww]; exact hin⟩)

omit [Add α] in
theorem suffix_of {code : Nat → List (Instr α)} {s s' : State α} {w : Nat} {pc' : PC α}
    (hpc : s'.pc = upd s.pc w pc')
    (hnew : pc'.iter = none ∨ (∃ i, pc'.iter = some i ∧ pc'.rest code = code i) ∨
      (pc'.iter = (s.pc w).iter ∧ ∃ x, (s.pc w).rest code = x :: pc'.rest code) ∨
      (pc'.iter = (s.pc w).iter ∧ (s.pc w).rest code = pc'.rest code))
    (h : ∀ w i, (s.pc w).iter = some i → ∃ pre, code i = pre ++ (s.pc w).rest code) :
    ∀ w i, (s'.pc w).iter = some i → ∃ pre, code i = pre ++ (s'.pc w).rest code := by
  intro w0 i hi
  by_cases hww : w0 = w
  · subst hww
    rw [hpc, upd_same] at hi ⊢
    rcases hnew with h0 | ⟨j, hj, hr⟩ | ⟨hit, x, hx⟩ | ⟨hit, hx⟩
    · rw [h0] at hi; cases hi
    · rw [hj] at hi; cases hi; exact ⟨[], by rw [hr]; rfl⟩
    · obtain ⟨pre, hp⟩ := h w0 i (by rw [← hit]; exact hi)
      exact ⟨pre ++ [x], by rw [hp, hx]; simp⟩
    · obtain ⟨pre, hp⟩ := h w0 i (by rw [← hit]; exact hi)
      exact ⟨pre, by rw [hp, hx]⟩
  · rw [hpc, upd_other _ _ _ _ hww] at hi ⊢
    exact h w0 i hi

theorem SInv.stepW {N n : Nat} {code : Nat → List (Instr α)} {sl} (hu : UniquePuts code) {s : State α} {w : Nat} (hw : w < N)
    (hr : RInv n s) (h : SInv N n code sl s) : SInv N n code sl (stepW n code s w) := by
  obtain ⟨h1, h2, h3, h4⟩ := h
  have hidx := hr.idx_le
  have hread := hr.read_idx
  have h3' : (∃ w0, w0 < N ∧ (C16.stepW n code s w).pc w0 = PC.failed) ∨ ∀ i k v, i < n → Instr.put k v ∈ code i →
      (C16.stepW n code s w).slots k = some v ∨ (C16.stepW n code s w).idx ≤ i ∨
        ∃ w0, w0 < N ∧ ((C16.stepW n code s w).pc w0).iter = some i ∧ Instr.put k v ∈ ((C16.stepW n code s w).pc w0).rest code := by
    rcases h3 with ⟨w0, hw0, h0⟩ | h3
    · exact .inl ⟨w0, hw0, failed_stepW w w0 h0⟩
    · right
      unfold C16.stepW
      split
      · split
        · exact written_of hw rfl (by grind) (by grind) (by grind [PC.iter]) h3
        · exact h3
      · exact written_of hw rfl (by grind) (by grind) (by grind [PC.iter]) h3
      · split
        · exact written_of hw rfl (by grind) (by grind) (by grind [PC.iter]) h3
        · exact written_of hw rfl (by grind) (by grind [PC.iter, PC.rest]) (by grind [PC.iter]) h3
      · exact written_of hw rfl (by grind) (by grind) (by grind [PC.iter, PC.rest]) h3
      · exact written_of hw rfl (by grind) (by grind) (by grind [PC.iter, PC.rest]) h3
      · exact written_of hw rfl (by grind) (by grind) (by grind [PC.iter, PC.rest]) h3
      · split
        · exact written_of hw rfl (by grind) (by grind) (by grind [PC.iter, PC.rest]) h3
        · exact h3
      · exact written_of hw rfl (by grind) (by grind) (by grind [PC.iter, PC.rest]) h3
      · exact written_of hw rfl (by grind) (by grind) (by grind [PC.iter, PC.rest]) h3
      · rename_i i hh k' v' r hpc
        obtain ⟨pre, hpre⟩ := h2 w i (by rw [hpc]; rfl)
        have hin : Instr.put k' v' ∈ code i := by rw [hpre]; simp [PC.rest, hpc]
        exact written_of hw rfl (by grind [upd, UniquePuts]) (by grind) (by grind [PC.iter, PC.rest, upd, UniquePuts]) h3
      · exact written_of hw rfl (by grind) (by grind) (by grind [PC.iter, PC.rest]) h3
      · exact h3
      · exact h3
  have hsuf : ∀ (c pre : List (Instr α)) x r, c = pre ++ x :: r → ∃ pre', c = pre' ++ r :=
    fun c pre x r h => ⟨pre ++ [x], by simp [h]⟩
  have hnil : ∀ c : List (Instr α), ∃ pre, c = pre ++ c := fun c => ⟨[], rfl⟩
  have hputin : ∀ i h k v r, s.pc w = .body i h (.put k v :: r) → i < n ∧ Instr.put k v ∈ code i := by
    intro i h k v r hpc
    obtain ⟨pre, hpre⟩ := h2 w i (by rw [hpc]; rfl)
    have := h1 w i (by rw [hpc]; rfl)
    refine ⟨by omega, ?_⟩
    rw [hpre]; simp [PC.rest, hpc]
  refine ⟨?_, ?_, h3', ?_⟩
  · clear h3' h3
    unfold C16.stepW
    split <;> (try split) <;> grind [upd, PC.iter]
  · clear h3' h3
    unfold C16.stepW
    split <;> (try split) <;> first
      | exact h2
      | exact suffix_of rfl (by simp [PC.iter, PC.rest, *]) h2
  · clear h3' h3
    unfold C16.stepW
    split <;> (try split) <;> grind [upd, PC.iter, PC.rest]

theorem SInv.applyEv {N n : Nat} {code : Nat → List (Instr α)} {sl} (hu : UniquePuts code) {s : State α}
    (hr : RInv n s) (h : SInv N n code sl s) (e : Ev) : SInv N n code sl (applyEv N n code s e) := by
  cases e with
  | step w =>
    simp only [C16.applyEv]
    split
    · rename_i hw
      exact h.stepW hu hw.1 hr
    · exact h
  | kill w =>
    simp only [C16.applyEv]
    split
    · obtain ⟨h1, h2, h3, h4⟩ := h
      exact ⟨h1, h2, h3, h4⟩
    · exact h
  | raise w =>
    simp only [C16.applyEv]
    split
    · rename_i hw
      obtain ⟨h1, h2, h3, h4⟩ := h
      refine ⟨?_, ?_, .inl ⟨w, hw.1, by simp⟩, h4⟩
      · intro w0 i
        by_cases hww : w0 = w
        · subst hww; simp [PC.iter]
        · simp only [upd_other _ _ _ _ hww]; exact h1 w0 i
      · intro w0 i
        by_cases hww : w0 = w
        · subst hww; simp [PC.iter]
        · simp only [upd_other _ _ _ _ hww]; exact h2 w0 i
    · exact h

theorem RSInv_run {N n : Nat} {code : Nat → List (Instr α)} {sl} (hu : UniquePuts code) (σ : List Ev) {s : State α}
    (hr : RInv n s) (h : SInv N n code sl s) : RInv n (run N n code σ s) ∧ SInv N n code sl (run N n code σ s) := by
  induction σ generalizing s with
  | nil => exact ⟨hr, h⟩
  | cons e σ ih => exact ih (hr.applyEv e) (h.applyEv hu hr e)

omit [Add α] in
theorem SInv.final {N n : Nat} {code : Nat → List (Instr α)} {sl} {s : State α} (hN : 0 < N) (hr : RInv n s)
    (h : SInv N n code sl s) (hd : AllDone N s) :
    (∀ i k v, i < n → Instr.put k v ∈ code i → s.slots k = some v) ∧
    (∀ k, (∀ i v, i < n → Instr.put k v ∉ code i) → s.slots k = sl k) := by
  have hidx : s.idx = n := hr.done_idx 0 (hd 0 hN).1
  constructor
  · intro i k v hi hp
    rcases h.written with ⟨w, hw, hf⟩ | hwr
    · rw [(hd w hw).1] at hf; cases hf
    · rcases hwr i k v hi hp with h | h | ⟨w, hw, hit, _⟩
      · exact h
      · omega
      · rw [(hd w hw).1] at hit; cases hit
  · intro k hk
    rcases h.only k with h | ⟨i, v, hi, hp, _⟩
    · exact h
    · exact absurd hp (hk i v hi)

theorem fold_slots_none (c : List (Instr α)) (st : (Nat → α) × (Nat → Option α)) (k : Nat)
    (h : ∀ v, Instr.put k v ∉ c) : (c.foldl execI st).2 k = st.2 k := by
  induction c generalizing st with
  | nil => rfl
  | cons x r ih =>
    rw [List.foldl_cons, ih _ (fun v hv => h v (List.mem_cons_of_mem _ hv))]
    cases x with
    | put k' v' =>
      have : k ≠ k' := fun hk => h v' (by subst hk; exact List.mem_cons_self)
      simp [execI, upd_other _ _ _ _ this]
    | _ => rfl

theorem fold_slots_some (c : List (Instr α)) (st : (Nat → α) × (Nat → Option α)) (k : Nat) (v : α)
    (hin : Instr.put k v ∈ c) (hu : ∀ v', Instr.put k v' ∈ c → v' = v) : (c.foldl execI st).2 k = some v := by
  induction c generalizing st with
  | nil => cases hin
  | cons x r ih =>
    rw [List.foldl_cons]
    by_cases hr : Instr.put k v ∈ r
    · exact ih _ hr (fun v' hv' => hu v' (List.mem_cons_of_mem _ hv'))
    · have hx : x = Instr.put k v := by
        rcases List.mem_cons.1 hin with h | h
        · exact h.symm
        · exact absurd h hr
      have hnone : ∀ v', Instr.put k v' ∉ r := fun v' hv' => hr (by
        have := hu v' (List.mem_cons_of_mem _ hv'); subst this; exact hv')
      rw [fold_slots_none r _ k hnone, hx]
      simp [execI]

theorem serial_succ (n : Nat) (code : Nat → List (Instr α)) (sh : Nat → α) (sl : Nat → Option α) :
    serial (n+1) code sh sl = (code n).foldl execI (serial n code sh sl) := by
  simp [serial, List.range_succ, List.foldl_append]

theorem serial_slots_none (n : Nat) (code : Nat → List (Instr α)) (sh : Nat → α) (sl : Nat → Option α) (k : Nat)
    (h : ∀ i v, i < n → Instr.put k v ∉ code i) : (serial n code sh sl).2 k = sl k := by
  induction n with
  | zero => rfl
  | succ n ih =>
    rw [serial_succ, fold_slots_none _ _ k (fun v => h n v (by omega))]
    exact ih (fun i v hi => h i v (by omega))

theorem serial_slots_some (n : Nat) (code : Nat → List (Instr α)) (hu : UniquePuts code) (sh : Nat → α) (sl : Nat → Option α)
    (i k : Nat) (v : α) (hi : i < n) (hp : Instr.put k v ∈ code i) : (serial n code sh sl).2 k = some v := by
  induction n with
  | zero => omega
  | succ n ih =>
    rw [serial_succ]
    by_cases hin : i = n
    · subst hin
      exact fold_slots_some _ _ k v hp (fun v' hv' => ((hu i i k v v' hp hv').2).symm)
    · rw [fold_slots_none _ _ k (fun v' hv' => hin (hu i n k v v' hp hv').1)]
      exact ih (by omega)

end NutilsVerif.C16
