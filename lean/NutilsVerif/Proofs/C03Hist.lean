import NutilsVerif.Proofs.C03Safe
/-! C03 — calls and histories -/
namespace NutilsVerif.C03
variable {D : Type}

/-- the cached state, with every array object in the globals safe to hand out -/
def CachedS (c : Ctx) (Kfin st : St D) : Prop := Cached c Kfin st ∧ SafeAll c st

theorem call_rerun_safe (I : Interp D) (p : Prog) (O : Var → List Loc) (cd : Var → D × Bool) (dflt : D) (hH : Hyp p O)
    (hKe : (cacheSt I p cd dflt).err = none) (st : St D) (hC : CachedS (mkCtx p O) (cacheSt I p cd dflt) st) (args : Args D) :
    (call I p dflt st args).2.res = fresh I p cd dflt args ∧
    CachedS (mkCtx p O) (cacheSt I p cd dflt) (call I p dflt st args).1 ∧
    (∀ r ∈ (call I p dflt st args).2.refs, SafeRef (mkCtx p O) r) := by
  have k := classes_of _ hH.cls
  obtain ⟨h1, h2⟩ := call_rerun I p O cd dflt hH hKe st hC.1 args
  have hmA : modeOf st = .rerun := by simp [modeOf, hC.1.first]
  have hsafe : SafeAll (mkCtx p O) (exec I args .rerun p.body (enter p dflt st args)) :=
    exec_rerun_safeAll I args _ k p.body _ (chk_wfK _ _ _ _ _ hH.body) (fun v r h => hC.2 v r h)
  refine ⟨h1, ⟨h2, ?_⟩, ?_⟩
  · intro v r hv
    simp only [call, hmA, leave] at hv
    split at hv
    · exact hsafe v r hv
    · exact hC.2 v r hv
  · intro r hr
    simp only [call, hmA] at hr
    obtain ⟨_, v, _, hv⟩ := outcome_refs I p _ r hr
    exact hsafe v r hv

/-! ## the first call -/

theorem shape_spec (s : Stmt) (h : shapeOK s = true) : ∃ m, s = .seq m (.op .skip .clear) ∧ noClear m = true := by
  unfold shapeOK at h
  split at h
  · next m => exact ⟨m, rfl, h⟩
  · cases h

theorem exec_noClear_first (I : Interp D) (args : Args D) (m : Mode) (s : Stmt) (st : St D) (h : noClear s = true) :
    (exec I args m s st).first = st.first := by
  refine exec_preserves I args m (fun st' => st'.first = st.first) (fun s => noClear s = true) ?_ ?_ ?_ ?_ ?_ s st h rfl
  · intro t b st' hq _ hP
    rw [execB_first I args b st' (by simpa [noClear] using hq), hP]
  · intro cnt i body j st' _ _ hP; rw [bindIdx_first, hP]
  · intro st' e hP; exact hP
  · intro s t hq; simpa [noClear] using hq
  · intro cnt i b hq; simpa [noClear] using hq

/-- after the first-run branch: `first_run` is False exactly when no exception escaped -/
theorem first_run_flag (I : Interp D) (args : Args D) (s : Stmt) (st : St D) (hs : shapeOK s = true) (hf : st.first = true) :
    (exec I args .first s st).first = ((exec I args .first s st).err).isSome := by
  obtain ⟨m, rfl, hm⟩ := shape_spec s hs
  simp only [exec, runs, if_true]
  have h1 := exec_noClear_first I args .first m st hm
  cases he : (exec I args .first m st).err with
  | some e => rw [execB_err I args .clear _ e he, he, h1, hf]; rfl
  | none => unfold execB; rw [he]; simp [he]

theorem init_safe (p : Prog) (O : Var → List Loc) (cd : Var → D × Bool) (dflt : D) (st : St D)
    (he : st.env = (initSt p cd dflt).env) : SafeOn (mkCtx p O) p.roconsts st := by
  intro _ v hv r hr
  rw [he] at hr
  simp only [initSt] at hr
  split at hr
  · cases hr
    left
    have : p.roconsts.contains v = true := by simpa using hv
    show ((cd v).2 && !p.roconsts.contains v) = false
    rw [this]; simp
  · cases hr

theorem cache_safe (I : Interp D) (p : Prog) (O : Var → List Loc) (cd : Var → D × Bool) (dflt : D) (hH : Hyp p O)
    (hKe : (cacheSt I p cd dflt).err = none) (v : Var) (hv : persists p v = true) (r : Ref)
    (hr : (cacheSt I p cd dflt).env v = some r) : SafeRef (mkCtx p O) r := by
  have h := exec_safe I (fun _ => none) (mkCtx p O) .cache p.body p.roconsts (initSt p cd dflt) (init_safe p O cd dflt _ rfl)
  have hpro := hH.pro
  simp only [persistRO, List.all_eq_true, List.contains_eq_mem, decide_eq_true_eq, List.mem_append] at hpro
  refine h hKe v (hpro v ?_) r hr
  simpa [persists, mkCtx] using hv

/-- **the first call**: if no exception escapes, the globals are afterwards the canonical cached state, and every array
handed out is safe -/
theorem call_first (I : Interp D) (p : Prog) (O : Var → List Loc) (cd : Var → D × Bool) (dflt : D) (hH : Hyp p O)
    (hKe : (cacheSt I p cd dflt).err = none) (args : Args D)
    (hok : (exec I args .first p.body (enter p dflt (initSt p cd dflt) args)).err = none) :
    CachedS (mkCtx p O) (cacheSt I p cd dflt) (call I p dflt (initSt p cd dflt) args).1 ∧
    (∀ r ∈ (call I p dflt (initSt p cd dflt) args).2.refs, SafeRef (mkCtx p O) r) := by
  have k := classes_of _ hH.cls
  have hmB : modeOf (initSt p cd dflt) = .first := by simp [modeOf, initSt]
  have hwf := chk_wfK _ _ _ _ _ hH.body
  have hinitO := init_origin p O k cd dflt
  have hKO : OriginInv O (cacheSt I p cd dflt) := exec_origin_K I _ .cache (mkCtx p O) p.body _ hwf hinitO
  -- a phantom rerun from the canonical cached state
  let P : St D := { env := fun v => if persists p v then (cacheSt I p cd dflt).env v else none,
                    heap := (cacheSt I p cd dflt).heap, first := false, err := none }
  have hPC : Cached (mkCtx p O) (cacheSt I p cd dflt) P := by
    refine ⟨rfl, rfl, ⟨?_, fun _ _ _ _ => rfl⟩, ?_, ?_⟩
    · intro v hv; simp only [P]; rw [← mkCtx_persists p O, hv]; rfl
    · intro v r hv
      simp only [P] at hv
      split at hv
      · exact hKO v r hv
      · cases hv
    · intro v hv; simp only [P]; rw [← mkCtx_persists p O, hv]; rfl
  obtain ⟨herr, hP, hLive⟩ := run_sim I p O cd dflt hH hKe P hPC args
  have hA : (exec I args .rerun p.body (enter p dflt P args)).err = none := herr.trans hok
  have hL := hLive hA
  have hB1O := hL.oB
  have hsafeB := exec_safe I args (mkCtx p O) .first p.body p.roconsts (enter p dflt (initSt p cd dflt) args)
    (init_safe p O cd dflt _ rfl)
  constructor
  · refine ⟨⟨?_, rfl, ⟨?_, ?_⟩, ?_, ?_⟩, ?_⟩
    · simp only [call, hmB, leave]
      rw [first_run_flag I args p.body _ hH.shape (by simp [initSt]), hok]; rfl
    · intro v hv
      simp only [call, hmB, leave]
      rw [← mkCtx_persists p O, hv]
      exact hL.eBK v ((k.pers hv).elim Or.inl (fun h => Or.inr (Or.inr h)))
    · intro v r hv hl
      simp only [call, hmB, leave] at hv ⊢
      exact hL.hBK r.loc (Or.inl hl)
    · intro v r hv
      simp only [call, hmB, leave] at hv
      split at hv
      · exact hB1O v r hv
      · exact hinitO v r hv
    · intro v hv
      simp only [call, hmB, leave]
      rw [← mkCtx_persists p O, hv]
      simp only [initSt, Bool.false_eq_true, if_false]
      by_cases hc : v ∈ p.consts
      · exfalso; simp [Ctx.persists, mkCtx, hc] at hv
      · simp [hc]
    · intro v r hv
      simp only [call, hmB, leave] at hv
      split at hv
      · next hp =>
        have hp' : (mkCtx p O).persists v = true := hp
        rw [hL.eBK v ((k.pers hp').elim Or.inl (fun h => Or.inr (Or.inr h)))] at hv
        exact cache_safe I p O cd dflt hH hKe v hp r hv
      · simp only [initSt] at hv
        split at hv
        · next hc => exfalso; rename_i hnp; apply hnp; simp [persists, hc]
        · cases hv
  · intro r hr
    simp only [call, hmB] at hr
    obtain ⟨_, v, hv, hev⟩ := outcome_refs I p _ r hr
    have hret := hH.h3c
    simp only [retOK, List.all_eq_true, Bool.or_eq_true, List.contains_eq_mem, decide_eq_true_eq, Bool.not_eq_true'] at hret
    rcases hret v hv with h | h
    · exact Or.inr (h _ (hB1O v r hev))
    · exact hsafeB hok v h r hev


/-! ## histories -/

structure HInv (I : Interp D) (p : Prog) (O : Var → List Loc) (cd : Var → D × Bool) (dflt : D) (h : HSt D) : Prop where
  st : CachedS (mkCtx p O) (cacheSt I p cd dflt) h.st
  held : ∀ r ∈ h.held, SafeRef (mkCtx p O) r
  log : ∀ e ∈ h.log, e.2 = fresh I p cd dflt e.1

theorem step_inv (I : Interp D) (p : Prog) (O : Var → List Loc) (cd : Var → D × Bool) (dflt : D) (hH : Hyp p O)
    (hKe : (cacheSt I p cd dflt).err = none) (h : HSt D) (hI : HInv I p O cd dflt h) (e : Event D) :
    HInv I p O cd dflt (step I p dflt h e) := by
  cases e with
  | call args =>
    obtain ⟨h1, h2, h3⟩ := call_rerun_safe I p O cd dflt hH hKe h.st hI.st args
    simp only [step]
    refine ⟨h2, ?_, ?_⟩
    · intro r hr
      simp only [List.mem_append] at hr
      exact hr.elim (h3 r) (hI.held r)
    · intro e he
      simp only [List.mem_cons] at he
      rcases he with he | he
      · rw [he]; exact h1
      · exact hI.log e he
  | uwrite l d =>
    simp only [step]
    split
    · next hp =>
      -- some writable array object handed out earlier lives in buffer `l`: then `l` is not a cached buffer
      have hl : (mkCtx p O).cloc l = false := by
        simp only [permitted, List.any_eq_true, Bool.and_eq_true, decide_eq_true_eq] at hp
        obtain ⟨r, hr, hw, hloc⟩ := hp
        rcases hI.held r hr with h | h
        · rw [hw] at h; cases h
        · rw [← hloc]; exact h
      refine ⟨⟨⟨hI.st.1.first, hI.st.1.err, ⟨hI.st.1.pers.env, ?_⟩, hI.st.1.origin, hI.st.1.locals⟩, hI.st.2⟩, hI.held, hI.log⟩
      intro v r hv hl'
      simp only [setHeap_heap, setHeap_env] at hv ⊢
      split
      · next e => rw [e, hl] at hl'; cases hl'
      · exact hI.st.1.pers.heap v r hv hl'
    · exact hI

theorem runHist_inv (I : Interp D) (p : Prog) (O : Var → List Loc) (cd : Var → D × Bool) (dflt : D) (hH : Hyp p O)
    (hKe : (cacheSt I p cd dflt).err = none) : ∀ (es : List (Event D)) (h : HSt D), HInv I p O cd dflt h →
    HInv I p O cd dflt (runHist I p dflt h es)
  | [], h, hI => hI
  | e :: es, h, hI => runHist_inv I p O cd dflt hH hKe es _ (step_inv I p O cd dflt hH hKe h hI e)

/-! ## the caller's arrays; cached buffers on a rerun -/

theorem call_arg_frame (I : Interp D) (p : Prog) (O : Var → List Loc) (dflt : D) (hH : Hyp p O) (st : St D)
    (ho : OriginInv O st) (args : Args D) (a : Nat) :
    (call I p dflt st args).1.heap (.arg a) = (enter p dflt st args).heap (.arg a) := by
  simp only [call, leave]
  exact exec_argframe I args _ (mkCtx p O) p.body _ a (chk_wfO _ _ _ _ _ hH.body) (fun v r h => ho v r h)

def wfR (c : Ctx) : Stmt → Bool :=
  allOps (fun t b => t == .skip || (wfKop c t b && match b with | .write dst _ _ => (c.O dst).all (fun l => !c.cloc l) | _ => true))
    (fun cnt i b => wfKloop c cnt i b)

theorem chk_wfR (c : Ctx) : ∀ (s : Stmt) (Dv : List Var) (Wl : List Loc) (Wv : List Var),
    chk c s Dv Wl Wv = true → wfR c s = true := by
  intro s
  induction s with
  | nop => intros; rfl
  | op t b =>
    intro Dv Wl Wv h
    have hk := chkOp_wfK c Dv Wl Wv t b h
    simp only [chk, chkOp, Bool.and_eq_true] at h
    simp only [wfR, allOps, Bool.or_eq_true, beq_iff_eq, Bool.and_eq_true]
    cases t with
    | skip => exact Or.inl rfl
    | shared => right; refine ⟨hk, ?_⟩; cases b <;> simp_all
    | rerun =>
      right; refine ⟨hk, ?_⟩
      cases b <;> try trivial
      rename_i dst op srcs
      simp only [List.all_eq_true, Bool.and_eq_true] at h ⊢
      intro l hl; exact (h.2.2 l hl).1.1
  | seq s t ihs iht =>
    intro Dv Wl Wv h
    simp only [chk, Bool.and_eq_true] at h
    simp only [wfR, allOps, Bool.and_eq_true]
    exact ⟨ihs _ _ _ h.1, iht _ _ _ h.2⟩
  | loop cnt i body ih =>
    intro Dv Wl Wv h
    have hk := chk_wfK c _ _ _ _ h
    simp only [chk, Bool.and_eq_true] at h
    simp only [wfR, allOps, Bool.and_eq_true]
    exact ⟨(wfK_loop c cnt i body hk).1, ih _ _ _ h.2⟩

/-- a rerun never changes a cached buffer -/
theorem exec_rerun_cframe (I : Interp D) (args : Args D) (c : Ctx) (k : Classes c) (s : Stmt) (st : St D) (l : Loc)
    (hs : wfR c s = true) (ho : OriginInv c.O st) (hl : c.cloc l = true) :
    (exec I args .rerun s st).heap l = st.heap l := by
  have := exec_preserves I args .rerun (fun st' => OriginInv c.O st' ∧ st'.heap l = st.heap l)
    (fun s => wfR c s = true) ?_ ?_ ?_ ?_ ?_ s st hs ⟨ho, rfl⟩
  · exact this.2
  · intro t b st' hq hr hP
    have hq' := hq
    simp only [wfR, allOps, Bool.or_eq_true, beq_iff_eq, Bool.and_eq_true] at hq'
    rcases hq' with h | ⟨hk, hw⟩
    · subst h; simp [runs] at hr
    · refine ⟨execB_origin I args c b st' (wfK_wfO_op c t b hk) hP.1, ?_⟩
      cases herr : st'.err with
      | some e => rw [execB_err I args b st' e herr]; exact hP.2
      | none =>
        rw [execB_eq I args b st' herr, applyEff_heap_frame]
        · exact hP.2
        · intro l' d hu e; subst e
          rcases effB_heapUpd I args b st' l d hu with ⟨x, hx, rfl⟩ | ⟨dst, op, srcs, r, hb, hr', rfl⟩
          · have : c.cloc (.var x) = false := by
              cases t with
              | skip => simp [runs] at hr
              | shared =>
                simp only [wfKop, Bool.and_eq_true, List.all_eq_true, List.contains_eq_mem, decide_eq_true_eq] at hk
                exact k.ncloc_of_sh (hk.2.1 x hx)
              | rerun =>
                simp only [wfKop, Bool.and_eq_true, List.all_eq_true, List.contains_eq_mem, decide_eq_true_eq] at hk
                exact (nloc_ncloc (k.nloc_of_ns (hk.2 x hx))).1
            rw [this] at hl; cases hl
          · subst hb
            simp only [List.all_eq_true, Bool.not_eq_true'] at hw
            rw [hw _ (hP.1 dst r hr')] at hl; cases hl
  · intro cnt i body j st' hq hr hP
    have hq2 := hq
    simp only [wfR, allOps, Bool.and_eq_true] at hq2
    have hl' := hq2.1
    simp only [wfKloop, Bool.and_eq_true] at hl'
    refine ⟨bindIdx_origin I c i j st' hl'.1 hP.1, ?_⟩
    unfold bindIdx; split
    · exact hP.2
    · simp only [alloc_heap]
      split
      · next e =>
        subst e; exfalso
        cases ht : loopTag body with
        | skip => have := (loopTag_skip ht).2; simp [loopRuns, this] at hr
        | shared => rw [ht] at hl'; rw [k.ncloc_of_sh (by simpa using hl'.2)] at hl; cases hl
        | rerun => rw [ht] at hl'; rw [(nloc_ncloc (k.nloc_of_ns (by simpa using hl'.2))).1] at hl; cases hl
      · exact hP.2
  · intro st' e hP; exact hP
  · intro s t hq; simpa [wfR, allOps] using hq
  · intro cnt i b hq; exact (by simpa [wfR, allOps] using hq : _ ∧ _).2

end NutilsVerif.C03
