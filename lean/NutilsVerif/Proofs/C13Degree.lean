import NutilsVerif.Proofs.C13Subst
import NutilsVerif.Proofs.C13Factor
/-!
# C13 (d): expansion of polynomial expressions, `argument_degree` is an upper bound
-/
namespace NutilsVerif.C13
namespace Expr

theorem eval_scale (x : Nat → Rat) (q : Rat) (p : MPoly) : MPoly.eval x (MPoly.scale q p) = q * MPoly.eval x p := by
  induction p with
  | nil => simp [MPoly.scale]
  | cons t rest ih =>
    simp only [MPoly.scale, List.map_cons] at ih ⊢
    rw [MPoly.eval_cons, MPoly.eval_cons, ih]; ring

theorem eval_mulTerm (x : Nat → Rat) (c : Rat) (m : Mono) (p : MPoly) :
    MPoly.eval x (p.map fun t => (c * t.1, m ++ t.2)) = c * MPoly.evalMono x m * MPoly.eval x p := by
  induction p with
  | nil => simp
  | cons t rest ih =>
    simp only [List.map_cons]
    rw [MPoly.eval_cons, MPoly.eval_cons, ih, MPoly.evalMono_append]; ring

theorem eval_mulPoly (x : Nat → Rat) (p q : MPoly) :
    MPoly.eval x (p.flatMap fun t => q.map fun t' => (t.1 * t'.1, t.2 ++ t'.2)) = MPoly.eval x p * MPoly.eval x q := by
  induction p with
  | nil => simp
  | cons t rest ih =>
    simp only [List.flatMap_cons]
    rw [MPoly.eval_append, ih, eval_mulTerm, MPoly.eval_cons]; ring

/-- the expansion into monomials has the value of the expression -/
theorem toMPoly_eval (I : String → List Rat → Rat) (x : Nat → Rat) (e : Expr Nat) (hp : isPoly e = true) :
    MPoly.eval x (toMPoly e) = eval I x e := by
  induction e using Expr.ind with
  | hvar v => simp [toMPoly, eval, MPoly.eval_cons, MPoly.evalMono_eq]
  | hconst c => simp [toMPoly, eval, MPoly.eval_cons, MPoly.evalMono_eq]
  | hadd a b ha hb =>
    simp only [isPoly, Bool.and_eq_true] at hp
    simp [toMPoly, eval, MPoly.eval_append, ha hp.1, hb hp.2]
  | hmul a b ha hb =>
    simp only [isPoly, Bool.and_eq_true] at hp
    simp only [toMPoly, eval]
    rw [← ha hp.1, ← hb hp.2]
    exact eval_mulPoly x _ _
  | hneg a ha =>
    simp only [isPoly] at hp
    simp [toMPoly, eval, eval_scale, ha hp]
  | happ f args _ => simp [isPoly] at hp

theorem toMPoly_vars (e : Expr Nat) : ∀ t ∈ toMPoly e, ∀ v ∈ t.2, v ∈ freeVars e := by
  induction e using Expr.ind with
  | hvar v => intro t ht; simp [toMPoly] at ht; subst ht; simp [freeVars]
  | hconst c => intro t ht; simp [toMPoly] at ht; subst ht; simp
  | hadd a b ha hb =>
    intro t ht v hv
    simp only [toMPoly, List.mem_append] at ht
    simp only [freeVars, List.mem_append]
    rcases ht with ht | ht
    · exact Or.inl (ha t ht v hv)
    · exact Or.inr (hb t ht v hv)
  | hmul a b ha hb =>
    intro t ht v hv
    simp only [toMPoly, List.mem_flatMap, List.mem_map] at ht
    obtain ⟨ta, hta, tb, htb, rfl⟩ := ht
    simp only [freeVars, List.mem_append] at hv ⊢
    rcases hv with hv | hv
    · exact Or.inl (ha ta hta v hv)
    · exact Or.inr (hb tb htb v hv)
  | hneg a ha =>
    intro t ht v hv
    simp only [toMPoly, MPoly.scale, List.mem_map] at ht
    obtain ⟨t', ht', rfl⟩ := ht
    simp only [freeVars]
    exact ha t' ht' v hv
  | happ f args _ => intro t ht; simp [toMPoly] at ht

/-- **`argument_degree` is an upper bound**: no monomial of the expansion contains `x` more often than reported
(cancellation can only lower the true degree further) -/
theorem argDegree_upper (x : Nat) (e : Expr Nat) : ∀ d, argDegree x e = some d →
    ∀ t ∈ toMPoly e, t.2.count x ≤ d := by
  induction e using Expr.ind with
  | hvar v =>
    intro d hd t ht
    simp [toMPoly] at ht; subst ht
    simp only [argDegree, Option.some.injEq] at hd; subst hd
    by_cases h : v = x <;> simp [h]
  | hconst c => intro d hd t ht; simp [toMPoly] at ht; subst ht; simp
  | hadd a b ha hb =>
    intro d hd t ht
    simp only [argDegree] at hd
    cases h1 : argDegree x a with
    | none => simp [h1] at hd
    | some da =>
      cases h2 : argDegree x b with
      | none => simp [h1, h2] at hd
      | some db =>
        simp [h1, h2] at hd; subst hd
        simp only [toMPoly, List.mem_append] at ht
        rcases ht with ht | ht
        · exact Nat.le_trans (ha da h1 t ht) (Nat.le_max_left _ _)
        · exact Nat.le_trans (hb db h2 t ht) (Nat.le_max_right _ _)
  | hmul a b ha hb =>
    intro d hd t ht
    simp only [argDegree] at hd
    cases h1 : argDegree x a with
    | none => simp [h1] at hd
    | some da =>
      cases h2 : argDegree x b with
      | none => simp [h1, h2] at hd
      | some db =>
        simp [h1, h2] at hd; subst hd
        simp only [toMPoly, List.mem_flatMap, List.mem_map] at ht
        obtain ⟨ta, hta, tb, htb, rfl⟩ := ht
        simp only [List.count_append]
        exact Nat.add_le_add (ha da h1 ta hta) (hb db h2 tb htb)
  | hneg a ha =>
    intro d hd t ht
    simp only [argDegree] at hd
    simp only [toMPoly, MPoly.scale, List.mem_map] at ht
    obtain ⟨t', ht', rfl⟩ := ht
    exact ha d hd t' ht'
  | happ f args _ => intro d _ t ht; simp [toMPoly] at ht

/-- consequence used by `factor` (`assert n <= degree[arg]`): differentiating more often than the reported
degree gives the zero polynomial, term by term -/
theorem deriv_count_zero (x : Nat) (p : MPoly) (h : ∀ t ∈ p, t.2.count x = 0) :
    ∀ t ∈ MPoly.deriv x p, t.1 = 0 := by
  intro t ht
  simp only [MPoly.deriv, List.mem_map] at ht
  obtain ⟨t', ht', rfl⟩ := ht
  simp [h t' ht']

end Expr
end NutilsVerif.C13
