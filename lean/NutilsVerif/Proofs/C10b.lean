import NutilsVerif.Proofs.C10a
/-!
# C10 (b) — helper lemmas: faces of a cell subset of a structured (optionally periodic) grid
-/
namespace NutilsVerif.C10

/-! ### `getD` / `set` -/

theorem getD_set_self (l : List Nat) (k a : Nat) (h : k < l.length) : (l.set k a).getD k 0 = a := by
  simp [List.getD_eq_getElem?_getD, h]

theorem getD_set_ne (l : List Nat) {j k : Nat} (a : Nat) (h : k ≠ j) : (l.set k a).getD j 0 = l.getD j 0 := by
  simp [List.getD_eq_getElem?_getD, h]

theorem set_getD_self (l : List Nat) (k : Nat) : l.set k (l.getD k 0) = l := by
  apply List.ext_getElem?
  intro j
  by_cases h : k = j
  · subst h
    by_cases hk : k < l.length
    · simp [hk, List.getD_eq_getElem?_getD]
    · simp [hk]
  · simp [h]

/-! ### the grid -/

theorem mem_cells {g : Grid} {i : List Nat} :
    i ∈ g.cells ↔ i.length = g.dim ∧ ∀ k, k < g.dim → i.getD k 0 < g.shape.getD k 0 := mem_multiIndices

theorem set_mem_cells {g : Grid} {i : List Nat} (hi : i ∈ g.cells) {k a : Nat} (hk : k < g.dim)
    (ha : a < g.shape.getD k 0) : i.set k a ∈ g.cells := by
  rw [mem_cells] at hi ⊢
  refine ⟨by simp [hi.1], fun j hj => ?_⟩
  by_cases h : k = j
  · subst h; rw [getD_set_self _ _ _ (by omega)]; exact ha
  · rw [getD_set_ne _ _ h]; exact hi.2 j hj

theorem up_down {g : Grid} {k : Nat} (hk : k < g.dim) {i j : List Nat} (hi : i ∈ g.cells)
    (h : g.up k i = some j) : j ∈ g.cells ∧ g.down k j = some i := by
  have hlen : k < i.length := by rw [(mem_cells.1 hi).1]; exact hk
  have hv := (mem_cells.1 hi).2 k hk
  unfold Grid.up at h
  split at h
  · rename_i h1
    cases h
    refine ⟨set_mem_cells hi hk h1, ?_⟩
    unfold Grid.down
    rw [getD_set_self _ _ _ hlen]
    simp only [Nat.zero_lt_succ, if_true, Nat.add_sub_cancel, List.set_set]
    rw [set_getD_self]
  · rename_i h1
    split at h
    · rename_i hp
      cases h
      refine ⟨set_mem_cells hi hk (by omega), ?_⟩
      unfold Grid.down
      rw [getD_set_self _ _ _ hlen]
      simp only [Nat.lt_irrefl, if_false, hp, if_true, List.set_set]
      have : g.shape.getD k 0 - 1 = i.getD k 0 := by omega
      rw [this, set_getD_self]
    · cases h

theorem down_up {g : Grid} {k : Nat} (hk : k < g.dim) {i j : List Nat} (hi : i ∈ g.cells)
    (h : g.down k i = some j) : j ∈ g.cells ∧ g.up k j = some i := by
  have hlen : k < i.length := by rw [(mem_cells.1 hi).1]; exact hk
  have hv := (mem_cells.1 hi).2 k hk
  unfold Grid.down at h
  split at h
  · rename_i h1
    cases h
    refine ⟨set_mem_cells hi hk (by omega), ?_⟩
    unfold Grid.up
    rw [getD_set_self _ _ _ hlen]
    have e : i.getD k 0 - 1 + 1 = i.getD k 0 := by omega
    simp only [e, hv, if_true, List.set_set]
    rw [set_getD_self]
  · rename_i h1
    split at h
    · rename_i hp
      cases h
      refine ⟨set_mem_cells hi hk (by omega), ?_⟩
      unfold Grid.up
      rw [getD_set_self _ _ _ hlen]
      have e : ¬ (g.shape.getD k 0 - 1 + 1 < g.shape.getD k 0) := by omega
      simp only [e, if_false, hp, if_true, List.set_set]
      have : 0 = i.getD k 0 := by omega
      rw [this, set_getD_self]
    · cases h

/-- the neighbour relation is symmetric and stays inside the grid -/
theorem nbr_symm {g : Grid} {k : Nat} (hk : k < g.dim) {i j : List Nat} (hi : i ∈ g.cells) {s : Bool}
    (h : g.nbr k s i = some j) : j ∈ g.cells ∧ g.nbr k (!s) j = some i := by
  cases s with
  | true => simpa [Grid.nbr] using up_down hk hi (by simpa [Grid.nbr] using h)
  | false => simpa [Grid.nbr] using down_up hk hi (by simpa [Grid.nbr] using h)

/-! ### sides -/

theorem mem_sides {d k : Nat} {s : Bool} : (k, s) ∈ sides d ↔ k < d := by
  unfold sides
  simp only [List.mem_flatMap, List.mem_range, List.mem_cons, Prod.mk.injEq, List.mem_nil_iff, or_false]
  constructor
  · rintro ⟨a, ha, h | h⟩ <;> (rw [h.1]; exact ha)
  · intro h
    refine ⟨k, h, ?_⟩
    cases s <;> simp

theorem nodup_sides (d : Nat) : (sides d).Nodup := by
  unfold sides List.Nodup
  rw [List.pairwise_flatMap]
  constructor
  · intro a _; simp
  · have : (List.range d).Pairwise (· ≠ ·) := List.nodup_range
    refine this.imp (fun {a b} hab x hx y hy hxy => ?_)
    simp only [List.mem_cons, List.mem_nil_iff, or_false] at hx hy
    rcases hx with rfl | rfl <;> rcases hy with rfl | rfl <;> simp_all

/-! ### generic list facts -/

theorem nodup_flatMap_tagged {α β : Type} (l : List α) (hl : l.Nodup) (f : α → List β) (tag : β → α)
    (hf : ∀ a ∈ l, (f a).Nodup) (ht : ∀ a ∈ l, ∀ x ∈ f a, tag x = a) : (l.flatMap f).Nodup := by
  unfold List.Nodup
  rw [List.pairwise_flatMap]
  refine ⟨hf, ?_⟩
  have hl' : l.Pairwise (fun a b => a ∈ l ∧ b ∈ l ∧ a ≠ b) :=
    List.Pairwise.imp_of_mem (fun ha hb h => ⟨ha, hb, h⟩) hl
  refine hl'.imp (fun {a b} hab x hx y hy hxy => ?_)
  have h1 := ht a hab.1 x hx
  have h2 := ht b hab.2.1 y hy
  rw [hxy] at h1
  exact hab.2.2 (h1.symm.trans h2)

theorem length_filter_and_add {α : Type} (l : List α) (p q : α → Bool) :
    (l.filter fun a => p a && q a).length + (l.filter fun a => p a && !q a).length = (l.filter p).length := by
  induction l with
  | nil => rfl
  | cons a t ih =>
    simp only [List.filter_cons]
    cases hp : p a <;> cases hq : q a <;> simp <;> omega

theorem length_filter_flatMap {α β : Type} (l : List α) (f : α → List β) (P : β → Bool) (Q : α → Bool)
    (h : ∀ a ∈ l, ((f a).filter P).length = if Q a then 1 else 0) :
    ((l.flatMap f).filter P).length = (l.filter Q).length := by
  induction l with
  | nil => rfl
  | cons a t ih =>
    rw [List.flatMap_cons, List.filter_append, List.length_append, h a List.mem_cons_self,
      ih (fun b hb => h b (List.mem_cons_of_mem _ hb)), List.filter_cons]
    split <;> simp <;> omega

theorem length_filter_eq_of_nodup {β : Type} [DecidableEq β] (l : List β) (hl : l.Nodup) (x : β) (p : β → Bool) :
    (l.filter fun y => p y && decide (y = x)).length = if x ∈ l ∧ p x then 1 else 0 := by
  induction l with
  | nil => simp
  | cons a t ih =>
    rw [List.nodup_cons] at hl
    rw [List.filter_cons]
    by_cases hax : a = x
    · subst hax
      have hnot : ¬ (a ∈ t ∧ p a = true) := fun h => hl.1 h.1
      have := ih hl.2
      rw [if_neg hnot] at this
      cases hp : p a <;> simp [this]
    · have := ih hl.2
      have e : (a = x) = False := by simp [hax]
      simp only [hax, decide_false, Bool.and_false, Bool.false_eq_true, if_false, this, List.mem_cons]
      have : (x = a) = False := by simp [Ne.symm hax]
      simp [this]

/-- counting through a partial bijection: the number of selected cells whose `up`-neighbour is selected equals
the number of selected cells whose `down`-neighbour is selected -/
theorem length_filter_up_eq_down {α : Type} [DecidableEq α] (C : List α) (hC : C.Nodup) (S : α → Bool)
    (up down : α → Option α)
    (hud : ∀ a ∈ C, ∀ b, up a = some b → b ∈ C ∧ down b = some a)
    (hdu : ∀ b ∈ C, ∀ a, down b = some a → a ∈ C ∧ up a = some b) :
    (C.filter fun a => S a && (up a).any S).length = (C.filter fun b => S b && (down b).any S).length := by
  let A := C.filter fun a => S a && (up a).any S
  let B := C.filter fun b => S b && (down b).any S
  have hA : ∀ a, a ∈ A ↔ a ∈ C ∧ S a = true ∧ ∃ b, up a = some b ∧ S b = true := by
    intro a
    simp only [A, List.mem_filter, Bool.and_eq_true, Option.any_eq_true]
  have hB : ∀ b, b ∈ B ↔ b ∈ C ∧ S b = true ∧ ∃ a, down b = some a ∧ S a = true := by
    intro b
    simp only [B, List.mem_filter, Bool.and_eq_true, Option.any_eq_true]
  have hlen : (A.filterMap up).length = A.length := by
    have : ∀ l : List α, (∀ a ∈ l, ∃ b, up a = some b) → (l.filterMap up).length = l.length := by
      intro l
      induction l with
      | nil => intro _; rfl
      | cons a t ih =>
        intro h
        obtain ⟨b, hb⟩ := h a List.mem_cons_self
        rw [List.filterMap_cons, hb]
        simp [ih (fun x hx => h x (List.mem_cons_of_mem _ hx))]
    exact this A (fun a ha => let ⟨_, _, b, hb, _⟩ := (hA a).1 ha; ⟨b, hb⟩)
  have hAn : A.Nodup := hC.filter _
  have hBn : B.Nodup := hC.filter _
  have hFn : (A.filterMap up).Nodup := by
    have hA' : A.Pairwise (fun a b => a ∈ A ∧ b ∈ A ∧ a ≠ b) :=
      List.Pairwise.imp_of_mem (fun ha hb h => ⟨ha, hb, h⟩) hAn
    refine List.Pairwise.filterMap up (fun a a' haa b hb b' hb' hbb => ?_) hA'
    have h1 := (hud a ((hA a).1 haa.1).1 b hb).2
    have h2 := (hud a' ((hA a').1 haa.2.1).1 b' hb').2
    rw [hbb] at h1
    rw [h1] at h2
    exact haa.2.2 (Option.some.inj h2)
  have hperm : (A.filterMap up).Perm B := by
    rw [List.perm_ext_iff_of_nodup hFn hBn]
    intro b
    rw [List.mem_filterMap, hB]
    constructor
    · rintro ⟨a, ha, hab⟩
      obtain ⟨haC, hSa, b', hb', hSb'⟩ := (hA a).1 ha
      rw [hab] at hb'; cases hb'
      obtain ⟨hbC, hdown⟩ := hud a haC b hab
      exact ⟨hbC, hSb', a, hdown, hSa⟩
    · rintro ⟨hbC, hSb, a, hdown, hSa⟩
      obtain ⟨haC, hup⟩ := hdu b hbC a hdown
      exact ⟨a, (hA a).2 ⟨haC, hSa, b, hup, hSb⟩, hup⟩
  show A.length = B.length
  rw [← hlen, hperm.length_eq]

/-! ### boundary -/

theorem isBnd_eq (g : Grid) (S : List Nat → Bool) (i : List Nat) (k : Nat) (s : Bool) :
    g.isBnd S i (k, s) = !((g.nbr k s i).any S) := by
  unfold Grid.isBnd
  cases g.nbr k s i <;> simp

theorem mem_boundary {g : Grid} {S : List Nat → Bool} {i : List Nat} {k : Nat} {s : Bool} :
    (i, k, s) ∈ g.boundary S ↔ i ∈ g.cells ∧ S i = true ∧ k < g.dim ∧ g.isBnd S i (k, s) = true := by
  unfold Grid.boundary
  simp only [List.mem_flatMap]
  constructor
  · rintro ⟨a, ha, h⟩
    split at h
    · rename_i hS
      obtain ⟨ks, hks, heq⟩ := List.mem_map.1 h
      obtain ⟨hks1, hks2⟩ := List.mem_filter.1 hks
      cases heq
      exact ⟨ha, hS, mem_sides.1 hks1, hks2⟩
    · cases h
  · rintro ⟨hi, hS, hk, hb⟩
    refine ⟨i, hi, ?_⟩
    rw [if_pos hS]
    exact List.mem_map.2 ⟨(k, s), List.mem_filter.2 ⟨mem_sides.2 hk, hb⟩, rfl⟩

theorem nodup_boundary (g : Grid) (S : List Nat → Bool) : (g.boundary S).Nodup := by
  unfold Grid.boundary
  apply nodup_flatMap_tagged _ (nodup_multiIndices _) _ (fun f => f.1)
  · intro a _
    split
    · unfold List.Nodup
      rw [List.pairwise_map]
      have hs : ((sides g.dim).filter (g.isBnd S a)).Pairwise (· ≠ ·) := (nodup_sides g.dim).filter _
      refine hs.imp (fun {x y} hxy h => hxy ?_)
      obtain ⟨x1, x2⟩ := x; obtain ⟨y1, y2⟩ := y
      simp only [Prod.mk.injEq, true_and] at h
      simp [h.1, h.2]
    · exact List.nodup_nil
  · intro a _ x hx
    split at hx
    · obtain ⟨ks, _, rfl⟩ := List.mem_map.1 hx; rfl
    · cases hx

theorem bndCount_eq (g : Grid) (S : List Nat → Bool) {k : Nat} (hk : k < g.dim) (s : Bool) :
    g.bndCount S k s = (g.cells.filter fun i => S i && !((g.nbr k s i).any S)).length := by
  unfold Grid.bndCount Grid.boundary
  apply length_filter_flatMap
  intro i _
  cases hS : S i
  · simp
  · simp only [if_true, Bool.true_and]
    rw [List.filter_map, List.length_map, List.filter_filter]
    have := length_filter_eq_of_nodup (sides g.dim) (nodup_sides _) (k, s) (g.isBnd S i)
    have e : (fun ks : Nat × Bool => (((fun f : Face => f.2.1 == k && f.2.2 == s) ∘ fun ks => (i, ks.1, ks.2)) ks && g.isBnd S i ks))
        = fun y => g.isBnd S i y && decide (y = (k, s)) := by
      funext ks
      obtain ⟨a, b⟩ := ks
      simp only [Function.comp, Prod.mk.injEq]
      rw [Bool.and_comm]
      congr 1
      by_cases h1 : a = k <;> by_cases h2 : b = s <;> simp [h1, h2]
    rw [e, this, isBnd_eq]
    simp [mem_sides, hk]

/-! ### interfaces -/

theorem mem_interfaces {g : Grid} {S : List Nat → Bool} {i j : List Nat} {k : Nat} {s : Bool} :
    (i, k, s, j) ∈ g.interfaces S ↔
      i ∈ g.cells ∧ S i = true ∧ k < g.dim ∧ g.nbr k s i = some j ∧ S j = true ∧ g.cells.idxOf j < g.cells.idxOf i := by
  unfold Grid.interfaces
  simp only [List.mem_flatMap]
  constructor
  · rintro ⟨a, ha, h⟩
    split at h
    · rename_i hS
      obtain ⟨ks, hks, heq⟩ := List.mem_filterMap.1 h
      unfold Grid.isInt at heq
      split at heq
      · cases heq
      · rename_i j' hj'
        split at heq
        · rename_i hc
          cases heq
          simp only [Bool.and_eq_true, decide_eq_true_eq] at hc
          exact ⟨ha, hS, mem_sides.1 hks, hj', hc.1, hc.2⟩
        · cases heq
    · cases h
  · rintro ⟨hi, hS, hk, hn, hSj, hlt⟩
    refine ⟨i, hi, ?_⟩
    rw [if_pos hS]
    refine List.mem_filterMap.2 ⟨(k, s), mem_sides.2 hk, ?_⟩
    unfold Grid.isInt
    simp only [hn, hSj, hlt, decide_true, Bool.and_self, if_true]

theorem isInt_tag {g : Grid} {S : List Nat → Bool} {i : List Nat} {ks : Nat × Bool} {f : IFace}
    (h : g.isInt S i ks = some f) : f.1 = i ∧ (f.2.1, f.2.2.1) = ks := by
  unfold Grid.isInt at h
  split at h
  · cases h
  · split at h
    · cases h; exact ⟨rfl, rfl⟩
    · cases h

theorem nodup_interfaces (g : Grid) (S : List Nat → Bool) : (g.interfaces S).Nodup := by
  unfold Grid.interfaces
  apply nodup_flatMap_tagged _ (nodup_multiIndices _) _ (fun f => f.1)
  · intro a _
    split
    · have hs : (sides g.dim).Pairwise (· ≠ ·) := nodup_sides g.dim
      exact List.Pairwise.filterMap _ (fun x y hxy b hb b' hb' hbb => by
        have h1 := (isInt_tag hb).2
        have h2 := (isInt_tag hb').2
        rw [hbb] at h1
        exact hxy (h1.symm.trans h2)) hs
    · exact List.nodup_nil
  · intro a _ x hx
    split at hx
    · obtain ⟨ks, _, h⟩ := List.mem_filterMap.1 hx
      exact (isInt_tag h).1
    · cases hx

end NutilsVerif.C10
