import NutilsVerif.Model.C05
/-!
# C05: `numeric.compress_indices` — accepted exactly on monotone in-range vectors, where it equals
`indices.searchsorted(arange(length+1))`  (no Mathlib)
-/
namespace NutilsVerif.C05
open NutilsVerif

/-- the step vector `[x₀ - prev, x₁ - x₀, …, n - x_last]` -/
def stepsFrom (prev : Int) : List Int → Int → List Int
  | [], n => [n - prev]
  | x :: t, n => (x - prev) :: stepsFrom x t n

/-- `prev ≤ x₀ ≤ x₁ ≤ … ≤ x_last ≤ n` -/
def chain (prev : Int) : List Int → Int → Prop
  | [], n => prev ≤ n
  | x :: t, n => prev ≤ x ∧ chain x t n

/-- `repeat(i, steps)` starting at value `i` -/
def repeatFrom (prev : Int) (i : Nat) : List Int → Int → List Int
  | [], n => List.replicate (n - prev).toNat (i : Int)
  | x :: t, n => List.replicate (x - prev).toNat (i : Int) ++ repeatFrom x (i+1) t n

theorem step_eq_stepsFrom : ∀ (a : Int) (t : List Int) (n : Int),
    List.zipWith (fun x y => y - x) (a :: t) t ++ [n - ((a :: t).getLast?.getD a)] = stepsFrom a t n
  | a, [], n => by simp [stepsFrom]
  | a, b :: t, n => by
    have ih := step_eq_stepsFrom b t n
    simp only [List.zipWith_cons_cons, List.cons_append, stepsFrom]
    have hd : ∀ d, (b :: t).getLast?.getD d = (b :: t).getLast (by simp) := fun d => by
      rw [List.getLast?_eq_some_getLast (by simp)]; rfl
    have hl : (a :: b :: t).getLast?.getD a = (b :: t).getLast?.getD b := by
      rw [List.getLast?_cons_cons, hd, hd]
    rw [hl, ih]

theorem flatten_zipIdx_steps : ∀ (idx : List Int) (prev : Int) (k : Nat) (n : Int),
    (((stepsFrom prev idx n).zipIdx k).map fun (s, i) => List.replicate s.toNat (i : Int)).flatten
      = repeatFrom prev k idx n
  | [], prev, k, n => by simp [stepsFrom, repeatFrom, List.zipIdx]
  | x :: t, prev, k, n => by
    simp only [stepsFrom, List.zipIdx_cons, List.map_cons, List.flatten_cons, repeatFrom]
    rw [flatten_zipIdx_steps t x (k+1) n]

theorem any_neg_stepsFrom : ∀ (idx : List Int) (prev n : Int),
    ((stepsFrom prev idx n).any (· < 0)) = false ↔ chain prev idx n
  | [], prev, n => by simp [stepsFrom, chain]
  | x :: t, prev, n => by
    simp only [stepsFrom, List.any_cons, Bool.or_eq_false_iff, chain, any_neg_stepsFrom t x n]
    simp <;> omega

theorem chain_lower : ∀ {idx : List Int} {prev n : Int}, chain prev idx n → ∀ y ∈ idx, prev ≤ y
  | [], _, _, _, y, hy => by simp at hy
  | x :: t, prev, n, h, y, hy => by
    rcases List.mem_cons.1 hy with rfl | hy
    · exact h.1
    · exact Int.le_trans h.1 (chain_lower h.2 y hy)

theorem chain_upper : ∀ {idx : List Int} {prev n : Int}, chain prev idx n → (∀ y ∈ idx, y ≤ n) ∧ prev ≤ n
  | [], _, _, h => ⟨by simp, h⟩
  | x :: t, prev, n, h => by
    have ih := chain_upper h.2
    refine ⟨fun y hy => ?_, Int.le_trans h.1 ih.2⟩
    rcases List.mem_cons.1 hy with rfl | hy
    · exact ih.2
    · exact ih.1 y hy

theorem filter_lt_nil {t : List Int} {k : Int} (h : ∀ y ∈ t, k ≤ y) : t.filter (· < k) = [] := by
  rw [List.filter_eq_nil_iff]; intro y hy; have := h y hy; simp; omega

/-- the heart: repeating `i, i+1, …` with the steps of a monotone vector counts, for every `k` in `(prev, n]`,
the entries below `k` -/
theorem repeatFrom_spec : ∀ (idx : List Int) (prev : Int) (i : Nat) (n : Int), chain prev idx n →
    repeatFrom prev i idx n =
      (List.range (n - prev).toNat).map fun (j : Nat) => (((i + (idx.filter (· < prev + 1 + j)).length : Nat)) : Int)
  | [], prev, i, n, _ => by
    simp [repeatFrom, List.map_const', List.length_range]
  | x :: t, prev, i, n, h => by
    obtain ⟨h1, h2⟩ := h
    have hxn := (chain_upper h2).2
    have ht := chain_lower h2
    have hsplit : (n - prev).toNat = (x - prev).toNat + (n - x).toNat := by omega
    rw [repeatFrom, repeatFrom_spec t x (i+1) n h2, hsplit, List.range_add, List.map_append, List.map_map]
    congr 1
    · -- positions up to x: nothing is below
      rw [eq_comm, List.eq_replicate_iff]
      refine ⟨by simp, fun b hb => ?_⟩
      obtain ⟨j, hj, rfl⟩ := List.mem_map.1 hb
      have hj := List.mem_range.1 hj
      have : (x :: t).filter (· < prev + 1 + (j : Int)) = [] :=
        filter_lt_nil fun y hy => by
          rcases List.mem_cons.1 hy with rfl | hy
          · omega
          · have := ht y hy; omega
      simp [this]
    · apply List.map_congr_left
      intro j _
      have hk : prev + 1 + (((x - prev).toNat + j : Nat) : Int) = x + 1 + (j : Int) := by omega
      simp only [Function.comp, hk]
      have hx : decide (x < x + 1 + (j : Int)) = true := by simp; omega
      rw [List.filter_cons, if_pos hx, List.length_cons]
      omega

theorem compress_eq_repeatFrom (idx : List Int) (n : Nat) (hne : idx ≠ [])
    (hb : ¬ (idx.head hne < 0 ∨ (idx.getLast hne) ≥ (n : Int)))
    (hs : chain (-1) idx n) : compressIndices idx n = .ok (repeatFrom (-1) 0 idx n) := by
  match idx, hne with
  | a :: t, _ =>
    have hlast : (a :: t).getLast?.getD a = (a :: t).getLast (by simp) := by
      rw [List.getLast?_eq_some_getLast (by simp)]; rfl
    simp only [List.head_cons] at hb
    have hb' : (decide (a < 0) || decide ((a :: t).getLast?.getD a ≥ (n : Int))) = false := by
      rw [hlast]; simp; omega
    have hstep : (a + 1) :: (List.zipWith (fun x y => y - x) (a :: t) (a :: t).tail ++ [(n : Int) - ((a :: t).getLast?.getD a)])
        = stepsFrom (-1) (a :: t) n := by
      rw [List.tail_cons, step_eq_stepsFrom a t n, stepsFrom]; congr 1 <;> omega
    have hany := (any_neg_stepsFrom (a :: t) (-1) n).2 hs
    simp only [compressIndices, hb', hstep, hany]
    simp only [Bool.false_eq_true, if_false]
    rw [← flatten_zipIdx_steps (a :: t) (-1) 0 n]

/-! ### monotone / in-range as propositions -/

theorem monotoneInt_iff_chain : ∀ (a : Int) (t : List Int) (n : Int),
    chain a t n ↔ (monotoneInt (a :: t) = true ∧ (a :: t).getLast (by simp) ≤ n)
  | a, [], n => by simp [chain, monotoneInt]
  | a, b :: t, n => by
    rw [chain, monotoneInt_iff_chain b t n]
    simp [monotoneInt, List.getLast_cons, and_assoc]

theorem monotoneInt_le_last : ∀ (a : Int) (t : List Int), monotoneInt (a :: t) = true →
    ∀ y ∈ a :: t, a ≤ y ∧ y ≤ (a :: t).getLast (by simp)
  | a, [], _, y, hy => by simp at hy; subst hy; simp
  | a, b :: t, h, y, hy => by
    simp only [monotoneInt, Bool.and_eq_true, decide_eq_true_eq] at h
    have ih := monotoneInt_le_last b t h.2
    rw [List.getLast_cons (by simp)]
    rcases List.mem_cons.1 hy with rfl | hy
    · exact ⟨Int.le_refl _, Int.le_trans h.1 (ih b (List.mem_cons_self ..)).2⟩
    · exact ⟨Int.le_trans h.1 (ih y hy).1, (ih y hy).2⟩

/-- `compress_indices` succeeds exactly on monotone vectors with entries in `[0, n)` and then returns the
searchsorted positions; on every other vector it raises -/
theorem compress_indices_spec' (idx : List Int) (n : Nat) :
    match compressIndices idx n with
    | .ok c => (monotoneInt idx = true ∧ inRangeInt idx n = true) ∧ c = searchsortedAll idx n
    | .error _ => ¬ (monotoneInt idx = true ∧ inRangeInt idx n = true) := by
  match idx with
  | [] =>
    simp only [compressIndices, searchsortedAll, monotoneInt, inRangeInt]
    refine ⟨by simp, ?_⟩
    simp [List.map_const', List.length_range]
  | a :: t =>
    have hlast : (a :: t).getLast?.getD a = (a :: t).getLast (by simp) := by
      rw [List.getLast?_eq_some_getLast (by simp)]; rfl
    by_cases hb : a < 0 ∨ (a :: t).getLast (by simp) ≥ (n : Int)
    · -- out of bounds: raises, and the precondition fails
      have hb' : (decide (a < 0) || decide ((a :: t).getLast?.getD a ≥ (n : Int))) = true := by
        rw [hlast]; simpa using hb
      simp only [compressIndices, hb', if_true]
      rintro ⟨_, hr⟩
      simp only [inRangeInt, List.all_eq_true, Bool.and_eq_true, decide_eq_true_eq] at hr
      rcases hb with hb | hb
      · exact absurd (hr a (List.mem_cons_self ..)).1 (by omega)
      · exact absurd (hr _ (List.getLast_mem (by simp))).2 (by omega)
    · by_cases hs : chain (-1) (a :: t) n
      · -- accepted
        rw [compress_eq_repeatFrom (a :: t) n (by simp) (by simpa using hb) hs]
        have hmono : monotoneInt (a :: t) = true := ((monotoneInt_iff_chain a t n).1 hs.2).1
        refine ⟨⟨hmono, ?_⟩, ?_⟩
        · simp only [inRangeInt, List.all_eq_true, Bool.and_eq_true, decide_eq_true_eq]
          intro y hy
          have := monotoneInt_le_last a t hmono y hy
          omega
        · rw [repeatFrom_spec (a :: t) (-1) 0 n hs]
          simp only [searchsortedAll]
          have : ((n : Int) - -1).toNat = n + 1 := by omega
          rw [this]
          apply List.map_congr_left
          intro j _
          have : (-1 : Int) + 1 + (j : Int) = (j : Int) := by omega
          simp
      · -- in bounds but not monotone: raises, precondition fails
        have hb' : (decide (a < 0) || decide ((a :: t).getLast?.getD a ≥ (n : Int))) = false := by
          rw [hlast]; simp; omega
        have hstep : (a + 1) :: (List.zipWith (fun x y => y - x) (a :: t) (a :: t).tail ++ [(n : Int) - ((a :: t).getLast?.getD a)])
            = stepsFrom (-1) (a :: t) n := by
          rw [List.tail_cons, step_eq_stepsFrom a t n, stepsFrom]; congr 1 <;> omega
        have hany : ((stepsFrom (-1) (a :: t) n).any (· < 0)) = true := by
          rcases h : (stepsFrom (-1) (a :: t) n).any (· < 0) with _ | _
          · exact absurd ((any_neg_stepsFrom (a :: t) (-1) n).1 h) hs
          · rfl
        simp only [compressIndices, hb', hstep, hany]
        simp only [Bool.false_eq_true, if_false, if_true]
        rintro ⟨hm, _⟩
        apply hs
        refine ⟨by omega, (monotoneInt_iff_chain a t n).2 ⟨hm, by omega⟩⟩

/-! ### consequences for the row pointers -/

theorem searchsortedAll_length (idx : List Int) (n : Nat) : (searchsortedAll idx n).length = n + 1 := by
  simp [searchsortedAll]

theorem searchsortedAll_get (idx : List Int) (n i : Nat) (hi : i < n + 1) :
    (searchsortedAll idx n)[i]'(by simp [searchsortedAll, hi]) = ((idx.filter (· < (i : Int))).length : Int) := by
  simp [searchsortedAll]

end NutilsVerif.C05
