import NutilsVerif.Model.C18
/-!
# C18 — helper lemmas (no Mathlib needed)
-/
namespace NutilsVerif.C18
variable {V L E : Type}




theorem overlay_prefix (k : Nat) (d file : Bytes) (h : file <+: d) : overlay k d file <+: d := by
  obtain ⟨t, rfl⟩ := h
  unfold overlay
  by_cases hk : k ≤ file.length
  · rw [List.take_append_of_le_length hk]
    rw [List.take_append_drop]
    exact List.prefix_append _ _
  · have : file.drop k = [] := List.drop_eq_nil_of_le (by omega)
    rw [this, List.append_nil]
    exact List.take_prefix _ _

theorem overlay_full (d file : Bytes) (h : file <+: d) : overlay d.length d file = d := by
  obtain ⟨t, rfl⟩ := h
  unfold overlay
  rw [List.take_length]
  have : file.drop (file ++ t).length = [] := List.drop_eq_nil_of_le (by simp)
  rw [this, List.append_nil]

theorem lookup_complete (c : Cfg V L E) (P : Hyps c) {v l} (hf : c.f = .ret v l) (file : Bytes)
    (h : entryBytes c 0 v l <+: file) : lookup c file = .hit v l := by
  obtain ⟨r, rfl⟩ := h
  unfold lookup; rw [P.h1 v l 0 r hf]

theorem lookup_partial (c : Cfg V L E) (P : Hyps c) {v l} (hf : c.f = .ret v l) (file : Bytes)
    (h : file <+: entryBytes c 0 v l) (hne : file ≠ entryBytes c 0 v l) : lookup c file = .miss := by
  obtain ⟨e, he, hc⟩ := P.h2 v l 0 file hf h hne
  unfold lookup; rw [he]; simp [hc]

theorem call_good (c : Cfg V L E) (P : Hyps c) (ev : Event E) (file : Bytes) (hg : Good c file) :
    Good c (call c ev file).1 ∧ (ev.fault = .none → (call c ev file).2.sameAs (uncached c)) := by
  unfold Good at hg ⊢
  cases hf : c.f with
  | ret v l =>
    rw [hf] at hg
    by_cases hc : entryBytes c 0 v l <+: file
    · have := lookup_complete c P hf file hc
      simp only [call, this, uncached, hf, Outcome.sameAs]
      exact ⟨Or.inr hc, fun _ => ⟨trivial, trivial, by omega⟩⟩
    · have hp : file <+: entryBytes c 0 v l := by rcases hg with h | h; exact h; exact absurd h hc
      have hne : file ≠ entryBytes c 0 v l := by intro h; apply hc; rw [h]; exact List.prefix_refl _
      have hm := lookup_partial c P hf file hp hne
      have h3 : entryBytes c ev.nonce v l = entryBytes c 0 v l := P.h3 v l _ _ hf
      obtain ⟨nonce, fault⟩ := ev
      cases fault with
      | none =>
        simp only [call, hm, hf, uncached, Outcome.sameAs] at h3 ⊢
        rw [h3, overlay_full _ _ hp]
        exact ⟨Or.inl (List.prefix_refl _), fun _ => ⟨trivial, trivial, by omega⟩⟩
      | kill k =>
        simp only [call, hm, hf] at h3 ⊢
        rw [h3]
        exact ⟨Or.inl (overlay_prefix _ _ _ hp), fun h => by cases h⟩
      | intr e =>
        simp only [call, hm]
        exact ⟨Or.inl hp, fun h => by cases h⟩
  | exc e l =>
    rw [hf] at hg
    subst hg
    obtain ⟨e0, he0, hc0⟩ := P.h0
    have hm : lookup c [] = .miss := by unfold lookup; rw [he0]; simp [hc0]
    obtain ⟨nonce, fault⟩ := ev
    cases fault <;> simp [call, hm, hf, uncached, Outcome.sameAs]

theorem fileAfter_good (c : Cfg V L E) (P : Hyps c) (h : List (Event E)) (file : Bytes) (hg : Good c file) :
    Good c (fileAfter c h file) := by
  induction h generalizing file with
  | nil => exact hg
  | cons ev h ih => exact ih _ (call_good c P ev file hg).1

theorem fileAfter_append (c : Cfg V L E) (h₁ h₂ : List (Event E)) (file : Bytes) :
    fileAfter c (h₁ ++ h₂) file = fileAfter c h₂ (fileAfter c h₁ file) := by
  induction h₁ generalizing file with
  | nil => rfl
  | cons ev h ih => exact ih _


/-! ## recursion -/




/-! recursion -/







@[simp] theorem cons_files (x : V × L) (k : Nat) (r : RunOut V L E) : (r.cons x k).files = r.files := rfl
@[simp] theorem cons_obs (x : V × L) (k : Nat) (r : RunOut V L E) : (r.cons x k).obs = (x :: r.obs.1, r.obs.2) := rfl
@[simp] theorem cons_resumed (x : V × L) (k : Nat) (r : RunOut V L E) : (r.cons x k).resumed = r.resumed := rfl

theorem push_lastN (n : Nat) (l : List V) (v : V) : push n (lastN n l) v = lastN n (l ++ [v]) := by
  unfold push lastN
  simp only [List.length_append, List.length_drop, List.length_cons, List.length_nil]
  by_cases h : l.length < n
  · have h1 : l.length - n = 0 := by omega
    have h2 : l.length + (0+1) - n = 0 := by omega
    simp [h1, h2]; omega
  · have h1 : l.length - (l.length - n) + (0+1) > n := by omega
    rw [if_pos h1]
    have : l.length + (0+1) - n = (l.length - n) + 1 := by omega
    rw [this]
    by_cases hn : n = 0
    · subst hn; simp
    · rw [List.drop_append_of_le_length (l₁ := l) (by omega)]
      rw [List.drop_append_of_le_length (by simp; omega), List.drop_drop]

theorem live_succ (c : RecCfg V L E) (i : Nat) (h : Live c i) {v l} (hi : c.resume [] 0 i = .item v l) : Live c (i+1) := by
  intro m hm
  by_cases h' : m < i
  · exact h m h'
  · have : m = i := by omega
    subst this; exact ⟨v, l, hi⟩

theorem inv_setFile (c : RecCfg V L E) (fs : Files) (hinv : Inv c fs) (i : Nat) (s : Stored V L) (hl : Live c i)
    (hs : storedAt c i = some s) (b : Bytes) (hb : b <+: c.pk.dump 0 s) : Inv c (setFile fs i b) := by
  intro j
  unfold setFile
  by_cases hj : j = i
  · subst hj
    simp only [if_true]
    refine ⟨fun _ s' hs' => ?_, fun h => ?_⟩
    · rw [hs] at hs'; cases hs'; exact hb
    · rcases h with h | h
      · exact absurd hl h
      · rw [hs] at h; cases h
  · simp only [if_neg hj]; exact hinv j

theorem compStep_inv (c : RecCfg V L E) (P : RHyps c) (rc : RunCfg E) (hist : List V) (idx i : Nat) (fs : Files)
    (hinv : Inv c fs) (hl : Live c i) (hidx : idx ≤ i) (hg : ∀ j, c.resume hist idx j = c.resume [] 0 (idx + j)) :
    match compStep c rc hist idx i fs with
    | .fin r => Inv c r.files
    | .cont x fs' => Inv c fs' ∧ c.resume [] 0 i = .item x.1 x.2 := by
  have hx : c.resume hist idx (i - idx) = c.resume [] 0 i := by rw [hg]; congr; omega
  have hI := (hinv i).1 hl
  unfold compStep
  rw [hx]
  cases hr : c.resume [] 0 i with
  | item v l =>
    have hs : storedAt c i = some (.item l v) := by unfold storedAt; rw [hr]
    have hp := hI _ hs
    have key : ∀ k, Inv c (setFile fs i (overlay k (c.pk.dump rc.nonce (.item l v)) (fs i))) := by
      intro k; apply inv_setFile c fs hinv i _ hl hs
      rw [P.h3 _ rc.nonce 0]; exact overlay_prefix _ _ _ hp
    cases rc.fault with
    | none => exact ⟨key _, rfl⟩
    | kill i' k => by_cases h : i' = i <;> simp only [h, if_true, if_false] <;> first | exact key _ | exact ⟨key _, trivial⟩ | exact ⟨key _, rfl⟩
    | intr i' e => by_cases h : i' = i <;> simp only [h, if_true, if_false] <;> first | exact hinv | exact ⟨key _, trivial⟩ | exact ⟨key _, rfl⟩
  | stop l =>
    have hs : storedAt c i = some (.stop l) := by unfold storedAt; rw [hr]
    have hp := hI _ hs
    have key : ∀ k, Inv c (setFile fs i (overlay k (c.pk.dump rc.nonce (.stop l)) (fs i))) := by
      intro k; apply inv_setFile c fs hinv i _ hl hs
      rw [P.h3 _ rc.nonce 0]; exact overlay_prefix _ _ _ hp
    cases rc.fault with
    | none => exact key _
    | kill i' k => by_cases h : i' = i <;> simp only [h, if_true, if_false] <;> exact key _
    | intr i' e => by_cases h : i' = i <;> simp only [h, if_true, if_false] <;> first | exact hinv | exact key _
  | exc e l =>
    cases rc.fault with
    | none => exact hinv
    | kill i' k => exact hinv
    | intr i' e => by_cases h : i' = i <;> simp only [h, if_true, if_false] <;> exact hinv

theorem compute_inv (c : RecCfg V L E) (P : RHyps c) (rc : RunCfg E) (hist : List V) (idx : Nat)
    (hg : ∀ j, c.resume hist idx j = c.resume [] 0 (idx + j)) (n i : Nat) (fs : Files)
    (hinv : Inv c fs) (hl : Live c i) (hidx : idx ≤ i) : Inv c (compute c rc hist idx n i fs).files := by
  induction n generalizing i fs with
  | zero => exact hinv
  | succ n ih =>
    have := compStep_inv c P rc hist idx i fs hinv hl hidx hg
    unfold compute
    split
    · rename_i r hr; rw [hr] at this; exact this
    · rename_i x fs' hr; rw [hr] at this
      rw [cons_files]
      exact ih (i+1) fs' this.1 (live_succ c i hl this.2) (by omega)

theorem compute_spec (c : RecCfg V L E) (P : RHyps c) (nonce : Nat) (hist : List V) (idx : Nat)
    (hg : ∀ j, c.resume hist idx j = c.resume [] 0 (idx + j)) (n i : Nat) (fs : Files)
    (hinv : Inv c fs) (hl : Live c i) (hidx : idx ≤ i) :
    (compute c ⟨nonce, .none⟩ hist idx n i fs).obs = specRun c n i := by
  induction n generalizing i fs with
  | zero => rfl
  | succ n ih =>
    have hci := compStep_inv c P ⟨nonce, .none⟩ hist idx i fs hinv hl hidx hg
    have hx : c.resume hist idx (i - idx) = c.resume [] 0 i := by rw [hg]; congr; omega
    unfold compute specRun
    unfold compStep at hci ⊢
    simp only [hx] at hci ⊢
    cases hr : c.resume [] 0 i with
    | item v l =>
      rw [hr] at hci
      simp only [cons_obs]
      rw [ih (i+1) _ hci.1 (live_succ c i hl hr) (by omega)]
    | stop l => rfl
    | exc e l => rfl
theorem load_cases (c : RecCfg V L E) (P : RHyps c) (fs : Files) (hinv : Inv c fs) (i : Nat) (hl : Live c i) :
    (∃ s, storedAt c i = some s ∧ c.pk.load (fs i) = .ok s) ∨ (∃ e, c.pk.load (fs i) = .error e ∧ c.caught e = true) := by
  cases hs : storedAt c i with
  | none =>
    right
    rw [(hinv i).2 (Or.inr hs)]; exact P.h0
  | some s =>
    have hp := (hinv i).1 hl s hs
    by_cases he : fs i = c.pk.dump 0 s
    · left; refine ⟨s, rfl, ?_⟩
      have := P.h1 i s 0 [] hl hs
      rw [List.append_nil] at this; rw [he]; exact this
    · right; exact P.h2 i s 0 _ hl hs hp he

theorem specVals_succ (c : RecCfg V L E) (i : Nat) {v l} (h : c.resume [] 0 i = .item v l) :
    specVals c (i+1) = specVals c i ++ [v] := by
  simp only [specVals, h]

theorem storedAt_item (c : RecCfg V L E) (i : Nat) {v l} (h : storedAt c i = some (.item l v)) : c.resume [] 0 i = .item v l := by
  unfold storedAt at h
  cases hr : c.resume [] 0 i <;> rw [hr] at h <;> simp at h
  obtain ⟨rfl, rfl⟩ := h; rfl

theorem storedAt_stop (c : RecCfg V L E) (i : Nat) {l} (h : storedAt c i = some (.stop l)) : c.resume [] 0 i = .stop l := by
  unfold storedAt at h
  cases hr : c.resume [] 0 i <;> rw [hr] at h <;> simp at h
  subst h; rfl

theorem iterate_inv (c : RecCfg V L E) (P : RHyps c) (rc : RunCfg E) (n i : Nat) (hist : List V) (fs : Files)
    (hinv : Inv c fs) (hl : Live c i) (hh : hist = lastN c.length (specVals c i)) :
    Inv c (iterate c rc n i hist fs).files := by
  induction n generalizing i hist fs with
  | zero => exact hinv
  | succ n ih =>
    unfold iterate
    rcases load_cases c P fs hinv i hl with ⟨s, hs, hld⟩ | ⟨e, hld, hc⟩
    · rw [hld]
      cases s with
      | item l v =>
        simp only []
        rw [cons_files]
        have hi := storedAt_item c i hs
        exact ih (i+1) _ fs hinv (live_succ c i hl hi) (by rw [hh, push_lastN, specVals_succ c i hi])
      | stop l => exact hinv
    · rw [hld]; simp only [hc, if_true]
      exact compute_inv c P rc hist i (by intro j; rw [hh]; exact P.consistent i j hl) (n+1) i fs hinv hl (Nat.le_refl _)

theorem iterate_spec (c : RecCfg V L E) (P : RHyps c) (nonce : Nat) (n i : Nat) (hist : List V) (fs : Files)
    (hinv : Inv c fs) (hl : Live c i) (hh : hist = lastN c.length (specVals c i)) :
    (iterate c ⟨nonce, .none⟩ n i hist fs).obs = specRun c n i := by
  induction n generalizing i hist fs with
  | zero => rfl
  | succ n ih =>
    unfold iterate
    rcases load_cases c P fs hinv i hl with ⟨s, hs, hld⟩ | ⟨e, hld, hc⟩
    · rw [hld]
      cases s with
      | item l v =>
        have hi := storedAt_item c i hs
        simp only [cons_obs]
        rw [ih (i+1) _ fs hinv (live_succ c i hl hi) (by rw [hh, push_lastN, specVals_succ c i hi])]
        simp only [specRun, hi]
      | stop l =>
        have hi := storedAt_stop c i hs
        simp only [specRun, hi]
        rfl
    · rw [hld]; simp only [hc, if_true]
      exact compute_spec c P nonce hist i (by intro j; rw [hh]; exact P.consistent i j hl) (n+1) i fs hinv hl (Nat.le_refl _)

theorem iterate_resumed (c : RecCfg V L E) (P : RHyps c) (rc : RunCfg E) (n i : Nat) (hist : List V) (fs : Files)
    (hinv : Inv c fs) (hl : Live c i) (hh : hist = lastN c.length (specVals c i)) (h : List V) (idx : Nat)
    (hr : (iterate c rc n i hist fs).resumed = some (h, idx)) :
    h = lastN c.length (specVals c idx) ∧ i ≤ idx ∧ (∃ e, c.pk.load (fs idx) = .error e) := by
  induction n generalizing i hist fs with
  | zero => simp [iterate] at hr
  | succ n ih =>
    unfold iterate at hr
    rcases load_cases c P fs hinv i hl with ⟨s, hs, hld⟩ | ⟨e, hld, hc⟩
    · rw [hld] at hr
      cases s with
      | item l v =>
        have hi := storedAt_item c i hs
        simp only [] at hr
        rw [cons_resumed] at hr
        have := ih (i+1) _ fs hinv (live_succ c i hl hi) (by rw [hh, push_lastN, specVals_succ c i hi]) hr
        exact ⟨this.1, by omega, this.2.2⟩
      | stop l => simp at hr
    · rw [hld] at hr; simp only [hc, if_true] at hr
      simp only [Option.some.injEq, Prod.mk.injEq] at hr
      obtain ⟨rfl, rfl⟩ := hr
      exact ⟨hh, Nat.le_refl _, e, hld⟩

/-! ### memoisation: completed items are not recomputed -/

theorem load_cases' (c : RecCfg V L E) (P : RHyps c) (fs : Files) (hinv : Inv c fs) (i : Nat) (hl : Live c i) :
    (∃ s, storedAt c i = some s ∧ fs i = c.pk.dump 0 s ∧ c.pk.load (fs i) = .ok s) ∨
    ((∀ s, storedAt c i = some s → fs i ≠ c.pk.dump 0 s) ∧ ∃ e, c.pk.load (fs i) = .error e ∧ c.caught e = true) := by
  cases hs : storedAt c i with
  | none =>
    right
    refine ⟨(fun s h => nomatch h), ?_⟩
    rw [(hinv i).2 (Or.inr hs)]; exact P.h0
  | some s =>
    have hp := (hinv i).1 hl s hs
    by_cases he : fs i = c.pk.dump 0 s
    · left; refine ⟨s, rfl, he, ?_⟩
      have := P.h1 i s 0 [] hl hs
      rw [List.append_nil] at this; rw [he]; exact this
    · right; exact ⟨fun s' h => by cases h; exact he, P.h2 i s 0 _ hl hs hp he⟩

@[simp] theorem cons_ncomputed (x : V × L) (k : Nat) (r : RunOut V L E) : (r.cons x k).ncomputed = r.ncomputed + k := rfl

theorem setFile_same (fs : Files) (i : Nat) (b : Bytes) : setFile fs i b i = b := by simp [setFile]
theorem setFile_other (fs : Files) (i j : Nat) (b : Bytes) (h : j ≠ i) : setFile fs i b j = fs j := by simp [setFile, h]

theorem not_live_after_nonitem (c : RecCfg V L E) (i j : Nat) (hij : i < j) (h : ∀ v l, c.resume [] 0 i ≠ .item v l) : ¬ Live c j := by
  intro hl
  obtain ⟨v, l, hv⟩ := hl i hij
  exact h v l hv

/-- after a fault-free `compute` from item `i` for `n` items: earlier files untouched, every live item file in range complete -/
theorem compute_complete (c : RecCfg V L E) (P : RHyps c) (nonce : Nat) (hist : List V) (idx : Nat)
    (hg : ∀ j, c.resume hist idx j = c.resume [] 0 (idx + j)) (n i : Nat) (fs : Files)
    (hinv : Inv c fs) (hl : Live c i) (hidx : idx ≤ i) :
    let r := compute c ⟨nonce, .none⟩ hist idx n i fs
    (∀ j, j < i → r.files j = fs j) ∧
    (∀ j s, i ≤ j → j < i + n → Live c j → storedAt c j = some s → r.files j = c.pk.dump 0 s) := by
  induction n generalizing i fs with
  | zero => exact ⟨fun _ _ => rfl, fun j s h1 h2 => by omega⟩
  | succ n ih =>
    have hci := compStep_inv c P ⟨nonce, .none⟩ hist idx i fs hinv hl hidx hg
    have hx : c.resume hist idx (i - idx) = c.resume [] 0 i := by rw [hg]; congr; omega
    have hI := (hinv i).1 hl
    unfold compute
    unfold compStep at hci ⊢
    simp only [hx] at hci ⊢
    cases hr : c.resume [] 0 i with
    | item v l =>
      rw [hr] at hci
      have hs : storedAt c i = some (.item l v) := by unfold storedAt; rw [hr]
      have hfull : overlay (c.pk.dump nonce (.item l v)).length (c.pk.dump nonce (.item l v)) (fs i) = c.pk.dump 0 (.item l v) := by
        rw [P.h3 _ nonce 0]; exact overlay_full _ _ (hI _ hs)
      simp only [cons_files]
      have := ih (i+1) _ hci.1 (live_succ c i hl hr) (by omega)
      refine ⟨fun j hj => ?_, fun j s h1 h2 hlj hsj => ?_⟩
      · rw [this.1 j (by omega), setFile_other _ _ _ _ (by omega)]
      · by_cases hji : j = i
        · subst hji
          rw [this.1 j (by omega), setFile_same, hfull]
          rw [hs] at hsj; cases hsj; rfl
        · exact this.2 j s (by omega) (by omega) hlj hsj
    | stop l =>
      have hs : storedAt c i = some (.stop l) := by unfold storedAt; rw [hr]
      have hfull : overlay (c.pk.dump nonce (.stop l)).length (c.pk.dump nonce (.stop l)) (fs i) = c.pk.dump 0 (.stop l) := by
        rw [P.h3 _ nonce 0]; exact overlay_full _ _ (hI _ hs)
      refine ⟨fun j hj => ?_, fun j s h1 h2 hlj hsj => ?_⟩
      · simp only []; rw [setFile_other _ _ _ _ (by omega)]
      · by_cases hji : j = i
        · subst hji
          simp only []; rw [setFile_same, hfull]
          rw [hs] at hsj; cases hsj; rfl
        · exact absurd hlj (not_live_after_nonitem c i j (by omega) (by intro v' l' h; rw [hr] at h; cases h))
    | exc e l =>
      refine ⟨fun j hj => rfl, fun j s h1 h2 hlj hsj => ?_⟩
      by_cases hji : j = i
      · subst hji; unfold storedAt at hsj; rw [hr] at hsj; cases hsj
      · exact absurd hlj (not_live_after_nonitem c i j (by omega) (by intro v' l' h; rw [hr] at h; cases h))

theorem iterate_complete (c : RecCfg V L E) (P : RHyps c) (nonce : Nat) (n i : Nat) (hist : List V) (fs : Files)
    (hinv : Inv c fs) (hl : Live c i) (hh : hist = lastN c.length (specVals c i)) :
    let r := iterate c ⟨nonce, .none⟩ n i hist fs
    (∀ j, j < i → r.files j = fs j) ∧
    (∀ j s, i ≤ j → j < i + n → Live c j → storedAt c j = some s → r.files j = c.pk.dump 0 s) := by
  induction n generalizing i hist fs with
  | zero => exact ⟨fun _ _ => rfl, fun j s h1 h2 => by omega⟩
  | succ n ih =>
    unfold iterate
    rcases load_cases' c P fs hinv i hl with ⟨s, hs, hfs, hld⟩ | ⟨_, e, hld, hc⟩
    · rw [hld]
      cases s with
      | item l v =>
        have hi := storedAt_item c i hs
        simp only [cons_files]
        have := ih (i+1) (push c.length hist v) fs hinv (live_succ c i hl hi) (by rw [hh, push_lastN, specVals_succ c i hi])
        refine ⟨fun j hj => this.1 j (by omega), fun j s' h1 h2 hlj hsj => ?_⟩
        by_cases hji : j = i
        · subst hji
          rw [this.1 j (by omega), hfs]; rw [hs] at hsj; cases hsj; rfl
        · exact this.2 j s' (by omega) (by omega) hlj hsj
      | stop l =>
        have hi := storedAt_stop c i hs
        refine ⟨fun j hj => rfl, fun j s' h1 h2 hlj hsj => ?_⟩
        by_cases hji : j = i
        · subst hji; simp only []; rw [hfs]; rw [hs] at hsj; cases hsj; rfl
        · exact absurd hlj (not_live_after_nonitem c i j (by omega) (by intro v' l' h; rw [hi] at h; cases h))
    · rw [hld]; simp only [hc, if_true]
      exact compute_complete c P nonce hist i (by intro j; rw [hh]; exact P.consistent i j hl) (n+1) i fs hinv hl (Nat.le_refl _)

/-- if every live item file in range is complete (and no step in range raises), the iteration computes nothing -/
theorem iterate_hits (c : RecCfg V L E) (P : RHyps c) (rc : RunCfg E) (n i : Nat) (hist : List V) (fs : Files)
    (hl : Live c i)
    (hcomp : ∀ j, i ≤ j → j < i + n → Live c j → ∃ s, storedAt c j = some s ∧ fs j = c.pk.dump 0 s) :
    (iterate c rc n i hist fs).ncomputed = 0 ∧ (iterate c rc n i hist fs).resumed = none ∧ (iterate c rc n i hist fs).files = fs := by
  induction n generalizing i hist with
  | zero => exact ⟨rfl, rfl, rfl⟩
  | succ n ih =>
    unfold iterate
    obtain ⟨s, hs, hfs⟩ := hcomp i (Nat.le_refl _) (by omega) hl
    have hld : c.pk.load (fs i) = .ok s := by
      have := P.h1 i s 0 [] hl hs
      rw [List.append_nil] at this; rw [hfs]; exact this
    rw [hld]
    cases s with
    | item l v =>
      have hi := storedAt_item c i hs
      simp only [cons_ncomputed, cons_resumed, cons_files]
      have := ih (i+1) (push c.length hist v) (live_succ c i hl hi) (fun j h1 h2 hlj => hcomp j (by omega) (by omega) hlj)
      exact ⟨by rw [this.1], this.2.1, this.2.2⟩
    | stop l => exact ⟨rfl, rfl, rfl⟩


/-! ## concurrency -/



theorem writeByte_overlay (k : Nat) (d base : Bytes) (h : k < d.length) :
    writeByte k d[k] (overlay k d base) = overlay (k+1) d base := by
  unfold writeByte overlay
  have hl : (d.take k).length = k := by simp; omega
  rw [List.take_append_of_le_length (by omega), List.take_of_length_le (by omega)]
  rw [List.drop_append, hl]
  have : List.drop (k+1) (List.take k d) = [] := List.drop_eq_nil_of_le (by omega)
  rw [this, List.nil_append, List.drop_drop]
  rw [List.take_succ_eq_append_getElem h]
  rw [List.append_assoc]; have : k + (k + 1 - k) = k + 1 := by omega
  rw [this]; rfl


def FileRel (c : Cfg V L E) (file0 : Bytes) (s : CState V L E) : Prop :=
  match s.holder with
  | none => s.file = base c file0 s
  | some p =>
    match s.procs p with
    | .writing k => ∃ v l, c.f = .ret v l ∧ k ≤ (entryBytes c p v l).length ∧
        s.file = overlay k (entryBytes c p v l) (base c file0 s) ∧ lookup c (base c file0 s) = .miss
    | .computing => s.file = base c file0 s ∧ lookup c (base c file0 s) = .miss
    | _ => s.file = base c file0 s

structure CInv (c : Cfg V L E) (file0 : Bytes) (s : CState V L E) : Prop where
  mutex : ∀ q, (s.procs q).critical = true → s.holder = some q
  file : FileRel c file0 s
  done : ∀ q out, s.procs q = .done out → ∃ pre post, s.hist = pre ++ (q, ⟨q, .none⟩) :: post ∧
      out = (call c ⟨q, .none⟩ (fileAfter c (pre.map (·.2)) file0)).2

theorem base_release (c : Cfg V L E) (file0 : Bytes) (s : CState V L E) (p : Nat) (st : PState V L E) (fault : Fault E) :
    base c file0 (release s p st fault) = (call c ⟨p, fault⟩ (base c file0 s)).1 := by
  simp only [base, release, List.map_append, fileAfter_append, List.map_cons, List.map_nil, fileAfter]

theorem release_inv (c : Cfg V L E) (file0 : Bytes) (s : CState V L E) (hs : CInv c file0 s) (p : Nat)
    (hp : (s.procs p).critical = true) (st : PState V L E) (hst : st.critical = false) (fault : Fault E)
    (hfile : s.file = (call c ⟨p, fault⟩ (base c file0 s)).1)
    (hout : ∀ out, st = .done out → fault = .none ∧ out = (call c ⟨p, .none⟩ (base c file0 s)).2) :
    CInv c file0 (release s p st fault) := by
  have hh := hs.mutex p hp
  refine ⟨?_, ?_, ?_⟩
  · intro q hq
    simp only [release, setProc] at hq
    by_cases hqp : q = p
    · simp [hqp, hst] at hq
    · simp only [hqp, if_false] at hq
      have := hs.mutex q hq
      rw [hh] at this; cases this; exact absurd rfl hqp
  · unfold FileRel
    have : (release s p st fault).holder = none := by simp [release, hh]
    rw [this, base_release]; exact hfile
  · intro q out hq
    simp only [release, setProc] at hq ⊢
    by_cases hqp : q = p
    · subst hqp
      simp only [if_true] at hq
      obtain ⟨hf, ho⟩ := hout out hq
      subst hf
      exact ⟨s.hist, [], rfl, ho⟩
    · simp only [hqp, if_false] at hq
      obtain ⟨pre, post, h1, h2⟩ := hs.done q out hq
      exact ⟨pre, post ++ [(p, ⟨p, fault⟩)], by rw [h1]; simp, h2⟩

/-- a transition of process `p` that keeps the lock state and the ghost history -/
theorem stay_inv (c : Cfg V L E) (file0 : Bytes) (s : CState V L E) (hs : CInv c file0 s) (p : Nat) (st : PState V L E)
    (file' : Bytes) (execs' : Nat) (holder' : Option Nat)
    (hnd : ∀ out, st ≠ .done out)
    (hhold : (holder' = s.holder ∧ (s.holder = some p ∨ (st.critical = false ∧ (s.procs p).critical = false ∧ s.holder ≠ some p ∧ file' = s.file)))
              ∨ (s.holder = none ∧ holder' = some p ∧ st = .locked ∧ file' = s.file))
    (hrel : s.holder = some p → FileRel c file0 { s with file := file', procs := setProc s.procs p st, execs := execs' }) 
    :
    CInv c file0 { s with file := file', procs := setProc s.procs p st, execs := execs', holder := holder' } := by
  refine ⟨?_, ?_, ?_⟩
  · intro q hq
    simp only [setProc] at hq ⊢
    by_cases hqp : q = p
    · subst hqp
      simp only [if_true] at hq
      rcases hhold with ⟨h1, h2 | h2⟩ | h2
      · rw [h1]; exact h2
      · rw [h2.1] at hq; cases hq
      · exact h2.2.1
    · simp only [hqp, if_false] at hq
      have := hs.mutex q hq
      rcases hhold with ⟨h1, _⟩ | h2
      · rw [h1]; exact this
      · rw [h2.1] at this; cases this
  · rcases hhold with ⟨h1, h2 | h2⟩ | h2
    · have := hrel h2
      unfold FileRel at this ⊢
      simp only [h1] at this ⊢; exact this
    · have := hs.file
      unfold FileRel at this ⊢
      simp only [h1, base] at this ⊢
      rw [h2.2.2.2]
      cases hh : s.holder with
      | none => rw [hh] at this; exact this
      | some h =>
        rw [hh] at this
        have hne : h ≠ p := by intro e; apply h2.2.2.1; rw [hh, e]
        simp only [setProc, hne, if_false]; exact this
    · have := hs.file
      unfold FileRel at this ⊢
      simp only [h2.1, h2.2.1, base, setProc, if_true, h2.2.2.1, h2.2.2.2] at this ⊢
      exact this
  · intro q out hq
    simp only [setProc] at hq
    by_cases hqp : q = p
    · subst hqp; simp only [if_true] at hq; exact absurd hq (hnd out)
    · simp only [hqp, if_false] at hq
      exact hs.done q out hq

theorem call_kill0 (c : Cfg V L E) (p : Nat) (b : Bytes) : (call c ⟨p, .kill 0⟩ b).1 = b := by
  unfold call
  cases lookup c b <;> simp only []
  cases c.f <;> simp [overlay]

theorem act_inv (c : Cfg V L E) (file0 : Bytes) (s : CState V L E) (hs : CInv c file0 s) (a : Act) :
    CInv c file0 (act c true s a) := by
  cases a with
  | step p =>
    simp only [act]
    generalize hp : s.procs p = st0
    cases st0 with
    | idle =>
      simp only [if_true]
      by_cases hh : s.holder = none
      · rw [if_pos hh]
        exact stay_inv c file0 s hs p .locked s.file s.execs (some p) (by intro o h; cases h) (Or.inr ⟨hh, rfl, rfl, rfl⟩)
          (by intro h; rw [hh] at h; cases h)
      · rw [if_neg hh]; exact hs
    | locked =>
      have hcr : (s.procs p).critical = true := by rw [hp]; rfl
      have hh := hs.mutex p hcr
      have hf := hs.file
      unfold FileRel at hf; simp only [hh, hp] at hf
      simp only []
      cases hl : lookup c s.file with
      | hit v l =>
        simp only []
        apply release_inv c file0 s hs p hcr _ rfl
        · rw [hf] at hl; simp only [call, hl]; exact hf
        · intro out ho; cases ho; rw [hf] at hl; simp only [call, hl]; exact ⟨trivial, trivial⟩
      | escape e =>
        simp only []
        apply release_inv c file0 s hs p hcr _ rfl
        · rw [hf] at hl; simp only [call, hl]; exact hf
        · intro out ho; cases ho; rw [hf] at hl; simp only [call, hl]; exact ⟨trivial, trivial⟩
      | miss =>
        simp only []
        apply stay_inv c file0 s hs p .computing s.file (s.execs + 1) s.holder (by intro o h; cases h) (Or.inl ⟨rfl, Or.inl hh⟩)
        intro _
        unfold FileRel; simp only [hh, setProc, if_true, base] at hf ⊢
        rw [hf] at hl
        exact ⟨hf, hl⟩
    | computing =>
      have hcr : (s.procs p).critical = true := by rw [hp]; rfl
      have hh := hs.mutex p hcr
      have hf := hs.file
      unfold FileRel at hf; simp only [hh, hp] at hf
      simp only []
      cases hc : c.f with
      | ret v l =>
        simp only []
        apply stay_inv c file0 s hs p (.writing 0) s.file s.execs s.holder (by intro o h; cases h) (Or.inl ⟨rfl, Or.inl hh⟩)
        intro _
        unfold FileRel; simp only [hh, setProc, if_true, base] at hf ⊢
        exact ⟨v, l, hc, Nat.zero_le _, by simp [overlay]; exact hf.1, hf.2⟩
      | exc e l =>
        simp only []
        apply release_inv c file0 s hs p hcr _ rfl
        · simp only [call, hf.2, hc]; exact hf.1
        · intro out ho; cases ho; simp only [call, hf.2, hc]; exact ⟨trivial, trivial⟩
    | writing k =>
      have hcr : (s.procs p).critical = true := by rw [hp]; rfl
      have hh := hs.mutex p hcr
      have hf := hs.file
      unfold FileRel at hf; simp only [hh, hp] at hf
      obtain ⟨v, l, hc, hk, hfile, hm⟩ := hf
      simp only [hc]
      by_cases hlt : k < (entryBytes c p v l).length
      · rw [dif_pos hlt]
        apply stay_inv c file0 s hs p (.writing (k+1)) _ s.execs s.holder (by intro o h; cases h) (Or.inl ⟨rfl, Or.inl hh⟩)
        intro _
        unfold FileRel; simp only [hh, setProc, if_true, base] at hfile hm ⊢
        refine ⟨v, l, hc, hlt, ?_, hm⟩
        rw [hfile]; exact writeByte_overlay k _ _ hlt
      · rw [dif_neg hlt]
        have hke : k = (entryBytes c p v l).length := by omega
        apply release_inv c file0 s hs p hcr _ rfl
        · simp only [call, hm, hc]; rw [hfile, hke]
        · intro out ho; cases ho; simp only [call, hm, hc]; exact ⟨trivial, trivial⟩
    | done out => exact hs
    | dead => exact hs
  | kill p =>
    simp only [act]
    generalize hp : s.procs p = st0
    cases st0 with
    | idle =>
      simp only []
      have hf := hs.file
      apply stay_inv c file0 s hs p .dead s.file s.execs s.holder (by intro o h; cases h)
      · by_cases hh : s.holder = some p
        · exact Or.inl ⟨rfl, Or.inl hh⟩
        · exact Or.inl ⟨rfl, Or.inr ⟨rfl, by rw [hp]; rfl, hh, rfl⟩⟩
      · intro hh
        unfold FileRel at hf ⊢; simp only [hh, hp, setProc, if_true, base] at hf ⊢
        exact hf
    | locked =>
      have hcr : (s.procs p).critical = true := by rw [hp]; rfl
      have hh := hs.mutex p hcr
      have hf := hs.file
      unfold FileRel at hf; simp only [hh, hp] at hf
      simp only []
      apply release_inv c file0 s hs p hcr _ rfl
      · rw [call_kill0]; exact hf
      · intro out ho; cases ho
    | computing =>
      have hcr : (s.procs p).critical = true := by rw [hp]; rfl
      have hh := hs.mutex p hcr
      have hf := hs.file
      unfold FileRel at hf; simp only [hh, hp] at hf
      simp only []
      apply release_inv c file0 s hs p hcr _ rfl
      · rw [call_kill0]; exact hf.1
      · intro out ho; cases ho
    | writing k =>
      have hcr : (s.procs p).critical = true := by rw [hp]; rfl
      have hh := hs.mutex p hcr
      have hf := hs.file
      unfold FileRel at hf; simp only [hh, hp] at hf
      obtain ⟨v, l, hc, hk, hfile, hm⟩ := hf
      simp only []
      apply release_inv c file0 s hs p hcr _ rfl
      · simp only [call, hm, hc]; rw [hfile, Nat.min_eq_left hk]
      · intro out ho; cases ho
    | done out => exact hs
    | dead => exact hs

theorem init_inv (c : Cfg V L E) (file0 : Bytes) : CInv c file0 (initC file0) := by
  refine ⟨?_, rfl, ?_⟩
  · intro q h; cases h
  · intro q out h; cases h

theorem runPar_inv (c : Cfg V L E) (file0 : Bytes) (sched : List Act) (s : CState V L E) (hs : CInv c file0 s) :
    CInv c file0 (runPar c true sched s) := by
  induction sched generalizing s with
  | nil => exact hs
  | cons a t ih => exact ih _ (act_inv c file0 s hs a)

/-! ### `func` is started at most once by kill-free concurrent callers -/

def PState.busy : PState V L E → Bool
  | .computing | .writing _ => true
  | _ => false

/-- bookkeeping invariant for kill-free schedules of a returning function: `func` has been started at most once, and if
it was, either the process that started it is still at work under the lock, or the entry is complete -/
def EInv (c : Cfg V L E) (file0 : Bytes) (v : V) (l : L) (s : CState V L E) : Prop :=
  (s.execs = 0 ∧ ∀ q, (s.procs q).busy = false) ∨
  (s.execs = 1 ∧ ((∃ p, s.holder = some p ∧ (s.procs p).busy = true) ∨ lookup c (base c file0 s) = .hit v l))

theorem base_stay (c : Cfg V L E) (file0 : Bytes) (s : CState V L E) (file' : Bytes) (procs' : Nat → PState V L E) (execs' : Nat) (holder' : Option Nat) :
    base c file0 { s with file := file', procs := procs', execs := execs', holder := holder' } = base c file0 s := rfl

theorem act_einv (c : Cfg V L E) (P : Hyps c) (file0 : Bytes) (hg0 : Good c file0) (v : V) (l : L) (hf : c.f = .ret v l)
    (s : CState V L E) (hs : CInv c file0 s) (he : EInv c file0 v l s) (p : Nat) :
    EInv c file0 v l (act c true s (.step p)) := by
  have hgood : Good c (base c file0 s) := fileAfter_good c P _ _ hg0
  simp only [act]
  generalize hp : s.procs p = st0
  cases st0 with
  | idle =>
    simp only [if_true]
    by_cases hh : s.holder = none
    · rw [if_pos hh]
      rcases he with ⟨h0, hb⟩ | ⟨h1, hd⟩
      · left; refine ⟨h0, fun q => ?_⟩
        simp only [setProc]; split
        · rfl
        · exact hb q
      · right; refine ⟨h1, ?_⟩
        rcases hd with ⟨p', hp', _⟩ | hd
        · rw [hh] at hp'; cases hp'
        · right; exact hd
    · rw [if_neg hh]; exact he
  | locked =>
    have hcr : (s.procs p).critical = true := by rw [hp]; rfl
    have hh := hs.mutex p hcr
    have hfile := hs.file
    unfold FileRel at hfile; simp only [hh, hp] at hfile
    simp only []
    cases hl : lookup c s.file with
    | hit v' l' =>
      simp only []
      have hb : base c file0 (release s p (.done (.ret v' l' 0)) .none) = base c file0 s := by
        rw [base_release]; rw [hfile] at hl; simp only [call, hl]
      rcases he with ⟨h0, hb0⟩ | ⟨h1, hd⟩
      · left; refine ⟨h0, fun q => ?_⟩
        simp only [release, setProc]; split
        · rfl
        · exact hb0 q
      · right; refine ⟨h1, ?_⟩
        rcases hd with ⟨p', hp', hbusy⟩ | hd
        · rw [hh] at hp'; cases hp'; rw [hp] at hbusy; cases hbusy
        · right; rw [hb]; exact hd
    | escape e =>
      simp only []
      have hb : base c file0 (release s p (.done (.loadCrash e)) .none) = base c file0 s := by
        rw [base_release]; rw [hfile] at hl; simp only [call, hl]
      rcases he with ⟨h0, hb0⟩ | ⟨h1, hd⟩
      · left; refine ⟨h0, fun q => ?_⟩
        simp only [release, setProc]; split
        · rfl
        · exact hb0 q
      · right; refine ⟨h1, ?_⟩
        rcases hd with ⟨p', hp', hbusy⟩ | hd
        · rw [hh] at hp'; cases hp'; rw [hp] at hbusy; cases hbusy
        · right; rw [hb]; exact hd
    | miss =>
      simp only []
      rcases he with ⟨h0, hb0⟩ | ⟨h1, hd⟩
      · right; refine ⟨by simp [h0], Or.inl ⟨p, hh, ?_⟩⟩
        simp [setProc, PState.busy]
      · exfalso
        rcases hd with ⟨p', hp', hbusy⟩ | hd
        · rw [hh] at hp'; cases hp'; rw [hp] at hbusy; cases hbusy
        · rw [← hfile, hl] at hd; cases hd
  | computing =>
    have hcr : (s.procs p).critical = true := by rw [hp]; rfl
    have hh := hs.mutex p hcr
    simp only [hf]
    rcases he with ⟨h0, hb0⟩ | ⟨h1, hd⟩
    · have := hb0 p; rw [hp] at this; cases this
    · right; refine ⟨h1, Or.inl ⟨p, hh, ?_⟩⟩
      simp [setProc, PState.busy]
  | writing k =>
    have hcr : (s.procs p).critical = true := by rw [hp]; rfl
    have hh := hs.mutex p hcr
    have hfile := hs.file
    unfold FileRel at hfile; simp only [hh, hp] at hfile
    obtain ⟨v', l', hc, hk, hfl, hm⟩ := hfile
    rw [hf] at hc; cases hc
    simp only [hf]
    rcases he with ⟨h0, hb0⟩ | ⟨h1, hd⟩
    · have := hb0 p; rw [hp] at this; cases this
    · by_cases hlt : k < (entryBytes c p v l).length
      · rw [dif_pos hlt]
        right; refine ⟨h1, Or.inl ⟨p, hh, ?_⟩⟩
        simp [setProc, PState.busy]
      · rw [dif_neg hlt]
        right; refine ⟨h1, Or.inr ?_⟩
        rw [base_release]
        simp only [call, hm, hf]
        -- the base was a proper prefix (lookup missed), so the complete write leaves exactly the entry
        unfold Good at hgood; rw [hf] at hgood
        have hpre : base c file0 s <+: entryBytes c 0 v l := by
          rcases hgood with h | h
          · exact h
          · have := lookup_complete c P hf _ h; rw [hm] at this; cases this
        rw [P.h3 v l p 0 hf, overlay_full _ _ hpre]
        exact lookup_complete c P hf _ (List.prefix_refl _)
  | done out => exact he
  | dead => exact he

end NutilsVerif.C18
