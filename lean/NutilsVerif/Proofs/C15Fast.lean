import NutilsVerif.Proofs.C15Valid
/-!
# C15 — `assemble_block_csr`: the single-block fast path equals the generic row-by-row path,
and empty blocks can be skipped
-/
namespace NutilsVerif.C15

/-- one iteration of the generic path -/
def stepF (data : List BData) (a : Acc) (irow : Nat) : Acc :=
  let (vs, cs, dp) := genRow data irow
  { values := a.values ++ vs, colidx := a.colidx ++ cs, rowptr := a.rowptr ++ [a.ptr + dp],
    any := a.any || !data.isEmpty }

theorem genericRows_eq (data : List BData) (n : Nat) (a : Acc) :
    genericRows data n a = (List.range n).foldl (stepF data) a := rfl

theorem genericRows_succ (data : List BData) (n : Nat) (a : Acc) :
    genericRows data (n+1) a = stepF data (genericRows data n a) n := by
  simp [genericRows_eq, List.range_succ, List.foldl_append]

theorem genRow_single (d : BData) (k : Nat) :
    genRow [d] k = (pySlice d.1 (d.2.1.getD k 0) (d.2.1.getD (k+1) 0), pySlice d.2.2 (d.2.1.getD k 0) (d.2.1.getD (k+1) 0),
      d.2.1.getD (k+1) 0 - d.2.1.getD k 0) := by
  simp [genRow]

theorem take_slice {α : Type} (l : List α) (i j : Int) (h0 : 0 ≤ i) (hij : i ≤ j) :
    l.take i.toNat ++ pySlice l i j = l.take j.toNat := by
  unfold pySlice
  have e : j.toNat = i.toNat + (j - i).toNat := by omega
  rw [e, List.take_add]

theorem ptr_snoc (v r c : List Int) (y : Int) (b : Bool) :
    ({ values := v, rowptr := r ++ [y], colidx := c, any := b } : Acc).ptr = y := by
  simp [Acc.ptr]

/-- the state of the generic path on a single block after `k` rows -/
theorem generic_single (vs rp cs : List Int) (nr : Nat) (a : Acc)
    (h0 : rp.getD 0 0 = 0) (hm : ∀ i, i < nr → 0 ≤ rp.getD i 0 ∧ rp.getD i 0 ≤ rp.getD (i+1) 0) :
    ∀ k, k ≤ nr →
      let g := genericRows [(vs, rp, cs)] k a
      g.values = a.values ++ vs.take (rp.getD k 0).toNat ∧
      g.colidx = a.colidx ++ cs.take (rp.getD k 0).toNat ∧
      g.rowptr = a.rowptr ++ (List.range k).map (fun i => a.ptr + rp.getD (i+1) 0) ∧
      g.ptr = a.ptr + rp.getD k 0 ∧
      g.any = (a.any || decide (0 < k))
  | 0, _ => by
    have h0' : rp[0]?.getD 0 = 0 := by simpa [List.getD_eq_getElem?_getD] using h0
    simp [genericRows_eq, h0']
  | k+1, hk => by
    obtain ⟨iv, ic, ir, ip, ia⟩ := generic_single vs rp cs nr a h0 hm k (by omega)
    obtain ⟨hk0, hk1⟩ := hm k (by omega)
    simp only at iv ic ir ip ia ⊢
    rw [genericRows_succ]
    unfold stepF
    rw [genRow_single]
    simp only [iv, ic, ir, ip, ia]
    refine ⟨?_, ?_, ?_, ?_, ?_⟩
    · rw [List.append_assoc, take_slice vs _ _ hk0 hk1]
    · rw [List.append_assoc, take_slice cs _ _ hk0 hk1]
    · rw [List.range_succ, List.map_append, List.append_assoc]
      congr 2
      simp only [List.map_cons, List.map_nil]
      congr 1
      omega
    · rw [ptr_snoc]; omega
    · simp

/-- **single-block fast path.**  For a block that passed the per-block validation (row pointers start at 0, are
monotone, end at `len(values) = len(colidx)`) and has at least one entry, the fast path
(`values.append(v); rowptr.extend(rp[1:] + ptr); colidx.append(ci)`) leaves the accumulated lists in exactly the state
the generic row-by-row path would produce. -/
theorem fast_eq_generic' (vs rp cs : List Int) (a : Acc)
    (hrp : rowptrOK rp vs.length = true) (hlen : cs.length = vs.length) (hne : vs ≠ []) :
    genericRows [(vs, rp, cs)] (rp.length - 1) a = fastRows (vs, rp, cs) a := by
  obtain ⟨t, rfl, hmono, hlast⟩ := (rowptrOK_iff rp vs.length).1 hrp
  have hpw := (monotone_iff_pairwise _).1 hmono
  have hget : ∀ i, i < t.length → 0 ≤ (0 :: t).getD i 0 ∧ (0 :: t).getD i 0 ≤ (0 :: t).getD (i+1) 0 := by
    intro i hi
    have h1 : (0 :: t).getD i 0 = (0 :: t)[i]'(by simp; omega) := by simp [List.getD_eq_getElem?_getD, hi, Nat.lt_succ_of_lt]
    have h2 : (0 :: t).getD (i+1) 0 = (0 :: t)[i+1]'(by simp; omega) := by simp [List.getD_eq_getElem?_getD, hi]
    rw [h1, h2]
    constructor
    · cases i with
      | zero => simp
      | succ i => exact (List.pairwise_cons.1 hpw).1 _ (List.getElem_mem _)
    · exact (List.pairwise_iff_getElem.1 hpw) i (i+1) _ _ (by omega)
  obtain ⟨gv, gc, gr, _, ga⟩ := generic_single vs (0 :: t) cs t.length a (by simp) hget t.length (Nat.le_refl _)
  have hend : ((0 :: t).getD t.length 0).toNat = vs.length := by
    have : (0 :: t).getLast? = (0 :: t)[t.length]? := by rw [List.getLast?_eq_getElem?]; simp
    rw [this] at hlast
    have h3 : (0 :: t).getD t.length 0 = (vs.length : Int) := by rw [List.getD_eq_getElem?_getD, hlast]; rfl
    rw [h3]; simp
  have htpos : 0 < t.length := by
    cases t with
    | nil => simp at hlast; exact absurd (List.length_eq_zero_iff.1 (by omega)) hne
    | cons _ _ => simp
  simp only [List.length_cons, Nat.add_sub_cancel] at *
  generalize hg : genericRows [(vs, (0 :: t), cs)] t.length a = g at gv gc gr ga
  cases g with
  | mk v r c y =>
    simp only at gv gc gr ga
    simp only [fastRows, Acc.mk.injEq]
    refine ⟨?_, ?_, ?_, ?_⟩
    · rw [gv, hend, List.take_length]
    · rw [gr]
      congr 1
      apply List.ext_getElem
      · simp
      · intro i h1 h2
        simp at h1
        simp [List.getD_eq_getElem?_getD, h1, Int.add_comm]
    · rw [gc, hend, ← hlen, List.take_length]
    · simp [ga, htpos]

/-- **skipping empty blocks.**  A block without entries that passed the per-block validation contributes nothing
to any row of the generic path. -/
theorem genRow_skip_empty (rp cs : List Int) (rest : List BData) (irow : Nat)
    (hrp : rowptrOK rp 0 = true) (hlen : cs.length = 0) (hi : irow + 1 < rp.length) :
    genRow (([], rp, cs) :: rest) irow = genRow rest irow := by
  obtain ⟨t, rfl, hmono, hlast⟩ := (rowptrOK_iff rp 0).1 hrp
  have hcs : cs = [] := List.length_eq_zero_iff.1 hlen
  subst hcs
  -- every pointer of an empty valid block is 0
  have hall : ∀ x ∈ (0 :: t), x = 0 := by
    intro x hx
    have h1 : (0:Int) ≤ x := by
      rcases List.mem_cons.1 hx with rfl | hx
      · exact Int.le_refl _
      · exact mono_tail_ge t 0 hmono x hx
    have hpw := (monotone_iff_pairwise _).1 hmono
    have hlast' : (0 :: t).getLast? = some 0 := by simpa using hlast
    obtain ⟨i, hi', rfl⟩ := List.mem_iff_getElem.1 hx
    have hl : (0 :: t)[(0 :: t).length - 1]'(by simp) = 0 := by
      have := List.getLast?_eq_getElem? (l := 0 :: t)
      rw [hlast'] at this
      have h2 : (0 :: t)[(0 :: t).length - 1]? = some ((0 :: t)[(0 :: t).length - 1]'(by simp)) := List.getElem?_eq_getElem _
      rw [h2] at this
      exact (Option.some.inj this).symm
    by_cases hlt : i < (0 :: t).length - 1
    · have := (List.pairwise_iff_getElem.1 hpw) i ((0 :: t).length - 1) hi' (by simp) hlt
      omega
    · have : i = (0 :: t).length - 1 := by omega
      subst this; exact hl
  have g0 : (0 :: t).getD irow 0 = 0 := by
    have hi0 : irow < (0 :: t).length := by omega
    have : (0 :: t).getD irow 0 = (0 :: t)[irow]'hi0 := by
      simp only [List.getD_eq_getElem?_getD]; rw [List.getElem?_eq_getElem hi0]; rfl
    rw [this]; exact hall _ (List.getElem_mem _)
  have g1 : (0 :: t).getD (irow+1) 0 = 0 := by
    have : (0 :: t).getD (irow+1) 0 = (0 :: t)[irow+1]'hi := by
      simp only [List.getD_eq_getElem?_getD]; rw [List.getElem?_eq_getElem hi]; rfl
    rw [this]; exact hall _ (List.getElem_mem _)
  unfold genRow
  simp only [List.foldl_cons, g0, g1, pySlice]
  simp

end NutilsVerif.C15
