import NutilsVerif.Model.C12
import NutilsVerif.Proofs.C12Struct
/-!
# C12 — generic dof bookkeeping: Legendre, Discont, Masked, Pruned, Plain (`_computed_support`)
-/
namespace NutilsVerif.C12

theorem getD_eq_of_getElem? {l : List Nat} {k x : Nat} (h : l[k]? = some x) (d : Nat) : l.getD k d = x := by
  rw [List.getD_eq_getElem?_getD, h]; rfl

theorem getElem?_of_lt_getD {l : List Nat} {k : Nat} (h : k < l.length) (d : Nat) : l[k]? = some (l.getD k d) := by
  rw [List.getD_eq_getElem?_getD, List.getElem?_eq_getElem h]; rfl

/-! ### Legendre -/

theorem legendre_inverse (p d e : Nat) : e ∈ legendreSupport p d ↔ d ∈ legendreDofs p e := by
  unfold legendreSupport legendreDofs
  simp only [List.mem_singleton, List.mem_map, List.mem_range]
  have hp : 0 < p + 1 := Nat.succ_pos _
  constructor
  · intro h
    subst h
    refine ⟨d % (p+1), Nat.mod_lt _ hp, ?_⟩
    have := Nat.div_add_mod d (p+1)
    rw [Nat.mul_comm] at this; omega
  · rintro ⟨r, hr, rfl⟩
    rw [Nat.add_comm, Nat.mul_comm, Nat.mul_add_div hp, Nat.div_eq_of_lt hr]; simp

/-! ### Discont -/

/-- prefix sums -/
def psum (sizes : List Nat) (k : Nat) : Nat := (sizes.take k).sum

theorem psum_succ (sizes : List Nat) (k : Nat) : psum sizes (k+1) = psum sizes k + sizes.getD k 0 := by
  unfold psum
  induction sizes generalizing k with
  | nil => simp
  | cons a t ih =>
    cases k with
    | zero => simp
    | succ k =>
      simp only [List.take_succ_cons, List.sum_cons, List.getD_cons_succ]
      rw [ih k]; omega

theorem psum_mono (sizes : List Nat) {a b : Nat} (h : a ≤ b) : psum sizes a ≤ psum sizes b := by
  induction b with
  | zero => have : a = 0 := by omega
            subst this; exact Nat.le_refl _
  | succ b ih =>
    by_cases hab : a = b + 1
    · subst hab; exact Nat.le_refl _
    · have := ih (by omega)
      rw [psum_succ]; omega

theorem psum_total (sizes : List Nat) : psum sizes sizes.length = sizes.sum := by
  unfold psum; rw [List.take_length]

theorem discont_offsets_getD (sizes : List Nat) (k : Nat) (hk : k < sizes.length) :
    ((discontOffsets sizes).take sizes.length).getD k 0 = psum sizes k ∧ (discontOffsets sizes).getD k 0 = psum sizes k := by
  have h2 : (discontOffsets sizes).getD k 0 = psum sizes k := by
    unfold discontOffsets
    cases k with
    | zero => simp [psum]
    | succ k =>
      simp only [List.getD_cons_succ]
      rw [cumsum_getD _ _ (by omega)]; rfl
  refine ⟨?_, h2⟩
  rw [← h2, List.getD_eq_getElem?_getD, List.getD_eq_getElem?_getD, List.getElem?_take]
  simp [hk]

theorem discont_offsets_sorted (sizes : List Nat) : ((discontOffsets sizes).take sizes.length).Pairwise (· ≤ ·) := by
  apply List.Pairwise.sublist (List.take_sublist _ _)
  unfold discontOffsets
  rw [List.pairwise_cons]
  exact ⟨fun _ _ => Nat.zero_le _, cumsum_sorted _⟩

theorem mem_discontDofs (sizes : List Nat) (e d : Nat) :
    d ∈ discontDofs sizes e ↔ e < sizes.length ∧ psum sizes e ≤ d ∧ d < psum sizes (e+1) := by
  unfold discontDofs
  simp only [List.mem_map, List.mem_range]
  by_cases he : e < sizes.length
  · rw [(discont_offsets_getD sizes e he).2, psum_succ]
    constructor
    · rintro ⟨r, hr, rfl⟩; exact ⟨he, by omega, by omega⟩
    · rintro ⟨_, h1, h2⟩; exact ⟨d - psum sizes e, by omega, by omega⟩
  · have : sizes.getD e 0 = 0 := by
      rw [List.getD_eq_getElem?_getD, List.getElem?_eq_none (by omega)]; rfl
    rw [this]
    constructor
    · rintro ⟨r, hr, _⟩; omega
    · rintro ⟨h, _⟩; exact absurd h he

/-- `DiscontBasis.get_support` is the inverse of `get_dofs` -/
theorem discont_inverse (sizes : List Nat) (d : Nat) (hd : d < sizes.sum) (e : Nat) :
    e ∈ discontSupport sizes d ↔ d ∈ discontDofs sizes e := by
  rw [mem_discontDofs]
  unfold discontSupport
  simp only [List.mem_singleton]
  have hs := discont_offsets_sorted sizes
  have hlenO : ((discontOffsets sizes).take sizes.length).length = sizes.length := by
    rw [List.length_take]; simp [discontOffsets, length_cumsum]
  have key : ∀ k, k < ssr ((discontOffsets sizes).take sizes.length) d ↔ k < sizes.length ∧ psum sizes k ≤ d := by
    intro k
    rw [lt_ssr_iff hs, hlenO]
    constructor
    · rintro ⟨h1, h2⟩; rw [(discont_offsets_getD sizes k h1).1] at h2; exact ⟨h1, h2⟩
    · rintro ⟨h1, h2⟩; rw [(discont_offsets_getD sizes k h1).1]; exact ⟨h1, h2⟩
  have hn : 0 < sizes.length := by
    rcases Nat.eq_zero_or_pos sizes.length with h | h
    · have : sizes = [] := List.eq_nil_of_length_eq_zero h
      subst this; simp at hd
    · exact h
  have h0 : 0 < ssr ((discontOffsets sizes).take sizes.length) d := (key 0).mpr ⟨hn, by simp [psum]⟩
  generalize ssr ((discontOffsets sizes).take sizes.length) d = S at key h0
  constructor
  · intro he
    subst he
    have h1 := (key (S - 1)).mp (by omega)
    refine ⟨h1.1, h1.2, ?_⟩
    by_cases hlast : S - 1 + 1 < sizes.length
    · have : ¬ (S - 1 + 1 < S) := by omega
      rw [key] at this
      by_cases h : psum sizes (S - 1 + 1) ≤ d
      · exact absurd ⟨hlast, h⟩ this
      · omega
    · have : S - 1 + 1 = sizes.length := by omega
      rw [this, psum_total]; exact hd
  · rintro ⟨he, h1, h2⟩
    have h3 : e < S := (key e).mpr ⟨he, h1⟩
    have h4 : ¬ (e + 1 < S) := by
      rw [key]; rintro ⟨_, h⟩; omega
    omega

/-! ### `numeric.invmap` -/

def setPairs (a : List Nat) (ps : List (Nat × Nat)) : List Nat := ps.foldl (fun a ix => a.set ix.1 ix.2) a

theorem length_setPairs (a : List Nat) (ps : List (Nat × Nat)) : (setPairs a ps).length = a.length := by
  unfold setPairs
  induction ps generalizing a with
  | nil => rfl
  | cons q t ih => simp only [List.foldl_cons]; rw [ih]; simp

theorem setPairs_not_key (a : List Nat) (ps : List (Nat × Nat)) (x dflt : Nat) (h : x ∉ ps.map (·.1)) :
    (setPairs a ps).getD x dflt = a.getD x dflt := by
  unfold setPairs
  induction ps generalizing a with
  | nil => rfl
  | cons q t ih =>
    simp only [List.foldl_cons]
    simp only [List.map_cons, List.mem_cons, not_or] at h
    rw [ih _ h.2, List.getD_eq_getElem?_getD, List.getD_eq_getElem?_getD, List.getElem?_set]
    have : ¬ q.1 = x := fun e => h.1 e.symm
    simp [this]

theorem setPairs_key (a : List Nat) (ps : List (Nat × Nat)) (k v dflt : Nat) (hmem : (k, v) ∈ ps)
    (hnd : (ps.map (·.1)).Nodup) (hk : k < a.length) : (setPairs a ps).getD k dflt = v := by
  induction ps generalizing a with
  | nil => cases hmem
  | cons q t ih =>
    simp only [List.map_cons, List.nodup_cons] at hnd
    rcases List.mem_cons.mp hmem with h | h
    · subst h
      show (setPairs (a.set k v) t).getD k dflt = v
      rw [setPairs_not_key _ _ _ _ hnd.1, List.getD_eq_getElem?_getD, List.getElem?_set]
      simp [hk]
    · show (setPairs (a.set q.1 q.2) t).getD k dflt = v
      exact ih _ h hnd.2 (by simpa using hk)

theorem invmap_hit (indices : List Nat) (length missing k : Nat) (hnd : indices.Nodup)
    (hk : k < indices.length) (hr : indices.getD k 0 < length) :
    (invmap indices length missing).getD (indices.getD k 0) missing = k := by
  have : invmap indices length missing = setPairs (List.replicate length missing) indices.zipIdx := rfl
  rw [this]
  apply setPairs_key
  · rw [List.mem_zipIdx_iff_getElem?]; exact getElem?_of_lt_getD hk 0
  · rw [List.zipIdx_map_fst]; exact hnd
  · simpa using hr

theorem invmap_miss (indices : List Nat) (length missing x : Nat) (h : x ∉ indices) :
    (invmap indices length missing).getD x missing = missing := by
  have : invmap indices length missing = setPairs (List.replicate length missing) indices.zipIdx := rfl
  rw [this, setPairs_not_key _ _ _ _ (by rw [List.zipIdx_map_fst]; exact h)]
  rw [List.getD_eq_getElem?_getD]
  by_cases hx : x < length
  · simp [hx]
  · simp [hx]

theorem mem_iff_getD {l : List Nat} {x : Nat} : x ∈ l ↔ ∃ k, k < l.length ∧ l.getD k 0 = x := by
  rw [List.mem_iff_getElem?]
  constructor
  · rintro ⟨k, hk⟩
    have hlt : k < l.length := by
      by_cases h : k < l.length
      · exact h
      · rw [List.getElem?_eq_none (by omega)] at hk; cases hk
    exact ⟨k, hlt, getD_eq_of_getElem? hk 0⟩
  · rintro ⟨k, hk, rfl⟩; exact ⟨k, getElem?_of_lt_getD hk 0⟩

/-- renumbering through `invmap`: the value `d < len` is produced exactly by the parent dof `indices[d]` -/
theorem renumber_iff (indices : List Nat) (nparent : Nat) (hnd : indices.Nodup) (hr : ∀ i ∈ indices, i < nparent)
    (x d : Nat) (hd : d < indices.length) :
    (invmap indices nparent indices.length).getD x indices.length = d ↔ x = indices.getD d 0 := by
  constructor
  · intro h
    by_cases hx : x ∈ indices
    · obtain ⟨k, hk, rfl⟩ := mem_iff_getD.mp hx
      rw [invmap_hit indices nparent _ k hnd hk (hr _ hx)] at h
      rw [h]
    · rw [invmap_miss _ _ _ _ hx] at h; omega
  · intro h
    subst h
    exact invmap_hit indices nparent _ d hnd hd (hr _ (mem_iff_getD.mpr ⟨d, hd, rfl⟩))

/-! ### Masked -/

theorem mem_maskedDofs (pd indices : List Nat) (nparent : Nat) (hnd : indices.Nodup) (hr : ∀ i ∈ indices, i < nparent)
    (d : Nat) : d ∈ maskedDofs pd indices nparent ↔ d < indices.length ∧ indices.getD d 0 ∈ pd := by
  unfold maskedDofs
  simp only [List.mem_filter, List.mem_map, decide_eq_true_eq]
  constructor
  · rintro ⟨⟨x, hx, hxd⟩, hd⟩
    refine ⟨hd, ?_⟩
    rw [← (renumber_iff indices nparent hnd hr x d hd).mp hxd]; exact hx
  · rintro ⟨hd, hx⟩
    exact ⟨⟨_, hx, (renumber_iff indices nparent hnd hr _ d hd).mpr rfl⟩, hd⟩

/-- `MaskedBasis`: if the parent's `get_support` is the inverse of its `get_dofs`, so is the masked one's -/
theorem masked_inverse (pD pS : Nat → List Nat) (hpar : ∀ e d, e ∈ pS d ↔ d ∈ pD e)
    (indices : List Nat) (nparent : Nat) (hnd : indices.Nodup) (hr : ∀ i ∈ indices, i < nparent)
    (d : Nat) (hd : d < indices.length) (e : Nat) :
    e ∈ maskedSupport pS indices d ↔ d ∈ maskedDofs (pD e) indices nparent := by
  rw [mem_maskedDofs _ _ _ hnd hr]
  unfold maskedSupport
  rw [hpar]
  exact ⟨fun h => ⟨hd, h⟩, fun h => h.2⟩

/-! ### Pruned -/

theorem uniq_nodup (l : List Nat) : (uniq l).Nodup :=
  List.Nodup.sublist List.filter_sublist List.nodup_range

theorem idxOf_getD_of_nodup {l : List Nat} (hnd : l.Nodup) {e : Nat} (he : e < l.length) :
    l.idxOf (l.getD e 0) = e := by
  induction l generalizing e with
  | nil => simp at he
  | cons a t ih =>
    rw [List.nodup_cons] at hnd
    cases e with
    | zero => simp [List.idxOf_cons]
    | succ e =>
      have he' : e < t.length := by simpa using he
      have hne : ¬ a = t.getD e 0 := fun h => hnd.1 (h ▸ getD_mem he')
      show List.idxOf (t.getD e 0) (a :: t) = e + 1
      rw [List.idxOf_cons]
      have hb : (a == t.getD e 0) = false := by
        cases hx : (a == t.getD e 0) with
        | false => rfl
        | true => exact absurd (eq_of_beq hx) hne
      rw [hb, ih hnd.2 he']; rfl

theorem mem_prunedSupport (pD pS : Nat → List Nat) (transmap : List Nat) (hnd : transmap.Nodup) (d e : Nat) :
    e ∈ prunedSupport pD pS transmap d ↔
      e < transmap.length ∧ transmap.getD e 0 ∈ pS ((prunedDofmap pD transmap).getD d 0) := by
  unfold prunedSupport
  simp only [List.mem_filterMap]
  constructor
  · rintro ⟨pe, hpe, h⟩
    split at h
    · rename_i hlt
      injection h with h
      subst h
      refine ⟨hlt, ?_⟩
      have e1 : transmap.getD (List.idxOf pe transmap) 0 = pe := by
        rw [List.getD_eq_getElem?_getD, List.getElem?_eq_getElem hlt]
        simp [List.getElem_idxOf hlt]
      rw [e1]; exact hpe
    · cases h
  · rintro ⟨he, hmem⟩
    refine ⟨_, hmem, ?_⟩
    rw [idxOf_getD_of_nodup hnd he]
    simp [he]

theorem mem_prunedDofs (pD : Nat → List Nat) (transmap : List Nat) (nparent : Nat)
    (hr : ∀ e x, x ∈ pD e → x < nparent) (e : Nat) (_he : e < transmap.length) (d : Nat)
    (hd : d < (prunedDofmap pD transmap).length) :
    d ∈ prunedDofs pD transmap nparent e ↔ (prunedDofmap pD transmap).getD d 0 ∈ pD (transmap.getD e 0) := by
  unfold prunedDofs
  simp only [List.mem_map]
  have hnd : (prunedDofmap pD transmap).Nodup := uniq_nodup (transmap.flatMap pD)
  have hrange : ∀ i ∈ prunedDofmap pD transmap, i < nparent := by
    intro i hi
    unfold prunedDofmap at hi
    rw [mem_uniq, List.mem_flatMap] at hi
    obtain ⟨t, _, ht⟩ := hi
    exact hr t i ht
  constructor
  · rintro ⟨x, hx, hxd⟩
    rw [← (renumber_iff _ nparent hnd hrange x d hd).mp hxd]; exact hx
  · intro hx
    exact ⟨_, hx, (renumber_iff _ nparent hnd hrange _ d hd).mpr rfl⟩

/-- `PrunedBasis`: if the parent's `get_support` is the inverse of its `get_dofs`, so is the pruned one's -/
theorem pruned_inverse (pD pS : Nat → List Nat) (hpar : ∀ e d, e ∈ pS d ↔ d ∈ pD e)
    (transmap : List Nat) (nparent : Nat) (hnd : transmap.Nodup) (hr : ∀ e x, x ∈ pD e → x < nparent)
    (d : Nat) (hd : d < (prunedDofmap pD transmap).length) (e : Nat) :
    e ∈ prunedSupport pD pS transmap d ↔ e < transmap.length ∧ d ∈ prunedDofs pD transmap nparent e := by
  rw [mem_prunedSupport _ _ _ hnd]
  constructor
  · rintro ⟨he, h⟩
    exact ⟨he, (mem_prunedDofs pD transmap nparent hr e he d hd).mpr ((hpar _ _).mp h)⟩
  · rintro ⟨he, h⟩
    exact ⟨he, (hpar _ _).mpr ((mem_prunedDofs pD transmap nparent hr e he d hd).mp h)⟩

/-! ### Plain: `Basis._computed_support` -/

theorem getD_modify (supp : List (List Nat)) (dof i d : Nat) :
    (supp.modify dof (· ++ [i])).getD d [] =
      if dof = d ∧ d < supp.length then supp.getD d [] ++ [i] else supp.getD d [] := by
  rw [List.getD_eq_getElem?_getD, List.getD_eq_getElem?_getD, List.getElem?_modify]
  by_cases hd : d < supp.length
  · rw [List.getElem?_eq_getElem hd]
    by_cases h : dof = d <;> simp [h, hd]
  · rw [List.getElem?_eq_none (by omega)]
    simp [hd]

theorem inner_fold (L : List Nat) (supp : List (List Nat)) (i d e : Nat) :
    (e ∈ (L.foldl (fun s dof => s.modify dof (· ++ [i])) supp).getD d [] ↔
      e ∈ supp.getD d [] ∨ (e = i ∧ d ∈ L ∧ d < supp.length)) ∧
    (L.foldl (fun s dof => s.modify dof (· ++ [i])) supp).length = supp.length := by
  induction L generalizing supp with
  | nil => simp
  | cons a t ih =>
    simp only [List.foldl_cons]
    obtain ⟨h1, h2⟩ := ih (supp.modify a (· ++ [i]))
    rw [h1, h2, getD_modify, List.length_modify]
    refine ⟨?_, rfl⟩
    by_cases hc : a = d ∧ d < supp.length
    · rw [if_pos hc]
      simp only [List.mem_append, List.mem_cons, List.not_mem_nil, or_false]
      obtain ⟨rfl, hlt⟩ := hc
      constructor
      · rintro ((h | h) | ⟨h1, h2, h3⟩)
        · left; exact h
        · right; exact ⟨h, Or.inl rfl, hlt⟩
        · right; exact ⟨h1, Or.inr h2, h3⟩
      · rintro (h | ⟨h1, h2 | h2, h3⟩)
        · left; left; exact h
        · left; right; exact h1
        · right; exact ⟨h1, h2, h3⟩
    · rw [if_neg hc]
      simp only [List.mem_cons]
      constructor
      · rintro (h | ⟨h1, h2, h3⟩)
        · left; exact h
        · right; exact ⟨h1, Or.inr h2, h3⟩
      · rintro (h | ⟨h1, h2 | h2, h3⟩)
        · left; exact h
        · exact absurd ⟨h2.symm, h3⟩ hc
        · right; exact ⟨h1, h2, h3⟩

/-- `Basis._computed_support` lists, for every dof, exactly the elements whose dof list contains it -/
theorem computedSupport_iff (ndofs : Nat) (table : List (List Nat)) (d : Nat) (hd : d < ndofs) (e : Nat) :
    e ∈ (computedSupport ndofs table).getD d [] ↔ e < table.length ∧ d ∈ table.getD e [] := by
  unfold computedSupport
  have key : ∀ n, n ≤ table.length →
      let s := (List.range n).foldl (fun supp ielem => (uniq (table.getD ielem [])).foldl
          (fun supp dof => supp.modify dof (· ++ [ielem])) supp) (List.replicate ndofs [])
      (e ∈ s.getD d [] ↔ e < n ∧ d ∈ table.getD e []) ∧ s.length = ndofs := by
    intro n
    induction n with
    | zero =>
      intro _
      simp only [List.range_zero, List.foldl_nil, List.length_replicate, and_true]
      rw [List.getD_eq_getElem?_getD]
      simp [hd]
    | succ n ih =>
      intro hn
      obtain ⟨ih1, ih2⟩ := ih (by omega)
      simp only [List.range_succ, List.foldl_append, List.foldl_cons, List.foldl_nil]
      obtain ⟨h1, h2⟩ := inner_fold (uniq (table.getD n [])) ((List.range n).foldl (fun supp ielem => (uniq (table.getD ielem [])).foldl
          (fun supp dof => supp.modify dof (· ++ [ielem])) supp) (List.replicate ndofs [])) n d e
      refine ⟨?_, by rw [h2]; exact ih2⟩
      rw [h1, ih1, ih2, mem_uniq]
      constructor
      · rintro (⟨h, h'⟩ | ⟨rfl, h, _⟩)
        · exact ⟨by omega, h'⟩
        · exact ⟨by omega, h⟩
      · rintro ⟨h, h'⟩
        by_cases hen : e = n
        · subst hen; right; exact ⟨rfl, h', hd⟩
        · left; exact ⟨by omega, h'⟩
  exact (key table.length (Nat.le_refl _)).1

end NutilsVerif.C12
