import NutilsVerif.Proofs.C17Inj
import Std.Data.String.ToInt
/-!
# C17 — the structural induction
-/
namespace NutilsVerif.C17

variable {H : Bytes → Bytes}

theorem cf_children {v w : Value} {xs ys : List Value} (cf : CollisionFree H (fed H v) (fed H w))
    (hv : ∀ a ∈ fedL H xs, a ∈ fed H v) (hw : ∀ a ∈ fedL H ys, a ∈ fed H w) :
    CollisionFree H (fedL H xs) (fedL H ys) := cf.mono hv hw

-- tactic: the generic opening of a tagged case (names `w r hv hw rv rw' cf he` are those of the `intro`)
set_option hygiene false in
macro "open_tagged" : tactic => `(tactic| (
  cases r <;> simp only [wf, Bool.false_eq_true] at hv
  rcases obj_step _ _ w (by simp [wf, hv]) hw rv rw' cf he with ⟨p, hp, _⟩ | ⟨_, sw, hk, ht, hb⟩
  · cases hp
  cases w <;> simp [kind] at hk))

theorem leaf_inj {v w : Value} {a b : Bytes} (cf : CollisionFree H (fed H v) (fed H w))
    (ha : a ∈ fed H v) (hb : b ∈ fed H w) (h : H a = H b) : a = b := cf a ha b hb h

mutual
theorem inj_core (hlen : ∀ b, (H b).length = 20) (reg : Registry) : (v : Value) → InjAt H reg v
  | .none => by
    intro w r hv hw rv rw' cf he
    open_tagged
    exact .none
  | .ellipsis => by
    intro w r hv hw rv rw' cf he
    open_tagged
    exact .ellipsis
  | .bool b => by
    intro w r hv hw rv rw' cf he
    open_tagged
    rename_i b'
    simp only [body] at hb
    have := leaf_inj cf (a := if b then T "True" else T "False") (b := if b' then T "True" else T "False")
      (by simp [fed, leaf]) (by simp [fed, leaf]) hb
    have hbb : b = b' := by
      cases b <;> cases b' <;> first | rfl | (exfalso; revert this; decide)
    subst hbb
    exact .bool b
  | .int i => by
    intro w r hv hw rv rw' cf he
    open_tagged
    rename_i j
    simp only [body] at hb
    have := leaf_inj cf (a := utf8 (Int.repr i)) (b := utf8 (Int.repr j)) (by simp [fed, leaf]) (by simp [fed, leaf]) hb
    have := Int.repr_inj.mp (utf8_inj this)
    subst this
    exact .int i
  | .float a => by
    intro w r hv hw rv rw' cf he
    open_tagged
    rename_i b
    simp only [body] at hb
    have := leaf_inj cf (a := a) (b := b) (by simp [fed, leaf]) (by simp [fed, leaf]) hb
    subst this
    exact .float a
  | .complex a => by
    intro w r hv hw rv rw' cf he
    open_tagged
    rename_i b
    simp only [body] at hb
    have := leaf_inj cf (a := a) (b := b) (by simp [fed, leaf]) (by simp [fed, leaf]) hb
    subst this
    exact .complex a
  | .str a => by
    intro w r hv hw rv rw' cf he
    open_tagged
    rename_i b
    simp only [body] at hb
    have := leaf_inj cf (a := a) (b := b) (by simp [fed, leaf]) (by simp [fed, leaf]) hb
    subst this
    exact .str a
  | .bytes a => by
    intro w r hv hw rv rw' cf he
    open_tagged
    rename_i b
    simp only [body] at hb
    have := leaf_inj cf (a := a) (b := b) (by simp [fed, leaf]) (by simp [fed, leaf]) hb
    subst this
    exact .bytes a
  | .type a => by
    intro w r hv hw rv rw' cf he
    open_tagged
    rename_i b
    simp only [body] at hb
    have := leaf_inj cf (a := a) (b := b) (by simp [fed, leaf]) (by simp [fed, leaf]) hb
    subst this
    exact .type a
  | .tuple xs => by
    intro w r hv hw rv rw' cf he
    open_tagged
    rename_i ys
    simp only [body] at hb
    simp only [wf, respects, Bool.and_eq_true] at hv hw rv rw'
    exact .tuple (seq_children hlen reg xs ys (inj_coreL hlen reg xs) hv hw rv.2 rw'.2
      (cf.mono (by intro a ha; simp [fed, ha]) (by intro a ha; simp [fed, ha])) hb)
  | .list xs => by
    intro w r hv hw rv rw' cf he
    open_tagged
    rename_i ys
    simp only [body] at hb
    simp only [wf, respects, Bool.and_eq_true] at hv hw rv rw'
    exact .list (seq_children hlen reg xs ys (inj_coreL hlen reg xs) hv hw rv.2 rw'.2
      (cf.mono (by intro a ha; simp [fed, ha]) (by intro a ha; simp [fed, ha])) hb)
  | .dict xs => by
    intro w r hv hw rv rw' cf he
    open_tagged
    rename_i ys
    simp only [body] at hb
    simp only [wf, respects, Bool.and_eq_true] at hv hw rv rw'
    obtain ⟨ys', hp, hq⟩ := sorted_children hlen reg .pair xs ys (inj_coreL hlen reg xs) hv hw rv.2 rw'.2
      (cf.mono (by intro a ha; simp [fed, ha]) (by intro a ha; simp [fed, ha])) hb
    exact .dict hp hq
  | .set xs => by
    intro w r hv hw rv rw' cf he
    open_tagged
    rename_i ys
    simp only [body] at hb
    simp only [wf, respects, Bool.and_eq_true] at hv hw rv rw'
    obtain ⟨ys', hp, hq⟩ := sorted_children hlen reg .obj xs ys (inj_coreL hlen reg xs) hv hw rv.2 rw'.2
      (cf.mono (by intro a ha; simp [fed, ha]) (by intro a ha; simp [fed, ha])) hb
    exact .set hp hq
  | .frozenset xs => by
    intro w r hv hw rv rw' cf he
    open_tagged
    rename_i ys
    simp only [body] at hb
    simp only [wf, respects, Bool.and_eq_true] at hv hw rv rw'
    obtain ⟨ys', hp, hq⟩ := sorted_children hlen reg .obj xs ys (inj_coreL hlen reg xs) hv hw rv.2 rw'.2
      (cf.mono (by intro a ha; simp [fed, ha]) (by intro a ha; simp [fed, ha])) hb
    exact .frozenset hp hq
  | .bufio t p c => by
    intro w r hv hw rv rw' cf he
    open_tagged
    rename_i t' p' c'
    simp only [body, tagB] at hb ht
    subst ht
    exact .bufio t hb
  | .method s n => by
    intro w r hv hw rv rw' cf he
    open_tagged
    rename_i s' n'
    simp only [body] at hb
    simp only [wf, respects, Bool.and_eq_true] at hv hw rv rw'
    have l1 : (emit H s).length = (emit H s').length := by
      rw [emit_obj_len hlen s hv.1, emit_obj_len hlen s' hw.1]
    have := List.append_inj hb l1
    refine .method ?_ ?_
    · exact inj_core hlen reg s s' .obj hv.1 hw.1 rv.1.2 rw'.1.2
        (cf.mono (by intro a ha; simp [fed, ha]) (by intro a ha; simp [fed, ha])) this.1
    · exact inj_core hlen reg n n' .obj hv.2 hw.2 rv.2 rw'.2
        (cf.mono (by intro a ha; simp [fed, ha]) (by intro a ha; simp [fed, ha])) this.2
  | .ndarray sh dt d => by
    intro w r hv hw rv rw' cf he
    open_tagged
    rename_i sh' dt' d'
    simp only [body] at hb
    simp only [wf, noNul_iff] at hv hw
    have := split_nul hv hw hb
    rw [← this.2]
    exact .ndarray d this.1
  | .dataclass t xs => by
    intro w r hv hw rv rw' cf he
    open_tagged
    rename_i t' ys
    simp only [body, tagB] at hb ht
    subst ht
    simp only [wf, respects, Bool.and_eq_true] at hv hw rv rw'
    obtain ⟨ys', hp, hq⟩ := sorted_children hlen reg .obj xs ys (inj_coreL hlen reg xs) hv.2 hw.2 rv.2 rw'.2
      (cf.mono (by intro a ha; simp [fed, ha]) (by intro a ha; simp [fed, ha])) hb
    exact .dataclass t hp hq
  | .newargs t xs => by
    intro w r hv hw rv rw' cf he
    open_tagged
    rename_i t' ys
    simp only [body, tagB] at hb ht
    subst ht
    simp only [wf, respects, Bool.and_eq_true] at hv hw rv rw'
    exact .newargs t (seq_children hlen reg xs ys (inj_coreL hlen reg xs) hv.2 hw.2 rv.2 rw'.2
      (cf.mono (by intro a ha; simp [fed, ha]) (by intro a ha; simp [fed, ha])) hb)
  | .immutable m i xs => by
    intro w r hv hw rv rw' cf he
    open_tagged
    rename_i m' i' ys
    simp only [body, tagB] at hb ht
    simp only [wf, respects, Bool.and_eq_true] at hv hw rv rw'
    exact .immutable ht (seq_children hlen reg xs ys (inj_coreL hlen reg xs) hv.2 hw.2 rv.2 rw'.2
      (cf.mono (by intro a ha; simp [fed, ha]) (by intro a ha; simp [fed, ha])) hb)
  | .dclass t xs => by
    intro w r hv hw rv rw' cf he
    open_tagged
    rename_i t' ys
    simp only [body, tagB] at hb ht
    subst ht
    simp only [wf, respects, Bool.and_eq_true] at hv hw rv rw'
    exact .dclass t (seq_children hlen reg xs ys (inj_coreL hlen reg xs) hv.2 hw.2 rv.2 rw'.2
      (cf.mono (by intro a ha; simp [fed, ha]) (by intro a ha; simp [fed, ha])) hb)
  | .frozendict t xs => by
    intro w r hv hw rv rw' cf he
    open_tagged
    rename_i t' ys
    simp only [body, tagB] at hb ht
    subst ht
    simp only [wf, respects, Bool.and_eq_true] at hv hw rv rw'
    obtain ⟨ys', hp, hq⟩ := sorted_children hlen reg .pair xs ys (inj_coreL hlen reg xs) hv.2 hw.2 rv.2 rw'.2
      (cf.mono (by intro a ha; simp [fed, ha]) (by intro a ha; simp [fed, ha])) hb
    exact .frozendict t hp hq
  | .frozenmultiset t xs => by
    intro w r hv hw rv rw' cf he
    open_tagged
    rename_i t' ys
    simp only [body, tagB] at hb ht
    subst ht
    simp only [wf, respects, Bool.and_eq_true] at hv hw rv rw'
    obtain ⟨ys', hp, hq⟩ := sorted_children hlen reg .counted xs ys (inj_coreL hlen reg xs) hv.2 hw.2 rv.2 rw'.2
      (cf.mono (by intro a ha; simp [fed, ha]) (by intro a ha; simp [fed, ha])) hb
    exact .frozenmultiset t hp hq
  | .opaque p => by
    intro w r hv hw rv rw' cf he
    cases r <;> simp only [wf, Bool.false_eq_true] at hv
    rcases obj_step _ _ w (by simp [wf, hv]) hw rv rw' cf he with ⟨q, hq, hq'⟩ | ⟨sv, _⟩
    · cases hq; subst hq'; exact .opaque p
    · simp [shape] at sv
  | .pair k v => by
    intro w r hv hw rv rw' cf he
    cases r <;> simp only [wf, Bool.false_eq_true, Bool.and_eq_true] at hv
    cases w <;> simp only [wf, Bool.false_eq_true, Bool.and_eq_true] at hw
    rename_i k' v'
    simp only [respects, Bool.and_eq_true] at rv rw'
    have he' : emit H k ++ emit H v = emit H k' ++ emit H v' := he
    have l1 : (emit H k).length = (emit H k').length := by
      rw [emit_obj_len hlen k hv.1, emit_obj_len hlen k' hw.1]
    have := List.append_inj he' l1
    refine .pair ?_ ?_
    · exact inj_core hlen reg k k' .obj hv.1 hw.1 rv.1 rw'.1
        (cf.mono (by intro a ha; simp [fed, ha]) (by intro a ha; simp [fed, ha])) this.1
    · exact inj_core hlen reg v v' .obj hv.2 hw.2 rv.2 rw'.2
        (cf.mono (by intro a ha; simp [fed, ha]) (by intro a ha; simp [fed, ha])) this.2
  | .counted n v => by
    intro w r hv hw rv rw' cf he
    cases r <;> simp only [wf, Bool.false_eq_true, Bool.and_eq_true, decide_eq_true_eq] at hv
    cases w <;> simp only [wf, Bool.false_eq_true, Bool.and_eq_true, decide_eq_true_eq] at hw
    rename_i n' v'
    simp only [respects] at rv rw'
    have he' : fmt4 n ++ emit H v = fmt4 n' ++ emit H v' := he
    have l1 : (fmt4 n).length = (fmt4 n').length := by rw [fmt4_len hv.1, fmt4_len hw.1]
    have := List.append_inj he' l1
    have hn := fmt4_inj hv.1 hw.1 this.1
    subst hn
    exact .counted n (inj_core hlen reg v v' .obj hv.2 hw.2 rv rw'
      (cf.mono (by intro a ha; simp [fed, ha]) (by intro a ha; simp [fed, ha])) this.2)
  | .npscalar k v => by
    intro w r hv
    cases r <;> simp [wf] at hv
  | .unsupported t => by
    intro w r hv
    cases r <;> simp [wf] at hv
theorem inj_coreL (hlen : ∀ b, (H b).length = 20) (reg : Registry) : (xs : List Value) → ∀ x ∈ xs, InjAt H reg x
  | [], _, h => by simp at h
  | x :: xs, y, h => by
    by_cases e : y = x
    · exact e ▸ inj_core hlen reg x
    · exact inj_coreL hlen reg xs y (by simpa [e] using h)
end

end NutilsVerif.C17
