import NutilsVerif.Model.C10
/-!
# C10 (c) — helper lemmas: 1-D trimming with bisection partitions the element
-/
namespace NutilsVerif.C10

theorem pow_succ_mul (m n : Nat) : 2 ^ (m + 1) * 2 ^ n = 2 ^ m * 2 ^ n + 2 ^ m * 2 ^ n := by
  rw [Nat.pow_succ, Nat.mul_comm (2 ^ m) 2, Nat.mul_assoc, Nat.two_mul]

/-! ### `withChildren` -/

theorem vol_withChildren (ndiv m : Nat) (a b : Ref1) :
    vol ndiv (m + 1) (withChildren a b) = vol ndiv m a + vol ndiv m b := by
  unfold withChildren
  split
  · rename_i h; rw [h.1, h.2]; simp [vol]
  · split
    · rename_i h; rw [h.1, h.2]; simp only [vol]; exact pow_succ_mul m ndiv
    · simp [vol]

theorem compl_withChildren (a b : Ref1) : compl (withChildren a b) = withChildren (compl a) (compl b) := by
  unfold withChildren
  split
  · rename_i h; rw [h.1, h.2]; simp [compl]
  · split
    · rename_i h; rw [h.1, h.2]; simp [compl]
    · simp [compl, withChildren]

theorem hasLo_withChildren (a b : Ref1) : hasLo (withChildren a b) = hasLo a := by
  unfold withChildren
  split
  · rename_i h; rw [h.1]
  · split
    · rename_i h; rw [h.1]
    · rfl

theorem hasHi_withChildren (a b : Ref1) : hasHi (withChildren a b) = hasHi b := by
  unfold withChildren
  split
  · rename_i h; rw [h.2]
  · split
    · rename_i h; rw [h.2]
    · rfl

theorem cuts_withChildren (ndiv m o : Nat) (a b : Ref1) :
    cuts ndiv (m + 1) o (withChildren a b) =
      cuts ndiv m o a ++ (if hasHi a && !hasLo b then [(o + 2 ^ m * 2 ^ ndiv, true)]
          else if hasLo b && !hasHi a then [(o + 2 ^ m * 2 ^ ndiv, false)] else [])
        ++ cuts ndiv m (o + 2 ^ m * 2 ^ ndiv) b := by
  unfold withChildren
  split
  · rename_i h; rw [h.1, h.2]; simp [cuts, hasHi, hasLo]
  · split
    · rename_i h; rw [h.1, h.2]; simp [cuts, hasHi, hasLo]
    · simp [cuts]

theorem wf_withChildren {ndiv m : Nat} {a b : Ref1} (ha : WF ndiv m a) (hb : WF ndiv m b) :
    WF ndiv (m + 1) (withChildren a b) := by
  unfold withChildren
  split
  · trivial
  · split
    · trivial
    · rename_i h1 h2; exact ⟨ha, hb, h1, h2⟩

/-! ### complement -/

theorem hasLo_compl (r : Ref1) : hasLo (compl r) = !hasLo r := by
  induction r with
  | full => rfl
  | empty => rfl
  | kids a b iha _ => simp only [compl, hasLo_withChildren, hasLo]; exact iha
  | cut hi xi => simp [compl, hasLo]

theorem hasHi_compl (r : Ref1) : hasHi (compl r) = !hasHi r := by
  induction r with
  | full => rfl
  | empty => rfl
  | kids a b _ ihb => simp only [compl, hasHi_withChildren, hasHi]; exact ihb
  | cut hi xi => simp [compl, hasHi]

theorem vol_compl (ndiv : Nat) (r : Ref1) : ∀ m, WF ndiv m r → vol ndiv m r + vol ndiv m (compl r) = 2 ^ m * 2 ^ ndiv := by
  induction r with
  | full => intro m _; simp [compl, vol]
  | empty => intro m _; simp [compl, vol]
  | kids a b iha ihb =>
    intro m h
    cases m with
    | zero => exact absurd h (by simp [WF])
    | succ m =>
      simp only [WF] at h
      simp only [compl, vol_withChildren, vol]
      have h1 := iha m h.1
      have h2 := ihb m h.2.1
      rw [pow_succ_mul]; omega
  | cut hi xi =>
    intro m h
    simp only [WF] at h
    obtain ⟨rfl, h1, h2⟩ := h
    cases hi <;> simp [compl, vol] <;> omega

theorem cuts_compl (ndiv : Nat) (r : Ref1) : ∀ m o,
    cuts ndiv m o (compl r) = (cuts ndiv m o r).map fun p => (p.1, !p.2) := by
  induction r with
  | full => intro m o; simp [compl, cuts]
  | empty => intro m o; simp [compl, cuts]
  | kids a b iha ihb =>
    intro m o
    cases m with
    | zero =>
      -- not well-formed, both sides are computed by the defining equations
      simp only [compl, cuts, List.map_nil]
      unfold withChildren
      split
      · simp [cuts]
      · split <;> simp [cuts]
    | succ m =>
      simp only [compl, cuts_withChildren, cuts, iha, ihb, hasHi_compl, hasLo_compl, List.map_append]
      congr 1
      congr 1
      cases hasHi a <;> cases hasLo b <;> simp
  | cut hi xi => intro m o; simp [compl, cuts]

/-! ### rounding -/

theorem roundHalfEven_neg (num den : Int) (h : den ≠ 0) : roundHalfEven (-num) (-den) = roundHalfEven num den := by
  unfold roundHalfEven
  have h1 : (-den < 0) = ¬ (den < 0) := by
    apply propext; constructor <;> intro h' <;> omega
  by_cases hd : den < 0
  · have : ¬ (-den < 0) := by omega
    simp only [hd, this, if_true, if_false]
  · have : -den < 0 := by omega
    simp only [hd, this, if_true, if_false, Int.neg_neg]

/-- for a ratio `0 < n < q * N` the rounded value lies in `[0, N]` -/
theorem roundHalfEven_bounds (num den N : Int) (hN : 0 ≤ N)
    (h : (0 < den ∧ 0 < num ∧ num < den * N) ∨ (den < 0 ∧ num < 0 ∧ den * N < num)) :
    0 ≤ roundHalfEven num den ∧ roundHalfEven num den ≤ N := by
  unfold roundHalfEven
  -- normalise to positive denominator
  generalize hn : (if den < 0 then -num else num) = n
  generalize hq : (if den < 0 then -den else den) = q
  have hpos : 0 < q ∧ 0 < n ∧ n < q * N := by
    rcases h with ⟨h1, h2, h3⟩ | ⟨h1, h2, h3⟩
    · have : ¬ den < 0 := by omega
      simp only [this, if_false] at hn hq
      subst hn hq; exact ⟨h1, h2, h3⟩
    · simp only [h1, if_true] at hn hq
      subst hn hq
      refine ⟨by omega, by omega, ?_⟩
      rw [Int.neg_mul]; omega
  obtain ⟨hq0, hn0, hnq⟩ := hpos
  have hfl0 : 0 ≤ (2 * n) / (2 * q) := Int.ediv_nonneg (by omega) (by omega)
  have hfl1 : (2 * n) / (2 * q) < N := by
    apply Int.ediv_lt_of_lt_mul (by omega)
    have : 2 * n < 2 * (q * N) := by omega
    calc 2 * n < 2 * (q * N) := this
      _ = N * (2 * q) := by rw [Int.mul_comm N, Int.mul_assoc]
  simp only
  split
  · exact ⟨hfl0, by omega⟩
  · split
    · exact ⟨by omega, by omega⟩
    · split
      · exact ⟨hfl0, by omega⟩
      · exact ⟨by omega, by omega⟩

/-! ### the leaf slice -/

theorem wf_slice1 (ndiv : Nat) (a b : Int) (h : (a < 0 ∧ 0 < b) ∨ (b < 0 ∧ 0 < a)) : WF ndiv 0 (slice1 ndiv a b) := by
  unfold slice1
  have hN : (0 : Int) < 2 ^ ndiv := Int.pow_pos (by decide)
  have hb := roundHalfEven_bounds (b * 2 ^ ndiv) (b - a) (2 ^ ndiv) (by omega) (by
    rcases h with ⟨h1, h2⟩ | ⟨h1, h2⟩
    · left
      refine ⟨by omega, Int.mul_pos h2 hN, ?_⟩
      exact Int.mul_lt_mul_of_pos_right (by omega) hN
    · right
      refine ⟨by omega, Int.mul_neg_of_neg_of_pos h1 hN, ?_⟩
      exact Int.mul_lt_mul_of_pos_right (by omega) hN)
  simp only
  split
  · split <;> trivial
  · split
    · split <;> trivial
    · rename_i h0 hn
      simp only [beq_iff_eq] at h0 hn
      refine ⟨rfl, by omega, ?_⟩
      have : ((roundHalfEven (b * 2 ^ ndiv) (b - a)).toNat : Int) < ((2 ^ ndiv : Nat) : Int) := by
        rw [Int.toNat_of_nonneg hb.1]
        have : ((2 ^ ndiv : Nat) : Int) = (2 : Int) ^ ndiv := by simp
        rw [this]; omega
      exact Int.ofNat_lt.1 this

theorem slice1_neg (ndiv : Nat) (a b : Int) (h : (a < 0 ∧ 0 < b) ∨ (b < 0 ∧ 0 < a)) :
    slice1 ndiv (-a) (-b) = compl (slice1 ndiv a b) := by
  unfold slice1
  have e : roundHalfEven (-b * 2 ^ ndiv) (-b - -a) = roundHalfEven (b * 2 ^ ndiv) (b - a) := by
    have : -b - -a = -(b - a) := by omega
    rw [this, Int.neg_mul, roundHalfEven_neg _ _ (by omega)]
  simp only [e]
  split
  · rcases h with ⟨h1, h2⟩ | ⟨h1, h2⟩
    · have : ¬ (-a < 0) := by omega
      simp [h1, this, compl] <;> omega
    · have : -a < 0 := by omega
      have h' : ¬ a < 0 := by omega
      simp [h', this, compl] <;> omega
  · split
    · rcases h with ⟨h1, h2⟩ | ⟨h1, h2⟩
      · have : -b < 0 := by omega
        have h' : ¬ b < 0 := by omega
        simp [h', this, compl] <;> omega
      · have : ¬ (-b < 0) := by omega
        simp [h1, this, compl] <;> omega
    · simp only [compl]
      congr 1
      rcases h with ⟨h1, h2⟩ | ⟨h1, h2⟩
      · have : ¬ (0 < -b) := by omega
        simp [h2, this] <;> omega
      · have : 0 < -b := by omega
        have h' : ¬ 0 < b := by omega
        simp [h', this] <;> omega

/-! ### sample lists -/

theorem noZeroPair_tail {a : Int} {t : List Int} (h : noZeroPair (a :: t)) : noZeroPair t := by
  cases t with
  | nil => trivial
  | cons b t => exact h.2

theorem noZeroPair_drop (n : Nat) (l : List Int) (h : noZeroPair l) : noZeroPair (l.drop n) := by
  induction n generalizing l with
  | zero => simpa using h
  | succ n ih =>
    cases l with
    | nil => simpa using h
    | cons a t => rw [List.drop_succ_cons]; exact ih t (noZeroPair_tail h)

theorem noZeroPair_take (n : Nat) (l : List Int) (h : noZeroPair l) : noZeroPair (l.take n) := by
  induction l generalizing n with
  | nil => simpa using h
  | cons a t ih =>
    cases n with
    | zero => trivial
    | succ n =>
      rw [List.take_succ_cons]
      cases t with
      | nil => simp [noZeroPair]
      | cons b t' =>
        cases n with
        | zero => simp [noZeroPair]
        | succ n =>
          rw [List.take_succ_cons]
          refine ⟨h.1, ?_⟩
          have := ih (n + 1) h.2
          rwa [List.take_succ_cons] at this

theorem noZeroPair_neg (l : List Int) (h : noZeroPair l) : noZeroPair (l.map (- ·)) := by
  induction l with
  | nil => trivial
  | cons a t ih =>
    cases t with
    | nil => trivial
    | cons b t' =>
      simp only [List.map_cons] at ih ⊢
      exact ⟨fun h' => h.1 ⟨by omega, by omega⟩, ih h.2⟩

theorem not_all_zero {l : List Int} (h : noZeroPair l) (hl : 2 ≤ l.length)
    (h1 : l.all (0 ≤ ·) = true) (h2 : l.all (· ≤ 0) = true) : False := by
  match l, hl with
  | a :: b :: t, _ =>
    simp only [List.all_cons, Bool.and_eq_true, decide_eq_true_eq] at h1 h2
    exact h.1 ⟨by omega, by omega⟩

theorem all_neg_nonneg (l : List Int) : (l.map (- ·)).all (0 ≤ ·) = l.all (· ≤ 0) := by
  induction l with
  | nil => rfl
  | cons a t ih =>
    simp only [List.map_cons, List.all_cons, ih]
    congr 1
    apply decide_eq_decide.2; omega

theorem all_neg_nonpos (l : List Int) : (l.map (- ·)).all (· ≤ 0) = l.all (0 ≤ ·) := by
  induction l with
  | nil => rfl
  | cons a t ih =>
    simp only [List.map_cons, List.all_cons, ih]
    congr 1
    apply decide_eq_decide.2; omega

/-- a two-point sample that is neither non-negative nor non-positive has strictly opposite signs -/
theorem mixed_two {l : List Int} (hl : l.length = 2) (h1 : ¬ l.all (0 ≤ ·) = true) (h2 : ¬ l.all (· ≤ 0) = true) :
    (l.getD 0 0 < 0 ∧ 0 < l.getD 1 0) ∨ (l.getD 1 0 < 0 ∧ 0 < l.getD 0 0) := by
  match l, hl with
  | [a, b], _ =>
    simp only [List.all_cons, List.all_nil, Bool.and_true, Bool.and_eq_true, decide_eq_true_eq] at h1 h2
    simp only [List.getD_cons_zero, List.getD_cons_succ]
    omega

/-! ### the trimmed reference -/

theorem wf_trim1 (ndiv : Nat) : ∀ (m : Nat) (lv : List Int), lv.length = 2 ^ m + 1 → WF ndiv m (trim1 ndiv m lv) := by
  intro m
  induction m with
  | zero =>
    intro lv hl
    unfold trim1
    split
    · trivial
    · split
      · trivial
      · rename_i h1 h2
        exact wf_slice1 ndiv _ _ (mixed_two (by simpa using hl) h1 h2)
  | succ m ih =>
    intro lv hl
    unfold trim1
    split
    · trivial
    · split
      · trivial
      · have hp : 2 ^ (m + 1) = 2 ^ m + 2 ^ m := by rw [Nat.pow_succ]; omega
        apply wf_withChildren
        · apply ih; rw [List.length_take]; omega
        · apply ih; rw [List.length_drop]; omega

theorem trim1_neg (ndiv : Nat) : ∀ (m : Nat) (lv : List Int), lv.length = 2 ^ m + 1 → noZeroPair lv →
    trim1 ndiv m (lv.map (- ·)) = compl (trim1 ndiv m lv) := by
  intro m
  induction m with
  | zero =>
    intro lv hl hz
    have hl2 : 2 ≤ lv.length := by simp at hl; omega
    unfold trim1
    rw [all_neg_nonneg, all_neg_nonpos]
    by_cases h1 : lv.all (0 ≤ ·) = true
    · have h2 : ¬ lv.all (· ≤ 0) = true := fun h2 => not_all_zero hz hl2 h1 h2
      simp [h1, h2, compl]
    · by_cases h2 : lv.all (· ≤ 0) = true
      · simp [h1, h2, compl]
      · simp only [h1, h2, Bool.false_eq_true, ↓reduceIte]
        have hm := mixed_two (by simpa using hl) h1 h2
        have e0 : (lv.map (- ·)).getD 0 0 = -(lv.getD 0 0) := by
          match lv, hl with
          | [a, b], _ => rfl
        have e1 : (lv.map (- ·)).getD 1 0 = -(lv.getD 1 0) := by
          match lv, hl with
          | [a, b], _ => rfl
        rw [e0, e1]
        exact slice1_neg ndiv _ _ hm
  | succ m ih =>
    intro lv hl hz
    have hp : 2 ^ (m + 1) = 2 ^ m + 2 ^ m := by rw [Nat.pow_succ]; omega
    have hpos : 0 < 2 ^ m := Nat.pow_pos (by decide)
    have hl2 : 2 ≤ lv.length := by omega
    unfold trim1
    rw [all_neg_nonneg, all_neg_nonpos]
    by_cases h1 : lv.all (0 ≤ ·) = true
    · have h2 : ¬ lv.all (· ≤ 0) = true := fun h2 => not_all_zero hz hl2 h1 h2
      simp [h1, h2, compl]
    · by_cases h2 : lv.all (· ≤ 0) = true
      · simp [h1, h2, compl]
      · simp only [h1, h2, Bool.false_eq_true, ↓reduceIte]
        rw [compl_withChildren, ← List.map_take, ← List.map_drop]
        rw [ih _ (by rw [List.length_take]; omega) (noZeroPair_take _ _ hz),
          ih _ (by rw [List.length_drop]; omega) (noZeroPair_drop _ _ hz)]

end NutilsVerif.C10
