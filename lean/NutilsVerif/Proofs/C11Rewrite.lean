import NutilsVerif.Proofs.C11Items
/-!
# C11 — chain level: `canonical`, `uppermost`, `promote` only perform swaps, and swaps preserve the affine map
-/
namespace NutilsVerif.C11

/-! ## `Reach` -/

theorem Reach.single {r : Chain → Chain → Prop} {a b : Chain} (h : r a b) : Reach r a b :=
  .tail _ _ _ (.refl _) h

theorem Reach.trans {r : Chain → Chain → Prop} {a b c : Chain} (h1 : Reach r a b) (h2 : Reach r b c) : Reach r a c := by
  induction h2 with
  | refl => exact h1
  | tail m n _ hmn ih => exact .tail _ _ _ ih hmn

theorem Reach.head {r : Chain → Chain → Prop} {a b c : Chain} (h1 : r a b) (h2 : Reach r b c) : Reach r a c :=
  (Reach.single h1).trans h2

theorem Reach.mono {r s : Chain → Chain → Prop} (hrs : ∀ a b, r a b → s a b) {a b : Chain} (h : Reach r a b) : Reach s a b := by
  induction h with
  | refl => exact .refl _
  | tail m n _ hmn ih => exact .tail _ _ _ ih (hrs _ _ hmn)

theorem StepDn.ctx (p q : Chain) {l l' : Chain} (h : StepDn l l') : StepDn (p ++ l ++ q) (p ++ l' ++ q) := by
  cases h with
  | mk p' q' a b x y hs =>
    have := StepDn.mk (p ++ p') (q' ++ q) a b x y hs
    simpa using this

theorem StepUp.ctx (p q : Chain) {l l' : Chain} (h : StepUp l l') : StepUp (p ++ l ++ q) (p ++ l' ++ q) := by
  cases h with
  | mk p' q' a b x y hs =>
    have := StepUp.mk (p ++ p') (q' ++ q) a b x y hs
    simpa using this

theorem Step.ctx (p q : Chain) {l l' : Chain} (h : Step l l') : Step (p ++ l ++ q) (p ++ l' ++ q) := by
  cases h with
  | inl h => exact .inl (h.ctx p q)
  | inr h => exact .inr (h.ctx p q)

theorem Reach.ctx {r : Chain → Chain → Prop} (hr : ∀ p q l l', r l l' → r (p ++ l ++ q) (p ++ l' ++ q)) (p q : Chain)
    {l l' : Chain} (h : Reach r l l') : Reach r (p ++ l ++ q) (p ++ l' ++ q) := by
  induction h with
  | refl => exact .refl _
  | tail m n _ hmn ih => exact .tail _ _ _ ih (hr p q _ _ hmn)

/-! ## the loops only swap -/

theorem canonLoop_reach (left right : Chain) : Reach StepDn (left.reverse ++ right) (canonLoop left right) := by
  fun_induction canonLoop left right with
  | case1 a b post _ x y h ih =>
    -- swap at the head of the list
    exact Reach.head (by simpa using StepDn.mk [] post a b x y h) (by simpa using ih)
  | case2 a b post _ x y h l left' ih =>
    exact Reach.head (by simpa using StepDn.mk (left'.reverse ++ [l]) post a b x y h) (by simpa using ih)
  | case3 left a b post _ h ih => simpa using ih
  | case4 => exact .refl _
  | case5 => exact .refl _

theorem canonical_reach (l : Chain) : Reach StepDn l (canonical l) := by
  unfold canonical
  split
  · exact .refl _
  · simpa using canonLoop_reach [] l

theorem upLoop_reach (pre suf : Chain) : Reach StepUp (pre.reverse ++ suf) (upLoop pre suf) := by
  fun_induction upLoop pre suf with
  | case1 b a rest _ x y h ih =>
    exact Reach.head (by simpa using StepUp.mk rest.reverse [] a b x y h) (by simpa using ih)
  | case2 b a rest _ x y h s suf' ih =>
    exact Reach.head (by simpa using StepUp.mk rest.reverse (s :: suf') a b x y h) (by simpa using ih)
  | case3 suf b a rest _ h ih => simpa using ih
  | case4 => exact .refl _
  | case5 => exact .refl _

theorem uppermost_reach (l : Chain) : Reach StepUp l (uppermost l) := by
  unfold uppermost
  split
  · exact .refl _
  · simpa using upLoop_reach l.reverse []

theorem promote_reach (l : Chain) (n : Nat) : Reach Step l (promote l n) := by
  unfold promote
  split
  · rename_i i _
    have h1 : Reach Step (l.take (i+1)) (canonical (l.take (i+1))) :=
      (canonical_reach _).mono (fun _ _ h => .inl h)
    have h2 : Reach Step (l.drop (i+1)) (uppermost (l.drop (i+1))) :=
      (uppermost_reach _).mono (fun _ _ h => .inr h)
    have h1' := Reach.ctx (fun p q _ _ h => Step.ctx p q h) [] (l.drop (i+1)) h1
    have h2' := Reach.ctx (fun p q _ _ h => Step.ctx p q h) (canonical (l.take (i+1))) [] h2
    simp only [List.nil_append, List.take_append_drop, List.append_nil] at h1' h2'
    exact h1'.trans h2'
  · exact .refl _

/-! ## swaps preserve dimensions, the affine map and the orientation -/

theorem Fits.cons_inv {a : Item} {l : Chain} {td fd : Nat} (h : Fits (a :: l) td fd) :
    a.wf = true ∧ td = a.td ∧ Fits l a.fd fd := by
  cases h with
  | cons _ _ _ hw hl => exact ⟨hw, rfl, hl⟩

theorem Fits.nil_inv {td fd : Nat} (h : Fits [] td fd) : td = fd := by
  cases h; rfl

theorem Fits.append {p q : Chain} {td m fd : Nat} (hp : Fits p td m) (hq : Fits q m fd) : Fits (p ++ q) td fd := by
  induction hp with
  | nil => simpa using hq
  | cons a l _ hw _ ih => exact .cons a _ _ hw (ih hq)

theorem Fits.split {p q : Chain} {td fd : Nat} (h : Fits (p ++ q) td fd) : ∃ m, Fits p td m ∧ Fits q m fd := by
  induction p generalizing td with
  | nil => exact ⟨td, .nil _, by simpa using h⟩
  | cons a p ih =>
    obtain ⟨hw, rfl, hl⟩ := Fits.cons_inv (by simpa using h)
    obtain ⟨m, hp, hq⟩ := ih hl
    exact ⟨m, .cons a p m hw hp, hq⟩

theorem Chain.app_append (p q : Chain) (x : Vec) : Chain.app (p ++ q) x = Chain.app p (Chain.app q x) := by
  simp [Chain.app, List.foldr_append]

theorem Chain.app_cons (a : Item) (l : Chain) (x : Vec) : Chain.app (a :: l) x = a.app (Chain.app l x) := by
  simp [Chain.app]

theorem Chain.flip_cons (a : Item) (l : Chain) : Chain.flip (a :: l) = (a.flip != Chain.flip l) := by
  simp [Chain.flip]

theorem Chain.flip_append (p q : Chain) : Chain.flip (p ++ q) = (Chain.flip p != Chain.flip q) := by
  induction p with
  | nil => simp [Chain.flip]
  | cons a p ih => simp only [List.cons_append, Chain.flip_cons, ih]; cases a.flip <;> cases Chain.flip p <;> cases Chain.flip q <;> rfl

theorem Item.app_length (a : Item) (x : Vec) (hw : a.wf = true) (hx : x.length = a.fd) : (a.app x).length = a.td := by
  cases a with
  | sq s => exact Sq.app_length s x hw hx
  | up u => exact Up.app_length u x hw hx
  | mat fd lin off => simp only [Item.wf, Bool.and_eq_true] at hw; exact affApply_length_of_shape hw.1 x

theorem Fits.app_length {l : Chain} {td fd : Nat} (h : Fits l td fd) (x : Vec) (hx : x.length = fd) :
    (Chain.app l x).length = td := by
  induction h with
  | nil => simpa [Chain.app] using hx
  | cons a l _ hw _ ih => rw [Chain.app_cons]; exact Item.app_length a _ hw (ih hx)

/-- what a swap of two adjacent, fitting chain items guarantees (either direction) -/
structure PairSpec (a b x y : Item) : Prop where
  wfx : x.wf = true
  wfy : y.wf = true
  td : x.td = a.td
  mid : x.fd = y.td
  fd : y.fd = b.fd
  flip : (x.flip != y.flip) = (a.flip != b.flip)
  app : ∀ v : Vec, v.length = b.fd → x.app (y.app v) = a.app (b.app v)

theorem Item.swapdown_sound {a b x y : Item} (hwa : a.wf = true) (hwb : b.wf = true) (hd : a.fd = b.td)
    (h : Item.swapdown a b = some (x, y)) : PairSpec a b x y := by
  cases a <;> cases b <;> first | (simp [Item.swapdown] at h; done) | skip
  rename_i c e
  simp only [Item.swapdown, Option.map_eq_some_iff] at h
  obtain ⟨⟨e', c'⟩, hs, heq⟩ := h
  simp only [Option.some.injEq, Prod.mk.injEq] at heq
  obtain ⟨rfl, rfl⟩ := heq
  have sp := Up.swapdown_sound e c e' c' hwb hwa hd hs
  exact ⟨sp.wfe, sp.wfc, sp.tde, sp.fde, sp.dimc, sp.flip, sp.app⟩

theorem Item.swapup_sound {a b x y : Item} (hwa : a.wf = true) (hwb : b.wf = true) (hd : a.fd = b.td)
    (h : Item.swapup a b = some (x, y)) : PairSpec a b x y := by
  cases a <;> cases b <;> first | (simp [Item.swapup] at h; done) | skip
  rename_i e c
  simp only [Item.swapup, Option.map_eq_some_iff] at h
  obtain ⟨⟨c', e'⟩, hs, heq⟩ := h
  simp only [Option.some.injEq, Prod.mk.injEq] at heq
  obtain ⟨rfl, rfl⟩ := heq
  have sp := Up.swapup_sound e c c' e' hwa hwb hd hs
  refine ⟨sp.wfc, sp.wfe, sp.dimc, ?_, sp.fde, sp.flip, sp.app⟩
  simp only [Item.fd, Item.td]; rw [sp.dimc, sp.tde]

/-- what chain rewrites by swaps preserve -/
structure SameMap (l l' : Chain) (td fd : Nat) : Prop where
  fits : Fits l' td fd
  app : ∀ v : Vec, v.length = fd → Chain.app l' v = Chain.app l v
  flip : Chain.flip l' = Chain.flip l

theorem pair_sameMap {p q : Chain} {a b x y : Item} {td fd : Nat} (hf : Fits (p ++ a :: b :: q) td fd)
    (hs : ∀ (_ : a.wf = true) (_ : b.wf = true) (_ : a.fd = b.td), PairSpec a b x y) :
    SameMap (p ++ a :: b :: q) (p ++ x :: y :: q) td fd := by
  obtain ⟨m, hp, hr⟩ := hf.split
  obtain ⟨hwa, rfl, hr2⟩ := hr.cons_inv
  obtain ⟨hwb, hab, hq⟩ := hr2.cons_inv
  have sp := hs hwa hwb hab
  refine ⟨?_, ?_, ?_⟩
  · refine hp.append ?_
    rw [← sp.td]
    refine .cons x _ _ sp.wfx ?_
    rw [sp.mid]
    refine .cons y _ _ sp.wfy ?_
    rw [sp.fd]; exact hq
  · intro v hv
    simp only [Chain.app_append, Chain.app_cons]
    rw [sp.app _ (hq.app_length v hv)]
  · simp only [Chain.flip_append, Chain.flip_cons]
    have := sp.flip
    revert this
    cases x.flip <;> cases y.flip <;> cases a.flip <;> cases b.flip <;> cases Chain.flip p <;> cases Chain.flip q <;> simp

theorem Step.sameMap {l l' : Chain} {td fd : Nat} (hf : Fits l td fd) (h : Step l l') : SameMap l l' td fd := by
  cases h with
  | inl h => cases h with
    | mk p q a b x y hs => exact pair_sameMap hf (fun hwa hwb hd => Item.swapdown_sound hwa hwb hd hs)
  | inr h => cases h with
    | mk p q a b x y hs => exact pair_sameMap hf (fun hwa hwb hd => Item.swapup_sound hwa hwb hd hs)

theorem Reach.sameMap {l l' : Chain} {td fd : Nat} (hf : Fits l td fd) (h : Reach Step l l') : SameMap l l' td fd := by
  induction h with
  | refl => exact ⟨hf, fun _ _ => rfl, rfl⟩
  | tail m n _ hmn ih =>
    have s := Step.sameMap ih.fits hmn
    exact ⟨s.fits, fun v hv => (s.app v hv).trans (ih.app v hv), s.flip.trans ih.flip⟩

end NutilsVerif.C11
