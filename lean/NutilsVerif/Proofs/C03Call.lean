import NutilsVerif.Proofs.C03Sim3
/-! C03 — from statements to calls: the cached state, one call vs. a fresh function -/
namespace NutilsVerif.C03
variable {D : Type}

/-! ## mode `cache` does not look at the arguments; reruns do not touch `first_run` -/

def noArgCache : Stmt → Bool :=
  allOps (fun t b => t == .rerun || match b with | .getarg _ _ _ => false | _ => true) (fun _ _ _ => true)

theorem chk_noArgCache (c : Ctx) : ∀ (s : Stmt) (Dv : List Var) (Wl : List Loc) (Wv : List Var),
    chk c s Dv Wl Wv = true → noArgCache s = true := by
  intro s
  induction s with
  | nop => intros; rfl
  | op t b =>
    intro Dv Wl Wv h
    simp only [chk, chkOp, Bool.and_eq_true] at h
    simp only [noArgCache, allOps]
    cases t <;> cases b <;> simp_all
  | seq s t ihs iht =>
    intro Dv Wl Wv h
    simp only [chk, Bool.and_eq_true] at h
    simp only [noArgCache, allOps, Bool.and_eq_true]
    exact ⟨ihs _ _ _ h.1, iht _ _ _ h.2⟩
  | loop cnt i body ih =>
    intro Dv Wl Wv h
    simp only [chk, Bool.and_eq_true] at h
    simp only [noArgCache, allOps, Bool.and_eq_true, true_and]
    exact ih _ _ _ h.2

theorem execB_args (I : Interp D) (a1 a2 : Args D) (b : Basic) (st : St D)
    (h : match b with | .getarg _ _ _ => False | _ => True) : execB I a1 b st = execB I a2 b st := by
  cases b <;> first | rfl | exact absurd h id

theorem exec_cache_args (I : Interp D) (a1 a2 : Args D) : ∀ (s : Stmt) (st : St D), noArgCache s = true →
    exec I a1 .cache s st = exec I a2 .cache s st := by
  intro s
  induction s with
  | nop => intros; rfl
  | op t b =>
    intro st h
    simp only [noArgCache, allOps, Bool.or_eq_true, beq_iff_eq] at h
    simp only [exec]
    split
    · next hr =>
      apply execB_args
      rcases h with h | h
      · subst h; simp [runs] at hr
      · cases b <;> simp_all
    · rfl
  | seq s t ihs iht =>
    intro st h
    simp only [noArgCache, allOps, Bool.and_eq_true] at h
    simp only [exec]
    rw [ihs st h.1, iht _ h.2]
  | loop cnt i body ih =>
    intro st h
    simp only [noArgCache, allOps, Bool.and_eq_true, true_and] at h
    simp only [exec]
    have : (fun j s => exec I a1 .cache body (bindIdx I i j s)) = (fun j s => exec I a2 .cache body (bindIdx I i j s)) := by
      funext j s; exact ih _ h
    rw [this]

/-- `first_run` is only cleared by a `clear` statement -/
def clearOnlySkip : Stmt → Bool :=
  allOps (fun t b => t == .skip || b != .clear) (fun _ _ _ => true)

theorem chk_clearOnlySkip (c : Ctx) : ∀ (s : Stmt) (Dv : List Var) (Wl : List Loc) (Wv : List Var),
    chk c s Dv Wl Wv = true → clearOnlySkip s = true := by
  intro s
  induction s with
  | nop => intros; rfl
  | op t b =>
    intro Dv Wl Wv h
    simp only [chk, chkOp, Bool.and_eq_true] at h
    simp only [clearOnlySkip, allOps]
    cases t <;> cases b <;> simp_all
  | seq s t ihs iht =>
    intro Dv Wl Wv h
    simp only [chk, Bool.and_eq_true] at h
    simp only [clearOnlySkip, allOps, Bool.and_eq_true]
    exact ⟨ihs _ _ _ h.1, iht _ _ _ h.2⟩
  | loop cnt i body ih =>
    intro Dv Wl Wv h
    simp only [chk, Bool.and_eq_true] at h
    simp only [clearOnlySkip, allOps, Bool.and_eq_true, true_and]
    exact ih _ _ _ h.2

theorem execB_first (I : Interp D) (args : Args D) (b : Basic) (st : St D) (h : b ≠ .clear) :
    (execB I args b st).first = st.first := by
  unfold execB
  split
  · rfl
  · cases b with
    | fresh dst op srcs => simp only; split <;> rfl
    | getarg dst a cop =>
      simp only; split
      · rfl
      · split <;> rfl
    | view dst vop may src =>
      simp only; split
      · rfl
      · split <;> rfl
    | write dst op srcs =>
      simp only; split
      · split <;> rfl
      · rfl
    | setro v => simp only; split <;> rfl
    | guard op srcs =>
      simp only; split
      · split <;> rfl
      · rfl
    | clear => exact absurd rfl h

theorem bindIdx_first (I : Interp D) (i : Var) (j : Nat) (st : St D) : (bindIdx I i j st).first = st.first := by
  unfold bindIdx; split <;> rfl

/-- a rerun never changes `first_run` -/
theorem exec_rerun_first (I : Interp D) (args : Args D) (s : Stmt) (st : St D) (h : clearOnlySkip s = true) :
    (exec I args .rerun s st).first = st.first := by
  refine exec_preserves I args .rerun (fun st' => st'.first = st.first) (fun s => clearOnlySkip s = true) ?_ ?_ ?_ ?_ ?_ s st h rfl
  · intro t b st' hq hr hP
    have hq' : (t == .skip || b != .clear) = true := hq
    rw [execB_first I args b st', hP]
    simp only [Bool.or_eq_true, beq_iff_eq, bne_iff_ne, ne_eq] at hq'
    rcases hq' with h | h
    · subst h; simp [runs] at hr
    · exact h
  · intro cnt i body j st' _ _ hP; rw [bindIdx_first, hP]
  · intro st' e hP; exact hP
  · intro s t hq; simpa [clearOnlySkip, allOps] using hq
  · intro cnt i b hq; simpa [clearOnlySkip, allOps] using hq


/-! ## outcomes -/

theorem results_same (I : Interp D) {sA sB : St D} : ∀ (vs : List Var), (∀ v ∈ vs, SeeSame sA sB v) →
    (results I sA vs).map (·.1) = (results I sB vs).map (·.1)
  | [], _ => rfl
  | v :: vs, h => by
    have hv := h v (by simp)
    have ih := results_same I vs (fun x hx => h x (by simp [hx]))
    unfold SeeSame at hv
    simp only [results]
    cases ha : sA.env v with
    | none =>
      cases hb : sB.env v with
      | none => rfl
      | some rb => simp [ha, hb] at hv
    | some ra =>
      cases hb : sB.env v with
      | none => simp [ha, hb] at hv
      | some rb =>
        simp only [ha, hb] at hv
        obtain ⟨hl, hp, hh⟩ := hv
        cases hra : results I sA vs with
        | none =>
          cases hrb : results I sB vs with
          | none => rfl
          | some y => simp [hra, hrb] at ih
        | some x =>
          cases hrb : results I sB vs with
          | none => simp [hra, hrb] at ih
          | some y =>
            obtain ⟨d1, r1⟩ := x; obtain ⟨d2, r2⟩ := y
            simp only [hra, hrb, Option.map, Option.some.injEq] at ih
            simp only [Option.map, Option.some.injEq]
            rw [← hl, ← hp, hh, ih]

theorem outcome_res_same (I : Interp D) (p : Prog) {sA sB : St D} (he : sA.err = sB.err)
    (hs : sA.err = none → ∀ v ∈ p.ret, SeeSame sA sB v) : (outcome I p sA).res = (outcome I p sB).res := by
  unfold outcome
  rw [← he]
  cases hA : sA.err with
  | some e => rfl
  | none =>
    simp only
    have := results_same I p.ret (hs hA)
    cases hra : results I sA p.ret <;> cases hrb : results I sB p.ret <;> simp only [hra, hrb, Option.map] at this ⊢
    · cases this
    · cases this
    · rename_i x y
      obtain ⟨d1, r1⟩ := x; obtain ⟨d2, r2⟩ := y
      simp only [Option.some.injEq] at this
      simp only [this]

/-! ## the initial state and function entry -/

theorem mkCtx_persists (p : Prog) (O : Var → List Loc) (v : Var) : (mkCtx p O).persists v = persists p v := rfl

theorem mkCtx_cloc (p : Prog) (O : Var → List Loc) (l : Loc) : (mkCtx p O).cloc l = cachedLoc p l := by
  cases l <;> rfl

theorem init_origin (p : Prog) (O : Var → List Loc) (k : Classes (mkCtx p O)) (cd : Var → D × Bool) (dflt : D) :
    OriginInv O (initSt p cd dflt) := by
  intro v r h
  simp only [initSt] at h
  split at h
  · next hv => cases h; exact k.constI v hv
  · cases h

@[simp] theorem enter_env (p : Prog) (dflt : D) (st : St D) (args : Args D) : (enter p dflt st args).env = st.env := rfl
@[simp] theorem enter_err (p : Prog) (dflt : D) (st : St D) (args : Args D) : (enter p dflt st args).err = none := rfl
@[simp] theorem enter_first (p : Prog) (dflt : D) (st : St D) (args : Args D) : (enter p dflt st args).first = st.first := rfl

theorem enter_heap_cached (p : Prog) (dflt : D) (st : St D) (args : Args D) (l : Loc) (h : cachedLoc p l = true) :
    (enter p dflt st args).heap l = st.heap l := by
  cases l with
  | var v => simp only [enter]; rw [h]; rfl
  | arg a => simp [cachedLoc] at h

theorem enter_heap_uncached (p : Prog) (dflt : D) (s1 s2 : St D) (args : Args D) (l : Loc) (h : cachedLoc p l = false) :
    (enter p dflt s1 args).heap l = (enter p dflt s2 args).heap l := by
  cases l with
  | var v => simp only [enter]; rw [h]; rfl
  | arg a => rfl

theorem init_heap_var (p : Prog) (cd : Var → D × Bool) (dflt : D) (args : Args D) (v : Var) :
    (enter p dflt (initSt p cd dflt) args).heap (.var v) = (initSt p cd dflt).heap (.var v) := by
  simp only [enter, initSt]
  by_cases hc : cachedLoc p (.var v) = true
  · simp [hc]
  · simp only [hc, Bool.false_eq_true, if_false]
    have : ¬ v ∈ p.consts := by
      simp only [cachedLoc, Bool.or_eq_true, not_or] at hc
      simpa using hc.2
    simp [this]


/-! ## the cached state; one rerun call against a fresh function -/

/-- the canonical cached state: the constant part alone, run from the initial globals -/
def cacheSt (I : Interp D) (p : Prog) (cd : Var → D × Bool) (dflt : D) : St D :=
  exec I (fun _ => none) .cache p.body (initSt p cd dflt)

structure Hyp (p : Prog) (O : Var → List Loc) : Prop where
  cls : classesOK (mkCtx p O) = true
  shape : shapeOK p.body = true
  body : chk (mkCtx p O) p.body [] [] [] = true
  ret : retRead (mkCtx p O) (dAfter p.body []) p.ret = true
  h3c : retOK (mkCtx p O) p.roconsts p.body p.ret = true
  pro : persistRO (mkCtx p O) p.roconsts p.body = true
  constsRO : ∀ k ∈ p.consts, k ∈ p.roconsts
  roConsts : ∀ k ∈ p.roconsts, k ∈ p.consts
  globDef : ∀ g ∈ p.globals, g ∈ dAfter p.body []

theorem checkH_unpack (p : Prog) (O : Var → List Loc) (h : checkH p O = true) : Hyp p O := by
  simp only [checkH, verdict, Bool.and_eq_true] at h
  obtain ⟨⟨⟨⟨⟨⟨h1, h2⟩, h3⟩, h4⟩, h5⟩, h6⟩, ⟨h7, h9⟩, h8⟩ := h
  exact ⟨h1, h2, h3, h4, h5, h6, by simpa using h7, by simpa using h9, by simpa using h8⟩

/-- the globals of a function whose first run has completed: `first_run` is False, the cached variables and buffers are
the canonical ones, locals are gone -/
structure Cached (c : Ctx) (Kfin st : St D) : Prop where
  first : st.first = false
  err : st.err = none
  pers : Pers c Kfin st
  origin : OriginInv c.O st
  locals : ∀ v, c.persists v = false → st.env v = none

theorem Fut_refl (c : Ctx) (Kfin : St D) (h : Kfin.err = none) : Fut c Kfin [] [] Kfin :=
  ⟨h, fun _ _ _ => rfl, fun v _ _ => by unfold refSimF; cases Kfin.env v <;> simp⟩

theorem run_sim (I : Interp D) (p : Prog) (O : Var → List Loc) (cd : Var → D × Bool) (dflt : D) (hH : Hyp p O)
    (hKe : (cacheSt I p cd dflt).err = none) (st : St D) (hC : Cached (mkCtx p O) (cacheSt I p cd dflt) st) (args : Args D) :
    R (mkCtx p O) (cacheSt I p cd dflt) (exec I args .rerun p.body (enter p dflt st args))
      (exec I args .first p.body (enter p dflt (initSt p cd dflt) args)) (cacheSt I p cd dflt) := by
  have k := classes_of _ hH.cls
  have hKeq : exec I args .cache p.body (initSt p cd dflt) = cacheSt I p cd dflt :=
    exec_cache_args I args (fun _ => none) p.body _ (chk_noArgCache _ _ _ _ _ hH.body)
  have hinitO := init_origin p O k cd dflt
  have h := sim I args (mkCtx p O) hH.cls (cacheSt I p cd dflt) p.body [] [] []
    (enter p dflt st args) (enter p dflt (initSt p cd dflt) args) (initSt p cd dflt) hH.body ?_ rfl
    (by rw [hKeq]; exact Fut_refl _ _ hKe)
  · rwa [hKeq] at h
  · refine ⟨rfl, ⟨fun v hv => hC.pers.env v hv, ?_⟩, fun _ => ⟨?_, ?_, ?_, ?_, hC.origin, hinitO, hinitO⟩⟩
    · intro v r hv hl
      rw [enter_heap_cached p dflt st args r.loc (by rwa [← mkCtx_cloc p O])]
      exact hC.pers.heap v r hv hl
    · intro l hl
      exact enter_heap_uncached p dflt _ _ args l (by rwa [← mkCtx_cloc p O])
    · intro v hv
      have h1 : st.env v = none := hC.locals v (k.not_pers hv)
      have h2 : (initSt p cd dflt).env v = none := by
        simp only [initSt]
        split
        · next hcv =>
          exfalso
          rcases hv with hv | hv
          · exact k.c_ns v hcv hv
          · exact k.c_sh v hcv hv
        · rfl
      simp only [enter_env, h1, h2, refSimAB]
    · intro v _; rfl
    · intro l _
      cases l with
      | var v => exact init_heap_var p cd dflt args v
      | arg a => simp [Ctx.cloc, Ctx.shloc] at *


theorem retRead_spec (c : Ctx) (Dv : List Var) (ret : List Var) (h : retRead c Dv ret = true) : ∀ v ∈ ret, readRerun c Dv [] [] v = true := by
  simpa [retRead] using h

/-- **one call on the cached state** returns what a fresh function returns and leaves the cached state intact -/
theorem call_rerun (I : Interp D) (p : Prog) (O : Var → List Loc) (cd : Var → D × Bool) (dflt : D) (hH : Hyp p O)
    (hKe : (cacheSt I p cd dflt).err = none) (st : St D) (hC : Cached (mkCtx p O) (cacheSt I p cd dflt) st) (args : Args D) :
    (call I p dflt st args).2.res = fresh I p cd dflt args ∧
    Cached (mkCtx p O) (cacheSt I p cd dflt) (call I p dflt st args).1 := by
  have k := classes_of _ hH.cls
  have hR := run_sim I p O cd dflt hH hKe st hC args
  have hmA : modeOf st = .rerun := by simp [modeOf, hC.first]
  have hmB : modeOf (initSt p cd dflt) = .first := by simp [modeOf, initSt]
  obtain ⟨herr, hP, hLive⟩ := hR
  constructor
  · simp only [fresh, call, hmA, hmB]
    apply outcome_res_same I p herr
    intro hA v hv
    exact (readAB _ hH.cls hP (hLive hA) (Fut_refl _ _ hKe) (retRead_spec _ _ _ hH.ret v hv)).1
  · simp only [call, hmA]
    refine ⟨?_, rfl, ⟨?_, ?_⟩, ?_, ?_⟩
    · simp only [leave]
      rw [exec_rerun_first I args p.body _ (chk_clearOnlySkip _ _ _ _ _ hH.body)]
      exact hC.first
    · intro v hv
      simp only [leave]
      rw [← mkCtx_persists p O, hv]
      exact hP.env v hv
    · intro v r hv hl
      simp only [leave] at hv ⊢
      split at hv
      · exact hP.heap v r hv hl
      · rename_i hnp
        have := hC.locals v (by rw [mkCtx_persists]; simpa using hnp)
        rw [this] at hv; cases hv
    · intro v r hv
      simp only [leave] at hv
      split at hv
      · exact exec_origin_K I args .rerun _ p.body (enter p dflt st args) (chk_wfK _ _ _ _ _ hH.body) (fun v r h => hC.origin v r h) v r hv
      · exact hC.origin v r hv
    · intro v hv
      simp only [leave]
      rw [← mkCtx_persists p O, hv]
      exact hC.locals v hv

end NutilsVerif.C03
