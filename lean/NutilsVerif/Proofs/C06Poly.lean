import NutilsVerif.Proofs.C06
/-!
# C06 — PolyDegree / PolyNCoeffs (monotonicity of `ncoeffs`, `degree?` is its least inverse)
-/
namespace NutilsVerif.C06
open PyNum

theorem ncoeffs_pos : ∀ nv d, 0 < ncoeffs nv d
  | 0, _ => by simp [ncoeffs]
  | _+1, 0 => by simp [ncoeffs]
  | nv+1, d+1 => by
    rw [ncoeffs]
    have := ncoeffs_pos (nv+1) d
    omega

theorem ncoeffs_succ_le (nv d : Nat) : ncoeffs nv d ≤ ncoeffs nv (d + 1) := by
  cases nv with
  | zero => simp [ncoeffs]
  | succ nv => rw [ncoeffs.eq_3]; omega

theorem ncoeffs_mono (nv : Nat) {d d' : Nat} (h : d ≤ d') : ncoeffs nv d ≤ ncoeffs nv d' := by
  induction h with
  | refl => exact Nat.le_refl _
  | step _ ih => exact Nat.le_trans ih (ncoeffs_succ_le nv _)

theorem degree?_spec {nv : Nat} {n : Int} {d : Nat} (h : degree? nv n = some d) :
    0 < n ∧ ncoeffs nv d = n.toNat ∧ ∀ j, j < d → ncoeffs nv j ≠ n.toNat := by
  unfold degree? at h
  split at h
  · simp at h
  · rename_i hn
    rw [List.find?_range_eq_some] at h
    obtain ⟨h1, _, h3⟩ := h
    refine ⟨by omega, by simpa using h1, ?_⟩
    intro j hj
    have := h3 j hj
    simpa using this

theorem tfPolyDegree_sound (nv : Nat) {r : Rng} {n : Int} {d : Nat} (hn : Mem n r) (hd : degree? nv n = some d) :
    ∃ r', tfPolyDegree nv r = some r' ∧ Mem (d : Int) r' := by
  refine ⟨_, rfl, ?_, ?_⟩
  · -- lower endpoint
    obtain ⟨hn0, hnd, hleast⟩ := degree?_spec hd
    show PyNum.le (match r.1 with
      | int z => (match degree? nv z with | some d => int d | none => int 0)
      | _ => int 0) (int d) = true
    cases hr : r.1 with
    | int z =>
      have hzn : z ≤ n := by have := hn.1; rw [hr] at this; simpa using this
      simp only []
      cases hz : degree? nv z with
      | none => simp
      | some dl =>
        obtain ⟨hz0, hzd, hzleast⟩ := degree?_spec hz
        simp only [le_int_int, Int.ofNat_le]
        by_contra hc
        have hlt : d < dl := by omega
        have h1 := ncoeffs_mono nv (Nat.le_of_lt hlt)
        have h2 := hzleast d hlt
        omega
    | ninf => simp
    | pinf => simp
    | nan => simp
  · obtain ⟨hn0, hnd, hleast⟩ := degree?_spec hd
    show PyNum.le (int d) (match r.2 with
      | int z => (match degree? nv z with | some d => int d | none => pinf)
      | _ => pinf) = true
    cases hr : r.2 with
    | int z =>
      have hzn : n ≤ z := by have := hn.2; rw [hr] at this; simpa using this
      simp only []
      cases hz : degree? nv z with
      | none => simp
      | some du =>
        obtain ⟨hz0, hzd, hzleast⟩ := degree?_spec hz
        simp only [le_int_int, Int.ofNat_le]
        by_contra hc
        have hlt : du < d := by omega
        have h1 := ncoeffs_mono nv (Nat.le_of_lt hlt)
        have h2 := hleast du hlt
        omega
    | ninf => simp
    | pinf => simp
    | nan => simp

theorem tfPolyNCoeffs_sound (nv : Nat) {r : Rng} {d : Int} (hd : Mem d r) (hd0 : 0 ≤ d) :
    ∃ r', tfPolyNCoeffs nv r = some r' ∧ Mem (ncoeffs nv d.toNat : Int) r' := by
  refine ⟨_, rfl, ?_, ?_⟩
  · show PyNum.le (match r.1 with
      | int z => if 0 ≤ z then int (ncoeffs nv z.toNat) else int 0
      | _ => int 0) (int (ncoeffs nv d.toNat)) = true
    cases hr : r.1 with
    | int z =>
      have hzd : z ≤ d := by have := hd.1; rw [hr] at this; simpa using this
      by_cases hz : 0 ≤ z
      · have := ncoeffs_mono nv (d := z.toNat) (d' := d.toNat) (by omega)
        simp only [hz, if_true, le_int_int]; omega
      · simp only [hz, if_false, le_int_int]; omega
    | ninf => simp
    | pinf => simp
    | nan => simp
  · show PyNum.le (int (ncoeffs nv d.toNat)) (match r.2 with
      | int z => if 0 ≤ z then int (ncoeffs nv z.toNat) else pinf
      | _ => pinf) = true
    cases hr : r.2 with
    | int z =>
      have hzd : d ≤ z := by have := hd.2; rw [hr] at this; simpa using this
      have hz : 0 ≤ z := by omega
      have := ncoeffs_mono nv (d := d.toNat) (d' := z.toNat) (by omega)
      simp only [hz, if_true, le_int_int]; omega
    | ninf => simp
    | pinf => simp
    | nan => simp

end NutilsVerif.C06
