import NutilsVerif.Model.C13
/-!
# C13 (a): substitution commutes with evaluation; the `shallow_replace` loop computes `subst`
-/
namespace NutilsVerif.C13

namespace Expr
variable {V : Type}

/-- structural induction with the usable hypothesis for n-ary applications -/
theorem ind {P : Expr V → Prop}
    (hvar : ∀ x, P (var x)) (hconst : ∀ c, P (const c))
    (hadd : ∀ a b, P a → P b → P (add a b)) (hmul : ∀ a b, P a → P b → P (mul a b))
    (hneg : ∀ a, P a → P (neg a))
    (happ : ∀ f args, (∀ a ∈ args, P a) → P (app f args)) : ∀ e, P e := by
  intro e
  refine Expr.rec (motive_1 := P) (motive_2 := fun l => ∀ a ∈ l, P a)
    hvar hconst (fun a b ha hb => hadd a b ha hb) (fun a b ha hb => hmul a b ha hb)
    (fun a ha => hneg a ha) (fun f args h => happ f args h) ?_ ?_ e
  · intro a ha; cases ha
  · intro h t hh ht a ha
    cases ha with
    | head => exact hh
    | tail _ h' => exact ht a h'

section eval
variable {α : Type} [Add α] [Mul α] [Neg α] [IntCast α]

theorem subst_eval' (I : String → List α → α) (ρ : V → α) (σ : V → Option (Expr V)) (e : Expr V) :
    eval I ρ (subst σ e) = eval I (bindEnv I ρ σ) e := by
  induction e using Expr.ind with
  | hvar x =>
    simp only [subst, eval, bindEnv]
    cases σ x <;> simp [eval]
  | hconst c => simp [subst, eval]
  | hadd a b ha hb => simp [subst, eval, ha, hb]
  | hmul a b ha hb => simp [subst, eval, ha, hb]
  | hneg a ha => simp [subst, eval, ha]
  | happ f args h =>
    simp only [subst, eval, List.map_map]
    congr 1
    exact List.map_congr_left fun a ha => h a ha

/-- evaluation depends on the free variables only -/
theorem eval_congr (I : String → List α → α) (ρ ρ' : V → α) (e : Expr V)
    (h : ∀ x ∈ freeVars e, ρ x = ρ' x) : eval I ρ e = eval I ρ' e := by
  induction e using Expr.ind with
  | hvar x => simpa [eval, freeVars] using h
  | hconst c => simp [eval]
  | hadd a b ha hb =>
    simp only [freeVars, List.mem_append] at h
    simp [eval, ha (fun x hx => h x (Or.inl hx)), hb (fun x hx => h x (Or.inr hx))]
  | hmul a b ha hb =>
    simp only [freeVars, List.mem_append] at h
    simp [eval, ha (fun x hx => h x (Or.inl hx)), hb (fun x hx => h x (Or.inr hx))]
  | hneg a ha => simp only [freeVars] at h; simp [eval, ha h]
  | happ f args ih =>
    simp only [eval]
    congr 1
    refine List.map_congr_left fun a ha => ih a ha fun x hx => h x ?_
    simp only [freeVars, List.mem_flatten, List.mem_map]
    exact ⟨freeVars a, ⟨a, ha, rfl⟩, hx⟩

end eval

/-- arguments of a substituted expression: the unreplaced ones and those of the replacements that were used -/
theorem freeVars_subst (σ : V → Option (Expr V)) (e : Expr V) :
    ∀ y, y ∈ freeVars (subst σ e) ↔
      ∃ x ∈ freeVars e, (σ x = none ∧ y = x) ∨ (∃ g, σ x = some g ∧ y ∈ freeVars g) := by
  induction e using Expr.ind with
  | hvar x =>
    intro y
    simp only [subst, freeVars, List.mem_singleton, exists_eq_left]
    cases h : σ x <;> simp [freeVars]
  | hconst c => intro y; simp [subst, freeVars]
  | hadd a b ha hb =>
    intro y
    simp only [subst, freeVars, List.mem_append, ha y, hb y]
    constructor
    · rintro (⟨x, hx, h⟩ | ⟨x, hx, h⟩)
      · exact ⟨x, Or.inl hx, h⟩
      · exact ⟨x, Or.inr hx, h⟩
    · rintro ⟨x, hx | hx, h⟩
      · exact Or.inl ⟨x, hx, h⟩
      · exact Or.inr ⟨x, hx, h⟩
  | hmul a b ha hb =>
    intro y
    simp only [subst, freeVars, List.mem_append, ha y, hb y]
    constructor
    · rintro (⟨x, hx, h⟩ | ⟨x, hx, h⟩)
      · exact ⟨x, Or.inl hx, h⟩
      · exact ⟨x, Or.inr hx, h⟩
    · rintro ⟨x, hx | hx, h⟩
      · exact Or.inl ⟨x, hx, h⟩
      · exact Or.inr ⟨x, hx, h⟩
  | hneg a ha => intro y; simp only [subst, freeVars, ha y]
  | happ f args ih =>
    intro y
    simp only [subst, freeVars, List.map_map, List.mem_flatten, List.mem_map, Function.comp]
    constructor
    · rintro ⟨l, ⟨a, ha, rfl⟩, hy⟩
      obtain ⟨x, hx, h⟩ := (ih a ha y).1 hy
      exact ⟨x, ⟨freeVars a, ⟨a, ha, rfl⟩, hx⟩, h⟩
    · rintro ⟨x, ⟨l, ⟨a, ha, rfl⟩, hx⟩, h⟩
      exact ⟨freeVars (subst σ a), ⟨a, ha, rfl⟩, (ih a ha y).2 ⟨x, hx, h⟩⟩

end Expr

/-! ### the machine -/

namespace Machine
variable {V : Type}

theorem run_add (d : Dag V) (σ : V → Option (Expr V)) (m n : Nat) (s : State V) :
    run d σ (m + n) s = run d σ n (run d σ m s) := by
  induction m generalizing s with
  | zero => simp [run]
  | succ m ih => rw [Nat.succ_add]; simp [run, ih]

/-- every cached result is the substituted tree of its row -/
def CacheOK (d : Dag V) (σ : V → Option (Expr V)) (c : List (Nat × Expr V)) : Prop :=
  ∀ id r, c.lookup id = some r → r = Expr.subst σ (d.denote id)

theorem cacheOK_cons {d : Dag V} {σ} {c : List (Nat × Expr V)} (h : CacheOK d σ c) (id : Nat) :
    CacheOK d σ ((id, Expr.subst σ (d.denote id)) :: c) := by
  intro id' r hl
  simp only [List.lookup_cons] at hl
  by_cases e : id' = id
  · subst e; simp at hl; exact hl.symm
  · have : (id' == id) = false := by simpa using e
    rw [this] at hl; exact h id' r hl

theorem denoteF_eq (d : Dag V) (hwf : d.WF) :
    ∀ k f1 f2, k < f1 → k < f2 → d.denoteF f1 k = d.denoteF f2 k := by
  intro k
  induction k using Nat.strongRecOn with
  | _ k ih =>
    intro f1 f2 h1 h2
    obtain ⟨g1, rfl⟩ : ∃ g, f1 = g + 1 := ⟨f1 - 1, by omega⟩
    obtain ⟨g2, rfl⟩ : ∃ g, f2 = g + 1 := ⟨f2 - 1, by omega⟩
    simp only [Dag.denoteF]
    cases hn : d[k]? with
    | none => rfl
    | some n =>
      simp only
      congr 1
      refine List.map_congr_left fun c hc => ?_
      have hck : c < k := hwf k n hn c hc
      exact ih c hck g1 g2 (by omega) (by omega)

/-- the tree of a row is the row's constructor applied to the trees of its children -/
theorem denote_unfold (d : Dag V) (hwf : d.WF) (k : Nat) (n : DNode V) (hn : d[k]? = some n) :
    d.denote k = n.rebuild (n.children.map d.denote) := by
  unfold Dag.denote
  simp only [Dag.denoteF, hn]
  congr 1
  refine List.map_congr_left fun c hc => ?_
  have hck : c < k := hwf k n hn c hc
  exact denoteF_eq d hwf c k (c + 1) hck (by omega)

theorem subst_rebuild (σ : V → Option (Expr V)) (n : DNode V) (hf : func σ n = none) (f : Nat → Expr V) :
    Expr.subst σ (n.rebuild (n.children.map f)) = n.rebuild (n.children.map fun c => Expr.subst σ (f c)) := by
  cases n with
  | var x => simp only [func] at hf; simp [DNode.rebuild, Expr.subst, hf]
  | const c => simp [DNode.rebuild, Expr.subst]
  | add i j => simp [DNode.rebuild, DNode.children, Expr.subst]
  | mul i j => simp [DNode.rebuild, DNode.children, Expr.subst]
  | neg i => simp [DNode.rebuild, DNode.children, Expr.subst]
  | app g args => simp [DNode.rebuild, DNode.children, Expr.subst]

/-- what processing one object achieves -/
def Processes (d : Dag V) (σ : V → Option (Expr V)) (id : Nat) : Prop :=
  ∀ fs rs c, CacheOK d σ c → ∃ n c', CacheOK d σ c' ∧
    run d σ n ⟨.obj id :: fs, rs, c⟩ = ⟨fs, Expr.subst σ (d.denote id) :: rs, c'⟩

theorem processes_list (d : Dag V) (σ : V → Option (Expr V)) (l : List Nat) (h : ∀ i ∈ l, Processes d σ i) :
    ∀ fs rs c, CacheOK d σ c → ∃ n c', CacheOK d σ c' ∧
      run d σ n ⟨l.map Tok.obj ++ fs, rs, c⟩ = ⟨fs, l.reverse.map (fun i => Expr.subst σ (d.denote i)) ++ rs, c'⟩ := by
  induction l with
  | nil => intro fs rs c hc; exact ⟨0, c, hc, by simp [run]⟩
  | cons a t ih =>
    intro fs rs c hc
    obtain ⟨n1, c1, hc1, h1⟩ := h a (by simp) (t.map Tok.obj ++ fs) rs c hc
    obtain ⟨n2, c2, hc2, h2⟩ := ih (fun i hi => h i (by simp [hi])) fs (Expr.subst σ (d.denote a) :: rs) c1 hc1
    refine ⟨n1 + n2, c2, hc2, ?_⟩
    rw [run_add]
    simp only [List.map_cons, List.cons_append] at h1 ⊢
    rw [h1, h2]
    simp

theorem processes (d : Dag V) (hwf : d.WF) (σ : V → Option (Expr V)) :
    ∀ id, id < d.length → Processes d σ id := by
  intro id
  induction id using Nat.strongRecOn with
  | _ id ih =>
    intro hlen fs rs c hc
    cases hl : c.lookup id with
    | some r =>
      refine ⟨1, c, hc, ?_⟩
      simp only [run, step, hl]
      rw [hc id r hl]
    | none =>
      have hn : d[id]? = some d[id] := List.getElem?_eq_getElem hlen
      generalize d[id] = n at hn
      cases hf : func σ n with
      | some r =>
        have hr : r = Expr.subst σ (d.denote id) := by
          cases n with
          | var x =>
            simp only [func] at hf
            rw [denote_unfold d hwf id _ hn]
            simp [DNode.rebuild, Expr.subst, hf]
          | const c => simp [func] at hf
          | add i j => simp [func] at hf
          | mul i j => simp [func] at hf
          | neg i => simp [func] at hf
          | app g args => simp [func] at hf
        refine ⟨1, (id, r) :: c, ?_, ?_⟩
        · rw [hr]; exact cacheOK_cons hc id
        · simp only [run, step, hl, hn, hf]; rw [hr]
      | none =>
        have hch : ∀ i ∈ n.children.reverse, Processes d σ i := by
          intro i hi
          have hik : i < id := hwf id n hn i (by simpa using hi)
          exact ih i hik (by omega)
        obtain ⟨n1, c1, hc1, h1⟩ := processes_list d σ n.children.reverse hch (Tok.recreate id :: fs) rs c hc
        refine ⟨1 + (n1 + 1), (id, Expr.subst σ (d.denote id)) :: c1, cacheOK_cons hc1 id, ?_⟩
        rw [run_add, run_add]
        have h0 : run d σ 1 ⟨.obj id :: fs, rs, c⟩ = ⟨n.children.reverse.map Tok.obj ++ Tok.recreate id :: fs, rs, c⟩ := by
          simp only [run, step, hl, hn, hf]
        rw [h0, h1]
        simp only [run, step, hn, List.reverse_reverse]
        have hlen' : (n.children.map fun i => Expr.subst σ (d.denote i)).length = n.children.length := by simp
        rw [List.take_left' hlen', List.drop_left' hlen']
        rw [denote_unfold d hwf id n hn, subst_rebuild σ n hf]

/-- **the loop of `util.shallow_replace` terminates and returns the simultaneous substitution** -/
theorem shallowReplace_correct (d : Dag V) (hwf : d.WF) (σ : V → Option (Expr V)) (id : Nat) (h : id < d.length) :
    ∃ fuel, shallowReplace d σ id fuel = some (Expr.subst σ (d.denote id)) := by
  obtain ⟨n, c', _, hrun⟩ := processes d hwf σ id h [] [] [] (by intro i r hl; simp at hl)
  exact ⟨n, by simp [shallowReplace, init, hrun]⟩

/-- once finished, more fuel changes nothing -/
theorem run_done (d : Dag V) (σ : V → Option (Expr V)) (n : Nat) (s : State V) (h : s.fstack = []) :
    run d σ n s = s := by
  induction n with
  | zero => rfl
  | succ n ih => simp only [run]; have : step d σ s = s := by simp [step, h]
                 rw [this, ih]

end Machine
end NutilsVerif.C13
