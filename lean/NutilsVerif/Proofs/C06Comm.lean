import NutilsVerif.Proofs.C06
/-!
# C06 — `Multiply.funcs` / `Add.funcs` are multisets: the inferred range does not depend on the iteration order
-/
namespace NutilsVerif.C06
open PyNum

theorem le_antisymm' {a b : PyNum} (h1 : PyNum.le a b = true) (h2 : PyNum.le b a = true) : a = b := by
  cases a <;> cases b <;> simp_all [PyNum.le, PyNum.lt, PyNum.eq] <;> omega

theorem le_total' {a b : PyNum} (ha : NN a) (hb : NN b) : PyNum.le a b = true ∨ PyNum.le b a = true := by
  cases h : PyNum.lt b a with
  | false => exact Or.inl (le_of_not_lt ha hb h)
  | true => exact Or.inr (le_of_lt h)

theorem min2_le_both {a b : PyNum} (ha : NN a) (hb : NN b) : PyNum.le (min2 a b) a = true ∧ PyNum.le (min2 a b) b = true :=
  ⟨min2_le_left (le_refl' ha), min2_le_right ha (le_refl' hb)⟩

theorem max2_ge_both {a b : PyNum} (ha : NN a) (hb : NN b) : PyNum.le a (max2 a b) = true ∧ PyNum.le b (max2 a b) = true :=
  ⟨max2_ge_left (le_refl' ha), max2_ge_right ha (le_refl' hb)⟩

theorem min2_mem (a b : PyNum) : min2 a b = a ∨ min2 a b = b := by
  unfold min2; split <;> simp
theorem max2_mem (a b : PyNum) : max2 a b = a ∨ max2 a b = b := by
  unfold max2; split <;> simp

/-- the builtin `min` of four non-`nan` numbers is the least of them, whatever the order -/
theorem minL4_perm {a b c d : PyNum} (ha : NN a) (hb : NN b) (hc : NN c) (hd : NN d) : minL [a, c, b, d] = minL [a, b, c, d] := by
  rw [minL4, minL4]
  have n1 := min2_nn ha hb
  have n2 := min2_nn ha hc
  have n3 := min2_nn n1 hc
  have n4 := min2_nn n2 hb
  -- both sides are below all four
  have L : ∀ x, x = a ∨ x = b ∨ x = c ∨ x = d → PyNum.le (min2 (min2 (min2 a b) c) d) x = true := by
    rintro x (rfl | rfl | rfl | rfl)
    · exact le_trans' (min2_le_both (min2_nn n1 hc) hd).1 (le_trans' (min2_le_both n1 hc).1 (min2_le_both ha hb).1)
    · exact le_trans' (min2_le_both (min2_nn n1 hc) hd).1 (le_trans' (min2_le_both n1 hc).1 (min2_le_both ha hb).2)
    · exact le_trans' (min2_le_both (min2_nn n1 hc) hd).1 (min2_le_both n1 hc).2
    · exact (min2_le_both (min2_nn n1 hc) hd).2
  have R : ∀ x, x = a ∨ x = b ∨ x = c ∨ x = d → PyNum.le (min2 (min2 (min2 a c) b) d) x = true := by
    rintro x (rfl | rfl | rfl | rfl)
    · exact le_trans' (min2_le_both (min2_nn n2 hb) hd).1 (le_trans' (min2_le_both n2 hb).1 (min2_le_both ha hc).1)
    · exact le_trans' (min2_le_both (min2_nn n2 hb) hd).1 (min2_le_both n2 hb).2
    · exact le_trans' (min2_le_both (min2_nn n2 hb) hd).1 (le_trans' (min2_le_both n2 hb).1 (min2_le_both ha hc).2)
    · exact (min2_le_both (min2_nn n2 hb) hd).2
  -- and each side is one of the four
  have ML : min2 (min2 (min2 a b) c) d = a ∨ min2 (min2 (min2 a b) c) d = b ∨ min2 (min2 (min2 a b) c) d = c ∨ min2 (min2 (min2 a b) c) d = d := by
    rcases min2_mem (min2 (min2 a b) c) d with h | h
    · rcases min2_mem (min2 a b) c with h' | h'
      · rcases min2_mem a b with h'' | h''
        · exact Or.inl (by rw [h, h', h''])
        · exact Or.inr (Or.inl (by rw [h, h', h'']))
      · exact Or.inr (Or.inr (Or.inl (by rw [h, h'])))
    · exact Or.inr (Or.inr (Or.inr h))
  have MR : min2 (min2 (min2 a c) b) d = a ∨ min2 (min2 (min2 a c) b) d = b ∨ min2 (min2 (min2 a c) b) d = c ∨ min2 (min2 (min2 a c) b) d = d := by
    rcases min2_mem (min2 (min2 a c) b) d with h | h
    · rcases min2_mem (min2 a c) b with h' | h'
      · rcases min2_mem a c with h'' | h''
        · exact Or.inl (by rw [h, h', h''])
        · exact Or.inr (Or.inr (Or.inl (by rw [h, h', h''])))
      · exact Or.inr (Or.inl (by rw [h, h']))
    · exact Or.inr (Or.inr (Or.inr h))
  exact le_antisymm' (R _ ML) (L _ MR)

theorem maxL4_perm {a b c d : PyNum} (ha : NN a) (hb : NN b) (hc : NN c) (hd : NN d) : maxL [a, c, b, d] = maxL [a, b, c, d] := by
  rw [maxL4, maxL4]
  have n1 := max2_nn ha hb
  have n2 := max2_nn ha hc
  have L : ∀ x, x = a ∨ x = b ∨ x = c ∨ x = d → PyNum.le x (max2 (max2 (max2 a b) c) d) = true := by
    rintro x (rfl | rfl | rfl | rfl)
    · exact le_trans' (le_trans' (max2_ge_both ha hb).1 (max2_ge_both n1 hc).1) (max2_ge_both (max2_nn n1 hc) hd).1
    · exact le_trans' (le_trans' (max2_ge_both ha hb).2 (max2_ge_both n1 hc).1) (max2_ge_both (max2_nn n1 hc) hd).1
    · exact le_trans' (max2_ge_both n1 hc).2 (max2_ge_both (max2_nn n1 hc) hd).1
    · exact (max2_ge_both (max2_nn n1 hc) hd).2
  have R : ∀ x, x = a ∨ x = b ∨ x = c ∨ x = d → PyNum.le x (max2 (max2 (max2 a c) b) d) = true := by
    rintro x (rfl | rfl | rfl | rfl)
    · exact le_trans' (le_trans' (max2_ge_both ha hc).1 (max2_ge_both n2 hb).1) (max2_ge_both (max2_nn n2 hb) hd).1
    · exact le_trans' (max2_ge_both n2 hb).2 (max2_ge_both (max2_nn n2 hb) hd).1
    · exact le_trans' (le_trans' (max2_ge_both ha hc).2 (max2_ge_both n2 hb).1) (max2_ge_both (max2_nn n2 hb) hd).1
    · exact (max2_ge_both (max2_nn n2 hb) hd).2
  have ML : max2 (max2 (max2 a b) c) d = a ∨ max2 (max2 (max2 a b) c) d = b ∨ max2 (max2 (max2 a b) c) d = c ∨ max2 (max2 (max2 a b) c) d = d := by
    rcases max2_mem (max2 (max2 a b) c) d with h | h
    · rcases max2_mem (max2 a b) c with h' | h'
      · rcases max2_mem a b with h'' | h''
        · exact Or.inl (by rw [h, h', h''])
        · exact Or.inr (Or.inl (by rw [h, h', h'']))
      · exact Or.inr (Or.inr (Or.inl (by rw [h, h'])))
    · exact Or.inr (Or.inr (Or.inr h))
  have MR : max2 (max2 (max2 a c) b) d = a ∨ max2 (max2 (max2 a c) b) d = b ∨ max2 (max2 (max2 a c) b) d = c ∨ max2 (max2 (max2 a c) b) d = d := by
    rcases max2_mem (max2 (max2 a c) b) d with h | h
    · rcases max2_mem (max2 a c) b with h' | h'
      · rcases max2_mem a c with h'' | h''
        · exact Or.inl (by rw [h, h', h''])
        · exact Or.inr (Or.inr (Or.inl (by rw [h, h', h''])))
      · exact Or.inr (Or.inl (by rw [h, h']))
    · exact Or.inr (Or.inr (Or.inr h))
  exact le_antisymm' (L _ MR) (R _ ML)

/-- `Multiply`: the range is the same for both iteration orders of the `frozenmultiset` of factors -/
theorem mulRng_comm {r1 r2 : Rng} (h1 : Valid r1) (h2 : Valid r2) : mulRng r2 r1 = mulRng r1 r2 := by
  obtain ⟨a1, b1⟩ := valid_nn h1
  obtain ⟨a2, b2⟩ := valid_nn h2
  unfold mulRng
  simp only [andMul_comm a2 a1, andMul_comm a2 b1, andMul_comm b2 a1, andMul_comm b2 b1]
  rw [minL4_perm (andMul_nn a1 a2) (andMul_nn a1 b2) (andMul_nn b1 a2) (andMul_nn b1 b2),
    maxL4_perm (andMul_nn a1 a2) (andMul_nn a1 b2) (andMul_nn b1 a2) (andMul_nn b1 b2)]

theorem add_comm' (a b : PyNum) : PyNum.add a b = PyNum.add b a := by
  cases a <;> cases b <;> simp [PyNum.add, Int.add_comm]

theorem add_zero_left {a : PyNum} : PyNum.add (int 0) a = a := by
  cases a <;> simp [PyNum.add]

/-- `Add`: same for the two orders of the terms -/
theorem tfAdd_comm (r1 r2 : Rng) : tfAdd [r2, r1] = tfAdd [r1, r2] := by
  simp only [tfAdd, pySum, List.map_cons, List.map_nil, List.foldl_cons, List.foldl_nil, add_zero_left]
  rw [add_comm' r2.1 r1.1, add_comm' r2.2 r1.2]


/-! ### nested `Add`s are flattened by `Add._terms`: the flattened sum equals the sum of the sums -/

/-- endpoints that can occur as lower (`-inf` or int) resp. upper (`+inf` or int) endpoint: no `nan`, one kind of infinity only -/
def OneSided (s : Bool) (b : PyNum) : Prop := (∃ z, b = int z) ∨ (if s then b = pinf else b = ninf)

theorem oneSided_add {s : Bool} {a b : PyNum} (ha : OneSided s a) (hb : OneSided s b) : OneSided s (PyNum.add a b) := by
  cases s <;> rcases ha with ⟨x, rfl⟩ | ha <;> rcases hb with ⟨y, rfl⟩ | hb <;> simp_all [OneSided, PyNum.add]

theorem add_assoc' {s : Bool} {a b c : PyNum} (ha : OneSided s a) (hb : OneSided s b) (hc : OneSided s c) :
    PyNum.add (PyNum.add a b) c = PyNum.add a (PyNum.add b c) := by
  cases s <;> rcases ha with ⟨x, rfl⟩ | ha <;> rcases hb with ⟨y, rfl⟩ | hb <;> rcases hc with ⟨z, rfl⟩ | hc <;>
    simp_all [OneSided, PyNum.add, Int.add_assoc]

theorem foldl_add_acc {s : Bool} : ∀ (l : List PyNum) (acc : PyNum), OneSided s acc → (∀ b ∈ l, OneSided s b) →
    l.foldl PyNum.add acc = PyNum.add acc (l.foldl PyNum.add (int 0)) ∧ OneSided s (l.foldl PyNum.add (int 0))
  | [], acc, hacc, _ => by
    refine ⟨?_, Or.inl ⟨0, rfl⟩⟩
    rcases hacc with ⟨x, rfl⟩ | h
    · simp [PyNum.add]
    · cases s <;> simp_all [PyNum.add]
  | x :: t, acc, hacc, hl => by
    have hx := hl x (by simp)
    have ht : ∀ b ∈ t, OneSided s b := fun b hb => hl b (by simp [hb])
    obtain ⟨e1, o1⟩ := foldl_add_acc t (PyNum.add acc x) (oneSided_add hacc hx) ht
    obtain ⟨e2, _⟩ := foldl_add_acc t (PyNum.add (int 0) x) (oneSided_add (Or.inl ⟨0, rfl⟩) hx) ht
    simp only [List.foldl_cons]
    rw [e1, e2, add_zero_left, add_assoc' hacc hx o1]
    exact ⟨rfl, by rw [← add_zero_left (a := x), ← e2]; rw [add_zero_left]; exact (foldl_add_acc t x hx ht).1 ▸ oneSided_add hx o1⟩

theorem pySum_append {s : Bool} (l1 l2 : List PyNum) (h1 : ∀ b ∈ l1, OneSided s b) (h2 : ∀ b ∈ l2, OneSided s b) :
    pySum (l1 ++ l2) = PyNum.add (PyNum.add (int 0) (pySum l1)) (pySum l2) := by
  unfold pySum
  rw [List.foldl_append, add_zero_left]
  exact (foldl_add_acc l2 _ (foldl_add_acc l1 (int 0) (Or.inl ⟨0, rfl⟩) h1).2 h2).1

theorem valid_oneSided {r : Rng} (h : Valid r) : OneSided false r.1 ∧ OneSided true r.2 := by
  rcases valid_cases h with ⟨a, b, rfl, _⟩ | ⟨b, rfl⟩ | ⟨a, rfl⟩ | rfl <;> simp [OneSided]

/-- `Add(Add(a, b), c)` sums the bounds of the flattened terms `a, b, c`; this equals adding the bounds of the two operands -/
theorem tfAdd_append (rs1 rs2 : List Rng) (h1 : ∀ r ∈ rs1, Valid r) (h2 : ∀ r ∈ rs2, Valid r) (x y : Rng)
    (hx : tfAdd rs1 = some x) (hy : tfAdd rs2 = some y) : tfAdd (rs1 ++ rs2) = tfAdd [x, y] := by
  simp only [tfAdd, Option.some.injEq] at hx hy
  subst hx; subst hy
  simp only [tfAdd, List.map_append, List.map_cons, List.map_nil, Option.some.injEq, Prod.mk.injEq]
  constructor
  · rw [pySum_append (s := false) _ _ (by intro b hb; obtain ⟨r, hr, rfl⟩ := List.mem_map.1 hb; exact (valid_oneSided (h1 r hr)).1)
      (by intro b hb; obtain ⟨r, hr, rfl⟩ := List.mem_map.1 hb; exact (valid_oneSided (h2 r hr)).1)]
    simp [pySum]
  · rw [pySum_append (s := true) _ _ (by intro b hb; obtain ⟨r, hr, rfl⟩ := List.mem_map.1 hb; exact (valid_oneSided (h1 r hr)).2)
      (by intro b hb; obtain ⟨r, hr, rfl⟩ := List.mem_map.1 hb; exact (valid_oneSided (h2 r hr)).2)]
    simp [pySum]

end NutilsVerif.C06
