import NutilsVerif.Model.C19Src
import NutilsVerif.Proofs.C19Scan
import NutilsVerif.Proofs.C19Fuel
/-!
# C19 — scanning printed source ASTs: the splits of the parser recover the grammatical pieces
-/
namespace NutilsVerif.C19

/-! ## finding a separator after balanced, separator-free text -/

theorem find_none (ms : List Matcher) (T : List Char) (h : topAll (noMatch ms) [] T 0 = true) :
    find ms T = ⟨none, T.length, 0⟩ := by
  have := findGo_skip ms [] T 0 0 h
  simp only [List.append_nil] at this
  simp [find, this, findGo]

theorem find_sep (ms : List Matcher) (T : List Char) (c : Char) (R : List Char) (k n : Nat)
    (hT : topAll (noMatch ms) (c :: R) T 0 = true) (hd : delta T = 0) (hc : isClose c = false)
    (hm : firstMatch ms (c :: R) 0 = some (k, n)) :
    find ms (T ++ c :: R) = ⟨some k, T.length, n⟩ := by
  have := findGo_skip ms (c :: R) T 0 0 hT
  rw [hd] at this
  simp only [find, this, findGo_cons, lvlClose, hc, Bool.false_eq_true, if_false, Int.add_zero, if_true, hm, Nat.zero_add]

/-- every level-0 scan position of `T` carries a character satisfying `ok` -/
def topHeads (ok : Char → Bool) : List Char → Int → Bool
  | [], _ => true
  | c :: cs, lvl => (lvlClose c lvl != 0 || ok c) && topHeads ok cs (lvlOpen c (lvlClose c lvl))

theorem topAll_of_heads (P : List Char → Bool) (ok : Char → Bool) (X : List Char)
    (h : ∀ c tl, ok c = true → P (c :: tl) = true) : ∀ (T : List Char) (lvl : Int),
    topHeads ok T lvl = true → topAll P X T lvl = true := by
  intro T
  induction T with
  | nil => intro _ _; rfl
  | cons c cs ih =>
    intro lvl ht
    simp only [topHeads, Bool.and_eq_true, Bool.or_eq_true] at ht
    simp only [topAll, Bool.and_eq_true, Bool.or_eq_true]
    refine ⟨?_, ih _ ht.2⟩
    rcases ht.1 with h1 | h1
    · exact Or.inl h1
    · exact Or.inr (h c _ h1)

theorem topHeads_append (ok : Char → Bool) (A B : List Char) : ∀ (lvl : Int),
    topHeads ok (A ++ B) lvl = (topHeads ok A lvl && topHeads ok B (lvl + delta A)) := by
  induction A with
  | nil => intro lvl; simp [topHeads, delta]
  | cons c cs ih =>
    intro lvl
    simp only [List.cons_append, topHeads, ih, delta, Bool.and_assoc]
    rw [lvl_step c lvl]
    congr 3; omega

theorem topHeads_inner (ok : Char → Bool) : ∀ (E : List Char) (d : Nat) (lvl : Int),
    closedOK E d = true → (d : Int) + 1 ≤ lvl → topHeads ok E lvl = true := by
  intro E
  induction E with
  | nil => intro d lvl _ _; rfl
  | cons c cs ih =>
    intro d lvl h hl
    simp only [closedOK] at h
    simp only [topHeads, Bool.and_eq_true, Bool.or_eq_true]
    by_cases hc : isClose c = true
    · simp only [hc, if_true, Bool.and_eq_true, decide_eq_true_eq] at h
      have ho := open_close_excl c hc
      refine ⟨Or.inl ?_, ?_⟩
      · simp only [lvlClose, hc, if_true]; simp; omega
      · apply ih (d - 1) _ h.2
        simp only [lvlOpen, lvlClose, hc, ho, if_true]; simp; omega
    · simp only [hc, Bool.false_eq_true, if_false] at h
      refine ⟨Or.inl ?_, ?_⟩
      · simp only [lvlClose, hc]; simp; omega
      · by_cases ho : isOpen c = true
        · simp only [ho, if_true] at h
          apply ih (d + 1) _ h
          simp only [lvlOpen, lvlClose, hc, ho, if_true]; simp; omega
        · simp only [ho, Bool.false_eq_true, if_false] at h
          apply ih d _ h
          simp only [lvlOpen, lvlClose, hc, ho]; simp; omega

theorem topHeads_all (ok : Char → Bool) : ∀ (l : List Char) (lvl : Int), l.all ok = true → topHeads ok l lvl = true := by
  intro l
  induction l with
  | nil => intro _ _; rfl
  | cons c cs ih =>
    intro lvl h
    simp only [List.all_cons, Bool.and_eq_true] at h
    simp only [topHeads, Bool.and_eq_true, Bool.or_eq_true]
    exact ⟨Or.inr h.1, ih _ h.2⟩

theorem topHeads_bracket (ok : Char → Bool) (o c : Char) (E : List Char) (ho : isOpen o = true) (hc : isClose c = true)
    (hoo : ok o = true) (hoc : ok c = true) (hE : Bal E) : topHeads ok (o :: E ++ [c]) 0 = true := by
  have hoc' : isClose o = false := by
    cases h : isClose o with
    | false => rfl
    | true => rw [open_close_excl o h] at ho; simp at ho
  show topHeads ok (o :: (E ++ [c])) 0 = true
  simp only [topHeads, Bool.and_eq_true, Bool.or_eq_true]
  refine ⟨Or.inr hoo, ?_⟩
  rw [topHeads_append]
  simp only [Bool.and_eq_true]
  have hl : lvlOpen o (lvlClose o 0) = 1 := by simp [lvlOpen, lvlClose, hoc', ho]
  rw [hl]
  refine ⟨topHeads_inner ok E 0 1 hE.1 (by simp), ?_⟩
  simp only [topHeads, Bool.and_eq_true, Bool.or_eq_true]
  exact ⟨Or.inr hoc, trivial⟩

/-! ## character classes -/

/-- characters that may stand at level 0 inside an item -/
def okTop (c : Char) : Bool := !(c == ' ' || c == '^')
/-- characters an item may start with -/
def startOK (c : Char) : Bool := !(c == ' ' || c == '^' || c == '-' || c == '+' || c == '/' || isClose c)

theorem digitChar_facts : ∀ d, d < 10 → isDigit (digitChar d) = true ∧ plain (digitChar d) = true ∧ okTop (digitChar d) = true
    ∧ startOK (digitChar d) = true ∧ digitVal (digitChar d) = d ∧ (digitChar d == '_') = false := by decide

theorem nameChar_facts (c : Char) (h : nameChar c = true) : plain c = true ∧ okTop c = true ∧ (c == '_') = false := by
  simp only [nameChar, plain, okTop, Bool.not_eq_true', Bool.or_eq_false_iff] at h ⊢
  simp [h.1.1.1.1, h.1.1.1.2, h.1.1.2, h.1.2, h.2]

theorem nameStart_facts (c : Char) (h : nameStart c = true) : nameChar c = true ∧ startOK c = true ∧ isDigit c = false ∧ (c == '.') = false := by
  simp only [nameStart, nameChar, startOK, Bool.and_eq_true, Bool.not_eq_true', Bool.or_eq_false_iff] at h ⊢
  simp [h.1.1.1.1.1, h.1.1.1.1.2, h.1.1.1.2, h.1.1.2, h.1.2, h.2.1.1.1.1, h.2.1.1.1.2, h.2.1.1.2, h.2.1.2, h.2.2]

theorem idxChar_facts (c : Char) (h : idxChar c = true) : plain c = true ∧ okTop c = true := by
  simp only [idxChar, isDigit, Bool.or_eq_true, Bool.and_eq_true, decide_eq_true_eq] at h
  have : (48 ≤ c.toNat ∧ c.toNat ≤ 57) ∨ (97 ≤ c.toNat ∧ c.toNat ≤ 122) := by
    rcases h with h | h
    · exact Or.inl ⟨h.1, h.2⟩
    · exact Or.inr ⟨h.1, h.2⟩
  have hne : ∀ d : Char, (d.toNat < 48 ∨ (57 < d.toNat ∧ d.toNat < 97) ∨ 122 < d.toNat) → (c == d) = false := by
    intro d hd
    cases hcd : c == d with
    | false => rfl
    | true => have := eq_of_beq hcd; subst this; omega
  simp only [plain, okTop, isOpen, isClose, Bool.not_eq_true', Bool.or_eq_false_iff]
  have e1 := hne ' ' (by decide); have e2 := hne '^' (by decide); have e3 := hne '(' (by decide); have e4 := hne ')' (by decide)
  have e5 := hne '[' (by decide); have e6 := hne ']' (by decide); have e7 := hne '{' (by decide); have e8 := hne '}' (by decide)
  have e9 := hne '<' (by decide); have e10 := hne '>' (by decide)
  simp [e1, e2, e3, e4, e5, e6, e7, e8, e9, e10]

/-! ## facts about printed text -/

/-- non-empty, starts with `startOK`, does not end in a blank -/
structure Ends (p : List Char) : Prop where
  head : ∃ c cs, p = c :: cs ∧ startOK c = true
  last : ∃ init c, p = init ++ [c] ∧ (c == ' ') = false

theorem sep_noMatch_head (ms : List Matcher) (hms : ms = plusMinus ∨ ms = slash) (c : Char) (tl : List Char)
    (h : (c == ' ') = false) : noMatch ms (c :: tl) = true := by
  have hc : (' ' == c) = false := by rw [Bool.beq_comm]; exact h
  rcases hms with rfl | rfl <;> simp [noMatch, plusMinus, slash, firstMatch, Matcher.run, List.isPrefixOf, hc]

theorem sep_noMatch_space (ms : List Matcher) (hms : ms = plusMinus ∨ ms = slash) (c : Char) (tl : List Char)
    (h : startOK c = true) : noMatch ms (' ' :: c :: tl) = true := by
  simp only [startOK, Bool.not_eq_true', Bool.or_eq_false_iff] at h
  have h1 : ('+' == c) = false := by rw [Bool.beq_comm]; exact h.1.1.2
  have h2 : ('-' == c) = false := by rw [Bool.beq_comm]; exact h.1.1.1.2
  have h3 : ('/' == c) = false := by rw [Bool.beq_comm]; exact h.1.2
  rcases hms with rfl | rfl <;> simp [noMatch, plusMinus, slash, firstMatch, Matcher.run, List.isPrefixOf, h1, h2, h3]

/-- what the proofs need to know about the printed text of an item -/
structure ItemFacts (p : List Char) : Prop where
  bal : Bal p
  ends : Ends p
  top : topHeads okTop p 0 = true

/-- ... of a term or of the chain of factors after the first -/
structure TermFacts (p : List Char) : Prop where
  bal : Bal p
  sep : ∀ ms, (ms = plusMinus ∨ ms = slash) → ∀ X, topAll (noMatch ms) X p 0 = true

theorem okTop_not_space (c : Char) (h : okTop c = true) : (c == ' ') = false := by
  simp only [okTop, Bool.not_eq_true', Bool.or_eq_false_iff] at h; exact h.1

theorem ItemFacts.sep {p : List Char} (h : ItemFacts p) (ms : List Matcher) (hms : ms = plusMinus ∨ ms = slash) (X : List Char) :
    topAll (noMatch ms) X p 0 = true :=
  topAll_of_heads _ okTop X (fun c tl hc => sep_noMatch_head ms hms c tl (okTop_not_space c hc)) p 0 h.top

theorem Ends.append_space {a b : List Char} (ha : Ends a) (hb : Ends b) : Ends (a ++ ' ' :: b) := by
  obtain ⟨c, cs, rfl, hc⟩ := ha.head
  obtain ⟨init, d, rfl, hd⟩ := hb.last
  exact ⟨⟨c, cs ++ ' ' :: (init ++ [d]), by simp, hc⟩, ⟨(c :: cs) ++ ' ' :: init, d, by simp, hd⟩⟩

theorem item_facts_plain (p : List Char) (c : Char) (cs : List Char) (hp : p = c :: cs) (hs : startOK c = true)
    (hall : p.all (fun x => plain x && okTop x) = true) : ItemFacts p := by
  have hpl : p.all plain = true := by
    rw [List.all_eq_true] at hall ⊢; intro x hx; have := hall x hx; simp only [Bool.and_eq_true] at this; exact this.1
  have hok : p.all okTop = true := by
    rw [List.all_eq_true] at hall ⊢; intro x hx; have := hall x hx; simp only [Bool.and_eq_true] at this; exact this.2
  refine ⟨Bal.of_plain p hpl, ⟨⟨c, cs, hp, hs⟩, ?_⟩, topHeads_all okTop p 0 hok⟩
  have hne : p ≠ [] := by rw [hp]; simp
  refine ⟨p.dropLast, p.getLast hne, (List.dropLast_concat_getLast hne).symm, ?_⟩
  have := (List.all_eq_true.mp hok) _ (List.getLast_mem hne)
  exact okTop_not_space _ this

theorem item_facts_bracket (o c : Char) (E : List Char) (ho : isOpen o = true) (hc : isClose c = true) (hE : Bal E) :
    ItemFacts (o :: E ++ [c]) := by
  have hoo : okTop o = true ∧ startOK o = true := by
    simp only [isOpen, Bool.or_eq_true, beq_iff_eq] at ho
    rcases ho with ((h | h) | h) | h <;> subst h <;> decide
  have hcc : okTop c = true := by
    simp only [isClose, Bool.or_eq_true, beq_iff_eq] at hc
    rcases hc with ((h | h) | h) | h <;> subst h <;> decide
  refine ⟨Bal.bracket ho hc hE, ⟨⟨o, E ++ [c], rfl, hoo.2⟩, ⟨o :: E, c, by simp, okTop_not_space c hcc⟩⟩, topHeads_bracket okTop o c E ho hc hoo.1 hcc hE⟩


/-- characters that may stand at level 0 inside a power `item^exponent` -/
def notSp (c : Char) : Bool := !(c == ' ')

theorem topHeads_mono (ok1 ok2 : Char → Bool) (h : ∀ c, ok1 c = true → ok2 c = true) : ∀ (T : List Char) (lvl : Int),
    topHeads ok1 T lvl = true → topHeads ok2 T lvl = true := by
  intro T
  induction T with
  | nil => intro _ _; rfl
  | cons c cs ih =>
    intro lvl ht
    simp only [topHeads, Bool.and_eq_true, Bool.or_eq_true] at ht ⊢
    exact ⟨ht.1.elim Or.inl (fun h1 => Or.inr (h c h1)), ih _ ht.2⟩

/-- ... of a power (an item, possibly followed by `^` and an exponent) -/
structure PowFacts (p : List Char) : Prop where
  bal : Bal p
  ends : Ends p
  top : topHeads notSp p 0 = true

theorem okTop_notSp (c : Char) (h : okTop c = true) : notSp c = true := by
  simp only [okTop, notSp, Bool.not_eq_true', Bool.or_eq_false_iff] at h ⊢; exact h.1

theorem ItemFacts.pow {p : List Char} (h : ItemFacts p) : PowFacts p :=
  ⟨h.bal, h.ends, topHeads_mono okTop notSp okTop_notSp p 0 h.top⟩

theorem PowFacts.sep {p : List Char} (h : PowFacts p) (ms : List Matcher) (hms : ms = plusMinus ∨ ms = slash) (X : List Char) :
    topAll (noMatch ms) X p 0 = true :=
  topAll_of_heads _ notSp X (fun c tl hc => sep_noMatch_head ms hms c tl (by simpa [notSp] using hc)) p 0 h.top

theorem PowFacts.term {p : List Char} (h : PowFacts p) : TermFacts p := ⟨h.bal, fun ms hms X => h.sep ms hms X⟩

/-- a blank followed by a power is separator-free text -/
theorem TermFacts.space_pow {p : List Char} (h : PowFacts p) : TermFacts (' ' :: p) := by
  refine ⟨Bal.plain_cons (by decide) h.bal, ?_⟩
  intro ms hms X
  have hsep := h.sep ms hms X
  obtain ⟨c, cs, hp, hc⟩ := h.ends.head
  show ((lvlClose ' ' 0 != 0 || noMatch ms (' ' :: p ++ X)) && topAll (noMatch ms) X p (lvlOpen ' ' (lvlClose ' ' 0))) = true
  have : lvlOpen ' ' (lvlClose ' ' 0) = 0 := by decide
  rw [this, hsep, hp]
  simp only [Bool.and_true, Bool.or_eq_true]
  exact Or.inr (sep_noMatch_space ms hms c _ hc)

/-- ... of a fraction: no level-0 ` + ` / ` - ` -/
structure FracFacts (p : List Char) : Prop where
  bal : Bal p
  sep : ∀ X, topAll (noMatch plusMinus) X p 0 = true

theorem TermFacts.frac {p : List Char} (h : TermFacts p) : FracFacts p := ⟨h.bal, fun X => h.sep plusMinus (Or.inl rfl) X⟩

theorem Ends.append_mid {a b : List Char} (mid : List Char) (ha : Ends a) (hb : Ends b) : Ends (a ++ mid ++ b) := by
  obtain ⟨c, cs, rfl, hc⟩ := ha.head
  obtain ⟨init, d, rfl, hd⟩ := hb.last
  exact ⟨⟨c, cs ++ mid ++ (init ++ [d]), by simp, hc⟩, ⟨(c :: cs) ++ mid ++ init, d, by simp, hd⟩⟩

theorem TermFacts.append {a b : List Char} (ha : TermFacts a) (hb : TermFacts b) : TermFacts (a ++ b) := by
  refine ⟨ha.bal.append hb.bal, ?_⟩
  intro ms hms X
  rw [topAll_append, ha.bal.2]
  simp only [Bool.and_eq_true]
  exact ⟨ha.sep ms hms _, by simpa using hb.sep ms hms X⟩

theorem ItemFacts.term {p : List Char} (h : ItemFacts p) : TermFacts p := ⟨h.bal, fun ms hms X => h.sep ms hms X⟩

/-- a blank followed by an item is separator-free text -/
theorem TermFacts.space_item {p : List Char} (h : ItemFacts p) : TermFacts (' ' :: p) := by
  refine ⟨Bal.plain_cons (by decide) h.bal, ?_⟩
  intro ms hms X
  have hsep := h.sep ms hms X
  obtain ⟨c, cs, hp, hc⟩ := h.ends.head
  show ((lvlClose ' ' 0 != 0 || noMatch ms (' ' :: p ++ X)) && topAll (noMatch ms) X p (lvlOpen ' ' (lvlClose ' ' 0))) = true
  have : lvlOpen ' ' (lvlClose ' ' 0) = 0 := by decide
  rw [this, hsep, hp]
  simp only [Bool.and_true, Bool.or_eq_true]
  exact Or.inr (sep_noMatch_space ms hms c _ hc)

/-- facts by kind -/
def Facts (k : Kind) (t : Src) : Prop :=
  match k with
  | .item => ItemFacts t.print
  | .power => PowFacts t.print
  | .ptail => TermFacts t.print ∧ ∀ A, Ends A → Ends (A ++ t.print)
  | .term => TermFacts t.print ∧ Ends t.print
  | .frac => FracFacts t.print ∧ Ends t.print
  | .ttail => Bal t.print ∧ ∀ A, Ends A → Ends (A ++ t.print)
  | .expr => Bal t.print

theorem digits_item (ds : List Nat) (hne : ds.isEmpty = false) (hall : ds.all (· < 10) = true) : ItemFacts (ds.map digitChar) := by
  match ds, hne with
  | d :: ds', _ =>
    simp only [List.all_cons, Bool.and_eq_true, decide_eq_true_eq] at hall
    refine item_facts_plain _ (digitChar d) (ds'.map digitChar) rfl (digitChar_facts d hall.1).2.2.2.1 ?_
    rw [List.all_eq_true]
    intro x hx
    rw [List.mem_map] at hx
    obtain ⟨e, he, rfl⟩ := hx
    have he' : e < 10 := by
      rcases List.mem_cons.mp he with h | h
      · subst h; exact hall.1
      · have := (List.all_eq_true.mp hall.2) e h; simpa using this
    have := digitChar_facts e he'
    simp [this.2.1, this.2.2.1]

theorem var_item (name idx : List Char) (hn : nameOK name = true) (hi : idx.all idxChar = true) :
    ItemFacts (name ++ (if idx.isEmpty then [] else '_' :: idx)) := by
  match name, hn with
  | c :: cs, hn =>
    simp only [nameOK, Bool.and_eq_true] at hn
    have hc := nameStart_facts c hn.1
    refine item_facts_plain _ c (cs ++ (if idx.isEmpty then [] else '_' :: idx)) (by simp) hc.2.1 ?_
    rw [List.all_eq_true]
    intro x hx
    have hx' : x = c ∨ x ∈ cs ∨ x = '_' ∨ x ∈ idx := by
      simp only [List.cons_append, List.mem_cons, List.mem_append] at hx
      rcases hx with h | h | h
      · exact Or.inl h
      · exact Or.inr (Or.inl h)
      · split at h
        · simp at h
        · simp only [List.mem_cons] at h; rcases h with h | h
          · exact Or.inr (Or.inr (Or.inl h))
          · exact Or.inr (Or.inr (Or.inr h))
    rcases hx' with h | h | h | h
    · subst h; have := nameChar_facts x hc.1; simp [this.1, this.2.1]
    · have := nameChar_facts x ((List.all_eq_true.mp hn.2) x h); simp [this.1, this.2.1]
    · subst h; decide
    · have := idxChar_facts x ((List.all_eq_true.mp hi) x h); simp [this.1, this.2]

theorem digitsOK_iff (ds : List Nat) (h : digitsOK ds = true) : ds.isEmpty = false ∧ ds.all (· < 10) = true := by
  simpa [digitsOK] using h

theorem expoText_plain (neg : Bool) (ds : List Nat) (h : digitsOK ds = true) :
    (expoText neg ds).all (fun x => plain x && okTop x) = true ∧
    (∃ c cs, expoText neg ds = c :: cs ∧ (c == ' ') = false ∧ (isDigit c || c == '-') = true) ∧
    (∃ init c, expoText neg ds = init ++ [c] ∧ (c == ' ') = false) := by
  obtain ⟨hne, hall⟩ := digitsOK_iff ds h
  have hd := digits_item ds hne hall
  have hdall : (ds.map digitChar).all (fun x => plain x && okTop x) = true := by
    rw [List.all_eq_true]; intro x hx
    rw [List.mem_map] at hx; obtain ⟨e, he, rfl⟩ := hx
    have := digitChar_facts e (by simpa using (List.all_eq_true.mp hall) e he)
    simp [this.2.1, this.2.2.1]
  obtain ⟨init, c, hlast, hc⟩ := hd.ends.last
  match ds, hne with
  | d :: ds', _ =>
    have hdf := digitChar_facts d (by simpa using (List.all_eq_true.mp hall) d List.mem_cons_self)
    cases neg with
    | false =>
      refine ⟨by simpa [expoText] using hdall, ⟨digitChar d, ds'.map digitChar, by simp [expoText], okTop_not_space _ hdf.2.2.1, by simp [hdf.1]⟩,
        ⟨init, c, by simpa [expoText] using hlast, hc⟩⟩
    | true =>
      refine ⟨?_, ⟨'-', (d :: ds').map digitChar, by simp [expoText], by decide, by decide⟩, ⟨'-' :: init, c, ?_, hc⟩⟩
      · simp only [expoText, if_true, List.singleton_append, List.all_cons, hdall, Bool.and_true]; decide
      · simp only [expoText, if_true, List.singleton_append, hlast, List.cons_append, List.nil_append]

theorem digits_chars (ds : List Nat) (hall : ds.all (· < 10) = true) :
    ∀ x ∈ ds.map digitChar, (plain x && okTop x) = true ∧ isDigit x = true := by
  intro x hx
  rw [List.mem_map] at hx
  obtain ⟨e, he, rfl⟩ := hx
  have := digitChar_facts e (by simpa using (List.all_eq_true.mp hall) e he)
  simp [this.1, this.2.1, this.2.2.1]

theorem dec_item (ip : List Nat) (fp : Option (List Nat)) (ex : Option (Bool × List Nat)) (h : decOK ip fp ex = true) :
    ItemFacts (decText ip fp ex) := by
  simp only [decOK, Bool.and_eq_true] at h
  obtain ⟨⟨hip, hfp⟩, hex⟩ := h
  have hall : (decText ip fp ex).all (fun x => plain x && okTop x) = true := by
    rw [List.all_eq_true]
    intro x hx
    simp only [decText, numText, expSuffix, List.mem_append] at hx
    rcases hx with (hx | hx) | hx
    · exact (digits_chars ip hip x hx).1
    · cases fp with
      | none => simp at hx
      | some f =>
        simp only [Bool.and_eq_true] at hfp
        simp only [List.mem_cons] at hx
        rcases hx with rfl | hx
        · decide
        · exact (digits_chars f hfp.1 x hx).1
    · cases ex with
      | none => simp at hx
      | some p =>
        obtain ⟨neg, ds⟩ := p
        simp only [List.mem_cons] at hx
        rcases hx with rfl | hx
        · decide
        · have := (expoText_plain neg ds hex).1
          exact (List.all_eq_true.mp this) x hx
  -- the first character
  have hhead : ∃ c cs, decText ip fp ex = c :: cs ∧ startOK c = true := by
    cases ip with
    | cons d ds =>
      simp only [List.all_cons, Bool.and_eq_true, decide_eq_true_eq] at hip
      exact ⟨digitChar d, decText ds fp ex, rfl, (digitChar_facts d hip.1).2.2.2.1⟩
    | nil =>
      cases fp with
      | none => simp at hfp
      | some f => exact ⟨'.', (decText [] (some f) ex).tail, rfl, by decide⟩
  obtain ⟨c, cs, hc, hs⟩ := hhead
  exact item_facts_plain _ c cs hc hs hall

theorem call_item (name idx E : List Char) (hn : nameOK name = true) (hi : idx.all idxChar = true) (hE : Bal E) :
    ItemFacts ((name ++ (if idx.isEmpty then [] else '_' :: idx)) ++ ('(' :: E ++ [')'])) := by
  have hv := var_item name idx hn hi
  have hb := item_facts_bracket '(' ')' E (by decide) (by decide) hE
  obtain ⟨c, cs, hh, hc⟩ := hv.ends.head
  obtain ⟨init, cl, hl, hcl⟩ := hb.ends.last
  refine ⟨hv.bal.append hb.bal, ⟨⟨c, cs ++ ('(' :: E ++ [')']), by rw [hh]; simp, hc⟩, ⟨(name ++ (if idx.isEmpty then [] else '_' :: idx)) ++ init, cl, by rw [hl]; simp, hcl⟩⟩, ?_⟩
  rw [topHeads_append, hv.bal.2]
  simp only [Bool.and_eq_true]
  exact ⟨hv.top, by simpa using hb.top⟩

theorem print_facts (t : Src) : ∀ k, t.ok k = true → Facts k t := by
  induction t with
  | num ds =>
    intro k h; cases k <;> simp only [Src.ok, Bool.false_eq_true] at h
    · exact digits_item ds (digitsOK_iff ds h).1 (digitsOK_iff ds h).2
    · exact (digits_item ds (digitsOK_iff ds h).1 (digitsOK_iff ds h).2).pow
  | dec ip fp ex =>
    intro k h; cases k <;> simp only [Src.ok, Bool.false_eq_true] at h
    · exact dec_item ip fp ex h
    · exact (dec_item ip fp ex h).pow
  | var name idx =>
    intro k h; cases k <;> simp only [Src.ok, Bool.false_eq_true, Bool.and_eq_true] at h
    · exact var_item name idx h.1 h.2
    · exact (var_item name idx h.1 h.2).pow
  | paren e ih =>
    intro k h; cases k <;> simp only [Src.ok, Bool.false_eq_true] at h
    · exact item_facts_bracket '(' ')' _ (by decide) (by decide) (ih .expr h)
    · exact (item_facts_bracket '(' ')' _ (by decide) (by decide) (ih .expr h)).pow
  | jump e ih =>
    intro k h; cases k <;> simp only [Src.ok, Bool.false_eq_true] at h
    · exact item_facts_bracket '[' ']' _ (by decide) (by decide) (ih .expr h)
    · exact (item_facts_bracket '[' ']' _ (by decide) (by decide) (ih .expr h)).pow
  | mean e ih =>
    intro k h; cases k <;> simp only [Src.ok, Bool.false_eq_true] at h
    · exact item_facts_bracket '{' '}' _ (by decide) (by decide) (ih .expr h)
    · exact (item_facts_bracket '{' '}' _ (by decide) (by decide) (ih .expr h)).pow
  | call name idx arg ih =>
    intro k h; cases k <;> simp only [Src.ok, Bool.false_eq_true, Bool.and_eq_true] at h
    · exact call_item name idx _ h.1.1 h.1.2 (ih .expr h.2)
    · exact (call_item name idx _ h.1.1 h.1.2 (ih .expr h.2)).pow
  | powInt b neg ds ih =>
    intro k h; cases k <;> simp only [Src.ok, Bool.false_eq_true, Bool.and_eq_true] at h
    have hb : ItemFacts b.print := ih .item h.1
    obtain ⟨hpl, ⟨c, cs, hhead, hcsp, _⟩, ⟨init, cl, hlast, hcl⟩⟩ := expoText_plain neg ds h.2
    have hpl1 : (expoText neg ds).all plain = true := by
      rw [List.all_eq_true] at hpl ⊢; intro x hx; have := hpl x hx; simp only [Bool.and_eq_true] at this; exact this.1
    have hpl2 : (expoText neg ds).all notSp = true := by
      rw [List.all_eq_true] at hpl ⊢; intro x hx; have := hpl x hx; simp only [Bool.and_eq_true] at this; exact okTop_notSp x this.2
    obtain ⟨c0, cs0, hb0, hc0⟩ := hb.ends.head
    show PowFacts (b.print ++ '^' :: expoText neg ds)
    refine ⟨hb.bal.append (Bal.plain_cons (by decide) (Bal.of_plain _ hpl1)), ⟨⟨c0, cs0 ++ '^' :: expoText neg ds, by simp [hb0], hc0⟩,
      ⟨b.print ++ '^' :: init, cl, by simp [hlast], hcl⟩⟩, ?_⟩
    rw [topHeads_append, hb.bal.2]
    simp only [Bool.and_eq_true]
    refine ⟨hb.pow.top, ?_⟩
    exact topHeads_all notSp _ _ (by simp only [List.all_cons, hpl2, Bool.and_true]; decide)
  | powExpr b e ihb ihe =>
    intro k h; cases k <;> simp only [Src.ok, Bool.false_eq_true, Bool.and_eq_true] at h
    have hb : ItemFacts b.print := ihb .item h.1
    have he : ItemFacts ('(' :: e.print ++ [')']) := item_facts_bracket '(' ')' _ (by decide) (by decide) (ihe .expr h.2)
    obtain ⟨c0, cs0, hb0, hc0⟩ := hb.ends.head
    obtain ⟨init, cl, hlast, hcl⟩ := he.ends.last
    show PowFacts (b.print ++ '^' :: ('(' :: e.print ++ [')']))
    refine ⟨hb.bal.append (Bal.plain_cons (by decide) he.bal), ⟨⟨c0, cs0 ++ '^' :: ('(' :: e.print ++ [')']), by simp [hb0], hc0⟩,
      ⟨b.print ++ '^' :: init, cl, by rw [hlast]; simp, hcl⟩⟩, ?_⟩
    rw [topHeads_append, hb.bal.2]
    simp only [Bool.and_eq_true]
    refine ⟨hb.pow.top, ?_⟩
    show ((lvlClose '^' (0 + 0) != 0 || notSp '^') && topHeads notSp ('(' :: e.print ++ [')']) (lvlOpen '^' (lvlClose '^' (0 + 0)))) = true
    have : lvlOpen '^' (lvlClose '^' (0 + 0)) = 0 := by decide
    rw [this, he.pow.top]; decide
  | prod f tail ihf iht =>
    intro k h; cases k <;> simp only [Src.ok, Bool.false_eq_true, Bool.and_eq_true] at h
    · have hf : PowFacts f.print := ihf .power h.1
      have ht := iht .ptail h.2
      exact ⟨hf.term.append ht.1, ht.2 _ hf.ends⟩
    · have hf : PowFacts f.print := ihf .power h.1
      have ht := iht .ptail h.2
      exact ⟨(hf.term.append ht.1).frac, ht.2 _ hf.ends⟩
  | pnil =>
    intro k h; cases k <;> simp only [Src.ok, Bool.false_eq_true] at h
    exact ⟨⟨Bal.nil, fun _ _ _ => rfl⟩, fun A hA => by simpa [Src.print] using hA⟩
  | pcons f tail ihf iht =>
    intro k h; cases k <;> simp only [Src.ok, Bool.false_eq_true, Bool.and_eq_true] at h
    have hf : PowFacts f.print := ihf .power h.1
    have ht := iht .ptail h.2
    refine ⟨?_, ?_⟩
    · have := (TermFacts.space_pow hf).append ht.1
      simpa [Src.print] using this
    · intro A hA
      have := ht.2 _ (hA.append_space hf.ends)
      simpa [Src.print] using this
  | frac n d ihn ihd =>
    intro k h; cases k <;> simp only [Src.ok, Bool.false_eq_true, Bool.and_eq_true] at h
    have hn := ihn .term h.1
    have hd := ihd .term h.2
    obtain ⟨c, cs, hdh, hc⟩ := hd.2.head
    refine ⟨⟨hn.1.bal.append ((Bal.of_plain [' ', '/', ' '] (by decide)).append hd.1.bal), ?_⟩, ?_⟩
    · intro X
      show topAll (noMatch plusMinus) X (n.print ++ ([' ', '/', ' '] ++ d.print)) 0 = true
      rw [topAll_append, hn.1.bal.2]
      simp only [Bool.and_eq_true]
      refine ⟨hn.1.sep plusMinus (Or.inl rfl) _, ?_⟩
      have hdsep := hd.1.sep plusMinus (Or.inl rfl) X
      simp only [List.cons_append, List.nil_append, Int.add_zero, topAll, Bool.and_eq_true, Bool.or_eq_true]
      have l0 : lvlOpen ' ' (lvlClose ' ' 0) = 0 := by decide
      have l1 : lvlOpen '/' (lvlClose '/' 0) = 0 := by decide
      rw [l0, l1, l0]
      refine ⟨Or.inr ?_, Or.inr ?_, Or.inr ?_, hdsep⟩
      · simp [noMatch, plusMinus, firstMatch, Matcher.run, List.isPrefixOf]
      · exact sep_noMatch_head plusMinus (Or.inl rfl) '/' _ (by decide)
      · rw [hdh]; exact sep_noMatch_space plusMinus (Or.inl rfl) c _ hc
    · have := hn.2.append_mid [' ', '/', ' '] hd.2
      simpa [Src.print] using this
  | sum neg first tail ihf iht =>
    intro k h; cases k <;> simp only [Src.ok, Bool.false_eq_true, Bool.and_eq_true] at h
    have hf := ihf .frac h.1
    have ht := iht .ttail h.2
    show Bal ((if neg then ['-'] else []) ++ first.print ++ tail.print)
    refine Bal.append (Bal.append ?_ hf.1.bal) ht.1
    cases neg
    · exact Bal.nil
    · exact Bal.of_plain _ (by decide)
  | tnil =>
    intro k h; cases k <;> simp only [Src.ok, Bool.false_eq_true] at h
    exact ⟨Bal.nil, fun A hA => by simpa [Src.print] using hA⟩
  | tcons minus t tail iht ihtl =>
    intro k h; cases k <;> simp only [Src.ok, Bool.false_eq_true, Bool.and_eq_true] at h
    have ht := iht .frac h.1
    have htl := ihtl .ttail h.2
    refine ⟨?_, ?_⟩
    · show Bal ([' ', if minus then '-' else '+', ' '] ++ t.print ++ tail.print)
      refine Bal.append (Bal.append (Bal.of_plain _ ?_) ht.1.bal) htl.1
      cases minus <;> decide
    · intro A hA
      have := htl.2 _ (hA.append_mid [' ', if minus then '-' else '+', ' '] ht.2)
      simpa [Src.print] using this

end NutilsVerif.C19
