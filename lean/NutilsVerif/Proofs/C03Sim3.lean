import NutilsVerif.Proofs.C03Sim2
/-! C03 — simulation: loop-index binding, loops, the statement induction -/
namespace NutilsVerif.C03
variable {D : Type}

theorem err_none_of_exec (I : Interp D) (args : Args D) (m : Mode) (s : Stmt) (st : St D)
    (h : (exec I args m s st).err = none) : st.err = none := by
  cases he : st.err with
  | none => rfl
  | some e => rw [exec_err I args m s st e he, he] at h; cases h

theorem bindIdx_err_none (I : Interp D) (i : Var) (j : Nat) (st : St D) (h : (bindIdx I i j st).err = none) : st.err = none := by
  cases he : st.err with
  | none => rfl
  | some e => rw [bindIdx_err I i j st e he, he] at h; cases h

theorem allRerun_hasSkip : ∀ (s : Stmt), allRerun s = true → hasSkip s = false := by
  intro s
  induction s with
  | nop => intro _; rfl
  | op t b => intro h; cases t <;> simp_all [allRerun, hasSkip]
  | seq s t ihs iht =>
    intro h; simp only [allRerun, Bool.and_eq_true] at h
    simp [hasSkip, ihs h.1, iht h.2]
  | loop c i b ih => intro h; exact ih h

theorem exec_cache_allRerun (I : Interp D) (args : Args D) : ∀ (s : Stmt) (st : St D), allRerun s = true →
    exec I args .cache s st = st := by
  intro s
  induction s with
  | nop => intros; rfl
  | op t b => intro st h; cases t <;> simp_all [allRerun, exec, runs]
  | seq s t ihs iht =>
    intro st h; simp only [allRerun, Bool.and_eq_true] at h
    simp only [exec]; rw [ihs st h.1, iht st h.2]
  | loop c i b ih =>
    intro st h
    simp only [exec, loopRuns, allRerun_hasSkip b h, Bool.false_eq_true, if_false]

theorem exec_rerun_noNonSkip (I : Interp D) (args : Args D) : ∀ (s : Stmt) (st : St D), hasNonSkip s = false →
    exec I args .rerun s st = st := by
  intro s
  induction s with
  | nop => intros; rfl
  | op t b => intro st h; cases t <;> simp_all [hasNonSkip, exec, runs]
  | seq s t ihs iht =>
    intro st h; simp only [hasNonSkip, Bool.or_eq_false_iff] at h
    simp only [exec]; rw [ihs st h.1, iht st h.2]
  | loop c i b ih =>
    intro st h
    simp only [hasNonSkip] at h
    simp only [exec, loopRuns, h, Bool.false_eq_true, if_false]

theorem loopTag_rerun {b : Stmt} (h : loopTag b = .rerun) : hasSkip b = false := by
  unfold loopTag at h; split at h
  · split at h <;> cases h
  · simpa using ‹¬hasSkip b = true›

theorem loopTag_skip {b : Stmt} (h : loopTag b = .skip) : hasSkip b = true ∧ hasNonSkip b = false := by
  unfold loopTag at h; split at h
  · split at h
    · cases h
    · exact ⟨‹_›, by simpa using ‹¬hasNonSkip b = true›⟩
  · cases h

theorem loopTag_shared {b : Stmt} (h : loopTag b = .shared) : hasSkip b = true ∧ hasNonSkip b = true := by
  unfold loopTag at h; split at h
  · split at h
    · exact ⟨‹_›, ‹_›⟩
    · cases h
  · cases h

/-! ## binding the loop index -/

theorem bind_AB (I : Interp D) (c : Ctx) (k : Classes c) (Kfin : St D) {sA sB sK : St D} (i : Var) (j : Nat)
    (hi : i ∈ c.ns ∨ i ∈ c.sh) (hO : (c.O i).contains (.var i) = true)
    (hR : R c Kfin sA sB sK) :
    sA.err = none →
    (bindIdx I i j sA).err = (bindIdx I i j sB).err ∧ Pers c Kfin (bindIdx I i j sA) ∧
    (∀ l, c.cloc l = false → (bindIdx I i j sA).heap l = (bindIdx I i j sB).heap l) ∧
    (∀ v, v ∈ c.ns ∨ v ∈ c.sh → refSimAB c ((bindIdx I i j sA).env v) ((bindIdx I i j sB).env v)) ∧
    OriginInv c.O (bindIdx I i j sA) ∧ OriginInv c.O (bindIdx I i j sB) ∧ (bindIdx I i j sA).err = none := by
  intro hA
  obtain ⟨herr, hP, hLive⟩ := hR
  have hB : sB.err = none := herr ▸ hA
  have hL := hLive hA
  have hncl : c.cloc (.var i) = false := by
    rcases hi with h | h
    · exact (nloc_ncloc (k.nloc_of_ns h)).1
    · exact k.ncloc_of_sh h
  have := AB_eff c k (freshEff i (I.idx j)) (freshEff i (I.idx j)) hP hL.hAB hL.eAB rfl rfl
    (by simp only [UpdAB, freshEff, refSimAB]; exact ⟨trivial, hi, trivial, trivial, fun _ => trivial⟩)
    (by intro l d h; simp only [freshEff, Option.some.injEq, Prod.mk.injEq] at h; rw [← h.1]; exact hncl)
    (by intro x r h hcl; simp only [freshEff, Option.some.injEq, Prod.mk.injEq] at h; rw [← h.2] at hcl; rw [hncl] at hcl; cases hcl) hA hB
  rw [← bindIdx_eq I i j sA hA, ← bindIdx_eq I i j sB hB] at this
  have hok : (bindIdx I i j sA).err = none := by rw [bindIdx_ok I i j sA hA]; simpa using hA
  exact ⟨this.1, this.2.1, (this.2.2 hok).1, (this.2.2 hok).2, bindIdx_origin I c i j sA hO hL.oA,
    bindIdx_origin I c i j sB hO hL.oB, hok⟩


theorem bind_R_rerun (I : Interp D) (c : Ctx) (k : Classes c) (Kfin : St D) {sA sB sK : St D} (i : Var) (j : Nat)
    (hi : i ∈ c.ns) (hO : (c.O i).contains (.var i) = true) (hR : R c Kfin sA sB sK) :
    R c Kfin (bindIdx I i j sA) (bindIdx I i j sB) sK := by
  cases hA : sA.err with
  | some e =>
    have hB : sB.err = some e := hR.1 ▸ hA
    rw [bindIdx_err I i j sA e hA, bindIdx_err I i j sB e hB]; exact hR
  | none =>
    have hB : sB.err = none := hR.1 ▸ hA
    have hL := hR.2.2 hA
    obtain ⟨h1, h2, h3, h4, h5, h6, _⟩ := bind_AB I c k Kfin i j (Or.inl hi) hO hR hA
    refine ⟨h1, h2, fun _ => ⟨h3, h4, ?_, ?_, h5, h6, hL.oK⟩⟩
    · intro v hv
      rw [bindIdx_ok I i j sB hB, alloc_env]
      split
      · next e =>
        subst e; exfalso
        rcases hv with hv | hv | hv
        · exact k.sk_ns v hv hi
        · exact k.sh_ns v hv hi
        · exact k.c_ns v hv hi
      · exact hL.eBK v hv
    · intro l hl
      rw [bindIdx_ok I i j sB hB, alloc_heap]
      split
      · next e =>
        subst e; exfalso
        have := nloc_ncloc (k.nloc_of_ns hi)
        rcases hl with hl | hl
        · rw [this.1] at hl; cases hl
        · rw [this.2] at hl; cases hl
      · exact hL.hBK l hl

theorem bind_R_skip (I : Interp D) (c : Ctx) (k : Classes c) (Kfin : St D) {sA sB sK : St D} (i : Var) (j : Nat)
    (hi : i ∈ c.sk) (hO : (c.O i).contains (.var i) = true) (hR : R c Kfin sA sB sK) (hK : sK.err = none) :
    R c Kfin sA (bindIdx I i j sB) (bindIdx I i j sK) := by
  cases hA : sA.err with
  | some e =>
    have hB : sB.err = some e := hR.1 ▸ hA
    rw [bindIdx_err I i j sB e hB]; exact R_frozen c Kfin hR e hA
  | none =>
    have hB : sB.err = none := hR.1 ▸ hA
    have hL := hR.2.2 hA
    rw [bindIdx_ok I i j sB hB, bindIdx_ok I i j sK hK]
    refine ⟨by simpa using hR.1, hR.2.1, fun _ => ⟨?_, ?_, ?_, ?_, hL.oA, ?_, ?_⟩⟩
    · intro l hl
      rw [alloc_heap]
      split
      · next e => subst e; simp [Ctx.cloc, hi] at hl
      · exact hL.hAB l hl
    · intro v hv
      rw [alloc_env]
      split
      · next e =>
        subst e; exfalso
        rcases hv with hv | hv
        · exact k.sk_ns v hi hv
        · exact k.sk_sh v hi hv
      · exact hL.eAB v hv
    · intro v hv
      rw [alloc_env, alloc_env]
      split
      · rfl
      · exact hL.eBK v hv
    · intro l hl
      rw [alloc_heap, alloc_heap]
      split
      · rfl
      · exact hL.hBK l hl
    · have := bindIdx_origin I c i j sB hO hL.oB; rwa [bindIdx_ok I i j sB hB] at this
    · have := bindIdx_origin I c i j sK hO hL.oK; rwa [bindIdx_ok I i j sK hK] at this

theorem bind_R_shared (I : Interp D) (c : Ctx) (k : Classes c) (Kfin : St D) {sA sB sK : St D} (i : Var) (j : Nat)
    (hi : i ∈ c.sh) (hO : (c.O i).contains (.var i) = true) (hR : R c Kfin sA sB sK) (hK : sK.err = none) :
    R c Kfin (bindIdx I i j sA) (bindIdx I i j sB) (bindIdx I i j sK) := by
  cases hA : sA.err with
  | some e =>
    have hB : sB.err = some e := hR.1 ▸ hA
    rw [bindIdx_err I i j sA e hA, bindIdx_err I i j sB e hB]; exact R_frozen c Kfin hR e hA
  | none =>
    have hB : sB.err = none := hR.1 ▸ hA
    have hL := hR.2.2 hA
    obtain ⟨h1, h2, h3, h4, h5, h6, _⟩ := bind_AB I c k Kfin i j (Or.inr hi) hO hR hA
    refine ⟨h1, h2, fun _ => ⟨h3, h4, ?_, ?_, h5, h6, bindIdx_origin I c i j sK hO hL.oK⟩⟩
    · intro v hv
      rw [bindIdx_ok I i j sB hB, bindIdx_ok I i j sK hK, alloc_env, alloc_env]
      split
      · rfl
      · exact hL.eBK v hv
    · intro l hl
      rw [bindIdx_ok I i j sB hB, bindIdx_ok I i j sK hK, alloc_heap, alloc_heap]
      split
      · rfl
      · exact hL.hBK l hl


/-! ## loops -/

theorem iterate_origin (I : Interp D) (args : Args D) (m : Mode) (c : Ctx) (i : Var) (body : Stmt)
    (hO : (c.O i).contains (.var i) = true) (hb : wfK c body = true) :
    ∀ (n : Nat) (st : St D), OriginInv c.O st →
      OriginInv c.O (iterate (fun j s => exec I args m body (bindIdx I i j s)) n st) := by
  intro n
  induction n with
  | zero => intro st h; exact h
  | succ n ih =>
    intro st h
    exact exec_origin_K I args m c body _ hb (bindIdx_origin I c i _ _ hO (ih st h))

/-- one iteration of the constant part, backwards: final after ⇒ final before (outside `Wl`, `Wv` ⊇ what the loop writes) -/
theorem stepK_Fut_back (I : Interp D) (args : Args D) (c : Ctx) (k : Classes c) (Kfin : St D) (i : Var) (j : Nat) (body : Stmt)
    (Wl : List Loc) (Wv : List Var) (st : St D)
    (hb : wfK c body = true) (hO : (c.O i).contains (.var i) = true)
    (hiL : c.cloc (.var i) = true → Loc.var i ∈ Wl) (hiV : i ∈ c.sk ∨ i ∈ c.consts → i ∈ Wv)
    (hWl : ∀ l ∈ skW c body, l ∈ Wl) (hWv : ∀ v ∈ defsOf .skip body, v ∈ Wv)
    (ho : OriginInv c.O st) (hK : st.err = none)
    (hF : Fut c Kfin Wl Wv (exec I args .cache body (bindIdx I i j st))) : Fut c Kfin Wl Wv st := by
  have ho' := bindIdx_origin I c i j st hO ho
  have hK' : (bindIdx I i j st).err = none := by rw [bindIdx_ok I i j st hK]; simpa using hK
  have h1 := Fut_back I args c k Kfin body Wl Wv _ hb ho' hK' hF
  refine ⟨hK, ?_, ?_⟩
  · intro l hl hn
    have := h1.heap l hl (by simp only [List.mem_append, not_or]; exact ⟨fun h => hn (hWl l h), hn⟩)
    rw [← this, bindIdx_ok I i j st hK, alloc_heap]
    split
    · next e => subst e; exact absurd (hiL hl) hn
    · rfl
  · intro v hv hn
    have := h1.env v hv (by simp only [List.mem_append, not_or]; exact ⟨fun h => hn (hWv v h), hn⟩)
    rw [bindIdx_ok I i j st hK, alloc_env] at this
    split at this
    · next e => subst e; exact absurd (hiV hv) hn
    · exact this


theorem exec_loop_skip (I : Interp D) (args : Args D) (m : Mode) (cnt i : Var) (body : Stmt) (st : St D)
    (h : loopRuns m body = false) : exec I args m (.loop cnt i body) st = st := by
  simp only [exec, h, Bool.false_eq_true, if_false]

theorem exec_loop_none (I : Interp D) (args : Args D) (m : Mode) (cnt i : Var) (body : Stmt) (st : St D)
    (h : loopRuns m body = true) (he : st.err = none) (hv : val I st cnt = none) :
    exec I args m (.loop cnt i body) st = fail st .unbound := by
  simp only [exec, h, if_true, he, hv]

theorem exec_loop_some (I : Interp D) (args : Args D) (m : Mode) (cnt i : Var) (body : Stmt) (st : St D) (d : D)
    (h : loopRuns m body = true) (he : st.err = none) (hv : val I st cnt = some d) :
    exec I args m (.loop cnt i body) st = iterate (fun j s => exec I args m body (bindIdx I i j s)) (I.cnt d) st := by
  simp only [exec, h, if_true, he, hv]

theorem Pers_fail (c : Ctx) (Kfin : St D) {sA : St D} (h : Pers c Kfin sA) (e : Err) : Pers c Kfin (fail sA e) :=
  ⟨h.env, h.heap⟩

abbrev SimIH (I : Interp D) (args : Args D) (c : Ctx) (Kfin : St D) (body : Stmt) : Prop :=
  ∀ (Dv : List Var) (Wl : List Loc) (Wv : List Var) (sA sB sK : St D), chk c body Dv Wl Wv = true → R c Kfin sA sB sK →
    sK.err = none → Fut c Kfin Wl Wv (exec I args .cache body sK) →
    R c Kfin (exec I args .rerun body sA) (exec I args .first body sB) (exec I args .cache body sK)

theorem sim_loop (I : Interp D) (args : Args D) (c : Ctx) (hc : classesOK c = true) (Kfin : St D) (cnt i : Var) (body : Stmt)
    (ih : SimIH I args c Kfin body) :
    SimIH I args c Kfin (.loop cnt i body) := by
  intro Dv Wl Wv sA sB sK hchk hR hK hF
  have k := classes_of c hc
  cases hA : sA.err with
  | some e =>
    have hB : sB.err = some e := hR.1 ▸ hA
    rw [exec_err I args .rerun _ sA e hA, exec_err I args .first _ sB e hB]
    exact R_frozen c Kfin hR e hA
  | none =>
  have hB : sB.err = none := hR.1 ▸ hA
  have hL := hR.2.2 hA
  have hP := hR.2.1
  have hwfL := chk_wfK c _ _ _ _ hchk
  have hwfB := (wfK_loop c cnt i body hwfL).2
  simp only [chk, Bool.and_eq_true] at hchk
  obtain ⟨⟨hcls, hO⟩, hbody⟩ := hchk
  -- abbreviations for the enlarged "still to be written" sets
  generalize hWl' : skW c (.loop cnt i body) ++ Wl = Wl' at *
  generalize hWv' : defsOf .skip (.loop cnt i body) ++ Wv = Wv' at *
  have hsubL : ∀ l, l ∈ Wl → l ∈ Wl' := by intro l h; rw [← hWl']; simp [h]
  have hsubV : ∀ v, v ∈ Wv → v ∈ Wv' := by intro v h; rw [← hWv']; simp [h]
  have hbL : ∀ l ∈ skW c body, l ∈ Wl' := by intro l h; rw [← hWl']; simp [skW, h]
  have hbV : ∀ v ∈ defsOf .skip body, v ∈ Wv' := by intro v h; rw [← hWv']; simp [defsOf, h]
  cases ht : loopTag body with
  | rerun =>
    simp only [ht, Bool.and_eq_true] at hcls hbody
    obtain ⟨⟨hcnt, hi⟩, hall⟩ := hcls
    have hi' : i ∈ c.ns := by simpa using hi
    have hsk := loopTag_rerun ht
    have hKid : exec I args .cache (.loop cnt i body) sK = sK := exec_loop_skip I args .cache cnt i body sK (by simp [loopRuns, hsk])
    rw [hKid] at hF ⊢
    have hF' : Fut c Kfin Wl' Wv' sK := Fut_weaken c Kfin sK hsubL hsubV hF
    cases hns : hasNonSkip body with
    | false =>
      rw [exec_loop_skip I args .rerun cnt i body sA (by simp [loopRuns, hns]),
        exec_loop_skip I args .first cnt i body sB (by simp [loopRuns, hns, hsk])]
      exact hR
    | true =>
      have hrA : loopRuns .rerun body = true := by simp [loopRuns, hns]
      have hrB : loopRuns .first body = true := by simp [loopRuns, hns]
      have hv := (readAB c hc hP hL hF' hcnt).1.val I
      cases hvB : val I sB cnt with
      | none =>
        rw [exec_loop_none I args .rerun cnt i body sA hrA hA (hv.trans hvB), exec_loop_none I args .first cnt i body sB hrB hB hvB]
        exact ⟨rfl, Pers_fail c Kfin hP _, fun h => by cases h⟩
      | some d =>
        rw [exec_loop_some I args .rerun cnt i body sA d hrA hA (hv.trans hvB), exec_loop_some I args .first cnt i body sB d hrB hB hvB]
        generalize I.cnt d = n
        induction n with
        | zero => exact hR
        | succ n ihn =>
          simp only [iterate]
          have h1 := bind_R_rerun I c k Kfin i n hi' hO ihn
          have h2 := ih _ Wl' Wv' _ _ sK hbody h1 hK (by rw [exec_cache_allRerun I args body sK hall]; exact hF')
          rwa [exec_cache_allRerun I args body sK hall] at h2
  | skip =>
    simp only [ht, Bool.and_eq_true, reduceCtorEq, if_false] at hcls hbody
    obtain ⟨hcnt, hi⟩ := hcls
    have hi' : i ∈ c.sk := by simpa using hi
    obtain ⟨hsk, hns⟩ := loopTag_skip ht
    have hrB : loopRuns .first body = true := by simp [loopRuns, hsk]
    have hrK : loopRuns .cache body = true := by simp [loopRuns, hsk]
    rw [exec_loop_skip I args .rerun cnt i body sA (by simp [loopRuns, hns])]
    have hv := (readBK c hL hcnt).1.val I
    cases hvK : val I sK cnt with
    | none => rw [exec_loop_none I args .cache cnt i body sK hrK hK hvK] at hF; exact absurd hF.err (by simp)
    | some d =>
      rw [exec_loop_some I args .cache cnt i body sK d hrK hK hvK] at hF ⊢
      rw [exec_loop_some I args .first cnt i body sB d hrB hB (hv.trans hvK)]
      have hF' := Fut_weaken c Kfin _ hsubL hsubV hF
      revert hF'
      generalize I.cnt d = n
      intro hF'
      have hiL : c.cloc (.var i) = true → Loc.var i ∈ Wl' := by intro _; rw [← hWl']; simp [skW, ht]
      have hiV : i ∈ c.sk ∨ i ∈ c.consts → i ∈ Wv' := by intro _; rw [← hWv']; simp [defsOf, ht]
      induction n with
      | zero => exact hR
      | succ n ihn =>
        simp only [iterate] at hF' ⊢
        have hKn1 := bindIdx_err_none I i n _ (err_none_of_exec I args .cache body _ hF'.err)
        have hon := iterate_origin I args .cache c i body hO hwfB n sK hL.oK
        have hFn := stepK_Fut_back I args c k Kfin i n body Wl' Wv' _ hwfB hO hiL hiV hbL hbV hon hKn1 hF'
        have hRn := ihn hFn
        have h1 := bind_R_skip I c k Kfin i n hi' hO hRn hKn1
        have hKb : (bindIdx I i n (iterate (fun j s => exec I args .cache body (bindIdx I i j s)) n sK)).err = none :=
          err_none_of_exec I args .cache body _ hF'.err
        have h2 := ih _ Wl' Wv' _ _ _ hbody h1 hKb hF'
        rwa [exec_rerun_noNonSkip I args body sA hns] at h2
  | shared =>
    simp only [ht, Bool.and_eq_true, reduceCtorEq, if_false] at hcls hbody
    obtain ⟨⟨hcntC, hcntR⟩, hi⟩ := hcls
    have hi' : i ∈ c.sh := by simpa using hi
    obtain ⟨hsk, hns⟩ := loopTag_shared ht
    have hF0 : Fut c Kfin Wl' Wv' sK := by
      have := Fut_back I args c k Kfin (.loop cnt i body) Wl Wv sK hwfL hL.oK hK hF
      rwa [hWl', hWv'] at this
    have hrA : loopRuns .rerun body = true := by simp [loopRuns, hns]
    have hrB : loopRuns .first body = true := by simp [loopRuns, hsk]
    have hrK : loopRuns .cache body = true := by simp [loopRuns, hsk]
    have hvA := (readAB c hc hP hL hF0 hcntR).1.val I
    have hvK := (readBK c hL hcntC).1.val I
    cases hvK' : val I sK cnt with
    | none => rw [exec_loop_none I args .cache cnt i body sK hrK hK hvK'] at hF; exact absurd hF.err (by simp)
    | some d =>
      rw [exec_loop_some I args .cache cnt i body sK d hrK hK hvK'] at hF ⊢
      rw [exec_loop_some I args .first cnt i body sB d hrB hB (hvK.trans hvK'),
        exec_loop_some I args .rerun cnt i body sA d hrA hA (hvA.trans (hvK.trans hvK'))]
      have hF' := Fut_weaken c Kfin _ hsubL hsubV hF
      revert hF'
      generalize I.cnt d = n
      intro hF'
      have hiL : c.cloc (.var i) = true → Loc.var i ∈ Wl' := by
        intro h; rw [k.ncloc_of_sh hi'] at h; cases h
      have hiV : i ∈ c.sk ∨ i ∈ c.consts → i ∈ Wv' := by
        intro h; exfalso
        rcases h with h | h
        · exact k.sk_sh i h hi'
        · exact k.c_sh i h hi'
      induction n with
      | zero => exact hR
      | succ n ihn =>
        simp only [iterate] at hF' ⊢
        have hKn1 := bindIdx_err_none I i n _ (err_none_of_exec I args .cache body _ hF'.err)
        have hon := iterate_origin I args .cache c i body hO hwfB n sK hL.oK
        have hFn := stepK_Fut_back I args c k Kfin i n body Wl' Wv' _ hwfB hO hiL hiV hbL hbV hon hKn1 hF'
        have hRn := ihn hFn
        have h1 := bind_R_shared I c k Kfin i n hi' hO hRn hKn1
        have hKb : (bindIdx I i n (iterate (fun j s => exec I args .cache body (bindIdx I i j s)) n sK)).err = none :=
          err_none_of_exec I args .cache body _ hF'.err
        exact ih _ Wl' Wv' _ _ _ hbody h1 hKb hF'


/-- **the simulation**: for every statement accepted by `chk`, the rerun from the cached state and the first run from the
initial state stay related, the constant part running alongside -/
theorem sim (I : Interp D) (args : Args D) (c : Ctx) (hc : classesOK c = true) (Kfin : St D) :
    ∀ (s : Stmt), SimIH I args c Kfin s := by
  intro s
  induction s with
  | nop => intro Dv Wl Wv sA sB sK _ hR _ _; exact hR
  | op t b => intro Dv Wl Wv sA sB sK hchk hR hK hF; exact sim_op I args c hc Kfin t b Dv Wl Wv sA sB sK hchk hR hK hF
  | seq s t ihs iht =>
    intro Dv Wl Wv sA sB sK hchk hR hK hF
    have k := classes_of c hc
    cases hA : sA.err with
    | some e =>
      have hB : sB.err = some e := hR.1 ▸ hA
      rw [exec_err I args .rerun _ sA e hA, exec_err I args .first _ sB e hB]
      exact R_frozen c Kfin hR e hA
    | none =>
      have hL := hR.2.2 hA
      have hwf := chk_wfK c _ _ _ _ hchk
      simp only [chk, Bool.and_eq_true] at hchk
      simp only [exec] at hF ⊢
      have hK1 : (exec I args .cache s sK).err = none := err_none_of_exec I args .cache t _ hF.err
      have ho1 := exec_origin_K I args .cache c s sK (wfK_seq c s t hwf).1 hL.oK
      have hF1 := Fut_back I args c k Kfin t Wl Wv _ (wfK_seq c s t hwf).2 ho1 hK1 hF
      have h1 := ihs _ _ _ sA sB sK hchk.1 hR hK hF1
      exact iht _ _ _ _ _ _ hchk.2 h1 hK1 hF
  | loop cnt i body ih => exact sim_loop I args c hc Kfin cnt i body ih

end NutilsVerif.C03
