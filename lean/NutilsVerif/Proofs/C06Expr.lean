import NutilsVerif.Model.C06Expr
import NutilsVerif.Proofs.C06Arith
import NutilsVerif.Proofs.C06Div
import NutilsVerif.Proofs.C06Sum
/-!
# C06 — the expression language: evaluation depends only on the announced arguments; every node evaluates inside its range
-/
namespace NutilsVerif.C06
open PyNum

/-! ### generic facts about the evaluator's combinators -/

theorem mapOpt_mem {α β : Type} {f : α → Option β} : ∀ {l : List α} {v : List β}, mapOpt f l = some v → ∀ y ∈ v, ∃ x ∈ l, f x = some y
  | [], v, h, y, hy => by
    simp only [mapOpt, Option.some.injEq] at h; subst h; simp at hy
  | a :: t, v, h, y, hy => by
    simp only [mapOpt] at h
    cases hfa : f a with
    | none => simp [hfa] at h
    | some b =>
      cases ht : mapOpt f t with
      | none => simp [hfa, ht] at h
      | some bs =>
        simp only [hfa, ht, Option.some.injEq] at h; subst h
        rcases List.mem_cons.1 hy with rfl | hy
        · exact ⟨a, by simp, hfa⟩
        · obtain ⟨x, hx, hfx⟩ := mapOpt_mem ht y hy
          exact ⟨x, by simp [hx], hfx⟩

theorem zipOp_mem {f : Int → Int → Option Int} {a b : Option (List Int)} {v : List Int} (h : zipOp f a b = some v) :
    ∃ va vb, a = some va ∧ b = some vb ∧ ∀ y ∈ v, ∃ x ∈ va, ∃ x' ∈ vb, f x x' = some y := by
  cases a with
  | none => simp [zipOp] at h
  | some va =>
    cases b with
    | none => simp [zipOp] at h
    | some vb =>
      refine ⟨va, vb, rfl, rfl, ?_⟩
      simp only [zipOp] at h
      split at h
      · intro y hy
        obtain ⟨p, hp, hfp⟩ := mapOpt_mem h y hy
        have := List.of_mem_zip hp
        exact ⟨p.1, this.1, p.2, this.2, hfp⟩
      · simp at h

theorem iterate_mem {n : Int} {body : Int → Option (List Int)} {parts : List (List Int)} (h : iterate n body = some parts) :
    ∀ p ∈ parts, ∃ i : Int, 0 ≤ i ∧ i < n ∧ body i = some p := by
  unfold iterate at h
  split at h
  · simp at h
  · intro p hp
    obtain ⟨k, hk, hb⟩ := mapOpt_mem h p hp
    have : k < n.toNat := by simpa using hk
    exact ⟨k, by omega, by omega, hb⟩

theorem checkedPart_some {p : Option (List Int)} {k : Option Int} {q : List Int} (h : checkedPart p k = some q) : p = some q := by
  unfold checkedPart at h
  split at h
  · split at h
    · simp only [Option.some.injEq] at h; rw [h]
    · simp at h
  · simp at h

theorem scalarOf_some {o : Option (List Int)} {n : Int} (h : scalarOf o = some n) : o = some [n] := by
  cases o with
  | none => simp [scalarOf] at h
  | some l =>
    match l, h with
    | [v], h => simp [scalarOf] at h; subst h; rfl

theorem post_some {r0 r : Rng} (h : post r0 = some r) : r0 = r ∧ Valid r := by
  unfold post at h
  split at h
  · simp only [Option.some.injEq] at h; subst h
    exact ⟨rfl, by unfold Valid post; simp_all⟩
  · simp at h

theorem bnd_some {raw : Option Rng} {r : Rng} (h : bnd raw = some r) : raw = some r ∧ Valid r := by
  cases raw with
  | none => simp [bnd] at h
  | some r0 =>
    have := post_some (r0 := r0) (r := r) (by simpa [bnd] using h)
    exact ⟨by rw [this.1], this.2⟩

/-! ### evaluation depends only on the announced arguments -/

def Agree (ρ ρ' : Env) : Dep → Prop
  | .arg n => ρ.args n = ρ'.args n
  | .loop i => ρ.loops i = ρ'.loops i

theorem agree_setLoop {ρ ρ' : Env} {id : Nat} {l : List Dep} (h : ∀ d ∈ l.filter (· ≠ .loop id), Agree ρ ρ' d) (i : Int) :
    ∀ d ∈ l, Agree (ρ.setLoop id i) (ρ'.setLoop id i) d := by
  intro d hd
  by_cases hdl : d = .loop id
  · subst hdl; simp [Agree, Env.setLoop]
  · have := h d (by simp [hd, hdl])
    cases d with
    | arg n => simpa [Agree, Env.setLoop] using this
    | loop j =>
      have hj : j ≠ id := fun e => hdl (by rw [e])
      simpa [Agree, Env.setLoop, hj] using this

theorem eval_congr (e : Expr) : ∀ (ρ ρ' : Env), (∀ d ∈ depsAll e, Agree ρ ρ' d) → eval e ρ = eval e ρ' := by
  induction e with
  | const s vals => intro ρ ρ' _; rfl
  | argS name lo hi =>
    intro ρ ρ' h
    have := h (.arg name) (by simp [depsAll]); simp only [Agree] at this
    simp only [eval, this]
  | argV name lo hi len ih =>
    intro ρ ρ' h
    have := h (.arg name) (by simp [depsAll]); simp only [Agree] at this
    simp only [eval, this, ih ρ ρ' (fun d hd => h d (by simp [depsAll, hd]))]
  | loopIndex id len ih =>
    intro ρ ρ' h
    have := h (.loop id) (by simp [depsAll]); simp only [Agree] at this
    simp only [eval, this, ih ρ ρ' (fun d hd => h d (by simp [depsAll, hd]))]
  | neg a ih | abs a ih | sign a ih | range a ih =>
    intro ρ ρ' h
    simp only [eval, ih ρ ρ' (fun d hd => h d (by simpa [depsAll] using hd))]
  | add a b iha ihb | mul a b iha ihb | floordiv a b iha ihb | mod a b iha ihb | min a b iha ihb | max a b iha ihb
  | inRange a b iha ihb | normDim a b iha ihb | insertAxis a b iha ihb | take a b iha ihb | sum a b iha ihb | sizesToOffsets a b iha ihb =>
    intro ρ ρ' h
    simp only [eval, iha ρ ρ' (fun d hd => h d (by simp [depsAll, hd])), ihb ρ ρ' (fun d hd => h d (by simp [depsAll, hd]))]
  | ravelIndex a b c iha ihb ihc =>
    intro ρ ρ' h
    simp only [eval, iha ρ ρ' (fun d hd => h d (by simp [depsAll, hd])), ihb ρ ρ' (fun d hd => h d (by simp [depsAll, hd])),
      ihc ρ ρ' (fun d hd => h d (by simp [depsAll, hd]))]
  | loopSum id len body ihl ihb =>
    intro ρ ρ' h
    have hb : ∀ i, eval body (ρ.setLoop id i) = eval body (ρ'.setLoop id i) := fun i =>
      ihb _ _ (agree_setLoop (fun d hd => h d (by simp only [depsAll, List.mem_append]; exact Or.inr hd)) i)
    simp only [eval, ihl ρ ρ' (fun d hd => h d (by simp [depsAll, hd])), hb]
  | loopConcat id len body blen ihl ihb ihk =>
    intro ρ ρ' h
    have hag : ∀ i, ∀ d ∈ depsAll body ++ depsAll blen, Agree (ρ.setLoop id i) (ρ'.setLoop id i) d := fun i =>
      agree_setLoop (fun d hd => h d (by simp only [depsAll, List.mem_append]; exact Or.inr hd)) i
    have hb : ∀ i, eval body (ρ.setLoop id i) = eval body (ρ'.setLoop id i) := fun i =>
      ihb _ _ (fun d hd => hag i d (by simp [hd]))
    have hk : ∀ i, eval blen (ρ.setLoop id i) = eval blen (ρ'.setLoop id i) := fun i =>
      ihk _ _ (fun d hd => hag i d (by simp [hd]))
    simp only [eval, ihl ρ ρ' (fun d hd => h d (by simp [depsAll, hd])), hb, hk]

/-- a node without announced arguments evaluates to the same value in every environment -/
theorem eval_closed {e : Expr} (h : (depsAll e).isEmpty = true) (ρ : Env) : eval e ρ = eval e Env.empty := by
  apply eval_congr
  intro d hd
  have : depsAll e = [] := by simpa using h
  rw [this] at hd; simp at hd

/-! ### every inferred range passed the validation -/

theorem valid_of_bind {α : Type} {o : Option α} {f : α → Option Rng} {r : Rng} (hf : ∀ a r, f a = some r → Valid r)
    (h : o.bind f = some r) : Valid r := by
  cases o with
  | none => simp at h
  | some a => exact hf a r (by simpa using h)

theorem bounds_valid (e : Expr) (r : Rng) (h : bounds e = some r) : Valid r := by
  cases e <;> simp only [bounds] at h
  case const => exact (bnd_some h).2
  case argS => exact (bnd_some h).2
  case argV => exact (bnd_some h).2
  case mod a b =>
    refine valid_of_bind (fun rb r h => ?_) h
    split at h
    · exact valid_of_bind (fun _ _ h => (bnd_some h).2) h
    · exact valid_of_bind (fun _ _ h => (post_some h).2) h
  case loopSum => exact valid_of_bind (fun _ _ h => (post_some h).2) h
  case ravelIndex => exact valid_of_bind (fun _ _ h => valid_of_bind (fun _ _ h => valid_of_bind (fun _ _ h => (bnd_some h).2) h) h) h
  all_goals first
    | exact valid_of_bind (fun _ _ h => (bnd_some h).2) h
    | exact valid_of_bind (fun _ _ h => valid_of_bind (fun _ _ h => (bnd_some h).2) h) h


/-! ### every node evaluates inside its inferred range -/

/-- the induction hypothesis for a child -/
abbrev IH (a : Expr) : Prop :=
  ∀ (ρ : Env) (v : List Int) (r : Rng), eval a ρ = some v → bounds a = some r → ∀ x ∈ v, Mem x r

theorem bind_some {α β : Type} {o : Option α} {f : α → Option β} {b : β} (h : o.bind f = some b) : ∃ a, o = some a ∧ f a = some b := by
  cases o with
  | none => simp at h
  | some a => exact ⟨a, rfl, by simpa using h⟩

theorem guardIdx_some {rn : Rng} {o : Option Rng} {r : Rng} (h : guardIdx rn o = some r) : PyNum.le (int 0) rn.1 = true ∧ o = some r := by
  unfold guardIdx at h
  split at h
  · exact ⟨by assumption, h⟩
  · simp at h

theorem inRng_mem {lo hi : PyNum} {v : List Int} (h : inRng lo hi v = true) : ∀ x ∈ v, Mem x (lo, hi) := by
  intro x hx
  unfold inRng at h
  rw [List.all_eq_true] at h
  simpa using h x hx

theorem takeVal_mem {fv : List Int} {i y : Int} (h : takeVal fv i = some y) : y ∈ fv := by
  unfold takeVal at h
  simp only at h
  generalize (if i < 0 then i + (fv.length : Int) else i) = j at h
  split at h
  · exact List.mem_of_getElem? h
  · simp at h

theorem ih_scalar {a : Expr} (ih : IH a) {ρ : Env} {n : Int} {r : Rng} (h : scalarOf (eval a ρ) = some n) (hb : bounds a = some r) : Mem n r :=
  ih ρ [n] r (scalarOf_some h) hb n (by simp)

theorem default_sound (e : Expr) {ρ : Env} {v : List Int} {r : Rng} (hv : eval e ρ = some v)
    (hb : (defaultBounds e).bind post = some r) : ∀ x ∈ v, Mem x r := by
  obtain ⟨r0, h0, hp⟩ := bind_some hb
  obtain ⟨rfl, _⟩ := post_some hp
  unfold defaultBounds at h0
  split at h0
  · rename_i hc
    have hcl : (depsAll e).isEmpty = true := by
      simp only [Bool.and_eq_true] at hc; exact hc.2
    rw [eval_closed hcl ρ] at hv
    rw [hv] at h0
    cases hs : scalarOf (some v) with
    | none => simp [hs] at h0
    | some c =>
      simp only [hs, Option.some.injEq] at h0; subst h0
      have := scalarOf_some hs
      simp only [Option.some.injEq] at this; subst this
      intro x hx; simp at hx; subst hx; simp
  · simp only [Option.some.injEq] at h0; subst h0
    intro x _; simp [unbounded]

theorem sound_unary {a : Expr} {f : Int → Int} {tf : Rng → Option Rng} (ih : IH a)
    (htf : ∀ {ra : Rng}, Valid ra → ∀ {x : Int}, Mem x ra → ∃ r', tf ra = some r' ∧ Mem (f x) r')
    {ρ : Env} {v : List Int} {r : Rng} (hv : (eval a ρ).map (fun l => l.map f) = some v)
    (hb : ((bounds a).bind fun ra => bnd (tf ra)) = some r) : ∀ x ∈ v, Mem x r := by
  cases ha : eval a ρ with
  | none => simp [ha] at hv
  | some va =>
    simp only [ha, Option.map_some, Option.some.injEq] at hv; subst hv
    obtain ⟨ra, hra, h1⟩ := bind_some hb
    intro x hx
    obtain ⟨x0, hx0, rfl⟩ := List.mem_map.1 hx
    obtain ⟨r', e1, m⟩ := htf (bounds_valid _ _ hra) (ih ρ va ra ha hra x0 hx0)
    obtain ⟨e2, _⟩ := bnd_some h1
    rw [e1] at e2; cases e2; exact m

theorem sound_binary {a b : Expr} {f : Int → Int → Option Int} {tf : Rng → Rng → Option Rng} (iha : IH a) (ihb : IH b)
    (htf : ∀ {ra rb : Rng}, Valid ra → Valid rb → ∀ {x y z : Int}, Mem x ra → Mem y rb → f x y = some z → ∃ r', tf ra rb = some r' ∧ Mem z r')
    {ρ : Env} {v : List Int} {r : Rng} (hv : zipOp f (eval a ρ) (eval b ρ) = some v)
    (hb : ((bounds a).bind fun ra => (bounds b).bind fun rb => bnd (tf ra rb)) = some r) : ∀ x ∈ v, Mem x r := by
  obtain ⟨va, vb, ha, hb', hmem⟩ := zipOp_mem hv
  obtain ⟨ra, hra, h1⟩ := bind_some hb
  obtain ⟨rb, hrb, h2⟩ := bind_some h1
  intro z hz
  obtain ⟨x, hx, y, hy, hf⟩ := hmem z hz
  obtain ⟨r', e1, m⟩ := htf (bounds_valid _ _ hra) (bounds_valid _ _ hrb) (iha ρ va ra ha hra x hx) (ihb ρ vb rb hb' hrb y hy) hf
  obtain ⟨e2, _⟩ := bnd_some h2
  rw [e1] at e2; cases e2; exact m

theorem intbounds_sound_expr (e : Expr) : IH e := by
  induction e with
  | const s vals =>
    intro ρ v r hv hb
    simp only [eval, Option.some.injEq] at hv; subst hv
    simp only [bounds] at hb
    obtain ⟨r', e1, m⟩ := tfConstant_sound vals
    obtain ⟨e2, _⟩ := bnd_some hb
    rw [e1] at e2; cases e2; exact m
  | argS name lo hi =>
    intro ρ v r hv hb
    simp only [eval] at hv
    split at hv
    · rename_i hc
      simp only [Option.some.injEq] at hv; subst hv
      simp only [bounds] at hb
      obtain ⟨e2, _⟩ := bnd_some hb
      cases e2; exact inRng_mem hc.2
    · simp at hv
  | argV name lo hi len _ =>
    intro ρ v r hv hb
    simp only [eval] at hv
    split at hv
    · split at hv
      · rename_i hc
        simp only [Option.some.injEq] at hv; subst hv
        simp only [bounds] at hb
        obtain ⟨e2, _⟩ := bnd_some hb
        cases e2; exact inRng_mem hc.2
      · simp at hv
    · simp at hv
  | loopIndex id len ih =>
    intro ρ v r hv hb
    simp only [eval] at hv
    split at hv
    · rename_i n hn
      split at hv
      · rename_i hc
        simp only [Option.some.injEq] at hv; subst hv
        simp only [bounds] at hb
        obtain ⟨rl, hrl, h1⟩ := bind_some hb
        obtain ⟨r', e1, m⟩ := tfIndexBelow_sound (bounds_valid _ _ hrl) (ih_scalar ih hn hrl) hc.1 hc.2
        obtain ⟨e2, _⟩ := bnd_some h1
        rw [e1] at e2; cases e2
        intro x hx; simp at hx; subst hx; exact m
      · simp at hv
    · simp at hv
  | neg a ih =>
    intro ρ v r hv hb
    exact sound_unary (f := fun x => -x) (tf := tfNeg) ih (fun h _ hx => tfNeg_sound h hx) (by simpa only [eval] using hv) (by simpa only [bounds] using hb)
  | abs a ih =>
    intro ρ v r hv hb
    exact sound_unary (f := iabs) (tf := tfAbs) ih (fun h _ hx => tfAbs_sound h hx) (by simpa only [eval] using hv) (by simpa only [bounds] using hb)
  | sign a ih =>
    intro ρ v r hv hb
    exact sound_unary (f := isign) (tf := tfSign) ih (fun h _ hx => tfSign_sound h hx) (by simpa only [eval] using hv) (by simpa only [bounds] using hb)
  | add a b iha ihb =>
    intro ρ v r hv hb
    refine sound_binary (f := fun x y => some (x + y)) (tf := fun ra rb => tfAdd [ra, rb]) iha ihb ?_ (by simpa only [eval] using hv) (by simpa only [bounds] using hb)
    intro ra rb _ _ x y z hx hy hf
    simp only [Option.some.injEq] at hf; subst hf
    have := tfAdd_sound (MemAll.cons hx (MemAll.cons hy MemAll.nil))
    simpa using this
  | mul a b iha ihb =>
    intro ρ v r hv hb
    refine sound_binary (f := fun x y => some (x * y)) (tf := tfMul) iha ihb ?_ (by simpa only [eval] using hv) (by simpa only [bounds] using hb)
    intro ra rb h1 h2 x y z hx hy hf
    simp only [Option.some.injEq] at hf; subst hf
    exact ⟨_, rfl, mulRng_sound h1 h2 hx hy⟩
  | floordiv a b iha ihb =>
    intro ρ v r hv hb
    refine sound_binary (f := pyFloorDiv) (tf := tfFloorDiv) iha ihb ?_ (by simpa only [eval] using hv) (by simpa only [bounds] using hb)
    intro ra rb h1 h2 x y z hx hy hf
    unfold pyFloorDiv at hf
    split at hf
    · simp at hf
    · rename_i hy0
      simp only [Option.some.injEq] at hf; subst hf
      exact tfFloorDiv_sound h1 h2 hx hy hy0
  | mod a b iha ihb =>
    intro ρ v r hv hb
    simp only [bounds] at hb
    obtain ⟨rb, hrb, h1⟩ := bind_some hb
    split at h1
    · simp only [eval] at hv
      obtain ⟨va, vb, ha, hb', hmem⟩ := zipOp_mem hv
      obtain ⟨ra, hra, h2⟩ := bind_some h1
      intro z hz
      obtain ⟨x, hx, y, hy, hf⟩ := hmem z hz
      unfold pyMod at hf
      split at hf
      · simp at hf
      · rename_i hy0
        simp only [Option.some.injEq] at hf; subst hf
        obtain ⟨r', e1, m⟩ := tfMod_sound (bounds_valid _ _ hra) (bounds_valid _ _ hrb) (iha ρ va ra ha hra x hx) (ihb ρ vb rb hb' hrb y hy) hy0 none
          (by intro c hc; cases hc)
        obtain ⟨e2, _⟩ := bnd_some h2
        rw [e1] at e2; cases e2; exact m
    · exact default_sound _ hv h1
  | min a b iha ihb =>
    intro ρ v r hv hb
    refine sound_binary (f := fun x y => some (Min.min x y)) (tf := tfMin) iha ihb ?_ (by simpa only [eval] using hv) (by simpa only [bounds] using hb)
    intro ra rb h1 h2 x y z hx hy hf
    simp only [Option.some.injEq] at hf; subst hf
    exact tfMin_sound h1 h2 hx hy
  | max a b iha ihb =>
    intro ρ v r hv hb
    refine sound_binary (f := fun x y => some (Max.max x y)) (tf := tfMax) iha ihb ?_ (by simpa only [eval] using hv) (by simpa only [bounds] using hb)
    intro ra rb h1 h2 x y z hx hy hf
    simp only [Option.some.injEq] at hf; subst hf
    exact tfMax_sound h1 h2 hx hy
  | inRange idx len ihi ihl =>
    intro ρ v r hv hb
    simp only [eval] at hv
    split at hv
    · rename_i iv n hiv hn
      split at hv
      · rename_i hall
        simp only [Option.some.injEq] at hv; subst hv
        simp only [bounds] at hb
        obtain ⟨ri, hri, h1⟩ := bind_some hb
        obtain ⟨rl, hrl, h2⟩ := bind_some h1
        obtain ⟨e2, _⟩ := bnd_some h2
        intro x hx
        have hxr : 0 ≤ x ∧ x < n := by
          rw [List.all_eq_true] at hall; simpa using hall x hx
        obtain ⟨r', e1, m⟩ := tfInRange_sound (bounds_valid _ _ hri) (bounds_valid _ _ hrl) (ihi ρ iv ri hiv hri x hx) (ih_scalar ihl hn hrl)
          (v := x) (by simp [inRangeVal, hxr])
        rw [e1] at e2; cases e2; exact m
      · simp at hv
    · simp at hv
  | normDim len idx ihl ihi =>
    intro ρ v r hv hb
    refine sound_binary (f := normdimVal) (tf := tfNormDim) ihl ihi ?_ (by simpa only [eval] using hv) (by simpa only [bounds] using hb)
    intro ra rb h1 h2 x y z hx hy hf
    exact tfNormDim_sound h1 h2 hx hy hf
  | ravelIndex ia ib nb iha ihb ihn =>
    intro ρ v r hv hb
    simp only [eval] at hv
    split at hv
    · rename_i va vb n hva hvb hn
      split at hv
      · rename_i hc
        simp only [Option.some.injEq] at hv; subst hv
        simp only [bounds] at hb
        obtain ⟨rn, hrn, h1⟩ := bind_some hb
        obtain ⟨ra, hra, h2⟩ := bind_some h1
        obtain ⟨rb, hrb, h3⟩ := bind_some h2
        obtain ⟨e2, hvr⟩ := bnd_some h3
        obtain ⟨hidx, e3⟩ := guardIdx_some e2
        intro x hx
        obtain ⟨a, ha, hx'⟩ := List.mem_flatMap.1 hx
        obtain ⟨b, hb0, rfl⟩ := List.mem_map.1 hx'
        have ha0 : 0 ≤ a := by
          have := hc.1; rw [List.all_eq_true] at this; simpa using this a ha
        obtain ⟨r', e1, m⟩ := tfRavelIndex_sound (bounds_valid _ _ hrn) hidx (iha ρ va ra hva hra a ha) (ihb ρ vb rb hvb hrb b hb0)
          (ih_scalar ihn hn hrn) ha0
        rw [e1] at e3; cases e3
        rcases m with m | m
        · exact absurd m (valid_nn hvr).1
        · exact m
      · simp at hv
    · simp at hv
  | range n ih =>
    intro ρ v r hv hb
    simp only [eval] at hv
    split at hv
    · rename_i k hk
      split at hv
      · simp at hv
      · rename_i hk0
        simp only [Option.some.injEq] at hv; subst hv
        simp only [bounds] at hb
        obtain ⟨rl, hrl, h1⟩ := bind_some hb
        obtain ⟨e2, _⟩ := bnd_some h1
        have hidx : PyNum.le (int 0) rl.1 = true := by
          unfold tfRange at e2
          split at e2
          · assumption
          · simp at e2
        intro x hx
        obtain ⟨i, hi, rfl⟩ := List.mem_map.1 hx
        have hi' : i < k.toNat := by simpa using hi
        obtain ⟨r', e1, m⟩ := tfRange_sound (bounds_valid _ _ hrl) hidx (ih_scalar ih hk hrl) (v := (i : Int)) (by omega) (by omega)
        rw [e1] at e2; cases e2; exact m
    · simp at hv
  | insertAxis a n iha _ =>
    intro ρ v r hv hb
    simp only [eval] at hv
    split at hv
    · rename_i va k hva hk
      split at hv
      · simp at hv
      · simp only [Option.some.injEq] at hv; subst hv
        simp only [bounds] at hb
        obtain ⟨ra, hra, h1⟩ := bind_some hb
        obtain ⟨e2, _⟩ := bnd_some h1
        simp only [tfIdentity, Option.some.injEq] at e2; subst e2
        intro x hx
        obtain ⟨a0, ha0, hx'⟩ := List.mem_flatMap.1 hx
        have : x = a0 := (List.mem_replicate.1 hx').2
        subst this
        exact iha ρ va ra hva hra x ha0
    · simp at hv
  | take f idx ihf _ =>
    intro ρ v r hv hb
    simp only [eval] at hv
    split at hv
    · rename_i fv iv hfv hiv
      simp only [bounds] at hb
      obtain ⟨rf, hrf, h1⟩ := bind_some hb
      obtain ⟨e2, _⟩ := bnd_some h1
      simp only [tfIdentity, Option.some.injEq] at e2; subst e2
      intro y hy
      obtain ⟨i, _, hi⟩ := mapOpt_mem hv y hy
      exact ihf ρ fv rf hfv hrf y (takeVal_mem hi)
    · simp at hv
  | sum f n ihf ihn =>
    intro ρ v r hv hb
    simp only [eval] at hv
    split at hv
    · rename_i fv k hfv hk
      split at hv
      · rename_i hlen
        simp only [Option.some.injEq] at hv; subst hv
        simp only [bounds] at hb
        obtain ⟨rf, hrf, h1⟩ := bind_some hb
        obtain ⟨rn, hrn, h2⟩ := bind_some h1
        obtain ⟨e2, _⟩ := bnd_some h2
        obtain ⟨hidx, e3⟩ := guardIdx_some e2
        have hkn := ih_scalar ihn hk hrn
        rw [← hlen] at hkn
        obtain ⟨r', e1, m⟩ := tfSum_sound (bounds_valid _ _ hrf) (bounds_valid _ _ hrn) hidx hkn (ihf ρ fv rf hfv hrf)
        rw [e1] at e3; cases e3
        intro x hx; simp at hx; subst hx; exact m
      · simp at hv
    · simp at hv
  | sizesToOffsets s n ihs ihn =>
    intro ρ v r hv hb
    simp only [eval] at hv
    split at hv
    · rename_i sv k hsv hk
      split at hv
      · rename_i hc
        simp only [Option.some.injEq] at hv; subst hv
        simp only [bounds] at hb
        obtain ⟨rn, hrn, h1⟩ := bind_some hb
        obtain ⟨rs, hrs, h2⟩ := bind_some h1
        obtain ⟨e2, _⟩ := bnd_some h2
        obtain ⟨hidx, e3⟩ := guardIdx_some e2
        intro x hx
        unfold offsetsVal at hx
        obtain ⟨j, hj, rfl⟩ := List.mem_map.1 hx
        have hj' : j < sv.length + 1 := by simpa using hj
        obtain ⟨r', e1, m⟩ := tfSizesToOffsets_sound (bounds_valid _ _ hrs) hidx (xs := sv.take j) (n := k)
          (fun y hy => ihs ρ sv rs hsv hrs y (List.mem_of_mem_take hy)) (ih_scalar ihn hk hrn)
          (by rw [List.length_take, ← hc.1]; omega)
        rw [e1] at e3; cases e3; exact m
      · simp at hv
    · simp at hv
  | loopSum id len body _ _ =>
    intro ρ v r hv hb
    simp only [bounds] at hb
    exact default_sound _ hv hb
  | loopConcat id len body blen _ ihb _ =>
    intro ρ v r hv hb
    simp only [eval] at hv
    split at hv
    · rename_i n hn
      split at hv
      · rename_i parts hparts
        simp only [Option.some.injEq] at hv; subst hv
        simp only [bounds] at hb
        obtain ⟨rb, hrb, h1⟩ := bind_some hb
        obtain ⟨e2, _⟩ := bnd_some h1
        simp only [tfIdentity, Option.some.injEq] at e2; subst e2
        intro x hx
        obtain ⟨p, hp, hxp⟩ := List.mem_flatten.1 hx
        obtain ⟨i, _, _, hbi⟩ := iterate_mem hparts p hp
        exact ihb _ p rb (checkedPart_some hbi) hrb x hxp
      · simp at hv
    · simp at hv

end NutilsVerif.C06
