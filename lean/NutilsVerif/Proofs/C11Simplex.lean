import NutilsVerif.Proofs.C11Seq
/-!
# C11 — the simplex items form a reversible class (from the extracted swap table)
-/
namespace NutilsVerif.C11

theorem simplexItem_revSys : RevSys SimplexItem where
  wf := by
    intro a h
    match a, h with
    | .sq (.simplexChild n k), h => simp only [SimplexItem] at h; simp [Item.wf, Sq.wf, h.1, h.2]
    | .sq (.identity _), _ => rfl
    | .sq (.index _ _), _ => rfl
    | .up (.simplexEdge n k _), h => simp only [SimplexItem] at h; simp [Item.wf, Up.wf]; omega
  kind := by
    intro a h
    match a, h with
    | .sq (.simplexChild n k), _ => exact .inr ⟨rfl, rfl⟩
    | .sq (.identity _), _ => exact .inr ⟨rfl, rfl⟩
    | .sq (.index _ _), _ => exact .inr ⟨rfl, rfl⟩
    | .up (.simplexEdge n k _), h =>
      simp only [SimplexItem] at h
      exact .inl ⟨rfl, by simp only [Item.td, Item.fd, Up.td, Up.fd]; omega⟩
  up := by
    intro a b x y ga gb hd h
    match a, b, ga, gb with
    | .up (.simplexEdge n ie inv), .sq (.simplexChild m ic), ga, gb =>
      simp only [SimplexItem] at ga gb
      simp only [Item.fd, Item.td, Up.fd, Sq.dim] at hd
      subst hd
      simp only [Item.swapup, Up.swapup, Option.map_eq_some_iff] at h
      obtain ⟨⟨c', e'⟩, ⟨⟨ic', ie'⟩, hl, heq⟩, hxy⟩ := h
      simp only [Prod.mk.injEq] at heq hxy
      obtain ⟨rfl, rfl⟩ := heq
      obtain ⟨rfl, rfl⟩ := hxy
      have hok := swapTab_up n (by omega) ga.1 ie (by omega) ic gb.2
      simp only [swapUpOK, hl, Bool.and_eq_true, decide_eq_true_eq, beq_iff_eq] at hok
      obtain ⟨⟨⟨⟨hic', hie'⟩, _⟩, _⟩, hfind⟩ := hok
      refine ⟨⟨by omega, hic'⟩, ⟨ga.1, ga.2.1, by omega⟩, ?_⟩
      simp [Item.swapdown, Up.swapdown, hfind]
    | .up (.simplexEdge _ _ _), .sq (.identity _), _, _ => simp [Item.swapup, Up.swapup] at h
    | .up (.simplexEdge _ _ _), .sq (.index _ _), _, _ => simp [Item.swapup, Up.swapup] at h
    | .up (.simplexEdge _ _ _), .up _, _, _ => simp [Item.swapup] at h
    | .sq _, _, _, _ => simp [Item.swapup] at h
  dn := by
    intro a b x y ga gb hd h
    match a, b, ga, gb with
    | .sq (.simplexChild m ic), .up (.simplexEdge n ie inv), ga, gb =>
      simp only [SimplexItem] at ga gb
      simp only [Item.fd, Item.td, Up.td, Sq.dim] at hd
      subst hd
      simp only [Item.swapdown, Up.swapdown, Option.map_eq_some_iff] at h
      obtain ⟨⟨e', c'⟩, ⟨⟨r, col⟩, hf, heq⟩, hxy⟩ := h
      simp only [Prod.mk.injEq] at heq hxy
      obtain ⟨rfl, rfl⟩ := heq
      obtain ⟨rfl, rfl⟩ := hxy
      have hok := swapTab_down m (by omega) gb.1 ic ga.2 ie (by omega)
      simp only [swapDownOK, hf, Bool.and_eq_true, decide_eq_true_eq, beq_iff_eq] at hok
      obtain ⟨⟨⟨⟨hr, hcol⟩, _⟩, _⟩, hlook⟩ := hok
      refine ⟨⟨gb.1, gb.2.1, by omega⟩, ⟨by omega, hcol⟩, ?_⟩
      simp [Item.swapup, Up.swapup, hlook]
    | .sq (.identity _), .up (.simplexEdge _ _ _), _, _ => simp [Item.swapdown, Up.swapdown] at h
    | .sq (.index _ _), .up (.simplexEdge _ _ _), _, _ => simp [Item.swapdown, Up.swapdown] at h
    | .sq _, .sq _, _, _ => simp [Item.swapdown] at h
    | .up _, _, _, _ => simp [Item.swapdown] at h

end NutilsVerif.C11
