import NutilsVerif.Model.C10Axis
/-!
# C10 — axis arithmetic: refinement keeps every layer attached to the children of its owner
-/
namespace NutilsVerif.C10

/-- `(2x + c) mod 2m = 2 (x mod m) + c` for `c ∈ {0, 1}` — the reason why refinement has to double the modulus -/
theorem two_mul_add_emod (x : Int) (m : Nat) (hm : 0 < m) (c : Int) (hc0 : 0 ≤ c) (hc1 : c ≤ 1) :
    (2 * x + c) % ((2 * m : Nat) : Int) = 2 * (x % (m : Int)) + c := by
  have hm' : (0 : Int) < (m : Int) := by exact_mod_cast hm
  have h1 : (m : Int) * (x / (m : Int)) + x % (m : Int) = x := Int.mul_ediv_add_emod x m
  have h2 : 0 ≤ x % (m : Int) := Int.emod_nonneg x (Int.ne_of_gt hm')
  have h3 : x % (m : Int) < (m : Int) := Int.emod_lt_of_pos x hm'
  have hcast : ((2 * m : Nat) : Int) = 2 * (m : Int) := by simp
  rw [hcast]
  have e : 2 * x + c = (2 * (x % (m : Int)) + c) + (2 * (m : Int)) * (x / (m : Int)) := by
    rw [Int.mul_assoc]; omega
  rw [e, Int.add_mul_emod_self_left]
  apply Int.emod_eq_of_lt <;> omega

namespace Axis

theorem map_refined_dim (a : Axis) (hd : a.isdim = true) (e c : Int) (hc0 : 0 ≤ c) (hc1 : c ≤ 1) :
    a.refined.map (2 * e + c) = 2 * a.map e + c := by
  unfold refined map
  simp only [hd, if_true]
  by_cases hm : a.mod = 0
  · simp [hm]; omega
  · have hm2 : 2 * a.mod ≠ 0 := by omega
    simp only [hm, hm2, if_false]
    have := two_mul_add_emod (a.i + e) a.mod (by omega) c hc0 hc1
    rw [← this]; congr 1; omega

theorem map_refined_int (a : Axis) (hd : a.isdim = false) (e : Int) :
    a.refined.map (2 * e) = 2 * a.map e + a.sideInt := by
  unfold refined map
  simp only [hd, Bool.false_eq_true, if_false]
  have hs0 : 0 ≤ a.sideInt := by unfold sideInt; split <;> omega
  have hs1 : a.sideInt ≤ 1 := by unfold sideInt; split <;> omega
  by_cases hm : a.mod = 0
  · simp [hm]; omega
  · have hm2 : 2 * a.mod ≠ 0 := by omega
    simp only [hm, hm2, if_false]
    have := two_mul_add_emod (a.i + e) a.mod (by omega) a.sideInt hs0 hs1
    rw [← this]; congr 1; omega

theorem len_refined_dim (a : Axis) (hd : a.isdim = true) : a.refined.len = 2 * a.len := by
  unfold refined len; simp only [hd, if_true]; omega

theorem len_refined_int (a : Axis) (hd : a.isdim = false) : a.refined.len = 2 * a.len - 1 := by
  unfold refined len; simp only [hd, Bool.false_eq_true, if_false]; omega

end Axis
end NutilsVerif.C10
