import NutilsVerif.Proofs.C03Hist
/-! C03 — two first runs from states that agree on the constants agree throughout: what an aborted first run left
behind in the globals is never read before it is re-assigned (def-before-use, the forward set `D` of `chk`) -/
namespace NutilsVerif.C03
variable {D : Type}

def agreedVar (c : Ctx) (Dv : List Var) (v : Var) : Prop := v ∈ c.consts ∨ v ∈ c.ns ∨ v ∈ c.sh ∨ v ∈ Dv

structure Agree (c : Ctx) (Dv : List Var) (s1 s2 : St D) : Prop where
  env : ∀ v, agreedVar c Dv v → s1.env v = s2.env v
  hn : ∀ l, c.cloc l = false → s1.heap l = s2.heap l
  hc : ∀ v r, agreedVar c Dv v → s1.env v = some r → s1.heap r.loc = s2.heap r.loc
  first : s1.first = s2.first

def AgreeE (c : Ctx) (Dv : List Var) (s1 s2 : St D) : Prop := s1.err = s2.err ∧ (s1.err = none → Agree c Dv s1 s2)

theorem Agree.weaken {c : Ctx} {Dv Dv' : List Var} {s1 s2 : St D} (h : Agree c Dv s1 s2) (hs : ∀ v ∈ Dv', v ∈ Dv) :
    Agree c Dv' s1 s2 := by
  have hv : ∀ v, agreedVar c Dv' v → agreedVar c Dv v := by
    intro v hv; rcases hv with h | h | h | h
    · exact Or.inl h
    · exact Or.inr (Or.inl h)
    · exact Or.inr (Or.inr (Or.inl h))
    · exact Or.inr (Or.inr (Or.inr (hs v h)))
  exact ⟨fun v h' => h.env v (hv v h'), h.hn, fun v r h' => h.hc v r (hv v h'), h.first⟩

theorem AgreeE.weaken {c : Ctx} {Dv Dv' : List Var} {s1 s2 : St D} (h : AgreeE c Dv s1 s2) (hs : ∀ v ∈ Dv', v ∈ Dv) :
    AgreeE c Dv' s1 s2 := ⟨h.1, fun he => (h.2 he).weaken hs⟩

theorem dAfter_sup : ∀ (s : Stmt) (Dv : List Var) (v : Var), v ∈ Dv → v ∈ dAfter s Dv := by
  intro s
  induction s with
  | nop => intro Dv v h; exact h
  | op t b => intro Dv v h; simp only [dAfter]; split <;> simp [h]
  | seq s t ihs iht => intro Dv v h; exact iht _ v (ihs Dv v h)
  | loop cnt i b ih => intro Dv v h; exact h

theorem readCache_agreed {c : Ctx} {Dv : List Var} {u : Var} (h : readCache c Dv u = true) : agreedVar c Dv u := by
  simp only [readCache, Bool.and_eq_true, Bool.or_eq_true, List.contains_eq_mem, decide_eq_true_eq] at h
  rcases h.1 with h | ⟨_, h⟩
  · exact Or.inl h
  · exact Or.inr (Or.inr (Or.inr h))

theorem readRerun_agreed {c : Ctx} {Dv : List Var} {Wl : List Loc} {Wv : List Var} {u : Var}
    (h : readRerun c Dv Wl Wv u = true) : agreedVar c Dv u := by
  simp only [readRerun, Bool.and_eq_true, Bool.or_eq_true, List.contains_eq_mem, decide_eq_true_eq] at h
  rcases h.1 with (h | h) | ⟨⟨h | h, _⟩, _⟩
  · exact Or.inr (Or.inl h)
  · exact Or.inr (Or.inr (Or.inl h))
  · exact Or.inr (Or.inr (Or.inr h.2))
  · exact Or.inl h

theorem reads_agreed {c : Ctx} {Dv : List Var} {Wl : List Loc} {Wv : List Var} {t : Tag} {b : Basic}
    (h : chkOp c Dv Wl Wv t b = true) : ∀ u ∈ b.reads, agreedVar c Dv u := by
  unfold chkOp at h
  simp only [Bool.and_eq_true] at h
  have h2 := h.2
  intro u hu
  cases t with
  | skip =>
    simp only [Bool.and_eq_true, List.all_eq_true] at h2
    exact readCache_agreed (h2.1.1 u hu)
  | shared =>
    simp only [Bool.and_eq_true, List.all_eq_true] at h2
    exact readCache_agreed (h2.1.1.1 u hu)
  | rerun =>
    simp only [Bool.and_eq_true, List.all_eq_true] at h2
    exact readRerun_agreed (h2.1.1 u hu)

/-- a statement that raises nothing (re)binds every variable it defines -/
theorem effB_defs_upd (I : Interp D) (args : Args D) (b : Basic) (st : St D) (h : (effB I args b st).err = none) :
    ∀ d ∈ b.defs, ∃ r, (effB I args b st).envUpd = some (d, r) := by
  intro d hd
  cases b with
  | fresh dst op srcs =>
    simp only [Basic.defs, List.mem_singleton] at hd; subst hd
    simp only [effB] at h ⊢
    cases hv : vals I st srcs with
    | none => simp [hv] at h
    | some ds => exact ⟨_, rfl⟩
  | getarg dst a cop =>
    simp only [Basic.defs, List.mem_singleton] at hd; subst hd
    simp only [effB] at h ⊢
    cases ha : args a with
    | none => simp [ha] at h
    | some g => simp only; split <;> exact ⟨_, rfl⟩
  | view dst vop may src =>
    simp only [Basic.defs, List.mem_singleton] at hd; subst hd
    simp only [effB] at h ⊢
    cases he : st.env src with
    | none => simp [he] at h
    | some r0 => simp only; split <;> exact ⟨_, rfl⟩
  | write dst op srcs => simp [Basic.defs] at hd
  | setro v => simp [Basic.defs] at hd
  | guard op srcs => simp [Basic.defs] at hd
  | clear => simp [Basic.defs] at hd

/-- a new binding to its own buffer comes with the allocation of that buffer -/
theorem effB_upd_shape (I : Interp D) (args : Args D) (b : Basic) (st : St D) (x : Var) (r : Ref)
    (h : (effB I args b st).envUpd = some (x, r)) :
    (∃ d, (effB I args b st).heapUpd = some (r.loc, d)) ∨ (∃ a, r.loc = .arg a) ∨
      ∃ u ∈ b.reads, ∃ a, st.env u = some a ∧ a.loc = r.loc := by
  cases b with
  | fresh dst op srcs =>
    simp only [effB] at h ⊢
    cases hv : vals I st srcs <;> simp [hv, freshEff] at h ⊢
    left; rw [← h.2]
  | getarg dst a cop =>
    simp only [effB] at h ⊢
    cases ha : args a with
    | none => simp [ha] at h
    | some g =>
      simp only [ha] at h ⊢
      split at h <;> simp [freshEff] at h
      · left; simp [*, freshEff]; rw [← h.2, h.1]
      · right; left; exact ⟨a, by rw [← h.2]⟩
  | view dst vop may src =>
    simp only [effB] at h ⊢
    cases he : st.env src with
    | none => simp [he] at h
    | some r0 =>
      simp only [he] at h ⊢
      split at h <;> simp [freshEff] at h
      · left; simp [*, freshEff]; rw [← h.2, h.1]
      · right; right; exact ⟨src, by simp [Basic.reads], r0, he, by rw [← h.2]⟩
  | write dst op srcs =>
    simp only [effB] at h
    split at h
    · split at h <;> simp at h
    · simp at h
  | setro v =>
    simp only [effB] at h
    cases he : st.env v with
    | none => simp [he] at h
    | some r0 =>
      simp [he] at h
      right; right; exact ⟨v, by simp [Basic.reads], r0, he, by rw [← h.2]⟩
  | guard op srcs =>
    simp only [effB] at h
    cases hv : vals I st srcs with
    | none => simp [hv] at h
    | some ds => simp only [hv] at h; split at h <;> simp at h
  | clear => simp [effB] at h


theorem agreedVar_mono {c : Ctx} {Dv Dv' : List Var} {v : Var} (h : agreedVar c Dv v) (hs : ∀ x ∈ Dv, x ∈ Dv') : agreedVar c Dv' v := by
  rcases h with h | h | h | h
  · exact Or.inl h
  · exact Or.inr (Or.inl h)
  · exact Or.inr (Or.inr (Or.inl h))
  · exact Or.inr (Or.inr (Or.inr (hs v h)))

/-- one basic statement executed by two first runs that agree on what it reads -/
theorem cc_op (I : Interp D) (args : Args D) (c : Ctx) (t : Tag) (b : Basic) (Dv : List Var) (Wl : List Loc) (Wv : List Var)
    (s1 s2 : St D) (hchk : chkOp c Dv Wl Wv t b = true) (h : AgreeE c Dv s1 s2) :
    AgreeE c (dAfter (.op t b) Dv) (exec I args .first (.op t b) s1) (exec I args .first (.op t b) s2) := by
  simp only [exec, runs, if_true]
  obtain ⟨herr, hlive⟩ := h
  cases h1 : s1.err with
  | some e =>
    have h2 : s2.err = some e := herr ▸ h1
    rw [execB_err I args b s1 e h1, execB_err I args b s2 e h2]
    exact ⟨herr, fun hn => by rw [h1] at hn; cases hn⟩
  | none =>
    have h2 : s2.err = none := herr ▸ h1
    have hA := hlive h1
    have hreads := reads_agreed hchk
    have hwfK := chkOp_wfK c Dv Wl Wv t b hchk
    have hsee : ∀ u ∈ b.reads, SeeSame s1 s2 u := by
      intro u hu
      unfold SeeSame
      rw [← hA.env u (hreads u hu)]
      cases he : s1.env u with
      | none => trivial
      | some r => exact ⟨rfl, rfl, hA.hc u r (hreads u hu) he⟩
    have henvr : ∀ u ∈ b.reads, s1.env u = s2.env u := fun u hu => hA.env u (hreads u hu)
    have hsim := effB_sim I args b s1 s2 hsee
      (by intro dst op srcs hb a c' ha hc'
          rw [henvr dst (by subst hb; simp [Basic.reads]), hc'] at ha; cases ha; rfl)
      (by intro dst a cop _; exact hA.hn (.arg a) rfl)
    have hupd := updSim_eq b s1 s2 _ _ hsim.env henvr
    rw [execB_eq I args b s1 h1, execB_eq I args b s2 h2]
    refine ⟨by rw [applyEff_err, applyEff_err, hsim.err, h1, h2], fun hok => ?_⟩
    rw [applyEff_err, h1] at hok
    have he1 : (effB I args b s1).err = none := by
      cases h : (effB I args b s1).err with
      | none => rfl
      | some er => rw [h] at hok; cases hok
    have he2 : (effB I args b s2).err = none := hsim.err ▸ he1
    -- agreed variables after the statement: agreed before, or (re)bound by it
    have hcase : ∀ v, agreedVar c (dAfter (.op t b) Dv) v → agreedVar c Dv v ∨ v ∈ b.defs := by
      intro v hv
      simp only [dAfter] at hv
      split at hv
      · exact Or.inl hv
      · rcases hv with h | h | h | h
        · exact Or.inl (Or.inl h)
        · exact Or.inl (Or.inr (Or.inl h))
        · exact Or.inl (Or.inr (Or.inr (Or.inl h)))
        · simp only [List.mem_append] at h
          exact h.elim Or.inr (fun h => Or.inl (Or.inr (Or.inr (Or.inr h))))
    have henv' : ∀ v, agreedVar c (dAfter (.op t b) Dv) v →
        (applyEff s1 (effB I args b s1)).env v = (applyEff s2 (effB I args b s2)).env v := by
      intro v hv
      rw [applyEff_env, applyEff_env, he1, he2, ← hupd]
      cases hu : (effB I args b s1).envUpd with
      | none =>
        rcases hcase v hv with h | h
        · exact hA.env v h
        · obtain ⟨r, hr⟩ := effB_defs_upd I args b s1 he1 v h
          rw [hu] at hr; cases hr
      | some p =>
        obtain ⟨x, r⟩ := p
        simp only
        split
        · rfl
        · next hne =>
          rcases hcase v hv with h | h
          · exact hA.env v h
          · obtain ⟨r', hr'⟩ := effB_defs_upd I args b s1 he1 v h
            rw [hu] at hr'; simp only [Option.some.injEq, Prod.mk.injEq] at hr'
            exact absurd hr'.1.symm hne
    refine ⟨henv', ?_, ?_, ?_⟩
    · intro l hl
      rw [applyEff_heap, applyEff_heap, he1, he2, ← hsim.heap]
      cases (effB I args b s1).heapUpd with
      | none => exact hA.hn l hl
      | some p =>
        obtain ⟨l', d⟩ := p; simp only; split
        · rfl
        · exact hA.hn l hl
    · intro v r hv hr
      rw [applyEff_heap, applyEff_heap, he1, he2, ← hsim.heap]
      -- the old buffers agree wherever the (new) binding points
      have hold : s1.heap r.loc = s2.heap r.loc ∨ ∃ d, (effB I args b s1).heapUpd = some (r.loc, d) := by
        rw [applyEff_env, he1] at hr
        cases hu : (effB I args b s1).envUpd with
        | none =>
          rw [hu] at hr
          rcases hcase v hv with h | h
          · exact Or.inl (hA.hc v r h hr)
          · obtain ⟨r', hr'⟩ := effB_defs_upd I args b s1 he1 v h
            rw [hu] at hr'; cases hr'
        | some p =>
          obtain ⟨x, r1⟩ := p
          rw [hu] at hr
          simp only at hr
          split at hr
          · next e =>
            cases hr
            rcases effB_upd_shape I args b s1 x r hu with ⟨d, hd⟩ | ⟨a, ha⟩ | ⟨u, hu', a, ha, hl⟩
            · exact Or.inr ⟨d, hd⟩
            · left; rw [ha]; exact hA.hn (.arg a) rfl
            · left; rw [← hl]; exact hA.hc u a (hreads u hu') ha
          · next hne =>
            rcases hcase v hv with h | h
            · exact Or.inl (hA.hc v r h hr)
            · obtain ⟨r', hr'⟩ := effB_defs_upd I args b s1 he1 v h
              rw [hu] at hr'; simp only [Option.some.injEq, Prod.mk.injEq] at hr'
              exact absurd hr'.1.symm hne
      rcases hold with h | ⟨d, hd⟩
      · cases (effB I args b s1).heapUpd with
        | none => exact h
        | some p =>
          obtain ⟨l', d'⟩ := p; simp only; split
          · rfl
          · exact h
      · rw [hd]; simp
    · simp only [applyEff, he1, he2, hsim.clr, hA.first]


theorem cc_bind (I : Interp D) (c : Ctx) (i : Var) (j : Nat) (Dv : List Var) (s1 s2 : St D) (h : AgreeE c Dv s1 s2) :
    AgreeE c (i :: Dv) (bindIdx I i j s1) (bindIdx I i j s2) := by
  obtain ⟨herr, hlive⟩ := h
  cases h1 : s1.err with
  | some e =>
    have h2 : s2.err = some e := herr ▸ h1
    rw [bindIdx_err I i j s1 e h1, bindIdx_err I i j s2 e h2]
    exact ⟨herr, fun hn => by rw [h1] at hn; cases hn⟩
  | none =>
    have h2 : s2.err = none := herr ▸ h1
    have hA := hlive h1
    rw [bindIdx_ok I i j s1 h1, bindIdx_ok I i j s2 h2]
    refine ⟨by simpa using herr, fun _ => ⟨?_, ?_, ?_, by simpa using hA.first⟩⟩
    · intro v hv
      simp only [alloc_env]
      split
      · rfl
      · next hne =>
        apply hA.env v
        rcases hv with h | h | h | h
        · exact Or.inl h
        · exact Or.inr (Or.inl h)
        · exact Or.inr (Or.inr (Or.inl h))
        · simp only [List.mem_cons] at h; exact Or.inr (Or.inr (Or.inr (h.resolve_left hne)))
    · intro l hl
      simp only [alloc_heap]
      split
      · rfl
      · exact hA.hn l hl
    · intro v r hv hr
      simp only [alloc_heap]
      simp only [alloc_env] at hr
      split at hr
      · cases hr; simp
      · next hne =>
        split
        · rfl
        · apply hA.hc v r _ hr
          rcases hv with h | h | h | h
          · exact Or.inl h
          · exact Or.inr (Or.inl h)
          · exact Or.inr (Or.inr (Or.inl h))
          · simp only [List.mem_cons] at h; exact Or.inr (Or.inr (Or.inr (h.resolve_left hne)))

theorem AgreeE.valEq (I : Interp D) {c : Ctx} {Dv : List Var} {s1 s2 : St D} (h : AgreeE c Dv s1 s2) (h1 : s1.err = none)
    {u : Var} (hu : agreedVar c Dv u) : C03.val I s1 u = C03.val I s2 u := by
  have hA := h.2 h1
  unfold C03.val
  rw [← hA.env u hu]
  cases he : s1.env u with
  | none => rfl
  | some r => simp only; rw [hA.hc u r hu he]

/-- **two first runs that agree on the constants stay in agreement** (on the constants, on everything computed in this run,
and on the outcome) -/
theorem cc_first (I : Interp D) (args : Args D) (c : Ctx) : ∀ (s : Stmt) (Dv : List Var) (Wl : List Loc) (Wv : List Var)
    (s1 s2 : St D), chk c s Dv Wl Wv = true → AgreeE c Dv s1 s2 →
    AgreeE c (dAfter s Dv) (exec I args .first s s1) (exec I args .first s s2) := by
  intro s
  induction s with
  | nop => intro Dv Wl Wv s1 s2 _ h; exact h
  | op t b => intro Dv Wl Wv s1 s2 hchk h; exact cc_op I args c t b Dv Wl Wv s1 s2 hchk h
  | seq s t ihs iht =>
    intro Dv Wl Wv s1 s2 hchk h
    simp only [chk, Bool.and_eq_true] at hchk
    exact iht _ _ _ _ _ hchk.2 (ihs _ _ _ _ _ hchk.1 h)
  | loop cnt i body ih =>
    intro Dv Wl Wv s1 s2 hchk h
    simp only [dAfter]
    cases h1 : s1.err with
    | some e =>
      have h2 : s2.err = some e := h.1 ▸ h1
      rw [exec_err I args .first _ s1 e h1, exec_err I args .first _ s2 e h2]; exact h
    | none =>
      have h2 : s2.err = none := h.1 ▸ h1
      simp only [chk, Bool.and_eq_true] at hchk
      obtain ⟨⟨hcls, _⟩, hbody⟩ := hchk
      by_cases hr : loopRuns .first body = true
      · -- the trip count is read from an agreed variable
        have hcnt : agreedVar c Dv cnt := by
          cases ht : loopTag body <;> simp only [ht, Bool.and_eq_true] at hcls
          · exact readCache_agreed hcls.1
          · exact readCache_agreed hcls.1.1
          · exact readRerun_agreed hcls.1.1
        have hv := h.valEq I h1 hcnt
        cases hv2 : val I s2 cnt with
        | none =>
          rw [exec_loop_none I args .first cnt i body s1 hr h1 (hv.trans hv2), exec_loop_none I args .first cnt i body s2 hr h2 hv2]
          exact ⟨rfl, fun hn => by cases hn⟩
        | some d =>
          rw [exec_loop_some I args .first cnt i body s1 d hr h1 (hv.trans hv2), exec_loop_some I args .first cnt i body s2 d hr h2 hv2]
          generalize I.cnt d = n
          induction n with
          | zero => exact h
          | succ n ihn =>
            simp only [iterate]
            have hb := cc_bind I c i n Dv _ _ ihn
            have hb' : AgreeE c (if loopTag body = .rerun then Dv else i :: Dv) _ _ :=
              hb.weaken (by intro v hv; split at hv <;> simp [hv])
            exact (ih _ _ _ _ _ hbody hb').weaken (fun v hv => dAfter_sup body _ v (by split <;> simp [hv]))
      · have hr' : loopRuns .first body = false := by simpa using hr
        rw [exec_loop_skip I args .first cnt i body s1 hr', exec_loop_skip I args .first cnt i body s2 hr']
        exact h

end NutilsVerif.C03
