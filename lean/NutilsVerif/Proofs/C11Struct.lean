import NutilsVerif.Proofs.C11Seq
/-!
# C11 — the index arithmetic of `StructuredTransforms`: flat index ↔ per-axis indices ↔ refinement digits
-/
namespace NutilsVerif.C11

/-- an axis as the constructors of the source make it: `i ≤ j`, and a periodic axis is not longer than its period -/
def Axis.ok (a : Axis) : Prop := a.i ≤ a.j ∧ (a.mod = 0 ∨ (0 < a.mod ∧ (a.len : Int) ≤ a.mod))

theorem Axis.unmap_map (a : Axis) (h : a.ok) (r : Nat) (hr : r < a.len) : a.unmap (a.map r) = some r := by
  obtain ⟨hij, hmod⟩ := h
  unfold Axis.unmap Axis.map
  rcases hmod with h0 | ⟨hpos, hle⟩
  · simp only [h0, ne_eq, not_true_eq_false, if_false]
    have : a.i + (r : Int) - a.i = (r : Int) := by omega
    simp [this, hr]
  · have hne : a.mod ≠ 0 := by omega
    simp only [hne, ne_eq, not_false_eq_true, if_true]
    have hrm : (r : Int) < a.mod := by omega
    have e1 : Int.fmod (Int.fmod (a.i + (r : Int)) a.mod - a.i) a.mod = (r : Int) := by
      rw [Int.fmod_eq_emod_of_nonneg _ (by omega), Int.fmod_eq_emod_of_nonneg _ (by omega)]
      have : (a.i + (r : Int)) % a.mod - a.i = (r : Int) + a.mod * (-((a.i + (r : Int)) / a.mod)) := by
        have := Int.emod_def (a.i + (r : Int)) a.mod
        rw [this]; ring_nf
      rw [this, Int.add_mul_emod_self_left]
      exact Int.emod_eq_of_lt (by omega) hrm
    simp [e1, hr]

/-! ### mixed radix: `__getitem__` decomposes the flat index, `index_with_tail` recomposes it -/

/-- the per-axis element numbers `__getitem__` computes (`divmod` from the last axis to the first) -/
def decompose (lens : List Nat) (index : Nat) : List Nat × Nat :=
  lens.foldr (fun n (st : List Nat × Nat) => ((st.2 % n) :: st.1, st.2 / n)) ([], index)

/-- the flattening `index_with_tail` computes (`flat*len + ielem` from the first axis to the last) -/
def recompose (flat : Nat) : List Nat → List Nat → Nat
  | r :: rs, n :: ns => recompose (flat * n + r) rs ns
  | _, _ => flat

theorem recompose_shift (f : Nat) (rs ns : List Nat) (h : rs.length = ns.length) :
    recompose f rs ns = f * ns.foldr (· * ·) 1 + recompose 0 rs ns := by
  induction rs generalizing f ns with
  | nil => cases ns <;> simp_all [recompose]
  | cons r rs ih =>
    cases ns with
    | nil => simp at h
    | cons n ns =>
      simp only [recompose, List.foldr_cons]
      rw [ih (f * n + r) ns (by simpa using h), ih (0 * n + r) ns (by simpa using h)]
      simp only [Nat.zero_mul, Nat.zero_add, Nat.add_mul, Nat.mul_assoc]
      omega

theorem decompose_spec (lens : List Nat) (index : Nat) :
    (decompose lens index).1.length = lens.length ∧
    (decompose lens index).2 = index / lens.foldr (· * ·) 1 ∧
    recompose 0 (decompose lens index).1 lens = index % lens.foldr (· * ·) 1 ∧
    ∀ p ∈ List.zip (decompose lens index).1 lens, 0 < p.2 → p.1 < p.2 := by
  induction lens with
  | nil => simp [decompose, recompose, Nat.mod_one]
  | cons n t ih =>
    obtain ⟨h1, h2, h3, h4⟩ := ih
    have hd : decompose (n :: t) index = (((decompose t index).2 % n) :: (decompose t index).1, (decompose t index).2 / n) := rfl
    rw [hd]
    refine ⟨by simp [h1], ?_, ?_, ?_⟩
    · simp only [List.foldr_cons]
      rw [h2, Nat.div_div_eq_div_mul, Nat.mul_comm]
    · simp only [recompose, List.foldr_cons, Nat.zero_mul, Nat.zero_add]
      rw [recompose_shift _ _ _ h1, h3, h2, Nat.mul_comm n, Nat.mod_mul]
      rw [Nat.mul_comm]; omega
    · intro p hp hpos
      simp only [List.zip_cons_cons, List.mem_cons] at hp
      rcases hp with rfl | hp
      · exact Nat.mod_lt _ hpos
      · exact h4 p hp hpos

/-- flat index → per-axis element numbers → flat index -/
theorem mixed_radix_roundtrip (lens : List Nat) (index : Nat) (h : index < lens.foldr (· * ·) 1) :
    (decompose lens index).2 = 0 ∧ recompose 0 (decompose lens index).1 lens = index := by
  obtain ⟨_, h2, h3, _⟩ := decompose_spec lens index
  exact ⟨by rw [h2]; exact Nat.div_eq_of_lt h, by rw [h3]; exact Nat.mod_eq_of_lt h⟩

/-! ### refinement digits: `divmod(indices, 2)` per level ↔ `indices*2 + digit` -/

theorem digits_length (n p : Nat) : (digits n p).length = n := by
  induction n with
  | zero => rfl
  | succ n ih => simp [digits, ih]

/-- the position in `_ctransforms.reshape((2,)*n)` that belongs to a list of binary digits (most significant first) -/
def digitsPos (ds : List Int) : Nat := ds.foldl (fun acc d => acc * 2 + d.toNat) 0

theorem foldl_pos_shift (acc : Nat) (ds : List Int) :
    ds.foldl (fun acc d => acc * 2 + d.toNat) acc = acc * 2 ^ ds.length + digitsPos ds := by
  induction ds generalizing acc with
  | nil => simp [digitsPos]
  | cons d ds ih =>
    simp only [List.foldl_cons, digitsPos, List.length_cons]
    rw [ih (acc * 2 + d.toNat), ih (0 * 2 + d.toNat)]
    simp only [digitsPos, Nat.zero_mul, Nat.zero_add, Nat.add_mul, Nat.pow_succ]
    rw [Nat.mul_assoc, Nat.mul_comm 2]
    omega

theorem digitsPos_lt (ds : List Int) (h : ∀ d ∈ ds, d = 0 ∨ d = 1) : digitsPos ds < 2 ^ ds.length := by
  induction ds with
  | nil => simp [digitsPos]
  | cons d ds ih =>
    have hd := h d (List.mem_cons_self)
    have := ih (fun x hx => h x (List.mem_cons_of_mem _ hx))
    simp only [digitsPos, List.foldl_cons, List.length_cons, Nat.zero_mul, Nat.zero_add]
    rw [foldl_pos_shift, Nat.pow_succ]
    rcases hd with rfl | rfl <;> simp <;> omega

/-- the binary digits are recovered from the position -/
theorem digits_digitsPos (ds : List Int) (h : ∀ d ∈ ds, d = 0 ∨ d = 1) : digits ds.length (digitsPos ds) = ds := by
  induction ds with
  | nil => rfl
  | cons d ds ih =>
    have hd := h d (List.mem_cons_self)
    have hrest := fun x hx => h x (List.mem_cons_of_mem _ hx)
    have hlt := digitsPos_lt ds hrest
    have e : digitsPos (d :: ds) = d.toNat * 2 ^ ds.length + digitsPos ds := by
      simp only [digitsPos, List.foldl_cons, Nat.zero_mul, Nat.zero_add]
      exact foldl_pos_shift _ _
    simp only [List.length_cons, digits]
    have hpos : 0 < 2 ^ ds.length := Nat.pos_of_ne_zero (by simp)
    have h1 : digitsPos (d :: ds) / 2 ^ ds.length % 2 = d.toNat := by
      rw [e, Nat.add_comm, Nat.add_mul_div_right _ _ hpos, Nat.div_eq_of_lt hlt]
      rcases hd with rfl | rfl <;> simp
    have h2 : digits ds.length (digitsPos (d :: ds)) = digits ds.length (digitsPos ds) := by
      -- the lower digits do not see the leading one
      have : ∀ n p q, n ≤ ds.length → digits n (q * 2 ^ ds.length + p) = digits n p := by
        intro n
        induction n with
        | zero => intro p q _; rfl
        | succ n ihn =>
          intro p q hn
          simp only [digits]
          rw [ihn p q (by omega)]
          congr 2
          have hsplit : 2 ^ ds.length = 2 ^ n * 2 ^ (ds.length - n) := by rw [← Nat.pow_add]; congr 1; omega
          have hpn : 0 < 2 ^ n := Nat.pos_of_ne_zero (by simp)
          have heven : 2 ∣ 2 ^ (ds.length - n) := by
            have : ds.length - n = (ds.length - n - 1) + 1 := by omega
            rw [this, Nat.pow_succ]; exact Nat.dvd_mul_left _ _
          obtain ⟨k, hk⟩ := heven
          rw [hsplit, ← Nat.mul_assoc, Nat.mul_comm q, Nat.mul_assoc, Nat.add_comm, Nat.add_mul_div_left _ _ hpn, hk]
          rw [Nat.mul_comm 2 k, ← Nat.mul_assoc, Nat.add_mul_mod_self_right]
      rw [e]; exact this ds.length (digitsPos ds) d.toNat (Nat.le_refl _)
    rw [h1, h2, ih hrest]
    rcases hd with rfl | rfl <;> rfl

/-- one refinement level: `divmod(indices, 2)` in `__getitem__`, `indices*2 + digits` in `index_with_tail` -/
theorem refine_level_roundtrip (ind : List Int) :
    let r := ind.map fun i => Int.fmod i 2
    let q := ind.map fun i => Int.fdiv i 2
    digitsPos r < 2 ^ ind.length ∧ List.zipWith (fun i d => i * 2 + d) q (digits ind.length (digitsPos r)) = ind := by
  intro r q
  have hr : ∀ d ∈ r, d = 0 ∨ d = 1 := by
    intro d hd
    obtain ⟨i, _, rfl⟩ := List.mem_map.1 hd
    have := Int.fmod_eq_emod_of_nonneg i (show (0:Int) ≤ 2 by omega)
    rw [this]; omega
  have hlen : r.length = ind.length := by simp [r]
  refine ⟨by rw [← hlen]; exact digitsPos_lt r hr, ?_⟩
  rw [← hlen, digits_digitsPos r hr]
  simp only [r, q, List.zipWith_map_left, List.zipWith_map_right, List.zipWith_self]
  conv => rhs; rw [← List.map_id ind]
  apply List.map_congr_left
  intro i _
  have h1 := Int.fmod_eq_emod_of_nonneg i (show (0:Int) ≤ 2 by omega)
  have h2 : Int.fdiv i 2 = i / 2 := Int.fdiv_eq_ediv_of_nonneg i (by omega)
  simp only [id]
  rw [h1, h2]; omega

/-! ### the two folds of `StructuredTransforms` -/

theorem foldl_mul_eq (l : List Nat) (a : Nat) : l.foldl (· * ·) a = a * l.foldr (· * ·) 1 := by
  induction l generalizing a with
  | nil => simp
  | cons n t ih => simp only [List.foldl_cons, List.foldr_cons, ih]; rw [Nat.mul_assoc]

theorem structLen_eq (axes : List Axis) : structLen axes = (axes.map Axis.len).foldr (· * ·) 1 := by
  simp [structLen, foldl_mul_eq]

theorem prod_eq_zero_of_mem {l : List Nat} (h : 0 ∈ l) : l.foldr (· * ·) 1 = 0 := by
  induction l with
  | nil => simp at h
  | cons m t ih =>
    simp only [List.foldr_cons]
    rcases List.mem_cons.1 h with h0 | h0
    · rw [← h0]; simp
    · rw [ih h0]; simp

theorem prod_pos_of_lt {l : List Nat} {i : Nat} (h : i < l.foldr (· * ·) 1) : ∀ n ∈ l, 0 < n := by
  intro n hn
  rcases Nat.eq_zero_or_pos n with h0 | h0
  · subst h0; rw [prod_eq_zero_of_mem hn] at h; omega
  · exact h0

/-- the decomposition loop of `StructuredTransforms.__getitem__` -/
def structDec (axes : List Axis) (index : Nat) : List Int × Nat :=
  axes.foldr (fun ax (st : List Int × Nat) => (ax.map (st.2 % ax.len) :: st.1, st.2 / ax.len)) ([], index)

/-- the flattening loop of `StructuredTransforms.index_with_tail` -/
def structFlat (flat : Nat) (l : List (Int × Axis)) : Option Nat :=
  l.foldlM (fun (flat : Nat) (p : Int × Axis) => (p.2.unmap p.1).map fun k => flat * p.2.len + k) flat

theorem structDec_eq (axes : List Axis) (index : Nat) :
    (structDec axes index).1 = List.zipWith (fun ax r => ax.map r) axes (decompose (axes.map Axis.len) index).1 ∧
    (structDec axes index).2 = (decompose (axes.map Axis.len) index).2 := by
  induction axes with
  | nil => exact ⟨rfl, rfl⟩
  | cons ax t ih =>
    have h1 : structDec (ax :: t) index = (ax.map ((structDec t index).2 % ax.len) :: (structDec t index).1, (structDec t index).2 / ax.len) := rfl
    have h2 : decompose ((ax :: t).map Axis.len) index =
        (((decompose (t.map Axis.len) index).2 % ax.len) :: (decompose (t.map Axis.len) index).1, (decompose (t.map Axis.len) index).2 / ax.len) := rfl
    rw [h1, h2]
    simp only [List.zipWith_cons_cons, ih.1, ih.2, and_self]

theorem structFlat_spec (axes : List Axis) (hax : ∀ ax ∈ axes, ax.ok) :
    ∀ (rs : List Nat) (flat : Nat), rs.length = axes.length → (∀ p ∈ List.zip rs axes, p.1 < p.2.len) →
      structFlat flat (List.zip (List.zipWith (fun ax r => ax.map r) axes rs) axes) = some (recompose flat rs (axes.map Axis.len)) := by
  induction axes with
  | nil => intro rs flat h _; cases rs <;> simp_all [structFlat, recompose]
  | cons ax t ih =>
    intro rs flat hl hr
    cases rs with
    | nil => simp at hl
    | cons r rs =>
      have hrlt : r < ax.len := hr (r, ax) (by simp)
      have hu := Axis.unmap_map ax (hax ax (List.mem_cons_self)) r hrlt
      have := ih (fun a ha => hax a (List.mem_cons_of_mem _ ha)) rs (flat * ax.len + r) (by simpa using hl)
        (fun p hp => hr p (by simp [hp]))
      simp only [structFlat, List.zipWith_cons_cons, List.zip_cons_cons, List.foldlM_cons, hu, Option.map_some,
        Option.bind_eq_bind, Option.bind_some, List.map_cons, recompose] at this ⊢
      exact this

/-- **structured flat index ↔ per-axis index**: what `__getitem__` decomposes, `index_with_tail` recomposes to the same flat
index, for every list of well-formed (also periodic) axes -/
theorem struct_index_roundtrip (axes : List Axis) (hax : ∀ ax ∈ axes, ax.ok) (index : Nat) (h : index < structLen axes) :
    (structDec axes index).2 = 0 ∧ structFlat 0 (List.zip (structDec axes index).1 axes) = some index := by
  rw [structLen_eq] at h
  obtain ⟨e1, e2⟩ := structDec_eq axes index
  obtain ⟨hl, _, _, hlt⟩ := decompose_spec (axes.map Axis.len) index
  obtain ⟨hq, hre⟩ := mixed_radix_roundtrip (axes.map Axis.len) index h
  have hpos := prod_pos_of_lt h
  refine ⟨by rw [e2, hq], ?_⟩
  rw [e1, structFlat_spec axes hax _ 0 (by simpa using hl), hre]
  intro p hp
  have hp' : (p.1, p.2.len) ∈ List.zip (decompose (axes.map Axis.len) index).1 (axes.map Axis.len) := by
    rw [List.zip_map_right]
    exact List.mem_map.2 ⟨p, hp, rfl⟩
  exact hlt _ hp' (hpos _ (List.mem_map.2 ⟨p.2, (List.of_mem_zip hp).2, rfl⟩))

/-- `structDec` is literally the decomposition loop of the model of `StructuredTransforms.__getitem__` (level 0) -/
theorem structGet_eq_structDec (root : Item) (axes : List Axis) (index : Nat) :
    structGet root axes 0 index =
      root :: ((structDec axes index).1.map fun i => Item.sq (.index axes.length i)) ++ etransforms axes := by
  simp [structGet, structDec]

end NutilsVerif.C11
