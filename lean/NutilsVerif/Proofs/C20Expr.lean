import NutilsVerif.Proofs.C20Dim
/-!
# C20 — compositions of operators (helper): the dimension computed node by node equals exact arithmetic on the
exponents of the leaves, and it exists exactly for the dimensionally consistent expressions
-/
namespace NutilsVerif.C20

theorem expr_sound (e : Expr) (hl : e.LeavesCanon) :
    (∀ d, e.dim = .ok d → Canon d ∧ (∀ k, get d k = e.expo k) ∧ e.Consistent) ∧
    (e.Consistent → ∃ d, e.dim = .ok d) := by
  induction e with
  | leaf d => exact ⟨fun d' h => by cases h; exact ⟨hl, fun _ => rfl, trivial⟩, fun _ => ⟨d, rfl⟩⟩
  | mul a b iha ihb =>
    obtain ⟨ha1, ha2⟩ := iha hl.1; obtain ⟨hb1, hb2⟩ := ihb hl.2
    constructor
    · intro d h
      simp only [Expr.dim, bind, Except.bind, pure, Except.pure] at h
      cases hx : a.dim with
      | error _ => rw [hx] at h; cases h
      | ok x =>
        cases hy : b.dim with
        | error _ => rw [hx, hy] at h; cases h
        | ok y =>
          rw [hx, hy] at h; cases h
          obtain ⟨cx, gx, sx⟩ := ha1 x hx; obtain ⟨cy, gy, sy⟩ := hb1 y hy
          exact ⟨canon_mul _ _, fun k => by rw [get_mul cx.1 cy.1, gx, gy]; rfl, sx, sy⟩
    · intro hc
      obtain ⟨x, hx⟩ := ha2 hc.1; obtain ⟨y, hy⟩ := hb2 hc.2
      exact ⟨_, by simp only [Expr.dim, bind, Except.bind, hx, hy]; rfl⟩
  | div a b iha ihb =>
    obtain ⟨ha1, ha2⟩ := iha hl.1; obtain ⟨hb1, hb2⟩ := ihb hl.2
    constructor
    · intro d h
      simp only [Expr.dim, bind, Except.bind, pure, Except.pure] at h
      cases hx : a.dim with
      | error _ => rw [hx] at h; cases h
      | ok x =>
        cases hy : b.dim with
        | error _ => rw [hx, hy] at h; cases h
        | ok y =>
          rw [hx, hy] at h; cases h
          obtain ⟨cx, gx, sx⟩ := ha1 x hx; obtain ⟨cy, gy, sy⟩ := hb1 y hy
          exact ⟨canon_div _ _, fun k => by rw [get_div cx.1 cy.1, gx, gy]; rfl, sx, sy⟩
    · intro hc
      obtain ⟨x, hx⟩ := ha2 hc.1; obtain ⟨y, hy⟩ := hb2 hc.2
      exact ⟨_, by simp only [Expr.dim, bind, Except.bind, hx, hy]; rfl⟩
  | pow a q iha =>
    obtain ⟨ha1, ha2⟩ := iha hl
    constructor
    · intro d h
      simp only [Expr.dim, bind, Except.bind, pure, Except.pure] at h
      cases hx : a.dim with
      | error _ => rw [hx] at h; cases h
      | ok x =>
        rw [hx] at h; cases h
        obtain ⟨cx, gx, sx⟩ := ha1 x hx
        exact ⟨canon_pow _ _, fun k => by rw [get_pow cx.1, gx]; rfl, sx⟩
    · intro hc
      obtain ⟨x, hx⟩ := ha2 hc
      exact ⟨_, by simp only [Expr.dim, bind, Except.bind, hx]; rfl⟩
  | sqrt a iha =>
    obtain ⟨ha1, ha2⟩ := iha hl
    constructor
    · intro d h
      simp only [Expr.dim, bind, Except.bind, pure, Except.pure] at h
      cases hx : a.dim with
      | error _ => rw [hx] at h; cases h
      | ok x =>
        rw [hx] at h; cases h
        obtain ⟨cx, gx, sx⟩ := ha1 x hx
        exact ⟨canon_pow _ _, fun k => by rw [get_pow cx.1, gx]; rfl, sx⟩
    · intro hc
      obtain ⟨x, hx⟩ := ha2 hc
      exact ⟨_, by simp only [Expr.dim, bind, Except.bind, hx]; rfl⟩
  | addLike a b iha ihb =>
    obtain ⟨ha1, ha2⟩ := iha hl.1; obtain ⟨hb1, hb2⟩ := ihb hl.2
    constructor
    · intro d h
      simp only [Expr.dim, bind, Except.bind, pure, Except.pure] at h
      cases hx : a.dim with
      | error _ => rw [hx] at h; cases h
      | ok x =>
        cases hy : b.dim with
        | error _ => rw [hx, hy] at h; cases h
        | ok y =>
          rw [hx, hy] at h
          simp only at h
          split at h
          · cases h
          · rename_i hxy
            cases h
            have hxy : d = y := by simpa using hxy
            obtain ⟨cx, gx, sx⟩ := ha1 d hx; obtain ⟨cy, gy, sy⟩ := hb1 y hy
            exact ⟨cx, gx, sx, sy, fun k => by rw [← gx, ← gy, hxy]⟩
    · intro hc
      obtain ⟨x, hx⟩ := ha2 hc.1; obtain ⟨y, hy⟩ := hb2 hc.2.1
      obtain ⟨cx, gx, _⟩ := ha1 x hx; obtain ⟨cy, gy, _⟩ := hb1 y hy
      have hxy : x = y := ext cx cy (fun k => by rw [gx, gy]; exact hc.2.2 k)
      refine ⟨x, ?_⟩
      simp only [Expr.dim, bind, Except.bind, hx, hy, pure, Except.pure]
      simp [hxy]
  | unary a iha => exact iha hl

end NutilsVerif.C20
