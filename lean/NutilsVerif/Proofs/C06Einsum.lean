import NutilsVerif.Proofs.C06Arith
import NutilsVerif.Proofs.C06Sum
/-!
# C06 — Einsum: the sum of `n` products, `n` between the products of the lower and of the upper bounds of the summed lengths
-/
namespace NutilsVerif.C06
open PyNum

theorem memAll_inhabited : ∀ (rs : List Rng), (∀ r ∈ rs, Valid r) → ∃ w, MemAll w rs
  | [], _ => ⟨[], .nil⟩
  | r :: rs, h => by
    obtain ⟨x, hx⟩ := valid_inhabited (h r (by simp))
    obtain ⟨w, hw⟩ := memAll_inhabited rs (fun r' hr' => h r' (by simp [hr']))
    exact ⟨x :: w, .cons hx hw⟩

/-- one product `c * t₁ * … * tₙ` stays inside the iterated interval product -/
theorem foldl_mulRng_sound : ∀ (args : List Rng) (acc : Rng) (c : Int) (t : List Int), (∀ r ∈ args, Valid r) → Valid acc → Mem c acc →
    MemAll t args → Valid (args.foldl mulRng acc) ∧ Mem (c * t.prod) (args.foldl mulRng acc)
  | [], acc, c, t, _, hv, hc, ht => by
    cases ht; simpa using ⟨hv, hc⟩
  | a :: as, acc, c, t, hva, hv, hc, ht => by
    cases ht with
    | @cons x _ ts _ hx hts =>
      have hva' := hva a (by simp)
      simp only [List.foldl_cons, List.prod_cons]
      rw [← Int.mul_assoc]
      exact foldl_mulRng_sound as (mulRng acc a) (c * x) ts (fun r hr => hva r (by simp [hr])) (mulRng_valid hv hva')
        (mulRng_sound hv hva' hc hx) hts

theorem exists_min : ∀ (ps : List Int), ps ≠ [] → ∃ a ∈ ps, ∀ x ∈ ps, a ≤ x
  | [], h => absurd rfl h
  | [p], _ => ⟨p, by simp, by simp⟩
  | p :: q :: ps, _ => by
    obtain ⟨a, ha, hmin⟩ := exists_min (q :: ps) (by simp)
    by_cases hpa : p ≤ a
    · refine ⟨p, by simp, ?_⟩
      intro x hx
      rcases List.mem_cons.1 hx with rfl | hx
      · exact Int.le_refl _
      · exact Int.le_trans hpa (hmin x hx)
    · refine ⟨a, List.mem_cons_of_mem _ ha, ?_⟩
      intro x hx
      rcases List.mem_cons.1 hx with rfl | hx
      · omega
      · exact hmin x hx

theorem exists_max : ∀ (ps : List Int), ps ≠ [] → ∃ a ∈ ps, ∀ x ∈ ps, x ≤ a
  | [], h => absurd rfl h
  | [p], _ => ⟨p, by simp, by simp⟩
  | p :: q :: ps, _ => by
    obtain ⟨a, ha, hmax⟩ := exists_max (q :: ps) (by simp)
    by_cases hpa : a ≤ p
    · refine ⟨p, by simp, ?_⟩
      intro x hx
      rcases List.mem_cons.1 hx with rfl | hx
      · exact Int.le_refl _
      · exact Int.le_trans (hmax x hx) hpa
    · refine ⟨a, List.mem_cons_of_mem _ ha, ?_⟩
      intro x hx
      rcases List.mem_cons.1 hx with rfl | hx
      · omega
      · exact hmax x hx

/-- positive endpoint: an integer `≥ 1` or `+inf` -/
def Pos (b : PyNum) : Prop := b = pinf ∨ ∃ A : Int, b = int A ∧ 1 ≤ A

theorem mul_pos' {a b : PyNum} (ha : Pos a) (hb : Pos b) : PyNum.mul a b = andMul a b ∧ Pos (PyNum.mul a b) := by
  rcases ha with rfl | ⟨A, rfl, hA⟩ <;> rcases hb with rfl | ⟨B, rfl, hB⟩
  · exact ⟨rfl, Or.inl rfl⟩
  · have h1 : ¬ B = 0 := by omega
    have h2 : 0 < B := by omega
    rw [andMul_pinf_int, mul_pinf_int_pos h2]; simp [h1, h2, Pos]
  · have h1 : ¬ A = 0 := by omega
    have h2 : 0 < A := by omega
    rw [andMul_int_pinf, mul_int_pinf_pos h2]; simp [h1, h2, Pos]
  · refine ⟨by simp, Or.inr ⟨A * B, rfl, ?_⟩⟩
    nlinarith

theorem pos_of_upper {l : Rng} (hv : Valid l) (h0 : PyNum.le (int 0) l.1 = true) (hz : PyNum.eq l.2 (int 0) = false) : Pos l.2 := by
  rcases valid_cases hv with ⟨a, b, rfl, hab⟩ | ⟨b, rfl⟩ | ⟨a, rfl⟩ | rfl
  · right; refine ⟨b, rfl, ?_⟩
    simp at h0; simp [PyNum.eq] at hz; omega
  · simp at h0
  · left; rfl
  · simp at h0

theorem prod_uppers_sound {dims : List Int} {ls : List Rng} (hm : MemAll dims ls)
    (hl : ∀ l ∈ ls, Valid l ∧ PyNum.le (int 0) l.1 = true ∧ PyNum.eq l.2 (int 0) = false) (acc : PyNum) (p : Int)
    (hacc : Pos acc) (hp : 0 ≤ p) (hle : PyNum.le (int p) acc = true) :
    Pos ((ls.map (·.2)).foldl PyNum.mul acc) ∧ PyNum.le (int (p * dims.prod)) ((ls.map (·.2)).foldl PyNum.mul acc) = true := by
  induction hm generalizing acc p with
  | nil => simpa using ⟨hacc, hle⟩
  | @cons x r xs rs hx _ ih =>
    obtain ⟨hv, h0, hz⟩ := hl r (by simp)
    have hpu := pos_of_upper hv h0 hz
    obtain ⟨e, hpos⟩ := mul_pos' hacc hpu
    have hx0 : 0 ≤ x := by
      have := le_trans' h0 hx.1; simpa using this
    simp only [List.map_cons, List.foldl_cons, List.prod_cons]
    rw [← Int.mul_assoc]
    refine ih (fun l hl' => hl l (by simp [hl'])) _ _ hpos (Int.mul_nonneg hp hx0) ?_
    rw [e]; exact andMul_mono_nonneg hp hx0 hle hx.2

theorem prod_lowers_sound {dims : List Int} {ls : List Rng} (hm : MemAll dims ls)
    (hl : ∀ l ∈ ls, Valid l ∧ PyNum.le l.1 (int 0) = false) (A p : Int) (hA : 1 ≤ A) (hAp : A ≤ p) :
    ∃ A', (ls.map (·.1)).foldl PyNum.mul (int A) = int A' ∧ 1 ≤ A' ∧ A' ≤ p * dims.prod := by
  induction hm generalizing A p with
  | nil => exact ⟨A, rfl, hA, by simpa using hAp⟩
  | @cons x r xs rs hx _ ih =>
    obtain ⟨hv, hz⟩ := hl r (by simp)
    obtain ⟨c, hc, hc1⟩ : ∃ c, r.1 = int c ∧ 1 ≤ c := by
      rcases valid_cases hv with ⟨a, b, rfl, hab⟩ | ⟨b, rfl⟩ | ⟨a, rfl⟩ | rfl
      · refine ⟨a, rfl, ?_⟩
        have : ¬ a ≤ 0 := by intro h; rw [(le_int_int a 0).2 h] at hz; cases hz
        omega
      · simp at hz
      · refine ⟨a, rfl, ?_⟩
        have : ¬ a ≤ 0 := by intro h; rw [(le_int_int a 0).2 h] at hz; cases hz
        omega
      · simp at hz
    have hcx : c ≤ x := by have := hx.1; rw [hc] at this; simpa using this
    simp only [List.map_cons, List.foldl_cons, List.prod_cons, hc, mul_int_int]
    rw [← Int.mul_assoc]
    exact ih (fun l hl' => hl l (by simp [hl'])) (A * c) (p * x) (by nlinarith) (by nlinarith)

theorem prod_zero_of_upper_zero {dims : List Int} {ls : List Rng} (hm : MemAll dims ls)
    (hl : ∀ l ∈ ls, PyNum.le (int 0) l.1 = true) (hz : ∃ l ∈ ls, PyNum.eq l.2 (int 0) = true) : dims.prod = 0 := by
  induction hm with
  | nil => simp at hz
  | @cons x r xs rs hx _ ih =>
    obtain ⟨l, hlm, hlz⟩ := hz
    rcases List.mem_cons.1 hlm with rfl | hlm
    · have h0 := hl l (by simp)
      have hx0 : 0 ≤ x := by have := le_trans' h0 hx.1; simpa using this
      have hx1 : x ≤ 0 := by
        have h2 := hx.2
        cases hl2 : l.2 <;> rw [hl2] at hlz h2 <;> simp_all [PyNum.eq]
      have : x = 0 := by omega
      simp [this]
    · have := ih (fun l hl' => hl l (by simp [hl'])) ⟨l, hlm, hlz⟩
      simp [this]

theorem tfEinsum_sound (sumLengths args : List Rng) (hvl : ∀ l ∈ sumLengths, Valid l ∧ PyNum.le (int 0) l.1 = true)
    (hva : ∀ r ∈ args, Valid r) (dims : List Int) (hd : MemAll dims sumLengths) (terms : List (List Int))
    (hcount : (terms.length : Int) = dims.prod) (ht : ∀ t ∈ terms, MemAll t args) :
    ∃ r', tfEinsum sumLengths args = some r' ∧ Mem ((terms.map List.prod).sum) r' := by
  unfold tfEinsum
  split
  · -- a summed length is certainly zero: no terms
    rename_i hany
    simp only [List.any_eq_true] at hany
    have hp := prod_zero_of_upper_zero hd (fun l hl => (hvl l hl).2) hany
    have : terms = [] := List.eq_nil_of_length_eq_zero (by omega)
    subst this
    exact ⟨_, rfl, by simp⟩
  · rename_i hany
    have hnz : ∀ l ∈ sumLengths, PyNum.eq l.2 (int 0) = false := by
      intro l hl
      cases h : PyNum.eq l.2 (int 0) with
      | false => rfl
      | true => exact absurd (List.any_eq_true.2 ⟨l, hl, h⟩) hany
    have hN0 : (0 : Int) ≤ terms.length := by omega
    -- the number of terms lies in the initial interval
    obtain ⟨hUpos, hU⟩ := prod_uppers_sound hd (fun l hl => ⟨(hvl l hl).1, (hvl l hl).2, hnz l hl⟩) (int 1) 1 (Or.inr ⟨1, rfl, by omega⟩)
      (by omega) (by simp)
    rw [Int.one_mul, ← hcount] at hU
    have hL : PyNum.le (if sumLengths.any (fun l => PyNum.le l.1 (int 0)) then int 0 else pyProd (sumLengths.map (·.1))) (int terms.length) = true := by
      split
      · simpa using hN0
      · rename_i hany2
        have hpos : ∀ l ∈ sumLengths, Valid l ∧ PyNum.le l.1 (int 0) = false := by
          intro l hl
          refine ⟨(hvl l hl).1, ?_⟩
          cases h : PyNum.le l.1 (int 0) with
          | false => rfl
          | true => exact absurd (List.any_eq_true.2 ⟨l, hl, h⟩) hany2
        obtain ⟨A', e, _, hA'⟩ := prod_lowers_sound hd hpos 1 1 (by omega) (by omega)
        rw [Int.one_mul, ← hcount] at hA'
        rw [pyProd, e]; simpa using hA'
    have hmem : Mem (terms.length : Int) (if sumLengths.any (fun l => PyNum.le l.1 (int 0)) then int 0 else pyProd (sumLengths.map (·.1)),
        pyProd (sumLengths.map (·.2))) := ⟨hL, hU⟩
    have hvalid := valid_of_mem hmem
    refine ⟨_, rfl, ?_⟩
    by_cases hte : terms = []
    · subst hte
      obtain ⟨w, hw⟩ := memAll_inhabited args hva
      have := (foldl_mulRng_sound args _ 0 w hva hvalid (by simpa using hmem) hw).2
      simpa using this
    · have hne : terms.map List.prod ≠ [] := by simpa using hte
      obtain ⟨a, ha, hmin⟩ := exists_min _ hne
      obtain ⟨b, hb, hmax⟩ := exists_max _ hne
      obtain ⟨ta, hta, rfl⟩ := List.mem_map.1 ha
      obtain ⟨tb, htb, rfl⟩ := List.mem_map.1 hb
      have h1 := sum_lower _ _ hmin
      have h2 := sum_upper _ _ hmax
      rw [List.length_map] at h1 h2
      exact mem_convex (foldl_mulRng_sound args _ _ ta hva hvalid hmem (ht ta hta)).2
        (foldl_mulRng_sound args _ _ tb hva hvalid hmem (ht tb htb)).2 h1 h2

/-! ### the transfer functions of the pinned tree before the fixes are refuted by concrete witnesses -/

theorem tfInflateOld_unsound : ∃ (f : Rng) (xs : List Int), Valid f ∧ (∀ x ∈ xs, Mem x f) ∧
    ∃ r', tfInflateOld f = some r' ∧ ¬ Mem xs.sum r' :=
  ⟨(int 3, int 3), [3, 3], by decide, by decide, _, rfl, by decide⟩

theorem tfEinsumOld_unsound : ∃ (len : Rng) (n : Int) (args : List Rng) (terms : List (List Int)), Valid len ∧ Mem n len ∧
    (terms.length : Int) = n ∧ (∀ t ∈ terms, MemAll t args) ∧
    ∃ r', tfEinsumOld [len.2] args = some r' ∧ ¬ Mem ((terms.map List.prod).sum) r' :=
  ⟨(int 0, int 5), 1, [(int 2, int 2), (int 3, int 3)], [[2, 3]], by decide, by decide, by decide,
    by intro t ht; simp at ht; subst ht; exact .cons (by decide) (.cons (by decide) .nil), _, rfl, by decide⟩

end NutilsVerif.C06
