import NutilsVerif.Proofs.C11Rewrite
import NutilsVerif.Model.C11Norm
/-!
# C11 — normal forms: `canonical = nfDown`, `uppermost = nfUp`, invariance under swaps
-/
namespace NutilsVerif.C11

/-! ## kinds -/

theorem swapdown_none_of_left_up {a b : Item} (h : a.isUp = true) : Item.swapdown a b = none := by
  cases a <;> simp_all [Item.isUp, Item.swapdown]

theorem swapdown_none_of_right_not_up {a b : Item} (h : b.isUp = false) : Item.swapdown a b = none := by
  cases a <;> cases b <;> simp_all [Item.isUp, Item.swapdown]

theorem swapup_none_of_left_not_up {a b : Item} (h : a.isUp = false) : Item.swapup a b = none := by
  cases a <;> simp_all [Item.isUp, Item.swapup]

theorem swapup_none_of_right_up {a b : Item} (h : b.isUp = true) : Item.swapup a b = none := by
  cases a <;> cases b <;> simp_all [Item.isUp, Item.swapup]

theorem pushDn_up {b : Item} (h : b.isUp = true) (ys : Chain) : pushDn b ys = b :: ys := by
  cases ys with
  | nil => rfl
  | cons e ys => simp [pushDn, swapdown_none_of_left_up h]

theorem pushUp_notUp {b : Item} (h : b.isUp = false) (ys : Chain) : pushUp b ys = b :: ys := by
  cases ys with
  | nil => rfl
  | cons e ys => simp [pushUp, swapup_none_of_left_not_up h]

/-! ## the normal forms are reached by swaps, and are invariant under the swaps of their own direction -/

theorem Reach.cons {r : Chain → Chain → Prop} (hr : ∀ p q l l', r l l' → r (p ++ l ++ q) (p ++ l' ++ q)) (a : Item)
    {l l' : Chain} (h : Reach r l l') : Reach r (a :: l) (a :: l') := by
  have := Reach.ctx hr [a] [] h
  simpa using this

theorem pushDn_reach (c : Item) (ys : Chain) : Reach StepDn (c :: ys) (pushDn c ys) := by
  induction ys generalizing c with
  | nil => exact .refl _
  | cons e ys ih =>
    simp only [pushDn]
    split
    · rename_i e' c' hs
      exact Reach.head (by simpa using StepDn.mk [] ys c e e' c' hs) (Reach.cons (fun p q _ _ h => h.ctx p q) e' (ih c'))
    · exact .refl _

theorem nfDown_reach (l : Chain) : Reach StepDn l (nfDown l) := by
  induction l with
  | nil => exact .refl _
  | cons a l ih => exact (Reach.cons (fun p q _ _ h => h.ctx p q) a ih).trans (pushDn_reach a _)

theorem pushUp_reach (e : Item) (ys : Chain) : Reach StepUp (e :: ys) (pushUp e ys) := by
  induction ys generalizing e with
  | nil => exact .refl _
  | cons c ys ih =>
    simp only [pushUp]
    split
    · rename_i c' e' hs
      exact Reach.head (by simpa using StepUp.mk [] ys e c c' e' hs) (Reach.cons (fun p q _ _ h => h.ctx p q) c' (ih e'))
    · exact .refl _

theorem nfUp_reach (l : Chain) : Reach StepUp l (nfUp l) := by
  induction l with
  | nil => exact .refl _
  | cons a l ih => exact (Reach.cons (fun p q _ _ h => h.ctx p q) a ih).trans (pushUp_reach a _)

theorem nfDown_stepDn {l l' : Chain} (h : StepDn l l') : nfDown l = nfDown l' := by
  cases h with
  | mk p q a b x y hs =>
    induction p with
    | nil =>
      obtain ⟨_, hb, hx, _⟩ := Item.swapdown_kinds hs
      simp only [List.nil_append, nfDown]
      rw [pushDn_up hb, pushDn_up hx]
      simp [pushDn, hs]
    | cons c p ih => simp only [List.cons_append, nfDown, ih]

theorem nfUp_stepUp {l l' : Chain} (h : StepUp l l') : nfUp l = nfUp l' := by
  cases h with
  | mk p q a b x y hs =>
    induction p with
    | nil =>
      obtain ⟨_, hb, hx, _⟩ := Item.swapup_kinds hs
      simp only [List.nil_append, nfUp]
      rw [pushUp_notUp hb, pushUp_notUp hx]
      simp [pushUp, hs]
    | cons c p ih => simp only [List.cons_append, nfUp, ih]

theorem nfDown_reachDn {l l' : Chain} (h : Reach StepDn l l') : nfDown l = nfDown l' := by
  induction h with
  | refl => rfl
  | tail m n _ hmn ih => exact ih.trans (nfDown_stepDn hmn)

theorem nfUp_reachUp {l l' : Chain} (h : Reach StepUp l l') : nfUp l = nfUp l' := by
  induction h with
  | refl => rfl
  | tail m n _ hmn ih => exact ih.trans (nfUp_stepUp hmn)

theorem nfDown_idem (l : Chain) : nfDown (nfDown l) = nfDown l := (nfDown_reachDn (nfDown_reach l)).symm
theorem nfUp_idem (l : Chain) : nfUp (nfUp l) = nfUp l := (nfUp_reachUp (nfUp_reach l)).symm

theorem nfDown_of_normal (l : Chain) (h : DnNormal l) : nfDown l = l := by
  induction l with
  | nil => rfl
  | cons a l ih =>
    cases l with
    | nil => rfl
    | cons b t =>
      simp only [DnNormal] at h
      rw [nfDown, ih h.2]
      simp [pushDn, h.1]

theorem nfUp_of_normal (l : Chain) (h : UpNormal l) : nfUp l = l := by
  induction l with
  | nil => rfl
  | cons a l ih =>
    cases l with
    | nil => rfl
    | cons b t =>
      simp only [UpNormal] at h
      rw [nfUp, ih h.2]
      simp [pushUp, h.1]

/-! ## dimensions along a chain -/

theorem Item.fd_le_td (a : Item) (hw : a.wf = true) : a.fd ≤ a.td := by
  cases a with
  | sq s => simp [Item.fd, Item.td]
  | up u => simp only [Item.fd, Item.td]; have := Up.td_eq u hw; omega
  | mat fd lin off => simp only [Item.wf, Bool.and_eq_true, decide_eq_true_eq] at hw; exact hw.2

theorem Item.not_up_of_flat (a : Item) (hw : a.wf = true) (h : a.td ≤ a.fd) : a.isUp = false := by
  cases a with
  | sq s => rfl
  | up u => simp only [Item.fd, Item.td] at h; have := Up.td_eq u hw; omega
  | mat fd lin off => rfl

theorem Fits.fd_le_td {l : Chain} {td fd : Nat} (h : Fits l td fd) : fd ≤ td := by
  induction h with
  | nil => exact Nat.le_refl _
  | cons a l _ hw _ ih => exact Nat.le_trans ih (Item.fd_le_td a hw)

theorem Fits.no_up_of_flat {l : Chain} {td fd : Nat} (h : Fits l td fd) (hf : td ≤ fd) : ∀ it ∈ l, it.isUp = false := by
  induction h with
  | nil => intro it hit; simp at hit
  | cons a l fd hw hl ih =>
    have h1 := hl.fd_le_td
    have h2 := Item.fd_le_td a hw
    intro it hit
    rcases List.mem_cons.1 hit with rfl | hit
    · exact Item.not_up_of_flat _ hw (by omega)
    · exact ih (by omega) it hit

theorem Fits.lastFd_eq {a : Item} {l : Chain} {td fd : Nat} (h : Fits (a :: l) td fd) : lastFd (a :: l) = fd := by
  induction l generalizing a td with
  | nil =>
    obtain ⟨_, _, hl⟩ := h.cons_inv
    have := hl.nil_inv
    simpa [lastFd] using this
  | cons b l ih =>
    obtain ⟨_, _, hl⟩ := h.cons_inv
    have := ih hl
    simpa [lastFd, List.getLast?_cons_cons] using this

/-! ## `DnNormal` / `UpNormal` bookkeeping -/

theorem DnNormal.tail {a : Item} {l : Chain} (h : DnNormal (a :: l)) : DnNormal l := by
  cases l with
  | nil => trivial
  | cons b t => exact h.2

theorem DnNormal.append_inv {p q : Chain} (h : DnNormal (p ++ q)) : DnNormal p := by
  induction p with
  | nil => trivial
  | cons a p ih =>
    cases p with
    | nil => trivial
    | cons b t => exact ⟨h.1, ih h.2⟩

/-- a normal chain `m ++ [a]` followed by items that are no updims stays normal when `(a, b)` cannot be swapped -/
theorem DnNormal.snoc {m : Chain} {a b : Item} (h : DnNormal (m ++ [a])) (hab : Item.swapdown a b = none) :
    DnNormal (m ++ [a, b]) := by
  induction m with
  | nil => exact ⟨hab, trivial⟩
  | cons c m ih =>
    cases m with
    | nil => exact ⟨h.1, hab, trivial⟩
    | cons d t => exact ⟨h.1, ih h.2⟩

theorem DnNormal.append_noUp {m : Chain} {a : Item} {rest : Chain} (h : DnNormal (m ++ [a]))
    (hr : ∀ it ∈ rest, it.isUp = false) : DnNormal (m ++ a :: rest) := by
  induction rest generalizing m a with
  | nil => exact h
  | cons b rest ih =>
    have hb := hr b (List.mem_cons_self)
    have h1 := h.snoc (swapdown_none_of_right_not_up hb)
    have := ih (m := m ++ [a]) (a := b) (by simpa using h1) (fun it hit => hr it (List.mem_cons_of_mem _ hit))
    simpa using this

theorem UpNormal.tail {a : Item} {l : Chain} (h : UpNormal (a :: l)) : UpNormal l := by
  cases l with
  | nil => trivial
  | cons b t => exact h.2

/-- items that are no updims in front of an up-normal chain: still up-normal -/
theorem UpNormal.prepend_noUp {m l : Chain} (h : UpNormal l) (hm : ∀ it ∈ m, it.isUp = false) : UpNormal (m ++ l) := by
  induction m with
  | nil => exact h
  | cons a m ih =>
    have ha := hm a (List.mem_cons_self)
    have := ih (fun it hit => hm it (List.mem_cons_of_mem _ hit))
    cases hml : m ++ l with
    | nil => simp [hml]; trivial
    | cons b t =>
      simp only [List.cons_append, hml]
      rw [hml] at this
      exact ⟨swapup_none_of_left_not_up ha, this⟩

/-! ## the loops compute the normal forms -/

theorem canonLoop_normal (left right : Chain) (td fd : Nat) (hf : Fits (left.reverse ++ right) td fd)
    (hn : DnNormal (left.reverse ++ right.take 1)) : DnNormal (canonLoop left right) := by
  fun_induction canonLoop left right with
  | case1 a b post _ x y h ih =>
    have sm := Step.sameMap hf (.inl (by simpa using StepDn.mk [] post a b x y h))
    exact ih (by simpa using sm.fits) (by simp; trivial)
  | case2 a b post _ x y h l left' ih =>
    have sm := Step.sameMap hf (.inl (by simpa using StepDn.mk (left'.reverse ++ [l]) post a b x y h))
    refine ih (by simpa using sm.fits) ?_
    have : DnNormal ((left'.reverse ++ [l]) ++ [a]) := by simpa using hn
    simpa using this.append_inv
  | case3 left a b post _ h ih =>
    refine ih (by simpa using hf) ?_
    have h1 : DnNormal (left.reverse ++ [a]) := by simpa using hn
    simpa using h1.snoc h
  | case4 left a b post hcond =>
    -- exit: `a` has reached the final dimension, so nothing behind it is an updim
    have h1 : DnNormal (left.reverse ++ [a]) := by simpa using hn
    obtain ⟨m, _, hr⟩ := hf.split
    obtain ⟨_, _, hr2⟩ := hr.cons_inv
    have hlast := hr2.lastFd_eq
    have : ∀ it ∈ b :: post, it.isUp = false := hr2.no_up_of_flat (by omega)
    exact h1.append_noUp this
  | case5 left right hne =>
    match right, hne with
    | [], _ => simpa using hn
    | [a], _ => simpa using hn
    | a :: b :: post, hne => exact absurd rfl (hne a b post)

theorem canonical_normal (l : Chain) (td fd : Nat) (hf : Fits l td fd) : DnNormal (canonical l) := by
  unfold canonical
  split
  · match l with
    | [] => trivial
    | [a] => trivial
    | a :: b :: t => rename_i h; simp at h; omega
  · exact canonLoop_normal [] l td fd (by simpa using hf) (by cases l <;> simp <;> trivial)

/-- `transform.canonical` computes the down-normal form -/
theorem canonical_eq_nfDown (l : Chain) (td fd : Nat) (hf : Fits l td fd) : canonical l = nfDown l := by
  have e := nfDown_reachDn (canonical_reach l)
  rw [e, nfDown_of_normal _ (canonical_normal l td fd hf)]

theorem Fits.head_td {l : Chain} {td fd : Nat} (h : Fits l td fd) (hne : l ≠ []) : (l.head?.map Item.td).getD 0 = td := by
  cases l with
  | nil => exact absurd rfl hne
  | cons a l => obtain ⟨_, rfl, _⟩ := h.cons_inv; rfl

theorem revHeadTd_eq (a : Item) (rest : Chain) {td x : Nat} (h : Fits (rest.reverse ++ [a]) td x) :
    revHeadTd (a :: rest) = td := by
  have h1 : (a :: rest).getLast? = (rest.reverse ++ [a]).head? := by
    rw [← List.reverse_cons, List.head?_reverse]
  simp only [revHeadTd, h1]
  exact h.head_td (by simp)

theorem upLoop_normal (pre suf : Chain) (td fd : Nat) (hf : Fits (pre.reverse ++ suf) td fd)
    (hn : UpNormal (pre.take 1 ++ suf)) : UpNormal (upLoop pre suf) := by
  fun_induction upLoop pre suf with
  | case1 b a rest _ x y h ih =>
    have sm := Step.sameMap hf (.inr (by simpa using StepUp.mk rest.reverse [] a b x y h))
    exact ih (by simpa using sm.fits) (by simp; trivial)
  | case2 b a rest _ x y h s suf' ih =>
    have sm := Step.sameMap hf (.inr (by simpa using StepUp.mk rest.reverse (s :: suf') a b x y h))
    refine ih (by simpa using sm.fits) ?_
    have : UpNormal (b :: s :: suf') := by simpa using hn
    simpa using this.tail
  | case3 suf b a rest _ h ih =>
    refine ih (by simpa using hf) ?_
    have h1 : UpNormal (b :: suf) := by simpa using hn
    exact ⟨h, h1⟩
  | case4 suf b a rest hcond =>
    have h1 : UpNormal (b :: suf) := by simpa using hn
    have hf' : Fits ((rest.reverse ++ [a]) ++ b :: suf) td fd := by simpa using hf
    obtain ⟨m, hm, hr⟩ := hf'.split
    obtain ⟨_, rfl, _⟩ := hr.cons_inv
    have htd := revHeadTd_eq a rest hm
    have : ∀ it ∈ rest.reverse ++ [a], it.isUp = false := hm.no_up_of_flat (by omega)
    have := h1.prepend_noUp this
    simpa using this
  | case5 pre suf hne =>
    match pre, hne with
    | [], _ => simpa using hn
    | [b], _ => simpa using hn
    | b :: a :: rest, hne => exact absurd rfl (hne b a rest)

theorem uppermost_normal (l : Chain) (td fd : Nat) (hf : Fits l td fd) : UpNormal (uppermost l) := by
  unfold uppermost
  split
  · match l with
    | [] => trivial
    | [a] => trivial
    | a :: b :: t => rename_i h; simp at h; omega
  · refine upLoop_normal l.reverse [] td fd (by simpa using hf) ?_
    cases l.reverse with
    | nil => trivial
    | cons a t => simp; trivial

/-- `transform.uppermost` computes the up-normal form -/
theorem uppermost_eq_nfUp (l : Chain) (td fd : Nat) (hf : Fits l td fd) : uppermost l = nfUp l := by
  have e := nfUp_reachUp (uppermost_reach l)
  rw [e, nfUp_of_normal _ (uppermost_normal l td fd hf)]

/-! ## reversible classes of items -/

theorem Fits.mid_eq {p q : Chain} {a b : Item} {td fd : Nat} (h : Fits (p ++ a :: b :: q) td fd) : a.fd = b.td := by
  obtain ⟨_, _, hr⟩ := h.split
  obtain ⟨_, _, hr2⟩ := hr.cons_inv
  exact (hr2.cons_inv).2.1

theorem RevSys.stepUp {G : Item → Prop} (hG : RevSys G) {l l' : Chain} {td fd : Nat} (h : GFits G l td fd)
    (s : StepUp l l') : GFits G l' td fd ∧ StepDn l' l := by
  have sm := Step.sameMap h.1 (.inr s)
  cases s with
  | mk p q a b x y hs =>
    have ha := h.2 a (by simp)
    have hb := h.2 b (by simp)
    obtain ⟨gx, gy, hinv⟩ := hG.up a b x y ha hb h.1.mid_eq hs
    refine ⟨⟨sm.fits, ?_⟩, StepDn.mk p q x y a b hinv⟩
    intro c hc
    simp only [List.mem_append, List.mem_cons] at hc
    rcases hc with hc | rfl | rfl | hc
    · exact h.2 c (by simp [hc])
    · exact gx
    · exact gy
    · exact h.2 c (by simp [hc])

theorem RevSys.stepDn {G : Item → Prop} (hG : RevSys G) {l l' : Chain} {td fd : Nat} (h : GFits G l td fd)
    (s : StepDn l l') : GFits G l' td fd ∧ StepUp l' l := by
  have sm := Step.sameMap h.1 (.inl s)
  cases s with
  | mk p q a b x y hs =>
    have ha := h.2 a (by simp)
    have hb := h.2 b (by simp)
    obtain ⟨gx, gy, hinv⟩ := hG.dn a b x y ha hb h.1.mid_eq hs
    refine ⟨⟨sm.fits, ?_⟩, StepUp.mk p q x y a b hinv⟩
    intro c hc
    simp only [List.mem_append, List.mem_cons] at hc
    rcases hc with hc | rfl | rfl | hc
    · exact h.2 c (by simp [hc])
    · exact gx
    · exact gy
    · exact h.2 c (by simp [hc])

/-- on a reversible class both normal forms are invariants of the equivalence generated by the swaps -/
theorem RevSys.reach {G : Item → Prop} (hG : RevSys G) {l l' : Chain} {td fd : Nat} (h : GFits G l td fd)
    (r : Reach Step l l') : GFits G l' td fd ∧ nfDown l = nfDown l' ∧ nfUp l = nfUp l' := by
  induction r with
  | refl => exact ⟨h, rfl, rfl⟩
  | tail m n _ hmn ih =>
    obtain ⟨gm, e1, e2⟩ := ih
    cases hmn with
    | inl hd =>
      obtain ⟨gn, hu⟩ := hG.stepDn gm hd
      exact ⟨gn, e1.trans (nfDown_stepDn hd), e2.trans (nfUp_stepUp hu).symm⟩
    | inr hu =>
      obtain ⟨gn, hd⟩ := hG.stepUp gm hu
      exact ⟨gn, e1.trans (nfDown_stepDn hd).symm, e2.trans (nfUp_stepUp hu)⟩

theorem RevSys.nfDown_fits {G : Item → Prop} (hG : RevSys G) {l : Chain} {td fd : Nat} (h : GFits G l td fd) :
    GFits G (nfDown l) td fd := (hG.reach h ((nfDown_reach l).mono fun _ _ s => .inl s)).1

theorem RevSys.nfUp_fits {G : Item → Prop} (hG : RevSys G) {l : Chain} {td fd : Nat} (h : GFits G l td fd) :
    GFits G (nfUp l) td fd := (hG.reach h ((nfUp_reach l).mono fun _ _ s => .inr s)).1

theorem RevSys.nfUp_nfDown {G : Item → Prop} (hG : RevSys G) {l : Chain} {td fd : Nat} (h : GFits G l td fd) :
    nfUp (nfDown l) = nfUp l := ((hG.reach h ((nfDown_reach l).mono fun _ _ s => .inl s)).2.2).symm

theorem RevSys.nfDown_nfUp {G : Item → Prop} (hG : RevSys G) {l : Chain} {td fd : Nat} (h : GFits G l td fd) :
    nfDown (nfUp l) = nfDown l := ((hG.reach h ((nfUp_reach l).mono fun _ _ s => .inr s)).2.1).symm

/-- equivalent chains of a reversible class have the same up-normal form as well -/
theorem RevSys.eqv_nfUp {G : Item → Prop} (hG : RevSys G) {l l' : Chain} {td fd td' fd' : Nat} (h : GFits G l td fd)
    (h' : GFits G l' td' fd') (e : Eqv l l') : nfUp l = nfUp l' := by
  rw [← hG.nfUp_nfDown h, ← hG.nfUp_nfDown h', e]

/-- equivalent chains denote the same affine map with the same orientation -/
theorem RevSys.eqv_sameMap {G : Item → Prop} (hG : RevSys G) {l l' : Chain} {td fd : Nat} (h : GFits G l td fd)
    (h' : GFits G l' td fd) (e : Eqv l l') : SameMap l l' td fd := by
  have s1 := Reach.sameMap h.1 ((nfDown_reach l).mono fun _ _ s => .inl s)
  have s2 := Reach.sameMap h'.1 ((nfDown_reach l').mono fun _ _ s => .inl s)
  refine ⟨h'.1, ?_, ?_⟩
  · intro v hv; rw [← s2.app v hv, ← e, s1.app v hv]
  · rw [← s2.flip, ← e, s1.flip]

theorem pushDn_length (c : Item) (ys : Chain) : (pushDn c ys).length = ys.length + 1 := by
  induction ys generalizing c with
  | nil => rfl
  | cons e ys ih => simp only [pushDn]; split <;> simp [ih]

theorem nfDown_length (l : Chain) : (nfDown l).length = l.length := by
  induction l with
  | nil => rfl
  | cons a l ih => simp [nfDown, pushDn_length, ih]

theorem Eqv.length_eq {l l' : Chain} (e : Eqv l l') : l.length = l'.length := by
  rw [← nfDown_length l, ← nfDown_length l', e]

end NutilsVerif.C11
