import Mathlib.LinearAlgebra.Matrix.NonsingularInverse
import Mathlib.Algebra.MvPolynomial.PDeriv
import Mathlib.Algebra.MvPolynomial.Monad
import Mathlib.Algebra.Order.Field.Basic
import Mathlib.Algebra.Order.AbsoluteValue.Basic
import Mathlib.Tactic.Ring
import Mathlib.Tactic.FieldSimp
/-!
# C08 — the algebra behind `_Gradient`, `_SurfaceGradient`, `_Jacobian`, `_Normal`, `Orthonormal`
(general statements over fields / commutative rings; restated in `Props/C08.lean`)
-/
namespace NutilsVerif.C08.Alg
open Matrix MvPolynomial

/-! ## `evaluable.Orthonormal` -/

section Orthonormal
variable {K : Type*} [Field K] {n k : Type*} [Fintype n] [Fintype k] [DecidableEq k]

/-- `Orthonormal.evalf` before the final normalisation: `v − G (GᵀG)⁻¹ Gᵀ v` -/
noncomputable def projOut (G : Matrix n k K) (v : n → K) : n → K := v - G *ᵥ ((Gᵀ * G)⁻¹ *ᵥ (Gᵀ *ᵥ v))

theorem projOut_orthogonal (G : Matrix n k K) (v : n → K) (h : IsUnit (Gᵀ * G).det) :
    Gᵀ *ᵥ projOut G v = 0 := by
  unfold projOut
  rw [mulVec_sub, mulVec_mulVec, mulVec_mulVec, mul_nonsing_inv _ h, Matrix.one_mulVec, sub_self]

/-- the projected vector stays on the side of the tangent plane on which `v` lies: `v · w = w · w` -/
theorem projOut_same_side (G : Matrix n k K) (v : n → K) (h : IsUnit (Gᵀ * G).det) :
    v ⬝ᵥ projOut G v = projOut G v ⬝ᵥ projOut G v := by
  have ho := projOut_orthogonal G v h
  set w := projOut G v with hw
  have hv : v = w + G *ᵥ ((Gᵀ * G)⁻¹ *ᵥ (Gᵀ *ᵥ v)) := by
    rw [hw]; unfold projOut; abel
  have hz : (G *ᵥ ((Gᵀ * G)⁻¹ *ᵥ (Gᵀ *ᵥ v))) ⬝ᵥ w = 0 := by
    rw [dotProduct_comm, dotProduct_mulVec, ← mulVec_transpose, ho, zero_dotProduct]
  conv_lhs => rw [hv]
  rw [add_dotProduct, hz, add_zero]

/-- the un-normalised normal `w = projOut G ν` measures exactly the `ν`-component of any vector `G c + t ν`:
`w · (G c + t ν) = t (w · w)`; with `G = dx·E` the mapped edge tangents and `ν = dx·ext` the mapped extension vector this says
that the normal has a positive component along the image of every vector that leaves the element through the edge -/
theorem projOut_side (G : Matrix n k K) (ν : n → K) (c : k → K) (t : K) (h : IsUnit (Gᵀ * G).det) :
    projOut G ν ⬝ᵥ (G *ᵥ c + t • ν) = t * (projOut G ν ⬝ᵥ projOut G ν) := by
  have ho := projOut_orthogonal G ν h
  have hs := projOut_same_side G ν h
  rw [dotProduct_add, dotProduct_smul, smul_eq_mul, dotProduct_comm _ ν, hs, dotProduct_mulVec, ← mulVec_transpose, ho,
    zero_dotProduct, zero_add]

/-- a vector in the tangent space is removed completely -/
theorem projOut_tangent (G : Matrix n k K) (c : k → K) (h : IsUnit (Gᵀ * G).det) :
    projOut G (G *ᵥ c) = 0 := by
  unfold projOut
  rw [mulVec_mulVec (v := c), mulVec_mulVec, mulVec_mulVec, Matrix.mul_assoc, nonsing_inv_mul _ h, Matrix.mul_one, sub_self]

/-- normalisation: dividing by any square root of `w · w` gives a unit vector -/
theorem normalize_unit (w : n → K) (s : K) (hs : s * s = w ⬝ᵥ w) (h0 : s ≠ 0) :
    (s⁻¹ • w) ⬝ᵥ (s⁻¹ • w) = 1 := by
  rw [smul_dotProduct, dotProduct_smul, ← hs, smul_eq_mul, smul_eq_mul]
  field_simp

end Orthonormal

/-! ## chain rule for formal derivatives: `_Gradient` computes `(∇p) ∘ x` -/

section Chain
variable {R : Type*} [CommRing R] {σ τ : Type*} [Fintype σ] [DecidableEq σ]

/-- formal chain rule: `∂ⱼ (p ∘ x) = Σᵢ (∂ᵢ p) ∘ x · ∂ⱼ xᵢ` for a polynomial `p` and a polynomial map `x` -/
theorem pderiv_bind₁ (x : σ → MvPolynomial τ R) (p : MvPolynomial σ R) (j : τ) :
    pderiv j (bind₁ x p) = ∑ i, bind₁ x (pderiv i p) * pderiv j (x i) := by
  induction p using MvPolynomial.induction_on with
  | C a => simp
  | add p q hp hq => simp [hp, hq, add_mul, Finset.sum_add_distrib]
  | mul_X p k hp =>
    simp only [map_mul, bind₁_X_right, pderiv_mul, hp, pderiv_X]
    simp only [map_add, map_mul, bind₁_X_right, add_mul, Finset.sum_add_distrib]
    congr 1
    · rw [Finset.sum_mul]
      apply Finset.sum_congr rfl
      intro i _; ring
    · rw [Finset.sum_eq_single k]
      · simp
      · intro b _ hb; simp [Ne.symm hb]
      · intro hk; exact absurd (Finset.mem_univ k) hk

end Chain

section ChainPoint
variable {K : Type*} [Field K] {σ : Type*} [Fintype σ] [DecidableEq σ]

/-- Jacobian matrix `∂xᵢ/∂ξⱼ` of a polynomial map at a point -/
noncomputable def jacAt (x : σ → MvPolynomial σ K) (ξ : σ → K) : Matrix σ σ K := fun i j => eval ξ (pderiv j (x i))

/-- `dfunc_dref`: the derivative of `p ∘ x` to the reference coordinates at a point -/
noncomputable def dcompAt (x : σ → MvPolynomial σ K) (p : MvPolynomial σ K) (ξ : σ → K) : σ → K := fun j => eval ξ (pderiv j (bind₁ x p))

/-- `(∇p)(x(ξ))` -/
noncomputable def gradAt (x : σ → MvPolynomial σ K) (p : MvPolynomial σ K) (ξ : σ → K) : σ → K :=
  fun i => eval (fun l => eval ξ (x l)) (pderiv i p)

theorem dcompAt_eq (x : σ → MvPolynomial σ K) (p : MvPolynomial σ K) (ξ : σ → K) :
    dcompAt x p ξ = gradAt x p ξ ᵥ* jacAt x ξ := by
  funext j
  simp only [dcompAt, gradAt, jacAt, pderiv_bind₁, map_sum, map_mul, vecMul, dotProduct]
  apply Finset.sum_congr rfl
  intro i _
  congr 1
  exact eval₂Hom_bind₁ (RingHom.id K) ξ x _

/-- what `_Gradient.lower` computes, `dfunc_dref ᵥ* (dgeom_dref)⁻¹`, is the gradient of `p` evaluated at `x(ξ)` -/
theorem gradient_eq (x : σ → MvPolynomial σ K) (p : MvPolynomial σ K) (ξ : σ → K) (h : IsUnit (jacAt x ξ).det) :
    dcompAt x p ξ ᵥ* (jacAt x ξ)⁻¹ = gradAt x p ξ := by
  rw [dcompAt_eq, vecMul_vecMul, mul_nonsing_inv _ h, vecMul_one]

end ChainPoint

/-! ## matrix identities used by `_Gradient`, `_SurfaceGradient`, `_Jacobian`, `_Normal` -/

section Mat
variable {K : Type*} [Field K] {n k : Type*} [Fintype n] [Fintype k] [DecidableEq n] [DecidableEq k]

/-- the gradient does not depend on the coordinate system in which the root derivatives are expressed
(the `WithDerivative` of `_TransformsCoords` carries `L⁻¹`; `L` changes with refinement and with the parametrisation) -/
theorem gradient_indep_of_chain (df : n → K) (dx L : Matrix n n K) (hL : IsUnit L.det) :
    (df ᵥ* L⁻¹) ᵥ* (dx * L⁻¹)⁻¹ = df ᵥ* dx⁻¹ := by
  rw [Matrix.mul_inv_rev, nonsing_inv_nonsing_inv _ hL, vecMul_vecMul, ← Matrix.mul_assoc, nonsing_inv_mul _ hL, Matrix.one_mul]

/-- the same with different coordinate systems for the function and for the geometry: only the relative map enters,
and it is the chain rule factor `du₁/du₂` -/
theorem gradient_two_charts (df : n → K) (dx L₁ L₂ : Matrix n n K) (h₂ : IsUnit L₂.det) :
    (df ᵥ* L₁⁻¹) ᵥ* (dx * L₂⁻¹)⁻¹ = (df ᵥ* (L₁⁻¹ * L₂)) ᵥ* dx⁻¹ := by
  rw [Matrix.mul_inv_rev, nonsing_inv_nonsing_inv _ h₂, vecMul_vecMul, vecMul_vecMul, Matrix.mul_assoc]

omit [DecidableEq n] in
/-- `_SurfaceGradient`: `df ᵥ* ((GᵀG)⁻¹ Gᵀ)` with `df = ∇F ᵥ* G` (chain rule on the manifold) is the tangential
projection of the full gradient `∇F`: the full gradient minus its component orthogonal to the tangents -/
theorem surfgrad_eq_tangential_projection (G : Matrix n k K) (gradF : n → K) :
    (gradF ᵥ* G) ᵥ* ((Gᵀ * G)⁻¹ * Gᵀ) = gradF - projOut G gradF := by
  unfold projOut
  have hP : (G * (Gᵀ * G)⁻¹ * Gᵀ)ᵀ = G * (Gᵀ * G)⁻¹ * Gᵀ := by
    rw [transpose_mul, transpose_mul, transpose_transpose, transpose_nonsing_inv, transpose_mul, transpose_transpose,
      Matrix.mul_assoc]
  rw [sub_sub_cancel, vecMul_vecMul, ← Matrix.mul_assoc, mulVec_mulVec, mulVec_mulVec, ← vecMul_transpose, hP]

omit [DecidableEq n] in
/-- the surface gradient is tangential: it has no component along any vector orthogonal to the tangents -/
theorem surfgrad_tangential (G : Matrix n k K) (df : k → K) (ν : n → K) (hν : Gᵀ *ᵥ ν = 0) :
    (df ᵥ* ((Gᵀ * G)⁻¹ * Gᵀ)) ⬝ᵥ ν = 0 := by
  rw [← vecMul_vecMul, ← dotProduct_mulVec, hν, dotProduct_zero]

/-- the two branches of `sqrt_abs_det_gram` agree on square matrices: `det(JᵀJ) = det(J)²` -/
theorem det_gram_square (J : Matrix n n K) : (Jᵀ * J).det = J.det * J.det := by
  rw [det_mul, det_transpose]

omit [Fintype k] [DecidableEq k] in
/-- the tangent columns of `rgrad · TransformBasis` are the tip derivative of the geometry:
`(dx · L_tgt⁻¹) · (L_tgt · L_rel) = dx · L_rel` -/
theorem normal_tangents_eq_tip_derivative (dx Lt : Matrix n n K) (Lrel : Matrix n k K) (h : IsUnit Lt.det) :
    (dx * Lt⁻¹) * (Lt * Lrel) = dx * Lrel := by
  rw [Matrix.mul_assoc, ← Matrix.mul_assoc Lt⁻¹, nonsing_inv_mul _ h, Matrix.one_mul]

end Mat

section Measure
variable {K : Type*} [Field K] [LinearOrder K] [IsStrictOrderedRing K] {n : Type*} [Fintype n] [DecidableEq n] {ι : Type*}

/-- `∫ f(x) J` is invariant under an affine reparametrisation `ξ = B η + c` of the reference domain: the quadrature on the
`η` side has the points `η_q` with `ξ_q = B η_q + c` and the weights `w_q / |det B|`, the geometry seen from `η` is
`x(B η + c)` with Jacobian `A · B` -/
theorem jacobian_change_of_variables_affine (s : Finset ι) (w : ι → K) (f : (n → K) → K) (A B : Matrix n n K)
    (a c : n → K) (ξ η : ι → n → K) (hB : B.det ≠ 0) (hpts : ∀ q, ξ q = B *ᵥ η q + c) :
    ∑ q ∈ s, (w q / |B.det|) * f (A *ᵥ (B *ᵥ η q + c) + a) * |(A * B).det| = ∑ q ∈ s, w q * f (A *ᵥ ξ q + a) * |A.det| := by
  apply Finset.sum_congr rfl
  intro q _
  have hb : |B.det| ≠ 0 := abs_ne_zero.mpr hB
  rw [hpts q, det_mul, abs_mul]
  field_simp

end Measure

section Divergence
variable {K : Type*} [CommRing K] {n : Type*} [Fintype n] [DecidableEq n] {ι : Type*}

/-- divergence theorem for affine fields on a closed polytope: if the facets (centroid `xc e`, area-weighted normal
`ν e`) satisfy `Σ ν = 0` and `Σ xc ⊗ ν = V · 1` (what `boundary_closed_ref` states for every reference element), then
for every affine field `F(x) = M x + c`: `Σ_e F(xc e) · ν e = tr(M) · V` -/
theorem divergence_theorem_affine_field (s : Finset ι) (xc ν : ι → n → K) (V : K) (M : Matrix n n K) (c : n → K)
    (h0 : ∀ i, ∑ e ∈ s, ν e i = 0) (h1 : ∀ i j, ∑ e ∈ s, xc e j * ν e i = if i = j then V else 0) :
    ∑ e ∈ s, (M *ᵥ xc e + c) ⬝ᵥ ν e = M.trace * V := by
  have h2 : ∑ e ∈ s, c ⬝ᵥ ν e = 0 := by
    simp only [dotProduct]
    rw [Finset.sum_comm]
    apply Finset.sum_eq_zero; intro i _; rw [← Finset.mul_sum, h0, mul_zero]
  have h3 : ∑ e ∈ s, (M *ᵥ xc e) ⬝ᵥ ν e = M.trace * V := by
    simp only [dotProduct, mulVec, Finset.sum_mul]
    rw [Finset.sum_comm]
    simp only [Matrix.trace, Matrix.diag, Finset.sum_mul]
    apply Finset.sum_congr rfl
    intro i _
    rw [Finset.sum_comm]
    have : ∀ j, ∑ e ∈ s, M i j * xc e j * ν e i = M i j * (if i = j then V else 0) := by
      intro j; rw [← h1 i j, Finset.mul_sum]; apply Finset.sum_congr rfl; intro e _; ring
    simp only [this]
    simp
  simp only [add_dotProduct, Finset.sum_add_distrib, h2, h3, add_zero]

end Divergence

end NutilsVerif.C08.Alg
