import NutilsVerif.Core.Tensor
/-! Foundation lemmas about `Core/Tensor.lean`: tabulate-then-get is the index function. -/
namespace NutilsVerif

theorem shapeSize_cons (n : Nat) (s : List Nat) : shapeSize (n :: s) = n * shapeSize s := rfl

theorem flatIdx_lt : ∀ (s idx : List Nat), inBox s idx = true → flatIdx s idx < shapeSize s
  | [], [], _ => by simp [flatIdx, shapeSize]
  | [], _ :: _, h => by simp [inBox] at h
  | _ :: _, [], h => by simp [inBox] at h
  | n :: s, i :: idx, h => by
    simp only [inBox, Bool.and_eq_true, decide_eq_true_eq] at h
    have ih := flatIdx_lt s idx h.2
    simp only [flatIdx, shapeSize_cons]
    calc i * shapeSize s + flatIdx s idx < i * shapeSize s + shapeSize s := by omega
      _ = (i + 1) * shapeSize s := by rw [Nat.add_mul, Nat.one_mul]
      _ ≤ n * shapeSize s := Nat.mul_le_mul_right _ h.1

theorem unflat_flat : ∀ (s idx : List Nat), inBox s idx = true → unflatIdx s (flatIdx s idx) = idx
  | [], [], _ => rfl
  | [], _ :: _, h => by simp [inBox] at h
  | _ :: _, [], h => by simp [inBox] at h
  | n :: s, i :: idx, h => by
    simp only [inBox, Bool.and_eq_true, decide_eq_true_eq] at h
    have hlt := flatIdx_lt s idx h.2
    have ih := unflat_flat s idx h.2
    have hpos : 0 < shapeSize s := by omega
    simp only [flatIdx, unflatIdx]
    have h1 : (i * shapeSize s + flatIdx s idx) / shapeSize s = i := by
      rw [Nat.mul_comm, Nat.mul_add_div hpos, Nat.div_eq_of_lt hlt]; simp
    have h2 : (i * shapeSize s + flatIdx s idx) % shapeSize s = flatIdx s idx := by
      rw [Nat.mul_comm, Nat.mul_add_mod, Nat.mod_eq_of_lt hlt]
    rw [h1, h2, ih]

/-- Reading position `idx` of a tabulated index function gives the function value: every tensor operation in
`Core/Tensor.lean` is `ofFn newShape formula`, so this lemma turns each operation into its index formula. -/
theorem Tensor.get_ofFn {α : Type} [Inhabited α] (shape : List Nat) (f : List Nat → α) (idx : List Nat)
    (h : inBox shape idx = true) : (Tensor.ofFn shape f).get idx = f idx := by
  have hlt := flatIdx_lt shape idx h
  simp only [Tensor.get, Tensor.ofFn]
  rw [Array.getD_eq_getD_getElem?]
  simp [hlt, unflat_flat shape idx h]

@[simp] theorem Tensor.shape_ofFn {α : Type} [Inhabited α] (shape : List Nat) (f : List Nat → α) :
    (Tensor.ofFn shape f).shape = shape := rfl

/-- semantic equality of tensors: same shape and same entry at every multi-index of the box -/
def Tensor.Equiv {α : Type} [Inhabited α] (a b : Tensor α) : Prop :=
  a.shape = b.shape ∧ ∀ idx, inBox a.shape idx = true → a.get idx = b.get idx

infix:50 " ≃ₜ " => Tensor.Equiv

theorem Tensor.Equiv.refl {α : Type} [Inhabited α] (a : Tensor α) : a ≃ₜ a := ⟨rfl, fun _ _ => rfl⟩
theorem Tensor.Equiv.symm {α : Type} [Inhabited α] {a b : Tensor α} (h : a ≃ₜ b) : b ≃ₜ a :=
  ⟨h.1.symm, fun idx hi => (h.2 idx (h.1 ▸ hi)).symm⟩
theorem Tensor.Equiv.trans {α : Type} [Inhabited α] {a b c : Tensor α} (h₁ : a ≃ₜ b) (h₂ : b ≃ₜ c) : a ≃ₜ c :=
  ⟨h₁.1.trans h₂.1, fun idx hi => (h₁.2 idx hi).trans (h₂.2 idx (h₁.1 ▸ hi))⟩

end NutilsVerif
