import NutilsVerif.Model.C20
/-!
# C20 — names in the unit table (helper lemmas): prefixes are single characters, so a clash between a prefixed
and another name can be read off the definitions' own names
-/
namespace NutilsVerif.C20

theorem prefixes_single : ∀ p ∈ prefixes, ∃ c, p.1 = [c] := by
  intro p hp
  have h : ∀ p ∈ prefixes, p.1.length = 1 := by decide
  have := h p hp
  match hp1 : p.1, this with
  | [c], _ => exact ⟨c, rfl⟩

theorem mem_names {d : UDef} {n : List Char} (h : n ∈ d.names) :
    n = d.name ∨ (d.hasPrefixes = true ∧ ∃ p ∈ prefixes, ∃ c, p.1 = [c] ∧ n = c :: d.name) := by
  unfold UDef.names at h
  rcases List.mem_cons.mp h with h | h
  · left; exact h
  · right
    split at h
    · rename_i hp
      obtain ⟨p, hpm, rfl⟩ := List.mem_map.mp h
      obtain ⟨c, hc⟩ := prefixes_single p hpm
      exact ⟨hp, p, hpm, c, hc, by rw [hc]; rfl⟩
    · cases h

theorem clash_of {a b : UDef} (ha : a.hasPrefixes = true) {p : List Char × Rat} (hp : p ∈ prefixes) {c : Char} (hc : p.1 = [c])
    (hb : b.name = c :: a.name) : clash a b = true := by
  unfold clash
  rw [hb]
  simp only [ha, Bool.true_and, Bool.and_eq_true, beq_self_eq_true, and_true]
  exact List.any_eq_true.mpr ⟨p, hp, by simp [hc]⟩

theorem names_disjoint (defs : List UDef) (hok : namesOk defs = true) :
    ∀ a ∈ defs, ∀ b ∈ defs, a.name ≠ b.name → ∀ n ∈ a.names, n ∉ b.names := by
  intro a ha b hb hne n hna hnb
  have hnc : ∀ x ∈ defs, ∀ y ∈ defs, clash x y = false := by
    intro x hx y hy
    unfold namesOk at hok
    have := List.all_eq_true.mp (List.all_eq_true.mp hok x hx) y hy
    simpa using this
  rcases mem_names hna with e1 | ⟨hpa, p, hp, c, hc, e1⟩ <;> rcases mem_names hnb with e2 | ⟨hpb, q, hq, c', hc', e2⟩
  · exact hne (e1.symm.trans e2)
  · have := clash_of hpb hq hc' (e1.symm.trans e2)
    rw [hnc b hb a ha] at this; cases this
  · have := clash_of hpa hp hc (e2.symm.trans e1)
    rw [hnc a ha b hb] at this; cases this
  · have := e1.symm.trans e2
    exact hne (List.cons.inj this).2
end NutilsVerif.C20
