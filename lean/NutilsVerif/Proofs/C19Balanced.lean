import NutilsVerif.Proofs.C19Scan
import NutilsVerif.Proofs.C19WF
/-!
# C19 — every accepted string has balanced brackets (for all strings)
-/
namespace NutilsVerif.C19

def Matcher.plainMatch : Matcher → Bool
  | .lit p => p.all plain
  | .spaces => true
  | _ => false

theorem isPrefixOf_take (p tl : List Char) (h : p.isPrefixOf tl = true) : tl.take p.length = p := by
  induction p generalizing tl with
  | nil => simp
  | cons a p ih =>
    cases tl with
    | nil => simp [List.isPrefixOf] at h
    | cons b tl =>
      simp only [List.isPrefixOf, Bool.and_eq_true, beq_iff_eq] at h
      simp [h.1, ih tl h.2]

theorem take_takeWhile_length (tl : List Char) (q : Char → Bool) : tl.take (tl.takeWhile q).length = tl.takeWhile q := by
  induction tl with
  | nil => rfl
  | cons c cs ih =>
    simp only [List.takeWhile]
    split
    · simp [ih]
    · simp

theorem takeWhile_space_plain (tl : List Char) : (tl.takeWhile (· == ' ')).all plain = true := by
  induction tl with
  | nil => rfl
  | cons c cs ih =>
    simp only [List.takeWhile]
    split
    · rename_i hc; simp only [beq_iff_eq] at hc; subst hc
      have hp : plain ' ' = true := by decide
      simp only [List.all_cons, hp, Bool.true_and]; exact ih
    · rfl

theorem run_take_plain (m : Matcher) (tl : List Char) (h : m.plainMatch = true) : (tl.take (m.run tl)).all plain = true := by
  cases m with
  | lit p =>
    simp only [Matcher.plainMatch] at h
    simp only [Matcher.run]
    split
    · rename_i hp; rw [isPrefixOf_take p tl hp]; exact h
    · simp
  | spaces =>
    simp only [Matcher.run]
    rw [take_takeWhile_length]; exact takeWhile_space_plain tl
  | opening => simp [Matcher.plainMatch] at h
  | closing => simp [Matcher.plainMatch] at h

theorem firstMatch_spec (ms : List Matcher) (tl : List Char) : ∀ k im n, firstMatch ms tl k = some (im, n) →
    ∃ m ∈ ms, n = m.run tl := by
  induction ms with
  | nil => intro k im n h; simp [firstMatch] at h
  | cons m ms ih =>
    intro k im n h
    simp only [firstMatch] at h
    split at h
    · simp only [Option.some.injEq, Prod.mk.injEq] at h; exact ⟨m, List.mem_cons_self, h.2.symm⟩
    · obtain ⟨m', hm', hn⟩ := ih _ _ _ h
      exact ⟨m', List.mem_cons_of_mem _ hm', hn⟩

theorem firstMatch_nonzero (ms : List Matcher) (tl : List Char) : ∀ k im n, firstMatch ms tl k = some (im, n) → n ≠ 0 := by
  induction ms with
  | nil => intro k im n h; simp [firstMatch] at h
  | cons m ms ih =>
    intro k im n h
    simp only [firstMatch] at h
    split at h
    · rename_i hne; simp only [Option.some.injEq, Prod.mk.injEq] at h; rw [← h.2]; exact hne
    · exact ih _ _ _ h

theorem findGo_nonzero (ms : List Matcher) (l : List Char) : ∀ (lvl : Int) (off : Nat) (im o n : Nat),
    findGo ms l lvl off = some (im, o, n) → n ≠ 0 := by
  induction l with
  | nil => intro lvl off im o n h; simp [findGo] at h
  | cons c cs ih =>
    intro lvl off im o n h
    rw [findGo_cons] at h
    split at h
    · rename_i im' n' hm
      simp only [Option.some.injEq, Prod.mk.injEq] at h
      obtain ⟨_, _, rfl⟩ := h
      split at hm
      · exact firstMatch_nonzero ms _ _ _ _ hm
      · simp at hm
    · exact ih _ _ _ _ _ h

theorem find_length_zero (ms : List Matcher) (l : List Char) (h : (find ms l).length = 0) : (find ms l).offset = l.length := by
  unfold find at h ⊢
  split
  · rename_i im off n hg
    rw [hg] at h
    exact absurd h (findGo_nonzero ms l 0 0 im off n hg)
  · rfl

theorem findGo_match (ms : List Matcher) (l : List Char) : ∀ (lvl : Int) (off : Nat) (im o n : Nat),
    findGo ms l lvl off = some (im, o, n) → ∃ k, o = off + k ∧ ∃ m ∈ ms, n = m.run (l.drop k) := by
  induction l with
  | nil => intro lvl off im o n h; simp [findGo] at h
  | cons c cs ih =>
    intro lvl off im o n h
    rw [findGo_cons] at h
    split at h
    · rename_i im' n' hm
      simp only [Option.some.injEq, Prod.mk.injEq] at h
      obtain ⟨_, rfl, rfl⟩ := h
      split at hm
      · obtain ⟨m, hm1, hm2⟩ := firstMatch_spec ms _ _ _ _ hm
        exact ⟨0, by simp, m, hm1, by simpa using hm2⟩
      · simp at hm
    · obtain ⟨k, hk, m, hm1, hm2⟩ := ih _ _ _ _ _ h
      exact ⟨k + 1, by omega, m, hm1, by simpa using hm2⟩

/-- the text matched by `find` consists of plain characters when all matchers are plain -/
theorem find_matched_plain (ms : List Matcher) (hms : ∀ m ∈ ms, m.plainMatch = true) (l : List Char) :
    ((l.drop (find ms l).offset).take (find ms l).length).all plain = true := by
  unfold find
  split
  · rename_i im off n h
    obtain ⟨k, hk, m, hm1, hm2⟩ := findGo_match ms l 0 0 im off n h
    simp only [Nat.zero_add] at hk
    subst hk; subst hm2
    exact run_take_plain m _ (hms m hm1)
  · simp

theorem Bal.of_split3 (l : List Char) (a b : Nat) (h1 : Bal (l.take a)) (h2 : ((l.drop a).take b).all plain = true)
    (h3 : Bal (l.drop (a + b))) : Bal l := by
  have : l = l.take a ++ ((l.drop a).take b ++ l.drop (a + b)) := by
    rw [← List.drop_drop, List.take_append_drop, List.take_append_drop]
  rw [this]
  exact h1.append ((Bal.of_plain _ h2).append h3)

theorem splitL_bal (ms : List Matcher) (hms : ∀ m ∈ ms, m.plainMatch = true) (start : Nat) (l : List Char) :
    (∀ p ∈ splitL ms start l, Bal p.chars) → Bal l := by
  induction start, l using splitL.induct ms with
  | case1 start l h =>
    intro hp
    rw [splitL] at hp; simp only [h, dite_true, List.mem_singleton, forall_eq] at hp
    rw [find_length_zero ms l h, List.take_length] at hp
    exact hp
  | case2 start l h ih =>
    intro hp
    rw [splitL] at hp; simp only [h, dite_false, List.mem_cons, forall_eq_or_imp] at hp
    exact Bal.of_split3 l _ _ hp.1 (find_matched_plain ms hms l) (ih hp.2)

theorem isplitL_bal (ms : List Matcher) (hms : ∀ m ∈ ms, m.plainMatch = true) (first : Option Nat) (start : Nat) (l : List Char) :
    (∀ p ∈ isplitL ms first start l, Bal p.2.chars) → Bal l := by
  induction first, start, l using isplitL.induct ms with
  | case1 first start l h =>
    intro hp
    rw [isplitL] at hp; simp only [h, dite_true, List.mem_singleton, forall_eq] at hp
    rw [find_length_zero ms l h, List.take_length] at hp
    exact hp
  | case2 first start l h ih =>
    intro hp
    rw [isplitL] at hp; simp only [h, dite_false, List.mem_cons, forall_eq_or_imp] at hp
    exact Bal.of_split3 l _ _ hp.1 (find_matched_plain ms hms l) (ih hp.2)

theorem plain_spaces (l : List Char) (h : ∀ c ∈ l, c = ' ') : l.all plain = true := by
  rw [List.all_eq_true]; intro c hc; rw [h c hc]; decide

theorem Bal.of_trimStart (s : Sub) (h : Bal s.trimStart.chars) : Bal s.chars := by
  simp only [Sub.trimStart] at h
  have : s.chars = s.chars.takeWhile (· == ' ') ++ s.chars.drop (s.chars.takeWhile (· == ' ')).length := by
    conv => lhs; rw [← List.take_append_drop (s.chars.takeWhile (· == ' ')).length s.chars, take_takeWhile_length]
  rw [this]
  exact (Bal.of_plain _ (takeWhile_space_plain _)).append h

theorem Bal.of_trimEnd (s : Sub) (h : Bal s.trimEnd.chars) : Bal s.chars := by
  simp only [Sub.trimEnd, Sub.len] at h
  have hk : (s.chars.reverse.takeWhile (· == ' ')).length ≤ s.chars.length := by
    have h1 := take_takeWhile_length s.chars.reverse (· == ' ')
    have h2 := congrArg List.length h1
    simp only [List.length_take, List.length_reverse] at h2
    omega
  have hd : s.chars.drop (s.chars.length - (s.chars.reverse.takeWhile (· == ' ')).length) = (s.chars.reverse.takeWhile (· == ' ')).reverse := by
    rw [← take_takeWhile_length s.chars.reverse, List.reverse_take]; simp [Nat.min_eq_left hk]
  have : s.chars = s.chars.take (s.chars.length - (s.chars.reverse.takeWhile (· == ' ')).length) ++ (s.chars.reverse.takeWhile (· == ' ')).reverse := by
    rw [← hd, List.take_append_drop]
  rw [this]
  refine h.append (Bal.of_plain _ ?_)
  rw [List.all_reverse]; exact takeWhile_space_plain _

theorem Bal.of_trim (s : Sub) (h : Bal s.trim.chars) : Bal s.chars :=
  Bal.of_trimEnd s (Bal.of_trimStart s.trimEnd h)

/-! ### number literals consist of plain characters -/

theorem isDigit_plain (c : Char) (h : isDigit c = true) : plain c = true := by
  simp only [isDigit, Bool.and_eq_true, decide_eq_true_eq] at h
  have h1 : 48 ≤ c.toNat := h.1
  have h2 : c.toNat ≤ 57 := h.2
  have hne : ∀ d : Char, (d.toNat < 48 ∨ 57 < d.toNat) → (c == d) = false := by
    intro d hd
    cases hcd : c == d with
    | false => rfl
    | true => have := eq_of_beq hcd; subst this; omega
  simp only [plain, isOpen, isClose, Bool.not_eq_true', Bool.or_eq_false_iff]
  have e3 := hne '(' (by decide); have e4 := hne ')' (by decide)
  have e5 := hne '[' (by decide); have e6 := hne ']' (by decide); have e7 := hne '{' (by decide); have e8 := hne '}' (by decide)
  have e9 := hne '<' (by decide); have e10 := hne '>' (by decide)
  simp [e3, e4, e5, e6, e7, e8, e9, e10]

theorem digitPart_plain (n : Nat) : ∀ (l : List Char) (ds : List Nat), l.length ≤ n → digitPart l = some ds → l.all plain = true := by
  induction n with
  | zero =>
    intro l ds hl h
    cases l with
    | nil => simp [digitPart] at h
    | cons _ _ => simp at hl
  | succ n ih =>
    intro l ds hl h
    cases l with
    | nil => simp [digitPart] at h
    | cons c rest =>
      cases rest with
      | nil =>
        simp only [digitPart] at h
        split at h
        · rename_i hc; simp [isDigit_plain c hc]
        · simp at h
      | cons d cs =>
        by_cases hd : d = '_'
        · subst hd
          simp only [digitPart] at h
          split at h
          · rename_i hc
            cases hdd : digitPart cs with
            | none => simp [hdd] at h
            | some dd =>
              have hp : plain '_' = true := by decide
              have := ih cs dd (by simp at hl; omega) hdd
              simp [isDigit_plain c hc, hp, this]
          · simp at h
        · rw [digitPart] at h
          · split at h
            · rename_i hc
              cases hdd : digitPart (d :: cs) with
              | none => simp [hdd] at h
              | some dd =>
                have := ih (d :: cs) dd (by simp at hl ⊢; omega) hdd
                simp only [List.all_cons, Bool.and_eq_true] at this ⊢
                exact ⟨isDigit_plain c hc, this⟩
            · simp at h
          · intro e; exact hd e

theorem digitPart_plain' (l : List Char) (ds : List Nat) (h : digitPart l = some ds) : l.all plain = true :=
  digitPart_plain l.length l ds (Nat.le_refl _) h

theorem pyInt_plain (l : List Char) (v : Int) (h : pyInt l = some v) : l.all plain = true := by
  unfold pyInt at h
  split at h
  · rename_i r
    cases hd : digitPart r with
    | none => simp [hd] at h
    | some ds => have hp : plain '-' = true := by decide
                 simp [hp, digitPart_plain' r ds hd]
  · rename_i r
    cases hd : digitPart r with
    | none => simp [hd] at h
    | some ds => have hp : plain '+' = true := by decide
                 simp [hp, digitPart_plain' r ds hd]
  · cases hd : digitPart l with
    | none => simp [hd] at h
    | some ds => exact digitPart_plain' l ds hd

theorem splitAtFirst_spec (p : Char → Bool) (l : List Char) :
    ((splitAtFirst p l).2 = none ∧ (splitAtFirst p l).1 = l) ∨
    (∃ c b, (splitAtFirst p l).2 = some b ∧ p c = true ∧ l = (splitAtFirst p l).1 ++ c :: b) := by
  induction l with
  | nil => left; simp [splitAtFirst]
  | cons c cs ih =>
    simp only [splitAtFirst]
    split
    · rename_i hc; right; exact ⟨c, cs, rfl, hc, by simp⟩
    · rcases ih with ⟨h1, h2⟩ | ⟨d, b, h1, h2, h3⟩
      · left; simp [h1, h2]
      · right; exact ⟨d, b, by simp [h1], h2, by simp; exact h3⟩

theorem pyFloat_plain (l : List Char) (v : Nat × Int) (h : pyFloat l = some v) : l.all plain = true := by
  unfold pyFloat at h
  simp only [] at h
  have hsplit := splitAtFirst_spec (fun c => c == 'e' || c == 'E') l
  generalize splitAtFirst (fun c => c == 'e' || c == 'E') l = ne at h hsplit
  obtain ⟨num, expo⟩ := ne
  simp only [] at h hsplit
  have hdot := splitAtFirst_spec (· == '.') num
  generalize splitAtFirst (· == '.') num = nd at h hdot
  obtain ⟨ip, fp⟩ := nd
  simp only [] at h hdot
  -- the mantissa is plain
  have hnum : num.all plain = true := by
    rcases hdot with ⟨h1, h2⟩ | ⟨c, b, h1, h2, h3⟩
    · subst h1; subst h2
      simp only [] at h
      cases hd : digitPart ip with
      | none => simp [hd] at h
      | some ds => exact digitPart_plain' _ ds hd
    · subst h1
      have hc : c = '.' := by simpa using h2
      subst hc
      rw [h3]
      have hp : plain '.' = true := by decide
      cases b with
      | nil =>
        simp only [] at h
        cases hd : digitPart ip with
        | none => simp [hd] at h
        | some ds => simp [hp, digitPart_plain' _ ds hd]
      | cons f fs =>
        cases ip with
        | nil =>
          simp only [] at h
          cases hd : digitPart (f :: fs) with
          | none => simp [hd] at h
          | some ds => have := digitPart_plain' _ ds hd; simp only [List.all_cons] at this; simp [hp, this]
        | cons i is =>
          simp only [] at h
          cases hd1 : digitPart (i :: is) with
          | none => simp [hd1] at h
          | some d1 =>
            cases hd2 : digitPart (f :: fs) with
            | none => simp [hd1, hd2] at h
            | some d2 =>
              have h1 := digitPart_plain' _ d1 hd1
              have h2 := digitPart_plain' _ d2 hd2
              simp only [List.all_append, List.all_cons] at h1 h2 ⊢
              simp [h1, h2, hp]
  rcases hsplit with ⟨h1, h2⟩ | ⟨c, b, h1, h2, h3⟩
  · subst h2; exact hnum
  · subst h1
    rw [h3]
    have hc : plain c = true := by
      simp only [Bool.or_eq_true, beq_iff_eq] at h2
      rcases h2 with rfl | rfl <;> decide
    have hb : b.all plain = true := by
      simp only [] at h
      cases hpi : pyInt b with
      | none =>
        rw [hpi] at h
        split at h <;> simp_all
      | some e => exact pyInt_plain b e hpi
    simp [hnum, hc, hb]

/-! ### reassembling the pieces of `partition_scope` and `partition` -/

theorem five_pieces (l : List Char) (i j : Nat) (hij : i + 1 ≤ j) :
    l = l.take i ++ ((l.drop i).take 1 ++ ((l.drop (i + 1)).take (j - (i + 1)) ++ ((l.drop j).take 1 ++ l.drop (j + 1)))) := by
  have e1 : l.drop j = (l.drop j).take 1 ++ l.drop (j + 1) := by
    rw [← List.drop_drop]; exact (List.take_append_drop 1 _).symm
  have e2 : l.drop (i + 1) = (l.drop (i + 1)).take (j - (i + 1)) ++ l.drop j := by
    have : l.drop j = (l.drop (i + 1)).drop (j - (i + 1)) := by rw [List.drop_drop]; congr 1; omega
    rw [this]; exact (List.take_append_drop _ _).symm
  have e3 : l.drop i = (l.drop i).take 1 ++ l.drop (i + 1) := by
    rw [← List.drop_drop]; exact (List.take_append_drop 1 _).symm
  conv => lhs; rw [← List.take_append_drop i l, e3, e2, e1]

theorem find_opening_char (l : List Char) (h : (find [.opening] l).offset < l.length) :
    ∃ o rest, l.drop (find [.opening] l).offset = o :: rest ∧ isOpen o = true := by
  unfold find at h ⊢
  split
  · rename_i im off n hg
    obtain ⟨k, hk, m, hm1, hm2⟩ := findGo_match [.opening] l 0 0 im off n hg
    have hn := findGo_nonzero _ _ _ _ _ _ _ hg
    simp only [List.mem_singleton] at hm1
    subst hm1
    simp only [Nat.zero_add] at hk; subst hk
    simp only [Matcher.run] at hm2
    cases hd : l.drop off with
    | nil => rw [hd] at hm2; simp at hm2; exact absurd hm2 hn
    | cons o rest =>
      rw [hd] at hm2
      refine ⟨o, rest, rfl, ?_⟩
      cases ho : isOpen o with
      | true => rfl
      | false => simp only [ho] at hm2; simp at hm2; exact absurd hm2 hn
  · rename_i hg
    rw [hg] at h
    simp at h

theorem find_closing_after_open (o : Char) (rest : List Char) (ho : isOpen o = true) :
    1 ≤ (find [.closing] (o :: rest)).offset := by
  have hoc : isClose o = false := by
    cases h : isClose o with
    | false => rfl
    | true => rw [open_close_excl o h] at ho; simp at ho
  unfold find
  split
  · rename_i im off n hg
    rw [findGo_cons] at hg
    have : (if lvlClose o 0 = 0 then firstMatch [.closing] (o :: rest) 0 else none) = none := by
      simp [lvlClose, hoc, firstMatch, Matcher.run]
    rw [this] at hg
    simp only [] at hg
    have := findGo_bound _ _ _ _ _ hg
    simp at this ⊢; omega
  · simp

/-- the pieces of `partition_scope` put together again -/
theorem partitionScope_pieces (s : Sub) :
    (s.partitionScope.sOpen.chars = [] ∧ s.partitionScope.head.chars = s.chars) ∨
    (∃ o, isOpen o = true ∧ s.partitionScope.sOpen.chars = [o] ∧
      s.chars = s.partitionScope.head.chars ++ (o :: (s.partitionScope.scope.chars ++ (s.partitionScope.sClose.chars ++ s.partitionScope.tail.chars)))) := by
  by_cases h : s.openAt < s.chars.length
  · right
    obtain ⟨o, rest, hd, ho⟩ := find_opening_char s.chars h
    have hj : s.openAt + 1 ≤ s.closeAt := by
      have := find_closing_after_open o rest ho
      simp only [Sub.closeAt, Sub.openAt] at this ⊢
      rw [hd]; omega
    have hp := five_pieces s.chars s.openAt s.closeAt hj
    have h1 : (s.chars.drop s.openAt).take 1 = [o] := by
      simp only [Sub.openAt]; rw [hd]; rfl
    refine ⟨o, ho, ?_, ?_⟩
    · simp only [Sub.partitionScope, Sub.slice]
      rw [show s.openAt + 1 - s.openAt = 1 by omega]; exact h1
    · simp only [Sub.partitionScope, Sub.slice, Sub.takeN, Sub.dropN]
      rw [show s.closeAt + 1 - s.closeAt = 1 by omega]
      rw [h1] at hp
      simpa using hp
  · left
    have hge : s.chars.length ≤ s.openAt := by omega
    constructor
    · simp only [Sub.partitionScope, Sub.slice]
      rw [List.drop_eq_nil_of_le hge]; simp
    · simp only [Sub.partitionScope, Sub.takeN]
      exact List.take_of_length_le hge

theorem partition_pieces (s : Sub) (ms : List Matcher) (hms : ∀ m ∈ ms, m.plainMatch = true) :
    ∃ mid, mid.all plain = true ∧ s.chars = (s.partition ms).1.chars ++ (mid ++ (s.partition ms).2.2.chars) := by
  refine ⟨(s.chars.drop (find ms s.chars).offset).take (find ms s.chars).length, find_matched_plain ms hms s.chars, ?_⟩
  simp only [Sub.partition, Sub.takeN, Sub.dropN]
  rw [← List.drop_drop, List.take_append_drop, List.take_append_drop]

/-! ### the parser functions -/

/-- names of the context contain no brackets -/
def Ctx.plainNames (Γ : Ctx) : Prop := (∀ p ∈ Γ.vars, p.1.all plain = true) ∧ (∀ p ∈ Γ.fns, p.1.all plain = true)

theorem lookup_plain (l : List (Name × List Nat)) (hl : ∀ p ∈ l, p.1.all plain = true) (n : Name) (sh : List Nat)
    (h : (l.find? (·.1 == n)).map (·.2) = some sh) : n.all plain = true := by
  cases hf : l.find? (·.1 == n) with
  | none => simp [hf] at h
  | some p =>
    have hm := List.mem_of_find?_eq_some hf
    have he := List.find?_some hf
    simp only [beq_iff_eq] at he
    rw [← he]; exact hl p hm

/-- digits and lower-case letters: the characters `genIndicesGo` accepts -/
def isIdxCh (c : Char) : Bool := isDigit c || ('a' ≤ c && c ≤ 'z')

theorem idxChar_plain (c : Char) (h : isIdxCh c = true) : plain c = true := by
  simp only [isIdxCh, Bool.or_eq_true] at h
  rcases h with h | h
  · exact isDigit_plain c h
  · simp only [Bool.and_eq_true, decide_eq_true_eq] at h
    have h1 : 97 ≤ c.toNat := h.1
    have h2 : c.toNat ≤ 122 := h.2
    have hne : ∀ d : Char, (d.toNat < 97 ∨ 122 < d.toNat) → (c == d) = false := by
      intro d hd
      cases hcd : c == d with
      | false => rfl
      | true => have := eq_of_beq hcd; subst this; omega
    simp only [plain, isOpen, isClose, Bool.not_eq_true', Bool.or_eq_false_iff]
    have e3 := hne '(' (by decide); have e4 := hne ')' (by decide)
    have e5 := hne '[' (by decide); have e6 := hne ']' (by decide); have e7 := hne '{' (by decide); have e8 := hne '}' (by decide)
    have e9 := hne '<' (by decide); have e10 := hne '>' (by decide)
    simp [e3, e4, e5, e6, e7, e8, e9, e10]

theorem genIndicesGo_plain (cs : List Char) : ∀ (ops : Ops) (shape : List Nat) (indices : List Char) (st : Nat) (r : Ops × List Nat × List Char),
    genIndicesGo ops shape indices ⟨st, cs⟩ = .ok r → cs.all plain = true := by
  induction cs with
  | nil => intros; rfl
  | cons c cs ih =>
    intro ops shape indices st r h
    simp only [genIndicesGo] at h
    split at h
    · rename_i hc
      split at h
      · simp [fail] at h
      · simp only [List.all_cons, isDigit_plain c hc, Bool.true_and]; exact ih _ _ _ _ _ h
    · split at h
      · rename_i hnd hc
        have : isIdxCh c = true := by simp [isIdxCh, hc]
        simp only [List.all_cons, idxChar_plain c this, Bool.true_and]; exact ih _ _ _ _ _ h
      · simp [fail] at h

theorem parseUnsignedInt_bal (t : Sub) (r : Res) (h : parseUnsignedInt t = .ok r) : Bal t.chars := by
  apply Bal.of_trim
  unfold parseUnsignedInt at h
  cases hp : pyInt t.trim.chars with
  | none => simp [hp, fail] at h
  | some v => exact Bal.of_plain _ (pyInt_plain _ v hp)

theorem parseUnsignedFloat_bal (t : Sub) (r : Res) (h : parseUnsignedFloat t = .ok r) : Bal t.chars := by
  apply Bal.of_trim
  unfold parseUnsignedFloat at h
  cases hp : pyFloat t.trim.chars with
  | none => simp [hp, fail] at h
  | some v => exact Bal.of_plain _ (pyFloat_plain _ v hp)

theorem parseSignedInt_bal (t : Sub) (r : Res) (h : parseSignedInt t = .ok r) : Bal t.chars := by
  apply Bal.of_trim
  unfold parseSignedInt at h
  cases hp : pyInt t.trim.chars with
  | none => simp [hp, fail] at h
  | some v => exact Bal.of_plain _ (pyInt_plain _ v hp)

theorem closerOf_isClose (o : List Char) (c : List Char) (h : closerOf o = c) : ∃ d, c = [d] ∧ isClose d = true := by
  unfold closerOf at h
  split at h
  · exact ⟨')', h.symm, by decide⟩
  · split at h
    · exact ⟨']', h.symm, by decide⟩
    · split at h
      · exact ⟨'}', h.symm, by decide⟩
      · exact ⟨'>', h.symm, by decide⟩

theorem itemBody_bal (Γ : Ctx) (hΓ : Γ.plainNames) (rec : Rec) (hrec : ∀ t r, rec t = .ok r → Bal t.chars)
    (s : Sub) (a : Bool) (r : Res) (h : itemBody Γ rec s a = .ok r) : Bal s.chars := by
  apply Bal.of_trim
  unfold itemBody at h
  simp only [] at h
  split at h
  · simp at h
  · split at h
    · split at h
      · simp [fail] at h
      · split at h
        · rename_i r' hr; exact parseUnsignedInt_bal _ _ hr
        · split at h
          · rename_i r' hr; exact parseUnsignedFloat_bal _ _ hr
          · simp at h
    · split at h
      · simp [fail2] at h
      · rename_i hunclosed
        split at h
        · simp [fail2] at h
        · rename_i hcloser
          split at h
          · simp [fail] at h
          · rename_i htail
            have htl : s.trim.partitionScope.tail.chars = [] := by
              simpa [Sub.isEmpty] using htail
            rcases partitionScope_pieces s.trim with ⟨hso, hhead⟩ | ⟨o, ho, hso, hpieces⟩
            · -- no scope: a variable
              have hemp : s.trim.partitionScope.sOpen.isEmpty = true := by simp [Sub.isEmpty, hso]
              split at h
              · obtain ⟨b, hb, h⟩ := bind_ok h
                obtain ⟨g, hg, _⟩ := bind_ok h
                try simp only [hemp, if_true] at hb
                obtain ⟨mid, hmid, hparts⟩ := partition_pieces s.trim.partitionScope.head [.lit ['_']] (by
                  intro m hm; simp only [List.mem_singleton] at hm; subst hm; decide)
                rw [← hhead, hparts]
                have hname : (s.trim.partitionScope.head.partition [.lit ['_']]).1.chars.all plain = true := by
                  split at hb
                  · simp [fail] at hb
                  · rename_i shape hl
                    exact lookup_plain Γ.vars hΓ.1 _ shape hl
                have hgen := genIndicesGo_plain _ _ _ _ _ _ hg
                exact (Bal.of_plain _ hname).append ((Bal.of_plain _ hmid).append (Bal.of_plain _ hgen))
              · rw [hso] at h
                have e1 : (([] : List Char) == ['(']) = false := rfl
                have e2 : (([] : List Char) == ['[']) = false := rfl
                have e3 : (([] : List Char) == ['{']) = false := rfl
                simp only [e1, e2, e3, Bool.false_eq_true, if_false] at h
                cases h
            · -- a scope
              have hne : s.trim.partitionScope.sOpen.isEmpty = false := by simp [Sub.isEmpty, hso]
              have hcl : closerOf s.trim.partitionScope.sOpen.chars = s.trim.partitionScope.sClose.chars := by
                simpa [hne] using hcloser
              obtain ⟨d, hd, hdc⟩ := closerOf_isClose _ _ hcl
              rw [hpieces, hd, htl]
              -- the scope itself is balanced because `rec` accepted it
              have hscope : Bal s.trim.partitionScope.scope.chars := by
                split at h
                · obtain ⟨b, hb, _⟩ := bind_ok h
                  try simp only [hne, Bool.false_eq_true, if_false] at hb
                  split at hb
                  · obtain ⟨arg, harg, _⟩ := bind_ok hb
                    exact hrec _ _ harg
                  · simp at hb
                · split at h
                  · obtain ⟨r', hr', _⟩ := bind_ok h; exact hrec _ _ hr'
                  · split at h
                    · obtain ⟨r', hr', _⟩ := bind_ok h; exact hrec _ _ hr'
                    · split at h
                      · obtain ⟨r', hr', _⟩ := bind_ok h; exact hrec _ _ hr'
                      · simp at h
              have hhead : Bal s.trim.partitionScope.head.chars := by
                split at h
                · obtain ⟨b, hb, h⟩ := bind_ok h
                  obtain ⟨g, hg, _⟩ := bind_ok h
                  try simp only [hne, Bool.false_eq_true, if_false] at hb
                  obtain ⟨mid, hmid, hparts⟩ := partition_pieces s.trim.partitionScope.head [.lit ['_']] (by
                    intro m hm; simp only [List.mem_singleton] at hm; subst hm; decide)
                  rw [hparts]
                  have hname : (s.trim.partitionScope.head.partition [.lit ['_']]).1.chars.all plain = true := by
                    split at hb
                    · obtain ⟨arg, _, hb⟩ := bind_ok hb
                      split at hb
                      · simp [fail] at hb
                      · rename_i gen hl
                        exact lookup_plain Γ.fns hΓ.2 _ gen hl
                    · simp at hb
                  have hgen := genIndicesGo_plain _ _ _ _ _ _ hg
                  exact (Bal.of_plain _ hname).append ((Bal.of_plain _ hmid).append (Bal.of_plain _ hgen))
                · rename_i hh
                  have : s.trim.partitionScope.head.chars = [] := by simpa [Sub.isEmpty] using hh
                  rw [this]; exact Bal.nil
              have := Bal.bracket ho hdc hscope
              simpa using hhead.append this

theorem mem_two {α : Type} {a b x : α} (h : x ∈ [a, b]) : x = a ∨ x = b := by
  simp only [List.mem_cons, List.not_mem_nil, or_false] at h; exact h

theorem powerBody_bal (Γ : Ctx) (hΓ : Γ.plainNames) (rec : Rec) (hrec : ∀ t r, rec t = .ok r → Bal t.chars)
    (s : Sub) (a : Bool) (r : Res) (h : powerBody Γ rec s a = .ok r) : Bal s.chars := by
  apply Bal.of_trim
  unfold powerBody at h
  simp only [] at h
  have hsplit := splitL_bal [.lit ['^']] (by intro m hm; simp only [List.mem_singleton] at hm; subst hm; decide) s.trim.start s.trim.chars
  simp only [Sub.split] at h
  generalize splitL [.lit ['^']] s.trim.start s.trim.chars = parts at h hsplit
  split at h
  · rename_i b
    apply hsplit
    intro p hp; simp only [List.mem_singleton] at hp; subst hp
    exact itemBody_bal Γ hΓ rec hrec _ a r h
  · rename_i b e
    split at h
    · simp [fail] at h
    · split at h
      · simp [fail] at h
      · obtain ⟨base, hbase, h⟩ := bind_ok h
        obtain ⟨ex, hex, _⟩ := bind_ok h
        apply hsplit
        intro p hp
        rcases mem_two hp with rfl | rfl
        · exact itemBody_bal Γ hΓ rec hrec _ a base hbase
        · -- the exponent: a scope `( ... )` or a signed int
          split at hex
          · rename_i hcond
            simp only [Bool.and_eq_true, beq_iff_eq, Sub.isEmpty, List.isEmpty_iff] at hcond
            obtain ⟨⟨⟨hh, ht⟩, ho⟩, hc⟩ := hcond
            rcases partitionScope_pieces p with ⟨hso, _⟩ | ⟨o, hoo, hso, hpieces⟩
            · rw [hso] at ho; simp at ho
            · rw [hpieces, hh, ht, hc]
              have := Bal.bracket hoo (by decide : isClose ')' = true) (hrec _ _ hex)
              simpa using this
          · split at hex
            · split at hex
              · exact parseSignedInt_bal _ _ hex
              · simp [fail] at hex
            · simp [fail] at hex
  · simp [fail] at h

theorem mapMIdx_all_ok {α β : Type} (f : Nat → α → P β) (l : List α) : ∀ (k : Nat) (out : List β),
    mapMIdx f l k = .ok out → ∀ a ∈ l, ∃ i b, f i a = .ok b := by
  induction l with
  | nil => intro k out _ a ha; simp at ha
  | cons x xs ih =>
    intro k out h a ha
    simp only [mapMIdx] at h
    obtain ⟨y, hy, h⟩ := bind_ok h
    obtain ⟨ys, hys, _⟩ := bind_ok h
    rcases List.mem_cons.mp ha with rfl | ha
    · exact ⟨k, y, hy⟩
    · exact ih _ _ hys a ha

theorem termBody_bal (Γ : Ctx) (hΓ : Γ.plainNames) (rec : Rec) (hrec : ∀ t r, rec t = .ok r → Bal t.chars)
    (s : Sub) (r : Res) (h : termBody Γ rec s = .ok r) : Bal s.chars := by
  unfold termBody at h
  simp only [] at h
  split at h
  · exact powerBody_bal Γ hΓ rec hrec s true r h
  · apply Bal.of_trim
    obtain ⟨parts, hparts, _⟩ := bind_ok h
    apply splitL_bal [.spaces] (by intro m hm; simp only [List.mem_singleton] at hm; subst hm; rfl) s.trim.start
    intro p hp
    obtain ⟨i, b, hb⟩ := mapMIdx_all_ok _ _ _ _ hparts p hp
    exact powerBody_bal Γ hΓ rec hrec p _ b hb

theorem fractionBody_bal (Γ : Ctx) (hΓ : Γ.plainNames) (rec : Rec) (hrec : ∀ t r, rec t = .ok r → Bal t.chars)
    (s : Sub) (r : Res) (h : fractionBody Γ rec s = .ok r) : Bal s.chars := by
  unfold fractionBody at h
  have hsplit := splitL_bal slash (by intro m hm; simp only [slash, List.mem_singleton] at hm; subst hm; decide) s.start s.chars
  simp only [Sub.split] at h
  generalize splitL slash s.start s.chars = parts at h hsplit
  split at h
  · rename_i n
    apply hsplit
    intro p hp; simp only [List.mem_singleton] at hp; subst hp
    exact termBody_bal Γ hΓ rec hrec _ r h
  · rename_i n d
    obtain ⟨num, hnum, h⟩ := bind_ok h
    obtain ⟨den, hden, _⟩ := bind_ok h
    apply hsplit
    intro p hp
    rcases mem_two hp with rfl | rfl
    · exact termBody_bal Γ hΓ rec hrec _ num hnum
    · exact termBody_bal Γ hΓ rec hrec _ den hden
  · simp [fail] at h

theorem exprBody_bal (Γ : Ctx) (hΓ : Γ.plainNames) (rec : Rec) (hrec : ∀ t r, rec t = .ok r → Bal t.chars)
    (s : Sub) (r : Res) (h : exprBody Γ rec s = .ok r) : Bal s.chars := by
  unfold exprBody at h
  simp only [] at h
  obtain ⟨un, hun, _⟩ := bind_ok h
  have htail : Bal ((stripMinus s).getD s).chars := by
    apply isplitL_bal plusMinus (by
      intro m hm; simp only [plusMinus, List.mem_cons, List.not_mem_nil, or_false] at hm
      rcases hm with rfl | rfl <;> decide) _ ((stripMinus s).getD s).start
    intro p hp
    obtain ⟨i, b, hb⟩ := mapMIdx_all_ok _ _ _ _ hun p hp
    obtain ⟨r', hr', _⟩ := bind_ok hb
    exact fractionBody_bal Γ hΓ rec hrec _ r' hr'
  unfold stripMinus at htail
  split at htail
  · rename_i hcond
    simp only [Option.getD_some, Sub.dropN] at htail
    simp only [Bool.and_eq_true, Sub.startsWith] at hcond
    apply Bal.of_trimStart
    cases hc : s.trimStart.chars with
    | nil => rw [hc] at hcond; simp [List.isPrefixOf] at hcond
    | cons c cs =>
      rw [hc] at hcond htail
      simp only [List.isPrefixOf, Bool.and_true, beq_iff_eq] at hcond
      have : c = '-' := hcond.1.symm
      subst this
      simp only [List.drop_succ_cons, List.drop_zero] at htail
      exact Bal.plain_cons (by decide) htail
  · simpa using htail

/-- **every accepted string has balanced brackets** -/
theorem parseExprB_bal (Γ : Ctx) (hΓ : Γ.plainNames) (base : Rec) (hbase : ∀ t r, base t = .ok r → Bal t.chars) :
    ∀ (n : Nat) (s : Sub) (r : Res), parseExprB Γ base n s = .ok r → Bal s.chars := by
  intro n
  induction n with
  | zero => intro s r h; exact hbase s r h
  | succ n ih => intro s r h; exact exprBody_bal Γ hΓ _ (fun t r' h' => ih t r' h') s r h

end NutilsVerif.C19
