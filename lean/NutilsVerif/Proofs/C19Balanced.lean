import NutilsVerif.Proofs.C19Scan
import NutilsVerif.Proofs.C19WF
/-!
# C19 — every accepted string has balanced brackets (for all strings)
-/
namespace NutilsVerif.C19

def Matcher.plainMatch : Matcher → Bool
  | .lit p => p.all plain
  | .spaces => true
  | _ => false

theorem isPrefixOf_take (p tl : List Char) (h : p.isPrefixOf tl = true) : tl.take p.length = p := by
  induction p generalizing tl with
  | nil => simp
  | cons a p ih =>
    cases tl with
    | nil => simp [List.isPrefixOf] at h
    | cons b tl =>
      simp only [List.isPrefixOf, Bool.and_eq_true, beq_iff_eq] at h
      simp [h.1, ih tl h.2]

theorem take_takeWhile_length (tl : List Char) (q : Char → Bool) : tl.take (tl.takeWhile q).length = tl.takeWhile q := by
  induction tl with
  | nil => rfl
  | cons c cs ih =>
    simp only [List.takeWhile]
    split
    · simp [ih]
    · simp

theorem takeWhile_space_plain (tl : List Char) : (tl.takeWhile (· == ' ')).all plain = true := by
  induction tl with
  | nil => rfl
  | cons c cs ih =>
    simp only [List.takeWhile]
    split
    · rename_i hc; simp only [beq_iff_eq] at hc; subst hc
      have hp : plain ' ' = true := by decide
      simp only [List.all_cons, hp, Bool.true_and]; exact ih
    · rfl

theorem run_take_plain (m : Matcher) (tl : List Char) (h : m.plainMatch = true) : (tl.take (m.run tl)).all plain = true := by
  cases m with
  | lit p =>
    simp only [Matcher.plainMatch] at h
    simp only [Matcher.run]
    split
    · rename_i hp; rw [isPrefixOf_take p tl hp]; exact h
    · simp
  | spaces =>
    simp only [Matcher.run]
    rw [take_takeWhile_length]; exact takeWhile_space_plain tl
  | opening => simp [Matcher.plainMatch] at h
  | closing => simp [Matcher.plainMatch] at h

theorem firstMatch_spec (ms : List Matcher) (tl : List Char) : ∀ k im n, firstMatch ms tl k = some (im, n) →
    ∃ m ∈ ms, n = m.run tl := by
  induction ms with
  | nil => intro k im n h; simp [firstMatch] at h
  | cons m ms ih =>
    intro k im n h
    simp only [firstMatch] at h
    split at h
    · simp only [Option.some.injEq, Prod.mk.injEq] at h; exact ⟨m, List.mem_cons_self, h.2.symm⟩
    · obtain ⟨m', hm', hn⟩ := ih _ _ _ h
      exact ⟨m', List.mem_cons_of_mem _ hm', hn⟩

theorem firstMatch_nonzero (ms : List Matcher) (tl : List Char) : ∀ k im n, firstMatch ms tl k = some (im, n) → n ≠ 0 := by
  induction ms with
  | nil => intro k im n h; simp [firstMatch] at h
  | cons m ms ih =>
    intro k im n h
    simp only [firstMatch] at h
    split at h
    · rename_i hne; simp only [Option.some.injEq, Prod.mk.injEq] at h; rw [← h.2]; exact hne
    · exact ih _ _ _ h

theorem findGo_nonzero (ms : List Matcher) (l : List Char) : ∀ (lvl : Int) (off : Nat) (im o n : Nat),
    findGo ms l lvl off = some (im, o, n) → n ≠ 0 := by
  induction l with
  | nil => intro lvl off im o n h; simp [findGo] at h
  | cons c cs ih =>
    intro lvl off im o n h
    rw [findGo_cons] at h
    split at h
    · rename_i im' n' hm
      simp only [Option.some.injEq, Prod.mk.injEq] at h
      obtain ⟨_, _, rfl⟩ := h
      split at hm
      · exact firstMatch_nonzero ms _ _ _ _ hm
      · simp at hm
    · exact ih _ _ _ _ _ h

theorem find_length_zero (ms : List Matcher) (l : List Char) (h : (find ms l).length = 0) : (find ms l).offset = l.length := by
  unfold find at h ⊢
  split
  · rename_i im off n hg
    rw [hg] at h
    exact absurd h (findGo_nonzero ms l 0 0 im off n hg)
  · rfl

theorem findGo_match (ms : List Matcher) (l : List Char) : ∀ (lvl : Int) (off : Nat) (im o n : Nat),
    findGo ms l lvl off = some (im, o, n) → ∃ k, o = off + k ∧ ∃ m ∈ ms, n = m.run (l.drop k) := by
  induction l with
  | nil => intro lvl off im o n h; simp [findGo] at h
  | cons c cs ih =>
    intro lvl off im o n h
    rw [findGo_cons] at h
    split at h
    · rename_i im' n' hm
      simp only [Option.some.injEq, Prod.mk.injEq] at h
      obtain ⟨_, rfl, rfl⟩ := h
      split at hm
      · obtain ⟨m, hm1, hm2⟩ := firstMatch_spec ms _ _ _ _ hm
        exact ⟨0, by simp, m, hm1, by simpa using hm2⟩
      · simp at hm
    · obtain ⟨k, hk, m, hm1, hm2⟩ := ih _ _ _ _ _ h
      exact ⟨k + 1, by omega, m, hm1, by simpa using hm2⟩

/-- the text matched by `find` consists of plain characters when all matchers are plain -/
theorem find_matched_plain (ms : List Matcher) (hms : ∀ m ∈ ms, m.plainMatch = true) (l : List Char) :
    ((l.drop (find ms l).offset).take (find ms l).length).all plain = true := by
  unfold find
  split
  · rename_i im off n h
    obtain ⟨k, hk, m, hm1, hm2⟩ := findGo_match ms l 0 0 im off n h
    simp only [Nat.zero_add] at hk
    subst hk; subst hm2
    exact run_take_plain m _ (hms m hm1)
  · simp

theorem Bal.of_split3 (l : List Char) (a b : Nat) (h1 : Bal (l.take a)) (h2 : ((l.drop a).take b).all plain = true)
    (h3 : Bal (l.drop (a + b))) : Bal l := by
  have : l = l.take a ++ ((l.drop a).take b ++ l.drop (a + b)) := by
    rw [← List.drop_drop, List.take_append_drop, List.take_append_drop]
  rw [this]
  exact h1.append ((Bal.of_plain _ h2).append h3)

theorem splitL_bal (ms : List Matcher) (hms : ∀ m ∈ ms, m.plainMatch = true) (start : Nat) (l : List Char) :
    (∀ p ∈ splitL ms start l, Bal p.chars) → Bal l := by
  induction start, l using splitL.induct ms with
  | case1 start l h =>
    intro hp
    rw [splitL] at hp; simp only [h, dite_true, List.mem_singleton, forall_eq] at hp
    rw [find_length_zero ms l h, List.take_length] at hp
    exact hp
  | case2 start l h ih =>
    intro hp
    rw [splitL] at hp; simp only [h, dite_false, List.mem_cons, forall_eq_or_imp] at hp
    exact Bal.of_split3 l _ _ hp.1 (find_matched_plain ms hms l) (ih hp.2)

theorem isplitL_bal (ms : List Matcher) (hms : ∀ m ∈ ms, m.plainMatch = true) (first : Option Nat) (start : Nat) (l : List Char) :
    (∀ p ∈ isplitL ms first start l, Bal p.2.chars) → Bal l := by
  induction first, start, l using isplitL.induct ms with
  | case1 first start l h =>
    intro hp
    rw [isplitL] at hp; simp only [h, dite_true, List.mem_singleton, forall_eq] at hp
    rw [find_length_zero ms l h, List.take_length] at hp
    exact hp
  | case2 first start l h ih =>
    intro hp
    rw [isplitL] at hp; simp only [h, dite_false, List.mem_cons, forall_eq_or_imp] at hp
    exact Bal.of_split3 l _ _ hp.1 (find_matched_plain ms hms l) (ih hp.2)

theorem plain_spaces (l : List Char) (h : ∀ c ∈ l, c = ' ') : l.all plain = true := by
  rw [List.all_eq_true]; intro c hc; rw [h c hc]; decide

theorem Bal.of_trimStart (s : Sub) (h : Bal s.trimStart.chars) : Bal s.chars := by
  simp only [Sub.trimStart] at h
  have : s.chars = s.chars.takeWhile (· == ' ') ++ s.chars.drop (s.chars.takeWhile (· == ' ')).length := by
    conv => lhs; rw [← List.take_append_drop (s.chars.takeWhile (· == ' ')).length s.chars, take_takeWhile_length]
  rw [this]
  exact (Bal.of_plain _ (takeWhile_space_plain _)).append h

theorem Bal.of_trimEnd (s : Sub) (h : Bal s.trimEnd.chars) : Bal s.chars := by
  simp only [Sub.trimEnd, Sub.len] at h
  have hk : (s.chars.reverse.takeWhile (· == ' ')).length ≤ s.chars.length := by
    have h1 := take_takeWhile_length s.chars.reverse (· == ' ')
    have h2 := congrArg List.length h1
    simp only [List.length_take, List.length_reverse] at h2
    omega
  have hd : s.chars.drop (s.chars.length - (s.chars.reverse.takeWhile (· == ' ')).length) = (s.chars.reverse.takeWhile (· == ' ')).reverse := by
    rw [← take_takeWhile_length s.chars.reverse, List.reverse_take]; simp [Nat.min_eq_left hk]
  have : s.chars = s.chars.take (s.chars.length - (s.chars.reverse.takeWhile (· == ' ')).length) ++ (s.chars.reverse.takeWhile (· == ' ')).reverse := by
    rw [← hd, List.take_append_drop]
  rw [this]
  refine h.append (Bal.of_plain _ ?_)
  rw [List.all_reverse]; exact takeWhile_space_plain _

theorem Bal.of_trim (s : Sub) (h : Bal s.trim.chars) : Bal s.chars :=
  Bal.of_trimEnd s (Bal.of_trimStart s.trimEnd h)

/-! ### number literals consist of plain characters -/

theorem isDigit_plain (c : Char) (h : isDigit c = true) : plain c = true := by
  simp only [isDigit, Bool.and_eq_true, decide_eq_true_eq] at h
  have h1 : 48 ≤ c.toNat := h.1
  have h2 : c.toNat ≤ 57 := h.2
  have hne : ∀ d : Char, (d.toNat < 48 ∨ 57 < d.toNat) → (c == d) = false := by
    intro d hd
    cases hcd : c == d with
    | false => rfl
    | true => have := eq_of_beq hcd; subst this; omega
  simp only [plain, isOpen, isClose, Bool.not_eq_true', Bool.or_eq_false_iff]
  have e3 := hne '(' (by decide); have e4 := hne ')' (by decide)
  have e5 := hne '[' (by decide); have e6 := hne ']' (by decide); have e7 := hne '{' (by decide); have e8 := hne '}' (by decide)
  have e9 := hne '<' (by decide); have e10 := hne '>' (by decide)
  simp [e3, e4, e5, e6, e7, e8, e9, e10]

theorem digitPart_plain (n : Nat) : ∀ (l : List Char) (ds : List Nat), l.length ≤ n → digitPart l = some ds → l.all plain = true := by
  induction n with
  | zero =>
    intro l ds hl h
    cases l with
    | nil => simp [digitPart] at h
    | cons _ _ => simp at hl
  | succ n ih =>
    intro l ds hl h
    cases l with
    | nil => simp [digitPart] at h
    | cons c rest =>
      cases rest with
      | nil =>
        simp only [digitPart] at h
        split at h
        · rename_i hc; simp [isDigit_plain c hc]
        · simp at h
      | cons d cs =>
        by_cases hd : d = '_'
        · subst hd
          simp only [digitPart] at h
          split at h
          · rename_i hc
            cases hdd : digitPart cs with
            | none => simp [hdd] at h
            | some dd =>
              have hp : plain '_' = true := by decide
              have := ih cs dd (by simp at hl; omega) hdd
              simp [isDigit_plain c hc, hp, this]
          · simp at h
        · rw [digitPart] at h
          · split at h
            · rename_i hc
              cases hdd : digitPart (d :: cs) with
              | none => simp [hdd] at h
              | some dd =>
                have := ih (d :: cs) dd (by simp at hl ⊢; omega) hdd
                simp only [List.all_cons, Bool.and_eq_true] at this ⊢
                exact ⟨isDigit_plain c hc, this⟩
            · simp at h
          · intro e; exact hd e

theorem digitPart_plain' (l : List Char) (ds : List Nat) (h : digitPart l = some ds) : l.all plain = true :=
  digitPart_plain l.length l ds (Nat.le_refl _) h

theorem pyInt_plain (l : List Char) (v : Int) (h : pyInt l = some v) : l.all plain = true := by
  unfold pyInt at h
  split at h
  · rename_i r
    cases hd : digitPart r with
    | none => simp [hd] at h
    | some ds => have hp : plain '-' = true := by decide
                 simp [hp, digitPart_plain' r ds hd]
  · rename_i r
    cases hd : digitPart r with
    | none => simp [hd] at h
    | some ds => have hp : plain '+' = true := by decide
                 simp [hp, digitPart_plain' r ds hd]
  · cases hd : digitPart l with
    | none => simp [hd] at h
    | some ds => exact digitPart_plain' l ds hd

theorem splitAtFirst_spec (p : Char → Bool) (l : List Char) :
    ((splitAtFirst p l).2 = none ∧ (splitAtFirst p l).1 = l) ∨
    (∃ c b, (splitAtFirst p l).2 = some b ∧ p c = true ∧ l = (splitAtFirst p l).1 ++ c :: b) := by
  induction l with
  | nil => left; simp [splitAtFirst]
  | cons c cs ih =>
    simp only [splitAtFirst]
    split
    · rename_i hc; right; exact ⟨c, cs, rfl, hc, by simp⟩
    · rcases ih with ⟨h1, h2⟩ | ⟨d, b, h1, h2, h3⟩
      · left; simp [h1, h2]
      · right; exact ⟨d, b, by simp [h1], h2, by simp; exact h3⟩

theorem pyFloat_plain (l : List Char) (v : Nat × Int) (h : pyFloat l = some v) : l.all plain = true := by
  unfold pyFloat at h
  simp only [] at h
  have hsplit := splitAtFirst_spec (fun c => c == 'e' || c == 'E') l
  generalize splitAtFirst (fun c => c == 'e' || c == 'E') l = ne at h hsplit
  obtain ⟨num, expo⟩ := ne
  simp only [] at h hsplit
  have hdot := splitAtFirst_spec (· == '.') num
  generalize splitAtFirst (· == '.') num = nd at h hdot
  obtain ⟨ip, fp⟩ := nd
  simp only [] at h hdot
  -- the mantissa is plain
  have hnum : num.all plain = true := by
    rcases hdot with ⟨h1, h2⟩ | ⟨c, b, h1, h2, h3⟩
    · subst h1; subst h2
      simp only [] at h
      cases hd : digitPart ip with
      | none => simp [hd] at h
      | some ds => exact digitPart_plain' _ ds hd
    · subst h1
      have hc : c = '.' := by simpa using h2
      subst hc
      rw [h3]
      have hp : plain '.' = true := by decide
      cases b with
      | nil =>
        simp only [] at h
        cases hd : digitPart ip with
        | none => simp [hd] at h
        | some ds => simp [hp, digitPart_plain' _ ds hd]
      | cons f fs =>
        cases ip with
        | nil =>
          simp only [] at h
          cases hd : digitPart (f :: fs) with
          | none => simp [hd] at h
          | some ds => have := digitPart_plain' _ ds hd; simp only [List.all_cons] at this; simp [hp, this]
        | cons i is =>
          simp only [] at h
          cases hd1 : digitPart (i :: is) with
          | none => simp [hd1] at h
          | some d1 =>
            cases hd2 : digitPart (f :: fs) with
            | none => simp [hd1, hd2] at h
            | some d2 =>
              have h1 := digitPart_plain' _ d1 hd1
              have h2 := digitPart_plain' _ d2 hd2
              simp only [List.all_append, List.all_cons] at h1 h2 ⊢
              simp [h1, h2, hp]
  rcases hsplit with ⟨h1, h2⟩ | ⟨c, b, h1, h2, h3⟩
  · subst h2; exact hnum
  · subst h1
    rw [h3]
    have hc : plain c = true := by
      simp only [Bool.or_eq_true, beq_iff_eq] at h2
      rcases h2 with rfl | rfl <;> decide
    have hb : b.all plain = true := by
      simp only [] at h
      cases hpi : pyInt b with
      | none =>
        rw [hpi] at h
        split at h <;> simp_all
      | some e => exact pyInt_plain b e hpi
    simp [hnum, hc, hb]

end NutilsVerif.C19
