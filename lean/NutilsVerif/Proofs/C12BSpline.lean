import Mathlib.Algebra.Order.Field.Rat
import Mathlib.Algebra.BigOperators.Intervals
import Mathlib.Data.Nat.Choose.Sum
import Mathlib.Tactic.FieldSimp
import Mathlib.Tactic.Linarith
import Mathlib.Tactic.Ring
import NutilsVerif.Model.C12
/-!
# C12 — Cox–de Boor B-splines and Bernstein polynomials over ℚ: local support and partition of unity
-/
namespace NutilsVerif.C12

theorem list_sum_eq_finset (f : Nat → Rat) (n : Nat) : ((List.range n).map f).sum = ∑ i ∈ Finset.range n, f i := rfl

/-- `N_{j,p}(x) = 0` left of its first knot -/
theorem bspline_zero_left (T : Nat → Rat) (hT : Monotone T) (p j : Nat) (x : Rat) (h : x < T j) :
    bspline T p j x = 0 := by
  induction p generalizing j with
  | zero =>
    simp only [bspline]
    rw [if_neg]; intro hh; linarith [hh.1]
  | succ p ih =>
    simp only [bspline]
    rw [ih j h, ih (j+1) (lt_of_lt_of_le h (hT (Nat.le_succ j)))]
    ring

/-- `N_{j,p}(x) = 0` from its last knot on -/
theorem bspline_zero_right (T : Nat → Rat) (hT : Monotone T) (p j : Nat) (x : Rat) (h : T (j+p+1) ≤ x) :
    bspline T p j x = 0 := by
  induction p generalizing j with
  | zero =>
    simp only [bspline]
    rw [if_neg]; intro hh; have := hh.2; simp only [Nat.add_zero] at h; linarith
  | succ p ih =>
    simp only [bspline]
    have h1 : T (j + p + 1) ≤ x := le_trans (hT (by omega)) h
    have h2 : T (j + 1 + p + 1) ≤ x := by
      have : j + 1 + p + 1 = j + (p + 1) + 1 := by omega
      rw [this]; exact h
    rw [ih j h1, ih (j+1) h2]
    ring

/-- **partition of unity** on the knot span `[T (j0+p), T (j0+p+1))`: the `p+1` B-splines
`N_{j0,p}, …, N_{j0+p,p}` sum to one (Finset form) -/
theorem bspline_pou_finset (T : Nat → Rat) (hT : Monotone T) (p j0 : Nat) (x : Rat)
    (h1 : T (j0+p) ≤ x) (h2 : x < T (j0+p+1)) :
    ∑ i ∈ Finset.range (p+1), bspline T p (j0+i) x = 1 := by
  induction p generalizing j0 with
  | zero =>
    rw [show (0 + 1 : Nat) = 1 from rfl, Finset.sum_range_one]
    simp only [bspline, Nat.add_zero] at *
    rw [if_pos ⟨h1, h2⟩]
  | succ p ih =>
    -- split the recursion into the two families of terms
    have hsplit : ∑ i ∈ Finset.range (p+2), bspline T (p+1) (j0+i) x
        = ∑ i ∈ Finset.range (p+2), (x - T (j0+i)) / (T (j0+i+p+1) - T (j0+i)) * bspline T p (j0+i) x
          + ∑ i ∈ Finset.range (p+2), (T (j0+i+p+2) - x) / (T (j0+i+p+2) - T (j0+i+1)) * bspline T p (j0+i+1) x := by
      rw [← Finset.sum_add_distrib]
      apply Finset.sum_congr rfl
      intro i _
      simp only [bspline]
    rw [hsplit, Finset.sum_range_succ' _ (p+1), Finset.sum_range_succ _ (p+1)]
    -- the first term of the first family and the last term of the second vanish (local support)
    have hz1 : bspline T p (j0+0) x = 0 :=
      bspline_zero_right T hT p (j0+0) x (by
        have : j0 + 0 + p + 1 = j0 + (p+1) := by omega
        rw [this]; exact h1)
    have hz2 : bspline T p (j0+(p+1)+1) x = 0 :=
      bspline_zero_left T hT p _ x (by
        have : j0 + (p+1) + 1 = j0 + (p + 1) + 1 := rfl
        exact h2)
    rw [hz1, hz2, mul_zero, mul_zero, add_zero, add_zero, ← Finset.sum_add_distrib]
    rw [← ih (j0+1) (by have : j0 + 1 + p = j0 + (p+1) := by omega
                        rw [this]; exact h1)
                    (by have : j0 + 1 + p + 1 = j0 + (p+1) + 1 := by omega
                        rw [this]; exact h2)]
    apply Finset.sum_congr rfl
    intro i hi
    have hi' : i < p + 1 := Finset.mem_range.mp hi
    have e1 : j0 + (i + 1) = j0 + 1 + i := by omega
    have e2 : j0 + (i + 1) + p + 1 = j0 + i + p + 2 := by omega
    have e3 : j0 + i + 1 = j0 + 1 + i := by omega
    rw [e1, e3] at *
    have e4 : j0 + 1 + i + p + 1 = j0 + i + p + 2 := by omega
    rw [e4]
    have hlo : T (j0 + 1 + i) ≤ x := le_trans (hT (by omega)) h1
    have hhi : x < T (j0 + i + p + 2) := lt_of_lt_of_le h2 (hT (by omega))
    have hne : T (j0 + i + p + 2) - T (j0 + 1 + i) ≠ 0 := by
      intro hh; linarith
    rw [← add_mul]
    have : (x - T (j0 + 1 + i)) / (T (j0 + i + p + 2) - T (j0 + 1 + i))
        + (T (j0 + i + p + 2) - x) / (T (j0 + i + p + 2) - T (j0 + 1 + i)) = 1 := by
      field_simp
      ring
    rw [this, one_mul]

theorem choose_eq (n k : Nat) : choose n k = Nat.choose n k := by
  induction n generalizing k with
  | zero => cases k <;> simp [choose]
  | succ n ih =>
    cases k with
    | zero => simp [choose]
    | succ k => simp [choose, ih, Nat.choose_succ_succ]

/-- the Bernstein polynomials of degree `n` sum to one (binomial theorem) -/
theorem bernstein_sum_finset (n : Nat) (x : Rat) : ∑ i ∈ Finset.range (n+1), bernstein n i x = 1 := by
  have := add_pow x (1 - x) n
  rw [show x + (1 - x) = 1 by ring, one_pow] at this
  rw [this]
  apply Finset.sum_congr rfl
  intro i _
  unfold bernstein
  rw [choose_eq]; ring

end NutilsVerif.C12
