import NutilsVerif.Proofs.C15Rows
import NutilsVerif.Proofs.C15Compress
/-!
# C15 — the COO export is sorted by row and in range, so `assemble_coo` takes it back
-/
namespace NutilsVerif.C15

theorem idxFrom_lt {α : Type} : ∀ (L : List (List α)) (i0 : Nat), ∀ n ∈ idxFrom i0 L, n < i0 + L.length
  | [], _, n, h => by simp [idxFrom] at h
  | r :: t, i0, n, h => by
    simp only [idxFrom, List.mem_append, List.mem_replicate] at h
    simp only [List.length_cons]
    rcases h with h | h
    · omega
    · have := idxFrom_lt t (i0+1) n h; omega

theorem idxFrom_sorted {α : Type} : ∀ (L : List (List α)) (i0 : Nat), (idxFrom i0 L).Pairwise (· ≤ ·)
  | [], _ => by simp [idxFrom]
  | r :: t, i0 => by
    simp only [idxFrom]
    rw [List.pairwise_append]
    refine ⟨?_, idxFrom_sorted t (i0+1), ?_⟩
    · rw [List.pairwise_replicate]; exact Or.inr (Nat.le_refl _)
    · intro a ha b hb
      have := idxFrom_ge t (i0+1) b hb
      simp only [List.mem_replicate] at ha
      omega

theorem coo_rows_ok (L : List Row) :
    monotone ((entriesFrom 0 L).map fun e => (e.1 : Int)) = true ∧
    inRange ((entriesFrom 0 L).map fun e => (e.1 : Int)) L.length = true := by
  have e : (entriesFrom 0 L).map (fun e => (e.1 : Int)) = (idxFrom 0 L).map (fun (n : Nat) => (n:Int)) := by
    rw [← entriesFrom_rows, List.map_map]; rfl
  rw [e]
  constructor
  · rw [monotone_iff_pairwise, List.pairwise_map]
    exact (idxFrom_sorted L 0).imp (by intro a b hab; omega)
  · unfold inRange
    rw [List.all_eq_true]
    intro x hx
    obtain ⟨n, hn, rfl⟩ := List.mem_map.1 hx
    have := idxFrom_lt L 0 n hn
    simp; omega

end NutilsVerif.C15
