import NutilsVerif.Proofs.C05Index
import NutilsVerif.Proofs.C05Scatter
/-!
# C05: the merge step of `Array.assparse` (sort, unique, inverse scatter-add, unravel) preserves the additive
meaning and produces strictly lexicographically increasing in-range index tuples  (no Mathlib)
-/
namespace NutilsVerif.C05
open NutilsVerif

/-! ### ArgSort: a permutation that sorts -/

theorem argsort_perm (f : List Nat) : (argsortStable f).Perm (List.range f.length) := by
  unfold argsortStable
  have h := (List.mergeSort_perm f.zipIdx fun a b => decide (a.1 ≤ b.1)).map (·.2)
  rw [List.zipIdx_map_snd, ← List.range_eq_range'] at h
  exact h

theorem argsort_length (f : List Nat) : (argsortStable f).length = f.length := by
  rw [(argsort_perm f).length_eq, List.length_range]

theorem argsort_sorted_eq (f : List Nat) :
    (argsortStable f).map (fun k => f.getD k 0) = (f.zipIdx.mergeSort fun a b => decide (a.1 ≤ b.1)).map (·.1) := by
  unfold argsortStable
  rw [List.map_map]
  apply List.map_congr_left
  intro p hp
  have hp' : p ∈ f.zipIdx := (List.mergeSort_perm _ _).mem_iff.1 hp
  obtain ⟨hi, hx⟩ := List.mem_zipIdx' (x := p.1) (i := p.2) hp'
  simp [List.getD_eq_getElem?_getD, hi, hx]

theorem argsort_sorted (f : List Nat) : ((argsortStable f).map fun k => f.getD k 0).Pairwise (· ≤ ·) := by
  rw [argsort_sorted_eq, List.pairwise_map]
  have h := List.pairwise_mergeSort (le := fun (a b : Nat × Nat) => decide (a.1 ≤ b.1))
    (fun a b c hab hbc => by simp at hab hbc ⊢; omega) (fun a b => by simp; omega) f.zipIdx
  exact h.imp fun hab => by simpa using hab

/-! ### UniqueMask / cumsum / Find on a sorted vector -/

theorem uniqueMaskFrom_length : ∀ (prev : Option Nat) (l : List Nat), (uniqueMaskFrom prev l).length = l.length
  | _, [] => rfl
  | _, _ :: t => by simp [uniqueMaskFrom, uniqueMaskFrom_length _ t]

theorem cumsumFrom_length : ∀ (c : Nat) (m : List Bool), (cumsumFrom c m).length = m.length
  | _, [] => rfl
  | _, _ :: t => by simp [cumsumFrom, cumsumFrom_length _ t]

theorem selectMask_cons_true {β : Type} (x : β) (l : List β) (m : List Bool) :
    selectMask (x :: l) (true :: m) = x :: selectMask l m := by simp [selectMask]

theorem selectMask_cons_false {β : Type} (x : β) (l : List β) (m : List Bool) :
    selectMask (x :: l) (false :: m) = selectMask l m := by simp [selectMask]

/-- the selected entries of a monotone vector strictly increase, exceed the previous entry, and are entries of
the vector -/
theorem selectMask_strict : ∀ (l : List Nat) (prev : Option Nat), l.Pairwise (· ≤ ·) →
    (∀ p, prev = some p → ∀ y ∈ l, p ≤ y) →
    (selectMask l (uniqueMaskFrom prev l)).Pairwise (· < ·) ∧
    (∀ p, prev = some p → ∀ y ∈ selectMask l (uniqueMaskFrom prev l), p < y) ∧
    (∀ y ∈ selectMask l (uniqueMaskFrom prev l), y ∈ l) ∧
    (∀ y ∈ l, prev = some y ∨ y ∈ selectMask l (uniqueMaskFrom prev l))
  | [], _, _, _ => by simp [selectMask, uniqueMaskFrom]
  | x :: t, prev, hl, hp => by
    have hl' := List.pairwise_cons.1 hl
    obtain ⟨ih1, ih2, ih3, ih4⟩ := selectMask_strict t (some x) hl'.2 (fun p hp y hy => by cases hp; exact hl'.1 y hy)
    by_cases hb : prev = some x
    · have hm : (prev != some x) = false := by simp [hb]
      rw [uniqueMaskFrom, hm, selectMask_cons_false]
      refine ⟨ih1, fun p hpp y hy => ?_, fun y hy => List.mem_cons_of_mem _ (ih3 y hy), fun y hy => ?_⟩
      · rw [hb] at hpp; cases hpp; exact ih2 x rfl y hy
      · rcases List.mem_cons.1 hy with rfl | hy
        · exact Or.inl hb
        · rcases ih4 y hy with h | h
          · cases h; exact Or.inl hb
          · exact Or.inr h
    · have hm : (prev != some x) = true := by simp [hb]
      rw [uniqueMaskFrom, hm, selectMask_cons_true]
      refine ⟨List.Pairwise.cons (fun y hy => ih2 x rfl y hy) ih1, fun p hpp y hy => ?_, fun y hy => ?_, fun y hy => ?_⟩
      · rcases List.mem_cons.1 hy with rfl | hy
        · have h1 := hp p hpp y (List.mem_cons_self ..)
          have h2 : p ≠ y := fun h => hb (by rw [hpp, h])
          omega
        · have h1 := hp p hpp x (List.mem_cons_self ..)
          have h2 := ih2 x rfl y hy
          omega
      · rcases List.mem_cons.1 hy with rfl | hy
        · exact List.mem_cons_self ..
        · exact List.mem_cons_of_mem _ (ih3 y hy)
      · rcases List.mem_cons.1 hy with rfl | hy
        · exact Or.inr (List.mem_cons_self ..)
        · rcases ih4 y hy with h | h
          · cases h; exact Or.inr (List.mem_cons_self ..)
          · exact Or.inr (List.mem_cons_of_mem _ h)

/-- `unique[cumsum(mask)[k] - 1] = sorted[k]`, with the already emitted unique values `U0` as accumulator -/
theorem rank_spec : ∀ (l : List Nat) (U0 : List Nat) (k : Nat) (hk : k < l.length),
    (U0 ++ selectMask l (uniqueMaskFrom U0.getLast? l))[
      (((cumsumFrom U0.length (uniqueMaskFrom U0.getLast? l)).map (· - 1)).getD k 0)]? = some l[k]
  | [], _, _, hk => by simp at hk
  | x :: t, U0, k, hk => by
    by_cases hb : U0.getLast? = some x
    · have hm : (U0.getLast? != some x) = false := by simp [hb]
      rw [uniqueMaskFrom, hm, selectMask_cons_false, cumsumFrom]
      simp only [Bool.toNat_false, Nat.add_zero, List.map_cons]
      have hb' : uniqueMaskFrom (some x) t = uniqueMaskFrom U0.getLast? t := by rw [hb]
      rw [hb']
      cases k with
      | zero =>
        have hne : U0 ≠ [] := by intro h; rw [h] at hb; simp at hb
        have hpos : 0 < U0.length := List.length_pos_iff.2 hne
        simp only [List.getD_cons_zero, List.getElem_cons_zero]
        rw [List.getElem?_append_left (by omega), ← List.getLast?_eq_getElem?, hb]
      | succ k =>
        simp only [List.getD_cons_succ, List.getElem_cons_succ]
        exact rank_spec t U0 k (by simpa using hk)
    · have hm : (U0.getLast? != some x) = true := by simp [hb]
      rw [uniqueMaskFrom, hm, selectMask_cons_true, cumsumFrom]
      simp only [Bool.toNat_true, List.map_cons]
      have hU : (U0 ++ [x]).getLast? = some x := by simp
      have hlen : (U0 ++ [x]).length = U0.length + 1 := by simp
      have happ : U0 ++ x :: selectMask t (uniqueMaskFrom (some x) t) = (U0 ++ [x]) ++ selectMask t (uniqueMaskFrom (some x) t) := by simp
      cases k with
      | zero =>
        simp only [List.getD_cons_zero, List.getElem_cons_zero, Nat.add_sub_cancel]
        rw [List.getElem?_append_right (Nat.le_refl _)]
        simp
      | succ k =>
        simp only [List.getD_cons_succ, List.getElem_cons_succ]
        have ih := rank_spec t (U0 ++ [x]) k (by simpa using hk)
        rw [hU, hlen] at ih
        rw [happ]; exact ih

/-! ### `unique(array, return_inverse=True)` -/

/-- `unique` returns the strictly increasing distinct entries and, for every position, the rank of its entry -/
theorem unique_spec' (f : List Nat) :
    (uniqueInv f).1.Pairwise (· < ·) ∧ (∀ y, y ∈ (uniqueInv f).1 ↔ y ∈ f) ∧ (uniqueInv f).2.length = f.length ∧
    ∀ k (hk : k < f.length), (uniqueInv f).1[(uniqueInv f).2.getD k 0]? = some f[k] := by
  have hperm := argsort_perm f
  have hsorted := argsort_sorted f
  obtain ⟨h1, _, h3, h4⟩ := selectMask_strict ((argsortStable f).map fun k => f.getD k 0) none hsorted (by simp)
  have hmem : ∀ y, y ∈ ((argsortStable f).map fun k => f.getD k 0) ↔ y ∈ f := by
    intro y
    constructor
    · intro hy
      obtain ⟨k, hk, rfl⟩ := List.mem_map.1 hy
      have hk' : k < f.length := List.mem_range.1 (hperm.mem_iff.1 hk)
      simp [List.getD_eq_getElem?_getD, hk']
    · intro hy
      obtain ⟨i, hi, rfl⟩ := List.getElem_of_mem hy
      exact List.mem_map.2 ⟨i, hperm.mem_iff.2 (List.mem_range.2 hi), by simp [List.getD_eq_getElem?_getD, hi]⟩
  refine ⟨h1, fun y => ⟨fun hy => (hmem y).1 (h3 y hy), fun hy => ?_⟩, by simp [uniqueInv], fun k hk => ?_⟩
  · rcases h4 y ((hmem y).2 hy) with h | h
    · cases h
    · exact h
  · have hin : k ∈ argsortStable f := hperm.mem_iff.2 (List.mem_range.2 hk)
    have hidx : (argsortStable f).idxOf k < (argsortStable f).length := List.idxOf_lt_length_iff.2 hin
    have hget : (argsortStable f)[(argsortStable f).idxOf k] = k := List.getElem_idxOf hidx
    have hr := rank_spec ((argsortStable f).map fun k => f.getD k 0) [] ((argsortStable f).idxOf k) (by simpa using hidx)
    simp only [List.getLast?_nil, List.length_nil, List.nil_append, List.getElem_map, hget] at hr
    have hinv : (uniqueInv f).2.getD k 0 =
        ((cumsumFrom 0 (uniqueMask ((argsortStable f).map fun k => f.getD k 0))).map (· - 1)).getD ((argsortStable f).idxOf k) 0 := by
      simp [uniqueInv, List.getD_eq_getElem?_getD, hk]
    rw [hinv]
    show (selectMask _ (uniqueMask _))[_]? = _
    unfold uniqueMask
    rw [hr]
    simp [List.getD_eq_getElem?_getD, hk]

/-! ### inverse scatter-add -/

section
variable {α : Type} {ι : Type} [BEq ι] [LawfulBEq ι]

theorem scatterSum_not_mem (add : α → α → α) (zero : α) (indices : List ι) (values : List α) (idx : ι)
    (h : idx ∉ indices) : scatterSum add zero indices values idx = zero := by
  unfold scatterSum
  have : (indices.zip values).filter (·.1 == idx) = [] := by
    rw [List.filter_eq_nil_iff]
    intro x hx hp
    have h1 : x.1 = idx := by simpa using hp
    exact h (h1 ▸ (List.of_mem_zip hx).1)
  rw [this]; rfl

theorem scatterSum_nodup_getElem (add : α → α → α) (zero : α) : ∀ (indices : List ι) (values : List α) (u : Nat)
    (hu : u < indices.length) (hv : u < values.length), indices.Nodup →
    scatterSum add zero indices values indices[u] = add zero values[u]
  | [], _, _, hu, _, _ => by simp at hu
  | _ :: _, [], _, _, hv, _ => by simp at hv
  | t :: ts, v :: vs, 0, _, _, hn => by
    have hn' := List.nodup_cons.1 hn
    have hrest : (ts.zip vs).filter (·.1 == t) = [] := by
      rw [List.filter_eq_nil_iff]
      intro x hx hp
      have h1 : x.1 = t := by simpa using hp
      exact hn'.1 (h1 ▸ (List.of_mem_zip hx).1)
    simp [scatterSum, hrest]
  | t :: ts, v :: vs, u+1, hu, hv, hn => by
    have hn' := List.nodup_cons.1 hn
    have hu' : u < ts.length := by simpa using hu
    have hne : ¬ (t = ts[u]) := fun h => hn'.1 (h ▸ List.getElem_mem hu')
    have ih := scatterSum_nodup_getElem add zero ts vs u hu' (by simpa using hv) hn'.2
    simp only [scatterSum, List.getElem_cons_succ, List.zip_cons_cons, List.filter_cons, beq_iff_eq, hne, if_false] at ih ⊢
    exact ih

end

/-- **Merge preserves the additive meaning**: sorting the flat indices, keeping the distinct ones and adding the
values through the inverse (`Inflate(values, inverse, n)`) yields strictly increasing positions that denote the
same sums as the concatenated chunks, at every position -/
theorem merge_preserves_sum' {α : Type} (add : α → α → α) (zero : α) (hz : ∀ a, add zero a = a)
    (flat : List Nat) (values : List α) :
    (mergeFlat add zero flat values).1.Pairwise (· < ·) ∧
    (∀ y, y ∈ (mergeFlat add zero flat values).1 ↔ y ∈ flat) ∧
    (mergeFlat add zero flat values).1.length = (mergeFlat add zero flat values).2.length ∧
    ∀ p, scatterSum add zero (mergeFlat add zero flat values).1 (mergeFlat add zero flat values).2 p
        = scatterSum add zero flat values p := by
  obtain ⟨hstrict, hmem, hlen, hinv⟩ := unique_spec' flat
  have hm1 : (mergeFlat add zero flat values).1 = (uniqueInv flat).1 := rfl
  have hm2 : (mergeFlat add zero flat values).2 =
      inflateAdd add zero values (uniqueInv flat).2 (uniqueInv flat).1.length := rfl
  rw [hm1, hm2]
  have hnodup : (uniqueInv flat).1.Nodup := hstrict.imp fun h => Nat.ne_of_lt h
  refine ⟨hstrict, hmem, by simp [inflateAdd], fun p => ?_⟩
  by_cases hp : p ∈ (uniqueInv flat).1
  · obtain ⟨u, hu, rfl⟩ := List.getElem_of_mem hp
    rw [scatterSum_nodup_getElem add zero _ _ u hu (by simpa [inflateAdd] using hu) hnodup, hz]
    simp only [inflateAdd, List.getElem_map, List.getElem_range]
    apply scatterSum_congr_keys add zero _ _ values _ _ hlen
    intro n h₁ h₂
    have hk := hinv n h₂
    rw [List.getD_eq_getElem?_getD, List.getElem?_eq_getElem h₁, Option.getD_some] at hk
    have hlt : (uniqueInv flat).2[n] < (uniqueInv flat).1.length := by
      rcases Nat.lt_or_ge ((uniqueInv flat).2[n]) (uniqueInv flat).1.length with h | h
      · exact h
      · rw [List.getElem?_eq_none h] at hk; cases hk
    rw [List.getElem?_eq_getElem hlt] at hk
    have hk : (uniqueInv flat).1[(uniqueInv flat).2[n]] = flat[n] := by simpa using hk
    rw [Bool.eq_iff_iff]
    simp only [beq_iff_eq]
    constructor
    · intro h; rw [← hk]; simp [h]
    · intro h
      rw [← hk] at h
      exact (List.getElem_inj hnodup).1 h
  · rw [scatterSum_not_mem add zero _ _ p hp, scatterSum_not_mem add zero _ _ p (fun h => hp ((hmem p).2 h))]

/-! ### the whole of `Array.assparse` -/

/-- `Array.assparse` (ndim > 0) on evaluated chunks: if every chunk index lies inside the shape, the merged data
are in range, strictly lexicographically increasing, and denote at every position of the box the same sum as
the chunks -/
theorem assparse_wf' {α : Type} (add : α → α → α) (zero : α) (hz : ∀ a, add zero a = a) (shape : List Nat) (hs : shape ≠ [])
    (tuples : List (List Nat)) (values : List α) (hbox : ∀ t ∈ tuples, inBox shape t = true) :
    (∀ t ∈ (assparse add zero shape tuples values).1, inBox shape t = true) ∧
    (assparse add zero shape tuples values).1.Pairwise (fun a b => lexLt a b = true) ∧
    (assparse add zero shape tuples values).1.length = (assparse add zero shape tuples values).2.length ∧
    ∀ idx, inBox shape idx = true →
      scatterSum add zero (assparse add zero shape tuples values).1 (assparse add zero shape tuples values).2 idx
        = scatterSum add zero tuples values idx := by
  have hflat : tuples.map (hornerFlat shape) = tuples.map (flatIdx shape) :=
    List.map_congr_left fun t ht => hornerFlat_eq_flatIdx (inBox_length (hbox t ht)) hs
  obtain ⟨hstrict, hmem, hlen, hsum⟩ := merge_preserves_sum' add zero hz (tuples.map (hornerFlat shape)) values
  have ha1 : (assparse add zero shape tuples values).1 =
      (mergeFlat add zero (tuples.map (hornerFlat shape)) values).1.map (unravelLoop shape) := rfl
  have ha2 : (assparse add zero shape tuples values).2 = (mergeFlat add zero (tuples.map (hornerFlat shape)) values).2 := rfl
  rw [ha1, ha2]
  generalize hM : mergeFlat add zero (tuples.map (hornerFlat shape)) values = M at hstrict hmem hlen hsum
  have hlt : ∀ y ∈ M.1, y < shapeSize shape := by
    intro y hy
    rw [hmem y, hflat] at hy
    obtain ⟨t, ht, rfl⟩ := List.mem_map.1 hy
    exact flatIdx_lt shape t (hbox t ht)
  have hmap : M.1.map (unravelLoop shape) = M.1.map (unflatIdx shape) :=
    List.map_congr_left fun y hy => unravelLoop_eq_unflat hs (hlt y hy)
  rw [hmap]
  refine ⟨fun t ht => ?_, ?_, by simpa using hlen, fun idx hidx => ?_⟩
  · obtain ⟨y, hy, rfl⟩ := List.mem_map.1 ht
    exact inBox_unflat shape y (hlt y hy)
  · rw [List.pairwise_map]
    have : M.1.Pairwise (fun a b => a < b ∧ b < shapeSize shape) := by
      have hall : M.1.Pairwise (fun _ b => b < shapeSize shape) := List.pairwise_of_forall_mem_list (fun _ _ b hb => hlt b hb) |>.imp (fun h => h)
      exact hstrict.and hall
    exact this.imp fun ⟨hab, hb⟩ => lexLt_unflat shape hs hab hb
  · -- unflat is injective below the size; then merge; then flat is injective on the box
    have h1 : scatterSum add zero (M.1.map (unflatIdx shape)) M.2 idx = scatterSum add zero M.1 M.2 (flatIdx shape idx) := by
      have := scatterSum_map_inj add zero (unflatIdx shape) M.1 M.2 (flatIdx shape idx) (fun y hy h => by
        have := congrArg (flatIdx shape) h
        rwa [flat_unflat shape y (hlt y hy), flat_unflat shape _ (flatIdx_lt shape idx hidx)] at this)
      rwa [unflat_flat shape idx hidx] at this
    rw [h1, hsum, hflat]
    exact scatterSum_map_inj add zero (flatIdx shape) tuples values idx (fun t ht h => flatIdx_inj (hbox t ht) hidx h)

end NutilsVerif.C05
