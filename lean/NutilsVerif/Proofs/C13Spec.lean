import NutilsVerif.Model.C13
/-!
# C13 (b): the spellings of an argument specification are equivalent
-/
namespace NutilsVerif.C13

/-- Python `c.join(items)` -/
def joinWith (c : Char) : List (List Char) → List Char
  | [] => []
  | [a] => a
  | a :: b :: rest => a ++ c :: joinWith c (b :: rest)

theorem splitAll_ne_nil (c : Char) (s : List Char) : splitAll c s ≠ [] := by
  induction s with
  | nil => simp [splitAll]
  | cons d s ih =>
    simp only [splitAll]
    split
    · simp
    · split <;> simp

theorem splitAll_no_sep (c : Char) (s : List Char) (h : c ∉ s) : splitAll c s = [s] := by
  induction s with
  | nil => simp [splitAll]
  | cons d s ih =>
    simp only [List.mem_cons, not_or] at h
    have hd : ¬ d = c := fun e => h.1 e.symm
    simp [splitAll, hd, ih h.2]

theorem splitAll_append (c : Char) (a rest : List Char) (h : c ∉ a) :
    splitAll c (a ++ c :: rest) = a :: splitAll c rest := by
  induction a with
  | nil => simp [splitAll]
  | cons d a ih =>
    simp only [List.mem_cons, not_or] at h
    have hd : ¬ d = c := fun e => h.1 e.symm
    simp [splitAll, hd, ih h.2]

/-- `','.join(items).split(',') == items` for a non-empty list of comma-free strings -/
theorem splitAll_joinWith (c : Char) (items : List (List Char)) (hne : items ≠ [])
    (h : ∀ a ∈ items, c ∉ a) : splitAll c (joinWith c items) = items := by
  induction items with
  | nil => exact absurd rfl hne
  | cons a t ih =>
    cases t with
    | nil => simpa [joinWith] using splitAll_no_sep c a (h a (by simp))
    | cons b rest =>
      simp only [joinWith]
      rw [splitAll_append c a _ (h a (by simp))]
      rw [ih (by simp) (fun x hx => h x (List.mem_cons_of_mem _ hx))]

/-- `(k + ':' + v).split(':', 1) == [k, v]` when `k` has no colon (`v` may) -/
theorem splitFirst_append (c : Char) (k v : List Char) (h : c ∉ k) :
    splitFirst c (k ++ c :: v) = some (k, v) := by
  induction k with
  | nil => simp [splitFirst]
  | cons d k ih =>
    simp only [List.mem_cons, not_or] at h
    have hd : ¬ d = c := fun e => h.1 e.symm
    simp [splitFirst, hd, ih h.2]

theorem splitFirst_none (c : Char) (s : List Char) (h : c ∉ s) : splitFirst c s = none := by
  induction s with
  | nil => rfl
  | cons d s ih =>
    simp only [List.mem_cons, not_or] at h
    have hd : ¬ d = c := fun e => h.1 e.symm
    simp [splitFirst, hd, ih h.2]

/-- two items are interchangeable when the loop body treats them identically -/
def ItemEquiv (ctx : Ctx) (a b : Item) : Prop := parseItem ctx a = parseItem ctx b

inductive Forall2 {α : Type} (R : α → α → Prop) : List α → List α → Prop
  | nil : Forall2 R [] []
  | cons {a b l1 l2} : R a b → Forall2 R l1 l2 → Forall2 R (a :: l1) (b :: l2)

theorem parseItems_congr (ctx : Ctx) (l1 l2 : List Item) (h : Forall2 (ItemEquiv ctx) l1 l2) :
    parseItems ctx l1 = parseItems ctx l2 := by
  induction h with
  | nil => rfl
  | cons hab _ ih => simp only [parseItems]; rw [hab, ih]

theorem forall₂_map_of {α : Type} {R : Item → Item → Prop} (f g : α → Item) (l : List α)
    (h : ∀ a ∈ l, R (f a) (g a)) : Forall2 R (l.map f) (l.map g) := by
  induction l with
  | nil => exact .nil
  | cons a t ih => exact .cons (h a (by simp)) (ih fun x hx => h x (List.mem_cons_of_mem _ hx))

/-- `'k:v'` ≈ `('k', 'v')` -/
theorem item_str_equiv (ctx : Ctx) (k v : Name) (hk : ':' ∉ k) :
    ItemEquiv ctx (.str (k ++ ':' :: v)) (.pair (.name k) (.name v)) := by
  simp [ItemEquiv, parseItem, Item.toPair, splitFirst_append ':' k v hk]

/-- `'k'` as key ≈ `Argument('k', shape, dtype)` with the shape and dtype the function announces -/
theorem item_keyobj_equiv (ctx : Ctx) (k : Name) (sig : Sig) (v : Val)
    (h : ctx.lookup k = some sig ∨ ctx.lookup k = none) :
    ItemEquiv ctx (.pair (.name k) v) (.pair (.argobj k sig) v) := by
  rcases h with h | h <;> simp [ItemEquiv, parseItem, Item.toPair, resolveKey, h]

/-- `'v'` as value ≈ `Argument('v', shape, dtype)` with the shape and dtype of the replaced argument -/
theorem item_valobj_equiv (ctx : Ctx) (k v : Name) (sig : Sig)
    (h : ctx.lookup k = some sig ∨ ctx.lookup k = none) :
    ItemEquiv ctx (.pair (.name k) (.name v)) (.pair (.name k) (.argobj v sig)) := by
  rcases h with h | h <;> simp [ItemEquiv, parseItem, Item.toPair, resolveKey, checkVal, h]

/-- the signature an `Argument` object for `k` must carry: the announced one (anything if `k` is absent) -/
def sigOf (ctx : Ctx) (k : Name) : Sig := (ctx.lookup k).getD default

theorem sigOf_spec (ctx : Ctx) (k : Name) : ctx.lookup k = some (sigOf ctx k) ∨ ctx.lookup k = none := by
  unfold sigOf; cases ctx.lookup k <;> simp

/-- the six documented spellings of one association list -/
def spellString (assoc : List (Name × Name)) : Spec :=
  .str (joinWith ',' (assoc.map fun (k, v) => k ++ ':' :: v))
def spellStrings (assoc : List (Name × Name)) : Spec :=
  .seq (assoc.map fun (k, v) => .str (k ++ ':' :: v))
def spellPairs (assoc : List (Name × Name)) : Spec :=
  .seq (assoc.map fun (k, v) => .pair (.name k) (.name v))
def spellDict (assoc : List (Name × Name)) : Spec :=
  .dict (assoc.map fun (k, v) => (.name k, .name v))
def spellDictArgValues (ctx : Ctx) (assoc : List (Name × Name)) : Spec :=
  .dict (assoc.map fun (k, v) => (.name k, .argobj v (sigOf ctx k)))
def spellArgPairs (ctx : Ctx) (assoc : List (Name × Name)) : Spec :=
  .seq (assoc.map fun (k, v) => .pair (.argobj k (sigOf ctx k)) (.argobj v (sigOf ctx k)))

theorem spell_strings_pairs (ctx : Ctx) (assoc : List (Name × Name)) (hk : ∀ p ∈ assoc, ':' ∉ p.1) :
    parse (spellStrings assoc) ctx = parse (spellPairs assoc) ctx := by
  simp only [parse, spellStrings, spellPairs, Spec.items]
  exact parseItems_congr ctx _ _ (forall₂_map_of _ _ assoc fun p hp => item_str_equiv ctx p.1 p.2 (hk p hp))

theorem spell_string_strings (ctx : Ctx) (assoc : List (Name × Name)) (hne : assoc ≠ [])
    (hk : ∀ p ∈ assoc, ',' ∉ p.1 ∧ ',' ∉ p.2) :
    parse (spellString assoc) ctx = parse (spellStrings assoc) ctx := by
  simp only [parse, spellString, spellStrings, Spec.items]
  rw [splitAll_joinWith ',' _ (by simpa using hne)]
  · simp only [List.map_map]; rfl
  · intro a ha
    simp only [List.mem_map] at ha
    obtain ⟨p, hp, rfl⟩ := ha
    have := hk p hp
    simp only [List.mem_append, List.mem_cons, not_or]
    exact ⟨this.1, by decide, this.2⟩

theorem spell_pairs_dict (ctx : Ctx) (assoc : List (Name × Name)) :
    parse (spellPairs assoc) ctx = parse (spellDict assoc) ctx := by
  simp only [parse, spellPairs, spellDict, Spec.items, List.map_map]
  rfl

theorem spell_dict_argvalues (ctx : Ctx) (assoc : List (Name × Name)) :
    parse (spellDict assoc) ctx = parse (spellDictArgValues ctx assoc) ctx := by
  simp only [parse, spellDict, spellDictArgValues, Spec.items]
  simp only [List.map_map]
  exact parseItems_congr ctx _ _ (forall₂_map_of _ _ assoc fun p _ =>
    item_valobj_equiv ctx p.1 p.2 (sigOf ctx p.1) (sigOf_spec ctx p.1))

theorem spell_dict_argpairs (ctx : Ctx) (assoc : List (Name × Name)) :
    parse (spellDictArgValues ctx assoc) ctx = parse (spellArgPairs ctx assoc) ctx := by
  simp only [parse, spellDictArgValues, spellArgPairs, Spec.items]
  simp only [List.map_map]
  exact parseItems_congr ctx _ _ (forall₂_map_of _ _ assoc fun p _ =>
    item_keyobj_equiv ctx p.1 (sigOf ctx p.1) _ (sigOf_spec ctx p.1))

/-! ### what the parser guarantees -/

theorem resolveKey_sound (ctx : Ctx) (k : Key) (n : Name) (sig : Sig)
    (h : resolveKey ctx k = .ok (some (n, sig))) : ctx.lookup n = some sig := by
  cases k with
  | other => simp [resolveKey] at h
  | name s =>
    simp only [resolveKey] at h
    cases hl : ctx.lookup s with
    | none => simp [hl] at h
    | some sg => simp [hl] at h; obtain ⟨rfl, rfl⟩ := h; exact hl
  | argobj m sg =>
    simp only [resolveKey] at h
    cases hl : ctx.lookup m with
    | none => simp [hl] at h
    | some sg' =>
      simp only [hl] at h
      by_cases e : sg' = sg
      · subst e; simp at h; obtain ⟨rfl, rfl⟩ := h; exact hl
      · simp [e] at h

theorem checkVal_sound (sig : Sig) (v : Val) (r : Replacement) (h : checkVal sig v = .ok r) : r.sig = sig := by
  cases v with
  | name s => simp [checkVal] at h; subst h; rfl
  | argobj m sv =>
    simp only [checkVal] at h
    by_cases h1 : sv.shape = sig.shape
    · by_cases h2 : sv.dtype = sig.dtype
      · simp [h1, h2] at h; subst h
        cases sv; cases sig; simp_all [Replacement.sig]
      · simp [h1, h2] at h
    · simp [h1] at h
  | array id sv args b =>
    simp only [checkVal] at h
    by_cases h1 : sv.shape = sig.shape
    · by_cases h2 : sv.dtype = sig.dtype
      · simp [h1, h2] at h; subst h
        cases sv; cases sig; simp_all [Replacement.sig]
      · simp [h1, h2] at h
    · simp [h1] at h

theorem parseItem_sound (ctx : Ctx) (it : Item) (n : Name) (r : Replacement)
    (h : parseItem ctx it = .ok (some (n, r))) : ctx.lookup n = some r.sig := by
  unfold parseItem at h
  cases hp : it.toPair with
  | error e => simp [hp] at h
  | ok kv =>
    obtain ⟨k, v⟩ := kv
    simp only [hp] at h
    cases hk : resolveKey ctx k with
    | error e => simp [hk] at h
    | ok o =>
      cases o with
      | none => simp [hk] at h
      | some ns =>
        obtain ⟨m, sig⟩ := ns
        simp only [hk] at h
        cases hv : checkVal sig v with
        | error e => simp [hv] at h
        | ok r' =>
          simp [hv] at h
          obtain ⟨rfl, rfl⟩ := h
          rw [checkVal_sound sig v r' hv]
          exact resolveKey_sound ctx k m sig hk

theorem parseItems_sound (ctx : Ctx) (l : List Item) (res : List (Name × Replacement))
    (h : parseItems ctx l = .ok res) : ∀ p ∈ res, ctx.lookup p.1 = some p.2.sig := by
  induction l generalizing res with
  | nil => simp [parseItems] at h; subst h; simp
  | cons it rest ih =>
    simp only [parseItems] at h
    cases hi : parseItem ctx it with
    | error e => simp [hi] at h
    | ok r =>
      simp only [hi] at h
      cases hr : parseItems ctx rest with
      | error e => simp [hr] at h
      | ok l' =>
        simp only [hr, Except.ok.injEq] at h
        subst h
        intro p hp
        cases r with
        | none => exact ih l' hr p hp
        | some q =>
          simp only [List.mem_cons] at hp
          rcases hp with rfl | hp
          · exact parseItem_sound ctx it p.1 p.2 hi
          · exact ih l' hr p hp

/-- a key that is not an argument of the function is skipped — whatever its value is -/
theorem parseItem_absent (ctx : Ctx) (k : Name) (v : Val) (h : ctx.lookup k = none) :
    parseItem ctx (.pair (.name k) v) = .ok none := by
  simp [parseItem, Item.toPair, resolveKey, h]

theorem parseItem_absent_obj (ctx : Ctx) (k : Name) (sig : Sig) (v : Val) (h : ctx.lookup k = none) :
    parseItem ctx (.pair (.argobj k sig) v) = .ok none := by
  simp [parseItem, Item.toPair, resolveKey, h]

theorem parseItems_skip (ctx : Ctx) (it : Item) (rest : List Item) (h : parseItem ctx it = .ok none) :
    parseItems ctx (it :: rest) = parseItems ctx rest := by
  simp only [parseItems, h]
  cases parseItems ctx rest <;> rfl

/-- a replacement of the wrong shape or dtype for a present key is an error, never a broadcast -/
theorem parseItem_wrong_sig (ctx : Ctx) (k : Name) (sig sv : Sig) (id : Nat) (args : Ctx) (b : Bool)
    (hk : ctx.lookup k = some sig) (hne : sv ≠ sig) :
    parseItem ctx (.pair (.name k) (.array id sv args b)) = .error .valShape ∨
    parseItem ctx (.pair (.name k) (.array id sv args b)) = .error .valDtype := by
  simp only [parseItem, Item.toPair, resolveKey, hk, checkVal]
  by_cases h1 : sv.shape = sig.shape
  · have h2 : sv.dtype ≠ sig.dtype := by
      intro h2; apply hne; cases sv; cases sig; simp_all
    right; simp [h1, h2]
  · left; simp [h1]

theorem parseItems_error_of_mem (ctx : Ctx) (l : List Item) (it : Item) (hit : it ∈ l)
    (h : ∃ e, parseItem ctx it = .error e) : ∃ e, parseItems ctx l = .error e := by
  induction l with
  | nil => cases hit
  | cons a rest ih =>
    simp only [parseItems]
    cases ha : parseItem ctx a with
    | error e => exact ⟨e, rfl⟩
    | ok r =>
      simp only
      rcases List.mem_cons.1 hit with rfl | hmem
      · obtain ⟨e, he⟩ := h; rw [he] at ha; cases ha
      · obtain ⟨e, he⟩ := ih hmem
        exact ⟨e, by rw [he]⟩

/-! ### `_join_arguments` -/

theorem joinInto_spec (c : Ctx) : ∀ (acc r : Ctx), joinInto acc c = .ok r →
    (∀ n s, acc.lookup n = some s → r.lookup n = some s) ∧
    (∀ p ∈ c, r.lookup p.1 = some p.2) ∧
    (∀ n s, r.lookup n = some s → acc.lookup n = some s ∨ (n, s) ∈ c) := by
  induction c with
  | nil => intro acc r h; simp [joinInto] at h; subst h; simp
  | cons p rest ih =>
    obtain ⟨n, s⟩ := p
    intro acc r h
    simp only [joinInto] at h
    cases hl : acc.lookup n with
    | none =>
      simp only [hl] at h
      obtain ⟨h1, h2, h3⟩ := ih _ r h
      refine ⟨fun m t hm => h1 m t (by simp [List.lookup_append, hm]), ?_, ?_⟩
      · intro q hq
        rcases List.mem_cons.1 hq with rfl | hq
        · exact h1 n s (by simp [List.lookup_append, hl, List.lookup])
        · exact h2 q hq
      · intro m t hm
        rcases h3 m t hm with h' | h'
        · simp only [List.lookup_append] at h'
          cases hm' : acc.lookup m with
          | some t' => simp [hm'] at h'; subst h'; exact Or.inl rfl
          | none =>
            simp only [hm', Option.none_or, List.lookup] at h'
            by_cases e : m = n
            · subst e; simp at h'; subst h'; exact Or.inr (by simp)
            · have : (m == n) = false := by simpa using e
              simp [this] at h'
        · exact Or.inr (List.mem_cons_of_mem _ h')
    | some s' =>
      simp only [hl] at h
      by_cases hs : s.shape = s'.shape
      · by_cases hd : s.dtype = s'.dtype
        · simp only [hs, hd, ne_eq, not_true_eq_false, if_false] at h
          obtain ⟨h1, h2, h3⟩ := ih _ r h
          have hss : s = s' := by cases s; cases s'; simp_all
          refine ⟨h1, ?_, fun m t hm => (h3 m t hm).imp id (List.mem_cons_of_mem _)⟩
          intro q hq
          rcases List.mem_cons.1 hq with rfl | hq
          · simpa [hss] using h1 n s' hl
          · exact h2 q hq
        · simp [hs, hd] at h
      · simp [hs] at h

end NutilsVerif.C13

namespace NutilsVerif.C13

theorem foldlM_joinInto_spec (l : List Ctx) : ∀ (acc r : Ctx), l.foldlM joinInto acc = .ok r →
    (∀ n s, acc.lookup n = some s → r.lookup n = some s) ∧
    (∀ c ∈ l, ∀ p ∈ c, r.lookup p.1 = some p.2) ∧
    (∀ n s, r.lookup n = some s → acc.lookup n = some s ∨ ∃ c ∈ l, (n, s) ∈ c) := by
  induction l with
  | nil => intro acc r h; simp [List.foldlM, pure, Except.pure] at h; subst h; simp
  | cons c rest ih =>
    intro acc r h
    simp only [List.foldlM, bind, Except.bind] at h
    cases hj : joinInto acc c with
    | error e => simp [hj] at h
    | ok acc' =>
      simp only [hj] at h
      obtain ⟨a1, a2, a3⟩ := joinInto_spec c acc acc' hj
      obtain ⟨b1, b2, b3⟩ := ih acc' r h
      refine ⟨fun n s hn => b1 n s (a1 n s hn), ?_, ?_⟩
      · intro c' hc' p hp
        rcases List.mem_cons.1 hc' with rfl | hc'
        · exact b1 p.1 p.2 (a2 p hp)
        · exact b2 c' hc' p hp
      · intro n s hn
        rcases b3 n s hn with h' | ⟨c', hc', hm⟩
        · rcases a3 n s h' with h'' | h''
          · exact Or.inl h''
          · exact Or.inr ⟨c, by simp, h''⟩
        · exact Or.inr ⟨c', List.mem_cons_of_mem _ hc', hm⟩

/-- `_join_arguments`: the result announces every argument of every operand with its shape and dtype, and nothing else -/
theorem joinArguments_spec (l : List Ctx) (r : Ctx) (h : joinArguments l = .ok r) :
    (∀ c ∈ l, ∀ p ∈ c, r.lookup p.1 = some p.2) ∧
    (∀ n s, r.lookup n = some s → ∃ c ∈ l, (n, s) ∈ c) := by
  cases l with
  | nil => simp [joinArguments] at h; subst h; simp
  | cons c rest =>
    have h' : (c :: rest).foldlM joinInto [] = .ok r := h
    obtain ⟨_, h2, h3⟩ := foldlM_joinInto_spec (c :: rest) [] r h'
    refine ⟨h2, fun n s hn => ?_⟩
    rcases h3 n s hn with h0 | h0
    · simp at h0
    · exact h0

/-- `_Replace.__init__`: the announced arguments contain every unreplaced argument of the function and every
argument of every replacement in the map -/
theorem replaceInit_announces (spec : Spec) (ctx : Ctx) (d : List (Name × Replacement)) (joined : Ctx)
    (h : replaceInit spec ctx = .ok (d, joined)) :
    (∀ p ∈ ctx, (∀ q ∈ d, q.1 ≠ p.1) → joined.lookup p.1 = some p.2) ∧
    (∀ q ∈ d, ∀ p ∈ q.2.arguments, joined.lookup p.1 = some p.2) := by
  unfold replaceInit at h
  cases hp : parse spec ctx with
  | error e => simp [hp] at h
  | ok l =>
    simp only [hp] at h
    split at h
    · cases h
    · cases hj : joinArguments (List.filter (fun x => !(replDict l).any (·.1 == x.1)) ctx :: (replDict l).map (·.2.arguments)) with
      | error e => simp [hj] at h
      | ok j =>
        simp [hj] at h
        obtain ⟨rfl, rfl⟩ := h
        obtain ⟨h1, _⟩ := joinArguments_spec _ _ hj
        constructor
        · intro p hp' hnot
          apply h1 _ List.mem_cons_self p
          simp only [List.mem_filter, Bool.not_eq_true', List.any_eq_false, beq_iff_eq]
          exact ⟨hp', fun q hq => by simpa using hnot q hq⟩
        · intro q hq p hp'
          exact h1 q.2.arguments (List.mem_cons_of_mem _ (List.mem_map.2 ⟨q, hq, rfl⟩)) p hp'

end NutilsVerif.C13
