import NutilsVerif.Proofs.C16Locks
/-!
# C16 — "shared value + work still to be done" is constant along every schedule (helper lemmas)
-/
namespace NutilsVerif.C16
variable {α : Type} [CAM α]

instance : Std.Associative (α := α) (· + ·) := ⟨CAM.add_assoc⟩
instance : Std.Commutative (α := α) (· + ·) := ⟨CAM.add_comm⟩

theorem cam_zero_add (a : α) : 0 + a = a := by rw [CAM.add_comm, CAM.add_zero]

/-- `Σ_{j<N} f j` -/
def sumTo (N : Nat) (f : Nat → α) : α :=
  match N with
  | 0 => 0
  | N+1 => sumTo N f + f N

/-- `Σ_{lo ≤ j < lo+k} f j` -/
def tailSum (f : Nat → α) (lo : Nat) : Nat → α
  | 0 => 0
  | k+1 => f lo + tailSum f (lo+1) k

/-- what the instruction list still adds to shared array `a` -/
def pendL (a : Nat) : List (Instr α) → α
  | [] => 0
  | .rmw b v :: r => (if b = a then v else 0) + pendL a r
  | .tau :: r => pendL a r
  | .acq _ :: r => pendL a r
  | .rel _ :: r => pendL a r
  | .put _ _ :: r => pendL a r

/-- what a worker at this program counter still adds to shared array `a` in its current iteration -/
def PC.pend (code : Nat → List (Instr α)) (a : Nat) : PC α → α
  | .wrote i => pendL a (code i)
  | .body _ _ r => pendL a r
  | .mid _ _ b v _ r => (if b = a then v else 0) + pendL a r
  | _ => 0

theorem sumTo_congr {N : Nat} {f g : Nat → α} (h : ∀ j, j < N → f j = g j) : sumTo N f = sumTo N g := by
  induction N with
  | zero => rfl
  | succ N ih =>
    simp only [sumTo]
    rw [ih (fun j hj => h j (by omega)), h N (by omega)]

theorem sumTo_zero {N : Nat} {f : Nat → α} (h : ∀ j, j < N → f j = 0) : sumTo N f = 0 := by
  induction N with
  | zero => rfl
  | succ N ih =>
    simp only [sumTo]
    rw [ih (fun j hj => h j (by omega)), h N (by omega), CAM.add_zero]

theorem sumTo_split {N w : Nat} (hw : w < N) (F : Nat → α) : sumTo N F = F w + sumTo N (upd F w 0) := by
  induction N with
  | zero => omega
  | succ N ih =>
    simp only [sumTo]
    by_cases h : w = N
    · subst h
      have : sumTo w (upd F w 0) = sumTo w F := sumTo_congr (fun j hj => by simp [upd]; omega)
      rw [this, upd_same, CAM.add_zero, CAM.add_comm]
    · rw [ih (by omega), upd_other _ _ _ _ (Ne.symm h)]
      ac_rfl

theorem sumTo_upd_eq {β : Type} {N w : Nat} (hw : w < N) (g : β → α) (pcs : Nat → β) (pc' : β) {x y t t' : α}
    (h : x + g pc' + t' = y + g (pcs w) + t) :
    x + sumTo N (fun j => g (upd pcs w pc' j)) + t' = y + sumTo N (fun j => g (pcs j)) + t := by
  rw [sumTo_split hw (fun j => g (upd pcs w pc' j)), sumTo_split hw (fun j => g (pcs j))]
  have : sumTo N (upd (fun j => g (upd pcs w pc' j)) w 0) = sumTo N (upd (fun j => g (pcs j)) w 0) :=
    sumTo_congr (fun j _ => by by_cases hj : j = w <;> simp [upd, hj])
  rw [this]
  simp only [upd_same]
  generalize sumTo N (upd (fun j => g (pcs j)) w 0) = R
  calc x + (g pc' + R) + t' = (x + g pc' + t') + R := by ac_rfl
    _ = (y + g (pcs w) + t) + R := by rw [h]
    _ = y + (g (pcs w) + R) + t := by ac_rfl

theorem tailSum_last (f : Nat → α) (lo k : Nat) : tailSum f lo (k+1) = tailSum f lo k + f (lo + k) := by
  induction k generalizing lo with
  | zero => simp [tailSum, CAM.add_zero, cam_zero_add]
  | succ k ih =>
    rw [tailSum, ih (lo+1), tailSum]
    have : lo + 1 + k = lo + (k + 1) := by omega
    rw [this]
    ac_rfl

/-- shared value + pending work of the running iterations + work of the unclaimed iterations -/
def Phi (N n : Nat) (code : Nat → List (Instr α)) (a : Nat) (s : State α) : α :=
  s.shared a + sumTo N (fun w => (s.pc w).pend code a) + tailSum (fun i => pendL a (code i)) s.idx (n - s.idx)

structure PInv (N n : Nat) (code : Nat → List (Instr α)) (tot : Nat → α) (s : State α) : Prop where
  phi : (∃ w, w < N ∧ s.pc w = .failed) ∨ ∀ a, Phi N n code a s = tot a

theorem Phi_stepW {N n : Nat} {code : Nat → List (Instr α)} {s : State α} {w : Nat} (hw : w < N)
    (hr : RInv n s) (hl : LInv s) (a : Nat) : Phi N n code a (stepW n code s w) = Phi N n code a s := by
  unfold stepW Phi
  split
  · split
    · exact sumTo_upd_eq hw _ _ _ (by simp [PC.pend, *])
    · rfl
  · exact sumTo_upd_eq hw _ _ _ (by simp [PC.pend, *])
  · rename_i i hpc
    split
    · exact sumTo_upd_eq hw _ _ _ (by simp [PC.pend, *])
    · rename_i hni
      have hi : i = s.idx := hr.read_idx w i hpc
      apply sumTo_upd_eq hw
      simp only [PC.pend, hpc]
      subst hi
      have : n - s.idx = (n - (s.idx + 1)) + 1 := by omega
      rw [this, tailSum, CAM.add_zero]
      ac_rfl
  · exact sumTo_upd_eq hw _ _ _ (by simp [PC.pend, *])
  · exact sumTo_upd_eq hw _ _ _ (by simp [PC.pend, pendL, *])
  · exact sumTo_upd_eq hw _ _ _ (by simp [PC.pend, pendL, *])
  · split
    · exact sumTo_upd_eq hw _ _ _ (by simp [PC.pend, pendL, *])
    · rfl
  · exact sumTo_upd_eq hw _ _ _ (by simp [PC.pend, pendL, *])
  · exact sumTo_upd_eq hw _ _ _ (by simp [PC.pend, pendL, *])
  · exact sumTo_upd_eq hw _ _ _ (by simp [PC.pend, pendL, *])
  · rename_i i h b v tmp r hpc
    have ht : tmp = s.shared b := hl.tmp_ok w i h b v tmp r hpc
    apply sumTo_upd_eq hw
    simp only [PC.pend, hpc]
    by_cases hb : b = a
    · subst hb
      simp only [upd_same, if_true, ht]
      ac_rfl
    · have : a ≠ b := fun h => hb h.symm
      simp only [upd_other _ _ _ _ this, hb, if_false, cam_zero_add]
  · rfl
  · rfl

theorem PInv.applyEv {N n : Nat} {code : Nat → List (Instr α)} {tot : Nat → α} {s : State α}
    (hr : RInv n s) (hl : LInv s) (hp : PInv N n code tot s) (e : Ev) : PInv N n code tot (applyEv N n code s e) := by
  cases e with
  | step w =>
    simp only [C16.applyEv]
    split
    · rename_i hw
      constructor
      rcases hp.phi with ⟨w0, hw0, h0⟩ | hphi
      · exact .inl ⟨w0, hw0, failed_stepW w w0 h0⟩
      · exact .inr fun a => by rw [Phi_stepW hw.1 hr hl a]; exact hphi a
    · exact hp
  | kill w =>
    simp only [C16.applyEv]
    split
    · exact ⟨hp.phi⟩
    · exact hp
  | raise w =>
    simp only [C16.applyEv]
    split
    · rename_i hw
      exact ⟨.inl ⟨w, hw.1, by simp⟩⟩
    · exact hp

theorem execI_fold_shared (a : Nat) (c : List (Instr α)) (st : (Nat → α) × (Nat → Option α)) :
    (c.foldl execI st).1 a = st.1 a + pendL a c := by
  induction c generalizing st with
  | nil => simp [pendL, CAM.add_zero]
  | cons x r ih =>
    rw [List.foldl_cons, ih]
    cases x with
    | rmw b v =>
      simp only [execI, pendL]
      by_cases hb : b = a
      · subst hb; simp only [upd_same, if_true]; ac_rfl
      · have : a ≠ b := fun h => hb h.symm
        simp only [upd_other _ _ _ _ this, hb, if_false, cam_zero_add]
    | _ => simp [execI, pendL]

theorem serial_shared (n : Nat) (code : Nat → List (Instr α)) (sh : Nat → α) (sl : Nat → Option α) (a : Nat) :
    (serial n code sh sl).1 a = sh a + tailSum (fun i => pendL a (code i)) 0 n := by
  induction n with
  | zero => simp [serial, tailSum, CAM.add_zero]
  | succ n ih =>
    have : serial (n+1) code sh sl = (code n).foldl execI (serial n code sh sl) := by
      simp [serial, List.range_succ, List.foldl_append]
    rw [this, execI_fold_shared, ih, tailSum_last]
    simp only [Nat.zero_add]
    ac_rfl

theorem Phi_init (N n : Nat) (code : Nat → List (Instr α)) (sh : Nat → α) (sl : Nat → Option α) (a : Nat) :
    Phi N n code a (init sh sl) = (serial n code sh sl).1 a := by
  rw [serial_shared]
  simp only [Phi, C16.init, Nat.sub_zero]
  rw [sumTo_zero (fun j _ => by simp [PC.pend]), CAM.add_zero]

theorem Phi_allDone {N n : Nat} {code : Nat → List (Instr α)} {s : State α} (hN : 0 < N) (hr : RInv n s)
    (hd : AllDone N s) (a : Nat) : Phi N n code a s = s.shared a := by
  have : s.idx = n := hr.done_idx 0 (hd 0 hN).1
  simp only [Phi, this, Nat.sub_self, tailSum]
  rw [sumTo_zero (fun j hj => by simp [PC.pend, (hd j hj).1]), CAM.add_zero, CAM.add_zero]

end NutilsVerif.C16
