import NutilsVerif.Model.C08
import Mathlib.Tactic.Ring
import Mathlib.Tactic.FieldSimp
import Mathlib.Tactic.Linarith
import Mathlib.Tactic.LinearCombination
import Mathlib.Algebra.Order.Field.Rat
/-!
# C08 — statements about the executable model for *all* rational inputs (not only the extracted tables)
-/
namespace NutilsVerif.C08

/-! ## `numeric.ext` -/

theorem numericExt_orth1 : (numericExt [[]]).map (tMulVec [[]] 0) = some [] := by
  simp [numericExt, tMulVec, transpose, List.range, List.range.loop]

theorem numericExt_orth2 (a b : Rat) : (numericExt [[a],[b]]).map (tMulVec [[a],[b]] 1) = some [0] := by
  simp [numericExt, tMulVec, transpose, col, dot, vsum, List.range, List.range.loop]
  ring

theorem numericExt_orth3 (a b c d e f : Rat) :
    (numericExt [[a,b],[c,d],[e,f]]).map (tMulVec [[a,b],[c,d],[e,f]] 2) = some [0, 0] := by
  simp [numericExt, tMulVec, transpose, col, dot, vsum, List.range, List.range.loop]
  constructor <;> ring

theorem numericExt_det1 :
    ∃ x, numericExt [[]] = some x ∧ det 1 (prependCol x [[]]) = dot x x ∧ dot x x = det 0 (gram [[]] 0) := by
  refine ⟨_, rfl, ?_, ?_⟩ <;> simp [det, prependCol, dot, vsum, List.range, List.range.loop]

theorem numericExt_det2 (a b : Rat) :
    ∃ x, numericExt [[a],[b]] = some x ∧ det 2 (prependCol x [[a],[b]]) = dot x x
      ∧ dot x x = det 1 (gram [[a],[b]] 1) := by
  refine ⟨_, rfl, ?_, ?_⟩
  · simp [det, prependCol, dot, vsum, List.range, List.range.loop]
  · simp [det, gram, matMul, transpose, col, dot, vsum, List.range, List.range.loop]
    ring

theorem numericExt_det3 (a b c d e f : Rat) :
    ∃ x, numericExt [[a,b],[c,d],[e,f]] = some x ∧ det 3 (prependCol x [[a,b],[c,d],[e,f]]) = dot x x
      ∧ dot x x = det 2 (gram [[a,b],[c,d],[e,f]] 2) := by
  refine ⟨_, rfl, ?_, ?_⟩
  · simp [det, prependCol, dot, vsum, List.range, List.range.loop, List.eraseIdx]
    ring
  · simp [det, gram, matMul, transpose, col, dot, vsum, List.range, List.range.loop, List.eraseIdx]
    ring

theorem vneg_vneg (v : Vec) : vneg (vneg v) = v := by
  simp [vneg, List.map_map]

/-- flipping an edge negates its extension vector -/
theorem ext_flipped (u : Updim) : u.flipped.ext = u.ext.map vneg := by
  cases u with
  | mk l o f =>
    cases h : numericExt l <;> cases f <;> simp [Updim.flipped, Updim.ext, h, vneg_vneg]

/-! ## tensor-product edges inherit the extension vector of the factor edge (zero padded) -/

theorem tensorEdge1_ext_0_1 (o : Vec) (f : Bool) :
    (tensorEdge1 ⟨[[]], o, f⟩ 1).ext = (Updim.ext ⟨[[]], o, f⟩).map (· ++ [0]) := by
  cases f <;> simp [tensorEdge1, Updim.ext, Updim.fromdims, blockdiag, eye, unitVec, zeros, numericExt, vneg, List.range, List.range.loop]

theorem tensorEdge1_ext_0_2 (o : Vec) (f : Bool) :
    (tensorEdge1 ⟨[[]], o, f⟩ 2).ext = (Updim.ext ⟨[[]], o, f⟩).map (· ++ [0, 0]) := by
  cases f <;> simp [tensorEdge1, Updim.ext, Updim.fromdims, blockdiag, eye, unitVec, zeros, numericExt, vneg, List.range, List.range.loop]

theorem tensorEdge1_ext_1_1 (a b : Rat) (o : Vec) (f : Bool) :
    (tensorEdge1 ⟨[[a],[b]], o, f⟩ 1).ext = (Updim.ext ⟨[[a],[b]], o, f⟩).map (· ++ [0]) := by
  cases f <;> simp [tensorEdge1, Updim.ext, Updim.fromdims, blockdiag, eye, unitVec, zeros, numericExt, vneg, List.range, List.range.loop]

theorem tensorEdge2_ext_1_0 (o : Vec) (f : Bool) :
    (tensorEdge2 1 ⟨[[]], o, f⟩).ext = (Updim.ext ⟨[[]], o, f⟩).map ([0] ++ ·) := by
  cases f <;> simp [tensorEdge2, Updim.ext, Updim.fromdims, blockdiag, eye, unitVec, zeros, numericExt, vneg, List.range, List.range.loop]

theorem tensorEdge2_ext_2_0 (o : Vec) (f : Bool) :
    (tensorEdge2 2 ⟨[[]], o, f⟩).ext = (Updim.ext ⟨[[]], o, f⟩).map ([0, 0] ++ ·) := by
  cases f <;> simp [tensorEdge2, Updim.ext, Updim.fromdims, blockdiag, eye, unitVec, zeros, numericExt, vneg, List.range, List.range.loop]

theorem tensorEdge2_ext_1_1 (a b : Rat) (o : Vec) (f : Bool) :
    (tensorEdge2 1 ⟨[[a],[b]], o, f⟩).ext = (Updim.ext ⟨[[a],[b]], o, f⟩).map ([0] ++ ·) := by
  cases f <;> simp [tensorEdge2, Updim.ext, Updim.fromdims, blockdiag, eye, unitVec, zeros, numericExt, vneg, List.range, List.range.loop]

/-! ## composite edges keep the side: `(C v) · ext(C ∘ E) = |det C| · (v · ext E)` -/

theorem scaledUpdim_side_2 (p q r s a b : Rat) (oc oe : Vec) (f : Bool) (v0 v1 : Rat) :
    ∃ x y, (scaledUpdim ⟨[[p,q],[r,s]], oc⟩ ⟨[[a],[b]], oe, f⟩).ext = some x ∧ Updim.ext ⟨[[a],[b]], oe, f⟩ = some y ∧
      dot (matVec [[p,q],[r,s]] [v0, v1]) x = absRat (det 2 [[p,q],[r,s]]) * dot [v0, v1] y := by
  have hd : det 2 [[p,q],[r,s]] = p*s - q*r := by
    simp [det, vsum, List.range, List.range.loop, List.eraseIdx]; ring
  refine ⟨_, _, rfl, rfl, ?_⟩
  by_cases h : p*s - q*r < 0 <;> cases f <;>
    simp [scaledUpdim, Square.isflipped, Square.ndims, Updim.fromdims, matMul, transpose, col, matVec, dot, vsum, vneg,
      absRat, hd, h, List.range, List.range.loop] <;> ring

theorem scaledUpdim_side_3 (c00 c01 c02 c10 c11 c12 c20 c21 c22 a b c d e g : Rat) (oc oe : Vec) (f : Bool) (v0 v1 v2 : Rat) :
    ∃ x y, (scaledUpdim ⟨[[c00,c01,c02],[c10,c11,c12],[c20,c21,c22]], oc⟩ ⟨[[a,b],[c,d],[e,g]], oe, f⟩).ext = some x ∧
      Updim.ext ⟨[[a,b],[c,d],[e,g]], oe, f⟩ = some y ∧
      dot (matVec [[c00,c01,c02],[c10,c11,c12],[c20,c21,c22]] [v0, v1, v2]) x
        = absRat (det 3 [[c00,c01,c02],[c10,c11,c12],[c20,c21,c22]]) * dot [v0, v1, v2] y := by
  have hd : det 3 [[c00,c01,c02],[c10,c11,c12],[c20,c21,c22]]
      = c00*(c11*c22 - c12*c21) - c01*(c10*c22 - c12*c20) + c02*(c10*c21 - c11*c20) := by
    simp [det, vsum, List.range, List.range.loop, List.eraseIdx]; ring
  refine ⟨_, _, rfl, rfl, ?_⟩
  by_cases h : c00*(c11*c22 - c12*c21) - c01*(c10*c22 - c12*c20) + c02*(c10*c21 - c11*c20) < 0 <;> cases f <;>
    simp [scaledUpdim, Square.isflipped, Square.ndims, Updim.fromdims, matMul, transpose, col, matVec, dot, vsum, vneg,
      absRat, hd, h, List.range, List.range.loop] <;> ring

/-! ## `Orthonormal` before normalisation, codimension 1 (the case `_Normal` uses) -/

theorem div_as_mul {D x : Rat} (h : D ≠ 0) (hx : D * x = 1) (t : Rat) : t / D = t * x := by
  rw [div_eq_iff h]; linear_combination (-t) * hx

/-- 2-D, one tangent: the projected vector is orthogonal to the tangent -/
theorem projectOut_orth_2_1 (a b n0 n1 : Rat) (h : a*a + b*b ≠ 0) :
    (projectOut [[a],[b]] 1 [n0, n1]).map (tMulVec [[a],[b]] 1) = some [0] := by
  have hd : det 1 (gram [[a],[b]] 1) = a*a + b*b := by
    simp [det, gram, matMul, transpose, col, dot, vsum, List.range, List.range.loop]
  obtain ⟨x, hx⟩ : ∃ x, (a*a + b*b) * x = 1 := ⟨_, mul_inv_cancel₀ h⟩
  simp only [projectOut, inverse, hd, if_neg h, Option.bind_eq_bind, Option.bind_some, Option.pure_def, Option.map_some,
    div_as_mul h hx]
  simp [tMulVec, transpose, col, dot, vsum, vsub, matVec, gram, matMul, minorAt, det, List.range, List.range.loop]
  linear_combination (-(a*n0 + b*n1)) * hx

/-- 3-D, two tangents: the projected vector is orthogonal to both tangents -/
theorem projectOut_orth_3_2 (a b c d e f n0 n1 n2 : Rat)
    (h : (a*a + c*c + e*e) * (b*b + d*d + f*f) - (a*b + c*d + e*f) * (a*b + c*d + e*f) ≠ 0) :
    (projectOut [[a,b],[c,d],[e,f]] 2 [n0, n1, n2]).map (tMulVec [[a,b],[c,d],[e,f]] 2) = some [0, 0] := by
  have hd : det 2 (gram [[a,b],[c,d],[e,f]] 2)
      = (a*a + c*c + e*e) * (b*b + d*d + f*f) - (a*b + c*d + e*f) * (a*b + c*d + e*f) := by
    simp [det, gram, matMul, transpose, col, dot, vsum, List.range, List.range.loop, List.eraseIdx]; ring
  obtain ⟨x, hx⟩ : ∃ x, ((a*a + c*c + e*e) * (b*b + d*d + f*f) - (a*b + c*d + e*f) * (a*b + c*d + e*f)) * x = 1 :=
    ⟨_, mul_inv_cancel₀ h⟩
  simp only [projectOut, inverse, hd, if_neg h, Option.bind_eq_bind, Option.bind_some, Option.pure_def, Option.map_some,
    div_as_mul h hx]
  simp [tMulVec, transpose, col, dot, vsum, vsub, matVec, gram, matMul, minorAt, det, List.range, List.range.loop, List.eraseIdx]
  constructor
  · linear_combination (-(a*n0 + c*n1 + e*n2)) * hx
  · linear_combination (-(b*n0 + d*n1 + f*n2)) * hx

/-- `_Gradient` for 2 × 2 Jacobians: the computed row `g` solves `g · J = df` -/
theorem gradientRow_2 (j00 j01 j10 j11 d0 d1 : Rat) (h : j00*j11 - j01*j10 ≠ 0) :
    (gradientRow [d0, d1] [[j00,j01],[j10,j11]] 2).map (tMulVec [[j00,j01],[j10,j11]] 2) = some [d0, d1] := by
  have hd : det 2 [[j00,j01],[j10,j11]] = j00*j11 - j01*j10 := by
    simp [det, vsum, List.range, List.range.loop, List.eraseIdx]; ring
  obtain ⟨x, hx⟩ : ∃ x, (j00*j11 - j01*j10) * x = 1 := ⟨_, mul_inv_cancel₀ h⟩
  simp only [gradientRow, inverse, hd, if_neg h, Option.bind_eq_bind, Option.bind_some, Option.pure_def, Option.map_some,
    div_as_mul h hx]
  simp [tMulVec, transpose, col, dot, vsum, minorAt, det, List.range, List.range.loop, List.eraseIdx]
  constructor
  · linear_combination d0 * hx
  · linear_combination d1 * hx

end NutilsVerif.C08
