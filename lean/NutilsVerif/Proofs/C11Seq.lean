import NutilsVerif.Proofs.C11Normal
import NutilsVerif.Model.C11SeqSpec
/-!
# C11 — `index_with_tail` finds every own element of every well-formed nesting, with an equivalent remainder
-/
namespace NutilsVerif.C11

/-! ## list helpers -/

theorem takeWhile_lt_sorted (idx : List Nat) (h : idx.Pairwise (· < ·)) (i : Nat) (hi : i < idx.length) :
    (idx.takeWhile (· < idx[i])).length = i := by
  induction idx generalizing i with
  | nil => simp at hi
  | cons a t ih =>
    rw [List.pairwise_cons] at h
    cases i with
    | zero => simp
    | succ i =>
      have hi' : i < t.length := by simpa using hi
      have hlt : a < t[i] := h.1 _ (List.getElem_mem hi')
      simp only [List.getElem_cons_succ, List.takeWhile_cons, hlt, decide_true, if_true, List.length_cons]
      rw [ih h.2 i hi']

theorem indexOfItem?_of_nodup (d : Item) (dl : List Item) (k : Nat) (hn : dl.Nodup) (hk : dl[k]? = some d) :
    indexOfItem? d dl = some k := by
  obtain ⟨hlt, rfl⟩ := List.getElem?_eq_some_iff.1 hk
  have hm : dl[k] ∈ dl := List.getElem_mem hlt
  simp only [indexOfItem?, List.contains_iff_mem, hm, if_true, Option.some.injEq]
  exact hn.idxOf_getElem k hlt

theorem derivedLocate_spec (dts : List (List Item)) (c i : Nat) (hi : i < (dts.map List.length).sum) :
    ∃ ip k dl d, derivedLocate dts c i = some (c + ip, d) ∧ dts[ip]? = some dl ∧ dl[k]? = some d ∧
      derivedOffset dts ip + k = i := by
  induction dts generalizing c i with
  | nil => simp at hi
  | cons l rest ih =>
    simp only [derivedLocate]
    split
    · rename_i hlt
      exact ⟨0, i, l, l[i], by simp [List.getElem?_eq_getElem hlt], rfl, by simp [List.getElem?_eq_getElem hlt], by simp [derivedOffset]⟩
    · rename_i hge
      have hi' : i - l.length < (rest.map List.length).sum := by simp at hi; omega
      obtain ⟨ip, k, dl, d, h1, h2, h3, h4⟩ := ih (c + 1) (i - l.length) hi'
      refine ⟨ip + 1, k, dl, d, ?_, by simpa using h2, h3, ?_⟩
      · rw [h1]; congr 2; omega
      · simp only [derivedOffset, List.take_succ_cons, List.map_cons, List.sum_cons] at h4 ⊢; omega

/-! ## the theorem -/

/-- what a successful lookup of element `i` extended by `t` returns -/
def Found (G : Item → Prop) (key : Item → Nat) (s : TSeq) (i : Nat) (t : Chain) (fdt : Nat) : Prop :=
  ∃ ch t', s.get i = some ch ∧ s.iwt key (ch ++ t) = .ok (i, t') ∧ GFits G t' s.fd fdt ∧ Eqv t' t

theorem GFits.cons {G : Item → Prop} {d : Item} {t : Chain} {fd fdt : Nat} (hd : G d) (hw : d.wf = true) (hfd : d.fd = fd)
    (ht : GFits G t fd fdt) : GFits G (d :: t) d.td fdt := by
  refine ⟨.cons d t fdt hw (by rw [hfd]; exact ht.1), ?_⟩
  intro a ha
  rcases List.mem_cons.1 ha with rfl | ha
  · exact hd
  · exact ht.2 a ha

theorem GFits.tail {G : Item → Prop} {d : Item} {t : Chain} {td fdt : Nat} (h : GFits G (d :: t) td fdt) :
    GFits G t d.fd fdt :=
  ⟨(h.1.cons_inv).2.2, fun a ha => h.2 a (List.mem_cons_of_mem _ ha)⟩

/-- the derived layer: the parent found element `ip` with a remainder equivalent to `d :: t`; then the derived transform
`d` is recovered as the head of the re-normalised remainder -/
theorem derived_step {G : Item → Prop} (hG : RevSys G) {pfd fd fdt : Nat} {d : Item} {t t1 : Chain}
    (hd : DerivedItemOK G pfd fd d) (ht : GFits G t fd fdt) (h1 : GFits G t1 pfd fdt) (he : Eqv t1 (d :: t)) :
    ∃ rest, (if fd = pfd then uppermost t1 else canonical t1) = d :: rest ∧ t1.isEmpty = false ∧
      GFits G rest fd fdt ∧ Eqv rest t := by
  obtain ⟨gd, htd, hfd, hsq, hup⟩ := hd
  have hdt : GFits G (d :: t) pfd fdt := by rw [← htd]; exact GFits.cons gd (hG.wf d gd) hfd ht
  have hne : t1.isEmpty = false := by
    have := he.length_eq
    cases t1 with
    | nil => simp at this
    | cons _ _ => rfl
  by_cases hsame : fd = pfd
  · have hnu := hsq hsame
    refine ⟨nfUp t, ?_, hne, ?_, ?_⟩
    · rw [if_pos hsame, uppermost_eq_nfUp t1 pfd fdt h1.1, hG.eqv_nfUp h1 hdt he, nfUp, pushUp_notUp hnu]
    · exact hG.nfUp_fits ht
    · exact hG.nfDown_nfUp ht
  · have hu := hup hsame
    refine ⟨nfDown t, ?_, hne, ?_, ?_⟩
    · rw [if_neg hsame, canonical_eq_nfDown t1 pfd fdt h1.1, he, nfDown, pushDn_up hu]
    · exact hG.nfDown_fits ht
    · exact nfDown_idem t

theorem iwt_get {G : Item → Prop} (hG : RevSys G) (key : Item → Nat) (s : TSeq) :
    s.WF G key → ∀ i, i < s.len → ∀ t fdt, GFits G t s.fd fdt → Found G key s i t fdt := by
  induction s with
  | empty td fd => intro _ i hi; simp [TSeq.len] at hi
  | plain chains td fd => intro h; exact absurd h (by simp [TSeq.WF])
  | structured root axes nrefine => intro h; exact absurd h (by simp [TSeq.WF])
  | index nd len off =>
    intro _ i hi t fdt ht
    simp only [TSeq.len] at hi
    refine ⟨[.sq (.index nd (off + (i : Int)))], t, by simp [TSeq.get, hi], ?_, ht, rfl⟩
    simp only [List.cons_append, List.nil_append, TSeq.iwt]
    have h1 : off + (i : Int) - off = (i : Int) := by omega
    simp [h1, hi]
  | masked p idx ih =>
    intro hw i hi t fdt ht
    simp only [TSeq.len] at hi
    obtain ⟨hp, hsort, hrange⟩ := hw
    obtain ⟨ch, t', hg, hl, hf, he⟩ := ih hp idx[i] (hrange _ (List.getElem_mem hi)) t fdt ht
    refine ⟨ch, t', by simp [TSeq.get, List.getElem?_eq_getElem hi, hg], ?_, hf, he⟩
    simp only [TSeq.iwt, hl, takeWhile_lt_sorted idx hsort i hi, List.getElem?_eq_getElem hi, if_true]
  | reordered p idx ih =>
    intro hw i hi t fdt ht
    obtain ⟨hp, hnd, hrange, hlen⟩ := hw
    simp only [TSeq.len] at hi
    have hi' : i < idx.length := by omega
    obtain ⟨ch, t', hg, hl, hf, he⟩ := ih hp idx[i] (hrange _ (List.getElem_mem hi')) t fdt ht
    refine ⟨ch, t', by simp [TSeq.get, List.getElem?_eq_getElem hi', hg], ?_, hf, he⟩
    simp only [TSeq.iwt, hl, hnd.idxOf_getElem i hi']
  | derived p dts fd ih =>
    intro hw i hi t fdt ht
    obtain ⟨hp, hlen, hitems⟩ := hw
    simp only [TSeq.len] at hi
    simp only [TSeq.fd] at ht
    obtain ⟨ip, k, dl, d, hloc, hdl, hdk, hoff⟩ := derivedLocate_spec dts 0 i hi
    simp only [Nat.zero_add] at hloc
    have hip : ip < p.len := by
      rw [← hlen]; exact (List.getElem?_eq_some_iff.1 hdl).1
    have hdlmem : dl ∈ dts := List.mem_of_getElem? hdl
    have hdmem : d ∈ dl := List.mem_of_getElem? hdk
    obtain ⟨hnodup, hok⟩ := hitems dl hdlmem
    have hdok := hok d hdmem
    have hdt : GFits G (d :: t) p.fd fdt := by
      rw [← hdok.2.1]; exact GFits.cons hdok.1 (hG.wf d hdok.1) hdok.2.2.1 ht
    obtain ⟨ch, t1, hg, hl, hf1, he1⟩ := ih hp ip hip (d :: t) fdt hdt
    obtain ⟨rest, hrw, hne, hfr, her⟩ := derived_step hG hdok ht hf1 he1
    refine ⟨ch ++ [d], rest, by simp [TSeq.get, hloc, hg], ?_, hfr, her⟩
    have happ : ch ++ [d] ++ t = ch ++ d :: t := by simp
    simp only [TSeq.iwt, happ, hl, hne, hrw, hdl, indexOfItem?_of_nodup d dl k hnodup hdk, hoff]
    simp
  | uniform p dts fd ih =>
    intro hw i hi t fdt ht
    obtain ⟨hp, hnodup, hok⟩ := hw
    simp only [TSeq.len] at hi
    simp only [TSeq.fd] at ht
    have hpos : 0 < dts.length := by
      rcases Nat.eq_zero_or_pos dts.length with h0 | h0
      · rw [h0] at hi; simp at hi
      · exact h0
    have hk : i % dts.length < dts.length := Nat.mod_lt _ hpos
    have hip : i / dts.length < p.len := by
      rw [Nat.div_lt_iff_lt_mul hpos]; exact hi
    have hdk : dts[i % dts.length]? = some dts[i % dts.length] := List.getElem?_eq_getElem hk
    have hdok := hok _ (List.getElem_mem hk)
    have hdt : GFits G (dts[i % dts.length] :: t) p.fd fdt := by
      rw [← hdok.2.1]; exact GFits.cons hdok.1 (hG.wf _ hdok.1) hdok.2.2.1 ht
    obtain ⟨ch, t1, hg, hl, hf1, he1⟩ := ih hp _ hip _ fdt hdt
    obtain ⟨rest, hrw, hne, hfr, her⟩ := derived_step hG hdok ht hf1 he1
    refine ⟨ch ++ [dts[i % dts.length]], rest, ?_, ?_, hfr, her⟩
    · simp [TSeq.get, Nat.ne_of_gt hpos, hg, hdk]
    · have happ : ch ++ [dts[i % dts.length]] ++ t = ch ++ dts[i % dts.length] :: t := by simp
      simp only [TSeq.iwt, happ, hl, hne, hrw, indexOfItem?_of_nodup _ dts _ hnodup hdk]
      have : i / dts.length * dts.length + i % dts.length = i := Nat.div_add_mod' i dts.length
      simp [this]
  | chain a b iha ihb =>
    intro hw i hi t fdt ht
    obtain ⟨ha, hb, hfd, hdis⟩ := hw
    simp only [TSeq.len] at hi
    simp only [TSeq.fd] at ht
    by_cases hia : i < a.len
    · obtain ⟨ch, t', hg, hl, hf, he⟩ := iha ha i hia t fdt ht
      exact ⟨ch, t', by simp [TSeq.get, hia, hg], by simp [TSeq.iwt, hl], hf, he⟩
    · have hib : i - a.len < b.len := by omega
      obtain ⟨ch, t', hg, hl, hf, he⟩ := ihb hb (i - a.len) hib t fdt (by rw [← hfd]; exact ht)
      refine ⟨ch, t', by simp [TSeq.get, hia, hg], ?_, by simpa [TSeq.fd, hfd] using hf, he⟩
      have hrej := hdis (i - a.len) ch hg t fdt (by rw [← hfd]; exact ht)
      simp only [TSeq.iwt, hrej, hl]
      congr 2; omega

end NutilsVerif.C11
