import NutilsVerif.Proofs.C15Valid
/-!
# C15 — `numeric.compress_indices` computes `searchsorted` exactly on sorted in-range input and rejects the rest
-/
namespace NutilsVerif.C15

/-- the `step` vector of the code, written recursively: differences along `prev, idx…, n` -/
def stepsFrom (n : Int) : Int → List Int → List Int
  | prev, [] => [n - prev]
  | prev, a :: t => (a - prev) :: stepsFrom n a t

def chainOK (n : Int) : Int → List Int → Prop
  | prev, [] => prev ≤ n
  | prev, a :: t => prev ≤ a ∧ chainOK n a t

theorem step_eq (n : Int) : ∀ (t : List Int) (a prev : Int),
    (a - prev) :: (List.zipWith (fun x y => y - x) (a :: t) t ++ [n - ((a :: t).getLast?.getD a)]) = stepsFrom n prev (a :: t)
  | [], a, prev => by simp [stepsFrom]
  | b :: t', a, prev => by
    have ih := step_eq n t' b a
    simp only [stepsFrom] at ih ⊢
    simp only [List.zipWith_cons_cons, List.cons_append, List.getLast?_cons_cons]
    have e : (b :: t').getLast?.getD a = (b :: t').getLast?.getD b := by simp [List.getLast?_cons]
    congr 1
    try (rw [e]; exact ih)

theorem steps_nonneg (n : Int) : ∀ (idx : List Int) (prev : Int),
    (stepsFrom n prev idx).any (· < 0) = false ↔ chainOK n prev idx
  | [], prev => by simp [stepsFrom, chainOK]
  | a :: t, prev => by
    simp only [stepsFrom, chainOK, List.any_cons, Bool.or_eq_false_iff, steps_nonneg n t a]
    simp

theorem chain_iff (n : Int) : ∀ (t : List Int) (a prev : Int),
    chainOK n prev (a :: t) ↔ prev ≤ a ∧ monotone (a :: t) = true ∧ (a :: t).getLast?.getD a ≤ n
  | [], a, prev => by simp [chainOK, monotone]
  | b :: t', a, prev => by
    have ih := chain_iff n t' b a
    have e : (b :: t').getLast?.getD a = (b :: t').getLast?.getD b := by simp [List.getLast?_cons]
    simp only [chainOK] at ih ⊢
    rw [ih]
    simp only [monotone, List.getLast?_cons_cons, Bool.and_eq_true, decide_eq_true_eq, e]
    constructor
    · rintro ⟨h1, h2, h3, h4⟩; exact ⟨h1, ⟨h2, h3⟩, h4⟩
    · rintro ⟨h1, ⟨h2, h3⟩, h4⟩; exact ⟨h1, h2, h3, h4⟩

theorem chain_le (n : Int) : ∀ (idx : List Int) (prev : Int), chainOK n prev idx → prev ≤ n
  | [], _, h => h
  | a :: t, prev, h => by have := chain_le n t a h.2; have := h.1; omega

theorem chain_ge (n : Int) : ∀ (idx : List Int) (prev : Int), chainOK n prev idx → ∀ x ∈ idx, prev ≤ x
  | [], _, _, x, hx => by simp at hx
  | a :: t, prev, h, x, hx => by
    rcases List.mem_cons.1 hx with rfl | hx
    · exact h.1
    · have := chain_ge n t a h.2 x hx; have := h.1; omega

theorem mono_le_last : ∀ (t : List Int) (a : Int), monotone (a :: t) = true →
    ∀ x ∈ a :: t, x ≤ (a :: t).getLast?.getD a
  | [], a, _, x, hx => by simp at hx; subst hx; simp
  | b :: t', a, h, x, hx => by
    simp only [monotone, Bool.and_eq_true, decide_eq_true_eq] at h
    have ih := mono_le_last t' b h.2
    have e : (a :: b :: t').getLast?.getD a = (b :: t').getLast?.getD b := by simp [List.getLast?_cons]
    rw [e]
    rcases List.mem_cons.1 hx with rfl | hx
    · have := ih b (by simp); omega
    · exact ih x hx

/-- the `numpy.repeat(nz, step[nz])` expansion with running value `i0` -/
def expand (i0 : Nat) (steps : List Int) : List Int :=
  ((steps.zipIdx i0).map fun (p : Int × Nat) => List.replicate p.1.toNat (p.2 : Int)).flatten

theorem expand_cons (i0 : Nat) (s : Int) (t : List Int) :
    expand i0 (s :: t) = List.replicate s.toNat (i0:Int) ++ expand (i0+1) t := by
  simp [expand, List.zipIdx_cons]

theorem map_range_const {β : Type} (m : Nat) (c : β) (f : Nat → β) (h : ∀ d, d < m → f d = c) :
    (List.range m).map f = List.replicate m c := by
  apply List.ext_getElem
  · simp
  · intro i h1 _; simp at h1; simp [h i h1]

/-- the expansion lists, for every position `k` between `prev+1` and `n`, the number of indices below `k` -/
theorem expand_spec (n : Int) : ∀ (idx : List Int) (prev : Int) (i0 : Nat), chainOK n prev idx →
    expand i0 (stepsFrom n prev idx) =
      (List.range (n - prev).toNat).map fun (d : Nat) => (i0:Int) + ((idx.filter (· < prev + 1 + (d:Int))).length : Int)
  | [], prev, i0, _ => by
    rw [stepsFrom, expand_cons]
    simp only [expand, List.zipIdx_nil, List.map_nil, List.flatten_nil, List.append_nil]
    symm
    apply map_range_const
    intro d _; simp
  | a :: t, prev, i0, h => by
    have ih := expand_spec n t a (i0+1) h.2
    have han := chain_le n t a h.2
    have hpa := h.1
    have hge := chain_ge n t a h.2
    simp only [stepsFrom, expand_cons, ih]
    have e : (n - prev).toNat = (a - prev).toNat + (n - a).toNat := by omega
    rw [e, List.range_add, List.map_append, List.map_map]
    congr 1
    · symm
      apply map_range_const
      intro d hd
      have : (a :: t).filter (· < prev + 1 + (d:Int)) = [] := by
        rw [List.filter_eq_nil_iff]
        intro x hx
        rcases List.mem_cons.1 hx with rfl | hx
        · simp; omega
        · have := hge x hx; simp; omega
      simp [this]
    · apply List.map_congr_left
      intro d _
      simp only [Function.comp]
      have e1 : prev + 1 + (((a - prev).toNat + d : Nat) : Int) = a + 1 + (d:Int) := by omega
      have e2 : decide (a < a + 1 + (d:Int)) = true := by simp; omega
      rw [e1, List.filter_cons]
      simp only [e2, if_true, List.length_cons]
      omega

theorem inRange_of_mono (a : Int) (t : List Int) (n : Nat) (hm : monotone (a :: t) = true) (h0 : 0 ≤ a)
    (hl : (a :: t).getLast?.getD a < (n:Int)) : inRange (a :: t) n = true := by
  unfold inRange
  rw [List.all_eq_true]
  intro x hx
  have h1 := mono_le_last t a hm x hx
  have h2 : a ≤ x := by
    rcases List.mem_cons.1 hx with rfl | hx
    · exact Int.le_refl _
    · exact mono_tail_ge t a hm x hx
  simp; omega

/-- **Theorem 4.** `compress_indices` succeeds exactly on sorted, in-range index vectors, then returns
`indices.searchsorted(arange(length+1))`; otherwise it fails with the documented error class. -/
theorem compress_eq_spec (idx : List Int) (n : Nat) : compressIndices idx n = compressSpec idx n := by
  cases idx with
  | nil =>
    simp only [compressIndices, compressSpec, monotone, inRange, List.all_nil, Bool.and_self, if_true, searchsortedAll]
    congr 1
    symm
    exact map_range_const _ _ _ (by intro d _; simp)
  | cons a t =>
    have hlast : (a :: t).getLast? = some ((a :: t).getLast?.getD a) := by simp [List.getLast?_cons]
    have hmemlast : (a :: t).getLast?.getD a ∈ a :: t := List.mem_of_getLast? hlast
    simp only [compressIndices, compressSpec]
    by_cases hb : (decide (a < 0) || decide ((a :: t).getLast?.getD a ≥ (n:Int))) = true
    · -- out of bounds
      have hnr : inRange (a :: t) n = false := by
        rw [Bool.eq_false_iff]
        intro hr
        unfold inRange at hr
        rw [List.all_eq_true] at hr
        have h1 := hr a (by simp)
        have h2 := hr _ hmemlast
        simp only [Bool.or_eq_true, decide_eq_true_eq, Bool.and_eq_true] at hb h1 h2
        omega
      rw [if_pos hb, hnr, hlast]
      try simp only [Bool.and_false, Bool.false_eq_true, if_false, List.head?_cons, hb, if_true]
    · rw [if_neg hb]
      have hb' : 0 ≤ a ∧ (a :: t).getLast?.getD a < (n:Int) := by
        simp only [Bool.or_eq_true, decide_eq_true_eq, not_or] at hb; omega
      have hstep : (a + 1) :: (List.zipWith (fun x y => y - x) (a :: t) (a :: t).tail ++
          [(n:Int) - (a :: t).getLast?.getD a]) = stepsFrom n (-1) (a :: t) := by
        have := step_eq n t a (-1)
        try simp only [List.tail_cons]
        rw [← this]; congr 1 <;> omega
      rw [hstep]
      by_cases hneg : (stepsFrom (n:Int) (-1) (a :: t)).any (· < 0) = true
      · rw [if_pos hneg]
        have hnm : monotone (a :: t) = false := by
          rw [Bool.eq_false_iff]
          intro hm
          have : chainOK n (-1) (a :: t) := (chain_iff n t a (-1)).2 ⟨by omega, hm, by omega⟩
          rw [← steps_nonneg] at this
          rw [this] at hneg; exact Bool.false_ne_true hneg
        rw [hnm, hlast]
        simp only [Bool.false_and, Bool.false_eq_true, if_false, List.head?_cons, hb]
      · rw [if_neg hneg]
        have hch : chainOK n (-1) (a :: t) := (steps_nonneg n _ _).1 (by simpa using hneg)
        have hm := ((chain_iff n t a (-1)).1 hch).2.1
        have hr := inRange_of_mono a t n hm hb'.1 hb'.2
        rw [hm, hr]
        simp only [Bool.and_self, if_true]
        congr 1
        have := expand_spec n (a :: t) (-1) 0 hch
        refine Eq.trans (show _ = expand 0 (stepsFrom n (-1) (a :: t)) from rfl) ?_
        rw [this]
        unfold searchsortedAll
        have e : ((n:Int) - -1).toNat = n + 1 := by omega
        rw [e]
        apply List.map_congr_left
        intro d _
        simp

end NutilsVerif.C15
