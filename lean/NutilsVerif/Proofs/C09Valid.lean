import NutilsVerif.Model.C09
import Mathlib.Data.List.Perm.Subperm
/-!
# C09 — the executable validity check decides `Valid`
-/
namespace NutilsVerif.C09

theorem isPermB_iff (l : List Nat) (n : Nat) : isPermB l n = true ↔ l.Perm (List.range n) := by
  unfold isPermB
  simp only [Bool.and_eq_true, beq_iff_eq, List.all_eq_true, List.mem_range, List.contains_iff_mem]
  constructor
  · rintro ⟨hlen, hall⟩
    have hsub : List.range n ⊆ l := fun x hx => hall x (List.mem_range.1 hx)
    have hsp := List.subperm_of_subset List.nodup_range hsub
    exact (hsp.perm_of_length_le (by simp [hlen])).symm
  · intro hp
    refine ⟨by simpa using hp.length_eq, fun x hx => hp.mem_iff.2 (List.mem_range.2 hx)⟩

theorem validB_iff (s : SampleExpr) : validB s = true ↔ Valid s := by
  induction s with
  | default t c => simp [validB, Valid]
  | custom p ix ih => simp [validB, Valid, ih, isPermB_iff]
  | add a b iha ihb => simp [validB, Valid, iha, ihb]
  | mul a b iha ihb => simp [validB, Valid, iha, ihb]
  | take p ind ih => simp [validB, Valid, ih]
  | zip a b iha ihb => simp [validB, Valid, iha, ihb, and_assoc]
  | empty => simp [validB, Valid]

end NutilsVerif.C09
