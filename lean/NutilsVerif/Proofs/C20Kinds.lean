import NutilsVerif.Proofs.C20Dim
/-!
# C20 — the dispatch handlers (helper lemmas)
-/
namespace NutilsVerif.C20

theorem wrap_val {V} (d : Pows) (v : V) : (wrap d v).val = v := by
  unfold wrap; split <;> rfl

theorem wrap_dim {V} (d : Pows) (v : V) : (wrap d v).dim = d := by
  unfold wrap; split
  · rename_i h; simp [Arg.dim, h]
  · rfl

theorem unpacked_val {V} (a : Arg V) : a.unpacked.val = a.val := rfl
theorem plain_val {V} (v : V) : (Arg.plain v).val = v := rfl
theorem plain_dim {V} (v : V) : (Arg.plain v : Arg V).dim = [] := rfl

theorem value_commutes_aux {V} (k : Kind) (op : List (Arg V) → V) (tuple : V → List V) (expo : Arg V → Option Rat)
    (args : List (Arg V)) (c : Call V) (h : apply k op tuple expo args = .ok c) :
    c.passed.map Arg.val = args.map Arg.val ∧
      c.result.map Arg.val = (if k = .evaluate then ((args.zip (tuple (op c.passed))).map (·.2)) else [op c.passed]) := by
  unfold apply at h
  split at h
  all_goals (try (repeat' split at h))
  all_goals (try (cases h; done))
  all_goals (simp only [Except.ok.injEq] at h; subst h; simp [call1, wrap_val, unpacked_val, plain_val])

/-- the dimension rule of every single-result handler, as a function of the operand dimensions -/
def ruleDim {V} (k : Kind) (expo : Arg V → Option Rat) (args : List (Arg V)) : Option Pows :=
  match k, args with
  | .unary, a0 :: _ => some a0.dim
  | .sample, [_, f] => some f.dim
  | .addLike, a0 :: _ :: _ => some a0.dim
  | .mulLike, a0 :: a1 :: _ => some (mul a0.dim a1.dim)
  | .divLike, a0 :: a1 :: _ => some (div a0.dim a1.dim)
  | .laplace, a0 :: a1 :: _ => some (div a0.dim (pow a1.dim 2))
  | .sqrt, a0 :: _ => some (pow a0.dim (1/2))
  | .setitem, a0 :: _ :: _ :: _ => some a0.dim
  | .powLike, a0 :: e :: _ => (expo e).map fun x => pow a0.dim x
  | .unaryOp, _ :: _ => some []
  | .binaryOp, _ :: _ :: _ => some []
  | .curvature, a0 :: _ => some (pow a0.dim (-1))
  | .field, a0 :: as => some ((as.map Arg.dim).foldl mul a0.dim)
  | .attribute, _ => some []
  | .interp, _ :: _ :: fp :: _ => some fp.dim
  | _, _ => none

theorem result_dim_aux {V} (k : Kind) (op : List (Arg V) → V) (tuple : V → List V) (expo : Arg V → Option Rat)
    (args : List (Arg V)) (c : Call V) (h : apply k op tuple expo args = .ok c) (hk : k ≠ .evaluate) :
    ∃ d, ruleDim k expo args = some d ∧ c.result.map Arg.dim = [d] := by
  unfold apply at h
  split at h
  all_goals (try (repeat' split at h))
  all_goals (try (cases h; done))
  all_goals (try (exact absurd rfl hk))
  all_goals (simp only [Except.ok.injEq] at h; subst h)
  all_goals (try (simp_all [call1, wrap_dim, ruleDim, plain_dim, List.foldl_map]; done))
  cases args with
  | nil => simp_all
  | cons a as => simp_all [call1, wrap_dim, ruleDim]

/-! ## mixed dimensions -/

theorem mixed_addLike {V} (k : Kind) (hk : k = .addLike ∨ k = .binaryOp) (op : List (Arg V) → V) (tuple : V → List V)
    (expo : Arg V → Option Rat) (a0 a1 : Arg V) (rest : List (Arg V)) (hq : unpackOk [a0, a1] = true) (hd : a0.dim ≠ a1.dim) :
    apply k op tuple expo (a0 :: a1 :: rest) = .error .dimension := by
  rcases hk with rfl | rfl <;> simp [apply, hq, hd]

theorem mixed_setitem {V} (op : List (Arg V) → V) (tuple : V → List V) (expo : Arg V → Option Rat) (a0 i a2 : Arg V)
    (rest : List (Arg V)) (hq : unpackOk [a0, a2] = true) (hd : a0.dim ≠ a2.dim) :
    apply .setitem op tuple expo (a0 :: i :: a2 :: rest) = .error .dimension := by
  simp [apply, hq, hd]

theorem mixed_interp {V} (op : List (Arg V) → V) (tuple : V → List V) (expo : Arg V → Option Rat) (x xp fp : Arg V)
    (rest : List (Arg V)) (hq : unpackOk [x, xp, fp] = true) (hd : x.dim ≠ xp.dim) :
    apply .interp op tuple expo (x :: xp :: fp :: rest) = .error .dimension := by
  simp [apply, hq, hd]

theorem mixed_stack {V} (op : List (Arg V) → List (Arg V) → V) (a0 : Arg V) (as rest : List (Arg V))
    (hq : unpackOk (a0 :: as) = true) (hd : ∃ a ∈ as, a.dim ≠ a0.dim) :
    applyStack op (a0 :: as) rest = .error .dimension := by
  obtain ⟨a, ha, hne⟩ := hd
  simp [applyStack, hq]
  exact ⟨a, ha, hne⟩

theorem mixed_never_ok {V} (k : Kind) (op : List (Arg V) → V) (tuple : V → List V) (expo : Arg V → Option Rat)
    (args : List (Arg V)) (c : Call V) (h : apply k op tuple expo args = .ok c) :
    (k = .addLike ∨ k = .binaryOp → ∀ a0 a1 rest, args = a0 :: a1 :: rest → a0.dim = a1.dim) ∧
    (k = .setitem → ∀ a0 i a2 rest, args = a0 :: i :: a2 :: rest → a0.dim = a2.dim) ∧
    (k = .interp → ∀ x xp fp rest, args = x :: xp :: fp :: rest → x.dim = xp.dim) := by
  refine ⟨?_, ?_, ?_⟩
  · rintro (rfl | rfl) a0 a1 rest rfl <;>
    · apply Classical.byContradiction; intro hd
      simp only [apply] at h
      split at h
      · cases h
      · simp at h
  · rintro rfl a0 i a2 rest rfl
    apply Classical.byContradiction; intro hd
    simp only [apply] at h
    split at h
    · cases h
    · simp at h
  · rintro rfl x xp fp rest rfl
    apply Classical.byContradiction; intro hd
    simp only [apply] at h
    split at h
    · cases h
    · simp at h

theorem mixed_locate (geom coords : Pows × Bool) (tol maxdist : Option (Pows × Bool)) (h : applyLocate geom coords tol maxdist = .ok ()) :
    geom.1 = coords.1 ∧ (∀ t, tol = some t → t.1 = geom.1) ∧ (∀ m, maxdist = some m → m.1 = geom.1) := by
  unfold applyLocate at h
  split at h
  · cases h
  · split at h
    · cases h
    · rename_i hgc
      split at h
      · cases h
      · rename_i ht
        split at h
        · cases h
        · rename_i hm
          refine ⟨by simpa using hgc, ?_, ?_⟩
          · intro t e; subst e; obtain ⟨d, b⟩ := t; simpa [okOpt] using ht
          · intro m e; subst e; obtain ⟨d, b⟩ := m; simpa [okOpt] using hm

/-! ## change of reference units -/

section
variable {S V : Type} (sc : Scaling S V)

theorem rescale_dim (a : Arg V) : (sc.rescale a).dim = a.dim := by cases a <;> rfl
theorem rescale_isQ (a : Arg V) : (sc.rescale a).isQ = a.isQ := by cases a <;> rfl

theorem rescale_unpacked (a : Arg V) : (sc.rescale a).unpacked = .plain (sc.smul (sc.σ a.dim) a.val) := by
  cases a with
  | q d v => rfl
  | plain v => show Arg.plain v = Arg.plain (sc.smul (sc.σ []) v); rw [sc.σ_one, sc.one_smul]

theorem unpacked_eq (a : Arg V) : a.unpacked = .plain a.val := rfl

theorem rescale_of_plain (l : List (Arg V)) (h : ∀ a ∈ l, a.isQ = false) : l.map sc.rescale = l := by
  induction l with
  | nil => rfl
  | cons a t ih =>
    rw [List.map_cons, ih (fun b hb => h b (List.mem_cons_of_mem _ hb))]
    have := h a (List.mem_cons_self ..)
    cases a with
    | q d v => simp [Arg.isQ] at this
    | plain v => rfl

theorem rescale_wrap (d : Pows) (v : V) : sc.rescale (wrap d v) = wrap d (sc.smul (sc.σ d) v) := by
  unfold wrap
  by_cases h : d = []
  · subst h; simp only [if_true]; show Arg.plain v = Arg.plain (sc.smul (sc.σ []) v); rw [sc.σ_one, sc.one_smul]
  · simp only [if_neg h]; rfl

theorem unpackOk_rescale (l : List (Arg V)) : unpackOk (l.map sc.rescale) = unpackOk l := by
  unfold unpackOk
  rw [List.any_map]
  congr 1; funext a; exact rescale_isQ sc a

end

section
variable {S V : Type} (sc : Scaling S V)

theorem rescale_val (a : Arg V) : (sc.rescale a).val = sc.smul (sc.σ a.dim) a.val := by
  cases a with
  | q d v => rfl
  | plain v => show v = sc.smul (sc.σ []) v; rw [sc.σ_one, sc.one_smul]

theorem units_invariance_aux (l : Law) (n : Nat) (hn : lawArity l = some n)
    (op : List (Arg V) → V) (tuple : V → List V) (expo : Arg V → Option Rat) (hlaw : LawHolds sc expo l op)
    (args : List (Arg V)) (hc : ∀ a ∈ args, Canon a.dim) (hrest : ∀ a ∈ args.drop n, a.isQ = false) :
    (apply (requiredKind l) op tuple expo (args.map sc.rescale)).map (·.result) =
      (apply (requiredKind l) op tuple expo args).map (fun c => c.result.map sc.rescale) := by
  have one (a0 : Arg V) (rest : List (Arg V)) (hr : ∀ a ∈ rest, a.isQ = false) :
      (a0 :: rest).map sc.rescale = sc.rescale a0 :: rest ∧ unpackOk [sc.rescale a0] = unpackOk [a0] :=
    ⟨by rw [List.map_cons, rescale_of_plain sc rest hr], unpackOk_rescale sc [a0]⟩
  have two (a0 a1 : Arg V) (rest : List (Arg V)) (hr : ∀ a ∈ rest, a.isQ = false) :
      (a0 :: a1 :: rest).map sc.rescale = sc.rescale a0 :: sc.rescale a1 :: rest ∧ unpackOk [sc.rescale a0, sc.rescale a1] = unpackOk [a0, a1] :=
    ⟨by rw [List.map_cons, List.map_cons, rescale_of_plain sc rest hr], unpackOk_rescale sc [a0, a1]⟩
  cases l <;> simp only [lawArity, Option.some.injEq, reduceCtorEq] at hn <;> subst hn <;> simp only [requiredKind, LawHolds] at *
  -- preserving
  · cases args with
    | nil => rfl
    | cons a0 rest =>
      simp only [List.drop_succ_cons, List.drop_zero] at hrest
      obtain ⟨h1, hu⟩ := one a0 rest hrest
      rw [h1]; simp only [apply, hu]
      split
      · simp only [Except.map, call1, List.map_cons, List.map_nil, rescale_wrap, rescale_dim, rescale_val, unpacked_eq, hlaw]
      · rfl
  -- additive
  · match args with
    | [] => rfl
    | [a0] => rfl
    | a0 :: a1 :: rest =>
      simp only [List.drop_succ_cons, List.drop_zero] at hrest
      obtain ⟨h1, hu⟩ := two a0 a1 rest hrest
      rw [h1]; simp only [apply, hu, rescale_dim]
      split
      · rfl
      · split
        · rfl
        · rename_i hd
          have hd' : a1.dim = a0.dim := by simpa using (Eq.symm (by simpa using hd))
          simp only [Except.map, call1, List.map_cons, List.map_nil, rescale_wrap, rescale_dim, rescale_val, unpacked_eq, hd', hlaw]
  -- bilinear
  · match args with
    | [] => rfl
    | [a0] => rfl
    | a0 :: a1 :: rest =>
      simp only [List.drop_succ_cons, List.drop_zero] at hrest
      obtain ⟨h1, hu⟩ := two a0 a1 rest hrest
      have c0 := hc a0 (List.mem_cons_self ..)
      have c1 := hc a1 (List.mem_cons_of_mem _ (List.mem_cons_self ..))
      rw [h1]; simp only [apply, hu, rescale_dim]
      split
      · rfl
      · simp only [Except.map, call1, List.map_cons, List.map_nil, rescale_wrap, rescale_val, unpacked_eq, hlaw, sc.σ_mul _ _ c0 c1]
  -- quotient
  · match args with
    | [] => rfl
    | [a0] => rfl
    | a0 :: a1 :: rest =>
      simp only [List.drop_succ_cons, List.drop_zero] at hrest
      obtain ⟨h1, hu⟩ := two a0 a1 rest hrest
      have c0 := hc a0 (List.mem_cons_self ..)
      have c1 := hc a1 (List.mem_cons_of_mem _ (List.mem_cons_self ..))
      rw [h1]; simp only [apply, hu, rescale_dim]
      split
      · rfl
      · simp only [Except.map, call1, List.map_cons, List.map_nil, rescale_wrap, rescale_val, unpacked_eq, hlaw, sc.σ_div _ _ c0 c1]
  -- quotient2
  · match args with
    | [] => rfl
    | [a0] => rfl
    | a0 :: a1 :: rest =>
      simp only [List.drop_succ_cons, List.drop_zero] at hrest
      obtain ⟨h1, hu⟩ := two a0 a1 rest hrest
      have c0 := hc a0 (List.mem_cons_self ..)
      have c1 := hc a1 (List.mem_cons_of_mem _ (List.mem_cons_self ..))
      rw [h1]; simp only [apply, hu, rescale_dim]
      split
      · rfl
      · simp only [Except.map, call1, List.map_cons, List.map_nil, rescale_wrap, rescale_val, unpacked_eq, hlaw, sc.σ_div _ _ c0 (canon_pow _ _), sc.σ_pow _ _ c1]
  -- root2
  · cases args with
    | nil => rfl
    | cons a0 rest =>
      simp only [List.drop_succ_cons, List.drop_zero] at hrest
      obtain ⟨h1, hu⟩ := one a0 rest hrest
      have c0 := hc a0 (List.mem_cons_self ..)
      rw [h1]; simp only [apply, hu, rescale_dim]
      split
      · simp only [Except.map, call1, List.map_cons, List.map_nil, rescale_wrap, rescale_val, unpacked_eq, hlaw, sc.σ_pow _ _ c0]
      · rfl
  -- power
  · match args with
    | [] => rfl
    | [a0] =>
      simp only [List.drop_succ_cons, List.drop_zero] at hrest
      obtain ⟨h1, hu⟩ := one a0 [] hrest
      rw [h1]; simp only [apply, hu]
      split <;> rfl
    | a0 :: e :: rest =>
      simp only [List.drop_succ_cons, List.drop_zero] at hrest
      obtain ⟨h1, hu⟩ := one a0 (e :: rest) hrest
      have c0 := hc a0 (List.mem_cons_self ..)
      rw [h1]; simp only [apply, hu, rescale_dim]
      split
      · rfl
      · cases hq : expo e with
        | none => rfl
        | some q =>
          simp only [Except.map, call1, List.map_cons, List.map_nil, rescale_wrap, rescale_val, unpacked_eq, hlaw _ _ _ _ _ hq, sc.σ_pow _ _ c0]
  -- invariant
  · cases args with
    | nil => rfl
    | cons a0 rest =>
      simp only [List.drop_succ_cons, List.drop_zero] at hrest
      obtain ⟨h1, hu⟩ := one a0 rest hrest
      rw [h1]; simp only [apply, hu]
      split
      · simp only [Except.map, List.map_cons, List.map_nil, rescale_val, unpacked_eq, hlaw]; rfl
      · rfl
  -- comparison
  · match args with
    | [] => rfl
    | [a0] => rfl
    | a0 :: a1 :: rest =>
      simp only [List.drop_succ_cons, List.drop_zero] at hrest
      obtain ⟨h1, hu⟩ := two a0 a1 rest hrest
      rw [h1]; simp only [apply, hu, rescale_dim]
      split
      · rfl
      · split
        · rfl
        · rename_i hd
          have hd' : a1.dim = a0.dim := by simpa using (Eq.symm (by simpa using hd))
          simp only [Except.map, List.map_cons, List.map_nil, rescale_val, unpacked_eq, hd', hlaw]; rfl
  -- inverse
  · cases args with
    | nil => rfl
    | cons a0 rest =>
      simp only [List.drop_succ_cons, List.drop_zero] at hrest
      obtain ⟨h1, hu⟩ := one a0 rest hrest
      have c0 := hc a0 (List.mem_cons_self ..)
      rw [h1]; simp only [apply, hu, rescale_dim]
      split
      · simp only [Except.map, call1, List.map_cons, List.map_nil, rescale_wrap, rescale_val, unpacked_eq, hlaw, sc.σ_pow _ _ c0]
      · rfl
end

end NutilsVerif.C20
