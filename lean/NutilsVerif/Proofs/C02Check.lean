import NutilsVerif.Model.C02
/-!
# C02 — soundness of the script checker (core Lean only)

`chkL p σ = ok σ'` and `c ⊑ σ` imply that no execution of `p` from `c` — whatever the trip counts of the loops and
whichever branch of the `first_run` conditional is taken — ends in an error, and that every final state is `⊑ σ'`.
-/
namespace NutilsVerif.C02

/-! ## the order on markers -/

theorem leInit_refl (a : Init) : leInit a a = true := by
  cases a <;> simp [leInit]

theorem leInit_trans {a b c : Init} (h1 : leInit a b = true) (h2 : leInit b c = true) : leInit a c = true := by
  cases a <;> cases b <;> cases c <;> simp_all [leInit]

theorem leInit_full {a : Init} (h : leInit a .full = true) : a = .full := by
  cases a <;> simp_all [leInit]

theorem leInit_join_left (a b : Init) : leInit a (joinInit a b) = true := by
  cases a <;> cases b <;> simp [leInit, joinInit]
  intro z hz; exact Or.inr hz

theorem leInit_join_right (a b : Init) : leInit b (joinInit a b) = true := by
  cases a <;> cases b <;> simp [leInit, joinInit]

theorem leVS_refl (a : VS) : leVS a a = true := by
  simp [leVS, leInit_refl]

theorem leVS_trans {a b c : VS} (h1 : leVS a b = true) (h2 : leVS b c = true) : leVS a c = true := by
  simp only [leVS, Bool.and_eq_true, Bool.or_eq_true, Bool.not_eq_true'] at h1 h2 ⊢
  obtain ⟨⟨⟨i1, s1⟩, d1⟩, f1⟩ := h1
  obtain ⟨⟨⟨i2, s2⟩, d2⟩, f2⟩ := h2
  refine ⟨⟨⟨leInit_trans i1 i2, ?_⟩, ?_⟩, ?_⟩
  · cases s1 with
    | inl h => exact Or.inl h
    | inr h => cases s2 with
      | inl h' => rw [h] at h'; cases h'
      | inr h' => exact Or.inr h'
  · cases d1 with
    | inl h => exact Or.inl h
    | inr h => cases d2 with
      | inl h' => rw [h] at h'; cases h'
      | inr h' => exact Or.inr h'
  · cases f1 with
    | inl h => exact Or.inl h
    | inr h => cases f2 with
      | inl h' => rw [h] at h'; cases h'
      | inr h' => exact Or.inr h'

theorem leVS_join_left (a b : VS) : leVS a (joinVS a b) = true := by
  simp only [leVS, joinVS, leInit_join_left, Bool.true_and, Bool.and_eq_true, Bool.or_eq_true, Bool.not_eq_true']
  refine ⟨⟨?_, ?_⟩, ?_⟩ <;> (cases a.sealed <;> cases a.dirty <;> cases a.frozen <;> simp)

theorem leVS_join_right (a b : VS) : leVS b (joinVS a b) = true := by
  simp only [leVS, joinVS, leInit_join_right, Bool.true_and, Bool.and_eq_true, Bool.or_eq_true, Bool.not_eq_true']
  refine ⟨⟨?_, ?_⟩, ?_⟩ <;> (cases b.sealed <;> cases b.dirty <;> cases b.frozen <;> simp)

/-- the components of `a ⊑ b` on one variable -/
theorem leVS_iff {a b : VS} : leVS a b = true ↔
    leInit a.init b.init = true ∧ (a.sealed = true → b.sealed = true) ∧ (a.dirty = true → b.dirty = true) ∧ (a.frozen = true → b.frozen = true) := by
  simp only [leVS, Bool.and_eq_true, Bool.or_eq_true, Bool.not_eq_true']
  constructor
  · rintro ⟨⟨⟨i, s⟩, d⟩, f⟩
    refine ⟨i, ?_, ?_, ?_⟩
    · intro h; cases s with | inl h' => rw [h] at h'; cases h' | inr h' => exact h'
    · intro h; cases d with | inl h' => rw [h] at h'; cases h' | inr h' => exact h'
    · intro h; cases f with | inl h' => rw [h] at h'; cases h' | inr h' => exact h'
  · rintro ⟨i, s, d, f⟩
    refine ⟨⟨⟨i, ?_⟩, ?_⟩, ?_⟩
    · cases h : a.sealed with | false => exact Or.inl rfl | true => exact Or.inr (s h)
    · cases h : a.dirty with | false => exact Or.inl rfl | true => exact Or.inr (d h)
    · cases h : a.frozen with | false => exact Or.inl rfl | true => exact Or.inr (f h)

/-! ## states -/

theorem leO_refl (a : Option VS) : leO a a := by
  cases a <;> simp [leO, leVS_refl]

theorem leO_trans {a b c : Option VS} (h1 : leO a b) (h2 : leO b c) : leO a c := by
  cases a <;> cases b <;> cases c <;> simp_all [leO]
  exact leVS_trans h1 h2

theorem le_refl (a : AState) : le a a := fun x => leO_refl _

theorem le_trans {a b c : AState} (h1 : le a b) (h2 : le b c) : le a c := fun x => leO_trans (h1 x) (h2 x)

theorem lookup_put (σ : AState) (x y : Var) (v : VS) : (put σ x v).lookup y = if y = x then some v else σ.lookup y := by
  simp only [put, List.lookup_cons]
  by_cases h : y = x
  · subst h; simp
  · have : (y == x) = false := by simpa using h
    simp [this, h]

theorem put_mono {a b : AState} (h : le a b) (x : Var) {va vb : VS} (hv : leVS va vb = true) : le (put a x va) (put b x vb) := by
  intro y
  rw [lookup_put, lookup_put]
  by_cases e : y = x
  · simp [e, leO, hv]
  · simp only [e, if_false]; exact h y

/-- what `a ⊑ b` gives at a variable bound in `b` -/
theorem le_bound {a b : AState} (h : le a b) {x : Var} {vb : VS} (hb : b.lookup x = some vb) :
    ∃ va, a.lookup x = some va ∧ leVS va vb = true := by
  have := h x
  rw [hb] at this
  cases ha : a.lookup x with
  | none => rw [ha] at this; exact absurd this (by simp [leO])
  | some va => rw [ha] at this; exact ⟨va, rfl, this⟩

/-! ## monotonicity of the transfer functions -/

theorem bind_ok {ε α β : Type} {x : Except ε α} {f : α → Except ε β} {b : β} (h : x.bind f = .ok b) :
    ∃ a, x = .ok a ∧ f a = .ok b := by
  cases x with
  | error e => simp [Except.bind] at h
  | ok a => exact ⟨a, rfl, h⟩

theorem readVar_mono {a b b' : AState} {x : Var} (h : le a b) (hb : readVar b x = .ok b') :
    ∃ a', readVar a x = .ok a' ∧ le a' b' := by
  unfold readVar at hb
  cases hl : b.lookup x with
  | none => rw [hl] at hb; cases hb
  | some vb =>
    rw [hl] at hb
    obtain ⟨va, ha, hv⟩ := le_bound h hl
    by_cases hf : vb.init.isFull = true
    · simp only [hf, if_true] at hb
      have hvb : vb.init = .full := by
        revert hf; cases vb.init <;> simp [Init.isFull]
      obtain ⟨hi, hs, hd, hfz⟩ := leVS_iff.1 hv
      have hva : va.init = .full := leInit_full (hvb ▸ hi)
      refine ⟨put a x { va with sealed := true, dirty := false }, ?_, ?_⟩
      · simp [readVar, ha, hva, Init.isFull]
      · cases hb
        apply put_mono h
        exact leVS_iff.2 ⟨hi, fun _ => rfl, fun h' => Bool.noConfusion h', hfz⟩
    · simp only [hf] at hb; cases hb

theorem readAll_mono {a b b' : AState} {xs : List Var} (h : le a b) (hb : readAll b xs = .ok b') :
    ∃ a', readAll a xs = .ok a' ∧ le a' b' := by
  induction xs generalizing a b with
  | nil => simp only [readAll] at hb ⊢; cases hb; exact ⟨a, rfl, h⟩
  | cons x xs ih =>
    simp only [readAll] at hb ⊢
    obtain ⟨b1, h1, h2⟩ := bind_ok hb
    obtain ⟨a1, g1, l1⟩ := readVar_mono h h1
    obtain ⟨a2, g2, l2⟩ := ih l1 h2
    exact ⟨a2, by rw [g1]; exact g2, l2⟩

theorem mem_contains {zs : List Sig} {z : Sig} : zs.contains z = true ↔ z ∈ zs := by
  simp

theorem initAfter_mono {va vb : VS} (hv : leVS va vb = true) (sig : Sig) :
    leInit (initAfter va sig) (initAfter vb sig) = true := by
  obtain ⟨hi, hs, _, _⟩ := leVS_iff.1 hv
  unfold initAfter
  by_cases he : sig.isEmpty = true
  · simp [he, leInit]
  · simp only [he, if_false]
    by_cases hsb : vb.sealed = true
    · simp only [hsb, if_true]
      by_cases hsa : va.sealed = true
      · simp [hsa, leInit]
      · simp only [hsa, if_false]
        cases va.init <;> simp [leInit]
    · have hsa : ¬ va.sealed = true := fun h => hsb (hs h)
      simp only [hsb, hsa, if_false]
      revert hi
      cases va.init <;> cases vb.init <;> simp [leInit]
      intro h z hz; exact Or.inr (h z hz)

theorem doFill_mono {a b b' : AState} {x : Var} {sig : Sig} (h : le a b) (hb : doFill b x sig = .ok b') :
    ∃ a', doFill a x sig = .ok a' ∧ le a' b' := by
  unfold doFill at hb
  cases hl : b.lookup x with
  | none => rw [hl] at hb; cases hb
  | some vb =>
    rw [hl] at hb
    obtain ⟨va, ha, hv⟩ := le_bound h hl
    obtain ⟨hi, hs, hd, hfz⟩ := leVS_iff.1 hv
    by_cases hf : vb.frozen = true
    · simp [hf] at hb
    · by_cases hdb : (vb.dirty && sig.isEmpty) = true
      · simp [hf, hdb] at hb
      · simp only [hf, hdb] at hb
        have hfa : ¬ va.frozen = true := fun h' => hf (hfz h')
        have hda : ¬ (va.dirty && sig.isEmpty) = true := by
          intro h'
          simp only [Bool.and_eq_true] at h' hdb
          exact hdb ⟨hd h'.1, h'.2⟩
        refine ⟨_, by simp only [doFill, ha, hfa, hda]; rfl, ?_⟩
        cases hb
        apply put_mono h
        refine leVS_iff.2 ⟨initAfter_mono hv sig, fun h' => Bool.noConfusion h', ?_, fun h' => Bool.noConfusion h'⟩
        intro h'
        simp only [Bool.and_eq_true] at h' ⊢
        exact ⟨hd h'.1, h'.2⟩

theorem doWrite_mono {a b b' : AState} {x : Var} {sig : Sig} (h : le a b) (hb : doWrite b x sig = .ok b') :
    ∃ a', doWrite a x sig = .ok a' ∧ le a' b' := by
  unfold doWrite at hb
  cases hl : b.lookup x with
  | none => rw [hl] at hb; cases hb
  | some vb =>
    rw [hl] at hb
    obtain ⟨va, ha, hv⟩ := le_bound h hl
    obtain ⟨hi, hs, hd, hfz⟩ := leVS_iff.1 hv
    by_cases hf : vb.frozen = true
    · simp [hf] at hb
    · by_cases hdb : (vb.dirty && sig.isEmpty) = true
      · simp [hf, hdb] at hb
      · simp only [hf, hdb] at hb
        have hfa : ¬ va.frozen = true := fun h' => hf (hfz h')
        have hda : ¬ (va.dirty && sig.isEmpty) = true := by
          intro h'
          simp only [Bool.and_eq_true] at h' hdb
          exact hdb ⟨hd h'.1, h'.2⟩
        refine ⟨_, by simp only [doWrite, ha, hfa, hda]; rfl, ?_⟩
        cases hb
        apply put_mono h
        exact leVS_iff.2 ⟨initAfter_mono hv sig, fun h' => Bool.noConfusion h', fun _ => rfl, fun h' => Bool.noConfusion h'⟩

theorem accOK_mono {a b : Init} {sig : Sig} (h : leInit a b = true) (hb : accOK b sig = true) : accOK a sig = true := by
  cases a <;> cases b <;> simp_all [leInit, accOK]
  obtain ⟨z, hz, hp⟩ := hb
  exact ⟨z, h z hz, hp⟩

theorem doAccum_mono {a b b' : AState} {x : Var} {sig : Sig} (h : le a b) (hb : doAccum b x sig = .ok b') :
    ∃ a', doAccum a x sig = .ok a' ∧ le a' b' := by
  unfold doAccum at hb
  cases hl : b.lookup x with
  | none => rw [hl] at hb; cases hb
  | some vb =>
    rw [hl] at hb
    obtain ⟨va, ha, hv⟩ := le_bound h hl
    obtain ⟨hi, hs, hd, hfz⟩ := leVS_iff.1 hv
    by_cases hf : vb.frozen = true
    · simp [hf] at hb
    · by_cases hsb : vb.sealed = true
      · simp [hf, hsb] at hb
      · by_cases hok : accOK vb.init sig = true
        · simp only [hf, hsb, hok, if_true] at hb
          have hfa : ¬ va.frozen = true := fun h' => hf (hfz h')
          have hsa : ¬ va.sealed = true := fun h' => hsb (hs h')
          refine ⟨put a x { va with dirty := true }, by simp only [doAccum, ha, hfa, hsa, accOK_mono hi hok]; rfl, ?_⟩
          cases hb
          apply put_mono h
          exact leVS_iff.2 ⟨hi, fun h' => absurd h' hsa, fun _ => rfl, fun h' => absurd h' hfa⟩
        · simp [hf, hsb, hok] at hb

theorem stepSimple_mono {s : Stmt} {a b b' : AState} (h : le a b) (hb : stepSimple s b = .ok b') :
    ∃ a', stepSimple s a = .ok a' ∧ le a' b' := by
  cases s with
  | assign x reads =>
    simp only [stepSimple] at hb ⊢
    obtain ⟨b1, h1, h2⟩ := bind_ok hb
    obtain ⟨a1, g1, l1⟩ := readAll_mono h h1
    cases h2
    exact ⟨_, by rw [g1]; rfl, put_mono l1 x (leVS_refl _)⟩
  | alloc x reads =>
    simp only [stepSimple] at hb ⊢
    obtain ⟨b1, h1, h2⟩ := bind_ok hb
    obtain ⟨a1, g1, l1⟩ := readAll_mono h h1
    cases h2
    exact ⟨_, by rw [g1]; rfl, put_mono l1 x (leVS_refl _)⟩
  | fill x sig => exact doFill_mono h hb
  | write x sig reads =>
    simp only [stepSimple] at hb ⊢
    obtain ⟨b1, h1, h2⟩ := bind_ok hb
    obtain ⟨a1, g1, l1⟩ := readAll_mono h h1
    obtain ⟨a2, g2, l2⟩ := doWrite_mono l1 h2
    exact ⟨a2, by rw [g1]; exact g2, l2⟩
  | accum x sig reads =>
    simp only [stepSimple] at hb ⊢
    obtain ⟨b1, h1, h2⟩ := bind_ok hb
    obtain ⟨a1, g1, l1⟩ := readAll_mono h h1
    obtain ⟨a2, g2, l2⟩ := doAccum_mono l1 h2
    exact ⟨a2, by rw [g1]; exact g2, l2⟩
  | use reads => exact readAll_mono h hb
  | loop i reads body => simp only [stepSimple] at hb ⊢; cases hb; exact ⟨a, rfl, h⟩
  | rerun c f g => simp only [stepSimple] at hb ⊢; cases hb; exact ⟨a, rfl, h⟩

/-! ## restrict, merge, promote -/

theorem mem_dedup (l : List Var) : ∀ x, x ∈ dedup l ↔ x ∈ l := by
  induction l with
  | nil => intro x; simp [dedup]
  | cons y ys ih =>
    intro x
    simp only [dedup]
    by_cases hc : (dedup ys).contains y = true
    · simp only [hc, if_true]
      have hy : y ∈ ys := (ih y).1 (by simpa using hc)
      rw [ih x]
      constructor
      · intro h; exact List.mem_cons_of_mem _ h
      · intro h
        cases h with
        | head => exact hy
        | tail _ h => exact h
    · have hy : y ∉ dedup ys := by simpa using hc
      simp [hy, ih x]

theorem mem_map_fst {σ : AState} {x : Var} : x ∈ σ.map (·.1) ↔ (σ.lookup x).isSome = true := by
  induction σ with
  | nil => simp
  | cons p rest ih =>
    obtain ⟨k, v⟩ := p
    simp only [List.map_cons, List.mem_cons, List.lookup_cons]
    by_cases h : x = k
    · subst h; simp
    · have : (x == k) = false := by simpa using h
      simp [h, this, ih]

theorem mem_keys {σ : AState} {x : Var} : x ∈ keys σ ↔ (σ.lookup x).isSome = true := by
  unfold keys; rw [mem_dedup]; exact mem_map_fst

theorem lookup_filterMap_keys (ks : List Var) (f : Var → Option VS) (x : Var) :
    (ks.filterMap fun k => (f k).map fun v => (k, v)).lookup x = if x ∈ ks then f x else none := by
  induction ks with
  | nil => simp
  | cons k ks ih =>
    rw [List.filterMap_cons]
    cases hk : f k with
    | none =>
      simp only [Option.map_none]
      rw [ih]
      by_cases h : x = k
      · subst h; simp [hk]
      · simp [h]
    | some v =>
      simp only [Option.map_some, List.lookup_cons]
      by_cases h : x = k
      · subst h; simp [hk]
      · have : (x == k) = false := by simpa using h
        simp only [this, ih, List.mem_cons, h, false_or]

theorem lookup_restrict (σ τ : AState) (x : Var) :
    (restrict σ τ).lookup x = if (σ.lookup x).isSome = true then τ.lookup x else none := by
  unfold restrict
  rw [lookup_filterMap_keys (keys σ) (fun x => τ.lookup x) x]
  simp only [mem_keys]

def mj (a b : AState) (x : Var) : Option VS :=
  match a.lookup x, b.lookup x with
  | some va, some vb => some (joinVS va vb)
  | _, _ => none

theorem lookup_merge (a b : AState) (x : Var) : (merge a b).lookup x = mj a b x := by
  have : merge a b = (keys a).filterMap fun k => (mj a b k).map fun v => (k, v) := by
    unfold merge
    congr 1
    funext k
    unfold mj
    cases a.lookup k <;> cases b.lookup k <;> rfl
  rw [this, lookup_filterMap_keys]
  by_cases h : x ∈ keys a
  · simp [h]
  · simp only [h, if_false]
    have : a.lookup x = none := by
      cases hl : a.lookup x with
      | none => rfl
      | some v => exact absurd (mem_keys.2 (by simp [hl])) h
    simp [mj, this]

theorem le_merge_left (a b : AState) : le a (merge a b) := by
  intro x
  rw [lookup_merge]
  unfold mj
  cases ha : a.lookup x <;> cases hb : b.lookup x <;> simp [leO, leVS_join_left]

theorem le_merge_right (a b : AState) : le b (merge a b) := by
  intro x
  rw [lookup_merge]
  unfold mj
  cases ha : a.lookup x <;> cases hb : b.lookup x <;> simp [leO, leVS_join_right]

theorem leB_sound {a b : AState} (h : leB a b = true) : le a b := by
  intro x
  cases hb : b.lookup x with
  | none => cases a.lookup x <;> simp [leO]
  | some vb =>
    have hx : x ∈ keys b := mem_keys.2 (by simp [hb])
    have := List.all_eq_true.1 h x hx
    rw [hb] at this
    cases ha : a.lookup x with
    | none => rw [ha] at this; simp at this
    | some va => rw [ha] at this; simpa [leO] using this

theorem restrict_mono {c0 σ0 c1 σ2 : AState} (h0 : le c0 σ0) (h1 : le c1 σ2) : le (restrict c0 c1) (restrict σ0 σ2) := by
  intro x
  rw [lookup_restrict, lookup_restrict]
  by_cases hs : (σ0.lookup x).isSome = true
  · simp only [hs, if_true]
    have hc : (c0.lookup x).isSome = true := by
      cases hv : σ0.lookup x with
      | none => simp [hv] at hs
      | some v => obtain ⟨va, ha, _⟩ := le_bound h0 hv; simp [ha]
    simp only [hc, if_true]
    exact h1 x
  · simp only [hs]
    cases (if (c0.lookup x).isSome = true then c1.lookup x else none) <;> simp [leO]

theorem promoteVS_mono {va vb : VS} (hv : leVS va vb = true) (sig : Sig) : leVS (promoteVS va sig) (promoteVS vb sig) = true := by
  obtain ⟨hi, hs, hd, hfz⟩ := leVS_iff.1 hv
  unfold promoteVS
  by_cases he : sig.isEmpty = true
  · simp only [he, if_true]
    exact leVS_iff.2 ⟨leInit_refl _, fun h' => Bool.noConfusion h', hd, hfz⟩
  · simp only [he]
    refine leVS_iff.2 ⟨?_, hs, hd, hfz⟩
    revert hi
    cases va.init <;> cases vb.init <;> simp [leInit]
    intro h z hz; exact Or.inr (h z hz)

theorem promote1_mono {a b : AState} (h : le a b) (p : Var × Sig) : le (promote1 a p) (promote1 b p) := by
  unfold promote1
  cases hb : b.lookup p.1 with
  | none =>
    simp only
    cases ha : a.lookup p.1 with
    | none => exact h
    | some va =>
      simp only
      intro y
      rw [lookup_put]
      by_cases hy : y = p.1
      · subst hy; rw [hb]; simp [leO]
      · simp only [hy, if_false]; exact h y
  | some vb =>
    obtain ⟨va, ha, hv⟩ := le_bound h hb
    simp only [ha]
    exact put_mono h _ (promoteVS_mono hv _)

theorem promote_mono {a b : AState} (h : le a b) (ps : List (Var × Sig)) : le (promote a ps) (promote b ps) := by
  unfold promote
  induction ps generalizing a b with
  | nil => exact h
  | cons p ps ih => simp only [List.foldl_cons]; exact ih (promote1_mono h p)

theorem bindCached_mono {a b : AState} (h : le a b) (cached : List Var) : le (bindCached a cached) (bindCached b cached) := by
  unfold bindCached
  induction cached generalizing a b with
  | nil => exact h
  | cons c cs ih => simp only [List.foldl_cons]; exact ih (put_mono h c (leVS_refl _))

/-! ## soundness -/

theorem chkS_simple {s : Stmt} (hs : s.isSimple = true) (σ : AState) : chkS s σ = stepSimple s σ := by
  cases s <;> simp [Stmt.isSimple] at hs <;> simp [chkS, stepSimple]

def Sound : Code → AState → Except Err AState → Prop
  | .stmt s, c, r => ∀ σ σ', le c σ → chkS s σ = .ok σ' → ∃ c', r = .ok c' ∧ le c' σ'
  | .block l, c, r => ∀ σ σ', le c σ → chkL l σ = .ok σ' → ∃ c', r = .ok c' ∧ le c' σ'
  | .iter i body c0, c, r => ∀ σ0 inv σ2, le c0 σ0 → le c inv → chkL body (put inv i VS.value) = .ok σ2 →
      leB (restrict σ0 σ2) inv = true → ∃ c', r = .ok c' ∧ le c' inv

theorem exec_sound {code : Code} {c : AState} {r : Except Err AState} (h : Exec code c r) : Sound code c r := by
  induction h with
  | simple s c hs =>
    intro σ σ' hle hchk
    rw [chkS_simple hs] at hchk
    obtain ⟨c', h1, h2⟩ := stepSimple_mono hle hchk
    exact ⟨c', h1, h2⟩
  | loopReadErr i reads body c e hr =>
    intro σ σ' hle hchk
    simp only [chkS] at hchk
    obtain ⟨σ0, h0, _⟩ := bind_ok hchk
    obtain ⟨c0, g0, _⟩ := readAll_mono hle h0
    rw [g0] at hr; cases hr
  | loop i reads body c c0 r hr _ ih =>
    intro σ σ' hle hchk
    simp only [chkS] at hchk
    obtain ⟨σ0, h0, hchk⟩ := bind_ok hchk
    obtain ⟨σ1, h1, hchk⟩ := bind_ok hchk
    obtain ⟨σ2, h2, hchk⟩ := bind_ok hchk
    obtain ⟨c0', g0, l0⟩ := readAll_mono hle h0
    rw [g0] at hr; cases hr
    by_cases hst : leB (restrict σ0 σ2) (merge σ0 (restrict σ0 σ1)) = true
    · simp only [hst, if_true] at hchk
      cases hchk
      obtain ⟨cN, e, lN⟩ := ih σ0 _ σ2 l0 (le_trans l0 (le_merge_left _ _)) h2 hst
      subst e
      exact ⟨_, rfl, promote_mono lN _⟩
    · simp only [hst] at hchk; cases hchk
  | rerunFirst cached first again c r _ ih =>
    intro σ σ' hle hchk
    simp only [chkS] at hchk
    obtain ⟨σf, hf, hchk⟩ := bind_ok hchk
    obtain ⟨_, _, hchk⟩ := bind_ok hchk
    obtain ⟨σa, ha, hchk⟩ := bind_ok hchk
    cases hchk
    obtain ⟨c', e, l'⟩ := ih σ σf hle hf
    exact ⟨c', e, le_trans l' (le_merge_left _ _)⟩
  | rerunAgain cached first again c r _ ih =>
    intro σ σ' hle hchk
    simp only [chkS] at hchk
    obtain ⟨σf, hf, hchk⟩ := bind_ok hchk
    obtain ⟨_, _, hchk⟩ := bind_ok hchk
    obtain ⟨σa, ha, hchk⟩ := bind_ok hchk
    cases hchk
    obtain ⟨c', e, l'⟩ := ih _ σa (bindCached_mono hle cached) ha
    exact ⟨c', e, le_trans l' (le_merge_right _ _)⟩
  | iterDone i body c0 c =>
    intro σ0 inv σ2 _ hc _ _
    exact ⟨c, rfl, hc⟩
  | iterFail i body c0 c e _ ih =>
    intro σ0 inv σ2 _ hc h2 _
    obtain ⟨c', e', _⟩ := ih _ σ2 (put_mono hc i (leVS_refl _)) h2
    cases e'
  | iterStep i body c0 c c1 r _ _ ih1 ih2 =>
    intro σ0 inv σ2 h0 hc h2 hst
    obtain ⟨c1', e1, l1⟩ := ih1 _ σ2 (put_mono hc i (leVS_refl _)) h2
    cases e1
    exact ih2 σ0 inv σ2 h0 (le_trans (restrict_mono h0 l1) (leB_sound hst)) h2 hst
  | nil c =>
    intro σ σ' hle hchk
    simp only [chkL] at hchk; cases hchk
    exact ⟨c, rfl, hle⟩
  | consErr s rest c e _ ih =>
    intro σ σ' hle hchk
    simp only [chkL] at hchk
    obtain ⟨σ1, h1, _⟩ := bind_ok hchk
    obtain ⟨c', e', _⟩ := ih σ σ1 hle h1
    cases e'
  | cons s rest c c1 r _ _ ih1 ih2 =>
    intro σ σ' hle hchk
    simp only [chkL] at hchk
    obtain ⟨σ1, h1, h2⟩ := bind_ok hchk
    obtain ⟨c1', e1, l1⟩ := ih1 σ σ1 hle h1
    cases e1
    exact ih2 σ1 σ' l1 h2

end NutilsVerif.C02
