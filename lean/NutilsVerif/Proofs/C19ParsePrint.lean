import NutilsVerif.Proofs.C19Print
/-!
# C19 — parsing a printed source AST gives its direct elaboration
-/
namespace NutilsVerif.C19

/-! ## error spans do not influence success or the result -/

@[simp] theorem toOpt_ok {α : Type} (a : α) : toOpt (Except.ok a : P α) = some a := rfl
@[simp] theorem toOpt_error {α : Type} (e : Err) : toOpt (Except.error e : P α) = none := rfl
@[simp] theorem toOpt_fail {α : Type} (k : ErrKind) (s : Sub) : toOpt (fail k s : P α) = none := rfl
@[simp] theorem toOpt_fail2 {α : Type} (k : ErrKind) (s t : Sub) : toOpt (fail2 k s t : P α) = none := rfl

theorem toOpt_bind {α β : Type} (x : P α) (f : α → P β) : toOpt (x.bind f) = (toOpt x).bind fun a => toOpt (f a) := by
  cases x <;> rfl

theorem ok_bind {α β : Type} (a : α) (f : α → P β) : (Except.ok a : P α).bind f = f a := rfl
theorem error_bind {α β : Type} (e : Err) (f : α → P β) : (Except.error e : P α).bind f = .error e := rfl
theorem fail_bind {α β : Type} (k : ErrKind) (s : Sub) (f : α → P β) : (fail k s : P α).bind f = fail k s := rfl

theorem toOpt_bind' {α β : Type} (x : P α) (f : α → P β) :
    toOpt (match x with | .error e => .error e | .ok v => f v) = (toOpt x).bind fun a => toOpt (f a) := by
  cases x <;> rfl

theorem toOpt_traceGo (s s' : Sub) (rI : List Char) : ∀ (ops : Ops) (kI : List Char) (kS : List Nat) (sm : List Char) (rS : List Nat),
    toOpt (traceGo s ops kI kS sm rI rS) = toOpt (traceGo s' ops kI kS sm rI rS) := by
  induction rI with
  | nil => intros; rfl
  | cons c rI ih =>
    intro ops kI kS sm rS
    simp only [traceGo]
    split
    · rfl
    · split
      · split
        · rfl
        · exact ih _ _ _ _ _
      · exact ih _ _ _ _ _

theorem toOpt_mergeSummedGo (s s' : Sub) (parts : List (List Char)) : ∀ merged,
    toOpt (mergeSummedGo s merged parts) = toOpt (mergeSummedGo s' merged parts) := by
  induction parts with
  | nil => intro _; rfl
  | cons p ps ih =>
    intro merged
    simp only [mergeSummedGo]
    split
    · rfl
    · exact ih _

theorem toOpt_trace (s s' : Sub) (ops : Ops) (shape : List Nat) (indices : List Char) (parts : List (List Char)) :
    toOpt (trace s ops shape indices parts) = toOpt (trace s' ops shape indices parts) := by
  simp only [trace, toOpt_bind, mergeSummed]
  rw [toOpt_mergeSummedGo s s']
  congr 1; funext sm; exact toOpt_traceGo s s' _ _ _ _ _ _

theorem toOpt_genIndicesGo (cs : List Char) : ∀ (ops : Ops) (shape : List Nat) (indices : List Char) (st st' : Nat),
    toOpt (genIndicesGo ops shape indices ⟨st, cs⟩) = toOpt (genIndicesGo ops shape indices ⟨st', cs⟩) := by
  induction cs with
  | nil => intros; simp [genIndicesGo]
  | cons c cs ih =>
    intro ops shape indices st st'
    simp only [genIndicesGo]
    split
    · split
      · rfl
      · exact ih _ _ _ _ _
    · split
      · exact ih _ _ _ _ _
      · rfl

/-- forget the substrings in the list of terms -/
def stripSubs (l : List (Bool × Sub × Res)) : List (Bool × Res) := l.map fun x => (x.1, x.2.2)

theorem alignTerm_span (sF sT sF' sT' : Sub) (indices : List Char) (iterm : Nat) (r : Res) :
    (∃ v, alignTerm sF sT indices iterm r = .ok v ∧ alignTerm sF' sT' indices iterm r = .ok v) ∨
    (∃ e e', alignTerm sF sT indices iterm r = .error e ∧ alignTerm sF' sT' indices iterm r = .error e') := by
  unfold alignTerm
  split
  · split
    · exact Or.inr ⟨_, _, rfl, rfl⟩
    · split
      · exact Or.inr ⟨_, _, rfl, rfl⟩
      · exact Or.inl ⟨_, rfl, rfl⟩
  · exact Or.inl ⟨_, rfl, rfl⟩

theorem toOpt_alignGo (sF sF' : Sub) (shape : List Nat) (indices : List Char) (rest : List (Bool × Sub × Res)) :
    ∀ (rest' : List (Bool × Sub × Res)) (iterm : Nat) (negs : List Bool) (args : List Ops) (summed : List Char),
    stripSubs rest = stripSubs rest' →
    toOpt (alignGo sF shape indices rest iterm negs args summed) = toOpt (alignGo sF' shape indices rest' iterm negs args summed) := by
  induction rest with
  | nil =>
    intro rest' iterm negs args summed h
    cases rest' with
    | nil => rfl
    | cons _ _ => simp [stripSubs] at h
  | cons x xs ih =>
    intro rest' iterm negs args summed h
    cases rest' with
    | nil => simp [stripSubs] at h
    | cons y ys =>
      obtain ⟨n1, s1, r1⟩ := x
      obtain ⟨n2, s2, r2⟩ := y
      simp only [stripSubs, List.map_cons, List.cons.injEq, Prod.mk.injEq] at h
      obtain ⟨⟨hn, hr⟩, hrest⟩ := h
      subst hn; subst hr
      simp only [alignGo]
      rcases alignTerm_span sF s1 sF' s2 indices iterm r1 with ⟨v, h1, h2⟩ | ⟨e, e', h1, h2⟩
      · rw [h1, h2]
        obtain ⟨ops, tshape⟩ := v
        simp only []
        split
        · rfl
        · exact ih ys _ _ _ _ hrest
      · rw [h1, h2]; rfl

/-! ## trimming printed text is the identity -/

theorem startOK_not_space (c : Char) (h : startOK c = true) : (c == ' ') = false := by
  simp only [startOK, Bool.not_eq_true', Bool.or_eq_false_iff] at h; exact h.1.1.1.1.1

theorem trimStart_of_head (st : Nat) (c : Char) (cs : List Char) (h : (c == ' ') = false) :
    (⟨st, c :: cs⟩ : Sub).trimStart = ⟨st, c :: cs⟩ := by
  simp [Sub.trimStart, List.takeWhile, h]

theorem trim_of_ends (st : Nat) (p : List Char) (h : Ends p) : (⟨st, p⟩ : Sub).trim = ⟨st, p⟩ := by
  obtain ⟨init, d, hp, hd⟩ := h.last
  obtain ⟨c, cs, hp', hc⟩ := h.head
  have h1 : (⟨st, p⟩ : Sub).trimEnd = ⟨st, p⟩ := by
    simp only [Sub.trimEnd, Sub.len]
    rw [hp]; simp [List.takeWhile, hd]
    exact List.take_of_length_le (by simp)
  rw [Sub.trim, h1, hp']
  exact trimStart_of_head st c cs (startOK_not_space c hc)

/-! ## items -/

theorem digitPart_digits : ∀ (ds : List Nat), ds ≠ [] → (∀ d ∈ ds, d < 10) → digitPart (ds.map digitChar) = some ds := by
  intro ds
  induction ds with
  | nil => intro h; simp at h
  | cons d ds ih =>
    intro _ hall
    have hd := digitChar_facts d (hall d List.mem_cons_self)
    cases ds with
    | nil => simp [digitPart, hd.1, hd.2.2.2.2.1]
    | cons e es =>
      have he := digitChar_facts e (hall e (by simp))
      have ih' := ih (by simp) (fun x hx => hall x (List.mem_cons_of_mem _ hx))
      simp only [List.map_cons] at ih' ⊢
      have hne : digitChar e ≠ '_' := by
        intro heq; have := he.2.2.2.2.2; rw [heq] at this; simp at this
      rw [digitPart]
      · simp [hd.1, hd.2.2.2.2.1, ih']
      · intro heq; exact hne heq

theorem pyInt_digits (ds : List Nat) (hne : ds ≠ []) (hall : ∀ d ∈ ds, d < 10) :
    pyInt (ds.map digitChar) = some (digitsVal ds : Int) := by
  have hd := digitPart_digits ds hne hall
  match ds, hne with
  | d :: ds', _ =>
    have hf := digitChar_facts d (hall d List.mem_cons_self)
    simp only [startOK, Bool.not_eq_true', Bool.or_eq_false_iff] at hf
    unfold pyInt
    simp only [List.map_cons] at hd ⊢
    split
    · rename_i r heq
      simp only [List.cons.injEq] at heq
      have := hf.2.2.2.1.1.1.1.2; rw [heq.1] at this; simp at this
    · rename_i r heq
      simp only [List.cons.injEq] at heq
      have := hf.2.2.2.1.1.1.2; rw [heq.1] at this; simp at this
    · rw [hd]; rfl

theorem itemBody_num (Γ : Ctx) (rec : Rec) (st : Nat) (ds : List Nat) (a : Bool)
    (hne : ds.isEmpty = false) (hall : ds.all (· < 10) = true) :
    toOpt (itemBody Γ rec ⟨st, ds.map digitChar⟩ a) = elabPower Γ (.num ds) a := by
  have hf := digits_item ds hne hall
  have hne' : ds ≠ [] := by intro h; subst h; simp at hne
  have hall' : ∀ d ∈ ds, d < 10 := fun d hd => by simpa using (List.all_eq_true.mp hall) d hd
  have hpy := pyInt_digits ds hne' hall'
  match ds, hne' with
  | d :: ds', _ =>
    have hd := digitChar_facts d (hall' d List.mem_cons_self)
    have htrim : (⟨st, digitChar d :: ds'.map digitChar⟩ : Sub).trim = ⟨st, digitChar d :: ds'.map digitChar⟩ := by
      simpa using trim_of_ends st _ hf.ends
    simp only [List.map_cons] at hpy ⊢
    unfold itemBody
    simp only [htrim, hd.1, Bool.true_or, if_true]
    cases a
    · simp [elabPower]
    · simp only [Bool.not_true, Bool.false_eq_true, if_false]
      have : parseUnsignedInt ⟨st, digitChar d :: ds'.map digitChar⟩ = .ok ⟨.int (digitsVal (d :: ds')), [], [], []⟩ := by
        unfold parseUnsignedInt
        rw [htrim]
        simp only [hpy]
        have : ¬ ((digitsVal (d :: ds') : Int) < 0) := by omega
        simp [this]
      simp [this, elabPower]

theorem noMatch_opening_plain (c : Char) (tl : List Char) (h : plain c = true) : noMatch [.opening] (c :: tl) = true := by
  simp only [plain, Bool.not_eq_true', Bool.or_eq_false_iff] at h
  simp [noMatch, firstMatch, Matcher.run, h.1]

theorem find_opening_plain (p : List Char) (h : p.all plain = true) : find [.opening] p = ⟨none, p.length, 0⟩ :=
  find_none _ p (topAll_of_heads _ plain [] (fun c tl hc => noMatch_opening_plain c tl hc) p 0 (topHeads_all plain p 0 h))

theorem partitionScope_plain (st : Nat) (p : List Char) (h : p.all plain = true) :
    (⟨st, p⟩ : Sub).partitionScope = ⟨⟨st, p⟩, ⟨st + p.length, []⟩, ⟨st + p.length, []⟩, ⟨st + p.length, []⟩, ⟨st + p.length, []⟩⟩ := by
  have ho : (⟨st, p⟩ : Sub).openAt = p.length := by simp [Sub.openAt, find_opening_plain p h]
  have hc : (⟨st, p⟩ : Sub).closeAt = p.length := by simp [Sub.closeAt, ho, find, findGo]
  simp only [Sub.partitionScope, ho, hc, Sub.takeN, Sub.slice, Sub.dropN, Sub.len]
  simp

theorem noMatch_us (c : Char) (tl : List Char) (h : (c == '_') = false) : noMatch [.lit ['_']] (c :: tl) = true := by
  have : ('_' == c) = false := by rw [Bool.beq_comm]; exact h
  simp [noMatch, firstMatch, Matcher.run, List.isPrefixOf, this]

theorem find_us_name (name : List Char) (hn : name.all nameChar = true) (X : List Char) :
    topAll (noMatch [.lit ['_']]) X name 0 = true := by
  apply topAll_of_heads _ (fun c => !(c == '_')) X (fun c tl hc => noMatch_us c tl (by simpa using hc)) name 0
  apply topHeads_all
  rw [List.all_eq_true] at hn ⊢
  intro x hx
  have := (nameChar_facts x (hn x hx)).2.2
  simp [this]

theorem partition_us (st : Nat) (name idx : List Char) (hn : name.all nameChar = true) (hi : idx.all idxChar = true) :
    ((⟨st, name ++ (if idx.isEmpty then [] else '_' :: idx)⟩ : Sub).partition [.lit ['_']]).1 = ⟨st, name⟩ ∧
    ∃ st', ((⟨st, name ++ (if idx.isEmpty then [] else '_' :: idx)⟩ : Sub).partition [.lit ['_']]).2.2 = ⟨st', idx⟩ := by
  cases idx with
  | nil =>
    have hf : find [.lit ['_']] name = ⟨none, name.length, 0⟩ := find_none _ name (find_us_name name hn [])
    simp [Sub.partition, hf, Sub.takeN, Sub.dropN, Sub.len]
  | cons i is =>
    have hb : Bal name := Bal.of_plain name (by
      rw [List.all_eq_true] at hn ⊢; intro x hx; exact (nameChar_facts x (hn x hx)).1)
    have hf : find [.lit ['_']] (name ++ '_' :: (i :: is)) = ⟨some 0, name.length, 1⟩ :=
      find_sep _ name '_' (i :: is) 0 1 (find_us_name name hn _) hb.2 (by decide) (by simp [firstMatch, Matcher.run, List.isPrefixOf])
    simp [Sub.partition, hf, Sub.takeN, Sub.dropN, Sub.len]

theorem var_plain (name idx : List Char) (hn : name.all nameChar = true) (hi : idx.all idxChar = true) :
    (name ++ (if idx.isEmpty then [] else '_' :: idx)).all plain = true := by
  rw [List.all_eq_true] at hn hi ⊢
  intro x hx
  simp only [List.mem_append] at hx
  rcases hx with hx | hx
  · exact (nameChar_facts x (hn x hx)).1
  · split at hx
    · simp at hx
    · simp only [List.mem_cons] at hx
      rcases hx with rfl | hx
      · decide
      · exact (idxChar_facts x (hi x hx)).1

theorem itemBody_var (Γ : Ctx) (rec : Rec) (st : Nat) (name idx : List Char) (a : Bool)
    (hn : nameOK name = true) (hi : idx.all idxChar = true) :
    toOpt (itemBody Γ rec ⟨st, name ++ (if idx.isEmpty then [] else '_' :: idx)⟩ a) = elabPower Γ (.var name idx) a := by
  have hf := var_item name idx hn hi
  have htrim := trim_of_ends st _ hf.ends
  match name, hn with
  | c :: cs, hn =>
    simp only [nameOK, Bool.and_eq_true] at hn
    have hc := nameStart_facts c hn.1
    have hnall : (c :: cs).all nameChar = true := by simp [hc.1, hn.2]
    have hplain := var_plain (c :: cs) idx hnall hi
    have hps := partitionScope_plain st _ hplain
    obtain ⟨hname, st', hgen⟩ := partition_us st (c :: cs) idx hnall hi
    generalize hp : (c :: cs) ++ (if idx.isEmpty then [] else '_' :: idx) = p at *
    have hpc : ∃ tl, p = c :: tl := ⟨cs ++ (if idx.isEmpty then [] else '_' :: idx), by rw [← hp]; rfl⟩
    obtain ⟨tl, hptl⟩ := hpc
    unfold itemBody
    simp only [htrim, hps]
    rw [hptl]
    simp only [hc.2.2.1, hc.2.2.2, Bool.or_self, Bool.false_eq_true, if_false]
    rw [← hptl]
    simp only [hname, hgen, Sub.isEmpty, List.isEmpty_nil, Bool.not_true, Bool.false_and, Bool.false_eq_true, if_false, if_true]
    have hpne : p.isEmpty = false := by rw [hptl]; rfl
    simp only [hpne, Bool.not_false, if_true, Sub.len]
    simp only [elabPower]
    cases Γ.lookupVar (c :: cs) with
    | none => simp only [fail_bind, toOpt_fail]
    | some shape =>
      simp only []
      by_cases hlen : shape.length = idx.length
      · have hne : (shape.length != idx.length) = false := by simp [hlen]
        simp only [hne, Bool.false_eq_true, if_false, ok_bind, toOpt_bind]
        rw [toOpt_genIndicesGo idx _ _ _ st' 0]
        congr 1; funext g
        exact toOpt_trace _ _ _ _ _ _
      · have hne : (shape.length != idx.length) = true := by simp [hlen]
        simp only [hne, if_true, fail_bind, toOpt_fail]

theorem not_close_of_open (o : Char) (ho : isOpen o = true) : isClose o = false := by
  cases h : isClose o with
  | false => rfl
  | true => rw [open_close_excl o h] at ho; simp at ho

theorem partitionScope_bracket (st : Nat) (o c : Char) (E : List Char) (ho : isOpen o = true) (hc : isClose c = true) (hE : Bal E) :
    (⟨st, o :: (E ++ [c])⟩ : Sub).partitionScope =
      ⟨⟨st, []⟩, ⟨st, [o]⟩, ⟨st + 1, E⟩, ⟨st + (E.length + 1), [c]⟩, ⟨st + (E.length + 2), []⟩⟩ := by
  have hoc := not_close_of_open o ho
  have hopen : (⟨st, o :: (E ++ [c])⟩ : Sub).openAt = 0 := by
    simp [Sub.openAt, find, findGo_cons, lvlClose, hoc, firstMatch, Matcher.run, ho]
  have hclose : (⟨st, o :: (E ++ [c])⟩ : Sub).closeAt = E.length + 1 := by
    have h1 : findGo [.closing] (E ++ [c]) 1 1 = some (0, 1 + E.length, 1) := by
      rw [findGo_skip [.closing] [c] E 1 1 (topAll_inner _ _ E 0 1 hE.1 (by simp)), hE.2]
      simp [findGo_cons, lvlClose, hc, firstMatch, Matcher.run]
    simp only [Sub.closeAt, hopen, List.drop_zero, find, findGo_cons, lvlClose, hoc, Bool.false_eq_true, if_false, if_true,
      firstMatch, Matcher.run, lvlOpen, ho]
    simp only [show ((0 : Int) + 1) = 1 from rfl, show (0 + 1 : Nat) = 1 from rfl, ne_eq, not_true_eq_false, if_false, h1]
    omega
  simp only [Sub.partitionScope, hopen, hclose, Sub.takeN, Sub.slice, Sub.dropN, Sub.len]
  simp

theorem itemBody_paren (Γ : Ctx) (rec : Rec) (st : Nat) (E : List Char) (a : Bool) (hE : Bal E) :
    itemBody Γ rec ⟨st, '(' :: (E ++ [')'])⟩ a = (rec ⟨st + 1, E⟩).bind fun r => .ok { r with ops := .scope r.ops } := by
  have htrim := trim_of_ends st _ (item_facts_bracket '(' ')' E (by decide) (by decide) hE).ends
  have hps := partitionScope_bracket st '(' ')' E (by decide) (by decide) hE
  simp only [List.cons_append] at htrim
  unfold itemBody
  simp only [htrim, hps]
  simp [Sub.isEmpty, closerOf, isDigit]

theorem itemBody_jump (Γ : Ctx) (rec : Rec) (st : Nat) (E : List Char) (a : Bool) (hE : Bal E) :
    itemBody Γ rec ⟨st, '[' :: (E ++ [']'])⟩ a = (rec ⟨st + 1, E⟩).bind fun r => .ok { r with ops := .jump r.ops } := by
  have htrim := trim_of_ends st _ (item_facts_bracket '[' ']' E (by decide) (by decide) hE).ends
  have hps := partitionScope_bracket st '[' ']' E (by decide) (by decide) hE
  simp only [List.cons_append] at htrim
  unfold itemBody
  simp only [htrim, hps]
  simp [Sub.isEmpty, closerOf, isDigit]

theorem itemBody_mean (Γ : Ctx) (rec : Rec) (st : Nat) (E : List Char) (a : Bool) (hE : Bal E) :
    itemBody Γ rec ⟨st, '{' :: (E ++ ['}'])⟩ a = (rec ⟨st + 1, E⟩).bind fun r => .ok { r with ops := .mean r.ops } := by
  have htrim := trim_of_ends st _ (item_facts_bracket '{' '}' E (by decide) (by decide) hE).ends
  have hps := partitionScope_bracket st '{' '}' E (by decide) (by decide) hE
  simp only [List.cons_append] at htrim
  unfold itemBody
  simp only [htrim, hps]
  simp [Sub.isEmpty, closerOf, isDigit]

/-! ## function calls -/

theorem find_closing_bracket (o c : Char) (E R : List Char) (ho : isOpen o = true) (hc : isClose c = true) (hE : Bal E) :
    (find [.closing] (o :: (E ++ c :: R))).offset = E.length + 1 := by
  have hoc := not_close_of_open o ho
  have h1 : findGo [.closing] (E ++ c :: R) 1 1 = some (0, 1 + E.length, 1) := by
    rw [findGo_skip [.closing] (c :: R) E 1 1 (topAll_inner _ _ E 0 1 hE.1 (by simp)), hE.2]
    simp [findGo_cons, lvlClose, hc, firstMatch, Matcher.run]
  simp only [find, findGo_cons, lvlClose, hoc, Bool.false_eq_true, if_false, if_true, firstMatch, Matcher.run, lvlOpen, ho]
  simp only [show ((0 : Int) + 1) = 1 from rfl, show (0 + 1 : Nat) = 1 from rfl, ne_eq, not_true_eq_false, if_false, h1]
  omega

theorem partitionScope_call (st : Nat) (H E : List Char) (hH : H.all plain = true) (hE : Bal E) :
    (⟨st, H ++ '(' :: (E ++ [')'])⟩ : Sub).partitionScope =
      ⟨⟨st, H⟩, ⟨st + H.length, ['(']⟩, ⟨st + (H.length + 1), E⟩, ⟨st + (H.length + (E.length + 1)), [')']⟩,
       ⟨st + (H.length + (E.length + 2)), []⟩⟩ := by
  have hopen : (⟨st, H ++ '(' :: (E ++ [')'])⟩ : Sub).openAt = H.length := by
    have := find_sep [.opening] H '(' (E ++ [')']) 0 1
      (topAll_of_heads _ plain _ (fun c tl hc => noMatch_opening_plain c tl hc) H 0 (topHeads_all plain H 0 hH))
      (Bal.of_plain H hH).2 (by decide) (by simp [firstMatch, Matcher.run, show isOpen '(' = true from by decide])
    simp [Sub.openAt, this]
  have hclose : (⟨st, H ++ '(' :: (E ++ [')'])⟩ : Sub).closeAt = E.length + 1 + H.length := by
    simp only [Sub.closeAt, hopen, List.drop_left']
    rw [find_closing_bracket '(' ')' E [] (by decide) (by decide) hE]
  simp only [Sub.partitionScope, hopen, hclose, Sub.takeN, Sub.slice, Sub.dropN, Sub.len]
  have e1 : List.drop H.length (H ++ '(' :: (E ++ [')'])) = '(' :: (E ++ [')']) := List.drop_left' rfl
  have e2 : List.drop (H.length + 1) (H ++ '(' :: (E ++ [')'])) = E ++ [')'] := by
    rw [show H ++ '(' :: (E ++ [')']) = (H ++ ['(']) ++ (E ++ [')']) by simp]; exact List.drop_left' (by simp)
  have e3 : List.drop (E.length + 1 + H.length) (H ++ '(' :: (E ++ [')'])) = [')'] := by
    rw [show H ++ '(' :: (E ++ [')']) = (H ++ '(' :: E) ++ [')'] by simp]; exact List.drop_left' (by simp; omega)
  have e4 : List.drop (E.length + 1 + H.length + 1) (H ++ '(' :: (E ++ [')'])) = [] := by
    apply List.drop_eq_nil_of_le; simp; omega
  simp only [List.take_left', e1, e2, e3, e4, List.length_append, List.length_cons, List.length_nil]
  simp
  refine ⟨?_, ?_, ?_⟩
  · rw [show E.length + 1 + H.length - (H.length + 1) = E.length by omega]; exact List.take_left' rfl
  · omega
  · omega

theorem itemBody_call (Γ : Ctx) (rec : Rec) (st : Nat) (name idx E : List Char) (a : Bool)
    (hn : nameOK name = true) (hi : idx.all idxChar = true) (hE : Bal E) :
    toOpt (itemBody Γ rec ⟨st, (name ++ (if idx.isEmpty then [] else '_' :: idx)) ++ ('(' :: E ++ [')'])⟩ a) =
      (toOpt (rec ⟨st + ((name ++ (if idx.isEmpty then [] else '_' :: idx)).length + 1), E⟩)).bind fun arg =>
        match Γ.lookupFn name with
        | none => none
        | some gen =>
          if gen.length != idx.length then none
          else (toOpt (genIndicesGo (.call name idx.length arg.ops) (arg.shape ++ gen) arg.indices ⟨0, idx⟩)).bind fun g =>
            toOpt (trace noSub g.1 g.2.1 g.2.2 [arg.summed]) := by
  have hf := call_item name idx E hn hi hE
  have htrim := trim_of_ends st _ hf.ends
  match name, hn with
  | c :: cs, hn =>
    simp only [nameOK, Bool.and_eq_true] at hn
    have hc := nameStart_facts c hn.1
    have hnall : (c :: cs).all nameChar = true := by simp [hc.1, hn.2]
    have hplain := var_plain (c :: cs) idx hnall hi
    obtain ⟨hname, st', hgen⟩ := partition_us st (c :: cs) idx hnall hi
    generalize hH : (c :: cs) ++ (if idx.isEmpty then [] else '_' :: idx) = H at *
    have hps := partitionScope_call st H E hplain hE
    have hHc : ∃ tl, H = c :: tl := ⟨cs ++ (if idx.isEmpty then [] else '_' :: idx), by rw [← hH]; rfl⟩
    obtain ⟨tl, hHtl⟩ := hHc
    simp only [List.cons_append] at htrim hps ⊢
    unfold itemBody
    simp only [htrim, hps]
    rw [hHtl]
    simp only [List.cons_append, hc.2.2.1, hc.2.2.2, Bool.or_self, Bool.false_eq_true, if_false]
    rw [← hHtl]
    have hHne : H.isEmpty = false := by rw [hHtl]; rfl
    simp only [hname, hgen, Sub.isEmpty, List.isEmpty_nil, List.isEmpty_cons, Bool.not_true, Bool.not_false, Bool.false_and, Bool.true_and,
      Bool.false_eq_true, if_false, if_true, hHne, closerOf, beq_self_eq_true, bne_self_eq_false, Sub.len, toOpt_bind, Option.bind_assoc]
    congr 1; funext arg
    cases Γ.lookupFn (c :: cs) with
    | none => simp only [toOpt_fail, Option.bind_none]
    | some gen =>
      simp only []
      by_cases hlen : gen.length = idx.length
      · have hne : (gen.length != idx.length) = false := by simp [hlen]
        simp only [hne, Bool.false_eq_true, if_false, toOpt_ok, Option.bind_some]
        rw [toOpt_genIndicesGo idx _ _ _ st' 0]
        congr 1; funext g
        exact toOpt_trace _ _ _ _ _ _
      · have hne : (gen.length != idx.length) = true := by simp [hlen]
        simp only [hne, if_true, toOpt_fail, Option.bind_none]

/-! ## powers, terms, fractions -/

theorem splitL_none (ms : List Matcher) (st : Nat) (p : List Char) (h : find ms p = ⟨none, p.length, 0⟩) :
    splitL ms st p = [⟨st, p⟩] := by
  rw [splitL]; simp [h]

theorem noMatch_pow (c : Char) (tl : List Char) (h : okTop c = true) : noMatch [.lit ['^']] (c :: tl) = true := by
  simp only [okTop, Bool.not_eq_true', Bool.or_eq_false_iff] at h
  have : ('^' == c) = false := by rw [Bool.beq_comm]; exact h.2
  simp [noMatch, firstMatch, Matcher.run, List.isPrefixOf, this]

theorem powerBody_item (Γ : Ctx) (rec : Rec) (st : Nat) (p : List Char) (a : Bool) (hf : ItemFacts p) :
    powerBody Γ rec ⟨st, p⟩ a = itemBody Γ rec ⟨st, p⟩ a := by
  have htrim := trim_of_ends st _ hf.ends
  have hfind : find [.lit ['^']] p = ⟨none, p.length, 0⟩ :=
    find_none _ p (topAll_of_heads _ okTop [] (fun c tl hc => noMatch_pow c tl hc) p 0 hf.top)
  unfold powerBody
  simp only [htrim, Sub.split, splitL_none _ st p hfind]

/-- the substrings the parser cuts out for the factors after the first -/
def tailPieces : Src → Nat → List Sub
  | .pcons f tail, s0 => ⟨s0 + 1, f.print⟩ :: tailPieces tail (s0 + 1 + f.print.length)
  | _, _ => []

theorem noMatch_spaces (c : Char) (tl : List Char) (h : notSp c = true) : noMatch [.spaces] (c :: tl) = true := by
  have : (c == ' ') = false := by simpa [notSp] using h
  simp [noMatch, firstMatch, Matcher.run, List.takeWhile, this]

theorem split_spaces (tail : Src) : tail.ok .ptail = true → ∀ (A : List Char) (st : Nat), PowFacts A →
    splitL [.spaces] st (A ++ tail.print) = ⟨st, A⟩ :: tailPieces tail (st + A.length) := by
  induction tail with
  | pnil =>
    intro _ A st hA
    simp only [Src.print, List.append_nil, tailPieces]
    exact splitL_none _ st A (find_none _ A (topAll_of_heads _ notSp [] (fun c tl hc => noMatch_spaces c tl hc) A 0 hA.top))
  | pcons f tl ihf iht =>
    intro hok A st hA
    simp only [Src.ok, Bool.and_eq_true] at hok
    have hf : PowFacts f.print := print_facts f .power hok.1
    obtain ⟨c, cs, hpf, hc⟩ := hf.ends.head
    have hfind : find [.spaces] (A ++ ' ' :: (f.print ++ tl.print)) = ⟨some 0, A.length, 1⟩ := by
      apply find_sep _ A ' ' _ 0 1 (topAll_of_heads _ notSp _ (fun c tl hc => noMatch_spaces c tl hc) A 0 hA.top) hA.bal.2 (by decide)
      rw [hpf]
      simp [firstMatch, Matcher.run, List.takeWhile, startOK_not_space c hc]
    simp only [Src.print, tailPieces, List.cons_append]
    rw [splitL]
    simp only [hfind, Nat.succ_ne_zero, dite_false, List.take_left', List.cons.injEq, true_and]
    have hdrop : List.drop (A.length + 1) (A ++ ' ' :: (f.print ++ tl.print)) = f.print ++ tl.print := by
      rw [show A ++ ' ' :: (f.print ++ tl.print) = (A ++ [' ']) ++ (f.print ++ tl.print) by simp]
      exact List.drop_left' (by simp)
    rw [hdrop, iht hok.2 f.print _ hf]
    simp [Nat.add_assoc]
  | _ => intro h; simp [Src.ok] at h

/-- the substrings (with the index of the separator to their left) the parser cuts out for the terms after the first -/
def ttailPieces : Src → Nat → List (Option Nat × Sub)
  | .tcons minus t tail, s0 => (some (if minus then 1 else 0), ⟨s0 + 3, t.print⟩) :: ttailPieces tail (s0 + 3 + t.print.length)
  | _, _ => []

theorem isplitL_none (ms : List Matcher) (first : Option Nat) (st : Nat) (p : List Char) (h : find ms p = ⟨none, p.length, 0⟩) :
    isplitL ms first st p = [(first, ⟨st, p⟩)] := by
  rw [isplitL]; simp [h]

theorem isplit_pm (tail : Src) : tail.ok .ttail = true → ∀ (A : List Char) (st : Nat) (first : Option Nat), FracFacts A →
    isplitL plusMinus first st (A ++ tail.print) = (first, ⟨st, A⟩) :: ttailPieces tail (st + A.length) := by
  induction tail with
  | tnil =>
    intro _ A st first hA
    simp only [Src.print, List.append_nil, ttailPieces]
    exact isplitL_none _ first st A (find_none _ A (hA.sep []))
  | tcons minus t tl iht ihtl =>
    intro hok A st first hA
    simp only [Src.ok, Bool.and_eq_true] at hok
    have ht := print_facts t .frac hok.1
    have hfind : find plusMinus (A ++ ' ' :: ((if minus then '-' else '+') :: ' ' :: (t.print ++ tl.print))) =
        ⟨some (if minus then 1 else 0), A.length, 3⟩ := by
      apply find_sep _ A ' ' _ _ 3 (hA.sep _) hA.bal.2 (by decide)
      cases minus <;> simp [plusMinus, firstMatch, Matcher.run, List.isPrefixOf]
    simp only [Src.print, ttailPieces, List.cons_append, List.nil_append, List.append_assoc]
    rw [isplitL]
    simp only [hfind, Nat.succ_ne_zero, dite_false, List.take_left', List.cons.injEq, true_and]
    have hdrop : List.drop (A.length + 3) (A ++ ' ' :: ((if minus then '-' else '+') :: ' ' :: (t.print ++ tl.print))) = t.print ++ tl.print := by
      rw [show A ++ ' ' :: ((if minus then '-' else '+') :: ' ' :: (t.print ++ tl.print)) = (A ++ [' ', (if minus then '-' else '+'), ' ']) ++ (t.print ++ tl.print) by simp]
      exact List.drop_left' (by simp)
    rw [hdrop, ihtl hok.2 t.print _ _ ht.1]
    simp [Nat.add_assoc]
  | _ => intro h; simp [Src.ok] at h

theorem fractionBody_term (Γ : Ctx) (rec : Rec) (st : Nat) (T : List Char) (hT : TermFacts T) :
    fractionBody Γ rec ⟨st, T⟩ = termBody Γ rec ⟨st, T⟩ := by
  unfold fractionBody
  simp only [Sub.split, splitL_none _ st T (find_none _ T (hT.sep slash (Or.inr rfl) []))]

/-! ## powers and fractions -/

theorem toOpt_verify (s s' : Sub) (indices summed : List Char) :
    toOpt (verifyIndicesSummed s indices summed) = toOpt (verifyIndicesSummed s' indices summed) := by
  unfold verifyIndicesSummed
  split <;> rfl

/-- the common tail of `parse_power` and `parse_fraction`, independent of the spans -/
theorem toOpt_scalar_tail (k : ErrKind) (s1 s2 : Sub) (mk : Ops → Ops → Ops) (base ex : Res) :
    toOpt (if !ex.indices.isEmpty then fail k s1
      else (mergeSummed s2 [base.summed, ex.summed]).bind fun summed =>
        (verifyIndicesSummed s2 base.indices summed).bind fun _ =>
          .ok ⟨mk base.ops ex.ops, base.shape, base.indices, summed⟩) = scalarCombine mk base ex := by
  unfold scalarCombine
  split
  · rfl
  · simp only [toOpt_bind, mergeSummed]
    rw [toOpt_mergeSummedGo s2 noSub]
    congr 1; funext summed
    rw [toOpt_verify s2 noSub]
    cases toOpt (verifyIndicesSummed noSub base.indices summed) <;> rfl

theorem trim_of_nosp (st : Nat) (p : List Char) (hh : ∃ c cs, p = c :: cs ∧ (c == ' ') = false)
    (hl : ∃ init c, p = init ++ [c] ∧ (c == ' ') = false) : (⟨st, p⟩ : Sub).trim = ⟨st, p⟩ := by
  obtain ⟨init, d, hp, hd⟩ := hl
  obtain ⟨c, cs, hp', hc⟩ := hh
  have h1 : (⟨st, p⟩ : Sub).trimEnd = ⟨st, p⟩ := by
    simp only [Sub.trimEnd, Sub.len]
    rw [hp]; simp [List.takeWhile, hd]
    exact List.take_of_length_le (by simp)
  rw [Sub.trim, h1, hp']
  exact trimStart_of_head st c cs hc

theorem endsWith_space_false (st : Nat) (p : List Char) (h : Ends p) : (⟨st, p⟩ : Sub).endsWith [' '] = false := by
  obtain ⟨init, c, hp, hc⟩ := h.last
  have : (' ' == c) = false := by rw [Bool.beq_comm]; exact hc
  simp [Sub.endsWith, hp, List.isPrefixOf, this]

theorem pyInt_expo (neg : Bool) (ds : List Nat) (h : digitsOK ds = true) :
    pyInt (expoText neg ds) = some (if neg then - (digitsVal ds : Int) else (digitsVal ds : Int)) := by
  obtain ⟨hne, hall⟩ := digitsOK_iff ds h
  have hne' : ds ≠ [] := by intro e; subst e; simp at hne
  have hall' : ∀ d ∈ ds, d < 10 := fun d hd => by simpa using (List.all_eq_true.mp hall) d hd
  cases neg with
  | false => simpa [expoText] using pyInt_digits ds hne' hall'
  | true =>
    have hd := digitPart_digits ds hne' hall'
    simp [expoText, pyInt, hd]

theorem split_pow (st : Nat) (B E : List Char) (hB : ItemFacts B) (hE : topHeads okTop E 0 = true) :
    splitL [.lit ['^']] st (B ++ '^' :: E) = [⟨st, B⟩, ⟨st + (B.length + 1), E⟩] := by
  have hfind : find [.lit ['^']] (B ++ '^' :: E) = ⟨some 0, B.length, 1⟩ :=
    find_sep _ B '^' E 0 1 (topAll_of_heads _ okTop _ (fun c tl hc => noMatch_pow c tl hc) B 0 hB.top) hB.bal.2 (by decide)
      (by simp [firstMatch, Matcher.run, List.isPrefixOf])
  have hE' : find [.lit ['^']] E = ⟨none, E.length, 0⟩ :=
    find_none _ E (topAll_of_heads _ okTop [] (fun c tl hc => noMatch_pow c tl hc) E 0 hE)
  rw [splitL]
  simp only [hfind, Nat.succ_ne_zero, dite_false, List.take_left', List.cons.injEq, true_and]
  have hdrop : List.drop (B.length + 1) (B ++ '^' :: E) = E := by
    rw [show B ++ '^' :: E = (B ++ ['^']) ++ E by simp]
    exact List.drop_left' (by simp)
  rw [hdrop, splitL_none _ _ E hE']

/-- the first steps of `parse_power` on `item^exponent` -/
theorem powerBody_pow_pre (st : Nat) (B E : List Char) (hB : ItemFacts B)
    (hEh : ∃ c cs, E = c :: cs ∧ (c == ' ') = false) (hEl : ∃ init c, E = init ++ [c] ∧ (c == ' ') = false) :
    (⟨st, B ++ '^' :: E⟩ : Sub).trim = ⟨st, B ++ '^' :: E⟩ ∧ (⟨st, B⟩ : Sub).endsWith [' '] = false ∧
    (⟨st + (B.length + 1), E⟩ : Sub).startsWith [' '] = false := by
  obtain ⟨c0, cs0, hB0, hc0⟩ := hB.ends.head
  obtain ⟨init, cl, hEl', hcl⟩ := hEl
  obtain ⟨ce, cse, hEe, hce⟩ := hEh
  refine ⟨trim_of_nosp st _ ⟨c0, cs0 ++ '^' :: E, by simp [hB0], startOK_not_space c0 hc0⟩ ⟨B ++ '^' :: init, cl, by simp [hEl'], hcl⟩,
    endsWith_space_false st B hB.ends, ?_⟩
  have : (' ' == ce) = false := by rw [Bool.beq_comm]; exact hce
  simp [Sub.startsWith, hEe, List.isPrefixOf, this]

/-- `parse_power` on `item^int` -/
theorem powerBody_powInt (Γ : Ctx) (rec : Rec) (st : Nat) (B : List Char) (neg : Bool) (ds : List Nat) (a : Bool)
    (hB : ItemFacts B) (hds : digitsOK ds = true) :
    toOpt (powerBody Γ rec ⟨st, B ++ '^' :: expoText neg ds⟩ a) =
      (toOpt (itemBody Γ rec ⟨st, B⟩ a)).bind fun base =>
        scalarCombine .pow base ⟨.int (if neg then - (digitsVal ds : Int) else (digitsVal ds : Int)), [], [], []⟩ := by
  obtain ⟨hpl, ⟨c, cs, hhead, hcsp, hcd⟩, hlast⟩ := expoText_plain neg ds hds
  have hpl1 : (expoText neg ds).all plain = true := by
    rw [List.all_eq_true] at hpl ⊢; intro x hx; have := hpl x hx; simp only [Bool.and_eq_true] at this; exact this.1
  have hpl2 : topHeads okTop (expoText neg ds) 0 = true := by
    apply topHeads_all
    rw [List.all_eq_true] at hpl ⊢; intro x hx; have := hpl x hx; simp only [Bool.and_eq_true] at this; exact this.2
  obtain ⟨htrim, hew, hsw⟩ := powerBody_pow_pre st B (expoText neg ds) hB ⟨c, cs, hhead, hcsp⟩ hlast
  have hps := partitionScope_plain (st + (B.length + 1)) _ hpl1
  have htrimE : (⟨st + (B.length + 1), expoText neg ds⟩ : Sub).trim = ⟨st + (B.length + 1), expoText neg ds⟩ :=
    trim_of_nosp _ _ ⟨c, cs, hhead, hcsp⟩ hlast
  have hsi : parseSignedInt ⟨st + (B.length + 1), expoText neg ds⟩ =
      .ok ⟨.int (if neg then - (digitsVal ds : Int) else (digitsVal ds : Int)), [], [], []⟩ := by
    unfold parseSignedInt
    rw [htrimE]
    simp only [pyInt_expo neg ds hds]
  unfold powerBody
  simp only [htrim, Sub.split, split_pow st B _ hB hpl2, hew, hsw, Bool.false_eq_true, if_false, hps]
  have hne : (⟨st + (B.length + 1), expoText neg ds⟩ : Sub).isEmpty = false := by simp [Sub.isEmpty, hhead]
  simp only [hne, Bool.false_and, Bool.false_eq_true, if_false]
  rw [hhead] at hsi ⊢
  simp only [hcd, if_true, hsi, toOpt_bind]
  congr 1; funext base
  try simp only [ok_bind]
  exact toOpt_scalar_tail _ _ _ .pow base _

/-- `parse_power` on `item^(expression)` -/
theorem powerBody_powExpr (Γ : Ctx) (rec : Rec) (st : Nat) (B X : List Char) (a : Bool) (hB : ItemFacts B) (hX : Bal X) :
    toOpt (powerBody Γ rec ⟨st, B ++ '^' :: ('(' :: (X ++ [')']))⟩ a) =
      (toOpt (itemBody Γ rec ⟨st, B⟩ a)).bind fun base =>
        (toOpt (rec ⟨st + (B.length + 1) + 1, X⟩)).bind fun ex => scalarCombine .pow base ex := by
  have hEf := item_facts_bracket '(' ')' X (by decide) (by decide) hX
  simp only [List.cons_append] at hEf
  obtain ⟨htrim, hew, hsw⟩ := powerBody_pow_pre st B ('(' :: (X ++ [')'])) hB ⟨'(', X ++ [')'], rfl, by decide⟩ hEf.ends.last
  have hps := partitionScope_bracket (st + (B.length + 1)) '(' ')' X (by decide) (by decide) hX
  unfold powerBody
  simp only [htrim, Sub.split, split_pow st B _ hB hEf.top, hew, hsw, Bool.false_eq_true, if_false, hps]
  simp only [Sub.isEmpty, List.isEmpty_nil, Bool.and_self, beq_self_eq_true, if_true, toOpt_bind]
  congr 1; funext base
  congr 1; funext ex
  exact toOpt_scalar_tail _ _ _ .pow base ex

/-! ## decimal literals -/

theorem splitAtFirst_none (p : Char → Bool) (A : List Char) (hA : ∀ x ∈ A, p x = false) : splitAtFirst p A = (A, none) := by
  induction A with
  | nil => rfl
  | cons a A ih =>
    simp only [splitAtFirst, hA a List.mem_cons_self, Bool.false_eq_true, if_false, ih (fun x hx => hA x (List.mem_cons_of_mem _ hx))]

theorem splitAtFirst_append (p : Char → Bool) (A B : List Char) (c : Char) (hA : ∀ x ∈ A, p x = false) (hc : p c = true) :
    splitAtFirst p (A ++ c :: B) = (A, some B) := by
  induction A with
  | nil => simp [splitAtFirst, hc]
  | cons a A ih =>
    simp only [List.cons_append, splitAtFirst, hA a List.mem_cons_self, Bool.false_eq_true, if_false, ih (fun x hx => hA x (List.mem_cons_of_mem _ hx))]

theorem digitPart_chars (n : Nat) : ∀ (l : List Char) (ds : List Nat), l.length ≤ n → digitPart l = some ds →
    ∀ c ∈ l, (isDigit c || c == '_') = true := by
  induction n with
  | zero =>
    intro l ds hl h
    cases l with
    | nil => simp [digitPart] at h
    | cons _ _ => simp at hl
  | succ n ih =>
    intro l ds hl h
    cases l with
    | nil => simp [digitPart] at h
    | cons c rest =>
      cases rest with
      | nil =>
        simp only [digitPart] at h
        split at h
        · rename_i hc; intro x hx; simp only [List.mem_singleton] at hx; subst hx; simp [hc]
        · simp at h
      | cons d cs =>
        by_cases hd : d = '_'
        · subst hd
          simp only [digitPart] at h
          split at h
          · rename_i hc
            cases hdd : digitPart cs with
            | none => simp [hdd] at h
            | some dd =>
              have := ih cs dd (by simp at hl; omega) hdd
              intro x hx
              simp only [List.mem_cons] at hx
              rcases hx with rfl | rfl | hx
              · simp [hc]
              · simp
              · exact this x hx
          · simp at h
        · rw [digitPart] at h
          · split at h
            · rename_i hc
              cases hdd : digitPart (d :: cs) with
              | none => simp [hdd] at h
              | some dd =>
                have := ih (d :: cs) dd (by simp at hl ⊢; omega) hdd
                intro x hx
                rcases List.mem_cons.mp hx with rfl | hx
                · simp [hc]
                · exact this x hx
            · simp at h
          · intro e; exact hd e

theorem digitPart_none_of_mem (l : List Char) (c : Char) (hc : c ∈ l) (h : (isDigit c || c == '_') = false) : digitPart l = none := by
  cases hd : digitPart l with
  | none => rfl
  | some ds => have := digitPart_chars l.length l ds (Nat.le_refl _) hd c hc; rw [h] at this; simp at this

theorem digitPart_digits' (ds : List Nat) (h : digitsOK ds = true) : digitPart (ds.map digitChar) = some ds := by
  obtain ⟨hne, hall⟩ := digitsOK_iff ds h
  exact digitPart_digits ds (by intro e; subst e; simp at hne) (fun d hd => by simpa using (List.all_eq_true.mp hall) d hd)

theorem mem_decText_marker (ip : List Nat) (fp : Option (List Nat)) (ex : Option (Bool × List Nat)) (h : decOK ip fp ex = true) :
    '.' ∈ decText ip fp ex ∨ 'e' ∈ decText ip fp ex := by
  simp only [decOK, Bool.and_eq_true] at h
  cases fp with
  | some f => left; simp [decText, numText]
  | none =>
    cases ex with
    | none => simp at h
    | some p => right; obtain ⟨neg, ds⟩ := p; simp [decText, expSuffix]

theorem pyInt_dec_none (ip : List Nat) (fp : Option (List Nat)) (ex : Option (Bool × List Nat)) (h : decOK ip fp ex = true) :
    pyInt (decText ip fp ex) = none := by
  have hf := dec_item ip fp ex h
  obtain ⟨c, cs, hc, hs⟩ := hf.ends.head
  have hdp : digitPart (decText ip fp ex) = none := by
    rcases mem_decText_marker ip fp ex h with hm | hm
    · exact digitPart_none_of_mem _ '.' hm (by decide)
    · exact digitPart_none_of_mem _ 'e' hm (by decide)
  simp only [startOK, Bool.not_eq_true', Bool.or_eq_false_iff] at hs
  unfold pyInt
  rw [hc] at hdp ⊢
  split
  · rename_i r heq
    simp only [List.cons.injEq] at heq
    have := hs.1.1.1.2; rw [heq.1] at this; simp at this
  · rename_i r heq
    simp only [List.cons.injEq] at heq
    have := hs.1.1.2; rw [heq.1] at this; simp at this
  · rw [hdp]; rfl

theorem digits_no (ds : List Nat) (hall : ds.all (· < 10) = true) (q : Char → Bool) (hq : ∀ c, isDigit c = true → q c = false) :
    ∀ x ∈ ds.map digitChar, q x = false :=
  fun x hx => hq x (digits_chars ds hall x hx).2

theorem pyFloat_dec (ip : List Nat) (fp : Option (List Nat)) (ex : Option (Bool × List Nat)) (h : decOK ip fp ex = true) :
    pyFloat (decText ip fp ex) = some (decValue ip fp ex) := by
  simp only [decOK, Bool.and_eq_true] at h
  obtain ⟨⟨hip, hfp⟩, hex⟩ := h
  have hE : ∀ c, isDigit c = true → (c == 'e' || c == 'E') = false := by
    intro c hc
    simp only [isDigit, Bool.and_eq_true, decide_eq_true_eq] at hc
    have h1 : 48 ≤ c.toNat := hc.1
    have h2 : c.toNat ≤ 57 := hc.2
    have : ∀ d : Char, 57 < d.toNat → (c == d) = false := by
      intro d hd; cases hcd : c == d with
      | false => rfl
      | true => have := eq_of_beq hcd; subst this; omega
    simp [this 'e' (by decide), this 'E' (by decide)]
  have hD : ∀ c, isDigit c = true → (c == '.') = false := by
    intro c hc
    simp only [isDigit, Bool.and_eq_true, decide_eq_true_eq] at hc
    have h1 : 48 ≤ c.toNat := hc.1
    cases hcd : c == '.' with
    | false => rfl
    | true => have := eq_of_beq hcd; subst this; simp at h1
  -- the number part (before the exponent)
  have hN : ∀ x ∈ numText ip fp, (x == 'e' || x == 'E') = false := by
    intro x hx
    simp only [numText, List.mem_append] at hx
    rcases hx with hx | hx
    · exact digits_no ip hip _ hE x hx
    · cases fp with
      | none => simp at hx
      | some f =>
        simp only [Bool.and_eq_true] at hfp
        simp only [List.mem_cons] at hx
        rcases hx with rfl | hx
        · decide
        · exact digits_no f hfp.1 _ hE x hx
  have hsplitE : splitAtFirst (fun c => c == 'e' || c == 'E') (decText ip fp ex) =
      (numText ip fp, ex.map fun p => expoText p.1 p.2) := by
    cases ex with
    | none => simp only [decText, expSuffix, List.append_nil, Option.map_none]; exact splitAtFirst_none _ _ hN
    | some p => obtain ⟨neg, ds⟩ := p; simp only [decText, expSuffix, Option.map_some]; exact splitAtFirst_append _ _ _ 'e' hN (by decide)
  have hsplitD : splitAtFirst (· == '.') (numText ip fp) = (ip.map digitChar, fp.map (·.map digitChar)) := by
    cases fp with
    | none => simp only [numText, List.append_nil, Option.map_none]; exact splitAtFirst_none _ _ (digits_no ip hip _ hD)
    | some f => simp only [numText, Option.map_some]; exact splitAtFirst_append _ _ _ '.' (digits_no ip hip _ hD) (by decide)
  unfold pyFloat
  simp only [hsplitE, hsplitD]
  -- the mantissa
  cases fp with
  | none =>
    simp only [Bool.and_eq_true, Bool.not_eq_true', List.isEmpty_iff] at hfp
    have hipd : digitPart (ip.map digitChar) = some ip := digitPart_digits' ip (by simp [digitsOK, hip]; intro e; subst e; simp at hfp)
    cases ex with
    | none => simp [hipd, decValue]
    | some p => obtain ⟨neg, ds⟩ := p; simp [hipd, decValue, pyInt_expo neg ds hex]
  | some f =>
    simp only [Bool.and_eq_true] at hfp
    cases f with
    | nil =>
      have hne : ip ≠ [] := by intro e; subst e; simp at hfp
      have hipd : digitPart (ip.map digitChar) = some ip := digitPart_digits' ip (by simp [digitsOK, hip]; exact hne)
      cases ex with
      | none => simp [hipd, decValue]
      | some p => obtain ⟨neg, ds⟩ := p; simp [hipd, decValue, pyInt_expo neg ds hex]
    | cons f0 fs =>
      have hfd : digitPart ((f0 :: fs).map digitChar) = some (f0 :: fs) := digitPart_digits' _ (by simp [digitsOK]; simpa using hfp.1)
      cases ip with
      | nil =>
        simp only [List.map_cons] at hfd
        cases ex with
        | none => simp [hfd, decValue]
        | some p => obtain ⟨neg, ds⟩ := p; simp [hfd, decValue, pyInt_expo neg ds hex]
      | cons i0 is =>
        have hipd : digitPart ((i0 :: is).map digitChar) = some (i0 :: is) := digitPart_digits' _ (by simp [digitsOK]; simpa using hip)
        simp only [List.map_cons] at hfd hipd
        cases ex with
        | none => simp [hfd, hipd, decValue]
        | some p => obtain ⟨neg, ds⟩ := p; simp [hfd, hipd, decValue, pyInt_expo neg ds hex]

theorem itemBody_dec (Γ : Ctx) (rec : Rec) (st : Nat) (ip : List Nat) (fp : Option (List Nat)) (ex : Option (Bool × List Nat)) (a : Bool)
    (h : decOK ip fp ex = true) :
    toOpt (itemBody Γ rec ⟨st, decText ip fp ex⟩ a) = elabPower Γ (.dec ip fp ex) a := by
  have hf := dec_item ip fp ex h
  have htrim := trim_of_ends st _ hf.ends
  have hcs : ∃ c cs, decText ip fp ex = c :: cs ∧ (isDigit c || c == '.') = true := by
    simp only [decOK, Bool.and_eq_true] at h
    cases ip with
    | cons d ds =>
      have := digitChar_facts d (by have := h.1.1; simp only [List.all_cons, Bool.and_eq_true, decide_eq_true_eq] at this; exact this.1)
      exact ⟨digitChar d, decText ds fp ex, rfl, by simp [this.1]⟩
    | nil =>
      cases fp with
      | none => simp at h
      | some f => exact ⟨'.', (decText [] (some f) ex).tail, rfl, by decide⟩
  obtain ⟨c, cs, hc, hcd⟩ := hcs
  have hint : parseUnsignedInt ⟨st, decText ip fp ex⟩ = fail .expectedInt (⟨st, decText ip fp ex⟩ : Sub).trimOr := by
    unfold parseUnsignedInt; rw [htrim]; simp only [pyInt_dec_none ip fp ex h]
  have hfloat : parseUnsignedFloat ⟨st, decText ip fp ex⟩ = .ok ⟨.float (decValue ip fp ex).1 (decValue ip fp ex).2, [], [], []⟩ := by
    unfold parseUnsignedFloat; rw [htrim]; simp only [pyFloat_dec ip fp ex h]
  unfold itemBody
  simp only [htrim]
  rw [hc] at hint hfloat ⊢
  simp only [hcd, if_true]
  cases a
  · simp [elabPower]
  · simp only [Bool.not_true, Bool.false_eq_true, if_false, hint, hfloat, fail, elabPower, if_true, toOpt_ok]

/-! ## the main induction -/

/-- what parsing the printed text of a tree of kind `k` gives, when nested expressions are parsed by `rec` -/
def Goal (Γ : Ctx) (rec : Rec) : Kind → Src → Prop
  | .item, t => ∀ st a, toOpt (itemBody Γ rec ⟨st, t.print⟩ a) = elabPower Γ t a
  | .power, t => ∀ st a, toOpt (powerBody Γ rec ⟨st, t.print⟩ a) = elabPower Γ t a
  | .ptail, t => ∀ s0 k, 1 ≤ k →
      toOpt (mapMIdx (fun i p => powerBody Γ rec p (i == 0)) (tailPieces t s0) k) = elabFactors Γ t
  | .term, t => ∀ st, toOpt (termBody Γ rec ⟨st, t.print⟩) = elabTerm Γ t
  | .frac, t => ∀ st, toOpt (fractionBody Γ rec ⟨st, t.print⟩) = elabFrac Γ t
  | .ttail, t => ∀ s0 k,
      (toOpt (mapMIdx (fun _ (p : Option Nat × Sub) => (fractionBody Γ rec p.2).bind fun r => .ok (p.1 == some 1, p.2, r))
        (ttailPieces t s0) k)).map stripSubs = (elabTail Γ t).map stripSubs
  | .expr, t => ∀ st, toOpt (exprBody Γ rec ⟨st, t.print⟩) = elabExpr Γ t

theorem mapMIdx_cons {α β : Type} (f : Nat → α → P β) (a : α) (as : List α) (k : Nat) :
    mapMIdx f (a :: as) k = (f k a).bind fun b => (mapMIdx f as (k + 1)).bind fun bs => .ok (b :: bs) := rfl

theorem termBody_prod (Γ : Ctx) (rec : Rec) (f tail : Src) (hf1 : f.ok .power = true) (ht1 : tail.ok .ptail = true)
    (hf : Goal Γ rec .power f) (ht : Goal Γ rec .ptail tail) (st : Nat) :
    toOpt (termBody Γ rec ⟨st, f.print ++ tail.print⟩) =
      (elabPower Γ f true).bind fun r => (elabFactors Γ tail).bind fun rs => termCombine r rs := by
  have hff : PowFacts f.print := print_facts f .power hf1
  have hfacts := print_facts (.prod f tail) .term (by simp [Src.ok, hf1, ht1])
  have htrim := trim_of_ends st _ hfacts.2
  have hne : (⟨st, (Src.prod f tail).print⟩ : Sub).isEmpty = false := by
    obtain ⟨c, cs, hp, _⟩ := hfacts.2.head
    simp [Sub.isEmpty, hp]
  simp only [Src.print] at htrim hne
  unfold termBody
  simp only [htrim, hne, Bool.false_eq_true, if_false, Sub.split]
  rw [split_spaces tail ht1 f.print st hff, mapMIdx_cons]
  simp only [toOpt_bind, beq_self_eq_true]
  rw [hf st true, ht _ 1 (Nat.le_refl 1)]
  cases elabPower Γ f true with
  | none => rfl
  | some r =>
    simp only [Option.bind_some]
    cases elabFactors Γ tail with
    | none => rfl
    | some rs =>
      simp only [Option.bind_some, toOpt_ok, termCombine]
      cases rs with
      | nil => rfl
      | cons r2 rs => exact toOpt_trace _ _ _ _ _ _

theorem term_goal (Γ : Ctx) (rec : Rec) (f tail : Src) (hok : (Src.prod f tail).ok .term = true)
    (hf : Goal Γ rec .power f) (ht : Goal Γ rec .ptail tail) : Goal Γ rec .term (.prod f tail) := by
  intro st
  simp only [Src.ok, Bool.and_eq_true] at hok
  simp only [Src.print, elabTerm]
  exact termBody_prod Γ rec f tail hok.1 hok.2 hf ht st

theorem frac_goal_prod (Γ : Ctx) (rec : Rec) (f tail : Src) (hok : (Src.prod f tail).ok .frac = true)
    (hf : Goal Γ rec .power f) (ht : Goal Γ rec .ptail tail) : Goal Γ rec .frac (.prod f tail) := by
  intro st
  simp only [Src.ok, Bool.and_eq_true] at hok
  have hfacts := print_facts (.prod f tail) .term (by simp [Src.ok, hok.1, hok.2])
  rw [fractionBody_term Γ rec st _ hfacts.1]
  simp only [Src.print, elabFrac]
  exact termBody_prod Γ rec f tail hok.1 hok.2 hf ht st

theorem frac_goal (Γ : Ctx) (rec : Rec) (n d : Src) (hok : (Src.frac n d).ok .frac = true)
    (hn : Goal Γ rec .term n) (hd : Goal Γ rec .term d) : Goal Γ rec .frac (.frac n d) := by
  intro st
  simp only [Src.ok, Bool.and_eq_true] at hok
  have hnf := print_facts n .term hok.1
  have hdf := print_facts d .term hok.2
  have hfind : find slash (n.print ++ ' ' :: ('/' :: ' ' :: d.print)) = ⟨some 0, n.print.length, 3⟩ :=
    find_sep _ n.print ' ' _ 0 3 (hnf.1.sep slash (Or.inr rfl) _) hnf.1.bal.2 (by decide)
      (by simp [slash, firstMatch, Matcher.run, List.isPrefixOf])
  have hsplit : splitL slash st (n.print ++ ' ' :: ('/' :: ' ' :: d.print)) = [⟨st, n.print⟩, ⟨st + (n.print.length + 3), d.print⟩] := by
    rw [splitL]
    simp only [hfind, Nat.succ_ne_zero, dite_false, List.take_left', List.cons.injEq, true_and]
    have hdrop : List.drop (n.print.length + 3) (n.print ++ ' ' :: ('/' :: ' ' :: d.print)) = d.print := by
      rw [show n.print ++ ' ' :: ('/' :: ' ' :: d.print) = (n.print ++ [' ', '/', ' ']) ++ d.print by simp]
      exact List.drop_left' (by simp)
    rw [hdrop, splitL_none _ _ d.print (find_none _ d.print (hdf.1.sep slash (Or.inr rfl) []))]
  unfold fractionBody
  simp only [Src.print, Sub.split, List.cons_append, List.nil_append, hsplit, toOpt_bind]
  rw [hn st, hd _]
  simp only [elabFrac]
  cases elabTerm Γ n with
  | none => rfl
  | some num =>
    simp only [Option.bind_some]
    cases elabTerm Γ d with
    | none => rfl
    | some den =>
      simp only [Option.bind_some]
      exact toOpt_scalar_tail _ _ _ .div num den

theorem ptail_goal (Γ : Ctx) (rec : Rec) (f tail : Src) (hok : (Src.pcons f tail).ok .ptail = true)
    (hf : Goal Γ rec .power f) (ht : Goal Γ rec .ptail tail) : Goal Γ rec .ptail (.pcons f tail) := by
  intro s0 k hk
  have hk0 : (k == 0) = false := by cases k with | zero => omega | succ k => rfl
  simp only [tailPieces, mapMIdx_cons, toOpt_bind, hk0]
  rw [hf _ false, ht _ (k + 1) (by omega)]
  simp only [elabFactors, toOpt_ok]

theorem map_stripSubs_eq {a b : Option (List (Bool × Sub × Res))} (h : a.map stripSubs = b.map stripSubs) :
    (a = none ∧ b = none) ∨ ∃ x y, a = some x ∧ b = some y ∧ stripSubs x = stripSubs y := by
  cases a <;> cases b <;> simp at h
  · exact Or.inl ⟨rfl, rfl⟩
  · exact Or.inr ⟨_, _, rfl, rfl, h⟩

theorem ttail_goal (Γ : Ctx) (rec : Rec) (minus : Bool) (t tail : Src)
    (ht : Goal Γ rec .frac t) (htl : Goal Γ rec .ttail tail) : Goal Γ rec .ttail (.tcons minus t tail) := by
  intro s0 k
  simp only [ttailPieces, mapMIdx_cons, toOpt_bind]
  rw [ht _]
  simp only [elabTail]
  cases elabFrac Γ t with
  | none => rfl
  | some r =>
    simp only [Option.bind_some, toOpt_ok]
    rcases map_stripSubs_eq (htl (s0 + 3 + t.print.length) (k + 1)) with ⟨h1, h2⟩ | ⟨x, y, h1, h2, h3⟩
    · rw [h1, h2]; rfl
    · rw [h1, h2]
      simp only [Option.bind_some, Option.map_some, stripSubs, List.map_cons, Option.some.injEq, List.cons.injEq, Prod.mk.injEq, and_true]
      refine ⟨?_, h3⟩
      cases minus <;> rfl

theorem stripMinus_neg (st : Nat) (c : Char) (cs : List Char) :
    stripMinus ⟨st, '-' :: c :: cs⟩ = some ⟨st + 1, c :: cs⟩ := by
  have : (⟨st, '-' :: c :: cs⟩ : Sub).trimStart = ⟨st, '-' :: c :: cs⟩ := trimStart_of_head st '-' _ (by decide)
  simp [stripMinus, this, Sub.startsWith, Sub.dropN, Sub.len, List.isPrefixOf]

theorem stripMinus_pos (st : Nat) (c : Char) (cs : List Char) (hc : startOK c = true) :
    stripMinus ⟨st, c :: cs⟩ = none := by
  have : (⟨st, c :: cs⟩ : Sub).trimStart = ⟨st, c :: cs⟩ := trimStart_of_head st c _ (startOK_not_space c hc)
  simp only [startOK, Bool.not_eq_true', Bool.or_eq_false_iff] at hc
  have h2 : ('-' == c) = false := by rw [Bool.beq_comm]; exact hc.1.1.1.2
  simp [stripMinus, this, Sub.startsWith, List.isPrefixOf, h2]

theorem expr_goal (Γ : Ctx) (rec : Rec) (neg : Bool) (first tail : Src) (hok : (Src.sum neg first tail).ok .expr = true)
    (hf : Goal Γ rec .frac first) (ht : Goal Γ rec .ttail tail) : Goal Γ rec .expr (.sum neg first tail) := by
  intro st
  simp only [Src.ok, Bool.and_eq_true] at hok
  have hff := print_facts first .frac hok.1
  obtain ⟨c, cs, hpf, hc⟩ := hff.2.head
  have key : ∀ st', toOpt ((mapMIdx (fun _ (p : Option Nat × Sub) => (fractionBody Γ rec p.2).bind fun r => .ok (p.1 == some 1, p.2, r))
        (isplitL plusMinus (some (if neg then 1 else 0)) st' (first.print ++ tail.print)) 0).bind
          (exprCombine ⟨st, (Src.sum neg first tail).print⟩)) = elabExpr Γ (.sum neg first tail) := by
    intro st'
    rw [isplit_pm tail hok.2 first.print st' _ hff.1, mapMIdx_cons]
    simp only [toOpt_bind]
    rw [hf _]
    simp only [elabExpr]
    cases elabFrac Γ first with
    | none => rfl
    | some r =>
      simp only [Option.bind_some, toOpt_ok]
      have hng : (some (if neg then 1 else 0) == some 1) = neg := by cases neg <;> rfl
      rcases map_stripSubs_eq (ht (st' + first.print.length) 1) with ⟨h1, h2⟩ | ⟨x, y, h1, h2, h3⟩
      · rw [h1, h2]; rfl
      · rw [h1, h2]
        simp only [Option.bind_some, hng]
        have hemp : x.isEmpty = y.isEmpty := by
          cases x <;> cases y <;> simp [stripSubs] at h3 ⊢
        show toOpt (if !neg && x.isEmpty then .ok r else
            (alignGo _ r.shape r.indices x 2 [neg] [r.ops] r.summed).bind fun a => .ok ⟨.add a.1 a.2.1, r.shape, r.indices, a.2.2⟩) = _
        rw [hemp]
        split
        · rfl
        · simp only [toOpt_bind]
          rw [toOpt_alignGo _ noSub _ _ x y _ _ _ _ h3]
          cases toOpt (alignGo noSub r.shape r.indices y 2 [neg] [r.ops] r.summed) <;> rfl
  unfold exprBody
  cases neg with
  | false =>
    have hs : stripMinus ⟨st, (Src.sum false first tail).print⟩ = none := by
      simp only [Src.print, Bool.false_eq_true, if_false, List.nil_append, hpf, List.cons_append]
      exact stripMinus_pos st c _ hc
    simp only [hs, Option.isSome_none, Option.getD_none, Bool.false_eq_true, if_false, Sub.isplit]
    have := key st
    simp only [Bool.false_eq_true, if_false] at this
    simpa [Src.print] using this
  | true =>
    have hs : stripMinus ⟨st, (Src.sum true first tail).print⟩ = some ⟨st + 1, first.print ++ tail.print⟩ := by
      simp only [Src.print, if_true, hpf, List.cons_append, List.nil_append]
      exact stripMinus_neg st c _
    simp only [hs, Option.isSome_some, Option.getD_some, if_true, Sub.isplit]
    have := key (st + 1)
    simp only [if_true] at this
    exact this

theorem toOpt_bind_ok {α β : Type} (x : P α) (g : α → β) : toOpt (x.bind fun r => .ok (g r)) = (toOpt x).map g := by
  cases x <;> rfl

theorem item_goal_paren (Γ : Ctx) (base : Rec) (e : Src) (he : e.ok .expr = true) (n : Nat) (hn : e.print.length + 2 < n)
    (ih : ∀ m, e.print.length < m → Goal Γ (parseExprB Γ base m) .expr e) (st : Nat) (a : Bool) :
    toOpt (itemBody Γ (parseExprB Γ base n) ⟨st, '(' :: (e.print ++ [')'])⟩ a) = elabPower Γ (.paren e) a := by
  have hb : Bal e.print := print_facts e .expr he
  match n, hn with
  | m + 1, hn =>
    rw [itemBody_paren Γ _ st e.print a hb, toOpt_bind_ok]
    show Option.map _ (toOpt (exprBody Γ (parseExprB Γ base m) ⟨st + 1, e.print⟩)) = _
    rw [ih m (by omega) (st + 1)]
    simp only [elabPower]

theorem item_goal_jump (Γ : Ctx) (base : Rec) (e : Src) (he : e.ok .expr = true) (n : Nat) (hn : e.print.length + 2 < n)
    (ih : ∀ m, e.print.length < m → Goal Γ (parseExprB Γ base m) .expr e) (st : Nat) (a : Bool) :
    toOpt (itemBody Γ (parseExprB Γ base n) ⟨st, '[' :: (e.print ++ [']'])⟩ a) = elabPower Γ (.jump e) a := by
  have hb : Bal e.print := print_facts e .expr he
  match n, hn with
  | m + 1, hn =>
    rw [itemBody_jump Γ _ st e.print a hb, toOpt_bind_ok]
    show Option.map _ (toOpt (exprBody Γ (parseExprB Γ base m) ⟨st + 1, e.print⟩)) = _
    rw [ih m (by omega) (st + 1)]
    simp only [elabPower]

theorem item_goal_mean (Γ : Ctx) (base : Rec) (e : Src) (he : e.ok .expr = true) (n : Nat) (hn : e.print.length + 2 < n)
    (ih : ∀ m, e.print.length < m → Goal Γ (parseExprB Γ base m) .expr e) (st : Nat) (a : Bool) :
    toOpt (itemBody Γ (parseExprB Γ base n) ⟨st, '{' :: (e.print ++ ['}'])⟩ a) = elabPower Γ (.mean e) a := by
  have hb : Bal e.print := print_facts e .expr he
  match n, hn with
  | m + 1, hn =>
    rw [itemBody_mean Γ _ st e.print a hb, toOpt_bind_ok]
    show Option.map _ (toOpt (exprBody Γ (parseExprB Γ base m) ⟨st + 1, e.print⟩)) = _
    rw [ih m (by omega) (st + 1)]
    simp only [elabPower]

theorem item_goal_call (Γ : Ctx) (base : Rec) (name idx : List Char) (arg : Src) (hn : nameOK name = true) (hi : idx.all idxChar = true)
    (he : arg.ok .expr = true) (n : Nat) (hlen : (name ++ (if idx.isEmpty then [] else '_' :: idx)).length + (arg.print.length + 2) < n)
    (ih : ∀ m, arg.print.length < m → Goal Γ (parseExprB Γ base m) .expr arg) (st : Nat) (a : Bool) :
    toOpt (itemBody Γ (parseExprB Γ base n) ⟨st, (name ++ (if idx.isEmpty then [] else '_' :: idx)) ++ ('(' :: arg.print ++ [')'])⟩ a) =
      elabPower Γ (.call name idx arg) a := by
  have hb : Bal arg.print := print_facts arg .expr he
  match n, hlen with
  | m + 1, hlen =>
    rw [itemBody_call Γ _ st name idx arg.print a hn hi hb]
    have : toOpt (parseExprB Γ base (m + 1) ⟨st + ((name ++ (if idx.isEmpty then [] else '_' :: idx)).length + 1), arg.print⟩) = elabExpr Γ arg :=
      ih m (by omega) _
    rw [this]
    rfl

theorem parse_print_goal (Γ : Ctx) (base : Rec) (t : Src) : ∀ k, t.ok k = true → ∀ n, t.print.length < n →
    Goal Γ (parseExprB Γ base n) k t := by
  induction t with
  | num ds =>
    intro k h n _; cases k <;> simp only [Src.ok, Bool.false_eq_true] at h
    · intro st a; exact itemBody_num Γ _ st ds a (digitsOK_iff ds h).1 (digitsOK_iff ds h).2
    · intro st a
      show toOpt (powerBody Γ _ ⟨st, ds.map digitChar⟩ a) = _
      rw [powerBody_item Γ _ st _ a (digits_item ds (digitsOK_iff ds h).1 (digitsOK_iff ds h).2)]
      exact itemBody_num Γ _ st ds a (digitsOK_iff ds h).1 (digitsOK_iff ds h).2
  | dec ip fp ex =>
    intro k h n _; cases k <;> simp only [Src.ok, Bool.false_eq_true] at h
    · intro st a; exact itemBody_dec Γ _ st ip fp ex a h
    · intro st a
      show toOpt (powerBody Γ _ ⟨st, decText ip fp ex⟩ a) = _
      rw [powerBody_item Γ _ st _ a (dec_item ip fp ex h)]
      exact itemBody_dec Γ _ st ip fp ex a h
  | var name idx =>
    intro k h n _; cases k <;> simp only [Src.ok, Bool.false_eq_true, Bool.and_eq_true] at h
    · intro st a; exact itemBody_var Γ _ st name idx a h.1 h.2
    · intro st a
      show toOpt (powerBody Γ _ ⟨st, name ++ (if idx.isEmpty then [] else '_' :: idx)⟩ a) = _
      rw [powerBody_item Γ _ st _ a (var_item name idx h.1 h.2)]
      exact itemBody_var Γ _ st name idx a h.1 h.2
  | paren e ih =>
    intro k h n hn; cases k <;> simp only [Src.ok, Bool.false_eq_true] at h
    all_goals simp only [Src.print, List.length_cons, List.length_append, List.length_nil] at hn
    · intro st a; exact item_goal_paren Γ base e h n (by omega) (fun m hm => ih .expr h m hm) st a
    · intro st a
      show toOpt (powerBody Γ _ ⟨st, '(' :: (e.print ++ [')'])⟩ a) = _
      rw [powerBody_item Γ _ st _ a (by simpa using item_facts_bracket '(' ')' e.print (by decide) (by decide) (print_facts e .expr h))]
      exact item_goal_paren Γ base e h n (by omega) (fun m hm => ih .expr h m hm) st a
  | jump e ih =>
    intro k h n hn; cases k <;> simp only [Src.ok, Bool.false_eq_true] at h
    all_goals simp only [Src.print, List.length_cons, List.length_append, List.length_nil] at hn
    · intro st a; exact item_goal_jump Γ base e h n (by omega) (fun m hm => ih .expr h m hm) st a
    · intro st a
      show toOpt (powerBody Γ _ ⟨st, '[' :: (e.print ++ [']'])⟩ a) = _
      rw [powerBody_item Γ _ st _ a (by simpa using item_facts_bracket '[' ']' e.print (by decide) (by decide) (print_facts e .expr h))]
      exact item_goal_jump Γ base e h n (by omega) (fun m hm => ih .expr h m hm) st a
  | mean e ih =>
    intro k h n hn; cases k <;> simp only [Src.ok, Bool.false_eq_true] at h
    all_goals simp only [Src.print, List.length_cons, List.length_append, List.length_nil] at hn
    · intro st a; exact item_goal_mean Γ base e h n (by omega) (fun m hm => ih .expr h m hm) st a
    · intro st a
      show toOpt (powerBody Γ _ ⟨st, '{' :: (e.print ++ ['}'])⟩ a) = _
      rw [powerBody_item Γ _ st _ a (by simpa using item_facts_bracket '{' '}' e.print (by decide) (by decide) (print_facts e .expr h))]
      exact item_goal_mean Γ base e h n (by omega) (fun m hm => ih .expr h m hm) st a
  | call name idx arg ih =>
    intro k h n hn; cases k <;> simp only [Src.ok, Bool.false_eq_true, Bool.and_eq_true] at h
    all_goals simp only [Src.print, List.length_cons, List.length_append, List.length_nil] at hn
    · intro st a; exact item_goal_call Γ base name idx arg h.1.1 h.1.2 h.2 n (by simp only [List.length_append]; omega) (fun m hm => ih .expr h.2 m hm) st a
    · intro st a
      show toOpt (powerBody Γ _ ⟨st, (name ++ (if idx.isEmpty then [] else '_' :: idx)) ++ ('(' :: arg.print ++ [')'])⟩ a) = _
      rw [powerBody_item Γ _ st _ a (call_item name idx _ h.1.1 h.1.2 (print_facts arg .expr h.2))]
      exact item_goal_call Γ base name idx arg h.1.1 h.1.2 h.2 n (by simp only [List.length_append]; omega) (fun m hm => ih .expr h.2 m hm) st a
  | powInt b neg ds ih =>
    intro k h n hn; cases k <;> simp only [Src.ok, Bool.false_eq_true, Bool.and_eq_true] at h
    simp only [Src.print, List.length_cons, List.length_append] at hn
    intro st a
    show toOpt (powerBody Γ _ ⟨st, b.print ++ '^' :: expoText neg ds⟩ a) = _
    rw [powerBody_powInt Γ _ st b.print neg ds a (print_facts b .item h.1) h.2, ih .item h.1 n (by omega) st a]
    simp only [elabPower]
  | powExpr b e ihb ihe =>
    intro k h n hn; cases k <;> simp only [Src.ok, Bool.false_eq_true, Bool.and_eq_true] at h
    simp only [Src.print, List.length_cons, List.length_append, List.length_nil] at hn
    intro st a
    match n, hn with
    | m + 1, hn =>
      show toOpt (powerBody Γ _ ⟨st, b.print ++ '^' :: ('(' :: (e.print ++ [')']))⟩ a) = _
      rw [powerBody_powExpr Γ _ st b.print e.print a (print_facts b .item h.1) (print_facts e .expr h.2),
        ihb .item h.1 (m + 1) (by omega) st a]
      have : toOpt (parseExprB Γ base (m + 1) ⟨st + (b.print.length + 1) + 1, e.print⟩) = elabExpr Γ e :=
        ihe .expr h.2 m (by omega) _
      rw [this]
      simp only [elabPower]
  | prod f tail ihf iht =>
    intro k h n hn; cases k <;> simp only [Src.ok, Bool.false_eq_true, Bool.and_eq_true] at h
    all_goals simp only [Src.print, List.length_append] at hn
    · exact term_goal Γ _ f tail (by simp [Src.ok, h.1, h.2]) (ihf .power h.1 n (by omega)) (iht .ptail h.2 n (by omega))
    · exact frac_goal_prod Γ _ f tail (by simp [Src.ok, h.1, h.2]) (ihf .power h.1 n (by omega)) (iht .ptail h.2 n (by omega))
  | pnil =>
    intro k h n _; cases k <;> simp only [Src.ok, Bool.false_eq_true] at h
    intro s0 k _; rfl
  | pcons f tail ihf iht =>
    intro k h n hn; cases k <;> simp only [Src.ok, Bool.false_eq_true, Bool.and_eq_true] at h
    simp only [Src.print, List.length_cons, List.length_append] at hn
    exact ptail_goal Γ _ f tail (by simp [Src.ok, h.1, h.2]) (ihf .power h.1 n (by omega)) (iht .ptail h.2 n (by omega))
  | frac nn d ihn ihd =>
    intro k h n hn; cases k <;> simp only [Src.ok, Bool.false_eq_true, Bool.and_eq_true] at h
    simp only [Src.print, List.length_cons, List.length_append] at hn
    exact frac_goal Γ _ nn d (by simp [Src.ok, h.1, h.2]) (ihn .term h.1 n (by omega)) (ihd .term h.2 n (by omega))
  | sum neg first tail ihf iht =>
    intro k h n hn; cases k <;> simp only [Src.ok, Bool.false_eq_true, Bool.and_eq_true] at h
    simp only [Src.print, List.length_append] at hn
    exact expr_goal Γ _ neg first tail (by simp [Src.ok, h.1, h.2]) (ihf .frac h.1 n (by omega)) (iht .ttail h.2 n (by omega))
  | tnil =>
    intro k h n _; cases k <;> simp only [Src.ok, Bool.false_eq_true] at h
    intro s0 k; rfl
  | tcons minus t tail iht ihtl =>
    intro k h n hn; cases k <;> simp only [Src.ok, Bool.false_eq_true, Bool.and_eq_true] at h
    simp only [Src.print, List.length_cons, List.length_append] at hn
    exact ttail_goal Γ _ minus t tail (iht .frac h.1 n (by omega)) (ihtl .ttail h.2 n (by omega))

theorem parse_eq_parseExprB (Γ : Ctx) (l : List Char) :
    parse Γ l = parseExprB Γ (fun s => .error ⟨.outOfFuel, some s.span, none⟩) (l.length + 1) ⟨0, l⟩ := rfl

/-- **parse ∘ print = elab**: for every well-formed source AST, the real parser's string scanning recovers exactly
the grammatical structure (success, operation tree, shape, index order, summed set) -/
theorem parse_print_core (Γ : Ctx) (t : Src) (h : t.ok .expr = true) : toOpt (parse Γ t.print) = elabExpr Γ t := by
  rw [parse_eq_parseExprB, parseExprB_total Γ _ (fun s => .error ⟨.outOfFuel, some s.span, none⟩) (t.print.length + 1) (t.print.length + 2) ⟨0, t.print⟩
    (by simp [Sub.len]) (by simp [Sub.len])]
  exact parse_print_goal Γ _ t .expr h (t.print.length + 1) (by omega) 0

end NutilsVerif.C19
