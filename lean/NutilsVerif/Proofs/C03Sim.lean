import NutilsVerif.Proofs.C03Eff
/-! C03 — the three-way simulation: rerun from the cached state (A) vs. first run from the initial state (B),
mediated by the constant part alone (K, mode `cache`) -/
namespace NutilsVerif.C03
variable {D : Type}

def Ctx.nloc (c : Ctx) (l : Loc) : Bool := !c.cloc l && !c.shloc l

/-- A-vs-B similarity of a binding: same buffer and path; flags agree on buffers that are neither cached nor shared -/
def refSimAB (c : Ctx) (ra rb : Option Ref) : Prop :=
  match ra, rb with
  | none, none => True
  | some a, some b => a.loc = b.loc ∧ a.path = b.path ∧ (c.nloc a.loc = true → a.w = b.w)
  | _, _ => False

/-- same buffer and path (flags may differ: a later `setflags`) -/
def refSimF (ra rb : Option Ref) : Prop :=
  match ra, rb with
  | none, none => True
  | some a, some b => a.loc = b.loc ∧ a.path = b.path
  | _, _ => False

structure Live (c : Ctx) (sA sB sK : St D) : Prop where
  hAB : ∀ l, c.cloc l = false → sA.heap l = sB.heap l
  eAB : ∀ v, v ∈ c.ns ∨ v ∈ c.sh → refSimAB c (sA.env v) (sB.env v)
  eBK : ∀ v, v ∈ c.sk ∨ v ∈ c.sh ∨ v ∈ c.consts → sB.env v = sK.env v
  hBK : ∀ l, c.cloc l = true ∨ c.shloc l = true → sB.heap l = sK.heap l
  oA : OriginInv c.O sA
  oB : OriginInv c.O sB
  oK : OriginInv c.O sK

/-- the rerun sees the canonical cached state -/
structure Pers (c : Ctx) (Kfin sA : St D) : Prop where
  env : ∀ v, c.persists v = true → sA.env v = Kfin.env v
  /-- every cached buffer the rerun can reach holds the canonical content -/
  heap : ∀ v r, sA.env v = some r → c.cloc r.loc = true → sA.heap r.loc = Kfin.heap r.loc

def R (c : Ctx) (Kfin sA sB sK : St D) : Prop :=
  sA.err = sB.err ∧ Pers c Kfin sA ∧ (sA.err = none → Live c sA sB sK)

/-- the constant part has reached its final value outside what later `skip` statements still write / rebind -/
structure Fut (c : Ctx) (Kfin : St D) (Wl : List Loc) (Wv : List Var) (sK : St D) : Prop where
  err : sK.err = none
  heap : ∀ l, c.cloc l = true → l ∉ Wl → sK.heap l = Kfin.heap l
  env : ∀ v, v ∈ c.sk ∨ v ∈ c.consts → v ∉ Wv → refSimF (sK.env v) (Kfin.env v)

/-! ## consequences of `classesOK` -/

theorem disjoint_spec {a b : List Var} (h : disjoint a b = true) {x : Var} (ha : x ∈ a) (hb : x ∈ b) : False := by
  simp only [disjoint, List.all_eq_true, Bool.not_eq_true', List.contains_eq_mem, decide_eq_false_iff_not] at h
  exact h x ha hb

structure Classes (c : Ctx) : Prop where
  c_sk : ∀ x, x ∈ c.consts → x ∈ c.sk → False
  c_sh : ∀ x, x ∈ c.consts → x ∈ c.sh → False
  c_ns : ∀ x, x ∈ c.consts → x ∈ c.ns → False
  sk_sh : ∀ x, x ∈ c.sk → x ∈ c.sh → False
  sk_ns : ∀ x, x ∈ c.sk → x ∈ c.ns → False
  sh_ns : ∀ x, x ∈ c.sh → x ∈ c.ns → False
  glob : ∀ g, g ∈ c.globals → g ∈ c.sk
  constO : ∀ x, x ∈ c.consts → ∀ l ∈ c.O x, l = .var x
  skO : ∀ x, x ∈ c.sk → ∀ l ∈ c.O x, c.cloc l = true ∨ c.shloc l = true
  globO : ∀ x, x ∈ c.globals → ∀ l ∈ c.O x, c.cloc l = true
  constI : ∀ x, x ∈ c.consts → Loc.var x ∈ c.O x

theorem classes_of (c : Ctx) (h : classesOK c = true) : Classes c := by
  simp only [classesOK, Bool.and_eq_true] at h
  obtain ⟨⟨⟨⟨⟨⟨⟨⟨⟨⟨h1, h2⟩, h3⟩, h4⟩, h5⟩, h6⟩, h7⟩, h8⟩, h9⟩, h10⟩, h11⟩ := h
  exact ⟨fun _ => disjoint_spec h1, fun _ => disjoint_spec h2, fun _ => disjoint_spec h3, fun _ => disjoint_spec h4,
    fun _ => disjoint_spec h5, fun _ => disjoint_spec h6, by simpa using h7, by simpa using h8, by simpa using h9, by simpa using h10, by simpa using h11⟩

theorem Classes.nloc_of_ns {c : Ctx} (k : Classes c) {x : Var} (h : x ∈ c.ns) : c.nloc (.var x) = true := by
  simp only [Ctx.nloc, Ctx.cloc, Ctx.shloc, Bool.and_eq_true, Bool.not_eq_true', Bool.or_eq_false_iff, List.contains_eq_mem,
    decide_eq_false_iff_not]
  exact ⟨⟨fun hs => k.sk_ns x hs h, fun hs => k.c_ns x hs h⟩, fun hs => k.sh_ns x hs h⟩

theorem Classes.ncloc_of_sh {c : Ctx} (k : Classes c) {x : Var} (h : x ∈ c.sh) : c.cloc (.var x) = false := by
  simp only [Ctx.cloc, Bool.or_eq_false_iff, List.contains_eq_mem, decide_eq_false_iff_not]
  exact ⟨fun hs => k.sk_sh x hs h, fun hs => k.c_sh x hs h⟩

theorem Classes.pers {c : Ctx} (k : Classes c) {v : Var} (h : c.persists v = true) : v ∈ c.sk ∨ v ∈ c.consts := by
  simp only [Ctx.persists, Bool.or_eq_true, List.contains_eq_mem, decide_eq_true_eq] at h
  exact h.elim (fun g => Or.inl (k.glob v g)) Or.inr

theorem Classes.not_pers {c : Ctx} (k : Classes c) {v : Var} (h : v ∈ c.ns ∨ v ∈ c.sh) : c.persists v = false := by
  cases hp : c.persists v
  · rfl
  · exfalso
    rcases k.pers hp with hs | hs <;> rcases h with h | h
    · exact k.sk_ns v hs h
    · exact k.sk_sh v hs h
    · exact k.c_ns v hs h
    · exact k.c_sh v hs h

theorem nloc_ncloc {c : Ctx} {l : Loc} (h : c.nloc l = true) : c.cloc l = false ∧ c.shloc l = false := by
  simpa [Ctx.nloc] using h

theorem readAB (c : Ctx) (hc : classesOK c = true) {Kfin sA sB sK : St D} {Wl : List Loc} {Wv : List Var}
    (hP : Pers c Kfin sA) (hL : Live c sA sB sK) (hF : Fut c Kfin Wl Wv sK) {Dv : List Var} {u : Var}
    (hu : readRerun c Dv Wl Wv u = true) :
    SeeSame sA sB u ∧ refSimAB c (sA.env u) (sB.env u) := by
  unfold readRerun at hu
  simp only [Bool.and_eq_true, Bool.or_eq_true, List.all_eq_true, Bool.not_eq_true', List.contains_eq_mem,
    decide_eq_true_eq, decide_eq_false_iff_not] at hu
  obtain ⟨hcls, hfin⟩ := hu
  -- similarity of the bindings
  have hsim : refSimAB c (sA.env u) (sB.env u) := by
    rcases hcls with (hns | hsh) | ⟨⟨hsc', hp⟩, hw⟩
    · exact hL.eAB u (Or.inl hns)
    · exact hL.eAB u (Or.inr hsh)
    · have hsc : u ∈ c.sk ∨ u ∈ c.consts := hsc'.elim (fun h => Or.inl h.1) Or.inr
      have h1 := hP.env u (by simpa [Ctx.persists] using hp)
      have h2 := hL.eBK u (hsc.elim Or.inl (fun h => Or.inr (Or.inr h)))
      have h3 := hF.env u hsc hw
      rw [h1, h2]
      unfold refSimF at h3; unfold refSimAB
      cases hk : sK.env u <;> cases hf : Kfin.env u <;> simp_all
      -- flags: a cached variable never lives in a pure rerun buffer
      rename_i rk rf
      intro hn
      have hloc : rk.loc ∈ c.O u := hL.oK u rk hk
      exfalso
      have k := classes_of c hc
      rcases hsc with hsk | hco
      · have := k.skO u hsk rk.loc hloc
        rw [h3.1] at this
        simp only [Ctx.nloc, Bool.and_eq_true, Bool.not_eq_true'] at hn
        rcases this with h | h
        · rw [hn.1] at h; cases h
        · rw [hn.2] at h; cases h
      · have hl : rk.loc = .var u := k.constO u hco rk.loc hloc
        rw [← h3.1, hl] at hn
        simp [Ctx.nloc, Ctx.cloc, hco] at hn
  refine ⟨?_, hsim⟩
  unfold SeeSame
  unfold refSimAB at hsim
  cases ha : sA.env u <;> cases hb : sB.env u <;> simp_all
  rename_i ra rb
  obtain ⟨hl, hp, _⟩ := hsim
  rw [← hl]
  cases hcl : c.cloc ra.loc
  · exact hL.hAB _ hcl
  · -- a cached buffer: final in K, hence equal to what the rerun sees
    have hmem : ra.loc ∈ c.O u := hL.oA u ra ha
    have hnw : ra.loc ∉ Wl := by
      have := hfin ra.loc hmem
      rcases this with h | h
      · rw [hcl] at h; cases h
      · exact h
    rw [hP.heap u ra ha hcl, ← hF.heap _ hcl hnw, ← hL.hBK _ (Or.inl hcl)]

theorem readBK (c : Ctx) {sA sB sK : St D} (hL : Live c sA sB sK) {Dv : List Var} {u : Var}
    (hu : readCache c Dv u = true) : SeeSame sB sK u ∧ sB.env u = sK.env u := by
  unfold readCache at hu
  simp only [Bool.and_eq_true, Bool.or_eq_true, List.all_eq_true, List.contains_eq_mem, decide_eq_true_eq] at hu
  obtain ⟨hcls, hO⟩ := hu
  have he : sB.env u = sK.env u := by
    rcases hcls with hco | ⟨hs, _⟩
    · exact hL.eBK u (Or.inr (Or.inr hco))
    · exact hL.eBK u (hs.elim Or.inl (fun h => Or.inr (Or.inl h)))
  refine ⟨?_, he⟩
  unfold SeeSame
  rw [← he]
  cases hb : sB.env u with
  | none => trivial
  | some rb =>
    refine ⟨rfl, rfl, ?_⟩
    exact hL.hBK _ (hO _ (hL.oB u rb hb))

end NutilsVerif.C03

namespace NutilsVerif.C03
variable {D : Type}

/-! ## one step executed by the rerun (A) and the first run (B), as effects -/

def UpdAB (c : Ctx) (u1 u2 : Option (Var × Ref)) : Prop :=
  match u1, u2 with
  | none, none => True
  | some (x, r1), some (y, r2) => x = y ∧ (x ∈ c.ns ∨ x ∈ c.sh) ∧ refSimAB c (some r1) (some r2)
  | _, _ => False

theorem AB_eff (c : Ctx) (k : Classes c) {Kfin sA sB : St D} (eA eB : Eff D)
    (hP : Pers c Kfin sA)
    (hAB : ∀ l, c.cloc l = false → sA.heap l = sB.heap l)
    (eAB : ∀ v, v ∈ c.ns ∨ v ∈ c.sh → refSimAB c (sA.env v) (sB.env v))
    (herr : eA.err = eB.err) (hheap : eA.heapUpd = eB.heapUpd) (henv : UpdAB c eA.envUpd eB.envUpd)
    (hloc : ∀ l d, eA.heapUpd = some (l, d) → c.cloc l = false)
    (hnew : ∀ x r, eA.envUpd = some (x, r) → c.cloc r.loc = true → sA.heap r.loc = Kfin.heap r.loc)
    (herrA : sA.err = none) (herrB : sB.err = none) :
    (applyEff sA eA).err = (applyEff sB eB).err ∧ Pers c Kfin (applyEff sA eA) ∧
    ((applyEff sA eA).err = none →
      (∀ l, c.cloc l = false → (applyEff sA eA).heap l = (applyEff sB eB).heap l) ∧
      (∀ v, v ∈ c.ns ∨ v ∈ c.sh → refSimAB c ((applyEff sA eA).env v) ((applyEff sB eB).env v))) := by
  have hvar : ∀ x r, eA.envUpd = some (x, r) → x ∈ c.ns ∨ x ∈ c.sh := by
    intro x r h
    unfold UpdAB at henv
    rw [h] at henv
    cases hb : eB.envUpd with
    | none => simp [hb] at henv
    | some q => obtain ⟨y, r2⟩ := q; simp only [hb] at henv; exact henv.2.1
  refine ⟨by rw [applyEff_err, applyEff_err, herr, herrA, herrB], ?_, ?_⟩
  · constructor
    · intro v hv
      rw [applyEff_env]
      cases he : eA.err <;> cases hu : eA.envUpd <;> simp only
      · exact hP.env v hv
      · rename_i p; obtain ⟨x, r⟩ := p
        have := k.not_pers (hvar x r hu)
        split
        · next e => subst e; rw [hv] at this; cases this
        · exact hP.env v hv
      · exact hP.env v hv
      · exact hP.env v hv
    · intro v r hv hcl
      have hh : (applyEff sA eA).heap r.loc = sA.heap r.loc := by
        apply applyEff_heap_frame
        intro l' d hu e
        have := hloc l' d hu
        rw [← e, hcl] at this
        cases this
      rw [hh]
      rw [applyEff_env] at hv
      cases he : eA.err <;> cases hu : eA.envUpd <;> simp only [he, hu] at hv
      · exact hP.heap v r hv hcl
      · rename_i p; obtain ⟨x, r1⟩ := p
        simp only at hv
        split at hv
        · cases hv; exact hnew x r hu hcl
        · exact hP.heap v r hv hcl
      · exact hP.heap v r hv hcl
      · exact hP.heap v r hv hcl
  · intro hok
    rw [applyEff_err] at hok
    have heA : eA.err = none := by
      cases h : eA.err with
      | none => rfl
      | some er => rw [h] at hok; cases hok
    have heB : eB.err = none := herr ▸ heA
    refine ⟨?_, ?_⟩
    · intro l hl
      rw [applyEff_heap, applyEff_heap, heA, heB, ← hheap]
      cases hu : eA.heapUpd with
      | none => exact hAB l hl
      | some p =>
        obtain ⟨l', d⟩ := p
        simp only
        split
        · rfl
        · exact hAB l hl
    · intro v hv
      rw [applyEff_env, applyEff_env, heA, heB]
      unfold UpdAB at henv
      cases hua : eA.envUpd with
      | none =>
        cases hub : eB.envUpd with
        | none => exact eAB v hv
        | some q => simp [hua, hub] at henv
      | some p =>
        cases hub : eB.envUpd with
        | none => simp [hua, hub] at henv
        | some q =>
          obtain ⟨x, r1⟩ := p; obtain ⟨y, r2⟩ := q
          simp only [hua, hub] at henv
          obtain ⟨hxy, _, hr⟩ := henv
          subst hxy
          simp only
          split
          · exact hr
          · exact eAB v hv

/-- the effects of a basic statement in A and B are `UpdAB`-similar and touch no cached buffer -/
theorem effB_AB (I : Interp D) (args : Args D) (c : Ctx) (k : Classes c) {sA sB : St D} (b : Basic)
    (oA : OriginInv c.O sA)
    (hsim : EffSim b sA sB (effB I args b sA) (effB I args b sB))
    (hflag : ∀ u ∈ b.reads, refSimAB c (sA.env u) (sB.env u))
    (hdefs : ∀ x ∈ b.defs, x ∈ c.ns ∨ x ∈ c.sh)
    (hnoset : ∀ v, b ≠ .setro v)
    (hwr : ∀ dst op srcs, b = .write dst op srcs → ∀ l ∈ c.O dst, c.nloc l = true) :
    UpdAB c (effB I args b sA).envUpd (effB I args b sB).envUpd ∧
    (∀ l d, (effB I args b sA).heapUpd = some (l, d) → c.cloc l = false) := by
  constructor
  · have henv := hsim.env
    unfold UpdSim at henv; unfold UpdAB
    cases hua : (effB I args b sA).envUpd with
    | none =>
      cases hub : (effB I args b sB).envUpd with
      | none => trivial
      | some q => simp [hua, hub] at henv
    | some p =>
      cases hub : (effB I args b sB).envUpd with
      | none => simp [hua, hub] at henv
      | some q =>
        obtain ⟨x, r1⟩ := p; obtain ⟨y, r2⟩ := q
        simp only [hua, hub] at henv
        obtain ⟨hxy, _, hl, hp, hw⟩ := henv
        simp only
        refine ⟨hxy, ?_, ?_⟩
        · rcases effB_envUpd I args b sA x r1 hua with h | h
          · exact hdefs x h
          · exact absurd h (hnoset x)
        · unfold refSimAB
          refine ⟨hl, hp, ?_⟩
          intro hn
          rcases hw with hw | ⟨u, hu, a, c', ha, hc', hal, hwa, hwc⟩
          · exact hw
          · have := hflag u hu
            unfold refSimAB at this
            rw [ha, hc'] at this
            rw [hwa, hwc]
            exact this.2.2 (hal ▸ hn)
  · intro l d h
    rcases effB_heapUpd I args b sA l d h with ⟨x, hx, rfl⟩ | ⟨dst, op, srcs, r, hb, hr, rfl⟩
    · rcases hdefs x hx with h | h
      · exact (nloc_ncloc (k.nloc_of_ns h)).1
      · exact k.ncloc_of_sh h
    · exact (nloc_ncloc (hwr dst op srcs hb _ (oA dst r hr))).1

theorem updSim_eq (b : Basic) (s1 s2 : St D) (u1 u2 : Option (Var × Ref)) (h : UpdSim b s1 s2 u1 u2)
    (he : ∀ u ∈ b.reads, s1.env u = s2.env u) : u1 = u2 := by
  unfold UpdSim at h
  cases u1 with
  | none => cases u2 with
    | none => rfl
    | some q => simp at h
  | some p => cases u2 with
    | none => simp at h
    | some q =>
      obtain ⟨x, r1⟩ := p; obtain ⟨y, r2⟩ := q
      simp only at h
      obtain ⟨hxy, _, hl, hp, hw⟩ := h
      subst hxy
      have : r1.w = r2.w := by
        rcases hw with hw | ⟨u, hu, a, c', ha, hc', _, hwa, hwc⟩
        · exact hw
        · rw [he u hu, hc'] at ha
          cases ha
          rw [hwa, hwc]
      cases r1; cases r2; simp_all

/-- one basic statement executed by the first run (B) and the constant part (K): identical effect -/
theorem stepBK (I : Interp D) (args : Args D) (b : Basic) {sB sK : St D} (S : Var → Prop) (L : Loc → Prop)
    (eBK : ∀ v, S v → sB.env v = sK.env v) (hBK : ∀ l, L l → sB.heap l = sK.heap l)
    (hsim : EffSim b sB sK (effB I args b sB) (effB I args b sK))
    (hreads : ∀ u ∈ b.reads, sB.env u = sK.env u)
    (herrB : sB.err = none) (herrK : sK.err = none) :
    (execB I args b sB).err = (execB I args b sK).err ∧
    (∀ v, S v → (execB I args b sB).env v = (execB I args b sK).env v) ∧
    (∀ l, L l → (execB I args b sB).heap l = (execB I args b sK).heap l) := by
  rw [execB_eq I args b sB herrB, execB_eq I args b sK herrK]
  have henv := updSim_eq b sB sK _ _ hsim.env hreads
  refine ⟨by rw [applyEff_err, applyEff_err, hsim.err, herrB, herrK], ?_, ?_⟩
  · intro v hv
    rw [applyEff_env, applyEff_env, hsim.err, henv]
    cases (effB I args b sK).err <;> cases (effB I args b sK).envUpd <;> simp only [eBK v hv]
  · intro l hl
    rw [applyEff_heap, applyEff_heap, hsim.err, hsim.heap]
    cases (effB I args b sK).err <;> cases (effB I args b sK).heapUpd <;> simp only [hBK l hl]

end NutilsVerif.C03

namespace NutilsVerif.C03
variable {D : Type}

/-! ## what the constant part (mode `cache`) can change -/

def isFVG : Basic → Bool
  | .fresh _ _ _ => true
  | .view _ _ _ _ => true
  | .guard _ _ => true
  | _ => false

def wfKop (c : Ctx) (t : Tag) (b : Basic) : Bool :=
  originOK c b &&
  match t with
  | .shared => b.defs.all (fun d => c.sh.contains d) && isFVG b
  | .skip => b.defs.all (fun d => c.sk.contains d)
  | .rerun => b.defs.all (fun d => c.ns.contains d)

def wfKloop (c : Ctx) (_cnt i : Var) (body : Stmt) : Bool :=
  (c.O i).contains (.var i) &&
  match loopTag body with
  | .skip => c.sk.contains i
  | .shared => c.sh.contains i
  | .rerun => c.ns.contains i

def wfK (c : Ctx) : Stmt → Bool := allOps (wfKop c) (wfKloop c)

theorem chkOp_wfK (c : Ctx) (Dv : List Var) (Wl : List Loc) (Wv : List Var) (t : Tag) (b : Basic)
    (h : chkOp c Dv Wl Wv t b = true) : wfKop c t b = true := by
  unfold chkOp at h; unfold wfKop
  simp only [Bool.and_eq_true] at h ⊢
  refine ⟨h.1, ?_⟩
  cases t with
  | skip => simp only [Bool.and_eq_true] at h; exact h.2.1.2
  | rerun => simp only [Bool.and_eq_true] at h; exact h.2.1.2
  | shared =>
    simp only [Bool.and_eq_true] at h ⊢
    refine ⟨h.2.1.2, ?_⟩
    cases b <;> simp_all [isFVG]

theorem chk_wfK (c : Ctx) : ∀ (s : Stmt) (Dv : List Var) (Wl : List Loc) (Wv : List Var),
    chk c s Dv Wl Wv = true → wfK c s = true := by
  intro s
  induction s with
  | nop => intros; rfl
  | op t b => intro Dv Wl Wv h; exact chkOp_wfK c Dv Wl Wv t b h
  | seq s t ihs iht =>
    intro Dv Wl Wv h
    simp only [chk, Bool.and_eq_true] at h
    simp only [wfK, allOps, Bool.and_eq_true]
    exact ⟨ihs _ _ _ h.1, iht _ _ _ h.2⟩
  | loop cnt i body ih =>
    intro Dv Wl Wv h
    simp only [chk, Bool.and_eq_true] at h
    simp only [wfK, allOps, Bool.and_eq_true, wfKloop]
    refine ⟨⟨h.1.2, ?_⟩, ih _ _ _ h.2⟩
    have := h.1.1
    cases hl : loopTag body <;> simp only [hl, Bool.and_eq_true] at this ⊢
    · exact this.2
    · exact this.2
    · exact this.1.2

theorem wfK_seq (c : Ctx) (s t : Stmt) (h : wfK c (.seq s t) = true) : wfK c s = true ∧ wfK c t = true := by
  simpa [wfK, allOps] using h

theorem wfK_loop (c : Ctx) (cnt i : Var) (b : Stmt) (h : wfK c (.loop cnt i b) = true) :
    wfKloop c cnt i b = true ∧ wfK c b = true := by
  simpa [wfK, allOps] using h

theorem wfK_wfO_op (c : Ctx) (t : Tag) (b : Basic) (h : wfKop c t b = true) : originOK c b = true := by
  unfold wfKop at h; simp only [Bool.and_eq_true] at h; exact h.1

theorem exec_origin_K (I : Interp D) (args : Args D) (m : Mode) (c : Ctx) (s : Stmt) (st : St D)
    (hs : wfK c s = true) (h : OriginInv c.O st) : OriginInv c.O (exec I args m s st) := by
  refine exec_preserves I args m (OriginInv c.O) (fun s => wfK c s = true) ?_ ?_ ?_ ?_ ?_ s st hs h
  · intro t b st hq _ hP
    exact execB_origin I args c b st (wfK_wfO_op c t b hq) hP
  · intro cnt i body j st hq _ hP
    have := (wfK_loop c cnt i body hq).1
    simp only [wfKloop, Bool.and_eq_true] at this
    exact bindIdx_origin I c i j st this.1 hP
  · intro st e hP; exact hP
  · intro s t hq; exact wfK_seq c s t hq
  · intro cnt i b hq; exact (wfK_loop c cnt i b hq).2

/-- frame of the constant part: cached buffers outside `skW` keep their content, cached variables outside
`defsOf .skip` keep buffer and path -/
theorem cache_frame (I : Interp D) (args : Args D) (c : Ctx) (k : Classes c) (s : Stmt) (st0 : St D)
    (hs : wfK c s = true) (ho : OriginInv c.O st0) :
    (∀ l, c.cloc l = true → l ∉ skW c s → (exec I args .cache s st0).heap l = st0.heap l) ∧
    (∀ v, v ∈ c.sk ∨ v ∈ c.consts → v ∉ defsOf .skip s → refSimF ((exec I args .cache s st0).env v) (st0.env v)) := by
  let WL := skW c s
  let WV := defsOf .skip s
  let P : St D → Prop := fun st => OriginInv c.O st ∧
    (∀ l, c.cloc l = true → l ∉ WL → st.heap l = st0.heap l) ∧
    (∀ v, v ∈ c.sk ∨ v ∈ c.consts → v ∉ WV → refSimF (st.env v) (st0.env v))
  let Q : Stmt → Prop := fun s' => wfK c s' = true ∧ (∀ l ∈ skW c s', l ∈ WL) ∧ (∀ v ∈ defsOf .skip s', v ∈ WV)
  have hrefl : ∀ o : Option Ref, refSimF o o := by
    intro o; unfold refSimF; cases o <;> simp
  have main : P (exec I args .cache s st0) := by
    refine exec_preserves I args .cache P Q ?_ ?_ ?_ ?_ ?_ s st0 ⟨hs, fun _ h => h, fun _ h => h⟩ ⟨ho, fun _ _ _ => rfl, fun v _ _ => hrefl _⟩
    · -- basic statements
      intro t b st hq hr hP
      obtain ⟨hwf, hWL, hWV⟩ := hq
      have hwf' : wfKop c t b = true := hwf
      refine ⟨execB_origin I args c b st (wfK_wfO_op c t b hwf') hP.1, ?_, ?_⟩
      · intro l hl hnl
        cases herr : st.err with
        | some e => rw [execB_err I args b st e herr]; exact hP.2.1 l hl hnl
        | none =>
          rw [execB_eq I args b st herr, applyEff_heap_frame]
          · exact hP.2.1 l hl hnl
          · intro l' d hu e; subst e
            rcases effB_heapUpd I args b st l d hu with ⟨x, hx, rfl⟩ | ⟨dst, op, srcs, r, hb, hr', rfl⟩
            · -- allocation
              cases t with
              | skip =>
                apply hnl; apply hWL
                simp only [skW, if_true]
                cases b <;> simp_all [Basic.defs]
              | shared =>
                simp only [wfKop, Bool.and_eq_true, List.all_eq_true, List.contains_eq_mem, decide_eq_true_eq] at hwf'
                rw [k.ncloc_of_sh (hwf'.2.1 x hx)] at hl; cases hl
              | rerun => simp [runs] at hr
            · cases t with
              | skip =>
                apply hnl; apply hWL
                subst hb
                simp only [skW, if_true]
                exact hP.1 dst r hr'
              | shared =>
                subst hb
                simp [wfKop, isFVG] at hwf'
              | rerun => simp [runs] at hr
      · intro v hv hnv
        cases herr : st.err with
        | some e => rw [execB_err I args b st e herr]; exact hP.2.2 v hv hnv
        | none =>
          rw [execB_eq I args b st herr, applyEff_env]
          cases he : (effB I args b st).err <;> cases hu : (effB I args b st).envUpd <;> simp only
          · exact hP.2.2 v hv hnv
          · rename_i p; obtain ⟨x, r⟩ := p
            split
            · next e =>
              subst e
              rcases effB_envUpd I args b st v r hu with hd | hd
              · cases t with
                | skip =>
                  exfalso; apply hnv; apply hWV
                  simp only [defsOf, if_true]; exact hd
                | shared =>
                  exfalso
                  simp only [wfKop, Bool.and_eq_true, List.all_eq_true, List.contains_eq_mem, decide_eq_true_eq] at hwf'
                  have := hwf'.2.1 v hd
                  rcases hv with hv | hv
                  · exact k.sk_sh v hv this
                  · exact k.c_sh v hv this
                | rerun => simp [runs] at hr
              · -- setflags: same buffer and path
                subst hd
                simp only [effB] at hu
                cases hev : st.env v with
                | none => simp [hev] at hu
                | some r0 =>
                  simp only [hev, Option.some.injEq, Prod.mk.injEq, true_and] at hu
                  have := hP.2.2 v hv hnv
                  rw [hev] at this
                  unfold refSimF at this ⊢
                  cases h0 : st0.env v with
                  | none => simp [h0] at this
                  | some r00 => rw [h0] at this; rw [← hu]; exact this
            · exact hP.2.2 v hv hnv
          · exact hP.2.2 v hv hnv
          · exact hP.2.2 v hv hnv
    · -- loop index
      intro cnt i body j st hq hr hP
      obtain ⟨hwf, hWL, hWV⟩ := hq
      have hl := (wfK_loop c cnt i body hwf).1
      simp only [wfKloop, Bool.and_eq_true] at hl
      refine ⟨bindIdx_origin I c i j st hl.1 hP.1, ?_, ?_⟩
      · intro l hcl hnl
        unfold bindIdx; split
        · exact hP.2.1 l hcl hnl
        · simp only [alloc_heap]
          split
          · next e =>
            subst e
            cases ht : loopTag body with
            | skip => exfalso; apply hnl; apply hWL; simp [skW, ht]
            | shared =>
              rw [ht] at hl
              rw [k.ncloc_of_sh (by simpa using hl.2)] at hcl; cases hcl
            | rerun => simp [loopRuns, loopTag] at hr ht; split at ht <;> simp_all
          · exact hP.2.1 l hcl hnl
      · intro v hv hnv
        unfold bindIdx; split
        · exact hP.2.2 v hv hnv
        · simp only [alloc_env]
          split
          · next e =>
            subst e
            exfalso
            cases ht : loopTag body with
            | skip => apply hnv; apply hWV; simp [defsOf, ht]
            | shared =>
              rw [ht] at hl
              have : v ∈ c.sh := by simpa using hl.2
              rcases hv with hv | hv
              · exact k.sk_sh v hv this
              · exact k.c_sh v hv this
            | rerun => simp [loopRuns, loopTag] at hr ht; split at ht <;> simp_all
          · exact hP.2.2 v hv hnv
    · intro st e hP; exact hP
    · intro s t hq
      obtain ⟨hwf, hWL, hWV⟩ := hq
      have := wfK_seq c s t hwf
      exact ⟨⟨this.1, fun l hl => hWL l (by simp [skW, hl]), fun v hv => hWV v (by simp [defsOf, hv])⟩,
             ⟨this.2, fun l hl => hWL l (by simp [skW, hl]), fun v hv => hWV v (by simp [defsOf, hv])⟩⟩
    · intro cnt i b hq
      obtain ⟨hwf, hWL, hWV⟩ := hq
      exact ⟨(wfK_loop c cnt i b hwf).2, fun l hl => hWL l (by simp [skW, hl]), fun v hv => hWV v (by simp [defsOf, hv])⟩
  exact ⟨main.2.1, main.2.2⟩

end NutilsVerif.C03
