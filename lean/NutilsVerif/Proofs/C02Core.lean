import NutilsVerif.Model.C02Core
/-!
# C02 — correctness of the in-place compilation protocol (`compileCore`), core Lean only

Part 1: finite sums over `range n` in a commutative monoid.  Part 2: execution lemmas.  Part 3: the compiler.
-/
namespace NutilsVerif.C02
set_option linter.unusedSectionVars false

variable {α : Type} [CAM α]

theorem cam_zero_add (a : α) : 0 + a = a := by rw [CAM.add_comm, CAM.add_zero]

theorem cam_add4 (a b c d : α) : (a + b) + (c + d) = (a + c) + (b + d) := by
  rw [CAM.add_assoc, CAM.add_assoc, ← CAM.add_assoc b c d, CAM.add_comm b c, CAM.add_assoc c b d]

theorem sumRange_zero (f : Nat → α) : sumRange 0 f = 0 := by
  simp [sumRange]

theorem sumRange_succ (n : Nat) (f : Nat → α) : sumRange (n+1) f = sumRange n f + f n := by
  simp [sumRange, List.range_succ, List.foldl_append]

theorem sumRange_congr {n : Nat} {f g : Nat → α} (h : ∀ i, i < n → f i = g i) : sumRange n f = sumRange n g := by
  induction n with
  | zero => simp [sumRange_zero]
  | succ n ih =>
    rw [sumRange_succ, sumRange_succ, ih (fun i hi => h i (Nat.lt_succ_of_lt hi)), h n (Nat.lt_succ_self n)]

theorem sumRange_const_zero (n : Nat) : sumRange n (fun _ => (0 : α)) = 0 := by
  induction n with
  | zero => simp [sumRange_zero]
  | succ n ih => rw [sumRange_succ, ih, CAM.add_zero]

theorem sumRange_add (n : Nat) (f g : Nat → α) :
    sumRange n (fun i => f i + g i) = sumRange n f + sumRange n g := by
  induction n with
  | zero => simp [sumRange_zero, CAM.add_zero]
  | succ n ih => rw [sumRange_succ, sumRange_succ, sumRange_succ, ih, cam_add4]

/-- Fubini for finite sums -/
theorem sumRange_swap (n m : Nat) (g : Nat → Nat → α) :
    sumRange n (fun i => sumRange m (g i)) = sumRange m (fun j => sumRange n (fun i => g i j)) := by
  induction n with
  | zero => simp [sumRange_zero, sumRange_const_zero]
  | succ n ih =>
    rw [sumRange_succ, ih, ← sumRange_add]
    apply sumRange_congr; intro j _
    rw [sumRange_succ]

theorem sumRange_ite_const (n : Nat) (p : Prop) [Decidable p] (g : Nat → α) :
    (if p then sumRange n g else 0) = sumRange n (fun i => if p then g i else 0) := by
  by_cases h : p
  · simp [h]
  · simp [h, sumRange_const_zero]

/-- a sum with a single non-zero term -/
theorem sumRange_single (n k : Nat) (a : α) :
    sumRange n (fun j => if j = k then a else 0) = if k < n then a else 0 := by
  induction n with
  | zero => simp [sumRange_zero]
  | succ n ih =>
    rw [sumRange_succ, ih]
    by_cases h1 : k < n
    · have : n ≠ k := by omega
      have h2 : k < n + 1 := by omega
      simp [h1, h2, this, CAM.add_zero]
    · by_cases h3 : n = k
      · subst h3; simp [cam_zero_add]
      · have h2 : ¬ k < n + 1 := by omega
        simp [h1, h2, h3, CAM.add_zero]

theorem sumRange_all_zero {n : Nat} {f : Nat → α} (h : ∀ i, i < n → f i = 0) : sumRange n f = 0 := by
  rw [sumRange_congr h, sumRange_const_zero]

/-! ## gather sums -/

theorem gatherSum_congr {n : Nat} {m : Nat → Nat} {f g : Nat → α} (c : Nat) (h : ∀ i, i < n → f i = g i) :
    gatherSum n m f c = gatherSum n m g c := by
  unfold gatherSum
  apply sumRange_congr; intro i hi; rw [h i hi]

theorem gatherSum_congr_map {n : Nat} {m m' : Nat → Nat} {f : Nat → α} (c : Nat) (h : ∀ i, i < n → m i = m' i) :
    gatherSum n m f c = gatherSum n m' f c := by
  unfold gatherSum
  apply sumRange_congr; intro i hi; rw [h i hi]

theorem gatherSum_add (n : Nat) (m : Nat → Nat) (f g : Nat → α) (c : Nat) :
    gatherSum n m (fun j => f j + g j) c = gatherSum n m f c + gatherSum n m g c := by
  unfold gatherSum
  rw [← sumRange_add]
  apply sumRange_congr; intro j _
  by_cases h : m j = c <;> simp [h, CAM.add_zero]

theorem gatherSum_sum (n k : Nat) (m : Nat → Nat) (f : Nat → Nat → α) (c : Nat) :
    gatherSum n m (fun j => sumRange k (fun i => f i j)) c = sumRange k (fun i => gatherSum n m (f i) c) := by
  unfold gatherSum
  rw [sumRange_swap k n]
  apply sumRange_congr; intro j _
  exact sumRange_ite_const k (m j = c) (fun i => f i j)

theorem gatherSum_no_hit {n : Nat} {m : Nat → Nat} {f : Nat → α} {c : Nat} (h : ∀ j, j < n → m j ≠ c) :
    gatherSum n m f c = 0 := by
  unfold gatherSum
  apply sumRange_all_zero; intro j hj; simp [h j hj]

/-- composition of two index maps: scattering by `m1` into `n` cells and then by `m2` -/
theorem gatherSum_comp {k n : Nat} {m1 m2 : Nat → Nat} (f : Nat → α) (c : Nat) (h : ∀ j, j < k → m1 j < n) :
    gatherSum n m2 (gatherSum k m1 f) c = gatherSum k (fun j => m2 (m1 j)) f c := by
  unfold gatherSum
  have h1 : ∀ j, j < n → (if m2 j = c then sumRange k (fun i => if m1 i = j then f i else 0) else 0)
      = sumRange k (fun i => if m2 j = c then (if m1 i = j then f i else 0) else 0) :=
    fun j _ => sumRange_ite_const k (m2 j = c) _
  rw [sumRange_congr h1, sumRange_swap n k]
  apply sumRange_congr; intro i hi
  have h2 : ∀ j, j < n → (if m2 j = c then (if m1 i = j then f i else 0) else 0)
      = (if j = m1 i then (if m2 (m1 i) = c then f i else 0) else 0) := by
    intro j _
    by_cases hj : j = m1 i
    · subst hj; simp
    · have : m1 i ≠ j := fun e => hj e.symm
      simp [hj, this]
  rw [sumRange_congr h2, sumRange_single]
  simp [h i hi]

theorem gatherSum_id {n : Nat} (f : Nat → α) {c : Nat} (hc : c < n) : gatherSum n (fun j => j) f c = f c := by
  unfold gatherSum
  have : ∀ j, j < n → (if j = c then f j else 0) = (if j = c then f c else 0) := by
    intro j _; by_cases h : j = c <;> simp [h]
  rw [sumRange_congr this, sumRange_single]; simp [hc]

/-- with an injective index map a hit cell receives exactly one contribution -/
theorem gatherSum_inj {n : Nat} {m : Nat → Nat} (f : Nat → α) {j0 : Nat} (hj0 : j0 < n)
    (inj : ∀ i j, i < n → j < n → m i = m j → i = j) :
    gatherSum n m f (m j0) = f j0 := by
  unfold gatherSum
  have : ∀ j, j < n → (if m j = m j0 then f j else 0) = (if j = j0 then f j0 else 0) := by
    intro j hj
    by_cases h : j = j0
    · subst h; simp
    · have : m j ≠ m j0 := fun e => h (inj j j0 hj hj0 e)
      simp [h, this]
  rw [sumRange_congr this, sumRange_single]; simp [hj0]

/-! ## hits / allSome -/

theorem hits_iff {n : Nat} {m : Nat → Nat} {c : Nat} : hits n m c = true ↔ ∃ j, j < n ∧ m j = c := by
  simp [hits, List.any_eq_true]

theorem hits_false_iff {n : Nat} {m : Nat → Nat} {c : Nat} : hits n m c = false ↔ ∀ j, j < n → m j ≠ c := by
  rw [← Bool.not_eq_true, hits_iff]
  constructor
  · intro h j hj e; exact h ⟨j, hj, e⟩
  · rintro h ⟨j, hj, e⟩; exact h j hj e

omit [CAM α] in
theorem allSome_iff {n : Nat} {f : Nat → Option α} : allSome n f = true ↔ ∀ j, j < n → (f j).isSome = true := by
  simp [allSome, List.all_eq_true]

/-! ## Part 2: execution lemmas -/

@[simp] theorem Store.set_same (st : Store α) (x : Nat) (f : Nat → Option α) : (st.set x f) x = f := by
  simp [Store.set]

@[simp] theorem Store.set_other (st : Store α) {x y : Nat} (f : Nat → Option α) (h : y ≠ x) : (st.set x f) y = st y := by
  simp [Store.set, h]

theorem execL_nil (Γ : Ctx α) (env : List Nat) (st : Store α) : execL Γ env [] st = some st := by
  simp [execL]

theorem execL_cons (Γ : Ctx α) (env : List Nat) (s : S) (l : List S) (st : Store α) :
    execL Γ env (s :: l) st = (execS Γ env s st).bind (execL Γ env l) := by
  simp [execL]

theorem execL_append (Γ : Ctx α) (env : List Nat) (l1 l2 : List S) (st : Store α) :
    execL Γ env (l1 ++ l2) st = (execL Γ env l1 st).bind (execL Γ env l2) := by
  induction l1 generalizing st with
  | nil => simp [execL_nil]
  | cons s l ih =>
    rw [List.cons_append, execL_cons, execL_cons]
    cases h : execS Γ env s st with
    | none => simp
    | some st1 => simp [ih]

theorem execL_single (Γ : Ctx α) (env : List Nat) (s : S) (st : Store α) :
    execL Γ env [s] st = execS Γ env s st := by
  rw [execL_cons]; cases execS Γ env s st <;> simp [execL_nil]

theorem iter_zero (f : Nat → Store α → Option (Store α)) (st : Store α) : iter 0 f st = some st := by
  simp [iter]

theorem iter_succ (n : Nat) (f : Nat → Store α → Option (Store α)) (st : Store α) :
    iter (n+1) f st = (iter n f st).bind (f n) := by
  simp [iter, List.range_succ, List.foldlM_append]

theorem execS_loop (Γ : Ctx α) (env : List Nat) (n : Nat) (body : List S) (st : Store α) :
    execS Γ env (.loop n body) st = iter n (fun i st => execL Γ (i :: env) body st) st := by
  simp [execS]

/-! ## Part 3: the compiler -/

def postCell (mode : Mode) (old : Option α) (hit : Bool) (G : α) : Option α :=
  match mode with
  | .iadd => old.map (· + G)
  | .assign => if hit then some G else old

def ViewOK (Γ : Ctx α) (v : View) (n : Nat) : Prop := ∀ t, t ∈ v → TagOK Γ t n

theorem appV_lt {Γ : Ctx α} {v : View} {n : Nat} (hv : ViewOK Γ v n) {j : Nat} (hj : j < n) : appV Γ v j < n := by
  induction v generalizing j with
  | nil => simpa [appV] using hj
  | cons t v ih =>
    simp only [appV]
    exact ih (fun t' ht' => hv t' (List.mem_cons_of_mem _ ht')) ((hv t (List.mem_cons_self ..)) j hj).1

theorem appV_inj {Γ : Ctx α} {v : View} {n : Nat} (hv : ViewOK Γ v n) {i j : Nat} (hi : i < n) (hj : j < n)
    (h : appV Γ v i = appV Γ v j) : i = j := by
  induction v generalizing i j with
  | nil => simpa [appV] using h
  | cons t v ih =>
    simp only [appV] at h
    have ht := hv t (List.mem_cons_self ..)
    have := ih (fun t' ht' => hv t' (List.mem_cons_of_mem _ ht')) (ht i hi).1 (ht j hj).1 h
    have h1 := (ht i hi).2.2.1
    have h2 := (ht j hj).2.2.1
    rw [← h1, ← h2, this]

/-- the in-place contract of the statements `r.1` that write `e` through the view `v` into `out` -/
def InplaceOK (Γ : Ctx α) (e : E) (out : Nat) (v : View) (mode : Mode) (n : Nat) (r : List S × Nat) : Prop :=
  ∀ (env : List Nat) (st : Store α),
    (mode = .iadd → ∀ j, j < e.size → (st out (appV Γ v j)).isSome = true) →
    ∃ st', execL Γ env r.1 st = some st' ∧
      (∀ c, st' out c = postCell mode (st out c) (hits e.size (appV Γ v) c) (gatherSum e.size (appV Γ v) (eval Γ env e) c)) ∧
      (∀ y, y < n → y ≠ out → st' y = st y)

def SelfSpec (Γ : Ctx α) (e : E) (self : Nat → View → Mode → Nat → List S × Nat) : Prop :=
  ∀ out v mode n, out < n → ViewOK Γ v e.size →
    n ≤ (self out v mode n).2 ∧ InplaceOK Γ e out v mode n (self out v mode n)

def CompileSpec (Γ : Ctx α) (e : E) (compile : Nat → List S × Nat × Nat) : Prop :=
  ∀ n, n ≤ (compile n).2.1 ∧ (compile n).2.1 < (compile n).2.2 ∧
    ∀ (env : List Nat) (st : Store α), ∃ st', execL Γ env (compile n).1 st = some st' ∧
      (∀ j, j < e.size → st' (compile n).2.1 j = some (eval Γ env e j)) ∧ (∀ y, y < n → st' y = st y)

theorem map_add_zero (o : Option α) : o.map (· + (0 : α)) = o := by
  cases o <;> simp [CAM.add_zero]

/-- zero-fill followed by accumulation is assignment (`mode='assign'` of Add / Inflate / LoopSum) -/
theorem inplace_zeroIf {Γ : Ctx α} {e : E} {out : Nat} {v : View} {n : Nat} {s : List S} {n' : Nat} (mode : Mode)
    (h : InplaceOK Γ e out v .iadd n (s, n')) : InplaceOK Γ e out v mode n (zeroIf mode out v e.size ++ s, n') := by
  cases mode with
  | iadd => simpa [zeroIf] using h
  | assign =>
    intro env st _
    simp only [zeroIf, List.singleton_append, execL_cons]
    simp only [execS, Option.bind_some]
    obtain ⟨st', h1, h2, h3⟩ := h env (st.set out fun c => if hits e.size (appV Γ v) c then some 0 else st out c) (by
      intro _ j hj
      have : hits e.size (appV Γ v) (appV Γ v j) = true := hits_iff.2 ⟨j, hj, rfl⟩
      simp [this])
    refine ⟨st', h1, ?_, ?_⟩
    · intro c
      rw [h2 c]
      simp only [postCell, Store.set_same]
      cases hh : hits e.size (appV Γ v) c with
      | true => simp [cam_zero_add]
      | false =>
        rw [gatherSum_no_hit (hits_false_iff.1 hh)]
        simp [map_add_zero]
    · intro y hy hne
      rw [h3 y hy hne, Store.set_other _ _ hne]

/-- `compile_with_out` fallback: compute separately, then `copyto` / in-place add -/
def fallback (e : E) (compile : Nat → List S × Nat × Nat) (out : Nat) (v : View) (mode : Mode) (n : Nat) : List S × Nat :=
  match mode with
  | .assign => ((compile n).1 ++ [S.copyTo out v (compile n).2.1 e.size], (compile n).2.2)
  | .iadd => ((compile n).1 ++ [S.addAt out v none (compile n).2.1 e.size], (compile n).2.2)

theorem cwoOf_eq (gate : Gate) (e : E) (c : Comp) (out : Nat) (v : View) (mode : Mode) (n : Nat) :
    cwoOf gate e c out v mode n = if gate.shared e || gate.early e || e.isLeaf then fallback e c.compile out v mode n else c.self out v mode n := by
  unfold cwoOf fallback
  split
  · cases mode <;> rfl
  · rfl

/-- sequential `copyto` through an injective view -/
theorem copy_cell {Γ : Ctx α} {v : View} {n : Nat} (hv : ViewOK Γ v n) (src : Nat → Option α) (old : Option α) (c : Nat)
    (m : Nat) (hm : m ≤ n) (hs : ∀ j, j < n → (src j).isSome = true) :
    (List.range m).foldl (fun acc j => if appV Γ v j = c then src j else acc) old
      = if hits m (appV Γ v) c then some (gatherSum m (appV Γ v) (fun j => (src j).getD 0) c) else old := by
  induction m with
  | zero => simp [hits]
  | succ m ih =>
    rw [List.range_succ, List.foldl_append, ih (Nat.le_of_succ_le hm)]
    simp only [List.foldl_cons, List.foldl_nil]
    by_cases hc : appV Γ v m = c
    · have hh : hits (m+1) (appV Γ v) c = true := hits_iff.2 ⟨m, Nat.lt_succ_self m, hc⟩
      have hno : ∀ j, j < m → appV Γ v j ≠ c := by
        intro j hj e
        have := appV_inj hv (show j < n by omega) (show m < n by omega) (e.trans hc.symm)
        omega
      simp only [hc, if_true, hh]
      unfold gatherSum
      rw [sumRange_succ]
      have : sumRange m (fun j => if appV Γ v j = c then (src j).getD 0 else 0) = 0 :=
        sumRange_all_zero (fun j hj => by simp [hno j hj])
      rw [this, cam_zero_add]
      simp only [hc, if_true]
      have := hs m (by omega)
      cases h : src m with
      | none => simp [h] at this
      | some a => simp
    · simp only [hc, if_false]
      have hh : hits (m+1) (appV Γ v) c = hits m (appV Γ v) c := by
        cases h : hits m (appV Γ v) c with
        | true =>
          obtain ⟨j, hj, e⟩ := hits_iff.1 h
          exact hits_iff.2 ⟨j, Nat.lt_succ_of_lt hj, e⟩
        | false =>
          apply hits_false_iff.2
          intro j hj
          by_cases hjm : j = m
          · subst hjm; exact hc
          · exact hits_false_iff.1 h j (by omega)
      rw [hh]
      unfold gatherSum
      rw [sumRange_succ]
      simp [hc, CAM.add_zero]

theorem fallback_spec {Γ : Ctx α} {e : E} {compile : Nat → List S × Nat × Nat} (hc : CompileSpec Γ e compile) :
    SelfSpec Γ e (fallback e compile) := by
  intro out v mode n hout hv
  obtain ⟨hx1, hx2, hex⟩ := hc n
  constructor
  · cases mode <;> simp only [fallback] <;> omega
  · intro env st hpre
    obtain ⟨st1, e1, hval, hframe⟩ := hex env st
    have hxo : (compile n).2.1 ≠ out := by omega
    have hsrc : allSome e.size (st1 (compile n).2.1) = true :=
      allSome_iff.2 (fun j hj => by rw [hval j hj]; rfl)
    have hget : ∀ j, j < e.size → (st1 (compile n).2.1 j).getD 0 = eval Γ env e j := by
      intro j hj; rw [hval j hj]; rfl
    cases mode with
    | assign =>
      simp only [fallback, execL_append, e1, Option.bind_some, execL_single, execS, hsrc, if_true]
      refine ⟨_, rfl, ?_, ?_⟩
      · intro c
        simp only [Store.set_same, postCell]
        rw [copy_cell hv _ _ c e.size (Nat.le_refl _) (allSome_iff.1 hsrc), hframe out hout]
        rw [gatherSum_congr c hget]
      · intro y hy hne
        rw [Store.set_other _ _ hne, hframe y hy]
    | iadd =>
      have htgt : allSome e.size (fun j => st1 out (idxOf Γ env v none j)) = true :=
        allSome_iff.2 (fun j hj => by simp only [idxOf]; rw [hframe out hout]; exact hpre rfl j hj)
      simp only [fallback, execL_append, e1, Option.bind_some, execL_single, execS, hsrc, htgt, Bool.and_self, if_true]
      refine ⟨_, rfl, ?_, ?_⟩
      · intro c
        have hid : idxOf Γ env v none = appV Γ v := by funext j; rfl
        simp only [Store.set_same, postCell, hid]
        rw [hframe out hout, gatherSum_congr c hget]
      · intro y hy hne
        rw [Store.set_other _ _ hne, hframe y hy]

theorem cwoOf_spec {Γ : Ctx α} (gate : Gate) {e : E} {c : Comp} (hc : CompileSpec Γ e c.compile)
    (hs : e.isLeaf = false → SelfSpec Γ e c.self) : SelfSpec Γ e (cwoOf gate e c) := by
  intro out v mode n hout hv
  rw [cwoOf_eq]
  by_cases h : (gate.shared e || gate.early e || e.isLeaf) = true
  · rw [if_pos h]; exact fallback_spec hc out v mode n hout hv
  · rw [if_neg h]
    have : e.isLeaf = false := by
      cases hl : e.isLeaf with
      | false => rfl
      | true => simp [hl] at h
    exact hs this out v mode n hout hv

/-- `_compile` of the classes that allocate their own array and then run their in-place protocol in mode `assign` -/
theorem compile_of_self {Γ : Ctx α} {e : E} {self : Nat → View → Mode → Nat → List S × Nat} (hs : SelfSpec Γ e self) :
    CompileSpec Γ e (fun n => (S.alloc n e.size :: (self n [] .assign (n+1)).1, n, (self n [] .assign (n+1)).2)) := by
  intro n
  obtain ⟨hle, hin⟩ := hs n [] .assign (n+1) (Nat.lt_succ_self n) (by intro t ht; cases ht)
  refine ⟨Nat.le_refl _, by simp only; omega, ?_⟩
  intro env st
  obtain ⟨st', h1, h2, h3⟩ := hin env (st.set n fun _ => none) (by intro h; cases h)
  refine ⟨st', ?_, ?_, ?_⟩
  · simp only [execL_cons, execS, Option.bind_some]; exact h1
  · intro j hj
    simp only
    rw [h2 j]
    have hh : hits e.size (appV Γ []) j = true := hits_iff.2 ⟨j, hj, rfl⟩
    simp only [postCell, hh, if_true]
    have : appV Γ ([] : View) = fun j => j := by funext j; rfl
    rw [this, gatherSum_id _ hj]
  · intro y hy
    rw [h3 y (by omega) (by omega), Store.set_other _ _ (by omega)]

/-- two accumulations into the same target compose (`Add._compile_with_out`) -/
theorem inplace_seq_add {Γ : Ctx α} {a b : E} (hsz : a.size = b.size) {out : Nat} {v : View} {n n1 n2 : Nat} {sa sb : List S}
    (hn : n ≤ n1) (ha : InplaceOK Γ a out v .iadd n (sa, n1)) (hb : InplaceOK Γ b out v .iadd n1 (sb, n2)) :
    InplaceOK Γ (.add a b) out v .iadd n (sa ++ sb, n2) := by
  intro env st hpre
  have hpre' : ∀ j, j < a.size → (st out (appV Γ v j)).isSome = true := hpre rfl
  obtain ⟨st1, e1, v1, f1⟩ := ha env st (fun _ => hpre')
  obtain ⟨st2, e2, v2, f2⟩ := hb env st1 (fun _ j hj => by
    rw [v1]; simp only [postCell, Option.isSome_map]; exact hpre' j (hsz ▸ hj))
  refine ⟨st2, ?_, ?_, ?_⟩
  · simp only [execL_append, e1, Option.bind_some, e2]
  · intro c
    rw [v2 c, v1 c]
    simp only [postCell, E.size, Option.map_map]
    have : gatherSum a.size (appV Γ v) (eval Γ env (.add a b)) c
        = gatherSum a.size (appV Γ v) (eval Γ env a) c + gatherSum b.size (appV Γ v) (eval Γ env b) c := by
      rw [← hsz, ← gatherSum_add]; rfl
    rw [this]
    congr 1
    funext x
    simp only [Function.comp]
    rw [CAM.add_assoc]
  · intro y hy hne
    rw [f2 y (by omega) hne, f1 y hy hne]

theorem iter_spec {Γ : Ctx α} {e : E} {out : Nat} {v : View} {n n' : Nat} {s : List S}
    (h : InplaceOK Γ e out v .iadd n (s, n')) (env : List Nat) (k : Nat) (st : Store α)
    (hpre : ∀ j, j < e.size → (st out (appV Γ v j)).isSome = true) :
    ∃ st', iter k (fun i st => execL Γ (i :: env) s st) st = some st' ∧
      (∀ c, st' out c = (st out c).map (· + sumRange k (fun i => gatherSum e.size (appV Γ v) (eval Γ (i :: env) e) c))) ∧
      (∀ y, y < n → y ≠ out → st' y = st y) := by
  induction k with
  | zero =>
    refine ⟨st, iter_zero _ _, ?_, fun _ _ _ => rfl⟩
    intro c; rw [sumRange_zero, map_add_zero]
  | succ k ih =>
    obtain ⟨st1, e1, v1, f1⟩ := ih
    obtain ⟨st2, e2, v2, f2⟩ := h (k :: env) st1 (fun _ j hj => by
      rw [v1]; simp only [Option.isSome_map]; exact hpre j hj)
    refine ⟨st2, ?_, ?_, ?_⟩
    · rw [iter_succ, e1]; exact e2
    · intro c
      rw [v2 c, v1 c, sumRange_succ]
      simp only [postCell, Option.map_map]
      congr 1
      funext x
      simp only [Function.comp]
      rw [CAM.add_assoc]
    · intro y hy hne
      rw [f2 y hy hne, f1 y hy hne]

theorem hits_transp {Γ : Ctx α} {t : Nat} {v : View} {n : Nat} (ht : TagOK Γ t n) (c : Nat) :
    hits n (appV Γ (t :: v)) c = hits n (appV Γ v) c := by
  cases h : hits n (appV Γ v) c with
  | true =>
    obtain ⟨j, hj, e⟩ := hits_iff.1 h
    exact hits_iff.2 ⟨Γ.Q t j, (ht j hj).2.1, by simp only [appV]; rw [(ht j hj).2.2.2]; exact e⟩
  | false =>
    apply hits_false_iff.2
    intro j hj
    simp only [appV]
    exact hits_false_iff.1 h _ (ht j hj).1

theorem build_spec (Γ : Ctx α) (gate : Gate) : ∀ e, WF Γ e →
    CompileSpec Γ e (build gate e).compile ∧ SelfSpec Γ e (cwoOf gate e (build gate e)) := by
  intro e
  induction e with
  | leaf k s =>
    intro _
    have hc : CompileSpec Γ (.leaf k s) (build gate (.leaf k s)).compile := by
      intro n
      refine ⟨Nat.le_refl _, Nat.lt_succ_self _, ?_⟩
      intro env st
      simp only [build, execL_single, execS]
      refine ⟨_, rfl, ?_, ?_⟩
      · intro j hj
        simp only [Store.set_same, E.size] at hj ⊢
        simp [hj, eval]
      · intro y hy
        rw [Store.set_other _ _ (by omega)]
    exact ⟨hc, cwoOf_spec gate hc (fun h => by simp [E.isLeaf] at h)⟩
  | add a b iha ihb =>
    intro hwf
    obtain ⟨hsz, hwa, hwb⟩ := hwf
    obtain ⟨hca, hwoa⟩ := iha hwa
    obtain ⟨hcb, hwob⟩ := ihb hwb
    have hself : SelfSpec Γ (.add a b) (build gate (.add a b)).self := by
      intro out v mode n hout hv
      obtain ⟨hn1, hia⟩ := hwoa out v .iadd n hout hv
      obtain ⟨hn2, hib⟩ := hwob out v .iadd (cwoOf gate a (build gate a) out v .iadd n).2 (by omega) (hsz ▸ hv)
      constructor
      · show n ≤ (cwoOf gate b (build gate b) out v .iadd (cwoOf gate a (build gate a) out v .iadd n).2).2
        omega
      · have := inplace_zeroIf mode (inplace_seq_add hsz hn1 hia hib)
        simp only [build, List.append_assoc]
        exact this
    have hc : CompileSpec Γ (.add a b) (build gate (.add a b)).compile := by
      by_cases hin : (inplaceOK gate a || inplaceOK gate b) = true
      · have := compile_of_self hself
        intro n
        have hn := this n
        simp only [build, hin, if_true] at hn ⊢
        exact hn
      · intro n
        obtain ⟨a1, a2, aex⟩ := hca n
        obtain ⟨b1, b2, bex⟩ := hcb ((build gate a).compile n).2.2
        have hin' : (inplaceOK gate a || inplaceOK gate b) = false := by
          cases h : (inplaceOK gate a || inplaceOK gate b) with
          | false => rfl
          | true => exact absurd h hin
        have hcomp : (build gate (.add a b)).compile n =
            (((build gate a).compile n).1 ++ ((build gate b).compile ((build gate a).compile n).2.2).1 ++
              [S.plus ((build gate b).compile ((build gate a).compile n).2.2).2.2 ((build gate a).compile n).2.1
                ((build gate b).compile ((build gate a).compile n).2.2).2.1 a.size],
             ((build gate b).compile ((build gate a).compile n).2.2).2.2,
             ((build gate b).compile ((build gate a).compile n).2.2).2.2 + 1) := by
          show (if (inplaceOK gate a || inplaceOK gate b) = true then _ else _) = _
          rw [hin']; rfl
        rw [hcomp]
        refine ⟨by show n ≤ ((build gate b).compile ((build gate a).compile n).2.2).2.2; omega, Nat.lt_succ_self _, ?_⟩
        intro env st
        obtain ⟨st1, e1, v1, f1⟩ := aex env st
        obtain ⟨st2, e2, v2, f2⟩ := bex env st1
        have hsa : allSome a.size (st2 ((build gate a).compile n).2.1) = true :=
          allSome_iff.2 (fun j hj => by rw [f2 _ a2, v1 j hj]; rfl)
        have hsb : allSome a.size (st2 ((build gate b).compile ((build gate a).compile n).2.2).2.1) = true :=
          allSome_iff.2 (fun j hj => by rw [v2 j (hsz ▸ hj)]; rfl)
        simp only [execL_append, e1, e2, Option.bind_some, execL_single, execS, hsa, hsb, Bool.and_self, if_true]
        refine ⟨_, rfl, ?_, ?_⟩
        · intro j hj
          simp only [E.size] at hj
          simp only [Store.set_same, hj, if_true, eval]
          rw [f2 _ a2, v1 j hj, v2 j (hsz ▸ hj)]
          rfl
        · intro y hy
          rw [Store.set_other _ _ (by omega), f2 y (by omega), f1 y hy]
    exact ⟨hc, cwoOf_spec gate hc (fun _ => hself)⟩
  | scatter t m e ih =>
    intro hwf
    obtain ⟨hM, hwe⟩ := hwf
    obtain ⟨hce, _⟩ := ih hwe
    have hself : SelfSpec Γ (.scatter t m e) (build gate (.scatter t m e)).self := by
      intro out v mode n hout hv
      obtain ⟨x1, x2, xex⟩ := hce n
      constructor
      · show n ≤ ((build gate e).compile n).2.2
        omega
      · have hi : InplaceOK Γ (.scatter t m e) out v .iadd n
            (((build gate e).compile n).1 ++ [S.addAt out v (some t) ((build gate e).compile n).2.1 e.size], ((build gate e).compile n).2.2) := by
          intro env st hpre
          obtain ⟨st1, e1, v1, f1⟩ := xex env st
          have hsrc : allSome e.size (st1 ((build gate e).compile n).2.1) = true :=
            allSome_iff.2 (fun j hj => by rw [v1 j hj]; rfl)
          have htgt : allSome e.size (fun j => st1 out (idxOf Γ env v (some t) j)) = true :=
            allSome_iff.2 (fun j hj => by
              simp only [idxOf]; rw [f1 out hout]; exact hpre rfl _ (hM env j hj))
          simp only [execL_append, e1, Option.bind_some, execL_single, execS, hsrc, htgt, Bool.and_self, if_true]
          refine ⟨_, rfl, ?_, ?_⟩
          · intro c
            simp only [Store.set_same, postCell, E.size, eval]
            rw [f1 out hout, gatherSum_comp _ c (hM env)]
            have hid : idxOf Γ env v (some t) = fun j => appV Γ v (Γ.M t env j) := by funext j; rfl
            rw [hid]
            congr 2
            funext x
            congr 1
            exact gatherSum_congr c (fun j hj => by rw [v1 j hj]; rfl)
          · intro y hy hne
            rw [Store.set_other _ _ hne, f1 y hy]
        have := inplace_zeroIf mode hi
        simp only [build, List.append_assoc]
        exact this
    have hc : CompileSpec Γ (.scatter t m e) (build gate (.scatter t m e)).compile := by
      have := compile_of_self hself
      intro n
      have hn := this n
      simp only [build] at hn ⊢
      exact hn
    exact ⟨hc, cwoOf_spec gate hc (fun _ => hself)⟩
  | transp t e ih =>
    intro hwf
    obtain ⟨htag, hwe⟩ := hwf
    obtain ⟨hce, hwoe⟩ := ih hwe
    have hself : SelfSpec Γ (.transp t e) (build gate (.transp t e)).self := by
      intro out v mode n hout hv
      have hv' : ViewOK Γ (t :: v) e.size := by
        intro t' ht'
        cases ht' with
        | head => exact htag
        | tail _ h => exact hv t' h
      obtain ⟨hn1, hi⟩ := hwoe out (t :: v) mode n hout hv'
      refine ⟨by simpa only [build] using hn1, ?_⟩
      intro env st hpre
      obtain ⟨st', e1, v1, f1⟩ := hi env st (fun hm j hj => by
        simp only [appV]; exact hpre hm _ (htag j hj).1)
      refine ⟨st', by simpa only [build] using e1, ?_, f1⟩
      intro c
      rw [v1 c, hits_transp htag]
      simp only [E.size, eval]
      rw [gatherSum_comp _ c (fun j hj => (htag j hj).1)]
      rfl
    have hc : CompileSpec Γ (.transp t e) (build gate (.transp t e)).compile := by
      intro n
      obtain ⟨x1, x2, xex⟩ := hce n
      have hcomp : (build gate (.transp t e)).compile n =
          (((build gate e).compile n).1 ++ [S.reindex ((build gate e).compile n).2.2 t ((build gate e).compile n).2.1 e.size],
            ((build gate e).compile n).2.2, ((build gate e).compile n).2.2 + 1) := rfl
      rw [hcomp]
      refine ⟨by show n ≤ ((build gate e).compile n).2.2; omega, Nat.lt_succ_self _, ?_⟩
      intro env st
      obtain ⟨st1, e1, v1, f1⟩ := xex env st
      have hsrc : allSome e.size (st1 ((build gate e).compile n).2.1) = true :=
        allSome_iff.2 (fun j hj => by rw [v1 j hj]; rfl)
      simp only [execL_append, e1, Option.bind_some, execL_single, execS, hsrc, if_true]
      refine ⟨_, rfl, ?_, ?_⟩
      · intro j hj
        simp only [E.size] at hj
        simp only [Store.set_same, hj, if_true, eval]
        congr 1
        exact gatherSum_congr j (fun i hi => by rw [v1 i hi]; rfl)
      · intro y hy
        rw [Store.set_other _ _ (by omega), f1 y hy]
    exact ⟨hc, cwoOf_spec gate hc (fun _ => hself)⟩
  | loopsum k e ih =>
    intro hwf
    obtain ⟨hce, hwoe⟩ := ih hwf
    have hself : SelfSpec Γ (.loopsum k e) (build gate (.loopsum k e)).self := by
      intro out v mode n hout hv
      obtain ⟨hn1, hi⟩ := hwoe out v .iadd n hout hv
      constructor
      · simpa only [build] using hn1
      · have hl : InplaceOK Γ (.loopsum k e) out v .iadd n
            ([S.loop k (cwoOf gate e (build gate e) out v .iadd n).1], (cwoOf gate e (build gate e) out v .iadd n).2) := by
          intro env st hpre
          obtain ⟨st', e1, v1, f1⟩ := iter_spec hi env k st (hpre rfl)
          refine ⟨st', by rw [execL_single, execS_loop]; exact e1, ?_, f1⟩
          intro c
          rw [v1 c]
          simp only [postCell, E.size, eval]
          rw [gatherSum_sum]
        have := inplace_zeroIf mode hl
        simp only [build]
        exact this
    have hc : CompileSpec Γ (.loopsum k e) (build gate (.loopsum k e)).compile := by
      have := compile_of_self hself
      intro n
      have hn := this n
      simp only [build] at hn ⊢
      exact hn
    exact ⟨hc, cwoOf_spec gate hc (fun _ => hself)⟩

/-! ## Part 4: the order of accumulations within a block is irrelevant -/

def isAcc : S → Bool
  | .addAt .. => true
  | _ => false

def accTarget : S → Nat
  | .addAt x _ _ _ _ => x
  | _ => 0

def accSrc : S → Nat
  | .addAt _ _ _ src _ => src
  | _ => 0

/-- success condition and effect of one accumulation, as functions of the store -/
def accCond (Γ : Ctx α) (env : List Nat) (x : Nat) (v : View) (sc : Option Nat) (src n : Nat) (st : Store α) : Bool :=
  allSome n (st src) && allSome n (fun j => st x (idxOf Γ env v sc j))

def accUpd (Γ : Ctx α) (env : List Nat) (x : Nat) (v : View) (sc : Option Nat) (src n : Nat) (st : Store α) : Store α :=
  st.set x fun c => (st x c).map (· + gatherSum n (idxOf Γ env v sc) (fun j => (st src j).getD 0) c)

theorem execS_addAt (Γ : Ctx α) (env : List Nat) (x : Nat) (v : View) (sc : Option Nat) (src n : Nat) (st : Store α) :
    execS Γ env (.addAt x v sc src n) st = if accCond Γ env x v sc src n st then some (accUpd Γ env x v sc src n st) else none := by
  simp only [execS, accCond, accUpd]
  rfl

theorem accUpd_src {Γ : Ctx α} {env : List Nat} {x : Nat} {v : View} {sc : Option Nat} {src n : Nat} (st : Store α)
    {y : Nat} (h : y ≠ x) : accUpd Γ env x v sc src n st y = st y := by
  simp [accUpd, Store.set, h]

theorem accUpd_isSome {Γ : Ctx α} {env : List Nat} {x : Nat} {v : View} {sc : Option Nat} {src n : Nat} (st : Store α)
    (y c : Nat) : (accUpd Γ env x v sc src n st y c).isSome = (st y c).isSome := by
  by_cases h : y = x
  · subst h; simp [accUpd, Store.set]
  · rw [accUpd_src st h]

theorem accCond_stable {Γ : Ctx α} {env : List Nat} {x x' : Nat} {v v' : View} {sc sc' : Option Nat} {src src' n n' : Nat}
    (st : Store α) (h : src' ≠ x) :
    accCond Γ env x' v' sc' src' n' (accUpd Γ env x v sc src n st) = accCond Γ env x' v' sc' src' n' st := by
  unfold accCond
  rw [accUpd_src st h]
  congr 1
  unfold allSome
  apply List.all_congr rfl
  intro j
  exact accUpd_isSome st _ _

theorem accUpd_comm {Γ : Ctx α} {env : List Nat} {x x' : Nat} {v v' : View} {sc sc' : Option Nat} {src src' n n' : Nat}
    (st : Store α) (h1 : src' ≠ x) (h2 : src ≠ x') :
    accUpd Γ env x' v' sc' src' n' (accUpd Γ env x v sc src n st) = accUpd Γ env x v sc src n (accUpd Γ env x' v' sc' src' n' st) := by
  funext y c
  by_cases hx : x' = x
  · subst hx
    by_cases hy : y = x'
    · subst hy
      simp only [accUpd, Store.set_same, Store.set_other _ _ h1, Store.set_other _ _ h2, Option.map_map]
      congr 1
      funext a
      simp only [Function.comp]
      rw [CAM.add_assoc, CAM.add_assoc]
      congr 1
      exact CAM.add_comm _ _
    · simp only [accUpd, Store.set_other _ _ hy]
  · by_cases hy : y = x'
    · subst hy
      simp only [accUpd, Store.set_same, Store.set_other _ _ h1, Store.set_other _ _ h2, Store.set_other _ _ hx]
    · by_cases hy2 : y = x
      · subst hy2
        have hx' : y ≠ x' := hy
        simp only [accUpd, Store.set_same, Store.set_other _ _ h1, Store.set_other _ _ h2, Store.set_other _ _ hx']
      · simp only [accUpd, Store.set_other _ _ hy, Store.set_other _ _ hy2]

/-- two accumulations whose sources are not accumulation targets commute (also in their failure behaviour) -/
theorem execS_acc_comm (Γ : Ctx α) (env : List Nat) {a b : S} (ha : isAcc a = true) (hb : isAcc b = true)
    (h1 : accSrc b ≠ accTarget a) (h2 : accSrc a ≠ accTarget b) (st : Store α) :
    (execS Γ env a st).bind (execS Γ env b) = (execS Γ env b st).bind (execS Γ env a) := by
  cases a <;> simp [isAcc] at ha
  cases b <;> simp [isAcc] at hb
  rename_i x v sc src n x' v' sc' src' n'
  simp only [accSrc, accTarget] at h1 h2
  simp only [execS_addAt]
  by_cases ca : accCond Γ env x v sc src n st = true
  · by_cases cb : accCond Γ env x' v' sc' src' n' st = true
    · simp only [ca, cb, if_true, Option.bind_some, execS_addAt, accCond_stable st h1, accCond_stable st h2]
      rw [accUpd_comm st h1 h2]
    · simp only [ca, cb, if_true, Option.bind_some, execS_addAt, accCond_stable st h1]
      simp
  · by_cases cb : accCond Γ env x' v' sc' src' n' st = true
    · simp only [ca, cb, if_true, Option.bind_some, execS_addAt, accCond_stable st h2]
      simp
    · simp [ca, cb]

def AccBlock (l : List S) : Prop :=
  (∀ s, s ∈ l → isAcc s = true) ∧ (∀ s s', s ∈ l → s' ∈ l → accSrc s ≠ accTarget s')

theorem AccBlock.perm {l l' : List S} (h : l.Perm l') (hl : AccBlock l) : AccBlock l' :=
  ⟨fun s hs => hl.1 s (h.mem_iff.2 hs), fun s s' hs hs' => hl.2 s s' (h.mem_iff.2 hs) (h.mem_iff.2 hs')⟩

theorem AccBlock.tail {s : S} {l : List S} (hl : AccBlock (s :: l)) : AccBlock l :=
  ⟨fun s' hs => hl.1 s' (List.mem_cons_of_mem _ hs), fun a b ha hb => hl.2 a b (List.mem_cons_of_mem _ ha) (List.mem_cons_of_mem _ hb)⟩

theorem execL_perm (Γ : Ctx α) (env : List Nat) {l l' : List S} (h : l.Perm l') (hl : AccBlock l) (st : Store α) :
    execL Γ env l st = execL Γ env l' st := by
  induction h generalizing st with
  | nil => rfl
  | cons x _ ih =>
    rw [execL_cons, execL_cons]
    cases execS Γ env x st with
    | none => rfl
    | some st1 => exact ih hl.tail st1
  | swap x y l =>
    have hcons : ∀ s, execL Γ env (s :: l) = fun st => (execS Γ env s st).bind (execL Γ env l) :=
      fun s => funext (fun st => execL_cons Γ env s l st)
    rw [execL_cons, execL_cons, hcons x, hcons y]
    have hy : isAcc y = true := hl.1 y (List.mem_cons_self ..)
    have hx : isAcc x = true := hl.1 x (List.mem_cons_of_mem _ (List.mem_cons_self ..))
    have h1 : accSrc x ≠ accTarget y := hl.2 x y (List.mem_cons_of_mem _ (List.mem_cons_self ..)) (List.mem_cons_self ..)
    have h2 : accSrc y ≠ accTarget x := hl.2 y x (List.mem_cons_self ..) (List.mem_cons_of_mem _ (List.mem_cons_self ..))
    have := execS_acc_comm Γ env hy hx h1 h2 st
    rw [← Option.bind_assoc, ← Option.bind_assoc, this]
  | trans h1 _ ih1 ih2 =>
    rw [ih1 hl st, ih2 (hl.perm h1) st]

/-- `Transpose` read as a gather: with the inverse renumbering `Q t`, cell `c` of the transposed array is cell `Q t c` of the operand -/
theorem eval_transp {Γ : Ctx α} {t : Nat} {e : E} (ht : TagOK Γ t e.size) (env : List Nat) {c : Nat} (hc : c < e.size) :
    eval Γ env (.transp t e) c = eval Γ env e (Γ.Q t c) := by
  simp only [eval]
  have hq := ht c hc
  have : gatherSum e.size (Γ.P t) (eval Γ env e) (Γ.P t (Γ.Q t c)) = eval Γ env e (Γ.Q t c) :=
    gatherSum_inj _ hq.2.1 (fun i j hi hj h => by
      have h1 := (ht i hi).2.2.1
      have h2 := (ht j hj).2.2.1
      rw [← h1, ← h2, h])
  rw [hq.2.2.2] at this
  exact this

end NutilsVerif.C02
