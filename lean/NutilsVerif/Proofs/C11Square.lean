import NutilsVerif.Proofs.C11Simplex
/-!
# C11 — scale-type items form a (trivially) reversible class: lookups with tails of child transforms, any tensor nesting
-/
namespace NutilsVerif.C11

/-- all well-formed scale-type items (children of any tensor product of simplices, identities, index roots): the class of
the tails "any number of child transformations" that the docstring of `index_with_tail` promises -/
def SquareItem : Item → Prop
  | .sq s => s.wf = true
  | _ => False

theorem squareItem_revSys : RevSys SquareItem where
  wf := by
    intro a h
    match a, h with
    | .sq s, h => exact h
  kind := by
    intro a h
    match a, h with
    | .sq s, _ => exact .inr ⟨rfl, rfl⟩
  up := by
    intro a b x y ga _ _ h
    match a, ga with
    | .sq s, _ => simp [Item.swapup] at h
  dn := by
    intro a b x y _ gb _ h
    match b, gb with
    | .sq s, _ => cases a <;> simp [Item.swapdown] at h

end NutilsVerif.C11
