import NutilsVerif.Generated.C04
import NutilsVerif.Proofs.C04Deriv
/-!
# C04 — the two derivative tables are true over ℝ (row by row; the rows of `Generated.table` are regenerated from the
running code on every run, so this file is re-checked against what the code computes)
-/
set_option linter.unusedSimpArgs false
set_option linter.unusedVariables false
namespace NutilsVerif.C04
open Real

/-- **Pointwise.deriv tables and generic scalar rules.**  For every row `(f, i, d)` extracted from the code whose
function name has a fixed real meaning, and every point `x` of the claimed domain of differentiability,
`t ↦ f(x with xᵢ := t)` has derivative `d(x)` at `xᵢ`. -/
theorem derivTable_sound_proof : ∀ e ∈ Generated.table, e.name ∈ provedNames → ∀ x : Nat → ℝ, Dom e.name e.pos x → e.SoundAt x := by
  intro e he hp x hd
  simp only [Generated.table, List.mem_cons, List.mem_nil_iff, or_false] at he
  rcases he with rfl | rfl | rfl | rfl | rfl | rfl | rfl | rfl | rfl | rfl | rfl | rfl | rfl | rfl | rfl | rfl | rfl | rfl | rfl | rfl | rfl | rfl | rfl | rfl | rfl | rfl | rfl | rfl | rfl | rfl | rfl | rfl
  · -- arccos 0
    simp [Entry.SoundAt, SE.sem, sem1, sem2, Dom, upd_01, upd_10] at hd ⊢
    have h := Real.hasDerivAt_arccos (ne_of_gt hd.1) (ne_of_lt hd.2)
    refine h.congr_deriv ?_
    rw [Real.rpow_neg_one, ← one_div (2:ℝ), ← Real.sqrt_eq_rpow, one_div, neg_add_eq_sub]
  · -- arcsin 0
    simp [Entry.SoundAt, SE.sem, sem1, sem2, Dom, upd_01, upd_10] at hd ⊢
    have h := Real.hasDerivAt_arcsin (ne_of_gt hd.1) (ne_of_lt hd.2)
    refine h.congr_deriv ?_
    rw [Real.rpow_neg_one, ← one_div (2:ℝ), ← Real.sqrt_eq_rpow, one_div, neg_add_eq_sub]
  · -- arctan 0
    simp [Entry.SoundAt, SE.sem, sem1, sem2, Dom, upd_01, upd_10] at hd ⊢
    refine (Real.hasDerivAt_arctan (x 0)).congr_deriv ?_
    rw [Real.rpow_neg_one, one_div, add_comm]
  · -- arctan2 0
    simp [Entry.SoundAt, SE.sem, sem1, sem2, Dom, upd_01, upd_10] at hd ⊢
    refine (hasDerivAt_arctan2_fst hd.1 hd.2).congr_deriv ?_
    rw [Real.rpow_neg_one]; ring_nf
  · -- arctan2 1
    simp [Entry.SoundAt, SE.sem, sem1, sem2, Dom, upd_01, upd_10] at hd ⊢
    refine (hasDerivAt_arctan2_snd hd.1 hd.2).congr_deriv ?_
    rw [Real.rpow_neg_one]; ring_nf
  · -- arctanh 0
    simp [Entry.SoundAt, SE.sem, sem1, sem2, Dom, upd_01, upd_10] at hd ⊢
    refine (hasDerivAt_artanh hd.1 hd.2).congr_deriv ?_
    rw [Real.rpow_neg_one, neg_add_eq_sub]
  · -- cos 0
    simp [Entry.SoundAt, SE.sem, sem1, sem2, Dom, upd_01, upd_10] at hd ⊢
    exact Real.hasDerivAt_cos (x 0)
  · -- cosh 0
    simp [Entry.SoundAt, SE.sem, sem1, sem2, Dom, upd_01, upd_10] at hd ⊢
    exact Real.hasDerivAt_cosh (x 0)
  · -- exp 0
    simp [Entry.SoundAt, SE.sem, sem1, sem2, Dom, upd_01, upd_10] at hd ⊢
    exact Real.hasDerivAt_exp (x 0)
  · -- log 0
    simp [Entry.SoundAt, SE.sem, sem1, sem2, Dom, upd_01, upd_10] at hd ⊢
    refine (Real.hasDerivAt_log (ne_of_gt hd)).congr_deriv ?_
    rw [Real.rpow_neg_one]
  · -- max 0
    simp [Entry.SoundAt, SE.sem, sem1, sem2, Dom, upd_01, upd_10] at hd ⊢
    refine (hasDerivAt_max_left hd).congr_deriv ?_
    rw [neg_add_eq_sub]; ring_nf
  · -- max 1
    simp [Entry.SoundAt, SE.sem, sem1, sem2, Dom, upd_01, upd_10] at hd ⊢
    refine (hasDerivAt_max_right hd).congr_deriv ?_
    rw [neg_add_eq_sub]; ring_nf
  · -- min 0
    simp [Entry.SoundAt, SE.sem, sem1, sem2, Dom, upd_01, upd_10] at hd ⊢
    refine (hasDerivAt_min_left hd).congr_deriv ?_
    rw [neg_add_eq_sub]; ring_nf
  · -- min 1
    simp [Entry.SoundAt, SE.sem, sem1, sem2, Dom, upd_01, upd_10] at hd ⊢
    refine (hasDerivAt_min_right hd).congr_deriv ?_
    rw [neg_add_eq_sub]; ring_nf
  · -- sin 0
    simp [Entry.SoundAt, SE.sem, sem1, sem2, Dom, upd_01, upd_10] at hd ⊢
    exact Real.hasDerivAt_sin (x 0)
  · -- sinh 0
    simp [Entry.SoundAt, SE.sem, sem1, sem2, Dom, upd_01, upd_10] at hd ⊢
    exact Real.hasDerivAt_sinh (x 0)
  · -- sinc0 0: not claimed (no real semantics fixed)
    simp [provedNames] at hp
  · -- tan 0
    simp [Entry.SoundAt, SE.sem, sem1, sem2, Dom, upd_01, upd_10] at hd ⊢
    refine (Real.hasDerivAt_tan hd).congr_deriv ?_
    rw [one_div]
  · -- tanh 0
    simp [Entry.SoundAt, SE.sem, sem1, sem2, Dom, upd_01, upd_10] at hd ⊢
    refine (hasDerivAt_tanh (x 0)).congr_deriv ?_
    ring_nf
  · -- reciprocal 0
    simp [Entry.SoundAt, SE.sem, sem1, sem2, Dom, upd_01, upd_10] at hd ⊢
    refine (Real.hasDerivAt_rpow_const (p := -1) (Or.inl hd)).congr_deriv ?_
    ring_nf
  · -- negative 0
    simp [Entry.SoundAt, SE.sem, sem1, sem2, Dom, upd_01, upd_10] at hd ⊢
    exact hasDerivAt_neg' (x 0)
  · -- sqrt 0
    simp [Entry.SoundAt, SE.sem, sem1, sem2, Dom, upd_01, upd_10] at hd ⊢
    refine (Real.hasDerivAt_rpow_const (p := 2⁻¹) (Or.inl (ne_of_gt hd))).congr_deriv ?_
    norm_num; ring_nf
  · -- abs 0
    simp [Entry.SoundAt, SE.sem, sem1, sem2, Dom, upd_01, upd_10] at hd ⊢
    exact hasDerivAt_sign_mul hd
  · -- power:3 0
    simp [Entry.SoundAt, SE.sem, sem1, sem2, Dom, upd_01, upd_10] at hd ⊢
    refine (hasDerivAt_pow 3 (x 0)).congr_deriv ?_
    norm_num; ring_nf
  · -- power:5/2 0
    simp [Entry.SoundAt, SE.sem, sem1, sem2, Dom, upd_01, upd_10] at hd ⊢
    refine (Real.hasDerivAt_rpow_const (p := 5/2) (Or.inl (ne_of_gt hd))).congr_deriv ?_
    norm_num; ring_nf
  · -- power:-2 0
    simp [Entry.SoundAt, SE.sem, sem1, sem2, Dom, upd_01, upd_10] at hd ⊢
    have h := ((hasDerivAt_pow 2 (x 0)).inv (pow_ne_zero 2 hd))
    refine h.congr_deriv ?_
    field_simp; ring_nf
  · -- divide 0
    simp [Entry.SoundAt, SE.sem, sem1, sem2, Dom, upd_01, upd_10] at hd ⊢
    exact ((hasDerivAt_id' (x 0)).const_mul (x 1 ^ (-1:ℝ))).congr_deriv (by ring)
  · -- divide 1
    simp [Entry.SoundAt, SE.sem, sem1, sem2, Dom, upd_01, upd_10] at hd ⊢
    refine ((Real.hasDerivAt_rpow_const (p := -1) (Or.inl hd)).mul_const (x 0)).congr_deriv ?_
    ring_nf
  · -- subtract 0
    simp [Entry.SoundAt, SE.sem, sem1, sem2, Dom, upd_01, upd_10] at hd ⊢
    exact ((hasDerivAt_id' (x 0)).const_add (-x 1))
  · -- subtract 1
    simp [Entry.SoundAt, SE.sem, sem1, sem2, Dom, upd_01, upd_10] at hd ⊢
    exact hasDerivAt_neg (x 1)
  · -- powvar 0
    simp [Entry.SoundAt, SE.sem, sem1, sem2, Dom, upd_01, upd_10] at hd ⊢
    have h0 : x 0 ≠ 0 := by
      rcases hd with h | h
      · exact ne_of_gt h
      · exact h.1
    refine (Real.hasDerivAt_rpow_const (p := x 1) (Or.inl h0)).congr_deriv ?_
    ring_nf
  · -- powvar 1
    simp [Entry.SoundAt, SE.sem, sem1, sem2, Dom, upd_01, upd_10] at hd ⊢
    refine (Real.hasStrictDerivAt_const_rpow hd (x 1)).hasDerivAt.congr_deriv ?_
    ring_nf

/-- **Specification rules.**  The rule table that the formal partial derivative `pderiv` applies to function atoms
consists of true partial derivatives (same statement as `derivTable_sound`, for the hand-written table). -/
theorem specRules_sound_proof : ∀ e ∈ specRules, e.name ∈ provedNames → ∀ x : Nat → ℝ, Dom e.name e.pos x → e.SoundAt x := by
  intro e he hp x hd
  simp only [specRules, List.mem_cons, List.mem_nil_iff, or_false] at he
  rcases he with rfl | rfl | rfl | rfl | rfl | rfl | rfl | rfl | rfl | rfl | rfl | rfl | rfl | rfl | rfl | rfl | rfl | rfl | rfl | rfl | rfl | rfl | rfl | rfl | rfl | rfl | rfl | rfl | rfl | rfl | rfl | rfl | rfl | rfl | rfl
  · -- sin 0
    simp [Entry.SoundAt, SE.sem, sem1, sem2, Dom, upd_01, upd_10] at hd ⊢
    exact Real.hasDerivAt_sin (x 0)
  · -- cos 0
    simp [Entry.SoundAt, SE.sem, sem1, sem2, Dom, upd_01, upd_10] at hd ⊢
    exact Real.hasDerivAt_cos (x 0)
  · -- tan 0
    simp [Entry.SoundAt, SE.sem, sem1, sem2, Dom, upd_01, upd_10] at hd ⊢
    refine (Real.hasDerivAt_tan hd).congr_deriv ?_
    rw [one_div]
  · -- arcsin 0
    simp [Entry.SoundAt, SE.sem, sem1, sem2, Dom, upd_01, upd_10] at hd ⊢
    have h := Real.hasDerivAt_arcsin (ne_of_gt hd.1) (ne_of_lt hd.2)
    refine h.congr_deriv ?_
    rw [Real.rpow_neg_one, ← one_div (2:ℝ), ← Real.sqrt_eq_rpow, one_div, ← sub_eq_add_neg]
  · -- arccos 0
    simp [Entry.SoundAt, SE.sem, sem1, sem2, Dom, upd_01, upd_10] at hd ⊢
    have h := Real.hasDerivAt_arccos (ne_of_gt hd.1) (ne_of_lt hd.2)
    refine h.congr_deriv ?_
    rw [Real.rpow_neg_one, ← one_div (2:ℝ), ← Real.sqrt_eq_rpow, one_div, ← sub_eq_add_neg]
  · -- arctan 0
    simp [Entry.SoundAt, SE.sem, sem1, sem2, Dom, upd_01, upd_10] at hd ⊢
    refine (Real.hasDerivAt_arctan (x 0)).congr_deriv ?_
    rw [Real.rpow_neg_one, one_div]
  · -- exp 0
    simp [Entry.SoundAt, SE.sem, sem1, sem2, Dom, upd_01, upd_10] at hd ⊢
    exact Real.hasDerivAt_exp (x 0)
  · -- log 0
    simp [Entry.SoundAt, SE.sem, sem1, sem2, Dom, upd_01, upd_10] at hd ⊢
    refine (Real.hasDerivAt_log (ne_of_gt hd)).congr_deriv ?_
    rw [Real.rpow_neg_one]
  · -- sinh 0
    simp [Entry.SoundAt, SE.sem, sem1, sem2, Dom, upd_01, upd_10] at hd ⊢
    exact Real.hasDerivAt_sinh (x 0)
  · -- cosh 0
    simp [Entry.SoundAt, SE.sem, sem1, sem2, Dom, upd_01, upd_10] at hd ⊢
    exact Real.hasDerivAt_cosh (x 0)
  · -- tanh 0
    simp [Entry.SoundAt, SE.sem, sem1, sem2, Dom, upd_01, upd_10] at hd ⊢
    refine (hasDerivAt_tanh (x 0)).congr_deriv ?_
    ring_nf
  · -- arctanh 0
    simp [Entry.SoundAt, SE.sem, sem1, sem2, Dom, upd_01, upd_10] at hd ⊢
    refine (hasDerivAt_artanh hd.1 hd.2).congr_deriv ?_
    rw [Real.rpow_neg_one, ← sub_eq_add_neg]
  · -- arctan2 0
    simp [Entry.SoundAt, SE.sem, sem1, sem2, Dom, upd_01, upd_10] at hd ⊢
    refine (hasDerivAt_arctan2_fst hd.1 hd.2).congr_deriv ?_
    rw [Real.rpow_neg_one]; ring_nf
  · -- arctan2 1
    simp [Entry.SoundAt, SE.sem, sem1, sem2, Dom, upd_01, upd_10] at hd ⊢
    refine (hasDerivAt_arctan2_snd hd.1 hd.2).congr_deriv ?_
    rw [Real.rpow_neg_one]; ring_nf
  · -- inv 0
    simp [Entry.SoundAt, SE.sem, sem1, sem2, Dom, upd_01, upd_10] at hd ⊢
    refine (hasDerivAt_inv hd).congr_deriv ?_
    rfl
  · -- pow 0
    simp [Entry.SoundAt, SE.sem, sem1, sem2, Dom, upd_01, upd_10] at hd ⊢
    have h0 : x 0 ≠ 0 := by
      rcases hd with h | h
      · exact ne_of_gt h
      · exact h.1
    refine (Real.hasDerivAt_rpow_const (p := x 1) (Or.inl h0)).congr_deriv ?_
    ring_nf
  · -- pow 1
    simp [Entry.SoundAt, SE.sem, sem1, sem2, Dom, upd_01, upd_10] at hd ⊢
    refine (Real.hasStrictDerivAt_const_rpow hd (x 1)).hasDerivAt.congr_deriv ?_
    ring_nf
  · -- abs 0
    simp [Entry.SoundAt, SE.sem, sem1, sem2, Dom, upd_01, upd_10] at hd ⊢
    exact hasDerivAt_abs' hd
  · -- sign 0
    simp [Entry.SoundAt, SE.sem, sem1, sem2, Dom, upd_01, upd_10] at hd ⊢
    exact hasDerivAt_sign hd
  · -- min 0
    simp [Entry.SoundAt, SE.sem, sem1, sem2, Dom, upd_01, upd_10] at hd ⊢
    refine (hasDerivAt_min_left hd).congr_deriv ?_
    rw [← sub_eq_add_neg]; ring_nf
  · -- min 1
    simp [Entry.SoundAt, SE.sem, sem1, sem2, Dom, upd_01, upd_10] at hd ⊢
    refine (hasDerivAt_min_right hd).congr_deriv ?_
    rw [← sub_eq_add_neg]; ring_nf
  · -- max 0
    simp [Entry.SoundAt, SE.sem, sem1, sem2, Dom, upd_01, upd_10] at hd ⊢
    refine (hasDerivAt_max_left hd).congr_deriv ?_
    rw [← sub_eq_add_neg]; ring_nf
  · -- max 1
    simp [Entry.SoundAt, SE.sem, sem1, sem2, Dom, upd_01, upd_10] at hd ⊢
    refine (hasDerivAt_max_right hd).congr_deriv ?_
    rw [← sub_eq_add_neg]; ring_nf
  · -- floor 0
    simp [Entry.SoundAt, SE.sem, sem1, sem2, Dom, upd_01, upd_10] at hd ⊢
    exact hasDerivAt_floor hd
  · -- not 0
    simp [Entry.SoundAt, SE.sem, sem1, sem2, Dom, upd_01, upd_10] at hd ⊢
    exact hasDerivAt_of_eventually_const (eq_eventually_const hd)
  · -- less 0
    simp [Entry.SoundAt, SE.sem, sem1, sem2, Dom, upd_01, upd_10] at hd ⊢
    exact hasDerivAt_of_eventually_const (lt_eventually_const hd)
  · -- less 1
    simp [Entry.SoundAt, SE.sem, sem1, sem2, Dom, upd_01, upd_10] at hd ⊢
    exact hasDerivAt_of_eventually_const (gt_eventually_const (Ne.symm hd))
  · -- greater 0
    simp [Entry.SoundAt, SE.sem, sem1, sem2, Dom, upd_01, upd_10] at hd ⊢
    exact hasDerivAt_of_eventually_const (gt_eventually_const hd)
  · -- greater 1
    simp [Entry.SoundAt, SE.sem, sem1, sem2, Dom, upd_01, upd_10] at hd ⊢
    exact hasDerivAt_of_eventually_const (lt_eventually_const (Ne.symm hd))
  · -- equal 0
    simp [Entry.SoundAt, SE.sem, sem1, sem2, Dom, upd_01, upd_10] at hd ⊢
    exact hasDerivAt_of_eventually_const (eq_eventually_const hd)
  · -- equal 1
    simp [Entry.SoundAt, SE.sem, sem1, sem2, Dom, upd_01, upd_10] at hd ⊢
    exact hasDerivAt_of_eventually_const (eq_eventually_const' (Ne.symm hd))
  · -- fdiv 0
    simp [Entry.SoundAt, SE.sem, sem1, sem2, Dom, upd_01, upd_10] at hd ⊢
    exact hasDerivAt_fdiv_left hd.2
  · -- fdiv 1
    simp [Entry.SoundAt, SE.sem, sem1, sem2, Dom, upd_01, upd_10] at hd ⊢
    exact hasDerivAt_fdiv_right hd.1 hd.2
  · -- fmod 0
    simp [Entry.SoundAt, SE.sem, sem1, sem2, Dom, upd_01, upd_10] at hd ⊢
    have h := (hasDerivAt_id' (x 0)).sub ((hasDerivAt_fdiv_left hd.2).const_mul (x 1))
    exact h.congr_deriv (by ring)
  · -- fmod 1
    simp [Entry.SoundAt, SE.sem, sem1, sem2, Dom, upd_01, upd_10] at hd ⊢
    have h := (hasDerivAt_const (x 1) (x 0)).sub ((hasDerivAt_id' (x 1)).mul (hasDerivAt_fdiv_right hd.1 hd.2))
    exact h.congr_deriv (by ring)

end NutilsVerif.C04
