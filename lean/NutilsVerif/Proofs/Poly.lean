import NutilsVerif.Core.Poly
import Mathlib.Data.Rat.Cast.CharZero
import Mathlib.Tactic.Ring
/-!
# Soundness of the polynomial normal-form arithmetic of `Core/Poly.lean`

`Poly.eval ρ p` is the value of the polynomial `p` in a characteristic-zero field `R` (ℚ, ℝ, …)
under an interpretation `ρ : String → R` of the atoms.  Every arithmetic operation of `Poly`
commutes with `eval`; no sortedness / well-formedness hypothesis is needed.
-/
namespace NutilsVerif

universe u
variable {R : Type u} [Field R]

/-- value of a monomial: `∏ (a,n) ∈ m, ρ a ^ n` -/
def Mono.eval (ρ : String → R) : Mono → R
  | [] => 1
  | an :: t => ρ an.1 ^ an.2 * Mono.eval ρ t

/-- value of a term list: `Σ (m,c) ∈ l, c * Mono.eval ρ m` -/
def Poly.evalTerms (ρ : String → R) : List (Mono × Rat) → R
  | [] => 0
  | mc :: t => (mc.2 : R) * Mono.eval ρ mc.1 + Poly.evalTerms ρ t

/-- value of a polynomial under the atom interpretation `ρ` -/
def Poly.eval (ρ : String → R) (p : Poly) : R := Poly.evalTerms ρ p.terms

namespace Mono

@[simp] theorem eval_nil (ρ : String → R) : Mono.eval ρ ([] : Mono) = 1 := rfl
@[simp] theorem eval_cons (ρ : String → R) (a : String) (n : Nat) (t : Mono) :
    Mono.eval ρ ((a, n) :: t) = ρ a ^ n * Mono.eval ρ t := rfl

theorem eval_eq_prod (ρ : String → R) (m : Mono) :
    Mono.eval ρ m = (m.map fun an => ρ an.1 ^ an.2).prod := by
  induction m with
  | nil => rfl
  | cons an t ih => cases an; simp [ih]

theorem eval_mul (ρ : String → R) (a b : Mono) :
    Mono.eval ρ (Mono.mul a b) = Mono.eval ρ a * Mono.eval ρ b := by
  fun_induction Mono.mul a b with
  | case1 t => simp
  | case2 s _ => simp
  | case3 a m s b n t h ih => simp only [eval_cons, ih]; ring
  | case4 a m s b n t h ih => simp only [eval_cons, ih]; ring
  | case5 a m s b n t h ih =>
    have hab : a = b := Std.LawfulEqOrd.eq_of_compare h
    subst hab
    simp only [eval_cons, ih, pow_add]; ring

theorem eq_of_cmp_eq : ∀ (a b : Mono), Mono.cmp a b = .eq → a = b
  | [], [], _ => rfl
  | [], _ :: _, h => by simp [Mono.cmp] at h
  | _ :: _, [], h => by simp [Mono.cmp] at h
  | (a, m) :: s, (b, n) :: t, h => by
    unfold Mono.cmp at h
    split at h
    · cases h
    · cases h
    · rename_i hab
      split at h
      · cases h
      · cases h
      · rename_i hmn
        rw [Std.LawfulEqOrd.eq_of_compare hab, Std.LawfulEqOrd.eq_of_compare hmn, eq_of_cmp_eq s t h]

end Mono

namespace Poly

@[simp] theorem evalTerms_nil (ρ : String → R) : evalTerms ρ [] = 0 := rfl
@[simp] theorem evalTerms_cons (ρ : String → R) (m : Mono) (c : Rat) (t : List (Mono × Rat)) :
    evalTerms ρ ((m, c) :: t) = (c : R) * Mono.eval ρ m + evalTerms ρ t := rfl
@[simp] theorem eval_mk (ρ : String → R) (l : List (Mono × Rat)) : eval ρ ⟨l⟩ = evalTerms ρ l := rfl

theorem evalTerms_eq_sum (ρ : String → R) (l : List (Mono × Rat)) :
    evalTerms ρ l = (l.map fun mc => (mc.2 : R) * Mono.eval ρ mc.1).sum := by
  induction l with
  | nil => rfl
  | cons mc t ih => cases mc; simp [ih]

variable [CharZero R]

theorem evalTerms_insertTerm (ρ : String → R) (m : Mono) (c : Rat) (l : List (Mono × Rat)) :
    evalTerms ρ (insertTerm m c l) = (c : R) * Mono.eval ρ m + evalTerms ρ l := by
  induction l with
  | nil =>
    unfold insertTerm
    split
    · rename_i h; simp at h; simp [h]
    · simp
  | cons mc t ih =>
    obtain ⟨m', c'⟩ := mc
    unfold insertTerm
    split
    · split
      · rename_i h; simp at h; simp [h]
      · simp
    · rename_i h
      have hm := Mono.eq_of_cmp_eq _ _ h
      subst hm
      split
      · rename_i h0
        have h0' : c + c' = 0 := by simpa using h0
        have : ((c + c' : Rat) : R) = 0 := by rw [h0']; simp
        rw [Rat.cast_add] at this
        simp only [evalTerms_cons]
        have hc : (c' : R) = -(c : R) := eq_neg_of_add_eq_zero_right this
        rw [hc]; ring
      · simp only [evalTerms_cons, Rat.cast_add]; ring
    · simp only [evalTerms_cons, ih]; ring

theorem eval_insertTerm (ρ : String → R) (m : Mono) (c : Rat) (l : List (Mono × Rat)) :
    eval ρ ⟨insertTerm m c l⟩ = (c : R) * Mono.eval ρ m + eval ρ ⟨l⟩ :=
  evalTerms_insertTerm ρ m c l

theorem evalTerms_addTerms (ρ : String → R) (a b : List (Mono × Rat)) :
    evalTerms ρ (addTerms a b) = evalTerms ρ a + evalTerms ρ b := by
  unfold addTerms
  induction a generalizing b with
  | nil => simp
  | cons mc t ih =>
    obtain ⟨m, c⟩ := mc
    simp only [List.foldl_cons, ih, evalTerms_insertTerm, evalTerms_cons]; ring

omit [CharZero R] in
theorem evalTerms_map_neg (ρ : String → R) (l : List (Mono × Rat)) :
    evalTerms ρ (l.map fun (m, c) => (m, -c)) = - evalTerms ρ l := by
  induction l with
  | nil => simp
  | cons mc t ih =>
    obtain ⟨m, c⟩ := mc
    simp only [List.map_cons, evalTerms_cons, ih, Rat.cast_neg]; ring

theorem evalTerms_map_scale (ρ : String → R) (c : Rat) (l : List (Mono × Rat)) :
    evalTerms ρ (l.map fun (m, d) => (m, c * d)) = (c : R) * evalTerms ρ l := by
  induction l with
  | nil => simp
  | cons mc t ih =>
    obtain ⟨m, d⟩ := mc
    simp only [List.map_cons, evalTerms_cons, ih, Rat.cast_mul]; ring

/-- inner loop of `mul`: one term of `p` times all of `q`, accumulated -/
theorem evalTerms_mulTerm (ρ : String → R) (m : Mono) (c : Rat) (q acc : List (Mono × Rat)) :
    evalTerms ρ (q.foldl (fun acc (m', c') => insertTerm (Mono.mul m m') (c * c') acc) acc)
      = (c : R) * Mono.eval ρ m * evalTerms ρ q + evalTerms ρ acc := by
  induction q generalizing acc with
  | nil => simp
  | cons mc t ih =>
    obtain ⟨m', c'⟩ := mc
    simp only [List.foldl_cons, ih, evalTerms_insertTerm, evalTerms_cons, Rat.cast_mul,
      Mono.eval_mul]; ring

theorem evalTerms_mulTerms (ρ : String → R) (p q acc : List (Mono × Rat)) :
    evalTerms ρ (p.foldl (fun acc (m, c) =>
        q.foldl (fun acc (m', c') => insertTerm (Mono.mul m m') (c * c') acc) acc) acc)
      = evalTerms ρ p * evalTerms ρ q + evalTerms ρ acc := by
  induction p generalizing acc with
  | nil => simp
  | cons mc t ih =>
    obtain ⟨m, c⟩ := mc
    simp only [List.foldl_cons, ih, evalTerms_mulTerm, evalTerms_cons]; ring

omit [CharZero R] in
theorem eval_zero (ρ : String → R) : eval ρ zero = 0 := rfl

omit [CharZero R] in
theorem eval_ofRat (ρ : String → R) (q : Rat) : eval ρ (ofRat q) = (q : R) := by
  unfold ofRat
  split
  · rename_i h
    have h' : q = 0 := by simpa using h
    simp [h']
  · simp

omit [CharZero R] in
theorem eval_one (ρ : String → R) : eval ρ one = 1 := by
  unfold one; rw [eval_ofRat]; simp

omit [CharZero R] in
theorem eval_ofInt (ρ : String → R) (z : Int) : eval ρ (ofInt z) = (z : R) := by
  unfold ofInt; rw [eval_ofRat]; simp

omit [CharZero R] in
theorem eval_atom (ρ : String → R) (k : String) : eval ρ (atom k) = ρ k := by
  simp [atom]

theorem eval_add (ρ : String → R) (p q : Poly) : eval ρ (add p q) = eval ρ p + eval ρ q :=
  evalTerms_addTerms ρ p.terms q.terms

omit [CharZero R] in
theorem eval_neg (ρ : String → R) (p : Poly) : eval ρ (neg p) = - eval ρ p :=
  evalTerms_map_neg ρ p.terms

theorem eval_sub (ρ : String → R) (p q : Poly) : eval ρ (sub p q) = eval ρ p - eval ρ q := by
  unfold sub; rw [eval_add, eval_neg]; ring

theorem eval_scale (ρ : String → R) (c : Rat) (p : Poly) :
    eval ρ (scale c p) = (c : R) * eval ρ p := by
  unfold scale
  split
  · rename_i h
    have h' : c = 0 := by simpa using h
    simp [h', eval_zero]
  · exact evalTerms_map_scale ρ c p.terms

theorem eval_mul (ρ : String → R) (p q : Poly) : eval ρ (mul p q) = eval ρ p * eval ρ q := by
  unfold mul
  rw [eval_mk, evalTerms_mulTerms]; simp [eval]

theorem eval_npow (ρ : String → R) (p : Poly) (n : Nat) : eval ρ (npow p n) = eval ρ p ^ n := by
  induction n with
  | zero => simp [npow, eval_one]
  | succ n ih => simp only [npow, eval_mul, ih, pow_succ]

omit [CharZero R] in
theorem eval_eq_of_terms_eq (ρ : String → R) {p q : Poly} (h : p.terms = q.terms) :
    eval ρ p = eval ρ q := by
  unfold eval; rw [h]

theorem terms_eq_of_beq {p q : Poly} (h : (p == q) = true) : p.terms = q.terms := by
  have h' : (p.terms == q.terms) = true := h
  exact eq_of_beq h'

theorem eq_of_beq' {p q : Poly} (h : (p == q) = true) : p = q := by
  cases p; cases q; simpa using terms_eq_of_beq h

omit [CharZero R] in
theorem beq_sound {p q : Poly} (h : (p == q) = true) (ρ : String → R) : eval ρ p = eval ρ q :=
  eval_eq_of_terms_eq ρ (terms_eq_of_beq h)

omit [CharZero R] in
theorem toRat?_sound {p : Poly} {q : Rat} (h : p.toRat? = some q) (ρ : String → R) :
    eval ρ p = (q : R) := by
  unfold toRat? at h
  split at h
  · rename_i h0
    cases h
    simp [eval, h0]
  · rename_i c h0
    cases h
    simp [eval, h0]
  · cases h

omit [CharZero R] in
theorem toInt?_sound {p : Poly} {z : Int} (h : p.toInt? = some z) (ρ : String → R) :
    eval ρ p = (z : R) := by
  unfold toInt? at h
  split at h
  · rename_i q hq
    split at h
    · rename_i hden
      cases h
      rw [toRat?_sound hq ρ]
      have hden' : q.den = 1 := by simpa using hden
      have : q = (q.num : Rat) := by
        have := Rat.num_div_den q
        rw [hden'] at this
        simpa using this.symm
      rw [this]; simp
    · cases h
  · cases h

omit [CharZero R] in
theorem isZero_sound {p : Poly} (h : p.isZero = true) (ρ : String → R) : eval ρ p = 0 := by
  have : p.terms = [] := by simpa [isZero] using h
  simp [eval, this]

/-- the operator instances are the named operations -/
theorem eval_hadd (ρ : String → R) (p q : Poly) : eval ρ (p + q) = eval ρ p + eval ρ q := eval_add ρ p q
theorem eval_hmul (ρ : String → R) (p q : Poly) : eval ρ (p * q) = eval ρ p * eval ρ q := eval_mul ρ p q
omit [CharZero R] in
theorem eval_hneg (ρ : String → R) (p : Poly) : eval ρ (-p) = - eval ρ p := eval_neg ρ p
theorem eval_hsub (ρ : String → R) (p q : Poly) : eval ρ (p - q) = eval ρ p - eval ρ q := eval_sub ρ p q
omit [CharZero R] in
theorem eval_ofNat (ρ : String → R) (n : Nat) : eval ρ (OfNat.ofNat n : Poly) = (n : R) := by
  show eval ρ (ofRat n) = _
  rw [eval_ofRat]; simp

end Poly
end NutilsVerif
