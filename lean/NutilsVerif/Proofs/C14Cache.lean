import NutilsVerif.Model.C14Cache
/-!
# C14 — helper lemmas for the sub-block cache of `Matrix.submatrix` (`Model/C14Cache.lean`)
-/
namespace NutilsVerif.C14

theorem sel_allTrue {α : Type} : ∀ (m : List Bool) (l : List α), allTrue m = true → m.length = l.length → sel m l = l := by
  intro m
  induction m with
  | nil => intro l _ h; cases l with | nil => rfl | cons a as => simp at h
  | cons b m ih =>
    intro l hm hl
    cases l with
    | nil => simp at hl
    | cons a as =>
      cases b with
      | false => simp [allTrue] at hm
      | true =>
        have hm' : allTrue m = true := by simpa [allTrue] using hm
        simp [sel, ih as hm' (by simpa using hl)]

theorem subMat_allTrue (A : Mat) (I J : List Bool) (hI : allTrue I = true) (hJ : allTrue J = true)
    (hA : HasShape A I.length J.length) : subMat I J A = A := by
  unfold subMat
  rw [sel_allTrue I A hI hA.1.symm]
  have : ∀ row ∈ A, sel J row = row := fun row hr => sel_allTrue J row hJ (hA.2 row hr).symm
  exact (List.map_congr_left this).trans (List.map_id A)

theorem submatrixM_valid (A : Mat) (st : Option SubCache) (I J : List Bool) (h : SubCache.valid A st) :
    SubCache.valid A (submatrixM A st I J).1 := by
  unfold submatrixM
  split
  · exact h
  · cases st with
    | none => simp [SubCache.valid]
    | some c =>
      simp only
      split
      · simp [SubCache.valid]
      · exact h

theorem submatrixM_val (A : Mat) (st : Option SubCache) (I J : List Bool) (h : SubCache.valid A st)
    (hall : (allTrue I && allTrue J) = true → subMat I J A = A) : (submatrixM A st I J).2.2 = subMat I J A := by
  unfold submatrixM
  split
  · next hc => exact (hall hc).symm
  · cases st with
    | none => rfl
    | some c =>
      simp only
      split
      · rfl
      · next hne =>
        have : I = c.rows ∧ J = c.cols := by simpa using hne
        simp only [SubCache.valid] at h
        rw [h, this.1, this.2]

theorem prepCols_length {ncols : Nat} {lhs0 : Option Vec} {cons : Option Cons} {lhs : Vec} {J : List Bool}
    (h : prepCols ncols lhs0 cons = .ok (lhs, J)) : J.length = ncols := by
  unfold prepCols at h
  simp only at h
  split at h
  · cases h
  · split at h
    · cases h; simp
    · split at h
      · cases h
      · next hlen => cases h; simp only [List.length_map]; omega
    · split at h
      · cases h
      · next hlen => cases h; simp only [List.length_map]; omega

theorem prepRows_length {nrows ncols : Nat} {J : List Bool} {cons : Option Cons} {rcons : Option (List Bool)} {I : List Bool}
    (hJ : J.length = ncols) (h : prepRows nrows ncols J cons rcons = .ok I) : I.length = nrows := by
  unfold prepRows at h
  split at h
  · split at h
    · cases h
    · cases h; omega
  · split at h
    · cases h
    · split at h
      · cases h
      · cases h
      · next hlen => cases h; simp only [List.length_map]; omega


theorem solveB_eq (nrm : Vec → F) (s : SolveIn) (blk : List Bool → List Bool → Mat)
    (h : ∀ I J, solveSel s = some (I, J) → blk I J = subMat I J s.A) : solveB nrm s blk = solveM nrm s := by
  unfold solveB solveM
  split
  · next b h1 h2 h3 h4 => simp only [h1, h2, h3, h4]
  · next h1 h2 h3 h4 => simp only [h1, h2, h3, h4]
  · next hfast1 hfast2 =>
    simp only
    cases hc : prepCols s.ncols s.lhs0 s.cons with
    | error e => rfl
    | ok p =>
      obtain ⟨lhs, J⟩ := p
      simp only
      cases hr : prepRows s.nrows s.ncols J s.cons s.rcons with
      | error e => rfl
      | ok I =>
        simp only
        have hsel : solveSel s = some (I, J) := by
          unfold solveSel
          split
          · next h1 h2 h3 =>
            cases hrhs : s.rhs with
            | none => exact (hfast2 hrhs h1 h2 h3).elim
            | some b => exact (hfast1 b hrhs h1 h2 h3).elim
          · simp [hc, hr]
        rw [h I J hsel]
        rfl

end NutilsVerif.C14
