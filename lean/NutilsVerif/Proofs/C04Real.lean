import NutilsVerif.Model.C04
import Mathlib.Analysis.SpecialFunctions.Trigonometric.Deriv
import Mathlib.Analysis.SpecialFunctions.Trigonometric.ArctanDeriv
import Mathlib.Analysis.SpecialFunctions.Trigonometric.InverseDeriv
import Mathlib.Analysis.SpecialFunctions.Trigonometric.DerivHyp
import Mathlib.Analysis.SpecialFunctions.ExpDeriv
import Mathlib.Analysis.SpecialFunctions.Log.Deriv
import Mathlib.Analysis.SpecialFunctions.Pow.Deriv
import Mathlib.Analysis.SpecialFunctions.Artanh
import Mathlib.Data.Real.Sign
/-!
# C04 — the meaning of the scalar language `SE` over ℝ and the basic derivative facts

`SE.sem x e` is the real number denoted by `e` when variable `i` has the value `x i`; function names are
the names of the engine's atoms (`Core/Poly.lean: Poly.app`) with the NumPy meaning restricted to ℝ:
`pow` is `Real.rpow`, `arctan2 y x` the angle of the point `(x, y)`, `fdiv x y = ⌊x / y⌋`,
`fmod x y = x - y ⌊x / y⌋`, comparisons are 0/1 valued.
-/
noncomputable section
namespace NutilsVerif.C04
open Real

/-- NumPy's `arctan2(y, x)` on ℝ × ℝ -/
def arctan2 (y x : ℝ) : ℝ :=
  if 0 < x then arctan (y / x)
  else if x < 0 then (if 0 ≤ y then arctan (y / x) + π else arctan (y / x) - π)
  else if 0 < y then π / 2 else if y < 0 then -(π / 2) else 0

def sem1 (f : String) (t : ℝ) : ℝ :=
  if f = "sin" then sin t else if f = "cos" then cos t else if f = "tan" then tan t
  else if f = "arcsin" then arcsin t else if f = "arccos" then arccos t else if f = "arctan" then arctan t
  else if f = "exp" then exp t else if f = "log" then log t
  else if f = "sinh" then sinh t else if f = "cosh" then cosh t else if f = "tanh" then tanh t
  else if f = "arctanh" then artanh t
  else if f = "sign" then Real.sign t else if f = "abs" then |t| else if f = "inv" then t⁻¹
  else if f = "floor" then (⌊t⌋ : ℝ) else if f = "not" then (if t = 0 then 1 else 0)
  else 0

def sem2 (f : String) (s t : ℝ) : ℝ :=
  if f = "arctan2" then arctan2 s t
  else if f = "min" then min s t else if f = "max" then max s t
  else if f = "less" then (if s < t then 1 else 0) else if f = "greater" then (if t < s then 1 else 0)
  else if f = "equal" then (if s = t then 1 else 0)
  else if f = "fdiv" then (⌊s / t⌋ : ℝ) else if f = "fmod" then s - t * (⌊s / t⌋ : ℝ)
  else 0

/-- the real number denoted by a scalar expression -/
def SE.sem (x : Nat → ℝ) : SE → ℝ
  | .var i => x i
  | .const n d => (n : ℝ) / (d : ℝ)
  | .add a b => a.sem x + b.sem x
  | .mul a b => a.sem x * b.sem x
  | .pow a b => a.sem x ^ b.sem x
  | .app1 f a => sem1 f (a.sem x)
  | .app2 f a b => sem2 f (a.sem x) (b.sem x)

/-- `e` is sound at `x`: the function `fn`, as a function of its variable `pos` with the other variables
fixed, has derivative `deriv` there -/
def Entry.SoundAt (e : Entry) (x : Nat → ℝ) : Prop :=
  HasDerivAt (fun t => e.fn.sem (Function.update x e.pos t)) (e.deriv.sem x) (x e.pos)


/-- the part of the domain of differentiability of each named function that is claimed (variable `pos` moves,
the others are fixed): inside the real domain of the NumPy function, away from kinks and branch cuts -/
def Dom (name : String) (pos : Nat) (x : Nat → ℝ) : Prop :=
  if name = "tan" then cos (x 0) ≠ 0
  else if name = "arcsin" ∨ name = "arccos" ∨ name = "arctanh" then -1 < x 0 ∧ x 0 < 1
  else if name = "log" ∨ name = "sqrt" ∨ name = "power:5/2" then 0 < x 0
  else if name = "arctan2" then x 1 ≠ 0 ∧ (0 < x 1 ∨ x 0 ≠ 0)
  else if name = "min" ∨ name = "max" ∨ name = "less" ∨ name = "greater" ∨ name = "equal" then x 0 ≠ x 1
  else if name = "reciprocal" ∨ name = "power:-2" ∨ name = "abs" ∨ name = "inv" ∨ name = "sign" ∨ name = "not" then x 0 ≠ 0
  else if name = "divide" then x 1 ≠ 0
  else if name = "powvar" ∨ name = "pow" then (if pos = 0 then (0 < x 0 ∨ (x 0 ≠ 0 ∧ ∃ n : ℤ, x 1 = n)) else 0 < x 0)
  else if name = "floor" then ∀ n : ℤ, x 0 ≠ n
  else if name = "fdiv" ∨ name = "fmod" then x 1 ≠ 0 ∧ ∀ n : ℤ, x 0 / x 1 ≠ n
  else True

/-- the function names whose real meaning is fixed by `sem1`/`sem2`/`SE.sem` and whose table rows are proved -/
def provedNames : List String :=
  ["sin", "cos", "tan", "arcsin", "arccos", "arctan", "exp", "log", "sinh", "cosh", "tanh", "arctanh", "arctan2", "min", "max",
   "reciprocal", "negative", "sqrt", "abs", "power:3", "power:5/2", "power:-2", "divide", "subtract", "powvar",
   "inv", "pow", "sign", "floor", "not", "less", "greater", "equal", "fdiv", "fmod"]

@[simp] theorem upd_same (x : Nat → ℝ) (i : Nat) (t : ℝ) : Function.update x i t i = t := by simp
theorem upd_01 (x : Nat → ℝ) (t : ℝ) : Function.update x 0 t 1 = x 1 := by simp [Function.update]
theorem upd_10 (x : Nat → ℝ) (t : ℝ) : Function.update x 1 t 0 = x 0 := by simp [Function.update]

end NutilsVerif.C04
