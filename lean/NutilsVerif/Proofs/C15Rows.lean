import NutilsVerif.Proofs.C15Valid
/-!
# C15 — the row view of CSR data: slices, `ofRows`, dense meaning, export, diagonal, row support
-/
namespace NutilsVerif.C15

/-! ### pointer lists and slices -/

theorem slicesBy_cons_cons {α : Type} (a b : Int) (t : List Int) (l : List α) :
    slicesBy (a :: b :: t) l = ((l.drop a.toNat).take (b - a).toNat) :: slicesBy (b :: t) l := by
  simp [slicesBy]

theorem slicesBy_single {α : Type} (a : Int) (l : List α) : slicesBy [a] l = [] := by simp [slicesBy]

theorem slicesBy_length {α : Type} (rp : List Int) (l : List α) : (slicesBy rp l).length = rp.length - 1 := by
  simp [slicesBy]

theorem ptrTail_length {α : Type} : ∀ (L : List (List α)) (s : Int), (ptrTail s L).length = L.length
  | [], _ => rfl
  | r :: t, s => by simp [ptrTail, ptrTail_length t]

/-- slicing a concatenation at the running end positions of its chunks gives the chunks back -/
theorem slices_ptr {α : Type} : ∀ (L : List (List α)) (pre : List α) (s : Nat), pre.length = s → ∀ post : List α,
    slicesBy ((s:Int) :: ptrTail (s:Int) L) (pre ++ L.flatten ++ post) = L
  | [], pre, s, _, post => by simp [ptrTail, slicesBy_single]
  | r :: t, pre, s, hs, post => by
    have ih := slices_ptr t (pre ++ r) (s + r.length) (by simp [hs]) post
    simp only [ptrTail, slicesBy_cons_cons]
    congr 1
    · have e1 : ((s:Int)).toNat = s := by simp
      have e2 : ((s:Int) + (r.length:Int) - (s:Int)).toNat = r.length := by omega
      rw [e1, e2, List.flatten_cons, List.append_assoc, List.drop_left' hs, List.append_assoc, List.take_left' rfl]
    · have e : ((s + r.length : Nat) : Int) = (s:Int) + (r.length : Int) := by simp
      rw [e] at ih
      have h2 : pre ++ (r :: t).flatten ++ post = pre ++ r ++ t.flatten ++ post := by simp [List.append_assoc]
      rw [h2]; exact ih

/-- conversely, slicing at a monotone pointer list partitions the covered range and reproduces the pointers -/
theorem slices_flatten {α : Type} (l : List α) : ∀ (t : List Int) (a L : Int), 0 ≤ a → monotone (a :: t) = true →
    (a :: t).getLast? = some L → L ≤ (l.length : Int) →
    ptrTail a (slicesBy (a :: t) l) = t ∧ (slicesBy (a :: t) l).flatten = (l.drop a.toNat).take (L - a).toNat
  | [], a, L, _, _, hl, _ => by
    simp at hl; subst hl
    simp [slicesBy_single, ptrTail]
  | b :: t', a, L, ha, hm, hl, hL => by
    have hb := pairs_bounds (b :: t') a L hm hl (a, b) (by simp)
    simp only [monotone, Bool.and_eq_true, decide_eq_true_eq] at hm
    have hl' : (b :: t').getLast? = some L := by simpa [List.getLast?_cons_cons] using hl
    obtain ⟨ih1, ih2⟩ := slices_flatten l t' b L (by omega) hm.2 hl' hL
    simp only at hb
    rw [slicesBy_cons_cons]
    have hlen : ((l.drop a.toNat).take (b - a).toNat).length = (b - a).toNat := length_slice l _ _ (by omega)
    constructor
    · simp only [ptrTail, hlen]
      have e : a + ((b - a).toNat : Int) = b := by omega
      rw [e, ih1]
    · rw [List.flatten_cons, ih2]
      have e : (L - a).toNat = (b - a).toNat + (L - b).toNat := by omega
      rw [e, List.take_add, List.drop_drop]
      have e2 : a.toNat + (b - a).toNat = b.toNat := by omega
      rw [e2]

theorem slicesBy_zip {α β : Type} (rp : List Int) (l₁ : List α) (l₂ : List β) :
    slicesBy rp (List.zip l₁ l₂) = List.zipWith List.zip (slicesBy rp l₁) (slicesBy rp l₂) := by
  unfold slicesBy
  rw [List.zipWith_map_left, List.zipWith_map_right, List.zipWith_self]
  apply List.map_congr_left
  intro p _
  simp only [List.zip, List.drop_zipWith, List.take_zipWith]

/-! ### the row view: `ofRows`, `entries`, `denseSum` -/

/-- row index of every stored entry, rows numbered from `i0` -/
def idxFrom {α : Type} (i0 : Nat) : List (List α) → List Nat
  | [] => []
  | r :: t => List.replicate r.length i0 ++ idxFrom (i0+1) t

/-- (row, column, value) of every stored entry, rows numbered from `i0` -/
def entriesFrom (i0 : Nat) : List Row → List (Nat × Int × Int)
  | [] => []
  | r :: t => r.map (fun p => (i0, p.1, p.2)) ++ entriesFrom (i0+1) t

theorem diffs_ptr {α : Type} : ∀ (L : List (List α)) (s : Int),
    List.zipWith (fun a b => (b - a).toNat) (s :: ptrTail s L) (ptrTail s L) = L.map List.length
  | [], _ => by simp [ptrTail]
  | r :: t, s => by
    have ih := diffs_ptr t (s + (r.length:Int))
    simp only [ptrTail, List.zipWith_cons_cons, List.map_cons, ih]
    congr 1
    omega

theorem expand_lengths {α : Type} : ∀ (L : List (List α)) (k : Nat),
    (((L.map List.length).zipIdx k).map fun (p : Nat × Nat) => List.replicate p.1 p.2).flatten = idxFrom k L
  | [], _ => by simp [idxFrom]
  | r :: t, k => by
    simp [idxFrom, List.zipIdx_cons, expand_lengths t (k+1)]

theorem rowidxOf_ptr {α : Type} (L : List (List α)) : rowidxOf (ptrOf L) = idxFrom 0 L := by
  unfold rowidxOf ptrOf
  simp only [List.tail_cons, diffs_ptr]
  exact expand_lengths L 0

theorem zip_row (i0 : Nat) : ∀ r : Row,
    List.zip (List.replicate r.length i0) (List.zip (r.map (·.1)) (r.map (·.2))) = r.map (fun p => (i0, p.1, p.2))
  | [] => by simp
  | p :: t => by simp [List.replicate_succ, zip_row i0 t]

theorem zip3_rows : ∀ (L : List Row) (i0 : Nat),
    List.zip (idxFrom i0 L) (List.zip (L.map (·.map (·.1))).flatten (L.map (·.map (·.2))).flatten) = entriesFrom i0 L
  | [], _ => by simp [idxFrom, entriesFrom]
  | r :: t, i0 => by
    simp only [idxFrom, entriesFrom, List.map_cons, List.flatten_cons]
    rw [List.zip_append (by simp), List.zip_append (by simp), zip_row, zip3_rows t (i0+1)]

theorem entries_ofRows (L : List Row) (nc : Nat) : entries (ofRows L nc) = entriesFrom 0 L := by
  unfold entries ofRows
  simp only [rowidxOf_ptr]
  exact zip3_rows L 0

theorem nrows_ofRows (L : List Row) (nc : Nat) : nrows (ofRows L nc) = L.length := by
  simp [nrows, ofRows, ptrOf, ptrTail_length]

theorem filter_entriesFrom (i : Nat) (j : Int) : ∀ (L : List Row) (i0 : Nat),
    (entriesFrom i0 L).filter (fun e => e.1 == i && e.2.1 == j) =
      if i0 ≤ i then ((L.getD (i - i0) []).filter (fun p => p.1 == j)).map (fun p => (i, p.1, p.2)) else []
  | [], i0 => by simp [entriesFrom]
  | r :: t, i0 => by
    simp only [entriesFrom, List.filter_append, List.filter_map, filter_entriesFrom i j t (i0+1)]
    by_cases h1 : i0 = i
    · subst h1
      have h3 : ¬ (i0 + 1 ≤ i0) := by omega
      simp [Function.comp_def, h3]
    · have hne : (i0 == i) = false := by simpa using h1
      by_cases h2 : i0 < i
      · have e : i - i0 = (i - (i0 + 1)) + 1 := by omega
        have h3 : i0 + 1 ≤ i := h2
        have h4 : i0 ≤ i := by omega
        simp [Function.comp_def, hne, h3, h4, e]
      · have h3 : ¬ (i0 + 1 ≤ i) := by omega
        have h4 : ¬ (i0 ≤ i) := by omega
        simp [Function.comp_def, hne, h3, h4]

theorem map_range_getD {α β : Type} (f : Nat → α → β) (d : α) (L : List α) :
    (List.range L.length).map (fun i => f i (L.getD i d)) = L.zipIdx.map (fun p => f p.2 p.1) := by
  apply List.ext_getElem
  · simp
  · intro i h1 h2
    simp at h1
    simp [List.getD_eq_getElem?_getD, h1]

/-- the additive dense meaning of stored rows is computed row by row -/
theorem denseSum_ofRows (L : List Row) (nc : Nat) : denseSum (ofRows L nc) = L.map (rowDense · nc) := by
  unfold denseSum
  rw [nrows_ofRows, entries_ofRows]
  have : ∀ i : Nat, (List.range (ofRows L nc).ncols).map (fun (j : Nat) =>
      (((entriesFrom 0 L).filter fun e => e.1 == i && e.2.1 == (j : Int)).map (·.2.2)).sum) = rowDense (L.getD i []) nc := by
    intro i
    unfold rowDense
    apply List.map_congr_left
    intro j _
    rw [filter_entriesFrom]
    simp [Function.comp_def]
  simp only [this]
  rw [map_range_getD (fun _ r => rowDense r nc) [] L]
  apply List.ext_getElem <;> simp

/-! ### validity in the row view -/

/-- a stored row is unambiguous: columns strictly increase and lie in `[0, nc)` -/
def rowOK (nc : Nat) (r : Row) : Prop :=
  strictInc (r.map (·.1)) = true ∧ ∀ p ∈ r, 0 ≤ p.1 ∧ p.1 < (nc:Int)

theorem total_length {α : Type} (L : List (List α)) : L.flatten.length = (L.map List.length).sum := List.length_flatten

theorem monotone_ptr {α : Type} : ∀ (L : List (List α)) (s : Int), monotone (s :: ptrTail s L) = true
  | [], _ => by simp [ptrTail, monotone]
  | r :: t, s => by
    simp only [ptrTail, monotone, Bool.and_eq_true, decide_eq_true_eq]
    exact ⟨by omega, monotone_ptr t _⟩

theorem last_ptr {α : Type} : ∀ (L : List (List α)) (s : Int),
    (s :: ptrTail s L).getLast? = some (s + (L.flatten.length : Int))
  | [], _ => by simp [ptrTail]
  | r :: t, s => by
    simp only [ptrTail, List.getLast?_cons_cons, last_ptr t, List.flatten_cons, List.length_append]
    congr 1
    simp [Int.add_assoc]

theorem rowptrOK_ptrOf {α : Type} (L : List (List α)) (n : Nat) (h : n = L.flatten.length) :
    rowptrOK (ptrOf L) n = true := by
  subst h
  rw [rowptrOK_iff]
  exact ⟨ptrTail 0 L, rfl, monotone_ptr L 0, by simpa [ptrOf] using last_ptr L 0⟩

theorem ptrTail_map {α β : Type} (f : α → β) : ∀ (L : List (List α)) (s : Int),
    ptrTail s (L.map (List.map f)) = ptrTail s L
  | [], _ => rfl
  | r :: t, s => by simp [ptrTail, ptrTail_map f t]

theorem slices_ofRows_map {β : Type} (f : Int × Int → β) (L : List Row) :
    slicesBy (ptrOf L) (L.map (·.map f)).flatten = L.map (·.map f) := by
  have := slices_ptr (L.map (List.map f)) [] 0 rfl []
  simp only [List.nil_append, List.append_nil, ptrTail_map] at this
  exact this

theorem length_values_ofRows (L : List Row) (nc : Nat) : (ofRows L nc).values.length = L.flatten.length := by
  simp [ofRows, List.length_flatten, Function.comp_def]

theorem length_colidx_ofRows (L : List Row) (nc : Nat) : (ofRows L nc).colidx.length = L.flatten.length := by
  simp [ofRows, List.length_flatten, Function.comp_def]

theorem validB_ofRows (L : List Row) (nc : Nat) : validB (ofRows L nc) = true ↔ ∀ r ∈ L, rowOK nc r := by
  unfold validB
  have h1 : rowptrOK (ofRows L nc).rowptr (ofRows L nc).values.length = true :=
    rowptrOK_ptrOf L _ (length_values_ofRows L nc)
  have h2 : ((ofRows L nc).colidx.length == (ofRows L nc).values.length) = true := by
    simp [length_values_ofRows, length_colidx_ofRows]
  have h3 : rowSlices (ofRows L nc).rowptr (ofRows L nc).colidx = L.map (·.map (·.1)) := by
    simp only [rowSlices, ofRows]; exact slices_ofRows_map _ L
  rw [h1, h2, h3]
  simp only [Bool.true_and, Bool.and_eq_true, colRangeOK, ofRows, List.all_flatten, List.all_map, List.all_eq_true,
    Function.comp_def, decide_eq_true_eq, rowOK]
  constructor
  · rintro ⟨ha, hb⟩ r hr
    exact ⟨hb r hr, fun p hp => ⟨(ha r hr p hp).1, of_decide_eq_true (ha r hr p hp).2⟩⟩
  · intro H
    exact ⟨fun r hr p hp => ⟨((H r hr).2 p hp).1, decide_eq_true ((H r hr).2 p hp).2⟩, fun r hr => (H r hr).1⟩

/-- every triple accepted by the specification is the storage of its rows -/
theorem ofRows_toRows (m : CSR) (h : validB m = true) : ofRows (toRows m) m.ncols = m := by
  unfold validB at h
  simp only [Bool.and_eq_true, beq_iff_eq] at h
  obtain ⟨⟨⟨hrp, hlen⟩, _⟩, _⟩ := h
  obtain ⟨t, hrpe, hm, hl⟩ := (rowptrOK_iff _ _).1 hrp
  have hz : (List.zip m.colidx m.values).length = m.values.length := by simp [hlen]
  rw [hrpe] at hm hl
  obtain ⟨e1, e2⟩ := slices_flatten (List.zip m.colidx m.values) t 0 m.values.length (by omega) hm hl (by omega)
  have e3 : (slicesBy (0 :: t) (List.zip m.colidx m.values)).flatten = List.zip m.colidx m.values := by
    rw [e2]; simp only [Int.sub_zero, Int.toNat_natCast, Int.toNat_zero, List.drop_zero]; rw [← hz, List.take_length]
  cases m with
  | mk vs rp ci nc =>
    simp only at hrpe hlen e1 e3 ⊢
    subst hrpe
    simp only [ofRows, toRows, ptrOf, e1, CSR.mk.injEq, and_true, true_and]
    rw [← List.map_flatten, ← List.map_flatten, e3]
    exact ⟨List.map_snd_zip (by omega), List.map_fst_zip (by omega)⟩

theorem valid_rows (m : CSR) (h : validB m = true) :
    ∃ L : List Row, m = ofRows L m.ncols ∧ ∀ r ∈ L, rowOK m.ncols r := by
  refine ⟨toRows m, (ofRows_toRows m h).symm, ?_⟩
  rw [← validB_ofRows, ofRows_toRows m h]; exact h

/-! ### no position is stored twice -/

theorem entriesFrom_row_ge : ∀ (L : List Row) (i0 : Nat), ∀ e ∈ entriesFrom i0 L, i0 ≤ e.1
  | [], _, e, h => by simp [entriesFrom] at h
  | r :: t, i0, e, h => by
    simp only [entriesFrom, List.mem_append, List.mem_map] at h
    rcases h with ⟨p, _, rfl⟩ | h
    · exact Nat.le_refl _
    · have := entriesFrom_row_ge t (i0+1) e h; omega

theorem positions_nodup_from : ∀ (L : List Row) (i0 : Nat), (∀ r ∈ L, strictInc (r.map (·.1)) = true) →
    ((entriesFrom i0 L).map fun e => (e.1, e.2.1)).Nodup
  | [], _, _ => by simp [entriesFrom]
  | r :: t, i0, h => by
    have ih := positions_nodup_from t (i0+1) (fun r hr => h r (List.mem_cons_of_mem _ hr))
    simp only [entriesFrom, List.map_append, List.map_map]
    rw [List.nodup_iff_pairwise_ne] at ih ⊢
    rw [List.pairwise_append]
    refine ⟨?_, ih, ?_⟩
    · have := (strictInc_iff_pairwise _).1 (h r (by simp))
      rw [List.pairwise_map] at this ⊢
      refine this.imp ?_
      intro a b hab he
      simp only [Function.comp, Prod.mk.injEq, true_and] at he
      omega
    · intro a ha b hb he
      simp only [List.mem_map, Function.comp] at ha hb
      obtain ⟨p, _, rfl⟩ := ha
      obtain ⟨e, he', rfl⟩ := hb
      have := entriesFrom_row_ge t (i0+1) e he'
      simp only [Prod.mk.injEq] at he
      omega

/-! ### export -/

theorem exportCOO_from : ∀ (d : Dense) (k : Nat),
    ((d.zipIdx k).map fun (p : List Int × Nat) => (nzRow p.1).map fun (q : Int × Int) => (p.2, q.1, q.2)).flatten
      = entriesFrom k (d.map nzRow)
  | [], _ => by simp [entriesFrom]
  | r :: t, k => by simp [List.zipIdx_cons, entriesFrom, exportCOO_from t (k+1)]

theorem exportCOO_eq (d : Dense) : exportCOO d = entriesFrom 0 (d.map nzRow) := exportCOO_from d 0

theorem entriesFrom_vals : ∀ (L : List Row) (i0 : Nat), (entriesFrom i0 L).map (·.2.2) = (L.map (·.map (·.2))).flatten
  | [], _ => by simp [entriesFrom]
  | r :: t, i0 => by simp [entriesFrom, entriesFrom_vals t (i0+1), Function.comp_def]

theorem entriesFrom_cols : ∀ (L : List Row) (i0 : Nat), (entriesFrom i0 L).map (·.2.1) = (L.map (·.map (·.1))).flatten
  | [], _ => by simp [entriesFrom]
  | r :: t, i0 => by simp [entriesFrom, entriesFrom_cols t (i0+1), Function.comp_def]

theorem entriesFrom_rows : ∀ (L : List Row) (i0 : Nat), (entriesFrom i0 L).map (·.1) = idxFrom i0 L
  | [], _ => by simp [entriesFrom, idxFrom]
  | r :: t, i0 => by simp [entriesFrom, idxFrom, entriesFrom_rows t (i0+1), Function.comp_def, List.map_const']

theorem idxFrom_ge {α : Type} : ∀ (L : List (List α)) (i0 : Nat), ∀ n ∈ idxFrom i0 L, i0 ≤ n
  | [], _, n, h => by simp [idxFrom] at h
  | r :: t, i0, n, h => by
    simp only [idxFrom, List.mem_append, List.mem_replicate] at h
    rcases h with h | h
    · omega
    · have := idxFrom_ge t (i0+1) n h; omega

/-- number of stored entries in rows before row `x` -/
def cntBelow {α : Type} (i0 : Nat) (L : List (List α)) (x : Nat) : Nat :=
  ((idxFrom i0 L).filter fun n => decide (n < x)).length

theorem cntBelow_zero {α : Type} (i0 : Nat) (L : List (List α)) : cntBelow i0 L i0 = 0 := by
  unfold cntBelow
  rw [List.length_eq_zero_iff, List.filter_eq_nil_iff]
  intro n hn
  have := idxFrom_ge L i0 n hn
  simp; omega

theorem cntBelow_cons {α : Type} (i0 : Nat) (r : List α) (t : List (List α)) (k : Nat) :
    cntBelow i0 (r :: t) (i0 + (k+1)) = r.length + cntBelow (i0+1) t (i0 + 1 + k) := by
  unfold cntBelow
  have e : i0 + (k+1) = i0 + 1 + k := by omega
  have h : decide (i0 < i0 + 1 + k) = true := by simp; omega
  simp only [idxFrom, List.filter_append, List.filter_replicate, List.length_append, e, h]
  simp

/-- `searchsorted` of the row numbers in the row-major entry list gives the running row ends -/
theorem searchsorted_ptr {α : Type} : ∀ (L : List (List α)) (i0 : Nat) (s : Int),
    (List.range (L.length+1)).map (fun k => s + (cntBelow i0 L (i0 + k) : Int)) = s :: ptrTail s L
  | [], i0, s => by simp [cntBelow, idxFrom, ptrTail]
  | r :: t, i0, s => by
    have ih := searchsorted_ptr t (i0+1) (s + (r.length:Int))
    rw [List.length_cons, List.range_succ_eq_map, List.map_cons, List.map_map]
    simp only [Nat.add_zero, cntBelow_zero, ptrTail]
    congr 1
    · simp
    · rw [← ih]
      apply List.map_congr_left
      intro k _
      simp only [Function.comp, Nat.succ_eq_add_one, cntBelow_cons]
      simp [Int.add_assoc]

theorem searchsortedAll_entries (L : List Row) :
    searchsortedAll ((entriesFrom 0 L).map fun e => (e.1 : Int)) L.length = ptrOf L := by
  unfold searchsortedAll ptrOf
  rw [← searchsorted_ptr L 0 0]
  apply List.map_congr_left
  intro k _
  have : (entriesFrom 0 L).map (fun e => (e.1 : Int)) = (idxFrom 0 L).map (fun (n : Nat) => (n:Int)) := by
    rw [← entriesFrom_rows, List.map_map]; rfl
  rw [this, List.filter_map, List.length_map]
  simp [cntBelow, Function.comp_def]

/-- the CSR export of a dense array is the storage of its non-zero entries, row by row -/
theorem exportCSR_eq (d : Dense) (nc : Nat) : exportCSR d nc = ofRows (d.map nzRow) nc := by
  unfold exportCSR
  simp only [exportCOO_eq, entriesFrom_vals, entriesFrom_cols]
  have := searchsortedAll_entries (d.map nzRow)
  rw [List.length_map] at this
  rw [this]
  rfl

theorem exportCOO_entries (d : Dense) (nc : Nat) : exportCOO d = entries (exportCSR d nc) := by
  rw [exportCSR_eq, entries_ofRows, exportCOO_eq]

/-- non-zero entries of a dense row with columns numbered from `k` -/
def nzFrom (k : Nat) (row : List Int) : Row :=
  ((row.zipIdx k).filter fun p => p.1 != 0).map fun p => ((p.2 : Int), p.1)

theorem nzFrom_cons (k : Nat) (a : Int) (t : List Int) :
    nzFrom k (a :: t) = if a != 0 then ((k:Int), a) :: nzFrom (k+1) t else nzFrom (k+1) t := by
  unfold nzFrom
  rw [List.zipIdx_cons, List.filter_cons]
  split <;> simp

theorem nzFrom_mem : ∀ (row : List Int) (k : Nat), ∀ p ∈ nzFrom k row, (k:Int) ≤ p.1 ∧ p.1 < ((k + row.length : Nat) : Int)
  | [], _, p, h => by simp [nzFrom] at h
  | a :: t, k, p, h => by
    rw [nzFrom_cons] at h
    have ih := nzFrom_mem t (k+1) p
    simp only [List.length_cons]
    split at h
    · rcases List.mem_cons.1 h with rfl | h
      · simp; omega
      · have := ih h; omega
    · have := ih h; omega

theorem nzFrom_strictInc : ∀ (row : List Int) (k : Nat), ((nzFrom k row).map (·.1)).Pairwise (· < ·)
  | [], _ => by simp [nzFrom]
  | a :: t, k => by
    rw [nzFrom_cons]
    have ih := nzFrom_strictInc t (k+1)
    split
    · rw [List.map_cons, List.pairwise_cons]
      refine ⟨?_, ih⟩
      intro c hc
      obtain ⟨p, hp, rfl⟩ := List.mem_map.1 hc
      have := nzFrom_mem t (k+1) p hp
      simp only; omega
    · exact ih

theorem nzFrom_sum (j : Nat) : ∀ (row : List Int) (k : Nat),
    (((nzFrom k row).filter fun p => p.1 == (j:Int)).map (·.2)).sum =
      if k ≤ j ∧ j < k + row.length then row.getD (j - k) 0 else 0
  | [], k => by simp [nzFrom]
  | a :: t, k => by
    rw [nzFrom_cons]
    have ih := nzFrom_sum j t (k+1)
    by_cases hkj : k = j
    · subst hkj
      have h0 : ¬ (k + 1 ≤ k ∧ k < k + 1 + t.length) := by omega
      rw [if_neg h0] at ih
      by_cases ha : a = 0
      · subst ha; simp [ih]
      · have : (a != 0) = true := by simpa using ha
        simp [this, ih]
    · have hne : (((k:Int) == (j:Int))) = false := by simp; omega
      have hrest : (((if a != 0 then ((k:Int), a) :: nzFrom (k+1) t else nzFrom (k+1) t).filter fun p => p.1 == (j:Int)).map (·.2)).sum
          = (((nzFrom (k+1) t).filter fun p => p.1 == (j:Int)).map (·.2)).sum := by
        split
        · rw [List.filter_cons]; simp [hne]
        · rfl
      rw [hrest, ih]
      by_cases h1 : k + 1 ≤ j ∧ j < k + 1 + t.length
      · have h2 : k ≤ j ∧ j < k + (a :: t).length := by simp; omega
        rw [if_pos h1, if_pos h2]
        have e : j - k = (j - (k+1)) + 1 := by omega
        rw [e, List.getD_cons_succ]
      · have h2 : ¬ (k ≤ j ∧ j < k + (a :: t).length) := by simp; omega
        rw [if_neg h1, if_neg h2]

theorem rowDense_nzRow (row : List Int) : rowDense (nzRow row) row.length = row := by
  unfold rowDense
  have : nzRow row = nzFrom 0 row := rfl
  apply List.ext_getElem
  · simp
  · intro j h1 h2
    simp only [List.length_map, List.length_range] at h1
    simp only [List.getElem_map, List.getElem_range, this, nzFrom_sum]
    simp [h1, List.getD_eq_getElem?_getD]

theorem rowOK_nzRow (row : List Int) : rowOK row.length (nzRow row) := by
  refine ⟨(strictInc_iff_pairwise _).2 (nzFrom_strictInc row 0), ?_⟩
  intro p hp
  have := nzFrom_mem row 0 p hp
  simp at this; omega

/-! ### diagonal and row support -/

theorem slicesBy_getD {α : Type} (l : List α) : ∀ (rp : List Int) (i : Nat), i + 1 < rp.length →
    (slicesBy rp l).getD i [] = (l.drop (rp.getD i 0).toNat).take (rp.getD (i+1) 0 - rp.getD i 0).toNat
  | [], _, h => by simp at h
  | [_], _, h => by simp at h
  | a :: b :: t, 0, _ => by simp [slicesBy_cons_cons]
  | a :: b :: t, i+1, h => by
    rw [slicesBy_cons_cons, List.getD_cons_succ, slicesBy_getD l (b :: t) i (by simpa using h)]
    simp

/-- the per-row step of `Matrix.diagonal` on a stored row -/
def pick (r : Row) (x : Int) : Int :=
  let k := searchsortedLeft (r.map (·.1)) x
  if k < (r.map (·.1)).length && (r.map (·.1)).getD k 0 == x then (r.map (·.2)).getD k 0 else 0

theorem csrDiagonal_ofRows (L : List Row) (nc : Nat) :
    csrDiagonal (ofRows L nc) = L.zipIdx.map fun p => pick p.1 (p.2 : Int) := by
  unfold csrDiagonal
  rw [nrows_ofRows, ← map_range_getD (fun i r => pick r (i:Int)) [] L]
  apply List.map_congr_left
  intro i hi
  have hi : i < L.length := by simpa using hi
  have hlen : i + 1 < (ptrOf L).length := by simp [ptrOf, ptrTail_length]; omega
  have hc := slicesBy_getD (ofRows L nc).colidx (ptrOf L) i hlen
  have hv := slicesBy_getD (ofRows L nc).values (ptrOf L) i hlen
  have hc' : slicesBy (ptrOf L) (ofRows L nc).colidx = L.map (·.map (·.1)) := slices_ofRows_map _ L
  have hv' : slicesBy (ptrOf L) (ofRows L nc).values = L.map (·.map (·.2)) := slices_ofRows_map _ L
  rw [hc'] at hc; rw [hv'] at hv
  have gc : (L.map (·.map (·.1))).getD i [] = (L.getD i []).map (·.1) := by
    simp [List.getD_eq_getElem?_getD, hi]
  have gv : (L.map (·.map (·.2))).getD i [] = (L.getD i []).map (·.2) := by
    simp [List.getD_eq_getElem?_getD, hi]
  rw [gc] at hc; rw [gv] at hv
  have hrp : (ofRows L nc).rowptr = ptrOf L := rfl
  simp only [hrp, ← hc]
  unfold pick
  simp only
  split
  · rename_i hcond
    simp only [Bool.and_eq_true, decide_eq_true_eq] at hcond
    have hk := hcond.1
    rw [hv]
    have hk2 : searchsortedLeft (List.map (fun x => x.fst) (L.getD i [])) ↑i <
        ((ptrOf L).getD (i + 1) 0 - (ptrOf L).getD i 0).toNat := by
      have := congrArg List.length hc
      rw [List.length_take] at this
      omega
    rw [getD_slice _ _ _ _ hk2]
  · rfl

theorem pick_spec (x : Int) : ∀ r : Row, (r.map (·.1)).Pairwise (· < ·) →
    pick r x = ((r.filter fun p => p.1 == x).map (·.2)).sum
  | [], _ => by simp [pick, searchsortedLeft]
  | (c, v) :: t, h => by
    have hp := List.pairwise_cons.1 (show List.Pairwise (· < ·) (c :: t.map (·.1)) from h)
    have ih := pick_spec x t hp.2
    by_cases hlt : c < x
    · -- the head is before the wanted column: shift by one
      have hne : (c == x) = false := by simp; omega
      rw [List.filter_cons]
      simp only [hne, Bool.false_eq_true, if_false]
      rw [← ih]
      unfold pick searchsortedLeft
      simp only [List.map_cons, List.filter_cons, hlt, decide_true, if_true, List.length_cons,
        List.getD_cons_succ, Nat.add_lt_add_iff_right]
    · -- all later columns are larger than x
      have hgt : ∀ p ∈ t, x < p.1 := by
        intro p hp'
        have := hp.1 p.1 (List.mem_map_of_mem hp')
        omega
      have hnil : t.filter (fun p => p.1 == x) = [] := by
        rw [List.filter_eq_nil_iff]; intro p hp'; have := hgt p hp'; simp; omega
      have hcnt : (t.map (·.1)).filter (fun y => decide (y < x)) = [] := by
        rw [List.filter_eq_nil_iff]; intro y hy
        obtain ⟨p, hp', rfl⟩ := List.mem_map.1 hy
        have := hgt p hp'; simp; omega
      rw [List.filter_cons, hnil]
      unfold pick searchsortedLeft
      simp only [List.map_cons, List.filter_cons, hlt, decide_false, Bool.false_eq_true, if_false, hcnt,
        List.length_nil, List.length_cons, Nat.zero_lt_succ, decide_true, Bool.true_and]
      by_cases he : c = x
      · subst he; simp
      · have hne : (c == x) = false := by simpa using he
        simp [hne]

theorem rowDense_getD (r : Row) (nc i : Nat) (h : ∀ p ∈ r, p.1 < (nc:Int)) :
    (rowDense r nc).getD i 0 = ((r.filter fun p => p.1 == (i:Int)).map (·.2)).sum := by
  unfold rowDense
  by_cases hi : i < nc
  · simp [List.getD_eq_getElem?_getD, hi]
  · have : r.filter (fun p => p.1 == (i:Int)) = [] := by
      rw [List.filter_eq_nil_iff]; intro p hp; have := h p hp; simp; omega
    simp [List.getD_eq_getElem?_getD, hi, this]

theorem dDiag_rows (L : List Row) (nc : Nat) (h : ∀ r ∈ L, rowOK nc r) :
    dDiag (L.map (rowDense · nc)) = L.zipIdx.map fun p => pick p.1 (p.2 : Int) := by
  unfold dDiag
  rw [List.zipIdx_map, List.map_map]
  apply List.map_congr_left
  intro p hp
  have hm : p.1 ∈ L := by
    have := List.mem_zipIdx (x := p.1) (i := p.2) (by simpa using hp)
    rw [this.2.2]; exact List.getElem_mem _
  have hr := h p.1 hm
  simp only [Function.comp, Prod.map, id]
  rw [rowDense_getD _ _ _ (fun q hq => (hr.2 q hq).2), pick_spec _ _ ((strictInc_iff_pairwise _).1 hr.1)]

theorem any_entriesFrom (i : Nat) (q : Int → Bool) : ∀ (L : List Row) (i0 : Nat),
    (entriesFrom i0 L).any (fun e => e.1 == i && q e.2.2) =
      (decide (i0 ≤ i) && (L.getD (i - i0) []).any (fun p => q p.2))
  | [], i0 => by simp [entriesFrom]
  | r :: t, i0 => by
    simp only [entriesFrom, List.any_append, List.any_map, any_entriesFrom i q t (i0+1)]
    by_cases h1 : i0 = i
    · subst h1
      have h3 : ¬ (i0 + 1 ≤ i0) := by omega
      simp [Function.comp_def, h3]
    · have hne : (i0 == i) = false := by simpa using h1
      by_cases h2 : i0 < i
      · have e : i - i0 = (i - (i0 + 1)) + 1 := by omega
        have h3 : i0 + 1 ≤ i := h2
        have h4 : i0 ≤ i := by omega
        simp [Function.comp_def, hne, h3, h4, e]
      · have h3 : ¬ (i0 + 1 ≤ i) := by omega
        have h4 : ¬ (i0 ≤ i) := by omega
        simp [Function.comp_def, hne, h3, h4]

theorem cooRowsupp_rows (L : List Row) (tol : Nat) :
    cooRowsupp (entriesFrom 0 L) L.length tol = L.map fun r => r.any fun p => decide (tol < p.2.natAbs) := by
  unfold cooRowsupp
  simp only [any_entriesFrom _ (fun v => decide (tol < v.natAbs)), Nat.zero_le, decide_true, Bool.true_and, Nat.sub_zero]
  rw [map_range_getD (fun _ r => r.any fun p => decide (tol < p.2.natAbs)) [] L]
  apply List.ext_getElem <;> simp

theorem filter_single : ∀ (r : Row), (r.map (·.1)).Pairwise (· < ·) → ∀ p ∈ r, r.filter (fun q => q.1 == p.1) = [p]
  | [], _, p, hp => by simp at hp
  | (c, v) :: t, h, p, hp => by
    have hpw := List.pairwise_cons.1 (show List.Pairwise (· < ·) (c :: t.map (·.1)) from h)
    rcases List.mem_cons.1 hp with rfl | hp
    · have : t.filter (fun q => q.1 == c) = [] := by
        rw [List.filter_eq_nil_iff]; intro q hq
        have := hpw.1 q.1 (List.mem_map_of_mem hq); simp; omega
      simp [this]
    · have hlt := hpw.1 p.1 (List.mem_map_of_mem hp)
      have hne : (c == p.1) = false := by simp; omega
      rw [List.filter_cons]
      simp only [hne, Bool.false_eq_true, if_false]
      exact filter_single t hpw.2 p hp

theorem filter_col_cases (r : Row) (h : (r.map (·.1)).Pairwise (· < ·)) (x : Int) :
    r.filter (fun q => q.1 == x) = [] ∨ ∃ p ∈ r, p.1 = x ∧ r.filter (fun q => q.1 == x) = [p] := by
  by_cases hex : ∃ p ∈ r, p.1 = x
  · obtain ⟨p, hp, rfl⟩ := hex
    exact Or.inr ⟨p, hp, rfl, filter_single r h p hp⟩
  · refine Or.inl ?_
    rw [List.filter_eq_nil_iff]; intro q hq hqx
    exact hex ⟨q, hq, by simpa using hqx⟩

theorem rowDense_any (r : Row) (nc tol : Nat) (h : rowOK nc r) :
    (rowDense r nc).any (fun v => decide (tol < v.natAbs)) = r.any fun p => decide (tol < p.2.natAbs) := by
  have hpw := (strictInc_iff_pairwise _).1 h.1
  rw [Bool.eq_iff_iff, List.any_eq_true, List.any_eq_true]
  constructor
  · rintro ⟨v, hv, hvt⟩
    unfold rowDense at hv
    obtain ⟨j, _, rfl⟩ := List.mem_map.1 hv
    rcases filter_col_cases r hpw (j:Int) with h0 | ⟨p, hp, _, h1⟩
    · rw [h0] at hvt; simp at hvt
    · rw [h1] at hvt
      exact ⟨p, hp, by simpa using hvt⟩
  · rintro ⟨p, hp, hpt⟩
    have hb := h.2 p hp
    refine ⟨p.2, ?_, hpt⟩
    unfold rowDense
    refine List.mem_map.2 ⟨p.1.toNat, by simp; omega, ?_⟩
    have e : ((p.1.toNat : Nat) : Int) = p.1 := by omega
    rw [e, filter_single r hpw p hp]
    simp

theorem dRowsupp_rows (L : List Row) (nc tol : Nat) (h : ∀ r ∈ L, rowOK nc r) :
    dRowsupp (L.map (rowDense · nc)) tol = L.map fun r => r.any fun p => decide (tol < p.2.natAbs) := by
  unfold dRowsupp
  rw [List.map_map]
  apply List.map_congr_left
  intro r hr
  exact rowDense_any r nc tol (h r hr)

end NutilsVerif.C15
