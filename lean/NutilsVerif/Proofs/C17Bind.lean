import NutilsVerif.Model.C17.Intern
/-!
# C17 — every route of passing arguments binds to the same canonical argument list; canonical int64 data
-/
namespace NutilsVerif.C17

variable {α : Type}

/-- `kw` is a legal way of passing (some of) the parameters `post` by keyword: every keyword names a parameter
of `post` and carries its intended value; every parameter of `post` that is not named has its intended value as
default -/
structure Covers (post : List (Param α × α)) (kw : List (String × α)) : Prop where
  kw_ok : ∀ e ∈ kw, ∃ q ∈ post, q.1.name = e.1 ∧ q.2 = e.2
  post_ok : ∀ q ∈ post, (∃ e ∈ kw, e.1 = q.1.name) ∨ q.1.default = some q.2

theorem bind_keywords : ∀ (post : List (Param α × α)) (kw : List (String × α)),
    (post.map (·.1.name)).Nodup → Covers post kw →
    bindGo (post.map (·.1)) [] kw = .ok (post.map (·.2))
  | [], kw, _, c => by
    cases kw with
    | nil => simp [bindGo]
    | cons e kw =>
      obtain ⟨q, hq, _⟩ := c.kw_ok e List.mem_cons_self
      simp at hq
  | q :: post, kw, hn, c => by
    simp only [List.map_cons, List.nodup_cons, List.mem_map, not_exists, not_and] at hn
    simp only [List.map_cons, bindGo]
    split
    · rename_i e he
      have hmem := List.mem_of_find?_eq_some he
      have hname : e.1 = q.1.name := by simpa using List.find?_some he
      obtain ⟨q', hq', hq'n, hq'v⟩ := c.kw_ok e hmem
      have hqq : q' = q := by
        rcases List.mem_cons.mp hq' with h | h
        · exact h
        · exact absurd (hq'n.trans hname) (hn.1 q' h)
      subst hqq
      have ih := bind_keywords post (kw.filter (fun e => e.1 ≠ q'.1.name)) hn.2 ⟨?_, ?_⟩
      · rw [ih, ← hq'v]; rfl
      · intro e' he'
        simp only [List.mem_filter, decide_eq_true_eq] at he'
        obtain ⟨q2, hq2, h2n, h2v⟩ := c.kw_ok e' he'.1
        rcases List.mem_cons.mp hq2 with h | h
        · subst h; exact absurd h2n.symm he'.2
        · exact ⟨q2, h, h2n, h2v⟩
      · intro q2 hq2
        rcases c.post_ok q2 (List.mem_cons_of_mem _ hq2) with ⟨e', he', he'n⟩ | h
        · left
          refine ⟨e', ?_, he'n⟩
          simp only [List.mem_filter, decide_eq_true_eq]
          exact ⟨he', fun h => hn.1 q2 hq2 (he'n.symm.trans h)⟩
        · exact .inr h
    · rename_i hnone
      simp only [List.find?_eq_none, decide_eq_true_eq] at hnone
      have hd : q.1.default = some q.2 := by
        rcases c.post_ok q List.mem_cons_self with ⟨e', he', he'n⟩ | h
        · exact absurd he'n (hnone e' he')
        · exact h
      rw [hd]
      have ih := bind_keywords post kw hn.2 ⟨?_, ?_⟩
      · simp only [ih]; rfl
      · intro e' he'
        obtain ⟨q2, hq2, h2n, h2v⟩ := c.kw_ok e' he'
        rcases List.mem_cons.mp hq2 with h | h
        · subst h; exact absurd h2n.symm (hnone e' he')
        · exact ⟨q2, h, h2n, h2v⟩
      · intro q2 hq2
        exact c.post_ok q2 (List.mem_cons_of_mem _ hq2)

theorem bind_positional_then_keywords : ∀ (pre post : List (Param α × α)) (kw : List (String × α)),
    ((pre ++ post).map (·.1.name)).Nodup → Covers post kw →
    bindGo ((pre ++ post).map (·.1)) (pre.map (·.2)) kw = .ok ((pre ++ post).map (·.2))
  | [], post, kw, hn, c => by simpa using bind_keywords post kw (by simpa using hn) c
  | p :: pre, post, kw, hn, c => by
    simp only [List.cons_append, List.map_cons, List.nodup_cons, List.mem_map, not_exists, not_and] at hn
    simp only [List.cons_append, List.map_cons, bindGo]
    have hno : kw.any (fun e => decide (e.1 = p.1.name)) = false := by
      rw [List.any_eq_false]
      intro e he
      simp only [decide_eq_true_eq]
      intro hname
      obtain ⟨q, hq, hqn, _⟩ := c.kw_ok e he
      exact hn.1 q (List.mem_append_right _ hq) (hqn.trans hname)
    rw [hno]
    simp only [Bool.false_eq_true, if_false]
    rw [bind_positional_then_keywords pre post kw hn.2 c]
    rfl

/-! ### canonical int64 data -/

theorem fromLE_leBytes : ∀ (k n : Nat), fromLE (leBytes k n) = n % 256 ^ k
  | 0, n => by simp [leBytes, fromLE, Nat.mod_one]
  | k+1, n => by
    simp only [leBytes, fromLE, fromLE_leBytes k (n / 256), UInt8.toNat_ofNat']
    have e : 256 ^ (k + 1) = 256 * 256 ^ k := by rw [Nat.pow_succ, Nat.mul_comm]
    rw [e, Nat.mod_mul]
    have : n % 256 % (2 ^ 7 * 2) = n % 256 := by omega
    rw [this]

theorem leBytes_inj {k n m : Nat} (hn : n < 256 ^ k) (hm : m < 256 ^ k) (h : leBytes k n = leBytes k m) : n = m := by
  have := congrArg fromLE h
  rwa [fromLE_leBytes, fromLE_leBytes, Nat.mod_eq_of_lt hn, Nat.mod_eq_of_lt hm] at this

theorem encode64_inj {x y : Int} (hx : fits64 x = true) (hy : fits64 y = true) (h : encode64 x = encode64 y) : x = y := by
  simp only [fits64, Bool.and_eq_true, decide_eq_true_eq] at hx hy
  unfold encode64 at h
  have e : (256 : Nat) ^ 8 = 2 ^ 64 := by decide
  have hx' : (x % (2 ^ 64 : Nat)).toNat < 256 ^ 8 := by rw [e]; omega
  have hy' : (y % (2 ^ 64 : Nat)).toNat < 256 ^ 8 := by rw [e]; omega
  have := leBytes_inj hx' hy' h
  omega

/-- the `w`-byte two's complement little-endian representation of `x` -/
def reprS (w : Nat) (x : Int) : Bytes := leBytes w (x % (256 ^ w : Nat)).toNat

/-- the `w`-byte unsigned little-endian representation of `x` -/
def reprU (w : Nat) (x : Int) : Bytes := leBytes w x.toNat

theorem decode_reprS (w : Nat) (x : Int) (hlo : -(256 ^ w : Nat) ≤ 2 * x) (hhi : 2 * x < (256 ^ w : Nat)) :
    decodeInt true w (reprS w x) = x := by
  have hM : 0 < 256 ^ w := Nat.pow_pos (by decide)
  generalize hMdef : 256 ^ w = M at *
  have key : ∀ n : Nat, n < M → fromLE (leBytes w n) = n := by
    intro n hn; rw [fromLE_leBytes, hMdef, Nat.mod_eq_of_lt hn]
  simp only [decodeInt, reprS, hMdef, Bool.true_and]
  by_cases hx : 0 ≤ x
  · have e : x % (M : Int) = x := Int.emod_eq_of_lt hx (by omega)
    rw [e, key _ (by omega)]
    have : ¬ (M ≤ 2 * x.toNat) := by omega
    simp only [this, decide_false, Bool.false_eq_true, if_false]
    omega
  · have e : x % (M : Int) = x + M := by
      rw [← Int.add_emod_right x M]
      exact Int.emod_eq_of_lt (by omega) (by omega)
    rw [e, key _ (by omega)]
    have : M ≤ 2 * (x + (M : Int)).toNat := by omega
    simp only [this, decide_true, if_true]
    omega

theorem decode_reprU (w : Nat) (x : Int) (hlo : 0 ≤ x) (hhi : x < (256 ^ w : Nat)) :
    decodeInt false w (reprU w x) = x := by
  simp only [decodeInt, reprU, Bool.false_and, Bool.false_eq_true, if_false]
  rw [fromLE_leBytes, Nat.mod_eq_of_lt (by omega)]
  omega

end NutilsVerif.C17
