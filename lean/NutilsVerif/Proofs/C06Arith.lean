import NutilsVerif.Proofs.C06
/-!
# C06 — soundness of the individual transfer functions (helper lemmas; the theorems are restated in `Props/C06.lean`)
-/
namespace NutilsVerif.C06
open PyNum

theorem bnd_of_mem {raw : Option Rng} {r : Rng} {v : Int} (h : raw = some r) (hm : Mem v r) : bnd raw = some r := by
  subst h; exact valid_of_mem (l := r.1) (u := r.2) hm

/-! ### Multiply -/

theorem corners_lower {r1 r2 : Rng} (h1 : Valid r1) (h2 : Valid r2) {x y : Int} (hx : Mem x r1) (hy : Mem y r2) :
    PyNum.le (andMul r1.1 r2.1) (int (x * y)) = true ∨ PyNum.le (andMul r1.1 r2.2) (int (x * y)) = true ∨
    PyNum.le (andMul r1.2 r2.1) (int (x * y)) = true ∨ PyNum.le (andMul r1.2 r2.2) (int (x * y)) = true := by
  obtain ⟨n1l, n1u⟩ := valid_nn h1
  obtain ⟨n2l, n2u⟩ := valid_nn h2
  have s1 := andMul_mono_lower h1 hx (b := int y) (by simp)
  rw [andMul_int_int] at s1
  rcases s1 with s | s
  · have s2 := andMul_mono_lower h2 hy (b := r1.1) n1l
    rw [andMul_comm n2l n1l, andMul_comm n2u n1l, andMul_comm (nn_int y) n1l] at s2
    rcases s2 with t | t
    · exact Or.inl (le_trans' t s)
    · exact Or.inr (Or.inl (le_trans' t s))
  · have s2 := andMul_mono_lower h2 hy (b := r1.2) n1u
    rw [andMul_comm n2l n1u, andMul_comm n2u n1u, andMul_comm (nn_int y) n1u] at s2
    rcases s2 with t | t
    · exact Or.inr (Or.inr (Or.inl (le_trans' t s)))
    · exact Or.inr (Or.inr (Or.inr (le_trans' t s)))

theorem corners_upper {r1 r2 : Rng} (h1 : Valid r1) (h2 : Valid r2) {x y : Int} (hx : Mem x r1) (hy : Mem y r2) :
    PyNum.le (int (x * y)) (andMul r1.1 r2.1) = true ∨ PyNum.le (int (x * y)) (andMul r1.1 r2.2) = true ∨
    PyNum.le (int (x * y)) (andMul r1.2 r2.1) = true ∨ PyNum.le (int (x * y)) (andMul r1.2 r2.2) = true := by
  obtain ⟨n1l, n1u⟩ := valid_nn h1
  obtain ⟨n2l, n2u⟩ := valid_nn h2
  have s1 := andMul_mono_upper h1 hx (b := int y) (by simp)
  rw [andMul_int_int] at s1
  rcases s1 with s | s
  · have s2 := andMul_mono_upper h2 hy (b := r1.1) n1l
    rw [andMul_comm n2l n1l, andMul_comm n2u n1l, andMul_comm (nn_int y) n1l] at s2
    rcases s2 with t | t
    · exact Or.inl (le_trans' s t)
    · exact Or.inr (Or.inl (le_trans' s t))
  · have s2 := andMul_mono_upper h2 hy (b := r1.2) n1u
    rw [andMul_comm n2l n1u, andMul_comm n2u n1u, andMul_comm (nn_int y) n1u] at s2
    rcases s2 with t | t
    · exact Or.inr (Or.inr (Or.inl (le_trans' s t)))
    · exact Or.inr (Or.inr (Or.inr (le_trans' s t)))

theorem mulRng_sound {r1 r2 : Rng} (h1 : Valid r1) (h2 : Valid r2) {x y : Int} (hx : Mem x r1) (hy : Mem y r2) :
    Mem (x * y) (mulRng r1 r2) := by
  obtain ⟨n1l, n1u⟩ := valid_nn h1
  obtain ⟨n2l, n2u⟩ := valid_nn h2
  exact ⟨minL4_le (andMul_nn n1l n2l) (andMul_nn n1l n2u) (andMul_nn n1u n2l) (corners_lower h1 h2 hx hy),
         maxL4_ge (andMul_nn n1l n2l) (andMul_nn n1l n2u) (andMul_nn n1u n2l) (corners_upper h1 h2 hx hy)⟩

theorem mulRng_valid {r1 r2 : Rng} (h1 : Valid r1) (h2 : Valid r2) : Valid (mulRng r1 r2) := by
  obtain ⟨x, hx⟩ := valid_inhabited h1
  obtain ⟨y, hy⟩ := valid_inhabited h2
  exact valid_of_mem (mulRng_sound h1 h2 hx hy)

/-! ### simple pointwise classes: shape analysis + linear arithmetic -/

macro "rbash" : tactic =>
  `(tactic| ((try simp only [tfNeg, tfAssertEqual, tfMin, tfMax, tfAbs, tfSign, tfInRange, tfNormDim, tfMod, tfDefault, tfIndexBelow, tfRange,
      tfSearchSorted, tfTransformIndex, tfBoolToInt, tfZeros, tfIdentity, unbounded, Option.some.injEq, exists_eq_left'] at *) <;>
    (try simp [PyNum.min2, PyNum.max2, PyNum.lt, PyNum.le, PyNum.eq, PyNum.add, PyNum.sub, PyNum.neg, PyNum.abs, PyNum.isInt, PyNum.sign, Mem, iabs, isign] at *) <;>
    (try split_ifs) <;> (try simp_all [PyNum.min2, PyNum.max2, PyNum.lt, PyNum.le, PyNum.eq, Mem]) <;> (try split_ifs) <;> (try omega)))

theorem tfNeg_sound {r : Rng} (h : Valid r) {x : Int} (hx : Mem x r) : ∃ r', tfNeg r = some r' ∧ Mem (-x) r' := by
  rcases valid_cases h with ⟨a, b, rfl, hab⟩ | ⟨b, rfl⟩ | ⟨a, rfl⟩ | rfl <;> rbash

theorem tfAbs_sound {r : Rng} (h : Valid r) {x : Int} (hx : Mem x r) : ∃ r', tfAbs r = some r' ∧ Mem (iabs x) r' := by
  rcases valid_cases h with ⟨a, b, rfl, hab⟩ | ⟨b, rfl⟩ | ⟨a, rfl⟩ | rfl <;> rbash

theorem tfSign_sound {r : Rng} (h : Valid r) {x : Int} (hx : Mem x r) : ∃ r', tfSign r = some r' ∧ Mem (isign x) r' := by
  rcases valid_cases h with ⟨a, b, rfl, hab⟩ | ⟨b, rfl⟩ | ⟨a, rfl⟩ | rfl <;> rbash


theorem tfMin_sound {r1 r2 : Rng} (h1 : Valid r1) (h2 : Valid r2) {x y : Int} (hx : Mem x r1) (hy : Mem y r2) :
    ∃ r', tfMin r1 r2 = some r' ∧ Mem (min x y) r' := by
  refine ⟨_, rfl, ?_, ?_⟩
  · rcases Int.le_total x y with h | h
    · rw [Int.min_eq_left h]; exact min2_le_left hx.1
    · rw [Int.min_eq_right h]; exact min2_le_right (valid_nn h1).1 hy.1
  · apply le_min2
    · exact le_trans' (by simp) hx.2
    · exact le_trans' (by simp) hy.2

theorem tfMax_sound {r1 r2 : Rng} (h1 : Valid r1) (h2 : Valid r2) {x y : Int} (hx : Mem x r1) (hy : Mem y r2) :
    ∃ r', tfMax r1 r2 = some r' ∧ Mem (max x y) r' := by
  refine ⟨_, rfl, ?_, ?_⟩
  · apply max2_le
    · exact le_trans' hx.1 (by simp)
    · exact le_trans' hy.1 (by simp)
  · rcases Int.le_total x y with h | h
    · rw [Int.max_eq_right h]; exact max2_ge_right (valid_nn h1).2 hy.2
    · rw [Int.max_eq_left h]; exact max2_ge_left hx.2

theorem tfAssertEqual_sound {r1 r2 : Rng} {x : Int} (hx : Mem x r1) (hy : Mem x r2) :
    ∃ r', tfAssertEqual r1 r2 = some r' ∧ Mem x r' :=
  ⟨_, rfl, max2_le hx.1 hy.1, le_min2 hx.2 hy.2⟩

theorem tfInRange_sound {ri rl : Rng} (h1 : Valid ri) (h2 : Valid rl) {i n v : Int} (hi : Mem i ri) (hn : Mem n rl)
    (hv : inRangeVal i n = some v) : ∃ r', tfInRange ri rl = some r' ∧ Mem v r' := by
  unfold inRangeVal at hv
  split at hv
  · rename_i hc
    simp only [Option.some.injEq] at hv; subst hv
    rcases valid_cases h1 with ⟨a, b, rfl, hab⟩ | ⟨b, rfl⟩ | ⟨a, rfl⟩ | rfl <;>
    rcases valid_cases h2 with ⟨c, d, rfl, hcd⟩ | ⟨d, rfl⟩ | ⟨c, rfl⟩ | rfl <;> rbash
  · simp at hv

set_option maxHeartbeats 1000000 in
theorem tfNormDim_aux_neg {rl ri : Rng} (h1 : Valid rl) (h2 : Valid ri) {n i : Int} (hn : Mem n rl) (hi : Mem i ri)
    (c2 : i < 0) (c3 : ¬ i + n < 0) : ∃ r', tfNormDim rl ri = some r' ∧ Mem (i + n) r' := by
  rcases valid_cases h1 with ⟨a, b, rfl, hab⟩ | ⟨b, rfl⟩ | ⟨a, rfl⟩ | rfl <;>
  rcases valid_cases h2 with ⟨c, d, rfl, hcd⟩ | ⟨d, rfl⟩ | ⟨c, rfl⟩ | rfl <;> rbash

set_option maxHeartbeats 1000000 in
theorem tfNormDim_aux_pos {rl ri : Rng} (h1 : Valid rl) (h2 : Valid ri) {n i : Int} (hn : Mem n rl) (hi : Mem i ri)
    (c2 : ¬ i < 0) (c3 : ¬ i ≥ n) : ∃ r', tfNormDim rl ri = some r' ∧ Mem i r' := by
  rcases valid_cases h1 with ⟨a, b, rfl, hab⟩ | ⟨b, rfl⟩ | ⟨a, rfl⟩ | rfl <;>
  rcases valid_cases h2 with ⟨c, d, rfl, hcd⟩ | ⟨d, rfl⟩ | ⟨c, rfl⟩ | rfl <;> rbash

theorem tfNormDim_sound {rl ri : Rng} (h1 : Valid rl) (h2 : Valid ri) {n i v : Int} (hn : Mem n rl) (hi : Mem i ri)
    (hv : normdimVal n i = some v) : ∃ r', tfNormDim rl ri = some r' ∧ Mem v r' := by
  unfold normdimVal at hv
  split_ifs at hv with c1 c2 c3 c4 <;> simp only [Option.some.injEq] at hv <;> subst hv
  · exact tfNormDim_aux_neg h1 h2 hn hi c2 c3
  · exact tfNormDim_aux_pos h1 h2 hn hi c2 c4

end NutilsVerif.C06
