import NutilsVerif.Model.C04
import NutilsVerif.Proofs.Poly
import Mathlib.Analysis.Calculus.Deriv.Mul
import Mathlib.Analysis.Calculus.Deriv.Pow
import Mathlib.Analysis.Calculus.Deriv.Add
/-!
# C04 — the formal partial derivative on `Poly` is the real derivative

`pderivWith d p` (Leibniz rule on monomials, linear extension) is the derivative of `t ↦ eval (ρ t) p`
along every differentiable curve of atom interpretations `ρ` whose atom velocities are the values of `d`.
No well-formedness of the term list is assumed.
-/
namespace NutilsVerif.C04
open NutilsVerif

/-! ### 1. evaluation of the building blocks -/

section eval
universe u
variable {R : Type u} [Field R]

theorem monoPoly_eval (ρ : String → R) (m : Mono) : Poly.eval ρ (monoPoly m) = Mono.eval ρ m := by
  simp [monoPoly]

theorem atomPow_eval (ρ : String → R) (a : String) (n : Nat) : Poly.eval ρ (atomPow a n) = ρ a ^ n := by
  unfold atomPow
  split
  · rename_i h
    have h' : n = 0 := by simpa using h
    subst h'
    simp [Poly.eval_one]
  · simp [monoPoly_eval]

end eval

/-! ### 2. the chain rule -/

theorem monoDeriv_hasDerivAt (ρ : ℝ → String → ℝ) (d : String → Option Poly) (t0 : ℝ)
    (hd : ∀ a da, d a = some da → HasDerivAt (fun t => ρ t a) (Poly.eval (ρ t0) da) t0) :
    ∀ (m : Mono) (dm : Poly), monoDeriv d m = some dm →
      HasDerivAt (fun t => Mono.eval (ρ t) m) (Poly.eval (ρ t0) dm) t0 := by
  intro m
  induction m with
  | nil =>
    intro dm h
    simp only [monoDeriv, Option.some.injEq] at h
    subst h
    simpa [Poly.eval_zero] using hasDerivAt_const t0 (1 : ℝ)
  | cons an s ih =>
    obtain ⟨a, n⟩ := an
    intro dm h
    unfold monoDeriv at h
    cases hda : d a with
    | none => simp [hda] at h
    | some da =>
      cases hds : monoDeriv d s with
      | none => simp [hda, hds] at h
      | some ds =>
        simp only [hda, hds, Option.bind_eq_bind, Option.bind_some, Option.some.injEq] at h
        subst h
        have h1 := ((hd a da hda).fun_pow n).fun_mul (ih ds hds)
        have hval : Poly.eval (ρ t0) (Poly.scale (n : Rat) (atomPow a (n - 1)) * da * monoPoly s
              + monoPoly [(a, n)] * ds)
            = (n : ℝ) * ρ t0 a ^ (n - 1) * Poly.eval (ρ t0) da * Mono.eval (ρ t0) s
              + ρ t0 a ^ n * Poly.eval (ρ t0) ds := by
          simp only [Poly.eval_hadd, Poly.eval_hmul, Poly.eval_scale, monoPoly_eval, atomPow_eval,
            Mono.eval_cons, Mono.eval_nil, Rat.cast_natCast]
          ring
        rw [hval]
        exact h1

theorem termsDeriv_hasDerivAt (ρ : ℝ → String → ℝ) (d : String → Option Poly) (t0 : ℝ)
    (hd : ∀ a da, d a = some da → HasDerivAt (fun t => ρ t a) (Poly.eval (ρ t0) da) t0) :
    ∀ (l : List (Mono × Rat)) (dl : Poly), termsDeriv d l = some dl →
      HasDerivAt (fun t => Poly.evalTerms (ρ t) l) (Poly.eval (ρ t0) dl) t0 := by
  intro l
  induction l with
  | nil =>
    intro dl h
    simp only [termsDeriv, Option.some.injEq] at h
    subst h
    simpa [Poly.eval_zero] using hasDerivAt_const t0 (0 : ℝ)
  | cons mc t ih =>
    obtain ⟨m, c⟩ := mc
    intro dl h
    unfold termsDeriv at h
    cases hdm : monoDeriv d m with
    | none => simp [hdm] at h
    | some dm =>
      cases hdt : termsDeriv d t with
      | none => simp [hdm, hdt] at h
      | some dt =>
        simp only [hdm, hdt, Option.bind_eq_bind, Option.bind_some, Option.some.injEq] at h
        subst h
        have h1 := ((monoDeriv_hasDerivAt ρ d t0 hd m dm hdm).const_mul ((c : ℚ) : ℝ)).fun_add (ih dt hdt)
        have hval : Poly.eval (ρ t0) (Poly.scale c dm + dt)
            = ((c : ℚ) : ℝ) * Poly.eval (ρ t0) dm + Poly.eval (ρ t0) dt := by
          simp only [Poly.eval_hadd, Poly.eval_scale]
        rw [hval]
        exact h1

/-- MAIN: chain rule / Leibniz rule for the formal derivative, along an arbitrary curve of interpretations. -/
theorem pderivWith_hasDerivAt (ρ : ℝ → String → ℝ) (d : String → Option Poly) (p dp : Poly) (t0 : ℝ)
    (h : pderivWith d p = some dp)
    (hd : ∀ a da, d a = some da → HasDerivAt (fun t => ρ t a) (Poly.eval (ρ t0) da) t0) :
    HasDerivAt (fun t => Poly.eval (ρ t) p) (Poly.eval (ρ t0) dp) t0 :=
  termsDeriv_hasDerivAt ρ d t0 hd p.terms dp h

/-! ### 3. the polynomial fragment: partial derivative with respect to a variable atom -/

theorem dvar_hasDerivAt (ρ0 : String → ℝ) (x a : String) (da : Poly) (h : dvar x a = some da) :
    HasDerivAt (fun t => Function.update ρ0 x t a) (Poly.eval ρ0 da) (ρ0 x) := by
  simp only [dvar, Option.some.injEq] at h
  subst h
  by_cases hax : a = x
  · subst hax
    simpa [Poly.eval_one] using hasDerivAt_id' (ρ0 a)
  · have hne : (a == x) = false := by simpa using hax
    simp only [hne, Bool.false_eq_true, if_false, Poly.eval_zero, Function.update_of_ne hax]
    exact hasDerivAt_const _ _

theorem pderivVar_hasDerivAt (ρ0 : String → ℝ) (x : String) (p dp : Poly) (h : pderivVar x p = some dp) :
    HasDerivAt (fun t => Poly.eval (Function.update ρ0 x t) p) (Poly.eval ρ0 dp) (ρ0 x) := by
  have key := pderivWith_hasDerivAt (fun t => Function.update ρ0 x t) (dvar x) p dp (ρ0 x) h
  simp only [Function.update_eq_self] at key
  exact key (fun a da hda => dvar_hasDerivAt ρ0 x a da hda)

theorem monoDeriv_dvar_isSome (x : String) (m : Mono) : (monoDeriv (dvar x) m).isSome := by
  induction m with
  | nil => simp [monoDeriv]
  | cons an s ih =>
    obtain ⟨a, n⟩ := an
    obtain ⟨ds, hds⟩ := Option.isSome_iff_exists.mp ih
    simp [monoDeriv, dvar, hds]

theorem termsDeriv_dvar_isSome (x : String) (l : List (Mono × Rat)) : (termsDeriv (dvar x) l).isSome := by
  induction l with
  | nil => simp [termsDeriv]
  | cons mc t ih =>
    obtain ⟨m, c⟩ := mc
    obtain ⟨dt, hdt⟩ := Option.isSome_iff_exists.mp ih
    obtain ⟨dm, hdm⟩ := Option.isSome_iff_exists.mp (monoDeriv_dvar_isSome x m)
    simp [termsDeriv, hdt, hdm]

theorem pderivVar_isSome (x : String) (p : Poly) : (pderivVar x p).isSome :=
  termsDeriv_dvar_isSome x p.terms

/-! ### 4. algebraic corollaries (semantic sum / product / constant rules) by uniqueness of the derivative -/

/-- the straight line through `ρ0` with velocity `eval ρ0 (d a)` -/
noncomputable def lineCurve (d : String → Option Poly) (ρ0 : String → ℝ) (t : ℝ) (a : String) : ℝ :=
  ρ0 a + t * (match d a with | some da => Poly.eval ρ0 da | none => 0)

theorem lineCurve_zero (d : String → Option Poly) (ρ0 : String → ℝ) : lineCurve d ρ0 0 = ρ0 := by
  funext a; simp [lineCurve]

theorem lineCurve_hasDerivAt (d : String → Option Poly) (ρ0 : String → ℝ) (a : String) (da : Poly)
    (h : d a = some da) :
    HasDerivAt (fun t => lineCurve d ρ0 t a) (Poly.eval (lineCurve d ρ0 0) da) 0 := by
  rw [lineCurve_zero]
  simp only [lineCurve, h]
  simpa using ((hasDerivAt_id (0 : ℝ)).mul_const (Poly.eval ρ0 da)).const_add (ρ0 a)

/-- `pderivWith` along the line curve -/
theorem pderivWith_line (d : String → Option Poly) (ρ0 : String → ℝ) (p dp : Poly)
    (h : pderivWith d p = some dp) :
    HasDerivAt (fun t => Poly.eval (lineCurve d ρ0 t) p) (Poly.eval ρ0 dp) 0 := by
  have := pderivWith_hasDerivAt (lineCurve d ρ0) d p dp 0 h (lineCurve_hasDerivAt d ρ0)
  rwa [lineCurve_zero] at this

theorem pderivWith_add_sem (d : String → Option Poly) (ρ0 : String → ℝ) (p q dp dq r : Poly)
    (hp : pderivWith d p = some dp) (hq : pderivWith d q = some dq) (hr : pderivWith d (p + q) = some r) :
    Poly.eval ρ0 r = Poly.eval ρ0 dp + Poly.eval ρ0 dq := by
  have h1 := pderivWith_line d ρ0 (p + q) r hr
  have h2 := (pderivWith_line d ρ0 p dp hp).fun_add (pderivWith_line d ρ0 q dq hq)
  simp only [Poly.eval_hadd] at h1
  exact h1.unique h2

theorem pderivWith_mul_sem (d : String → Option Poly) (ρ0 : String → ℝ) (p q dp dq r : Poly)
    (hp : pderivWith d p = some dp) (hq : pderivWith d q = some dq) (hr : pderivWith d (p * q) = some r) :
    Poly.eval ρ0 r = Poly.eval ρ0 dp * Poly.eval ρ0 q + Poly.eval ρ0 p * Poly.eval ρ0 dq := by
  have h1 := pderivWith_line d ρ0 (p * q) r hr
  have h2 := (pderivWith_line d ρ0 p dp hp).fun_mul (pderivWith_line d ρ0 q dq hq)
  simp only [Poly.eval_hmul] at h1
  simp only [lineCurve_zero] at h2
  exact h1.unique h2

theorem pderivWith_const (d : String → Option Poly) (ρ0 : String → ℝ) (c : Rat) (r : Poly)
    (hr : pderivWith d (Poly.ofRat c) = some r) : Poly.eval ρ0 r = 0 := by
  have h1 := pderivWith_line d ρ0 (Poly.ofRat c) r hr
  simp only [Poly.eval_ofRat] at h1
  exact h1.unique (hasDerivAt_const _ _)

/-! ### 5. clearing a reciprocal atom

`expOf a m` only sees the FIRST occurrence of `a` in `m` (`List.lookup`) while `m.filter (·.1 != a)` removes ALL
occurrences, so `clearAtom_sound` is false for monomials with a repeated key (e.g. `D = a·a` written as
`[(a,1),(a,1)]`: `clearAtom a Q D = 1` but `eval D · eval Q = ρ a`).  Hypothesis: the atom keys of every monomial of
`D` are pairwise distinct. -/

theorem expOf_cons_self (a : String) (n : Nat) (s : Mono) : expOf a ((a, n) :: s) = n := by
  simp [expOf]

theorem expOf_cons_ne {a b : String} (h : a ≠ b) (n : Nat) (s : Mono) : expOf a ((b, n) :: s) = expOf a s := by
  have hb : (a == b) = false := by simpa using h
  simp [expOf, List.lookup_cons, hb]

theorem expOf_of_not_mem {a : String} {m : Mono} (h : a ∉ m.map (·.1)) : expOf a m = 0 := by
  induction m with
  | nil => rfl
  | cons bn s ih =>
    obtain ⟨b, n⟩ := bn
    simp only [List.map_cons, List.mem_cons, not_or] at h
    rw [expOf_cons_ne h.1, ih h.2]

theorem filter_of_not_mem {a : String} {m : Mono} (h : a ∉ m.map (·.1)) : m.filter (·.1 != a) = m := by
  rw [List.filter_eq_self]
  intro bn hbn
  have : bn.1 ≠ a := fun e => h (e ▸ List.mem_map_of_mem hbn)
  simpa using this

/-- a monomial with distinct keys splits into the power of `a` and the rest -/
theorem mono_eval_split (ρ : String → ℝ) (a : String) (m : Mono) (h : (m.map (·.1)).Nodup) :
    Mono.eval ρ m = ρ a ^ expOf a m * Mono.eval ρ (m.filter (·.1 != a)) := by
  induction m with
  | nil => simp [expOf]
  | cons bn s ih =>
    obtain ⟨b, n⟩ := bn
    simp only [List.map_cons, List.nodup_cons] at h
    by_cases hab : b = a
    · subst hab
      have hf : ((b, n) :: s).filter (·.1 != b) = s := by
        rw [List.filter_cons]; simp [filter_of_not_mem h.1]
      rw [hf, expOf_cons_self, Mono.eval_cons]
    · have hf : ((b, n) :: s).filter (·.1 != a) = (b, n) :: s.filter (·.1 != a) := by
        rw [List.filter_cons]; simp [hab]
      rw [hf, expOf_cons_ne (Ne.symm hab), Mono.eval_cons, Mono.eval_cons, ih h.2]; ring

theorem foldl_max_bound (a : String) (f : Nat → Mono × Rat → Nat)
    (hf : ∀ acc m c, f acc (m, c) = max acc (expOf a m)) (l : List (Mono × Rat)) (init : Nat) :
    init ≤ l.foldl f init ∧ ∀ mc ∈ l, expOf a mc.1 ≤ l.foldl f init := by
  induction l generalizing init with
  | nil => simp
  | cons mc t ih =>
    obtain ⟨m, c⟩ := mc
    simp only [List.foldl_cons, hf]
    obtain ⟨h1, h2⟩ := ih (max init (expOf a m))
    refine ⟨le_trans (le_max_left _ _) h1, ?_⟩
    intro mc hmc
    rcases List.mem_cons.mp hmc with rfl | hmc
    · exact le_trans (le_max_right _ _) h1
    · exact h2 mc hmc

/-- the fold of `clearAtom` with an arbitrary exponent bound `n` and accumulator -/
theorem clearFold_eval (ρ : String → ℝ) (a : String) (Q : Poly) (hQ : ρ a * Poly.eval ρ Q = 1) (n : Nat)
    (g : Poly → Mono × Rat → Poly)
    (hg : ∀ acc m c, g acc (m, c)
      = acc + Poly.scale c (monoPoly (m.filter (·.1 != a))) * Poly.npow Q (n - expOf a m))
    (l : List (Mono × Rat)) (hl : ∀ mc ∈ l, (mc.1.map (·.1)).Nodup ∧ expOf a mc.1 ≤ n) (acc : Poly) :
    Poly.eval ρ (l.foldl g acc) = Poly.eval ρ acc + Poly.evalTerms ρ l * Poly.eval ρ Q ^ n := by
  induction l generalizing acc with
  | nil => simp
  | cons mc t ih =>
    obtain ⟨m, c⟩ := mc
    have hm := hl (m, c) List.mem_cons_self
    rw [List.foldl_cons, ih (fun mc h => hl mc (List.mem_cons_of_mem _ h)), hg]
    simp only [Poly.eval_hadd, Poly.eval_hmul, Poly.eval_scale, monoPoly_eval, Poly.eval_npow,
      Poly.evalTerms_cons]
    have e1 := mono_eval_split ρ a m hm.1
    have e2 : Poly.eval ρ Q ^ n = Poly.eval ρ Q ^ expOf a m * Poly.eval ρ Q ^ (n - expOf a m) := by
      rw [← pow_add, Nat.add_sub_cancel' hm.2]
    have e3 : ρ a ^ expOf a m * Poly.eval ρ Q ^ expOf a m = 1 := by rw [← mul_pow, hQ, one_pow]
    rw [e1, e2]
    linear_combination
      (-((c : ℝ) * Mono.eval ρ (m.filter (·.1 != a)) * Poly.eval ρ Q ^ (n - expOf a m))) * e3

theorem clearAtom_sound (ρ : String → ℝ) (a : String) (Q D : Poly) (hQ : ρ a * Poly.eval ρ Q = 1)
    (hD : ∀ mc ∈ D.terms, (mc.1.map (·.1)).Nodup) :
    Poly.eval ρ (clearAtom a Q D)
      = Poly.eval ρ D * Poly.eval ρ Q ^ (D.terms.foldl (fun acc (m, _) => max acc (expOf a m)) 0) := by
  unfold clearAtom
  dsimp only
  rw [clearFold_eval ρ a Q hQ _ _ (fun _ _ _ => rfl) D.terms ?_ Poly.zero]
  · rw [Poly.eval_zero, zero_add]; rfl
  · intro mc hmc
    exact ⟨hD mc hmc, (foldl_max_bound a _ (fun _ _ _ => rfl) D.terms 0).2 mc hmc⟩

theorem clearAtom_zero_imp (ρ : String → ℝ) (a : String) (Q D : Poly)
    (h0 : Poly.eval ρ (clearAtom a Q D) = 0) (hQ : ρ a * Poly.eval ρ Q = 1)
    (hD : ∀ mc ∈ D.terms, (mc.1.map (·.1)).Nodup) : Poly.eval ρ D = 0 := by
  rw [clearAtom_sound ρ a Q D hQ hD] at h0
  have hQne : Poly.eval ρ Q ≠ 0 := by
    intro e; rw [e, mul_zero] at hQ; exact zero_ne_one hQ
  rcases mul_eq_zero.mp h0 with h | h
  · exact h
  · exact absurd h (pow_ne_zero _ hQne)

/-! ### 5b. the sortedness invariant (atom keys of every monomial strictly increasing) is preserved by the
arithmetic, hence `eqModInv` is sound on well-formed polynomials -/

/-- atom keys strictly increasing: the well-formedness of `Mono` -/
def MonoSorted (m : Mono) : Prop := (m.map (·.1)).Pairwise (fun x y => compare x y = .lt)

def TermsSorted (l : List (Mono × Rat)) : Prop := ∀ mc ∈ l, MonoSorted mc.1

/-- every monomial of the polynomial has strictly increasing atom keys -/
def PolySorted (p : Poly) : Prop := TermsSorted p.terms

theorem monoSorted_cons (a : String) (n : Nat) (s : Mono) :
    MonoSorted ((a, n) :: s) ↔ (∀ k ∈ s.map (·.1), compare a k = .lt) ∧ MonoSorted s := by
  unfold MonoSorted
  simp only [List.map_cons, List.pairwise_cons]

theorem monoSorted_nodup {m : Mono} (h : MonoSorted m) : (m.map (·.1)).Nodup := by
  unfold MonoSorted at h
  refine List.Pairwise.imp ?_ h
  intro x y hxy e
  subst e
  have h2 := Std.OrientedCmp.gt_of_lt hxy
  rw [hxy] at h2
  cases h2

theorem monoSorted_filter {m : Mono} (h : MonoSorted m) (p : String × Nat → Bool) : MonoSorted (m.filter p) :=
  List.Pairwise.sublist (List.Sublist.map _ List.filter_sublist) h

theorem mem_keys_mul (s t : Mono) :
    ∀ k ∈ (Mono.mul s t).map (·.1), k ∈ s.map (·.1) ∨ k ∈ t.map (·.1) := by
  fun_induction Mono.mul s t with
  | case1 t => intro k hk; right; exact hk
  | case2 s _ => intro k hk; left; exact hk
  | case3 a m s b n t h ih =>
    intro k hk
    simp only [List.map_cons, List.mem_cons] at hk ih ⊢
    rcases hk with rfl | hk
    · tauto
    · have := ih k hk; tauto
  | case4 a m s b n t h ih =>
    intro k hk
    simp only [List.map_cons, List.mem_cons] at hk ih ⊢
    rcases hk with rfl | hk
    · tauto
    · have := ih k hk; tauto
  | case5 a m s b n t h ih =>
    intro k hk
    simp only [List.map_cons, List.mem_cons] at hk ih ⊢
    rcases hk with rfl | hk
    · tauto
    · have := ih k hk; tauto

theorem monoSorted_mul {s t : Mono} (hs : MonoSorted s) (ht : MonoSorted t) : MonoSorted (Mono.mul s t) := by
  fun_induction Mono.mul s t with
  | case1 t => exact ht
  | case2 s _ => exact hs
  | case3 a m s b n t h ih =>
    rw [monoSorted_cons] at hs ⊢
    refine ⟨?_, ih hs.2 ht⟩
    intro k hk
    rcases mem_keys_mul _ _ k hk with h1 | h1
    · exact hs.1 k h1
    · rw [monoSorted_cons] at ht
      simp only [List.map_cons, List.mem_cons] at h1
      rcases h1 with rfl | h1
      · exact h
      · exact Std.TransCmp.lt_trans h (ht.1 k h1)
  | case4 a m s b n t h ih =>
    have h' := Std.OrientedCmp.lt_of_gt h
    rw [monoSorted_cons] at ht ⊢
    refine ⟨?_, ih hs ht.2⟩
    intro k hk
    rcases mem_keys_mul _ _ k hk with h1 | h1
    · rw [monoSorted_cons] at hs
      simp only [List.map_cons, List.mem_cons] at h1
      rcases h1 with rfl | h1
      · exact h'
      · exact Std.TransCmp.lt_trans h' (hs.1 k h1)
    · exact ht.1 k h1
  | case5 a m s b n t h ih =>
    have hab : a = b := Std.LawfulEqOrd.eq_of_compare h
    subst hab
    rw [monoSorted_cons] at hs ht ⊢
    refine ⟨?_, ih hs.2 ht.2⟩
    intro k hk
    rcases mem_keys_mul _ _ k hk with h1 | h1
    · exact hs.1 k h1
    · exact ht.1 k h1

theorem mem_insertTerm {m : Mono} {c : Rat} {l : List (Mono × Rat)} {x : Mono × Rat}
    (h : x ∈ Poly.insertTerm m c l) : x.1 = m ∨ x ∈ l := by
  induction l with
  | nil =>
    unfold Poly.insertTerm at h
    split at h
    · simp at h
    · simp at h; left; rw [h]
  | cons mc t ih =>
    obtain ⟨m', c'⟩ := mc
    unfold Poly.insertTerm at h
    split at h
    · split at h
      · right; exact h
      · rcases List.mem_cons.mp h with rfl | h
        · left; rfl
        · right; exact h
    · split at h
      · right; exact List.mem_cons_of_mem _ h
      · rcases List.mem_cons.mp h with rfl | h
        · left; rfl
        · right; exact List.mem_cons_of_mem _ h
    · rcases List.mem_cons.mp h with rfl | h
      · right; exact List.mem_cons_self
      · rcases ih h with h | h
        · left; exact h
        · right; exact List.mem_cons_of_mem _ h

theorem termsSorted_nil : TermsSorted [] := fun _ hx => absurd hx List.not_mem_nil

theorem termsSorted_tail {mc : Mono × Rat} {t : List (Mono × Rat)} (h : TermsSorted (mc :: t)) : TermsSorted t :=
  fun x hx => h x (List.mem_cons_of_mem _ hx)

theorem termsSorted_insertTerm {m : Mono} {c : Rat} {l : List (Mono × Rat)} (hm : MonoSorted m)
    (hl : TermsSorted l) : TermsSorted (Poly.insertTerm m c l) := by
  intro x hx
  rcases mem_insertTerm hx with h | h
  · rw [h]; exact hm
  · exact hl x h

theorem termsSorted_addTerms {a b : List (Mono × Rat)} (ha : TermsSorted a) (hb : TermsSorted b) :
    TermsSorted (Poly.addTerms a b) := by
  unfold Poly.addTerms
  induction a generalizing b with
  | nil => exact hb
  | cons mc t ih =>
    obtain ⟨m, c⟩ := mc
    rw [List.foldl_cons]
    exact ih (termsSorted_tail ha) (termsSorted_insertTerm (ha _ List.mem_cons_self) hb)

theorem polySorted_zero : PolySorted Poly.zero := termsSorted_nil

theorem polySorted_ofRat (q : Rat) : PolySorted (Poly.ofRat q) := by
  unfold Poly.ofRat
  split
  · exact termsSorted_nil
  · intro x hx
    have : x = ([], q) := by simpa using hx
    subst this
    exact List.Pairwise.nil

theorem polySorted_monoPoly {m : Mono} (hm : MonoSorted m) : PolySorted (monoPoly m) := by
  intro x hx
  have : x = (m, 1) := by simpa [monoPoly] using hx
  subst this
  exact hm

theorem polySorted_add {p q : Poly} (hp : PolySorted p) (hq : PolySorted q) : PolySorted (p + q) :=
  termsSorted_addTerms hp hq

theorem polySorted_neg {p : Poly} (hp : PolySorted p) : PolySorted (-p) := by
  intro x hx
  replace hx : x ∈ p.terms.map (fun (m, c) => (m, -c)) := hx
  rcases List.mem_map.mp hx with ⟨⟨m, c⟩, hy, rfl⟩
  exact hp (m, c) hy

theorem polySorted_sub {p q : Poly} (hp : PolySorted p) (hq : PolySorted q) : PolySorted (p - q) :=
  polySorted_add hp (polySorted_neg hq)

theorem polySorted_scale (c : Rat) {p : Poly} (hp : PolySorted p) : PolySorted (Poly.scale c p) := by
  unfold Poly.scale
  split
  · exact polySorted_zero
  · intro x hx
    replace hx : x ∈ p.terms.map (fun (m, d) => (m, c * d)) := hx
    rcases List.mem_map.mp hx with ⟨⟨m, d⟩, hy, rfl⟩
    exact hp (m, d) hy

theorem termsSorted_mulTerm {m : Mono} {c : Rat} {q acc : List (Mono × Rat)} (hm : MonoSorted m)
    (hq : TermsSorted q) (hacc : TermsSorted acc) :
    TermsSorted (q.foldl (fun acc (m', c') => Poly.insertTerm (Mono.mul m m') (c * c') acc) acc) := by
  induction q generalizing acc with
  | nil => exact hacc
  | cons mc t ih =>
    obtain ⟨m', c'⟩ := mc
    rw [List.foldl_cons]
    exact ih (termsSorted_tail hq)
      (termsSorted_insertTerm (monoSorted_mul hm (hq _ List.mem_cons_self)) hacc)

theorem polySorted_mul {p q : Poly} (hp : PolySorted p) (hq : PolySorted q) : PolySorted (p * q) := by
  have key : ∀ (l acc : List (Mono × Rat)), TermsSorted l → TermsSorted acc →
      TermsSorted (l.foldl (fun acc (m, c) =>
        q.terms.foldl (fun acc (m', c') => Poly.insertTerm (Mono.mul m m') (c * c') acc) acc) acc) := by
    intro l
    induction l with
    | nil => intro acc _ h; exact h
    | cons mc t ih =>
      obtain ⟨m, c⟩ := mc
      intro acc hl hacc
      rw [List.foldl_cons]
      exact ih _ (termsSorted_tail hl) (termsSorted_mulTerm (hl _ List.mem_cons_self) hq hacc)
  exact key p.terms [] hp termsSorted_nil

theorem polySorted_npow {p : Poly} (hp : PolySorted p) (n : Nat) : PolySorted (Poly.npow p n) := by
  induction n with
  | zero => exact polySorted_ofRat 1
  | succ n ih => exact polySorted_mul ih hp

theorem polySorted_clearAtom {a : String} {Q D : Poly} (hQ : PolySorted Q) (hD : PolySorted D) :
    PolySorted (clearAtom a Q D) := by
  have key : ∀ (n : Nat) (l : List (Mono × Rat)) (acc : Poly), TermsSorted l → PolySorted acc →
      PolySorted (l.foldl (fun (acc : Poly) (m, c) =>
        acc + Poly.scale c (monoPoly (m.filter (·.1 != a))) * Poly.npow Q (n - expOf a m)) acc) := by
    intro n l
    induction l with
    | nil => intro acc _ h; exact h
    | cons mc t ih =>
      obtain ⟨m, c⟩ := mc
      intro acc hl hacc
      rw [List.foldl_cons]
      exact ih _ (termsSorted_tail hl)
        (polySorted_add hacc (polySorted_mul
          (polySorted_scale c (polySorted_monoPoly (monoSorted_filter (hl _ List.mem_cons_self) _)))
          (polySorted_npow hQ _)))
  exact key _ D.terms Poly.zero hD polySorted_zero

/-- `eqModInv` is sound wherever the reciprocal relations hold, on polynomials whose monomials are well formed
(strictly increasing atom keys), provided the polynomials `Q` of the relations are well formed too. -/
theorem eqModInv_sound (ρ : String → ℝ)
    (hinv : ∀ a Q, invRelation a = some Q → PolySorted Q ∧ ρ a * Poly.eval ρ Q = 1) :
    ∀ (fuel : Nat) (p q : Poly), PolySorted p → PolySorted q → eqModInv fuel p q = true →
      Poly.eval ρ p = Poly.eval ρ q := by
  intro fuel
  induction fuel with
  | zero =>
    intro p q _ _ h
    unfold eqModInv at h
    exact Poly.beq_sound h ρ
  | succ fuel ih =>
    intro p q hp hq h
    have hD : PolySorted (p - q) := polySorted_sub hp hq
    have hgoal : Poly.eval ρ (p - q) = 0 → Poly.eval ρ p = Poly.eval ρ q := by
      intro h0; rw [Poly.eval_hsub] at h0; exact sub_eq_zero.mp h0
    apply hgoal
    unfold eqModInv at h
    dsimp only at h
    by_cases hz : (p - q).isZero = true
    · exact Poly.isZero_sound hz ρ
    · rw [if_neg hz] at h
      split at h
      · cases h
      · rename_i at' Q hfs
        obtain ⟨x, _, hx⟩ := List.exists_of_findSome?_eq_some hfs
        obtain ⟨Q', hQ', hpair⟩ := Option.map_eq_some_iff.mp hx
        obtain ⟨rfl, rfl⟩ := Prod.mk.inj hpair
        obtain ⟨hQs, hQ1⟩ := hinv _ _ hQ'
        have h0 := ih _ _ (polySorted_clearAtom hQs hD) polySorted_zero h
        rw [Poly.eval_zero] at h0
        exact clearAtom_zero_imp ρ _ _ _ h0 hQ1 (fun mc hmc => monoSorted_nodup (hD mc hmc))

end NutilsVerif.C04
