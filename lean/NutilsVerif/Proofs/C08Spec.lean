import NutilsVerif.Model.C08
import Mathlib.Algebra.MvPolynomial.PDeriv
import Mathlib.Algebra.Order.Field.Rat
import Mathlib.Tactic.Ring
/-!
# C08 — the executable polynomial specification (`MPoly`, `pderiv`, `evalP`) is Mathlib's `MvPolynomial` calculus
-/
namespace NutilsVerif.C08.Spec
open MvPolynomial

/-- the monomial `X_k ^ e₀ · X_{k+1} ^ e₁ · …` -/
noncomputable def monoFrom : Nat → List Nat → MvPolynomial ℕ ℚ
  | _, [] => 1
  | k, e :: es => X k ^ e * monoFrom (k+1) es

noncomputable def termMv (t : Rat × List Nat) : MvPolynomial ℕ ℚ := C t.1 * monoFrom 0 t.2

/-- meaning of a term list as a polynomial in the variables `X 0, X 1, …` over ℚ -/
noncomputable def toMv (p : MPoly) : MvPolynomial ℕ ℚ := (p.map termMv).sum

theorem pderiv_monoFrom_lt (i k : Nat) (es : List Nat) (h : i < k) : MvPolynomial.pderiv i (monoFrom k es) = 0 := by
  induction es generalizing k with
  | nil => simp [monoFrom]
  | cons e es ih =>
    have hne : k ≠ i := by omega
    simp [monoFrom, ih (k+1) (by omega), Derivation.leibniz_pow, pderiv_X_of_ne hne]

theorem pderiv_monoFrom (i k : Nat) (es : List Nat) (h : k ≤ i) :
    MvPolynomial.pderiv i (monoFrom k es) = C ((es.getD (i-k) 0 : ℕ) : ℚ) * monoFrom k (es.set (i-k) (es.getD (i-k) 0 - 1)) := by
  induction es generalizing k with
  | nil => simp [monoFrom]
  | cons e es ih =>
    rcases Nat.eq_or_lt_of_le h with heq | hlt
    · subst heq
      simp only [Nat.sub_self, List.getD_cons_zero, List.set_cons_zero, monoFrom, pderiv_mul,
        pderiv_monoFrom_lt k (k+1) es (by omega), mul_zero, add_zero, Derivation.leibniz_pow, pderiv_X_self]
      simp only [nsmul_eq_mul, smul_eq_mul, mul_one, map_natCast]
      ring
    · obtain ⟨m, hm⟩ : ∃ m, i - k = m + 1 := ⟨i - k - 1, by omega⟩
      have hm' : i - (k+1) = m := by omega
      have hne : k ≠ i := by omega
      rw [hm]
      simp only [List.getD_cons_succ, List.set_cons_succ, monoFrom, pderiv_mul, Derivation.leibniz_pow,
        pderiv_X_of_ne hne, smul_zero, zero_mul, zero_add]
      rw [ih (k+1) (by omega), hm']
      ring

theorem termMv_pderiv (i : Nat) (c : Rat) (es : List Nat) :
    MvPolynomial.pderiv i (termMv (c, es)) =
      if es.getD i 0 = 0 then 0 else termMv (c * ((es.getD i 0 : ℕ) : ℚ), es.set i (es.getD i 0 - 1)) := by
  simp only [termMv, pderiv_C_mul, pderiv_monoFrom i 0 es (Nat.zero_le _), Nat.sub_zero]
  split
  · rename_i h0; rw [h0]; simp
  · rw [C_mul]; ring

/-- the model's formal derivative is `MvPolynomial.pderiv` -/
theorem toMv_pderiv (i : Nat) (p : MPoly) : toMv (C08.pderiv i p) = MvPolynomial.pderiv i (toMv p) := by
  induction p with
  | nil => simp [toMv, C08.pderiv]
  | cons t p ih =>
    obtain ⟨c, es⟩ := t
    have hcons : toMv ((c, es) :: p) = termMv (c, es) + toMv p := by simp [toMv]
    rw [hcons, map_add, ← ih, termMv_pderiv]
    unfold C08.pderiv
    rw [List.filterMap_cons]
    by_cases h0 : es.getD i 0 = 0
    · simp only [h0, if_true, toMv, zero_add]
    · simp only [h0, if_false, toMv, List.map_cons, List.sum_cons]

/-! ### evaluation -/

theorem ratOps_pow (x : Rat) (n : Nat) : ratOps.pow x n = x ^ n := by
  induction n with
  | zero => simp [Ops.pow, ratOps]
  | succ n ih => show ratOps.pow x n * x = _; rw [ih, pow_succ]

theorem foldl_add_eq {α} (g : α → Rat) (a : Rat) (l : List α) :
    l.foldl (fun acc t => acc + g t) a = a + (l.map g).sum := by
  induction l generalizing a with
  | nil => simp
  | cons t l ih => simp [ih, add_assoc]

theorem foldl_mul_eq {α} (g : α → Rat) (a : Rat) (l : List α) :
    l.foldl (fun acc t => acc * g t) a = a * (l.map g).prod := by
  induction l generalizing a with
  | nil => simp
  | cons t l ih => simp [ih, mul_assoc]

theorem evalMono_eq (x : List Rat) (es : List Nat) :
    evalMono ratOps x es = ((List.zip x es).map fun t => t.1 ^ t.2).prod := by
  unfold evalMono
  have : (fun (acc : Rat) (t : Rat × Nat) => ratOps.mul acc (ratOps.pow t.1 t.2)) = fun acc t => acc * (t.1 ^ t.2) := by
    funext acc t; rw [ratOps_pow]; rfl
  show List.foldl (fun (acc : Rat) (t : Rat × Nat) => ratOps.mul acc (ratOps.pow t.1 t.2)) ratOps.one _ = _
  rw [this, foldl_mul_eq]; show (1 : Rat) * _ = _; rw [one_mul]

theorem eval_monoFrom (x : List Rat) (k : Nat) (es : List Nat) (h : es.length + k ≤ x.length) :
    eval (fun i => x.getD i 0) (monoFrom k es) = ((List.zip (x.drop k) es).map fun t => t.1 ^ t.2).prod := by
  induction es generalizing k with
  | nil => simp [monoFrom]
  | cons e es ih =>
    have hk : k < x.length := by simp at h; omega
    rw [List.drop_eq_getElem_cons hk]
    simp only [monoFrom, map_mul, map_pow, eval_X, List.zip_cons_cons, List.map_cons, List.prod_cons]
    rw [ih (k+1) (by simp at h ⊢; omega)]
    congr 2
    simp [List.getD_eq_getElem?_getD, hk]

theorem evalP_eq (x : List Rat) (p : MPoly) (h : ∀ t ∈ p, t.2.length ≤ x.length) :
    evalP ratOps x p = eval (fun i => x.getD i 0) (toMv p) := by
  unfold evalP
  show List.foldl (fun (acc : Rat) (t : Rat × List Nat) => acc + t.1 * evalMono ratOps x t.2) 0 p = _
  rw [foldl_add_eq, zero_add, toMv]
  rw [map_list_sum, List.map_map]
  congr 1
  apply List.map_congr_left
  intro t ht
  simp only [Function.comp, termMv, map_mul, eval_C]
  rw [eval_monoFrom x 0 t.2 (by simpa using h t ht), evalMono_eq]
  simp

end NutilsVerif.C08.Spec
