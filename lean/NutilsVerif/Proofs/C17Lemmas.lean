import NutilsVerif.Model.C17
/-!
# C17 — helper lemmas for the injectivity proof
-/
namespace NutilsVerif.C17

/-! ### generic list lemmas -/

theorem split_nul {t1 t2 b1 b2 : Bytes} (h1 : (0:UInt8) ∉ t1) (h2 : (0:UInt8) ∉ t2)
    (h : t1 ++ 0 :: b1 = t2 ++ 0 :: b2) : t1 = t2 ∧ b1 = b2 := by
  induction t1 generalizing t2 with
  | nil =>
    cases t2 with
    | nil => simpa using h
    | cons a t2 =>
      simp at h
      exact absurd (h.1 ▸ List.mem_cons_self) h2
  | cons a t1 ih =>
    cases t2 with
    | nil =>
      simp at h
      exact absurd (h.1 ▸ List.mem_cons_self) h1
    | cons b t2 =>
      simp at h
      have := ih (fun hm => h1 (List.mem_cons_of_mem _ hm)) (fun hm => h2 (List.mem_cons_of_mem _ hm)) h.2
      exact ⟨by rw [h.1, this.1], this.2⟩

theorem flatten_inj_len {L : Nat} (hL : 0 < L) : ∀ {xs ys : List Bytes},
    (∀ x ∈ xs, x.length = L) → (∀ y ∈ ys, y.length = L) → xs.flatten = ys.flatten → xs = ys
  | [], [], _, _, _ => rfl
  | [], y :: ys, _, hy, h => by
    have := hy y List.mem_cons_self
    simp at h
    have h0 := h.1
    subst h0
    simp at this; omega
  | x :: xs, [], hx, _, h => by
    have := hx x List.mem_cons_self
    simp at h
    have h0 := h.1
    subst h0
    simp at this; omega
  | x :: xs, y :: ys, hx, hy, h => by
    simp only [List.flatten_cons] at h
    have hl : x.length = y.length := by
      rw [hx x List.mem_cons_self, hy y List.mem_cons_self]
    have := List.append_inj h hl
    rw [this.1, flatten_inj_len hL (fun a ha => hx a (List.mem_cons_of_mem _ ha)) (fun a ha => hy a (List.mem_cons_of_mem _ ha)) this.2]

/-- a permutation between images lifts to a permutation of the sources -/
theorem perm_map_lift {α β : Type} (f g : α → β) : ∀ (xs ys : List α), (xs.map f).Perm (ys.map g) →
    ∃ ys', ys.Perm ys' ∧ xs.map f = ys'.map g
  | [], ys, h => by
    have : ys = [] := by simpa using h.symm.eq_nil
    exact ⟨[], by simp [this], rfl⟩
  | x :: xs, ys, h => by
    have hm : f x ∈ ys.map g := h.subset (by simp)
    obtain ⟨y, hy, hfy⟩ := List.mem_map.mp hm
    obtain ⟨l1, l2, rfl⟩ := List.append_of_mem hy
    have h2 : (xs.map f).Perm ((l1 ++ l2).map g) := by
      have h' : (f x :: xs.map f).Perm (g y :: (l1.map g ++ l2.map g)) := by
        refine h.trans ?_
        simp only [List.map_append, List.map_cons]
        exact List.perm_middle
      rw [hfy] at h'
      simpa using h'.cons_inv
    obtain ⟨ys', hp, he⟩ := perm_map_lift f g xs (l1 ++ l2) h2
    refine ⟨y :: ys', List.perm_middle.trans (hp.cons y), ?_⟩
    simp [he, hfy]

/-! ### lengths of contributions -/

def roleLen : Role → Nat | .obj => 20 | .pair => 40 | .counted => 24

theorem fmt4_len {n : Nat} (h : n < 10000) : (fmt4 n).length = 4 := by simp [fmt4, h]

variable {H : Bytes → Bytes}

theorem emit_obj_len (hlen : ∀ b, (H b).length = 20) (v : Value) (h : wf .obj v = true) : (emit H v).length = 20 := by
  cases v <;> simp [wf] at h <;> simp [emit, emit1, shape, hlen]

theorem emit_len (hlen : ∀ b, (H b).length = 20) (v : Value) (r : Role) (h : wf r v = true) :
    (emit H v).length = roleLen r := by
  cases r with
  | obj => exact emit_obj_len hlen v h
  | pair =>
    cases v <;> simp [wf] at h
    rename_i k v
    have h1 := emit_obj_len (H := H) hlen k h.1
    have h2 := emit_obj_len (H := H) hlen v h.2
    simp only [emit, emit1, shape, body, List.length_append, roleLen] at *
    omega
  | counted =>
    cases v <;> simp [wf] at h
    rename_i n v
    have h2 := emit_obj_len (H := H) hlen v h.2
    simp only [emit, emit1, shape, body, List.length_append, roleLen, fmt4_len h.1] at *
    omega

/-! ### list views of the mutual definitions -/

theorem emitL_eq_map (xs : List Value) : emitL H xs = xs.map (emit H) := by
  induction xs with
  | nil => simp [emitL]
  | cons x xs ih => simp [emitL, ih, emit]

theorem wfL_iff (r : Role) (xs : List Value) : wfL r xs = true ↔ ∀ x ∈ xs, wf r x = true := by
  induction xs with
  | nil => simp [wfL]
  | cons x xs ih => simp [wfL, ih]

theorem respectsL_iff (reg : Registry) (xs : List Value) : respectsL reg xs = true ↔ ∀ x ∈ xs, respects reg x = true := by
  induction xs with
  | nil => simp [respectsL]
  | cons x xs ih => simp [respectsL, ih]

theorem mem_fedL {a : Bytes} {xs : List Value} : a ∈ fedL H xs ↔ ∃ x ∈ xs, a ∈ fed H x := by
  induction xs with
  | nil => simp [fedL]
  | cons x xs ih => simp [fedL, ih]

theorem CollisionFree.mono {A B A' B' : List Bytes} (h : CollisionFree H A B) (hA : ∀ a ∈ A', a ∈ A) (hB : ∀ b ∈ B', b ∈ B) :
    CollisionFree H A' B' := fun a ha b hb => h a (hA a ha) b (hB b hb)

/-! ### injectivity of the formatting helpers -/

theorem utf8_inj {s t : String} (h : utf8 s = utf8 t) : s = t := by
  unfold utf8 at h
  apply String.toByteArray_inj.mp
  apply ByteArray.ext
  exact Array.toList_inj.mp h

theorem fmt4_inj {n m : Nat} (hn : n < 10000) (hm : m < 10000) (h : fmt4 n = fmt4 m) : n = m := by
  simp only [fmt4, hn, hm, if_true, List.cons.injEq, and_true] at h
  obtain ⟨h1, h2, h3, h4⟩ := h
  have e1 := congrArg UInt8.toNat h1
  have e2 := congrArg UInt8.toNat h2
  have e3 := congrArg UInt8.toNat h3
  have e4 := congrArg UInt8.toNat h4
  simp only [UInt8.toNat_ofNat'] at e1 e2 e3 e4
  omega

/-! ### facts about single nodes -/

theorem builtin_tags_nonul :
    (0:UInt8) ∉ T "NoneType" ∧ (0:UInt8) ∉ T "ellipsis" ∧ (0:UInt8) ∉ T "bool" ∧ (0:UInt8) ∉ T "int" ∧
    (0:UInt8) ∉ T "float" ∧ (0:UInt8) ∉ T "complex" ∧ (0:UInt8) ∉ T "str" ∧ (0:UInt8) ∉ T "bytes" ∧
    (0:UInt8) ∉ T "type" ∧ (0:UInt8) ∉ T "tuple" ∧ (0:UInt8) ∉ T "list" ∧ (0:UInt8) ∉ T "dict" ∧
    (0:UInt8) ∉ T "set" ∧ (0:UInt8) ∉ T "frozenset" ∧ (0:UInt8) ∉ T "method" ∧ (0:UInt8) ∉ T "ndarray" := by
  decide

theorem noNul_iff (b : Bytes) : noNul b = true ↔ (0:UInt8) ∉ b := by
  simp [noNul]

theorem tag_nonul (v : Value) (h : wf .obj v = true) (hs : shape v = .tagged) : (0:UInt8) ∉ tagB v := by
  obtain ⟨h1, h2, h3, h4, h5, h6, h7, h8, h9, h10, h11, h12, h13, h14, h15, h16⟩ := builtin_tags_nonul
  cases v <;> simp [shape] at hs <;> simp only [wf, Bool.and_eq_true, noNul_iff] at h <;> simp only [tagB] <;> first | assumption | exact h.1 | exact h | skip

end NutilsVerif.C17
