import NutilsVerif.Model.C12
/-!
# C12 — correctness of the `merge_index_map` model (helper lemmas; no Mathlib needed)
-/
namespace NutilsVerif.C12

/-! ### basic facts about `get`, `set`, `lmin` -/

theorem get_lt {m : List Nat} {i : Nat} (h : i < m.length) : get m i = m[i] := by
  simp [get, h]

theorem get_ge {m : List Nat} {i : Nat} (h : m.length ≤ i) : get m i = i := by
  simp [get, h]

theorem get_set (m : List Nat) (r v i : Nat) :
    get (m.set r v) i = if r = i ∧ r < m.length then v else get m i := by
  unfold get
  rw [List.getElem?_set]
  by_cases h : r = i
  · subst h
    by_cases h2 : r < m.length
    · simp [h2]
    · simp [h2]
  · simp [h]

theorem get_range (n i : Nat) : get (List.range n) i = i := by
  unfold get
  by_cases h : i < n
  · simp [h]
  · simp [h]

theorem lmin_le_head (a : Nat) (l : List Nat) : lmin a l ≤ a := by
  induction l generalizing a with
  | nil => simp [lmin]
  | cons b t ih => simp only [lmin]; exact Nat.le_trans (ih _) (Nat.min_le_left _ _)

theorem lmin_le_mem (a : Nat) (l : List Nat) : ∀ x ∈ l, lmin a l ≤ x := by
  induction l generalizing a with
  | nil => simp
  | cons b t ih =>
    intro x hx
    simp only [lmin]
    rcases List.mem_cons.mp hx with h | h
    · subst h; exact Nat.le_trans (lmin_le_head _ _) (Nat.min_le_right _ _)
    · exact ih _ x h

theorem lmin_mem (a : Nat) (l : List Nat) : lmin a l ∈ a :: l := by
  induction l generalizing a with
  | nil => simp [lmin]
  | cons b t ih =>
    simp only [lmin]
    have := ih (min a b)
    rcases List.mem_cons.mp this with h | h
    · rw [h]
      by_cases hab : a ≤ b
      · rw [Nat.min_eq_left hab]; simp
      · rw [Nat.min_eq_right (by omega)]; simp
    · exact List.mem_cons_of_mem _ (List.mem_cons_of_mem _ h)

/-! ### the invariant `index_map[i] ≤ i` and roots -/

/-- the pointer-forest invariant -/
def Inv (m : List Nat) : Prop := ∀ i, get m i ≤ i

theorem inv_range (n : Nat) : Inv (List.range n) := fun i => by rw [get_range]; exact Nat.le_refl _

theorem findRoot_le (m : List Nat) (i : Nat) : findRoot m i ≤ i := by
  induction i using Nat.strongRecOn with
  | _ i ih =>
    rw [findRoot]
    split
    · rename_i h; exact Nat.le_trans (ih _ h) (Nat.le_of_lt h)
    · exact Nat.le_refl _

theorem findRoot_not_lt (m : List Nat) (i : Nat) : ¬ get m (findRoot m i) < findRoot m i := by
  induction i using Nat.strongRecOn with
  | _ i ih =>
    rw [findRoot]
    split
    · rename_i h; exact ih _ h
    · assumption

theorem findRoot_of_root {m : List Nat} {r : Nat} (h : ¬ get m r < r) : findRoot m r = r := by
  rw [findRoot]; simp [h]

theorem findRoot_idem (m : List Nat) (i : Nat) : findRoot m (findRoot m i) = findRoot m i :=
  findRoot_of_root (findRoot_not_lt m i)

theorem findRoot_step {m : List Nat} {i : Nat} (h : get m i < i) : findRoot m i = findRoot m (get m i) := by
  rw [findRoot]; simp [h]

theorem findRoot_range (n i : Nat) : findRoot (List.range n) i = i :=
  findRoot_of_root (by rw [get_range]; omega)

theorem findRoot_lt_length {m : List Nat} {i : Nat} (h : i < m.length) : findRoot m i < m.length :=
  Nat.lt_of_le_of_lt (findRoot_le m i) h

/-! ### `setAll` -/

theorem length_setAll (m rs : List Nat) (v : Nat) : (setAll m rs v).length = m.length := by
  unfold setAll
  induction rs generalizing m with
  | nil => rfl
  | cons r t ih => simp only [List.foldl_cons]; rw [ih]; simp

theorem get_setAll (m rs : List Nat) (v i : Nat) (hr : ∀ r ∈ rs, r < m.length) :
    get (setAll m rs v) i = if i ∈ rs then v else get m i := by
  unfold setAll
  induction rs generalizing m with
  | nil => simp
  | cons r t ih =>
    simp only [List.foldl_cons]
    rw [ih (m.set r v) (by intro x hx; simp; exact hr x (List.mem_cons_of_mem _ hx))]
    rw [get_set]
    by_cases hit : i ∈ t
    · simp [hit]
    · by_cases hri : r = i
      · subst hri; simp [hit, hr r (List.mem_cons_self)]
      · have : ¬ i = r := fun h => hri h.symm
        simp [hit, hri, this]

/-! ### one merge step -/

section step
variable (m : List Nat) (s : List Nat) (r0 : Nat) (rs : List Nat)

/-- result of merging the roots `R = r0 :: rs` (all of them roots of `m`, all in range) -/
theorem step_get (hR : ∀ r ∈ r0 :: rs, r < m.length) (i : Nat) :
    get (setAll m (r0 :: rs) (lmin r0 rs)) i = if i ∈ r0 :: rs then lmin r0 rs else get m i :=
  get_setAll m (r0 :: rs) _ i hR

theorem step_inv (hm : Inv m) (hR : ∀ r ∈ r0 :: rs, r < m.length) :
    Inv (setAll m (r0 :: rs) (lmin r0 rs)) := by
  intro i
  rw [step_get m r0 rs hR]
  split
  · rename_i h
    rcases List.mem_cons.mp h with h | h
    · subst h; exact lmin_le_head _ _
    · exact lmin_le_mem _ _ _ h
  · exact hm i

theorem step_root (_hm : Inv m) (hR : ∀ r ∈ r0 :: rs, r < m.length) (hroot : ∀ r ∈ r0 :: rs, ¬ get m r < r) (i : Nat) :
    findRoot (setAll m (r0 :: rs) (lmin r0 rs)) i
      = if findRoot m i ∈ r0 :: rs then lmin r0 rs else findRoot m i := by
  have hvmem := lmin_mem r0 rs
  have hvle : ∀ r ∈ r0 :: rs, lmin r0 rs ≤ r := by
    intro r h
    rcases List.mem_cons.mp h with h | h
    · subst h; exact lmin_le_head _ _
    · exact lmin_le_mem _ _ _ h
  induction i using Nat.strongRecOn with
  | _ i ih =>
    by_cases hi : get m i < i
    · -- not a root of `m`: untouched
      have hnot : i ∉ r0 :: rs := fun h => hroot i h hi
      have hg : get (setAll m (r0 :: rs) (lmin r0 rs)) i = get m i := by
        rw [step_get m r0 rs hR]; simp only [hnot, if_false]
      rw [findRoot_step (by rw [hg]; exact hi), hg, ih _ hi, findRoot_step hi]
    · -- a root of `m`
      rw [findRoot_of_root hi]
      by_cases hmem : i ∈ r0 :: rs
      · simp only [hmem, if_true]
        have hg : get (setAll m (r0 :: rs) (lmin r0 rs)) i = lmin r0 rs := by
          rw [step_get m r0 rs hR]; simp only [hmem, if_true]
        have hle := hvle i hmem
        by_cases hlt : lmin r0 rs < i
        · rw [findRoot_step (by rw [hg]; exact hlt), hg, ih _ hlt]
          rw [findRoot_of_root (hroot _ hvmem)]
          simp only [hvmem, if_true]
        · have : lmin r0 rs = i := by omega
          rw [findRoot_of_root (by rw [hg]; omega)]
          exact this.symm
      · simp only [hmem, if_false]
        apply findRoot_of_root
        rw [step_get m r0 rs hR]; simp only [hmem, if_false]; exact hi

end step

/-! ### soundness and completeness of the merging loop with respect to `Conn` -/

theorem Conn.mono {sets sets' : List (List Nat)} (h : ∀ s ∈ sets, s ∈ sets') {i j : Nat} (c : Conn sets i j) : Conn sets' i j := by
  induction c with
  | base hs hi hj => exact .base (h _ hs) hi hj
  | refl i => exact .refl i
  | symm _ ih => exact .symm ih
  | trans _ _ ih1 ih2 => exact .trans ih1 ih2

theorem conn_nil {i j : Nat} (c : Conn [] i j) : i = j := by
  induction c with
  | base hs _ _ => cases hs
  | refl i => rfl
  | symm _ ih => exact ih.symm
  | trans _ _ ih1 ih2 => exact ih1.trans ih2

/-- state of the merging loop: `m` represents exactly the relation generated by the processed sets -/
structure Rep (m : List Nat) (n : Nat) (done : List (List Nat)) : Prop where
  len : m.length = n
  inv : Inv m
  iff : ∀ i j, findRoot m i = findRoot m j ↔ Conn done i j

theorem rep_init (n : Nat) : Rep (List.range n) n [] where
  len := by simp
  inv := inv_range n
  iff := by
    intro i j
    rw [findRoot_range, findRoot_range]
    exact ⟨fun h => h ▸ .refl i, conn_nil⟩

theorem rep_step {m : List Nat} {n : Nat} {done : List (List Nat)} (h : Rep m n done) (s : List Nat)
    (hs : ∀ i ∈ s, i < n) {m' : List Nat} (hm' : mergeStepNat m s = .ok m') : Rep m' n (done ++ [s]) := by
  unfold mergeStepNat at hm'
  match hres : s.map (findRoot m), hm' with
  | r0 :: rs, hm' =>
    injection hm' with hm'
    have hRmem : ∀ r, r ∈ r0 :: rs ↔ ∃ a ∈ s, findRoot m a = r := by
      intro r; rw [← hres]; simp
    have hR : ∀ r ∈ r0 :: rs, r < m.length := by
      intro r hr
      obtain ⟨a, ha, rfl⟩ := (hRmem r).mp hr
      exact findRoot_lt_length (by rw [h.len]; exact hs a ha)
    have hroot : ∀ r ∈ r0 :: rs, ¬ get m r < r := by
      intro r hr
      obtain ⟨a, _, rfl⟩ := (hRmem r).mp hr
      exact findRoot_not_lt m a
    subst hm'
    refine ⟨by rw [length_setAll]; exact h.len, step_inv m r0 rs h.inv hR, ?_⟩
    intro i j
    rw [step_root m r0 rs h.inv hR hroot, step_root m r0 rs h.inv hR hroot]
    have hv := lmin_mem r0 rs
    have old : ∀ {a b}, findRoot m a = findRoot m b → Conn (done ++ [s]) a b := fun e =>
      ((h.iff _ _).mp e).mono (fun t ht => List.mem_append_left _ ht)
    have toRoot : ∀ a, Conn (done ++ [s]) a (findRoot m a) := fun a => old (findRoot_idem m a).symm
    constructor
    · intro e
      by_cases hi : findRoot m i ∈ r0 :: rs <;> by_cases hj : findRoot m j ∈ r0 :: rs
      · obtain ⟨a, ha, ea⟩ := (hRmem _).mp hi
        obtain ⟨b, hb, eb⟩ := (hRmem _).mp hj
        have hab : Conn (done ++ [s]) a b := .base (List.mem_append_right _ (List.mem_singleton_self s)) ha hb
        exact .trans (old ea.symm) (.trans hab (old eb))
      · simp only [hi, hj, if_true, if_false] at e
        exact absurd (e ▸ hv) hj
      · simp only [hi, hj, if_true, if_false] at e
        exact absurd (e ▸ hv) hi
      · simp only [hi, hj, if_false] at e
        exact old e
    · intro c
      induction c with
      | base ht hi hj =>
        rename_i t a b
        rcases List.mem_append.mp ht with ht | ht
        · have e := (h.iff a b).mpr (.base ht hi hj)
          rw [e]
        · have : t = s := by simpa using ht
          subst this
          have ha : findRoot m a ∈ r0 :: rs := (hRmem _).mpr ⟨a, hi, rfl⟩
          have hb : findRoot m b ∈ r0 :: rs := (hRmem _).mpr ⟨b, hj, rfl⟩
          simp only [ha, hb, if_true]
      | refl i => rfl
      | symm _ ih => exact ih.symm
      | trans _ _ ih1 ih2 => exact ih1.trans ih2
  | [], hm' => simp at hm'

theorem rep_fold {n : Nat} (sets : List (List Nat)) (hs : ∀ s ∈ sets, ∀ i ∈ s, i < n) :
    ∀ {m : List Nat} {done : List (List Nat)}, Rep m n done → ∀ {m'}, sets.foldlM mergeStepNat m = .ok m' →
      Rep m' n (done ++ sets) := by
  induction sets with
  | nil =>
    intro m done h m' e
    simp only [List.foldlM_nil] at e
    injection e with e
    subst e; simpa using h
  | cons s t ih =>
    intro m done h m' e
    rw [List.foldlM_cons] at e
    cases hstep : mergeStepNat m s with
    | ok m1 =>
      rw [hstep] at e
      have h1 := rep_step h s (hs s List.mem_cons_self) hstep
      have := ih (fun s' hs' => hs s' (List.mem_cons_of_mem _ hs')) h1 e
      simpa using this
    | error err => rw [hstep] at e; cases e

/-- the merging loop succeeds when every set is non-empty -/
theorem fold_ok (sets : List (List Nat)) (hne : ∀ s ∈ sets, s ≠ []) (m : List Nat) :
    ∃ m', sets.foldlM mergeStepNat m = .ok m' := by
  induction sets generalizing m with
  | nil => exact ⟨m, rfl⟩
  | cons s t ih =>
    rw [List.foldlM_cons]
    have hs := hne s List.mem_cons_self
    match s, hs with
    | a :: s', _ =>
      simp only [mergeStepNat, List.map_cons]
      exact ih (fun s hs => hne s (List.mem_cons_of_mem _ hs)) _

/-! ### the final pass -/

/-- number of roots below `r` -/
def rank (m : List Nat) (r : Nat) : Nat := (List.range r).countP (fun k => get m k == k)

/-- the value the final pass writes at position `k` -/
def finalVal (condense : Bool) (m : List Nat) (k : Nat) : Nat :=
  if condense then rank m (findRoot m k) else findRoot m k

theorem rank_succ (m : List Nat) (r : Nat) : rank m (r+1) = rank m r + (if get m r = r then 1 else 0) := by
  unfold rank
  rw [List.range_succ, List.countP_append]
  by_cases h : get m r = r <;> simp [h]

theorem rank_mono (m : List Nat) {a b : Nat} (h : a ≤ b) : rank m a ≤ rank m b := by
  induction b with
  | zero => have : a = 0 := by omega
            subst this; exact Nat.le_refl _
  | succ b ih =>
    by_cases hab : a = b + 1
    · subst hab; exact Nat.le_refl _
    · have := ih (by omega)
      rw [rank_succ]; omega

theorem rank_lt_of_root (m : List Nat) {a b : Nat} (ha : get m a = a) (h : a < b) : rank m a < rank m b := by
  have h1 : rank m (a+1) = rank m a + 1 := by rw [rank_succ]; simp [ha]
  have h2 := rank_mono m (show a + 1 ≤ b from h)
  omega

/-- every rank value below `rank m n` is attained by a root below `n` -/
theorem rank_surj (m : List Nat) (n k : Nat) (h : k < rank m n) : ∃ r, r < n ∧ get m r = r ∧ rank m r = k := by
  induction n with
  | zero => simp [rank] at h
  | succ n ih =>
    rw [rank_succ] at h
    by_cases hk : k < rank m n
    · obtain ⟨r, hr, h1, h2⟩ := ih hk
      exact ⟨r, by omega, h1, h2⟩
    · by_cases hroot : get m n = n
      · simp only [hroot, if_true] at h
        exact ⟨n, by omega, hroot, by omega⟩
      · simp only [hroot, if_false] at h; omega

/-- loop invariant of the final pass after `i` iterations -/
structure FinalInv (condense : Bool) (m : List Nat) (i : Nat) (st : List Nat × Nat) : Prop where
  len : st.1.length = m.length
  lo : ∀ k, k < i → get st.1 k = finalVal condense m k
  hi : ∀ k, i ≤ k → get st.1 k = get m k
  cnt : st.2 = rank m i

theorem final_step {condense : Bool} {m : List Nat} (hm : Inv m) {i : Nat} (hi : i < m.length) {st : List Nat × Nat}
    (h : FinalInv condense m i st) : FinalInv condense m (i+1) (finalStep condense st i) := by
  obtain ⟨a, count⟩ := st
  have hlen : a.length = m.length := h.len
  have hptr : get a i = get m i := h.hi i (Nat.le_refl _)
  have hcnt : count = rank m i := h.cnt
  unfold finalStep
  simp only [hptr]
  by_cases hroot : get m i = i
  · have hr : findRoot m i = i := findRoot_of_root (by omega)
    have hb : (i == get m i) = true := by simp [hroot]
    simp only [hb, if_true]
    refine ⟨?_, ?_, ?_, ?_⟩
    · cases condense <;> simp [hlen]
    · intro k hk
      by_cases hki : k = i
      · subst hki
        cases condense
        · simp only [Bool.false_eq_true, if_false]
          rw [hptr, hroot]; simp [finalVal, hr]
        · simp only [if_true]
          rw [get_set]; simp [hlen, hi, finalVal, hr, hcnt]
      · have hlo := h.lo k (by omega)
        cases condense
        · simpa using hlo
        · simp only [if_true]; rw [get_set]
          have : ¬ i = k := fun e => hki e.symm
          simp only [this, false_and, if_false]; exact hlo
    · intro k hk
      have hhi := h.hi k (by omega)
      cases condense
      · simpa using hhi
      · simp only [if_true]; rw [get_set]
        have : ¬ i = k := by omega
        simp only [this, false_and, if_false]; exact hhi
    · show count + 1 = rank m (i+1)
      rw [rank_succ]; simp [hroot, hcnt]
  · have hlt : get m i < i := by have := hm i; omega
    have hb : (i == get m i) = false := by simp; omega
    simp only [hb]
    refine ⟨by simp [hlen], ?_, ?_, ?_⟩
    · intro k hk
      show get (a.set i (get a (get m i))) k = _
      rw [get_set]
      by_cases hki : i = k
      · subst hki
        simp only [hlen, hi, and_self, if_true]
        rw [h.lo _ hlt]
        unfold finalVal
        rw [findRoot_step hlt]
      · simp only [hki, false_and, if_false]
        exact h.lo k (by omega)
    · intro k hk
      show get (a.set i (get a (get m i))) k = _
      rw [get_set]
      have : ¬ i = k := by omega
      simp only [this, false_and, if_false]
      exact h.hi k (by omega)
    · show count = rank m (i+1)
      rw [rank_succ]; simp [hroot, hcnt]

theorem final_fold {condense : Bool} {m : List Nat} (hm : Inv m) (i : Nat) (hi : i ≤ m.length) :
    FinalInv condense m i ((List.range i).foldl (finalStep condense) (m, 0)) := by
  induction i with
  | zero => exact ⟨rfl, by intro k hk; omega, by intro k _; rfl, by simp [rank]⟩
  | succ i ih =>
    rw [List.range_succ, List.foldl_append]
    exact final_step hm (by omega) (ih (by omega))

theorem finalPass_spec {condense : Bool} {m : List Nat} (hm : Inv m) :
    (finalPass condense m).1.length = m.length ∧
    (∀ k, k < m.length → get (finalPass condense m).1 k = finalVal condense m k) ∧
    (finalPass condense m).2 = rank m m.length := by
  have h := final_fold (condense := condense) hm m.length (Nat.le_refl _)
  exact ⟨h.len, h.lo, h.cnt⟩

end NutilsVerif.C12

namespace NutilsVerif.C12

/-! ### the `Int`-indexed entry point agrees with the `Nat` form on normalised sets -/

theorem mergeStepNat_length {m : List Nat} {s : List Nat} {m' : List Nat} (h : mergeStepNat m s = .ok m') :
    m'.length = m.length := by
  unfold mergeStepNat at h
  match hres : s.map (findRoot m), h with
  | r0 :: rs, h => injection h with h; subst h; exact length_setAll _ _ _
  | [], h => simp at h

theorem fold_eq_nat (n : Nat) (sets : List (List Int)) (sets' : List (List Nat))
    (h : sets.mapM (fun s => s.mapM (normIdx n)) = .ok sets') (m : List Nat) (hm : m.length = n) :
    sets.foldlM mergeStep m = sets'.foldlM mergeStepNat m := by
  induction sets generalizing sets' m with
  | nil =>
    have : sets' = [] := by
      have : (Except.ok [] : Except MergeErr (List (List Nat))) = .ok sets' := h
      injection this with this; exact this.symm
    subst this; rfl
  | cons s t ih =>
    rw [List.mapM_cons] at h
    cases hs : s.mapM (normIdx n) with
    | error e => rw [hs] at h; cases h
    | ok s' =>
      rw [hs] at h
      cases ht : t.mapM (fun s => s.mapM (normIdx n)) with
      | error e => rw [ht] at h; cases h
      | ok t' =>
        rw [ht] at h
        have : sets' = s' :: t' := by
          have : (Except.ok (s' :: t') : Except MergeErr (List (List Nat))) = .ok sets' := h
          injection this with this; exact this.symm
        subst this
        rw [List.foldlM_cons, List.foldlM_cons]
        have e1 : mergeStep m s = mergeStepNat m s' := by
          unfold mergeStep; rw [hm, hs]; rfl
        rw [e1]
        cases hstep : mergeStepNat m s' with
        | error e => rfl
        | ok m1 =>
          exact ih t' ht m1 (by rw [mergeStepNat_length hstep]; exact hm)

theorem mergeIndexMap_eq_nat' (n : Nat) (sets : List (List Int)) (sets' : List (List Nat)) (condense : Bool)
    (h : sets.mapM (fun s => s.mapM (normIdx n)) = .ok sets') :
    mergeIndexMap n sets condense = mergeIndexMapNat n sets' condense := by
  unfold mergeIndexMap mergeIndexMapNat
  rw [fold_eq_nat n sets sets' h (List.range n) (by simp)]

theorem normIdx_lt {n : Nat} {i : Int} {k : Nat} (h : normIdx n i = .ok k) : k < n := by
  unfold normIdx at h
  split at h
  · injection h with h; omega
  · split at h
    · injection h with h; omega
    · cases h

end NutilsVerif.C12
