import NutilsVerif.Proofs.C05Index
/-!
# C05: the block position of `Inflate._assparse`  (no Mathlib)

`Inflate._assparse` looks the chunk indices `(i_0, …, i_{k-1})` of the trailing `k = dofmap.ndim` axes up in the
*flattened* dofmap, at the position `Σ i_j * strides_j` with
`strides = (1, *itertools.accumulate(dofmap.shape[:0:-1], operator.mul))[::-1]`.
Here: these strides are the row-major strides, i.e. the position is `flatIdx dofmap.shape (i_0, …, i_{k-1})`, for every
number of dofmap axes and all axis lengths.
-/
namespace NutilsVerif.C05
open NutilsVerif

theorem runProd_append : ∀ (l : List Nat) (acc x : Nat),
    runProd acc (l ++ [x]) = runProd acc l ++ [acc * shapeSize l * x]
  | [], acc, x => by simp [runProd, shapeSize]
  | n :: t, acc, x => by
    simp only [List.cons_append, runProd, runProd_append t (acc * n) x, shapeSize_cons, Nat.mul_assoc]

theorem shapeSize_reverse : ∀ s : List Nat, shapeSize s.reverse = shapeSize s
  | [] => rfl
  | n :: s => by
    rw [List.reverse_cons, shapeSize_snoc, shapeSize_reverse s, shapeSize_cons, Nat.mul_comm]

/-- strides of a block whose trailing axes (all but the first) have lengths `t` -/
def tailStrides (t : List Nat) : List Nat := (runProd 1 t.reverse).reverse

theorem blockStrides_cons (n : Nat) (t : List Nat) : blockStrides (n :: t) = tailStrides t := rfl

theorem tailStrides_nil : tailStrides [] = [1] := rfl

/-- the leading stride is the size of the remaining block, the others are the strides of the remaining block -/
theorem tailStrides_cons (m : Nat) (s : List Nat) : tailStrides (m :: s) = shapeSize (m :: s) :: tailStrides s := by
  unfold tailStrides
  rw [List.reverse_cons, runProd_append, List.reverse_append, shapeSize_reverse, shapeSize_cons]
  simp [Nat.mul_comm]

theorem foldl_add_start : ∀ (l : List Nat) (a : Nat), l.foldl (· + ·) a = a + l.foldl (· + ·) 0
  | [], a => by simp
  | x :: t, a => by
    simp only [List.foldl_cons]
    rw [foldl_add_start t (a + x), foldl_add_start t (0 + x)]
    omega

theorem stridedPos_cons (i st : Nat) (idx sts : List Nat) :
    stridedPos (i :: idx) (st :: sts) = i * st + stridedPos idx sts := by
  unfold stridedPos
  simp only [List.zipWith_cons_cons, List.foldl_cons]
  rw [foldl_add_start]
  omega

theorem stridedPos_tail : ∀ (t idx : List Nat) (i : Nat), idx.length = t.length →
    stridedPos (i :: idx) (tailStrides t) = i * shapeSize t + flatIdx t idx
  | [], [], i, _ => by simp [tailStrides_nil, stridedPos, shapeSize, flatIdx]
  | [], _ :: _, _, h => by simp at h
  | _ :: _, [], _, h => by simp at h
  | m :: s, j :: rest, i, h => by
    rw [tailStrides_cons, stridedPos_cons, stridedPos_tail s rest j (by simpa using h), flatIdx]

/-- the position `Inflate._assparse` computes is the row-major position in the dofmap block -/
theorem stridedPos_blockStrides {shape idx : List Nat} (h : idx.length = shape.length) (hs : shape ≠ []) :
    stridedPos idx (blockStrides shape) = flatIdx shape idx := by
  match shape, idx, h, hs with
  | n :: t, i :: rest, h, _ =>
    rw [blockStrides_cons, stridedPos_tail t rest i (by simpa using h), flatIdx]

theorem blockStrides_length : ∀ (shape : List Nat), shape ≠ [] → (blockStrides shape).length = shape.length
  | n :: t, _ => by
    rw [blockStrides_cons]
    induction t with
    | nil => rfl
    | cons m s ih => rw [tailStrides_cons]; simp [ih]

end NutilsVerif.C05
