import NutilsVerif.Model.C15
/-!
# C15 — the vectorised validation of `assemble_csr` accepts exactly the unambiguous triples
-/
namespace NutilsVerif.C15

theorem monotone_iff_pairwise (l : List Int) : monotone l = true ↔ l.Pairwise (· ≤ ·) := by
  induction l with
  | nil => simp [monotone]
  | cons a t ih =>
    cases t with
    | nil => simp [monotone]
    | cons b t' =>
      simp only [monotone, Bool.and_eq_true, decide_eq_true_eq, ih]
      constructor
      · rintro ⟨hab, hp⟩
        refine List.pairwise_cons.2 ⟨?_, hp⟩
        intro x hx
        rcases List.mem_cons.1 hx with rfl | hx
        · exact hab
        · exact Int.le_trans hab ((List.pairwise_cons.1 hp).1 x hx)
      · intro hp
        have := List.pairwise_cons.1 hp
        exact ⟨this.1 b (by simp), this.2⟩

theorem strictInc_iff_pairwise (l : List Int) : strictInc l = true ↔ l.Pairwise (· < ·) := by
  induction l with
  | nil => simp [strictInc]
  | cons a t ih =>
    cases t with
    | nil => simp [strictInc]
    | cons b t' =>
      simp only [strictInc, Bool.and_eq_true, decide_eq_true_eq, ih]
      constructor
      · rintro ⟨hab, hp⟩
        refine List.pairwise_cons.2 ⟨?_, hp⟩
        intro x hx
        rcases List.mem_cons.1 hx with rfl | hx
        · exact hab
        · exact Int.lt_trans hab ((List.pairwise_cons.1 hp).1 x hx)
      · intro hp
        have := List.pairwise_cons.1 hp
        exact ⟨this.1 b (by simp), this.2⟩

theorem strictInc_iff_adj (l : List Int) :
    strictInc l = true ↔ ∀ k, k + 1 < l.length → l.getD k 0 < l.getD (k+1) 0 := by
  induction l with
  | nil => simp [strictInc]
  | cons a t ih =>
    cases t with
    | nil => simp [strictInc]
    | cons b t' =>
      simp only [strictInc, Bool.and_eq_true, decide_eq_true_eq, ih]
      constructor
      · rintro ⟨hab, h⟩ k hk
        cases k with
        | zero => simpa using hab
        | succ k =>
          have := h k (by simpa using hk)
          simpa using this
      · intro h
        refine ⟨by simpa using h 0 (by simp), ?_⟩
        intro k hk
        have := h (k+1) (by simpa using hk)
        simpa using this

theorem getD_slice (l : List Int) (a n k : Nat) (hk : k < n) :
    ((l.drop a).take n).getD k 0 = l.getD (a + k) 0 := by
  simp [List.getD_eq_getElem?_getD, List.getElem?_drop, hk]

theorem length_slice {α} (l : List α) (a n : Nat) (h : a + n ≤ l.length) : ((l.drop a).take n).length = n := by
  simp; omega

/-- strict increase of a slice, in terms of neighbour comparisons in the whole list -/
theorem strictInc_slice (l : List Int) (a n : Nat) (h : a + n ≤ l.length) :
    strictInc ((l.drop a).take n) = true ↔ ∀ k, a < k → k < a + n → l.getD (k-1) 0 < l.getD k 0 := by
  rw [strictInc_iff_adj, length_slice l a n h]
  constructor
  · intro H k h1 h2
    have := H (k - 1 - a) (by omega)
    rw [getD_slice l a n _ (by omega), getD_slice l a n _ (by omega)] at this
    have e1 : a + (k - 1 - a) = k - 1 := by omega
    have e2 : a + (k - 1 - a + 1) = k := by omega
    rwa [e1, e2] at this
  · intro H k hk
    rw [getD_slice l a n _ (by omega), getD_slice l a n _ (by omega)]
    have := H (a + k + 1) (by omega) (by omega)
    simpa [Nat.add_assoc] using this

/-- consecutive pairs of a monotone list starting at `a ≥ 0` and ending at `L` are ordered and inside `[a, L]` -/
theorem pairs_bounds : ∀ (t : List Int) (a L : Int), monotone (a :: t) = true → (a :: t).getLast? = some L →
    ∀ p ∈ List.zip (a :: t) t, a ≤ p.1 ∧ p.1 ≤ p.2 ∧ p.2 ≤ L
  | [], a, L, _, _ => by simp
  | b :: t', a, L, hm, hl => by
    intro p hp
    simp only [monotone, Bool.and_eq_true, decide_eq_true_eq] at hm
    have hl' : (b :: t').getLast? = some L := by simpa [List.getLast?_cons_cons] using hl
    have ih := pairs_bounds t' b L hm.2 hl'
    have hbL : b ≤ L := by
      cases t' with
      | nil => simp at hl'; omega
      | cons c t'' =>
        have := ih (b, c) (by simp)
        omega
    rw [List.zip_cons_cons, List.mem_cons] at hp
    rcases hp with rfl | hp
    · exact ⟨Int.le_refl _, hm.1, hbL⟩
    · have := ih p hp
      omega

theorem mono_tail_ge : ∀ (t : List Int) (a : Int), monotone (a :: t) = true → ∀ x ∈ t, a ≤ x := by
  intro t a h x hx
  have := (monotone_iff_pairwise _).1 h
  exact (List.pairwise_cons.1 this).1 x hx

/-- the discrete core: for a monotone pointer list from `a` to `L`, a position is strictly inside one of the
consecutive intervals iff it lies strictly between `a` and `L` and is not itself listed -/
theorem interior_iff_not_listed (P : Nat → Prop) : ∀ (t : List Int) (a L : Int),
    monotone (a :: t) = true → (a :: t).getLast? = some L →
    ((∀ p ∈ List.zip (a :: t) t, ∀ k : Nat, p.1 < (k:Int) → (k:Int) < p.2 → P k) ↔
     (∀ k : Nat, a < (k:Int) → (k:Int) < L → (k:Int) ∉ (a :: t) → P k))
  | [], a, L, _, hl => by
    simp at hl
    subst hl
    simp
    intro k h1 h2; omega
  | b :: t', a, L, hm, hl => by
    have hm' := hm
    simp only [monotone, Bool.and_eq_true, decide_eq_true_eq] at hm
    have hl' : (b :: t').getLast? = some L := by simpa [List.getLast?_cons_cons] using hl
    have ih := interior_iff_not_listed P t' b L hm.2 hl'
    have hge := mono_tail_ge t' b hm.2
    have hbL : b ≤ L := by
      cases t' with
      | nil => simp at hl'; omega
      | cons c t'' =>
        have := pairs_bounds (c :: t'') b L hm.2 hl' (b, c) (by simp)
        omega
    rw [List.zip_cons_cons]
    simp only [List.forall_mem_cons]
    rw [ih]
    constructor
    · rintro ⟨h1, h2⟩ k hak hkL hnot
      simp only [List.mem_cons, not_or] at hnot
      by_cases hkb : (k:Int) < b
      · exact h1 k hak hkb
      · exact h2 k (by omega) hkL (by simp only [List.mem_cons, not_or]; exact ⟨hnot.2.1, hnot.2.2⟩)
    · intro H
      refine ⟨?_, ?_⟩
      · intro k hak hkb
        refine H k hak (by omega) ?_
        simp only [List.mem_cons, not_or]
        refine ⟨by omega, by omega, ?_⟩
        intro hmem
        have := hge _ hmem
        omega
      · intro k hbk hkL hnot
        refine H k (by omega) hkL ?_
        simp only [List.mem_cons, not_or] at hnot ⊢
        exact ⟨by omega, hnot.1, hnot.2⟩


theorem orderFlags_all (rp ci : List Int) :
    (orderFlags rp ci).all id = true ↔
      ∀ k : Nat, k ≤ ci.length → (k:Int) ∈ rp ∨ (1 ≤ k ∧ k < ci.length ∧ ci.getD (k-1) 0 < ci.getD k 0) := by
  unfold orderFlags
  simp only [List.all_map, List.all_eq_true, List.mem_range, Function.comp, id, Bool.or_eq_true,
    List.contains_iff_mem, Bool.and_eq_true, decide_eq_true_eq]
  constructor
  · intro H k hk
    rcases H k (by omega) with h | h
    · exact Or.inl h
    · exact Or.inr ⟨h.1.1, h.1.2, h.2⟩
  · intro H k hk
    rcases H k (by omega) with h | h
    · exact Or.inl h
    · exact Or.inr ⟨⟨h.1, h.2.1⟩, h.2.2⟩

theorem rowptrOK_iff (rp : List Int) (n : Nat) :
    rowptrOK rp n = true ↔ ∃ t, rp = 0 :: t ∧ monotone rp = true ∧ rp.getLast? = some (n:Int) := by
  cases rp with
  | nil => simp [rowptrOK]
  | cons a t =>
    simp only [rowptrOK, Bool.and_eq_true, beq_iff_eq, List.cons.injEq]
    constructor
    · rintro ⟨⟨rfl, h2⟩, h3⟩
      exact ⟨t, ⟨rfl, rfl⟩, h2, h3⟩
    · rintro ⟨t', ⟨rfl, rfl⟩, h2, h3⟩
      exact ⟨⟨rfl, h2⟩, h3⟩

/-- Under the row-pointer and length checks, the vectorised ordering test equals the per-row specification. -/
theorem order_iff (rp ci : List Int) (n : Nat) (hrp : rowptrOK rp n = true) (hlen : ci.length = n) :
    (orderFlags rp ci).all id = (rowSlices rp ci).all strictInc := by
  obtain ⟨t, rfl, hm, hl⟩ := (rowptrOK_iff rp n).1 hrp
  rw [Bool.eq_iff_iff, orderFlags_all]
  have hb := pairs_bounds t 0 n hm hl
  have hR : (rowSlices (0 :: t) ci).all strictInc = true ↔
      ∀ p ∈ List.zip (0 :: t) t, ∀ k : Nat, p.1 < (k:Int) → (k:Int) < p.2 → ci.getD (k-1) 0 < ci.getD k 0 := by
    simp only [rowSlices, slicesBy, List.all_map, List.all_eq_true, Function.comp, List.tail_cons]
    constructor
    · intro H p hp
      have hpb := hb p hp
      have := (strictInc_slice ci p.1.toNat (p.2 - p.1).toNat (by omega)).1 (H p hp)
      intro k h1 h2
      exact this k (by omega) (by omega)
    · intro H p hp
      have hpb := hb p hp
      refine (strictInc_slice ci p.1.toNat (p.2 - p.1).toNat (by omega)).2 ?_
      intro k h1 h2
      exact H p hp k (by omega) (by omega)
  rw [hR, interior_iff_not_listed _ t 0 n hm hl]
  have h0 : (0:Int) ∈ (0 :: t) := by simp
  have hn : (n:Int) ∈ (0 :: t) := List.mem_of_getLast? hl
  constructor
  · intro H k h1 h2 hnot
    rcases H k (by omega) with h | h
    · exact absurd h hnot
    · exact h.2.2
  · intro H k hk
    by_cases hmem : (k:Int) ∈ (0 :: t)
    · exact Or.inl hmem
    · refine Or.inr ?_
      have hk0 : k ≠ 0 := by rintro rfl; exact hmem h0
      have hkn : k ≠ n := by rintro rfl; exact hmem hn
      exact ⟨by omega, by omega, H k (by omega) (by omega) hmem⟩

/-- **Theorem 1.** The vectorised validation of `assemble_csr` accepts exactly the unambiguous triples. -/
theorem accept_iff_valid' (m : CSR) : codeAccept m = validB m := by
  unfold codeAccept validate validB
  by_cases h1 : rowptrOK m.rowptr m.values.length = true
  · by_cases h2 : (m.colidx.length == m.values.length) = true
    · by_cases h3 : colRangeOK m.colidx m.ncols = true
      · have := order_iff m.rowptr m.colidx m.values.length h1 (by simpa using h2)
        rw [← this]
        cases h4 : (orderFlags m.rowptr m.colidx).all id <;> simp [h1, h2, h3, Except.isOk, Except.toBool]
      · simp [h1, h2, h3, Except.isOk, Except.toBool]
    · simp [h1, h2, Except.isOk, Except.toBool]
  · simp [h1, Except.isOk, Except.toBool]

end NutilsVerif.C15
