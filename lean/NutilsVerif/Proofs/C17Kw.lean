import NutilsVerif.Model.C17.Kw
import NutilsVerif.Proofs.C17Stable
import NutilsVerif.Proofs.C17Bind
/-!
# C17 — sorted keyword items do not depend on the caller's keyword order; byte order of integer array data
-/
namespace NutilsVerif.C17

theorem eq_of_nodup_keys {α : Type} : ∀ (l : List (Bytes × α)), (l.map (·.1)).Nodup →
    ∀ a b, a ∈ l → b ∈ l → a.1 = b.1 → a = b
  | [], _, a, _, ha, _, _ => by cases ha
  | x :: t, hn, a, b, ha, hb, hk => by
    rw [List.map_cons, List.nodup_cons] at hn
    rcases List.mem_cons.mp ha with rfl | ha' <;> rcases List.mem_cons.mp hb with rfl | hb'
    · rfl
    · exact absurd (hk ▸ List.mem_map_of_mem (f := (·.1)) hb') hn.1
    · exact absurd (hk ▸ List.mem_map_of_mem (f := (·.1)) ha') hn.1
    · exact eq_of_nodup_keys t hn.2 a b ha' hb' hk

theorem kwCanon_perm' {α : Type} {l1 l2 : List (Bytes × α)} (hn : (l1.map (·.1)).Nodup) (h : l1.Perm l2) :
    kwCanon l1 = kwCanon l2 := by
  unfold kwCanon
  have tr : ∀ (a b c : Bytes × α), kwLe a b = true → kwLe b c = true → kwLe a c = true :=
    fun a b c => bytesLe_trans a.1 b.1 c.1
  have tot : ∀ (a b : Bytes × α), (kwLe a b || kwLe b a) = true := fun a b => bytesLe_total a.1 b.1
  refine List.Perm.eq_of_pairwise (le := fun a b => kwLe a b = true) ?_
    (List.pairwise_mergeSort tr tot l1) (List.pairwise_mergeSort tr tot l2) ?_
  · intro a b ha hb hab hba
    have ha1 : a ∈ l1 := List.mem_mergeSort.mp ha
    have hb1 : b ∈ l1 := h.symm.subset (List.mem_mergeSort.mp hb)
    exact eq_of_nodup_keys l1 hn a b ha1 hb1 (bytesLe_antisymm a.1 b.1 hab hba)
  · exact (List.mergeSort_perm l1 _).trans (h.trans (List.mergeSort_perm l2 _).symm)

theorem decodeBO_reprS (big : Bool) (w : Nat) (x : Int) (hlo : -(256 ^ w : Nat) ≤ 2 * x) (hhi : 2 * x < (256 ^ w : Nat)) :
    decodeIntBO big true w (if big then (reprS w x).reverse else reprS w x) = x := by
  cases big <;> simp [decodeIntBO, decode_reprS w x hlo hhi]

theorem decodeBO_reprU (big : Bool) (w : Nat) (x : Int) (hlo : 0 ≤ x) (hhi : x < (256 ^ w : Nat)) :
    decodeIntBO big false w (if big then (reprU w x).reverse else reprU w x) = x := by
  cases big <;> simp [decodeIntBO, decode_reprU w x hlo hhi]

end NutilsVerif.C17
