import NutilsVerif.Model.C12Slice
/-! # C12 — lemmas for `Basis.__getitem__(slice)`: bounds of `slice.indices`, members and order of `numpy.arange` -/
namespace NutilsVerif.C12

theorem sliceIndices_pos_bounds {n : Nat} {st sp se : Option Int} {a b s : Int}
    (h : sliceIndices n st sp se = some (a, b, s)) (hs : 0 < s) : 0 ≤ a ∧ a ≤ n ∧ 0 ≤ b ∧ b ≤ n := by
  unfold sliceIndices at h
  simp only at h
  split at h
  · cases h
  · simp only [Option.some.injEq, Prod.mk.injEq] at h
    obtain ⟨ha, hb, hss⟩ := h
    subst hss
    have hneg : ¬ (se.getD 1 < 0) := by omega
    simp only [hneg, if_false] at ha hb
    cases st <;> cases sp <;> simp only at ha hb <;> (subst ha; subst hb) <;> (repeat' split) <;> omega

theorem lt_ceil_iff {d s : Int} (hs : 0 < s) (k : Nat) : k < ((d + s - 1) / s).toNat ↔ (k : Int) * s < d := by
  have h1 : (k : Int) < (d + s - 1) / s ↔ ((k : Int) + 1) * s ≤ d + s - 1 := by
    rw [← Int.le_ediv_iff_mul_le hs]; omega
  have h2 : ((k : Int) + 1) * s = (k : Int) * s + s := by rw [Int.add_mul, Int.one_mul]
  rw [h2] at h1
  constructor
  · intro h
    have : (k : Int) < (d + s - 1) / s := by omega
    have := h1.mp this
    omega
  · intro h
    have : (k : Int) < (d + s - 1) / s := h1.mpr (by omega)
    omega

theorem mem_arangeUp {a b s : Int} (ha : 0 ≤ a) (hs : 0 < s) (i : Nat) :
    i ∈ arangeUp a b s ↔ a ≤ i ∧ (i : Int) < b ∧ ((i : Int) - a) % s = 0 := by
  unfold arangeUp
  simp only [List.mem_map, List.mem_range]
  have hd : b - a + s - 1 = (b - a) + s - 1 := by omega
  constructor
  · rintro ⟨k, hk, rfl⟩
    rw [hd, lt_ceil_iff hs] at hk
    have hks : 0 ≤ (k : Int) * s := Int.mul_nonneg (by omega) (by omega)
    have hi : (((a + (k : Int) * s).toNat : Nat) : Int) = a + (k : Int) * s := by omega
    rw [hi]
    refine ⟨by omega, by omega, ?_⟩
    have : a + (k : Int) * s - a = (k : Int) * s := by omega
    rw [this]; exact Int.mul_emod_left _ _
  · rintro ⟨h1, h2, h3⟩
    have hdvd : s ∣ ((i : Int) - a) := Int.dvd_of_emod_eq_zero h3
    have hq : 0 ≤ ((i : Int) - a) / s := Int.ediv_nonneg (by omega) (by omega)
    have hmul : ((i : Int) - a) / s * s = (i : Int) - a := Int.ediv_mul_cancel hdvd
    refine ⟨(((i : Int) - a) / s).toNat, ?_, ?_⟩
    · rw [hd, lt_ceil_iff hs]
      have : (((((i : Int) - a) / s).toNat : Nat) : Int) = ((i : Int) - a) / s := by omega
      rw [this, hmul]; omega
    · have : (((((i : Int) - a) / s).toNat : Nat) : Int) = ((i : Int) - a) / s := by omega
      rw [this, hmul]; omega

theorem arangeUp_pairwise {a b s : Int} (ha : 0 ≤ a) (hs : 0 < s) : (arangeUp a b s).Pairwise (· < ·) := by
  unfold arangeUp
  rw [List.pairwise_map]
  refine List.Pairwise.imp ?_ (List.pairwise_lt_range)
  intro k l hkl
  have h0 : 0 ≤ (k : Int) * s := Int.mul_nonneg (by omega) (by omega)
  have h1 : (k : Int) * s < (l : Int) * s := Int.mul_lt_mul_of_pos_right (by omega) hs
  omega

end NutilsVerif.C12
