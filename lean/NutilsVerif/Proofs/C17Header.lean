import NutilsVerif.Proofs.C17Lemmas
import Std.Data.String.ToNat
import Std.Data.String.ToInt
/-!
# C17 — the formatted strings determine their fields: ndarray header (shape, dtype) and Immutable tag (qualname, version)
-/
namespace NutilsVerif.C17

def isDigitB (b : UInt8) : Prop := 48 ≤ b.toNat ∧ b.toNat ≤ 57

theorem utf8_eq (s : String) : utf8 s = s.toList.flatMap String.utf8EncodeChar := by
  unfold utf8
  rw [← String.utf8Encode_toList]
  simp [List.utf8Encode]

theorem digit_bytes (n : Nat) : ∀ b ∈ utf8 (Nat.repr n), isDigitB b := by
  intro b hb
  rw [utf8_eq, Nat.toList_repr] at hb
  obtain ⟨c, hc, hbc⟩ := List.mem_flatMap.mp hb
  have hd := Nat.isDigit_of_mem_toDigits (by decide) (by decide) hc
  simp only [Char.isDigit, Bool.and_eq_true, decide_eq_true_eq] at hd
  have h1 : c.utf8Size = 1 := Char.utf8Size_eq_one_iff.mpr (by
    have := hd.2
    exact UInt32.le_trans this (by decide))
  rw [String.utf8EncodeChar_eq_singleton h1] at hbc
  simp only [List.mem_singleton] at hbc
  subst hbc
  have l1 : (48 : UInt32).toNat ≤ c.val.toNat := UInt32.le_iff_toNat_le.mp hd.1
  have l2 : c.val.toNat ≤ (57 : UInt32).toNat := UInt32.le_iff_toNat_le.mp hd.2
  simp only [isDigitB, UInt32.toNat_toUInt8]
  have e1 : (48 : UInt32).toNat = 48 := rfl
  have e2 : (57 : UInt32).toNat = 57 := rfl
  omega

theorem span_unique {p : UInt8 → Prop} : ∀ (ds ds' r r' : Bytes), (∀ b ∈ ds, p b) → (∀ b ∈ ds', p b) →
    (∀ b, r.head? = some b → ¬ p b) → (∀ b, r'.head? = some b → ¬ p b) → ds ++ r = ds' ++ r' → ds = ds' ∧ r = r'
  | [], [], _, _, _, _, _, _, h => ⟨rfl, by simpa using h⟩
  | [], b :: ds', r, r', _, hd', hr, _, h => by
    simp only [List.nil_append, List.cons_append] at h
    exact absurd (hd' b List.mem_cons_self) (hr b (by rw [h]; rfl))
  | b :: ds, [], r, r', hd, _, _, hr', h => by
    simp only [List.nil_append, List.cons_append] at h
    exact absurd (hd b List.mem_cons_self) (hr' b (by rw [← h]; rfl))
  | a :: ds, b :: ds', r, r', hd, hd', hr, hr', h => by
    simp only [List.cons_append, List.cons.injEq] at h
    have := span_unique ds ds' r r' (fun x hx => hd x (List.mem_cons_of_mem _ hx)) (fun x hx => hd' x (List.mem_cons_of_mem _ hx)) hr hr' h.2
    exact ⟨by rw [h.1, this.1], this.2⟩

/-- `dtype.str` starts with a byte-order character (`<`, `>`, `|`, `=`): not a digit, not a comma -/
def dtypeOK : Bytes → Bool
  | b :: _ => !(decide (48 ≤ b.toNat) && decide (b.toNat ≤ 57)) && b != 44
  | [] => false

theorem dtypeOK_head {dt : Bytes} (h : dtypeOK dt = true) : ∀ b, dt.head? = some b → ¬ isDigitB b ∧ b ≠ 44 := by
  intro b hb
  cases dt with
  | nil => simp at hb
  | cons a t =>
    simp only [List.head?_cons, Option.some.injEq] at hb
    subst hb
    simp only [dtypeOK, Bool.and_eq_true, Bool.not_eq_true', Bool.and_eq_false_iff, decide_eq_false_iff_not, bne_iff_ne, ne_eq] at h
    refine ⟨?_, h.2⟩
    intro hd
    rcases h.1 with h1 | h1
    · exact h1 hd.1
    · exact h1 hd.2

theorem comma_not_digit : ¬ isDigitB 44 := by simp [isDigitB]

theorem shape_header_inj : ∀ (sh sh' : List Nat) (dt dt' : Bytes), dtypeOK dt = true → dtypeOK dt' = true →
    shapeStr sh ++ dt = shapeStr sh' ++ dt' → sh = sh' ∧ dt = dt'
  | [], [], _, _, _, _, h => ⟨rfl, by simpa [shapeStr] using h⟩
  | [], m :: t', dt, dt', hd, _, h => by
    exfalso
    have hne : utf8 (Nat.repr m) ≠ [] := by
      intro e
      have : Nat.repr m = "" := utf8_inj (by rw [e]; decide)
      exact Nat.repr_ne_empty this
    obtain ⟨b, rest, hb⟩ := List.exists_cons_of_ne_nil hne
    have hdig := digit_bytes m b (by rw [hb]; exact List.mem_cons_self)
    have hh : dt.head? = some b := by
      cases t' with
      | nil => simp only [shapeStr, List.nil_append, hb, List.cons_append] at h; rw [h]; rfl
      | cons _ _ => simp only [shapeStr, List.nil_append, hb, List.cons_append, List.append_assoc] at h; rw [h]; rfl
    exact (dtypeOK_head hd b hh).1 hdig
  | n :: t, [], dt, dt', _, hd', h => by
    exfalso
    have hne : utf8 (Nat.repr n) ≠ [] := by
      intro e
      have : Nat.repr n = "" := utf8_inj (by rw [e]; decide)
      exact Nat.repr_ne_empty this
    obtain ⟨b, rest, hb⟩ := List.exists_cons_of_ne_nil hne
    have hdig := digit_bytes n b (by rw [hb]; exact List.mem_cons_self)
    have hh : dt'.head? = some b := by
      cases t with
      | nil => simp only [shapeStr, List.nil_append, hb, List.cons_append] at h; rw [← h]; rfl
      | cons _ _ => simp only [shapeStr, List.nil_append, hb, List.cons_append, List.append_assoc] at h; rw [← h]; rfl
    exact (dtypeOK_head hd' b hh).1 hdig
  | n :: t, m :: t', dt, dt', hd, hd', h => by
    have hcomma : T "," = [44] := by decide
    -- bring both sides into the form digits ++ rest with rest starting with a non-digit
    have key : ∀ (k : Nat) (tl : List Nat) (d : Bytes), dtypeOK d = true →
        ∃ r, shapeStr (k :: tl) ++ d = utf8 (Nat.repr k) ++ r ∧ (∀ b, r.head? = some b → ¬ isDigitB b) ∧
          ((tl = [] ∧ r = d) ∨ (∃ k2 tl2, tl = k2 :: tl2 ∧ r = 44 :: (shapeStr tl ++ d))) := by
      intro k tl d hdd
      cases tl with
      | nil => exact ⟨d, by simp [shapeStr], fun b hb => (dtypeOK_head hdd b hb).1, .inl ⟨rfl, rfl⟩⟩
      | cons k2 tl2 =>
        refine ⟨44 :: (shapeStr (k2 :: tl2) ++ d), by simp [shapeStr, hcomma], ?_, .inr ⟨k2, tl2, rfl, rfl⟩⟩
        intro b hb
        simp only [List.head?_cons, Option.some.injEq] at hb
        subst hb
        exact comma_not_digit
    obtain ⟨r, e1, hr, c1⟩ := key n t dt hd
    obtain ⟨r', e2, hr', c2⟩ := key m t' dt' hd'
    rw [e1, e2] at h
    have sp := span_unique _ _ r r' (digit_bytes n) (digit_bytes m) hr hr' h
    have hnm : n = m := Nat.repr_inj.mp (utf8_inj sp.1)
    subst hnm
    rcases c1 with ⟨rfl, rfl⟩ | ⟨k2, tl2, rfl, rfl⟩ <;> rcases c2 with ⟨rfl, rfl⟩ | ⟨k2', tl2', rfl, rfl⟩
    · exact ⟨rfl, sp.2⟩
    · exfalso
      exact (dtypeOK_head hd 44 (by rw [sp.2]; rfl)).2 rfl
    · exfalso
      exact (dtypeOK_head hd' 44 (by rw [← sp.2]; rfl)).2 rfl
    · have := sp.2
      simp only [List.cons.injEq, true_and] at this
      have ih := shape_header_inj (k2 :: tl2) (k2' :: tl2') dt dt' hd hd' this
      exact ⟨by rw [ih.1], ih.2⟩

theorem header_inj {sh sh' : List Nat} {dt dt' : Bytes} (hd : dtypeOK dt = true) (hd' : dtypeOK dt' = true)
    (h : header sh dt = header sh' dt') : sh = sh' ∧ dt = dt' :=
  shape_header_inj sh sh' dt dt' hd hd' h

theorem split_sep (s : UInt8) {t1 t2 b1 b2 : Bytes} (h1 : s ∉ t1) (h2 : s ∉ t2)
    (h : t1 ++ s :: b1 = t2 ++ s :: b2) : t1 = t2 ∧ b1 = b2 := by
  induction t1 generalizing t2 with
  | nil =>
    cases t2 with
    | nil => simpa using h
    | cons a t2 =>
      simp at h
      exact absurd (h.1 ▸ List.mem_cons_self) h2
  | cons a t1 ih =>
    cases t2 with
    | nil =>
      simp at h
      exact absurd (h.1 ▸ List.mem_cons_self) h1
    | cons b t2 =>
      simp at h
      have := ih (fun hm => h1 (List.mem_cons_of_mem _ hm)) (fun hm => h2 (List.mem_cons_of_mem _ hm)) h.2
      exact ⟨by rw [h.1, this.1], this.2⟩

/-- `module.qualname:version` determines both parts when the qualified name contains no colon -/
theorem immTag_inj {m m' : Bytes} {i i' : Int} (hm : (58 : UInt8) ∉ m) (hm' : (58 : UInt8) ∉ m')
    (h : immTag m i = immTag m' i') : m = m' ∧ i = i' := by
  have hc : T ":" = [58] := by decide
  simp only [immTag, hc, List.append_assoc, List.cons_append, List.nil_append] at h
  have := split_sep 58 hm hm' h
  exact ⟨this.1, Int.repr_inj.mp (utf8_inj this.2)⟩

end NutilsVerif.C17
